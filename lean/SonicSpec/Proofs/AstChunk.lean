/-
  C15 - chunk arithmetic of ast/buffer.go: the chunked storage is a flat list.
-/
import SonicSpec.Model.AstChunk
namespace SonicSpec.Ast.Linked
variable {α : Type}

theorem div_sub_self {c i : Nat} (hc : 0 < c) (h : c ≤ i) : i / c = (i - c) / c + 1 := by
  have := Nat.add_div_right (i - c) hc
  rw [Nat.sub_add_cancel h] at this
  exact this

theorem mod_sub_self {c i : Nat} (h : c ≤ i) : i % c = (i - c) % c := by
  have := Nat.add_mod_right (i - c) c
  rw [Nat.sub_add_cancel h] at this
  exact this

theorem flatten_getElem? (c : Nat) (hc : 0 < c) :
    ∀ (t : List (List α)), (∀ ch ∈ t, ch.length = c) → ∀ j,
      t.flatten[j]? = (t[j / c]?).bind (fun ch => ch[j % c]?)
  | [], _, j => by simp
  | ch :: t, h, j => by
    have hch : ch.length = c := h ch (by simp)
    have ht : ∀ x ∈ t, x.length = c := fun x hx => h x (by simp [hx])
    by_cases hj : j < c
    · have h0 : j / c = 0 := Nat.div_eq_of_lt hj
      have h1 : j % c = j := Nat.mod_eq_of_lt hj
      rw [List.flatten_cons, List.getElem?_append_left (by omega), h0, h1]
      simp
    · have hj' : c ≤ j := Nat.le_of_not_lt hj
      rw [List.flatten_cons, List.getElem?_append_right (by omega), hch,
        flatten_getElem? c hc t ht (j - c), div_sub_self hc hj', mod_sub_self hj']
      simp

theorem at_eq_getElem? (c : Nat) (hc : 0 < c) (s : Linked α) (h : WF c s) (i : Nat) :
    s.slot c i = (toList s)[i]? := by
  obtain ⟨hh, ht, hs⟩ := h
  unfold Linked.slot toList
  by_cases hi : i < s.size
  · rw [List.getElem?_take_of_lt hi]
    by_cases hic : i < c
    · rw [List.getElem?_append_left (by omega)]
      simp [hi, hic]
    · have hci : c ≤ i := Nat.le_of_not_lt hic
      have h1 : i / c < s.tail.length + 1 := by
        rw [Nat.div_lt_iff_lt_mul hc]
        rw [Nat.mul_comm]; omega
      have h2 := div_sub_self hc hci
      have h3 : (i - c) / c = i / c - 1 := by
        generalize (i - c) / c = y at h2
        generalize i / c = x at h2
        omega
      have ha : i / c - 1 < s.tail.length := by
        generalize i / c = x at h1 h2
        omega
      rw [List.getElem?_append_right (by omega), hh, flatten_getElem? c hc s.tail ht (i - c)]
      rw [h3, ← mod_sub_self hci]
      simp [hi, hic, hci, ha]
  · have hle : s.size ≤ i := Nat.le_of_not_lt hi
    have : (List.take s.size (s.head ++ s.tail.flatten))[i]? = none := by
      apply List.getElem?_eq_none
      have := List.length_take_le s.size (s.head ++ s.tail.flatten)
      omega
    rw [this]
    simp [hi]


/-! ### `Set` / `Push` / `Pop` are the list operations on the slots in use -/

theorem take_set_lt (v : α) : ∀ (l : List α) (i n : Nat), i < n → (l.set i v).take n = (l.take n).set i v
  | [], _, _, _ => by simp
  | x :: xs, 0, n + 1, _ => by simp
  | x :: xs, i + 1, n + 1, h => by simp [take_set_lt v xs i n (by omega)]
  | x :: xs, i, 0, h => by omega

theorem take_succ_set (v : α) : ∀ (l : List α) (n : Nat), n < l.length → (l.set n v).take (n + 1) = l.take n ++ [v]
  | [], n, h => by simp at h
  | x :: xs, 0, _ => by simp
  | x :: xs, n + 1, h => by simp [take_succ_set v xs n (by simpa using h)]

theorem flatten_modify_set (c : Nat) (v : α) :
    ∀ (t : List (List α)) (a b : Nat), (∀ ch ∈ t, ch.length = c) → a < t.length → b < c →
      (t.modify a (fun ch => ch.set b v)).flatten = t.flatten.set (a * c + b) v
  | [], a, b, _, h, _ => by simp at h
  | ch :: t, 0, b, hu, _, hb => by
    have hch : ch.length = c := hu ch (by simp)
    simp only [List.modify_zero_cons, List.flatten_cons, Nat.zero_mul, Nat.zero_add]
    rw [List.set_append_left _ _ (by omega)]
  | ch :: t, a + 1, b, hu, ha, hb => by
    have hch : ch.length = c := hu ch (by simp)
    have ht : ∀ x ∈ t, x.length = c := fun x hx => hu x (by simp [hx])
    have ih := flatten_modify_set c v t a b ht (by simpa using ha) hb
    simp only [List.modify_succ_cons, List.flatten_cons, ih]
    rw [List.set_append_right _ _ (by rw [hch, Nat.succ_mul]; omega)]
    congr 2
    rw [hch, Nat.succ_mul]; omega

theorem grow_spec (c : Nat) (zero : α) (t : List (List α)) (l : Nat) (hu : ∀ ch ∈ t, ch.length = c) :
    (∀ ch ∈ grow c zero t l, ch.length = c) ∧ (grow c zero t l).length = t.length + (l - t.length) ∧
    (grow c zero t l).flatten = t.flatten ++ List.replicate ((l - t.length) * c) zero := by
  unfold grow
  refine ⟨?_, by simp, by simp [List.flatten_replicate_replicate]⟩
  intro ch hch
  rcases List.mem_append.mp hch with h | h
  · exact hu ch h
  · rw [List.eq_of_mem_replicate h]; simp

def full (s : Linked α) : List α := s.head ++ s.tail.flatten

theorem flatten_length_uniform (c : Nat) : ∀ (t : List (List α)), (∀ ch ∈ t, ch.length = c) →
    t.flatten.length = t.length * c
  | [], _ => by simp
  | ch :: t, hu => by
    have := flatten_length_uniform c t (fun x hx => hu x (by simp [hx]))
    simp [this, hu ch (by simp), Nat.succ_mul]; omega

theorem full_length (c : Nat) (s : Linked α) (h : WF c s) : (full s).length = c * (s.tail.length + 1) := by
  obtain ⟨hh, ht, _⟩ := h
  simp only [full, List.length_append, hh, flatten_length_uniform c s.tail ht]
  rw [Nat.mul_add, Nat.mul_one, Nat.mul_comm]; omega

theorem modify_uniform (c : Nat) (b : Nat) (v : α) : ∀ (t : List (List α)) (a : Nat),
    (∀ ch ∈ t, ch.length = c) → ∀ ch ∈ t.modify a (fun ch => ch.set b v), ch.length = c
  | [], _, _, ch, h => by simp at h
  | x :: t, 0, hu, ch, h => by
    simp only [List.modify_zero_cons, List.mem_cons] at h
    rcases h with rfl | h
    · simp [hu x (by simp)]
    · exact hu ch (by simp [h])
  | x :: t, a + 1, hu, ch, h => by
    simp only [List.modify_succ_cons, List.mem_cons] at h
    rcases h with rfl | h
    · exact hu ch (by simp)
    · exact modify_uniform c b v t a (fun y hy => hu y (by simp [hy])) ch h

/-- what `Set(i, v)` does to the allocated slots: slot `i` is overwritten, after the allocation has
    been extended by zero-filled chunks when `i` lies beyond it -/
theorem set_full (c : Nat) (hc : 0 < c) (zero : α) (s : Linked α) (h : WF c s) (i : Nat) (hi : i ≤ s.size) (v : α) :
    WF c (set c zero s i v) ∧ (set c zero s i v).size = (if s.size ≤ i then i + 1 else s.size) ∧
    ∃ z, full (set c zero s i v) = (full s ++ z).set i v ∧ i < (full s ++ z).length := by
  have hfl := full_length c s h
  obtain ⟨hh, ht, hs⟩ := h
  unfold set
  by_cases hic : i < c
  · rw [if_pos hic]
    refine ⟨⟨by simp [hh], ht, ?_⟩, rfl, [], ?_, ?_⟩
    · simp only
      split
      · have : c ≤ c * (s.tail.length + 1) := Nat.le_mul_of_pos_right c (by omega)
        omega
      · exact hs
    · simp only [full, List.append_nil]
      rw [List.set_append_left _ _ (by omega)]
    · simp only [List.append_nil, hfl]
      have : c ≤ c * (s.tail.length + 1) := Nat.le_mul_of_pos_right c (by omega)
      omega
  · rw [if_neg hic]
    have hci : c ≤ i := Nat.le_of_not_lt hic
    have hb : i % c < c := Nat.mod_lt i hc
    have hdm := Nat.div_add_mod i c
    have hq : 1 ≤ i / c := (Nat.one_le_div_iff hc).mpr hci
    obtain ⟨g1, g2, g3⟩ := grow_spec c zero s.tail (i / c - 1 + 1) ht
    have ha : i / c - 1 < (grow c zero s.tail (i / c - 1 + 1)).length := by rw [g2]; omega
    have hidx : (i / c - 1) * c + i % c = i - c := by
      have h1 : (i / c - 1) * c = i / c * c - c := by rw [Nat.sub_mul, Nat.one_mul]
      have h2 : c * (i / c) = i / c * c := Nat.mul_comm _ _
      have h3 : c ≤ i / c * c := by
        calc c = 1 * c := (Nat.one_mul c).symm
          _ ≤ i / c * c := Nat.mul_le_mul_right c hq
      omega
    refine ⟨⟨hh, modify_uniform c _ v _ _ g1, ?_⟩, rfl, List.replicate ((i / c - 1 + 1 - s.tail.length) * c) zero, ?_, ?_⟩
    · simp only [List.length_modify, g2]
      split
      · -- i = size: the chunk of slot i is allocated now
        have hlt : i < c * (i / c + 1) := Nat.lt_mul_div_succ i hc
        have hmono : c * (i / c + 1) ≤ c * (s.tail.length + (i / c - 1 + 1 - s.tail.length) + 1) :=
          Nat.mul_le_mul_left c (by omega)
        omega
      · have hmono : c * (s.tail.length + 1) ≤ c * (s.tail.length + (i / c - 1 + 1 - s.tail.length) + 1) :=
          Nat.mul_le_mul_left c (by omega)
        omega
    · simp only [full]
      rw [flatten_modify_set c v _ _ _ g1 ha hb, hidx, List.append_assoc, ← g3]
      have hle : s.head.length ≤ i := by omega
      rw [List.set_append_right _ _ hle, hh]
    · rw [List.length_append, hfl, List.length_replicate]
      by_cases hlt : i < c * (s.tail.length + 1)
      · omega
      · -- then i = size = everything allocated so far, and exactly one new chunk is added
        have hge : c * (s.tail.length + 1) ≤ i := Nat.le_of_not_lt hlt
        have heq : i = c * (s.tail.length + 1) := by omega
        have hdiv : i / c = s.tail.length + 1 := by
          rw [heq, Nat.mul_comm, Nat.mul_div_cancel _ hc]
        have : (i / c - 1 + 1 - s.tail.length) * c = c := by
          rw [hdiv]; simp
        omega

/-- `Set(i, v)` with `i` a used slot or the first free one, on the flat list -/
theorem set_toList (c : Nat) (hc : 0 < c) (zero : α) (s : Linked α) (h : WF c s) (i : Nat) (hi : i ≤ s.size) (v : α) :
    WF c (set c zero s i v) ∧
    toList (set c zero s i v) = (if i < s.size then (toList s).set i v else toList s ++ [v]) := by
  have hfl := full_length c s h
  have hs := h.2.2
  obtain ⟨w, hsz, z, hf, hlt⟩ := set_full c hc zero s h i hi v
  refine ⟨w, ?_⟩
  have ht : ∀ t : Linked α, toList t = (full t).take t.size := fun _ => rfl
  rw [ht, ht, hf, hsz]
  by_cases hlt' : i < s.size
  · rw [if_neg (by omega), if_pos hlt', take_set_lt v _ i s.size hlt',
      List.take_append_of_le_length (by omega)]
  · have heq : i = s.size := by omega
    subst heq
    rw [if_pos (Nat.le_refl _), if_neg hlt', take_succ_set v _ _ hlt,
      List.take_append_of_le_length (by omega)]

/-- `Push(v)` appends -/
theorem push_toList (c : Nat) (hc : 0 < c) (zero : α) (s : Linked α) (h : WF c s) (v : α) :
    WF c (push c zero s v) ∧ toList (push c zero s v) = toList s ++ [v] := by
  have := set_toList c hc zero s h s.size (Nat.le_refl _) v
  simpa [push] using this

theorem take_set_ge (v : α) : ∀ (l : List α) (i n : Nat), n ≤ i → (l.set i v).take n = l.take n
  | [], _, _, _ => by simp
  | x :: xs, _, 0, _ => by simp
  | x :: xs, 0, n + 1, h => by omega
  | x :: xs, i + 1, n + 1, h => by simp [take_set_ge v xs i n (by omega)]

theorem dropLast_take' : ∀ (l : List α) (n : Nat), n ≤ l.length → (l.take n).dropLast = l.take (n - 1)
  | _, 0, _ => by simp
  | [], n + 1, h => by simp at h
  | x :: xs, n + 1, h => by
    cases n with
    | zero => simp
    | succ n =>
      have := dropLast_take' xs (n + 1) (by simpa using h)
      simp only [List.take_succ_cons, Nat.add_sub_cancel] at this ⊢
      rw [List.dropLast_cons_of_ne_nil (by
        cases xs with
        | nil => simp at h
        | cons y ys => simp), this]

/-- `Pop()` drops the last used slot -/
theorem pop_toList (c : Nat) (hc : 0 < c) (zero : α) (s : Linked α) (h : WF c s) :
    WF c (pop c zero s) ∧ toList (pop c zero s) = (toList s).dropLast := by
  unfold pop
  by_cases h0 : s.size = 0
  · rw [if_pos h0]
    exact ⟨h, by simp [toList, h0]⟩
  · rw [if_neg h0]
    have hfl := full_length c s h
    have hs := h.2.2
    obtain ⟨w, hsz, z, hf, hlt⟩ := set_full c hc zero s h (s.size - 1) (by omega) zero
    rw [if_neg (by omega)] at hsz
    obtain ⟨w1, w2, w3⟩ := w
    refine ⟨⟨w1, w2, by simp only; omega⟩, ?_⟩
    have ht : ∀ t : Linked α, toList t = (full t).take t.size := fun _ => rfl
    rw [ht, ht]
    show (full (set c zero s (s.size - 1) zero)).take (s.size - 1) = _
    rw [hf, take_set_ge zero _ _ _ (Nat.le_refl _), List.take_append_of_le_length (by omega),
      dropLast_take' _ _ (by omega)]

theorem empty_spec (c : Nat) (zero : α) : WF c (empty c zero) ∧ toList (empty c zero) = [] := by
  refine ⟨⟨by simp [empty], by simp [empty], by simp [empty]⟩, by simp [toList, empty]⟩

end SonicSpec.Ast.Linked
