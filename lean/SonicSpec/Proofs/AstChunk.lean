/-
  C15 - chunk arithmetic of ast/buffer.go: the chunked storage is a flat list.
-/
import SonicSpec.Model.AstChunk
namespace SonicSpec.Ast.Linked
variable {α : Type}

theorem div_sub_self {c i : Nat} (hc : 0 < c) (h : c ≤ i) : i / c = (i - c) / c + 1 := by
  have := Nat.add_div_right (i - c) hc
  rw [Nat.sub_add_cancel h] at this
  exact this

theorem mod_sub_self {c i : Nat} (h : c ≤ i) : i % c = (i - c) % c := by
  have := Nat.add_mod_right (i - c) c
  rw [Nat.sub_add_cancel h] at this
  exact this

theorem flatten_getElem? (c : Nat) (hc : 0 < c) :
    ∀ (t : List (List α)), (∀ ch ∈ t, ch.length = c) → ∀ j,
      t.flatten[j]? = (t[j / c]?).bind (fun ch => ch[j % c]?)
  | [], _, j => by simp
  | ch :: t, h, j => by
    have hch : ch.length = c := h ch (by simp)
    have ht : ∀ x ∈ t, x.length = c := fun x hx => h x (by simp [hx])
    by_cases hj : j < c
    · have h0 : j / c = 0 := Nat.div_eq_of_lt hj
      have h1 : j % c = j := Nat.mod_eq_of_lt hj
      rw [List.flatten_cons, List.getElem?_append_left (by omega), h0, h1]
      simp
    · have hj' : c ≤ j := Nat.le_of_not_lt hj
      rw [List.flatten_cons, List.getElem?_append_right (by omega), hch,
        flatten_getElem? c hc t ht (j - c), div_sub_self hc hj', mod_sub_self hj']
      simp

theorem at_eq_getElem? (c : Nat) (hc : 0 < c) (s : Linked α) (h : WF c s) (i : Nat) :
    s.slot c i = (toList s)[i]? := by
  obtain ⟨hh, ht, hs⟩ := h
  unfold Linked.slot toList
  by_cases hi : i < s.size
  · rw [List.getElem?_take_of_lt hi]
    by_cases hic : i < c
    · rw [List.getElem?_append_left (by omega)]
      simp [hi, hic]
    · have hci : c ≤ i := Nat.le_of_not_lt hic
      have h1 : i / c < s.tail.length + 1 := by
        rw [Nat.div_lt_iff_lt_mul hc]
        rw [Nat.mul_comm]; omega
      have h2 := div_sub_self hc hci
      have h3 : (i - c) / c = i / c - 1 := by
        generalize (i - c) / c = y at h2
        generalize i / c = x at h2
        omega
      have ha : i / c - 1 < s.tail.length := by
        generalize i / c = x at h1 h2
        omega
      rw [List.getElem?_append_right (by omega), hh, flatten_getElem? c hc s.tail ht (i - c)]
      rw [h3, ← mod_sub_self hci]
      simp [hi, hic, hci, ha]
  · have hle : s.size ≤ i := Nat.le_of_not_lt hi
    have : (List.take s.size (s.head ++ s.tail.flatten))[i]? = none := by
      apply List.getElem?_eq_none
      have := List.length_take_le s.size (s.head ++ s.tail.flatten)
      omega
    rw [this]
    simp [hi]

end SonicSpec.Ast.Linked
