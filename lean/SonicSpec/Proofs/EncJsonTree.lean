/-
  Helper lemmas about the strict parser / compact renderer pair of Model/JsonTree.lean:
  well-formed trees (`JWF`) render to text that parses back to the same tree with nothing left
  over, and every tree the parser returns is well-formed.
-/
import SonicSpec.Proofs.EncJsonStr
import SonicSpec.Proofs.EncJsonNum
namespace SonicSpec.Enc
open SonicSpec SonicSpec.Json

mutual
/-- number literals are numbers, string bodies and member names are string bodies -/
def JWF : JVal → Prop
  | .null => True
  | .bool _ => True
  | .num l => NumShape l
  | .str b => StrOK b
  | .arr xs => JWFL xs
  | .obj kvs => JWFM kvs
def JWFL : List JVal → Prop
  | [] => True
  | x :: xs => JWF x ∧ JWFL xs
def JWFM : List (Bytes × JVal) → Prop
  | [] => True
  | (k, v) :: r => StrOK k ∧ JWF v ∧ JWFM r
end

mutual
/-- fuel the parser needs for the rendering of a tree -/
def need : JVal → Nat
  | .arr xs => needL xs + 1
  | .obj kvs => needM kvs + 1
  | _ => 1
def needL : List JVal → Nat
  | [] => 0
  | x :: xs => max (need x) (needL xs) + 1
def needM : List (Bytes × JVal) → Nat
  | [] => 0
  | (_, v) :: r => max (need v) (needM r) + 1
end

/-- possible first bytes of a value -/
def ValHead (c : UInt8) : Prop :=
  c = 110 ∨ c = 116 ∨ c = 102 ∨ c = 34 ∨ c = 91 ∨ c = 123 ∨ c = 45 ∨ isDigit c = true

theorem ValHead.props {c : UInt8} (h : ValHead c) : isSpace c = false ∧ c ≠ 93 ∧ c ≠ 125 ∧ c ≠ 44 := by
  rcases h with h | h | h | h | h | h | h | h
  all_goals first
    | (subst h; decide)
    | (rw [isDigit_iff] at h
       refine ⟨?_, ?_, ?_, ?_⟩
       · simp only [isSpace, Bool.or_eq_false_iff, beq_eq_false_iff_ne]
         refine ⟨⟨⟨?_, ?_⟩, ?_⟩, ?_⟩ <;> (intro hh; subst hh; exact absurd h (by decide))
       all_goals (intro hh; subst hh; exact absurd h (by decide)))

theorem skipWs_head {c : UInt8} (h : isSpace c = false) (t : Bytes) : skipWs (c :: t) = c :: t := by
  simp [skipWs, h]

theorem render_head : ∀ (j : JVal), JWF j → ∃ c t, render j = c :: t ∧ ValHead c := by
  intro j hj
  cases j with
  | null => exact ⟨110, _, rfl, Or.inl rfl⟩
  | bool b => cases b
              · exact ⟨102, _, rfl, by simp [ValHead]⟩
              · exact ⟨116, _, rfl, by simp [ValHead]⟩
  | num l =>
    simp only [JWF] at hj
    obtain ⟨c, t, hl, hc⟩ := hj.head
    refine ⟨c, t, by simp [render, hl], ?_⟩
    rcases hc with hc | hc
    · simp [ValHead, hc]
    · simp [ValHead, hc]
  | str b => exact ⟨34, _, rfl, by simp [ValHead]⟩
  | arr xs => exact ⟨91, _, rfl, by simp [ValHead]⟩
  | obj kvs => exact ⟨123, _, rfl, by simp [ValHead]⟩

theorem renderElems_cons (x : JVal) (xs : List JVal) :
    renderElems (x :: xs) = render x ++ (match xs with | [] => [] | _ :: _ => 44 :: renderElems xs) := by
  cases xs <;> simp [renderElems]

theorem renderMembers_cons (k : Bytes) (v : JVal) (r : List (Bytes × JVal)) :
    renderMembers ((k, v) :: r) =
      34 :: (k ++ 34 :: 58 :: render v) ++ (match r with | [] => [] | _ :: _ => 44 :: renderMembers r) := by
  cases r <;> simp [renderMembers]

/-- a number literal is dispatched to the number scanner -/
theorem parseVal_num {l : Bytes} (hl : NumShape l) (n : Nat) (rest : Bytes) :
    parseVal (n + 1) (l ++ rest) = (scanNumber (l ++ rest)).map fun (lt : Bytes × Bytes) => (JVal.num lt.1, lt.2) := by
  obtain ⟨c, t, hc, hd⟩ := hl.head
  subst hc
  have hne : ∀ x : UInt8, (x = 110 ∨ x = 116 ∨ x = 102 ∨ x = 34 ∨ x = 91 ∨ x = 123) → c ≠ x := by
    intro x hx hcx
    subst hcx
    rcases hd with hd | hd
    · subst hd; revert hx; decide
    · rw [isDigit_iff] at hd
      rcases hx with hx | hx | hx | hx | hx | hx <;> (subst hx; exact absurd hd (by decide))
  simp only [List.cons_append]
  unfold parseVal
  split
  · rename_i heq; injection heq with a _; exact absurd a (hne 110 (by simp))
  · rename_i heq; injection heq with a _; exact absurd a (hne 116 (by simp))
  · rename_i heq; injection heq with a _; exact absurd a (hne 102 (by simp))
  · rename_i heq; injection heq with a _; exact absurd a (hne 34 (by simp))
  · rename_i heq; injection heq with a _; exact absurd a (hne 91 (by simp))
  · rename_i heq; injection heq with a _; exact absurd a (hne 123 (by simp))
  · rfl


theorem skipWs_of_head {s : Bytes} {c : UInt8} {t : Bytes} (hs : s = c :: t) (hc : ValHead c) : skipWs s = s := by
  subst hs; exact skipWs_head hc.props.1 t

theorem Delim_comma (t : Bytes) : Delim (44 :: t) := by simp [Delim]
theorem Delim_rbracket (t : Bytes) : Delim (93 :: t) := by simp [Delim]
theorem Delim_rbrace (t : Bytes) : Delim (125 :: t) := by simp [Delim]

mutual
theorem parse_render_val : ∀ (j : JVal), JWF j → ∀ (n : Nat) (rest : Bytes), need j ≤ n → Delim rest →
    parseVal n (render j ++ rest) = some (j, rest)
  | .null, _, n, rest, hn, _ => by
    cases n with
    | zero => simp [need] at hn
    | succ n => simp [render, parseVal]
  | .bool b, _, n, rest, hn, _ => by
    cases n with
    | zero => simp [need] at hn
    | succ n => cases b <;> simp [render, parseVal]
  | .num l, hj, n, rest, hn, hr => by
    cases n with
    | zero => simp [need] at hn
    | succ n =>
      simp only [JWF] at hj
      simp only [render]
      rw [parseVal_num hj, hj.ok rest hr]
      rfl
  | .str b, hj, n, rest, hn, _ => by
    cases n with
    | zero => simp [need] at hn
    | succ n =>
      simp only [JWF] at hj
      have : render (.str b) ++ rest = 34 :: (b ++ 34 :: rest) := by simp [render]
      rw [this]
      simp [parseVal, hj rest]
  | .arr xs, hj, n, rest, hn, _ => by
    cases n with
    | zero => simp [need] at hn
    | succ n =>
      cases xs with
      | nil => simp [render, renderElems, parseVal, skipWs, isSpace]
      | cons x xs' =>
        simp only [JWF] at hj
        have hx : JWF x := by simp only [JWFL] at hj; exact hj.1
        obtain ⟨c, t, hc, hv⟩ := render_head x hx
        have hn' : needL (x :: xs') ≤ n := by simp only [need] at hn; omega
        have ih := parse_render_elems (x :: xs') (by simp) hj n rest hn'
        have e1 : render (.arr (x :: xs')) ++ rest = 91 :: (renderElems (x :: xs') ++ 93 :: rest) := by
          simp [render]
        have e2 : ∃ t', renderElems (x :: xs') ++ 93 :: rest = c :: t' := by
          rw [renderElems_cons, hc]; exact ⟨_, rfl⟩
        obtain ⟨t', e2⟩ := e2
        rw [e1]
        unfold parseVal
        simp only
        rw [skipWs_of_head e2 hv]
        rw [e2] at ih ⊢
        split
        · rename_i heq; injection heq with a _; exact absurd a hv.props.2.1
        · rw [ih]; rfl
  | .obj kvs, hj, n, rest, hn, _ => by
    cases n with
    | zero => simp [need] at hn
    | succ n =>
      cases kvs with
      | nil => simp [render, renderMembers, parseVal, skipWs, isSpace]
      | cons kv kvs' =>
        obtain ⟨k, v⟩ := kv
        simp only [JWF] at hj
        have hn' : needM ((k, v) :: kvs') ≤ n := by simp only [need] at hn; omega
        have ih := parse_render_members ((k, v) :: kvs') (by simp) hj n rest hn'
        have e1 : render (.obj ((k, v) :: kvs')) ++ rest = 123 :: (renderMembers ((k, v) :: kvs') ++ 125 :: rest) := by
          simp [render]
        have e2 : ∃ t', renderMembers ((k, v) :: kvs') ++ 125 :: rest = 34 :: t' := by
          rw [renderMembers_cons]; exact ⟨_, rfl⟩
        obtain ⟨t', e2⟩ := e2
        rw [e1]
        unfold parseVal
        simp only
        rw [skipWs_of_head e2 (by simp [ValHead])]
        rw [e2] at ih ⊢
        split
        · rename_i heq; injection heq with a _; exact absurd a (by decide)
        · rw [ih]; rfl
theorem parse_render_elems : ∀ (xs : List JVal), xs ≠ [] → JWFL xs → ∀ (n : Nat) (rest : Bytes), needL xs ≤ n →
    parseElems n (renderElems xs ++ 93 :: rest) = some (xs, rest)
  | [], h, _, _, _, _ => absurd rfl h
  | [x], _, hj, n, rest, hn => by
    cases n with
    | zero => simp [needL] at hn
    | succ n =>
      simp only [JWFL] at hj
      have hn' : need x ≤ n := by simp only [needL] at hn; omega
      have ih := parse_render_val x hj.1 n (93 :: rest) hn' (Delim_rbracket rest)
      simp only [renderElems]
      unfold parseElems
      simp [ih, skipWs, isSpace]
  | x :: y :: r, _, hj, n, rest, hn => by
    cases n with
    | zero => simp [needL] at hn
    | succ n =>
      simp only [JWFL] at hj
      have hn1 : need x ≤ n := by simp only [needL] at hn; omega
      have hn2 : needL (y :: r) ≤ n := by simp only [needL] at hn ⊢; omega
      have ih1 := parse_render_val x hj.1 n (44 :: (renderElems (y :: r) ++ 93 :: rest)) hn1 (Delim_comma _)
      have ih2 := parse_render_elems (y :: r) (by simp) hj.2 n rest hn2
      obtain ⟨c, t, hc, hv⟩ := render_head y hj.2.1
      have e2 : ∃ t', renderElems (y :: r) ++ 93 :: rest = c :: t' := by
        rw [renderElems_cons, hc]; exact ⟨_, rfl⟩
      obtain ⟨t', e2⟩ := e2
      have e1 : renderElems (x :: y :: r) ++ 93 :: rest = render x ++ 44 :: (renderElems (y :: r) ++ 93 :: rest) := by
        simp [renderElems]
      rw [e1]
      unfold parseElems
      simp only [ih1]
      have : skipWs (44 :: (renderElems (y :: r) ++ 93 :: rest)) = 44 :: (renderElems (y :: r) ++ 93 :: rest) := by
        simp [skipWs, isSpace]
      rw [this]
      simp only
      rw [skipWs_of_head e2 hv, ih2]
      rfl
theorem parse_render_members : ∀ (kvs : List (Bytes × JVal)), kvs ≠ [] → JWFM kvs → ∀ (n : Nat) (rest : Bytes), needM kvs ≤ n →
    parseMembers n (renderMembers kvs ++ 125 :: rest) = some (kvs, rest)
  | [], h, _, _, _, _ => absurd rfl h
  | [(k, v)], _, hj, n, rest, hn => by
    cases n with
    | zero => simp [needM] at hn
    | succ n =>
      simp only [JWFM] at hj
      have hn' : need v ≤ n := by simp only [needM] at hn; omega
      have ih := parse_render_val v hj.2.1 n (125 :: rest) hn' (Delim_rbrace rest)
      obtain ⟨c, t, hc, hv⟩ := render_head v hj.2.1
      have e1 : renderMembers [(k, v)] ++ 125 :: rest = 34 :: (k ++ 34 :: (58 :: (render v ++ 125 :: rest))) := by
        simp [renderMembers]
      rw [e1]
      unfold parseMembers
      simp only [hj.1 _]
      have s1 : skipWs (58 :: (render v ++ 125 :: rest)) = 58 :: (render v ++ 125 :: rest) := by simp [skipWs, isSpace]
      rw [s1]
      simp only
      have s2 : skipWs (render v ++ 125 :: rest) = render v ++ 125 :: rest := by
        rw [hc]; exact skipWs_head hv.props.1 _
      rw [s2, ih]
      simp [skipWs, isSpace]
  | (k, v) :: kv2 :: r, _, hj, n, rest, hn => by
    cases n with
    | zero => simp [needM] at hn
    | succ n =>
      obtain ⟨k2, v2⟩ := kv2
      simp only [JWFM] at hj
      have hn1 : need v ≤ n := by simp only [needM] at hn; omega
      have hn2 : needM ((k2, v2) :: r) ≤ n := by simp only [needM] at hn ⊢; omega
      have ih1 := parse_render_val v hj.2.1 n (44 :: (renderMembers ((k2, v2) :: r) ++ 125 :: rest)) hn1 (Delim_comma _)
      have ih2 := parse_render_members ((k2, v2) :: r) (by simp) hj.2.2 n rest hn2
      obtain ⟨c, t, hc, hv⟩ := render_head v hj.2.1
      have e2 : ∃ t', renderMembers ((k2, v2) :: r) ++ 125 :: rest = 34 :: t' := by
        rw [renderMembers_cons]; exact ⟨_, rfl⟩
      obtain ⟨t', e2⟩ := e2
      have e1 : renderMembers ((k, v) :: (k2, v2) :: r) ++ 125 :: rest =
          34 :: (k ++ 34 :: (58 :: (render v ++ 44 :: (renderMembers ((k2, v2) :: r) ++ 125 :: rest)))) := by
        simp [renderMembers]
      rw [e1]
      unfold parseMembers
      simp only [hj.1 _]
      have s1 : ∀ z : Bytes, skipWs (58 :: z) = 58 :: z := by intro z; simp [skipWs, isSpace]
      rw [s1]
      simp only
      have s2 : ∀ z : Bytes, skipWs (render v ++ z) = render v ++ z := by
        intro z; rw [hc]; exact skipWs_head hv.props.1 _
      rw [s2, ih1]
      simp only
      have s3 : ∀ z : Bytes, skipWs (44 :: z) = 44 :: z := by intro z; simp [skipWs, isSpace]
      rw [s3]
      simp only
      rw [skipWs_of_head e2 (by simp [ValHead]), ih2]
      rfl
end


mutual
theorem need_le : ∀ (j : JVal), need j ≤ (render j).length + 1
  | .null => by simp [need]
  | .bool _ => by simp [need]
  | .num _ => by simp [need]
  | .str _ => by simp [need]
  | .arr xs => by
    have := needL_le xs
    simp only [need, render, List.length_cons, List.length_append, List.length_nil]
    omega
  | .obj kvs => by
    have := needM_le kvs
    simp only [need, render, List.length_cons, List.length_append, List.length_nil]
    omega
theorem needL_le : ∀ (xs : List JVal), needL xs ≤ (renderElems xs).length + 2
  | [] => by simp [needL]
  | [x] => by
    have := need_le x
    simp only [needL, renderElems]
    omega
  | x :: y :: r => by
    have h1 := need_le x
    have h2 := needL_le (y :: r)
    simp only [needL, renderElems, List.length_append, List.length_cons] at h2 ⊢
    omega
theorem needM_le : ∀ (kvs : List (Bytes × JVal)), needM kvs ≤ (renderMembers kvs).length + 2
  | [] => by simp [needM]
  | [(k, v)] => by
    have := need_le v
    simp only [needM, renderMembers, List.length_append, List.length_cons]
    omega
  | (k, v) :: (k2, v2) :: r => by
    have h1 := need_le v
    have h2 := needM_le ((k2, v2) :: r)
    simp only [needM, renderMembers, List.length_append, List.length_cons] at h2 ⊢
    omega
end

/-- a well-formed tree renders to a document that parses back to exactly that tree, with nothing
    left over -/
theorem parseDoc_render {j : JVal} (hj : JWF j) : parseDoc (render j) = some j := by
  obtain ⟨c, t, hc, hv⟩ := render_head j hj
  have h1 : skipWs (render j) = render j := skipWs_of_head hc hv
  have h2 := parse_render_val j hj ((render j).length + 1) [] (need_le j) trivial
  simp only [List.append_nil] at h2
  simp [parseDoc, h1, h2, skipWs]

/-! soundness: whatever the parser returns is well-formed -/

theorem parse_sound : ∀ (n : Nat),
    (∀ s j r, parseVal n s = some (j, r) → JWF j) ∧
    (∀ s xs r, parseElems n s = some (xs, r) → JWFL xs) ∧
    (∀ s kvs r, parseMembers n s = some (kvs, r) → JWFM kvs) := by
  intro n
  induction n with
  | zero =>
    refine ⟨?_, ?_, ?_⟩
    · intro s j r h; unfold parseVal at h; simp at h
    · intro s xs r h; unfold parseElems at h; simp at h
    · intro s kvs r h; unfold parseMembers at h; simp at h
  | succ n ih =>
    obtain ⟨ihV, ihL, ihM⟩ := ih
    refine ⟨?_, ?_, ?_⟩
    · intro s j r h
      unfold parseVal at h
      split at h
      · simp at h; obtain ⟨h1, _⟩ := h; subst h1; trivial
      · simp at h; obtain ⟨h1, _⟩ := h; subst h1; trivial
      · simp at h; obtain ⟨h1, _⟩ := h; subst h1; trivial
      · rename_i r0
        cases hs : scanString r0 with
        | none => simp [hs] at h
        | some bt =>
          obtain ⟨b, t⟩ := bt
          simp [hs] at h
          obtain ⟨h1, _⟩ := h
          subst h1
          exact (scanString_sound r0 b t hs).1
      · rename_i r0
        split at h
        · simp at h; obtain ⟨h1, _⟩ := h; subst h1; trivial
        · simp at h
          obtain ⟨a, h1, h2⟩ := h
          subst h2
          exact ihL _ _ _ h1
      · rename_i r0
        split at h
        · simp at h; obtain ⟨h1, _⟩ := h; subst h1; trivial
        · simp at h
          obtain ⟨a, h1, h2⟩ := h
          subst h2
          exact ihM _ _ _ h1
      · cases hs : scanNumber s with
        | none => simp [hs] at h
        | some lt =>
          obtain ⟨l, t⟩ := lt
          simp [hs] at h
          obtain ⟨h1, _⟩ := h
          subst h1
          exact (scanNumber_sound hs).1
    · intro s xs r h
      unfold parseElems at h
      cases hv : parseVal n s with
      | none => simp [hv] at h
      | some p =>
        obtain ⟨v, r1⟩ := p
        simp only [hv] at h
        have hvj := ihV _ _ _ hv
        split at h
        · rename_i t _
          cases he : parseElems n (skipWs t) with
          | none => simp [he] at h
          | some q =>
            obtain ⟨ys, t'⟩ := q
            simp [he] at h
            obtain ⟨h1, _⟩ := h
            subst h1
            exact ⟨hvj, ihL _ _ _ he⟩
        · simp at h; obtain ⟨h1, _⟩ := h; subst h1; exact ⟨hvj, trivial⟩
        · simp at h
    · intro s kvs r h
      unfold parseMembers at h
      split at h
      · rename_i r0
        cases hk : scanString r0 with
        | none => simp [hk] at h
        | some kt =>
          obtain ⟨k, r1⟩ := kt
          simp only [hk] at h
          have hkk := (scanString_sound r0 k r1 hk).1
          split at h
          · rename_i r2 _
            cases hv : parseVal n (skipWs r2) with
            | none => simp [hv] at h
            | some p =>
              obtain ⟨v, r3⟩ := p
              simp only [hv] at h
              have hvj := ihV _ _ _ hv
              split at h
              · rename_i t _
                cases he : parseMembers n (skipWs t) with
                | none => simp [he] at h
                | some q =>
                  obtain ⟨ys, t'⟩ := q
                  simp [he] at h
                  obtain ⟨h1, _⟩ := h
                  subst h1
                  exact ⟨hkk, hvj, ihM _ _ _ he⟩
              · simp at h; obtain ⟨h1, _⟩ := h; subst h1; exact ⟨hkk, hvj, trivial⟩
              · simp at h
          · simp at h
      · simp at h

theorem parseDoc_sound {s : Bytes} {j : JVal} (h : parseDoc s = some j) : JWF j := by
  unfold parseDoc at h
  cases hv : parseVal (s.length + 1) (skipWs s) with
  | none => simp [hv] at h
  | some p =>
    obtain ⟨v, r⟩ := p
    simp only [hv] at h
    split at h
    · simp at h; subst h; exact (parse_sound _).1 _ _ _ hv
    · simp at h

end SonicSpec.Enc
