/-
  C17 helper lemmas, part 7 (wave 4): the lexical framing of the stream specification agrees with
  the JSON grammar (Model/JsonGrammar.lean): the text of a grammar value is transparent to the
  bracket counter, so the frame of `v ++ rest` is exactly `v`.  Core Lean only.
-/
import SonicSpec.Proofs.IO
import SonicSpec.Proofs.IOShipped2
import SonicSpec.Model.IOJson
import SonicSpec.Proofs.JsonTreeGrammar
set_option linter.unusedSimpArgs false
set_option linter.unusedVariables false
namespace SonicSpec.IO
open SonicSpec.Json

/-- a byte the bracket counter passes over, whichever kind of bracket it counts -/
def plainByte (c : UInt8) : Bool :=
  !(c == 92 || c == 34 || c == 91 || c == 93 || c == 123 || c == 125)

/-- the two bracket pairs -/
def Brk (lc rc : UInt8) : Prop := (lc = 91 ∧ rc = 93) ∨ (lc = 123 ∧ rc = 125)

theorem sk_plain (lc rc c : UInt8) (s : Bytes) (d m : Nat) (hb : Brk lc rc) (hc : plainByte c = true)
    (h : skipContainer lc rc s d false = some m) :
    skipContainer lc rc (c :: s) d false = some (m + 1) := by
  simp only [plainByte, Bool.not_eq_true', Bool.or_eq_false_iff, beq_eq_false_iff_ne] at hc
  obtain ⟨⟨⟨⟨⟨h1, h2⟩, h3⟩, h4⟩, h5⟩, h6⟩ := hc
  rw [skipContainer.eq_def]
  rcases hb with ⟨rfl, rfl⟩ | ⟨rfl, rfl⟩ <;> simp [h1, h2, h3, h4, h5, h6, h]

theorem sk_inq (lc rc c : UInt8) (s : Bytes) (d m : Nat) (h1 : c ≠ 92) (h2 : c ≠ 34)
    (h : skipContainer lc rc s d true = some m) :
    skipContainer lc rc (c :: s) d true = some (m + 1) := by
  rw [skipContainer.eq_def]; simp [h1, h2, h]

theorem sk_quote (lc rc : UInt8) (s : Bytes) (d m : Nat) (q : Bool)
    (h : skipContainer lc rc s d (!q) = some m) :
    skipContainer lc rc (34 :: s) d q = some (m + 1) := by
  rw [skipContainer.eq_def]
  have : ((34 : UInt8) == 92) = false := by decide
  simp [this, h]

theorem sk_esc2 (lc rc e : UInt8) (s : Bytes) (d m : Nat) (q : Bool) (he : e = 34 ∨ e = 92)
    (h : skipContainer lc rc s d q = some m) :
    skipContainer lc rc (92 :: e :: s) d q = some (m + 2) := by
  rw [skipContainer.eq_def]
  rcases he with rfl | rfl <;> simp [h]

theorem sk_esc1 (lc rc e : UInt8) (s : Bytes) (d m : Nat) (q : Bool) (h1 : e ≠ 34) (h2 : e ≠ 92)
    (h : skipContainer lc rc (e :: s) d q = some m) :
    skipContainer lc rc (92 :: e :: s) d q = some (m + 1) := by
  rw [skipContainer.eq_def]
  simp [h1, h2, h]

theorem sk_open (lc rc : UInt8) (s : Bytes) (d m : Nat) (hb : Brk lc rc)
    (h : skipContainer lc rc s (d + 1) false = some m) :
    skipContainer lc rc (lc :: s) d false = some (m + 1) := by
  rw [skipContainer.eq_def]
  rcases hb with ⟨rfl, rfl⟩ | ⟨rfl, rfl⟩
  · have a : ((91 : UInt8) == 92) = false := by decide
    have b : ((91 : UInt8) == 34) = false := by decide
    have c : ((91 : UInt8) == 93) = false := by decide
    simp [a, b, c, h]
  · have a : ((123 : UInt8) == 92) = false := by decide
    have b : ((123 : UInt8) == 34) = false := by decide
    have c : ((123 : UInt8) == 125) = false := by decide
    simp [a, b, c, h]

theorem sk_close (lc rc : UInt8) (s : Bytes) (d m : Nat) (hb : Brk lc rc)
    (h : skipContainer lc rc s d false = some m) :
    skipContainer lc rc (rc :: s) (d + 1) false = some (m + 1) := by
  rw [skipContainer.eq_def]
  rcases hb with ⟨rfl, rfl⟩ | ⟨rfl, rfl⟩
  · have a : ((93 : UInt8) == 92) = false := by decide
    have b : ((93 : UInt8) == 34) = false := by decide
    simp [a, b, h]
  · have a : ((125 : UInt8) == 92) = false := by decide
    have b : ((125 : UInt8) == 34) = false := by decide
    simp [a, b, h]

theorem sk_close0 (lc rc : UInt8) (s : Bytes) (hb : Brk lc rc) :
    skipContainer lc rc (rc :: s) 0 false = some 1 := by
  rw [skipContainer.eq_def]
  rcases hb with ⟨rfl, rfl⟩ | ⟨rfl, rfl⟩
  · have a : ((93 : UInt8) == 92) = false := by decide
    have b : ((93 : UInt8) == 34) = false := by decide
    simp [a, b]
  · have a : ((125 : UInt8) == 92) = false := by decide
    have b : ((125 : UInt8) == 34) = false := by decide
    simp [a, b]

/-- `v` is passed over by the counter of the pair `(lc, rc)` outside a string -/
def TrAt (lc rc : UInt8) (v : Bytes) : Prop :=
  ∀ k d m, skipContainer lc rc k d false = some m →
    skipContainer lc rc (v ++ k) d false = some (m + v.length)

/-- `t` ends with the closer that balances one open bracket of the pair `(lc, rc)` -/
def CloseAt (lc rc : UInt8) (t : Bytes) : Prop :=
  (∀ k, skipContainer lc rc (t ++ k) 0 false = some t.length) ∧
  (∀ k d m, skipContainer lc rc k d false = some m →
    skipContainer lc rc (t ++ k) (d + 1) false = some (m + t.length))

theorem TrAt.nil (lc rc : UInt8) : TrAt lc rc [] := by
  intro k d m h; simpa using h

theorem TrAt.append {lc rc : UInt8} {a b : Bytes} (ha : TrAt lc rc a) (hb : TrAt lc rc b) :
    TrAt lc rc (a ++ b) := by
  intro k d m h
  have h1 := hb k d m h
  have h2 := ha (b ++ k) d _ h1
  rw [List.append_assoc, h2]
  simp only [List.length_append]; congr 1; omega

theorem CloseAt.prepend {lc rc : UInt8} {a b : Bytes} (ha : TrAt lc rc a) (hb : CloseAt lc rc b) :
    CloseAt lc rc (a ++ b) := by
  constructor
  · intro k
    have h2 := ha (b ++ k) 0 _ (hb.1 k)
    rw [List.append_assoc, h2]
    simp only [List.length_append]; congr 1; omega
  · intro k d m h
    have h2 := ha (b ++ k) (d + 1) _ (hb.2 k d m h)
    rw [List.append_assoc, h2]
    simp only [List.length_append]; congr 1; omega

theorem TrAt.plain (lc rc : UInt8) (hb : Brk lc rc) : ∀ (l : Bytes), (∀ c ∈ l, plainByte c = true) → TrAt lc rc l
  | [], _ => TrAt.nil lc rc
  | c :: l, hl => by
    intro k d m h
    have ih := TrAt.plain lc rc hb l (fun c hc => hl c (List.mem_cons_of_mem _ hc)) k d m h
    have := sk_plain lc rc c (l ++ k) d _ hb (hl c List.mem_cons_self) ih
    rw [List.cons_append, this]
    simp only [List.length_cons]; rfl

theorem CloseAt.closer (lc rc : UInt8) (hb : Brk lc rc) : CloseAt lc rc [rc] := by
  constructor
  · intro k; simpa using sk_close0 lc rc k hb
  · intro k d m h; simpa using sk_close lc rc k d m hb h

/-! ### the pieces of a value's text -/

theorem space_plain : ∀ c : UInt8, Json.isSpace c = true → plainByte c = true := by
  apply forall_uint8; decide +kernel

theorem digit_plain : ∀ c : UInt8, Json.isDigit c = true → plainByte c = true ∧ isNumChar c = true := by
  apply forall_uint8; decide +kernel

theorem hex_not_special : ∀ c : UInt8, Json.isHex c = true → c ≠ 92 ∧ c ≠ 34 := by
  apply forall_uint8; decide +kernel

theorem simpleEsc_cases : ∀ e : UInt8, isSimpleEsc e = true → (e = 34 ∨ e = 92) ∨ (e ≠ 34 ∧ e ≠ 92) := by
  apply forall_uint8; decide +kernel

theorem TrAt.space (lc rc : UInt8) (hb : Brk lc rc) (w : Bytes) (hw : AllSpace w) : TrAt lc rc w :=
  TrAt.plain lc rc hb w (fun c hc => space_plain c (hw c hc))

/-- every byte of a number is a number character, hence plain -/
theorem number_bytes {n : Bytes} (h : Number n) : ∀ c ∈ n, plainByte c = true ∧ isNumChar c = true := by
  have digits : ∀ ds : Bytes, AllDigits ds → ∀ c ∈ ds, plainByte c = true ∧ isNumChar c = true :=
    fun ds hd c hc => digit_plain c (hd c hc)
  have body : ∀ nb : Bytes, NumBody nb → ∀ c ∈ nb, plainByte c = true ∧ isNumChar c = true := by
    intro nb hnb c hc
    obtain ⟨i, f, e, hi, hf, he⟩ := hnb
    simp only [List.mem_append] at hc
    rcases hc with hc | hc | hc
    · cases hi with
      | zero => simp at hc; subst hc; decide
      | nz c0 ds h0 _ hds =>
        simp only [List.mem_cons] at hc
        rcases hc with rfl | hc
        · exact digit_plain _ h0
        · exact digits ds hds c hc
    · cases hf with
      | none => simp at hc
      | some ds _ hds =>
        simp only [List.mem_cons] at hc
        rcases hc with rfl | hc
        · decide
        · exact digits ds hds c hc
    · cases he with
      | none => simp at hc
      | unsigned e0 ds he0 _ hds =>
        simp only [List.mem_cons] at hc
        rcases hc with rfl | hc
        · rcases he0 with rfl | rfl <;> decide
        · exact digits ds hds c hc
      | signed e0 sg ds he0 hsg _ hds =>
        simp only [List.mem_cons] at hc
        rcases hc with rfl | rfl | hc
        · rcases he0 with rfl | rfl <;> decide
        · rcases hsg with rfl | rfl <;> decide
        · exact digits ds hds c hc
  cases h with
  | pos n hn => exact body n hn
  | neg n hn =>
    intro c hc
    simp only [List.mem_cons] at hc
    rcases hc with rfl | hc
    · decide
    · exact body n hn c hc

/-- inside a string: a strict body and its closing quote are passed over -/
theorem sk_body (lc rc : UInt8) {b : Bytes} (hb : StrictBody b) : ∀ (s : Bytes) (d m : Nat),
    skipContainer lc rc s d false = some m →
    skipContainer lc rc (b ++ 34 :: s) d true = some (m + (b.length + 1)) := by
  induction hb with
  | nil => intro s d m h; simpa using sk_quote lc rc s d m true (by simpa using h)
  | plain c b h32 h34 h92 _ ih =>
    intro s d m h
    have := sk_inq lc rc c (b ++ 34 :: s) d _ h92 h34 (ih s d m h)
    rw [List.cons_append, this]; simp only [List.length_cons]; rfl
  | esc e b he _ ih =>
    intro s d m h
    rcases simpleEsc_cases e he with h2 | ⟨h34, h92⟩
    · have := sk_esc2 lc rc e (b ++ 34 :: s) d _ true h2 (ih s d m h)
      rw [List.cons_append, List.cons_append, this]; simp only [List.length_cons]; rfl
    · have h1 := sk_inq lc rc e (b ++ 34 :: s) d _ h92 h34 (ih s d m h)
      have := sk_esc1 lc rc e (b ++ 34 :: s) d _ true h34 h92 h1
      rw [List.cons_append, List.cons_append, this]; simp only [List.length_cons]; rfl
  | uni h1 h2 h3 h4 b x1 x2 x3 x4 _ ih =>
    intro s d m h
    have a4 := sk_inq lc rc h4 (b ++ 34 :: s) d _ (hex_not_special h4 x4).1 (hex_not_special h4 x4).2 (ih s d m h)
    have a3 := sk_inq lc rc h3 _ d _ (hex_not_special h3 x3).1 (hex_not_special h3 x3).2 a4
    have a2 := sk_inq lc rc h2 _ d _ (hex_not_special h2 x2).1 (hex_not_special h2 x2).2 a3
    have a1 := sk_inq lc rc h1 _ d _ (hex_not_special h1 x1).1 (hex_not_special h1 x1).2 a2
    have au := sk_inq lc rc 117 _ d _ (by decide) (by decide) a1
    have := sk_esc1 lc rc 117 _ d _ true (by decide) (by decide) au
    simp only [List.cons_append]
    rw [this]; simp only [List.length_cons]; rfl

theorem TrAt.str (lc rc : UInt8) {b : Bytes} (hb : StrictBody b) : TrAt lc rc (34 :: (b ++ [34])) := by
  intro k d m h
  have h1 := sk_body lc rc hb k d m h
  have := sk_quote lc rc (b ++ 34 :: k) d _ false (by simpa using h1)
  simp only [List.cons_append, List.append_assoc, List.singleton_append, List.nil_append]
  rw [this]; simp only [List.length_cons, List.length_append, List.length_nil]; congr 1



theorem brkA : Brk 91 93 := Or.inl ⟨rfl, rfl⟩
theorem brkO : Brk 123 125 := Or.inr ⟨rfl, rfl⟩

theorem TrAt.single (lc rc c : UInt8) (hb : Brk lc rc) (hc : plainByte c = true) : TrAt lc rc [c] :=
  TrAt.plain lc rc hb [c] (by intro x hx; simp at hx; subst hx; exact hc)

/-- an opening bracket of the counted kind followed by a body that closes it -/
theorem TrAt.own (lc rc : UInt8) (hb : Brk lc rc) {t : Bytes} (ht : CloseAt lc rc t) : TrAt lc rc (lc :: t) := by
  intro k d m h
  have := sk_open lc rc (t ++ k) d _ hb (ht.2 k d m h)
  rw [List.cons_append, this]; simp only [List.length_cons]; rfl

/-- a byte that is neither quote, backslash nor a bracket of the counted pair -/
theorem TrAt.other (lc rc c : UInt8) (h1 : c ≠ 92) (h2 : c ≠ 34) (h3 : c ≠ rc) (h4 : c ≠ lc) : TrAt lc rc [c] := by
  intro k d m h
  simp only [List.singleton_append, List.length_singleton]
  rw [skipContainer.eq_def]
  simp [h1, h2, h3, h4, h]

theorem TrAt.cons' (lc rc c : UInt8) (h1 : c ≠ 92) (h2 : c ≠ 34) (h3 : c ≠ rc) (h4 : c ≠ lc) {t : Bytes}
    (ht : TrAt lc rc t) : TrAt lc rc (c :: t) := by
  have := TrAt.append (TrAt.other lc rc c h1 h2 h3 h4) ht
  simpa using this

theorem TrAt.cons (lc rc c : UInt8) (hb : Brk lc rc) (hc : plainByte c = true) {t : Bytes} (ht : TrAt lc rc t) :
    TrAt lc rc (c :: t) := by
  have := TrAt.append (TrAt.single lc rc c hb hc) ht
  simpa using this

theorem CloseAt.cons (lc rc c : UInt8) (hb : Brk lc rc) (hc : plainByte c = true) {t : Bytes} (ht : CloseAt lc rc t) :
    CloseAt lc rc (c :: t) := by
  have := CloseAt.prepend (TrAt.single lc rc c hb hc) ht
  simpa using this

mutual
theorem tval : ∀ {k : Nat} {v : Bytes}, Val StrictBody k v → TrAt 91 93 v ∧ TrAt 123 125 v
  | _, _, .nul => ⟨TrAt.plain _ _ brkA _ (by decide), TrAt.plain _ _ brkO _ (by decide)⟩
  | _, _, .tru => ⟨TrAt.plain _ _ brkA _ (by decide), TrAt.plain _ _ brkO _ (by decide)⟩
  | _, _, .fls => ⟨TrAt.plain _ _ brkA _ (by decide), TrAt.plain _ _ brkO _ (by decide)⟩
  | _, _, .num n hn => ⟨TrAt.plain _ _ brkA _ (fun c hc => (number_bytes hn c hc).1),
                        TrAt.plain _ _ brkO _ (fun c hc => (number_bytes hn c hc).1)⟩
  | _, _, .str b hb => ⟨TrAt.str 91 93 hb, TrAt.str 123 125 hb⟩
  | _, _, .arr k t ht => ⟨TrAt.own 91 93 brkA (tarrB ht).1, TrAt.cons' 123 125 91 (by decide) (by decide) (by decide) (by decide) (tarrB ht).2⟩
  | _, _, .obj k t ht => ⟨TrAt.cons' 91 93 123 (by decide) (by decide) (by decide) (by decide) (tobjB ht).2, TrAt.own 123 125 brkO (tobjB ht).1⟩
theorem tarrB : ∀ {k : Nat} {t : Bytes}, ArrBody StrictBody k t → CloseAt 91 93 t ∧ TrAt 123 125 t
  | _, _, .empty w hw =>
    ⟨CloseAt.prepend (TrAt.space 91 93 brkA w hw) (CloseAt.closer 91 93 brkA),
     TrAt.append (TrAt.space 123 125 brkO w hw) (TrAt.other 123 125 93 (by decide) (by decide) (by decide) (by decide))⟩
  | _, _, .elems w v t k m hw hv ht =>
    ⟨CloseAt.prepend (TrAt.space 91 93 brkA w hw) (CloseAt.prepend (tval hv).1 (tarrT ht).1),
     TrAt.append (TrAt.space 123 125 brkO w hw) (TrAt.append (tval hv).2 (tarrT ht).2)⟩
theorem tarrT : ∀ {m : Nat} {t : Bytes}, ArrTail StrictBody m t → CloseAt 91 93 t ∧ TrAt 123 125 t
  | _, _, .close w hw =>
    ⟨CloseAt.prepend (TrAt.space 91 93 brkA w hw) (CloseAt.closer 91 93 brkA),
     TrAt.append (TrAt.space 123 125 brkO w hw) (TrAt.other 123 125 93 (by decide) (by decide) (by decide) (by decide))⟩
  | _, _, .more w w' v t k m hw hw' hv ht =>
    ⟨CloseAt.prepend (TrAt.space 91 93 brkA w hw) (CloseAt.cons 91 93 44 brkA (by decide)
        (CloseAt.prepend (TrAt.space 91 93 brkA w' hw') (CloseAt.prepend (tval hv).1 (tarrT ht).1))),
     TrAt.append (TrAt.space 123 125 brkO w hw) (TrAt.cons 123 125 44 brkO (by decide)
        (TrAt.append (TrAt.space 123 125 brkO w' hw') (TrAt.append (tval hv).2 (tarrT ht).2)))⟩
theorem tobjB : ∀ {k : Nat} {t : Bytes}, ObjBody StrictBody k t → CloseAt 123 125 t ∧ TrAt 91 93 t
  | _, _, .empty w hw =>
    ⟨CloseAt.prepend (TrAt.space 123 125 brkO w hw) (CloseAt.closer 123 125 brkO),
     TrAt.append (TrAt.space 91 93 brkA w hw) (TrAt.other 91 93 125 (by decide) (by decide) (by decide) (by decide))⟩
  | _, _, .members w key w1 w2 v t k m hw hkey hw1 hw2 hv ht => by
    have e : w ++ 34 :: (key ++ 34 :: (w1 ++ 58 :: (w2 ++ (v ++ t)))) =
        w ++ ((34 :: (key ++ [34])) ++ (w1 ++ (58 :: (w2 ++ (v ++ t))))) := by simp
    rw [e]
    exact ⟨CloseAt.prepend (TrAt.space 123 125 brkO w hw) (CloseAt.prepend (TrAt.str 123 125 hkey)
        (CloseAt.prepend (TrAt.space 123 125 brkO w1 hw1) (CloseAt.cons 123 125 58 brkO (by decide)
          (CloseAt.prepend (TrAt.space 123 125 brkO w2 hw2) (CloseAt.prepend (tval hv).2 (tobjT ht).1))))),
     TrAt.append (TrAt.space 91 93 brkA w hw) (TrAt.append (TrAt.str 91 93 hkey)
        (TrAt.append (TrAt.space 91 93 brkA w1 hw1) (TrAt.cons 91 93 58 brkA (by decide)
          (TrAt.append (TrAt.space 91 93 brkA w2 hw2) (TrAt.append (tval hv).1 (tobjT ht).2)))))⟩
theorem tobjT : ∀ {m : Nat} {t : Bytes}, ObjTail StrictBody m t → CloseAt 123 125 t ∧ TrAt 91 93 t
  | _, _, .close w hw =>
    ⟨CloseAt.prepend (TrAt.space 123 125 brkO w hw) (CloseAt.closer 123 125 brkO),
     TrAt.append (TrAt.space 91 93 brkA w hw) (TrAt.other 91 93 125 (by decide) (by decide) (by decide) (by decide))⟩
  | _, _, .more w w0 key w1 w2 v t k m hw hw0 hkey hw1 hw2 hv ht => by
    have e : w ++ 44 :: (w0 ++ 34 :: (key ++ 34 :: (w1 ++ 58 :: (w2 ++ (v ++ t))))) =
        w ++ (44 :: (w0 ++ ((34 :: (key ++ [34])) ++ (w1 ++ (58 :: (w2 ++ (v ++ t))))))) := by simp
    rw [e]
    exact ⟨CloseAt.prepend (TrAt.space 123 125 brkO w hw) (CloseAt.cons 123 125 44 brkO (by decide)
        (CloseAt.prepend (TrAt.space 123 125 brkO w0 hw0) (CloseAt.prepend (TrAt.str 123 125 hkey)
        (CloseAt.prepend (TrAt.space 123 125 brkO w1 hw1) (CloseAt.cons 123 125 58 brkO (by decide)
          (CloseAt.prepend (TrAt.space 123 125 brkO w2 hw2) (CloseAt.prepend (tval hv).2 (tobjT ht).1))))))),
     TrAt.append (TrAt.space 91 93 brkA w hw) (TrAt.cons 91 93 44 brkA (by decide)
        (TrAt.append (TrAt.space 91 93 brkA w0 hw0) (TrAt.append (TrAt.str 91 93 hkey)
        (TrAt.append (TrAt.space 91 93 brkA w1 hw1) (TrAt.cons 91 93 58 brkA (by decide)
          (TrAt.append (TrAt.space 91 93 brkA w2 hw2) (TrAt.append (tval hv).1 (tobjT ht).2)))))))⟩
end




theorem numChar_eq : ∀ c : UInt8, numChar c = isNumChar c := by
  apply forall_uint8; decide +kernel

theorem numStart_not_lit : ∀ c : UInt8, isNumStart c = true →
    (c == 116 || c == 110) = false ∧ (c == 102) = false := by
  apply forall_uint8; decide +kernel

theorem digit_numStart : ∀ c : UInt8, Json.isDigit c = true → isNumStart c = true := by
  apply forall_uint8; decide +kernel

/-- the run of number characters at the head of `n ++ r` is `n` when every byte of `n` is one and
    `r` does not start with one -/
theorem numRun_append (n r : Bytes) (hn : ∀ c ∈ n, isNumChar c = true)
    (hr : ∀ c t, r = c :: t → isNumChar c = false) : numRun (n ++ r) = n.length := by
  induction n with
  | nil =>
    cases r with
    | nil => simp [numRun]
    | cons c t => simp [numRun, hr c t rfl]
  | cons c n ih =>
    rw [List.cons_append, numRun]
    simp [hn c List.mem_cons_self, ih (fun x hx => hn x (List.mem_cons_of_mem _ hx))]

theorem skipString_body {b : Bytes} (hb : StrictBody b) : ∀ s : Bytes,
    skipString (b ++ 34 :: s) = some (b.length + 1) := by
  induction hb with
  | nil => intro s; rw [List.nil_append, skipString.eq_def]; simp
  | plain c b h32 h34 h92 _ ih =>
    intro s; rw [List.cons_append, skipString.eq_def]; simp [h34, h92, ih s]
  | esc e b he _ ih =>
    intro s; rw [List.cons_append, List.cons_append, skipString.eq_def]
    have : ((92 : UInt8) == 34) = false := by decide
    simp [this, ih s]
  | uni h1 h2 h3 h4 b x1 x2 x3 x4 _ ih =>
    intro s
    have a4 : skipString (h4 :: (b ++ 34 :: s)) = some (b.length + 1 + 1) := by
      rw [skipString.eq_def]; simp [(hex_not_special h4 x4).1, (hex_not_special h4 x4).2, ih s]
    have a3 : skipString (h3 :: h4 :: (b ++ 34 :: s)) = some (b.length + 1 + 1 + 1) := by
      rw [skipString.eq_def]; simp [(hex_not_special h3 x3).1, (hex_not_special h3 x3).2, a4]
    have a2 : skipString (h2 :: h3 :: h4 :: (b ++ 34 :: s)) = some (b.length + 1 + 1 + 1 + 1) := by
      rw [skipString.eq_def]; simp [(hex_not_special h2 x2).1, (hex_not_special h2 x2).2, a3]
    have a1 : skipString (h1 :: h2 :: h3 :: h4 :: (b ++ 34 :: s)) = some (b.length + 1 + 1 + 1 + 1 + 1) := by
      rw [skipString.eq_def]; simp [(hex_not_special h1 x1).1, (hex_not_special h1 x1).2, a2]
    simp only [List.cons_append]
    rw [skipString.eq_def]
    have : ((92 : UInt8) == 34) = false := by decide
    simp [this, a1]

/-- the lexical frame of a grammar value followed by anything that does not continue a number is
    the value itself (a number at the very end of the data has no frame yet: `none`) -/
theorem frame_of_val {k : Nat} {v : Bytes} (hv : Val StrictBody k v) (r : Bytes) (hr : NumEnd r) :
    (∃ c t, v = c :: t ∧ Fixed.kindOf c ≠ .invalid) ∧
    ((¬ Number v ∨ r ≠ []) → Fixed.frame (v ++ r) = some v.length) ∧
    (Number v → r = [] → Fixed.frame (v ++ r) = none ∧ (∃ c t, v = c :: t ∧ Fixed.kindOf c = .number)) := by
  cases hv with
  | nul =>
    refine ⟨⟨110, _, rfl, by decide⟩, fun _ => ?_, fun hn => ?_⟩
    · simp [Fixed.frame]
    · exfalso; cases hn with
      | pos n hb => obtain ⟨c, t, e, hd⟩ := numBody_head hb; simp at e; rw [← e.1] at hd; revert hd; decide
  | tru =>
    refine ⟨⟨116, _, rfl, by decide⟩, fun _ => ?_, fun hn => ?_⟩
    · simp [Fixed.frame]
    · exfalso; cases hn with
      | pos n hb => obtain ⟨c, t, e, hd⟩ := numBody_head hb; simp at e; rw [← e.1] at hd; revert hd; decide
  | fls =>
    refine ⟨⟨102, _, rfl, by decide⟩, fun _ => ?_, fun hn => ?_⟩
    · simp [Fixed.frame]
    · exfalso; cases hn with
      | pos n hb => obtain ⟨c, t, e, hd⟩ := numBody_head hb; simp at e; rw [← e.1] at hd; revert hd; decide
  | str b hb =>
    refine ⟨⟨34, _, rfl, by decide⟩, fun _ => ?_, fun hn => ?_⟩
    · have := skipString_body hb r
      simp only [Fixed.frame, List.cons_append, List.append_assoc, List.singleton_append]
      have e1 : ((34 : UInt8) == 91) = false := by decide
      have e2 : ((34 : UInt8) == 123) = false := by decide
      simp [e1, e2, this]
    · exfalso; cases hn with
      | pos n hb' => obtain ⟨c, t, e, hd⟩ := numBody_head hb'; simp at e; rw [← e.1] at hd; revert hd; decide
  | arr k t ht =>
    refine ⟨⟨91, _, rfl, by decide⟩, fun _ => ?_, fun hn => ?_⟩
    · have := (tarrB ht).1.1 r
      simp [Fixed.frame, this]
    · exfalso; cases hn with
      | pos n hb' => obtain ⟨c, t', e, hd⟩ := numBody_head hb'; simp at e; rw [← e.1] at hd; revert hd; decide
  | obj k t ht =>
    refine ⟨⟨123, _, rfl, by decide⟩, fun _ => ?_, fun hn => ?_⟩
    · have := (tobjB ht).1.1 r
      have e1 : ((123 : UInt8) == 91) = false := by decide
      simp [Fixed.frame, e1, this]
    · exfalso; cases hn with
      | pos n hb' => obtain ⟨c, t', e, hd⟩ := numBody_head hb'; simp at e; rw [← e.1] at hd; revert hd; decide
  | num _ hn =>
    -- head of a number: `-` or a digit
    have hhead : ∃ c t, v = c :: t ∧ isNumStart c = true := by
      cases hn with
      | pos n hb => obtain ⟨c, t, e, hd⟩ := numBody_head hb; exact ⟨c, t, e, digit_numStart c hd⟩
      | neg n' hb => exact ⟨45, n', rfl, by decide⟩
    obtain ⟨c, t, rfl, hc⟩ := hhead
    have hk := (numStart_facts c hc).1
    have hrun : numRun ((c :: t) ++ r) = (c :: t).length :=
      numRun_append _ r (fun x hx => (number_bytes hn x hx).2)
        (fun x t' e => by rw [← numChar_eq]; exact hr x t' e)
    have ⟨_, h91, h123, h34, _⟩ := numStart_not_space c hc
    have ⟨htn, hf⟩ := numStart_not_lit c hc
    have hfr : Fixed.frame ((c :: t) ++ r) =
        if numRun ((c :: t) ++ r) < ((c :: t) ++ r).length then some (numRun ((c :: t) ++ r)) else none := by
      simp only [Fixed.frame, List.cons_append, h91, h123, h34, htn, hf, hc, Bool.false_eq_true, if_false, if_true]
    refine ⟨⟨c, t, rfl, by rw [hk]; decide⟩, fun h => ?_, fun _ hr0 => ?_⟩
    · rcases h with h | h
      · exact absurd hn h
      · rw [hfr, hrun]
        have : (c :: t).length < ((c :: t) ++ r).length := by
          cases r with
          | nil => exact absurd rfl h
          | cons x r' => simp
        rw [if_pos this]
    · subst hr0
      rw [hfr, hrun]
      simp only [List.append_nil, Nat.lt_irrefl, if_false, true_and]
      exact ⟨c, t, rfl, hk⟩




/-- what the text of one value denotes: the canonical text of its strict parse -/
def denote (v : Bytes) : Bytes :=
  match decJson v with
  | some (x, _) => x
  | none => []

/-- the strict one-value decoder on the text of a grammar value: accepts it, consumes all of it -/
theorem decJson_of_val {k : Nat} {v : Bytes} (hv : Val StrictBody k v) :
    decJson v = some (denote v, v.length) := by
  obtain ⟨j, hj⟩ := pval hv [] (v.length + 1) (by intro c r e; cases e) (by omega)
  rw [List.append_nil] at hj
  simp [denote, decJson, hj]

/-- grammar-level reading of a stream that ends with `term`: white space, then a grammar value
    that is properly ended (`NumEnd`: what follows does not continue a number), and so on; the
    data ends after white space.  A number that touches the end of the data counts only if the
    stream ended with EOF. -/
inductive GStream (term : RErr) : Bytes → List Bytes → Prop
  | done (d : Bytes) : dropWs d = [] → GStream term d []
  | cons (d v r : Bytes) (k : Nat) (vs : List Bytes) : dropWs d = v ++ r → Val StrictBody k v → NumEnd r →
      (Number v → r = [] → term = .eof) → GStream term r vs → GStream term d (v :: vs)

/-- one step of the specification on data whose rest starts with a properly ended grammar value -/
theorem specStep_of_val (term : RErr) (data : Bytes) {k : Nat} {v : Bytes} (r : Bytes)
    (hd : dropWs data = v ++ r) (hv : Val StrictBody k v) (hr : NumEnd r)
    (hend : Number v → r = [] → term = .eof) :
    specStep decJson false term data = .val (denote v) r := by
  have ⟨⟨c, t, hvc, hk⟩, hf1, hf2⟩ := frame_of_val hv r hr
  have hlen : 0 < v.length := by rw [hvc]; simp
  have hdec := decJson_of_val hv
  have htake : (v ++ r).take v.length = v := by simp
  have hdrop : (v ++ r).drop v.length = r := by simp
  have hne : ¬(v.length = 0 ∨ v.length < v.length) := by omega
  unfold specStep
  rw [hd]
  have hcons : v ++ r = c :: (t ++ r) := by rw [hvc]; rfl
  unfold specStepCore
  rw [hcons]
  simp only [hk, if_false]
  rw [← hcons]
  by_cases hnum : Number v ∧ r = []
  · obtain ⟨hn, hr0⟩ := hnum
    have ⟨hnone, c', t', hvc', hk'⟩ := hf2 hn hr0
    have hcc : c' = c := by rw [hvc] at hvc'; simp at hvc'; exact hvc'.1.symm
    subst hcc
    have hte := hend hn hr0
    subst hte
    simp only [specFrame, hnone, hk', beq_self_eq_true, if_true]
    subst hr0
    simp only [List.append_nil, List.take_length, hdec, hne, if_false, List.drop_length]
  · have hfr : Fixed.frame (v ++ r) = some v.length := by
      apply hf1
      by_cases hn : Number v
      · right; intro h0; exact hnum ⟨hn, h0⟩
      · left; exact hn
    simp only [specFrame, hfr, htake, hdec, hne, if_false, hdrop]

theorem dropWs_le_length (d : Bytes) : (dropWs d).length ≤ d.length := by simp [dropWs]

/-- COMPLETENESS: on a stream that reads, at the level of the grammar, as the values `ts`, the
    specification yields exactly their denotations and ends with the reader's terminal condition -/
theorem decodeAllFuel_of_gstream (term : RErr) {d : Bytes} {ts : List Bytes} (h : GStream term d ts) :
    ∀ n, (dropWs d).length < n →
      decodeAllFuel decJson false term n d = (ts.map denote, .term term.toTerminal) := by
  induction h with
  | done d hd =>
    intro n hn
    cases n with
    | zero => omega
    | succ n => unfold decodeAllFuel; simp [specStep, hd, specStepCore]
  | cons d v r k vs hd hv hr hend _ ih =>
    intro n hn
    cases n with
    | zero => omega
    | succ n =>
      unfold decodeAllFuel
      rw [specStep_of_val term d r hd hv hr hend]
      have ⟨⟨c, t, hvc, _⟩, _, _⟩ := frame_of_val hv r hr
      have : (dropWs r).length < n := by
        have := dropWs_le_length r
        rw [hd, hvc] at hn; simp at hn; omega
      simp only [ih n this, List.map_cons]

/-- SOUNDNESS of one step: a value the specification yields sits, as the text of a grammar value,
    at the head of the data (behind the white space), and the step continues right behind it -/
theorem specStep_val_sound (l : Bool) (term : RErr) (data : Bytes) (x rest : Bytes)
    (h : specStep decJson l term data = .val x rest) :
    ∃ k v, dropWs data = v ++ rest ∧ Val StrictBody k v := by
  unfold specStep specStepCore at h
  cases hd : dropWs data with
  | nil => rw [hd] at h; simp at h
  | cons c t =>
    rw [hd] at h
    simp only at h
    split at h
    · simp at h
    · split at h
      · simp at h
      · rename_i xf hxf
        cases hdec : decJson ((c :: t).take xf) with
        | none => rw [hdec] at h; simp at h
        | some p =>
          obtain ⟨y, m⟩ := p
          rw [hdec] at h
          simp only at h
          split at h
          · simp at h
          · rename_i hg
            simp only [SpecStep.val.injEq] at h
            obtain ⟨_, hrest⟩ := h
            -- the strict parser accepted a prefix of the frame
            unfold decJson at hdec
            cases hp : parseVal (((c :: t).take xf).length + 1) ((c :: t).take xf) with
            | none => rw [hp] at hdec; simp at hdec
            | some q =>
              obtain ⟨j, rest'⟩ := q
              rw [hp] at hdec
              simp only [Option.some.injEq, Prod.mk.injEq] at hdec
              obtain ⟨_, hm⟩ := hdec
              obtain ⟨k, tv, hsplit, hval⟩ := (parse_sound _).1 _ _ _ hp
              refine ⟨k, tv, ?_, hval⟩
              have hlen : m = tv.length := by
                rw [← hm, hsplit]; simp
              have hct : c :: t = (c :: t).take xf ++ (c :: t).drop xf := (List.take_append_drop xf (c :: t)).symm
              rw [← hrest, hlen]
              conv => lhs; rw [hct, hsplit]
              conv => rhs; rw [hct, hsplit]
              simp [List.append_assoc]

/-- ERROR POSITION: where the specification of an EOF-terminated stream reports a syntax error, no
    properly ended grammar value starts behind the white space -/
theorem specStep_error_no_value (data : Bytes) (t : Terminal)
    (h : specStep decJson false .eof data = .done t) (hne : dropWs data ≠ []) :
    ¬ ∃ k v r, dropWs data = v ++ r ∧ Val StrictBody k v ∧ NumEnd r := by
  rintro ⟨k, v, r, hd, hv, hr⟩
  rw [specStep_of_val .eof data r hd hv hr (fun _ _ => rfl)] at h
  cases h


end SonicSpec.IO
