/-
  Helper lemmas about the number scanner of Model/JsonTree.lean: a syntactic description of the
  literals it accepts (`NumShape`), the fact that such a literal is read back exactly when a
  delimiter follows (`NumOK`), and soundness of what the scanner returns.
-/
import SonicSpec.Model.JsonTree
namespace SonicSpec.Enc
open SonicSpec SonicSpec.Json

def AllDigits (d : Bytes) : Prop := ∀ c ∈ d, isDigit c = true

def NoDigitHead : Bytes → Prop
  | [] => True
  | c :: _ => isDigit c = false

/-- what may follow a value: end of input, `,` `]` `}` or white space -/
def Delim : Bytes → Prop
  | [] => True
  | c :: _ => c = 44 ∨ c = 93 ∨ c = 125 ∨ isSpace c = true

theorem takeDigits_append (d r : Bytes) (hd : AllDigits d) (hr : NoDigitHead r) :
    takeDigits (d ++ r) = (d, r) := by
  induction d with
  | nil =>
    cases r with
    | nil => simp [takeDigits]
    | cons c t => simp [NoDigitHead] at hr; simp [takeDigits, hr]
  | cons c t ih =>
    have hc : isDigit c = true := hd c (by simp)
    have := ih (fun x hx => hd x (by simp [hx]))
    simp [takeDigits, hc, this]

theorem takeDigits_spec (s : Bytes) :
    s = (takeDigits s).1 ++ (takeDigits s).2 ∧ AllDigits (takeDigits s).1 ∧ NoDigitHead (takeDigits s).2 := by
  induction s with
  | nil => simp [takeDigits, AllDigits, NoDigitHead]
  | cons c r ih =>
    by_cases hc : isDigit c = true
    · obtain ⟨i1, i2, i3⟩ := ih
      simp only [takeDigits, hc, if_true]
      refine ⟨by simpa using i1, ?_, i3⟩
      intro x hx
      simp at hx
      rcases hx with hx | hx
      · subst hx; exact hc
      · exact i2 x hx
    · simp only [takeDigits, hc]
      simp [AllDigits, NoDigitHead, hc]

/-! the three stages of `scanNumber`, named -/

def scanSign (s : Bytes) : Bytes × Bytes :=
  match s with
  | 45 :: r => ([45], r)
  | _ => ([], s)

def scanInt (s1 : Bytes) : Option (Bytes × Bytes) :=
  match s1 with
  | 48 :: r => some ([48], r)
  | c :: r => if isDigit c then let (d, t) := takeDigits r; some (c :: d, t) else none
  | [] => none

def scanFrac (s2 : Bytes) : Option (Bytes × Bytes) :=
  match s2 with
  | 46 :: r => let (d, t) := takeDigits r; if d.isEmpty then none else some (46 :: d, t)
  | _ => some ([], s2)

def scanExp (s3 : Bytes) : Option (Bytes × Bytes) :=
  match s3 with
  | c :: r =>
    if c == 101 || c == 69 then
      let (sg, r2) : Bytes × Bytes := match r with
        | 43 :: r' => ([43], r')
        | 45 :: r' => ([45], r')
        | _ => ([], r)
      let (d, t) := takeDigits r2
      if d.isEmpty then none else some (c :: (sg ++ d), t)
    else some ([], s3)
  | [] => some ([], s3)

theorem scanNumber_eq (s : Bytes) : scanNumber s =
    (match scanInt (scanSign s).2 with
     | none => none
     | some (ip, s2) =>
       match scanFrac s2 with
       | none => none
       | some (fp, s3) =>
         match scanExp s3 with
         | none => none
         | some (ep, s4) => some ((scanSign s).1 ++ ip ++ fp ++ ep, s4)) := by
  unfold scanNumber scanSign scanInt scanFrac scanExp
  rfl

def IntPart (ip : Bytes) : Prop :=
  ip = [48] ∨ ∃ c d, ip = c :: d ∧ isDigit c = true ∧ c ≠ 48 ∧ AllDigits d

def FracPart (fp : Bytes) : Prop :=
  fp = [] ∨ ∃ d, fp = 46 :: d ∧ d ≠ [] ∧ AllDigits d

def ExpPart (ep : Bytes) : Prop :=
  ep = [] ∨ ∃ c sg d, ep = c :: (sg ++ d) ∧ (c = 101 ∨ c = 69) ∧ (sg = [] ∨ sg = [43] ∨ sg = [45]) ∧ d ≠ [] ∧ AllDigits d

/-- `-? (0 | [1-9][0-9]*) (. [0-9]+)? ([eE] [+-]? [0-9]+)?` -/
def NumShape (l : Bytes) : Prop :=
  ∃ sign ip fp ep, l = sign ++ ip ++ fp ++ ep ∧ (sign = [] ∨ sign = [45]) ∧ IntPart ip ∧ FracPart fp ∧ ExpPart ep

/-- the scanner reads the literal back exactly whenever a delimiter follows -/
def NumOK (l : Bytes) : Prop := ∀ rest, Delim rest → scanNumber (l ++ rest) = some (l, rest)


theorem isDigit_iff (c : UInt8) : isDigit c = true ↔ 48 ≤ c ∧ c ≤ 57 := by
  simp [isDigit]

theorem Delim.noDigit {r : Bytes} (h : Delim r) : NoDigitHead r := by
  cases r with
  | nil => trivial
  | cons c t =>
    simp only [Delim] at h
    simp only [NoDigitHead]
    rcases h with h | h | h | h
    · subst h; decide
    · subst h; decide
    · subst h; decide
    · simp only [isSpace, Bool.or_eq_true, beq_iff_eq] at h
      rcases h with ((h | h) | h) | h <;> subst h <;> decide

/-- first byte is neither a digit, nor `.`, nor `e`/`E` (so the fraction and exponent stages stop) -/
def StopHead : Bytes → Prop
  | [] => True
  | c :: _ => isDigit c = false ∧ c ≠ 46 ∧ c ≠ 101 ∧ c ≠ 69

theorem Delim.stop {r : Bytes} (h : Delim r) : StopHead r := by
  cases r with
  | nil => trivial
  | cons c t =>
    simp only [Delim] at h
    simp only [StopHead]
    rcases h with h | h | h | h
    · subst h; decide
    · subst h; decide
    · subst h; decide
    · simp only [isSpace, Bool.or_eq_true, beq_iff_eq] at h
      rcases h with ((h | h) | h) | h <;> subst h <;> decide

theorem scanExp_ok {ep rest : Bytes} (he : ExpPart ep) (hr : Delim rest) :
    scanExp (ep ++ rest) = some (ep, rest) := by
  rcases he with he | ⟨c, sg, d, he, hc, hsg, hd, hall⟩
  · subst he
    cases rest with
    | nil => simp [scanExp]
    | cons c t =>
      have := hr.stop
      simp only [StopHead] at this
      simp [scanExp, this.2.2.1, this.2.2.2]
  · subst he
    have htd : takeDigits (d ++ rest) = (d, rest) := takeDigits_append d rest hall hr.noDigit
    have hce : (c == 101 || c == 69) = true := by
      rcases hc with hc | hc <;> subst hc <;> decide
    have hdne : d.isEmpty = false := by
      cases d with
      | nil => exact absurd rfl hd
      | cons _ _ => rfl
    rcases hsg with hsg | hsg | hsg
    · subst hsg
      cases d with
      | nil => exact absurd rfl hd
      | cons c0 d' =>
        have h0 : isDigit c0 = true := hall c0 (by simp)
        have h43 : c0 ≠ 43 := by intro h; subst h; revert h0; decide
        have h45 : c0 ≠ 45 := by intro h; subst h; revert h0; decide
        simp only [List.nil_append, List.cons_append, scanExp, hce, if_true]
        have : (match (c0 :: (d' ++ rest) : Bytes) with
            | 43 :: r' => (([43] : Bytes), r')
            | 45 :: r' => ([45], r')
            | _ => ([], c0 :: (d' ++ rest))) = ([], c0 :: (d' ++ rest)) := by
          split
          · rename_i heq; injection heq with a _; exact absurd a h43
          · rename_i heq; injection heq with a _; exact absurd a h45
          · rfl
        rw [this]
        have htd' : takeDigits (c0 :: (d' ++ rest)) = (c0 :: d', rest) := by simpa using htd
        simp [htd']
    · subst hsg
      simp [scanExp, hce, htd, hdne]
    · subst hsg
      simp [scanExp, hce, htd, hdne]

theorem ExpPart.stopHead {ep rest : Bytes} (he : ExpPart ep) (hr : Delim rest) :
    NoDigitHead (ep ++ rest) ∧ (∀ t, ep ++ rest ≠ 46 :: t) := by
  rcases he with he | ⟨c, sg, d, he, hc, _⟩
  · subst he
    refine ⟨hr.noDigit, ?_⟩
    intro t h
    have := hr.stop
    simp only [List.nil_append] at h
    rw [h] at this
    simp [StopHead] at this
  · subst he
    constructor
    · simp only [List.cons_append, NoDigitHead]
      rcases hc with hc | hc <;> subst hc <;> decide
    · intro t h
      simp only [List.cons_append] at h
      injection h with a _
      rcases hc with hc | hc <;> subst hc <;> exact absurd a (by decide)

theorem scanFrac_ok {fp x : Bytes} (hf : FracPart fp) (hx1 : NoDigitHead x) (hx2 : ∀ t, x ≠ 46 :: t) :
    scanFrac (fp ++ x) = some (fp, x) := by
  rcases hf with hf | ⟨d, hf, hd, hall⟩
  · subst hf
    cases x with
    | nil => simp [scanFrac]
    | cons c t =>
      have hc : c ≠ 46 := fun h => hx2 t (by rw [h])
      simp only [List.nil_append]
      unfold scanFrac
      split
      · rename_i heq; injection heq with a _; exact absurd a hc
      · rfl
  · subst hf
    have htd : takeDigits (d ++ x) = (d, x) := takeDigits_append d x hall hx1
    have hdne : d.isEmpty = false := by
      cases d with
      | nil => exact absurd rfl hd
      | cons _ _ => rfl
    simp [scanFrac, htd, hdne]

theorem FracPart.noDigitHead {fp x : Bytes} (hf : FracPart fp) (hx : NoDigitHead x) : NoDigitHead (fp ++ x) := by
  rcases hf with hf | ⟨d, hf, _, _⟩
  · subst hf; simpa using hx
  · subst hf; simp only [List.cons_append, NoDigitHead]; decide

theorem scanInt_ok {ip x : Bytes} (hi : IntPart ip) (hx : NoDigitHead x) : scanInt (ip ++ x) = some (ip, x) := by
  rcases hi with hi | ⟨c, d, hi, hc, h48, hall⟩
  · subst hi; simp [scanInt]
  · subst hi
    have htd : takeDigits (d ++ x) = (d, x) := takeDigits_append d x hall hx
    simp only [List.cons_append]
    unfold scanInt
    split
    · rename_i heq; injection heq with a _; exact absurd a h48
    · rename_i heq
      injection heq with a b
      subst a; subst b
      simp [hc, htd]
    · rename_i heq; cases heq

theorem IntPart.head {ip : Bytes} (hi : IntPart ip) : ∃ c t, ip = c :: t ∧ isDigit c = true := by
  rcases hi with hi | ⟨c, d, hi, hc, _, _⟩
  · exact ⟨48, [], hi, by decide⟩
  · exact ⟨c, d, hi, hc⟩

theorem NumShape.ok {l : Bytes} (h : NumShape l) : NumOK l := by
  obtain ⟨sign, ip, fp, ep, hl, hs, hi, hf, he⟩ := h
  intro rest hr
  subst hl
  rw [scanNumber_eq]
  obtain ⟨h1, h2⟩ := he.stopHead hr
  have hsign : scanSign (sign ++ ip ++ fp ++ ep ++ rest) = (sign, ip ++ (fp ++ (ep ++ rest))) := by
    rcases hs with hs | hs
    · subst hs
      obtain ⟨c, t, hc, hd⟩ := hi.head
      subst hc
      simp only [List.nil_append, List.cons_append, List.append_assoc, scanSign]
      split
      · rename_i heq; injection heq with a _; subst a; exact absurd hd (by decide)
      · rfl
    · subst hs; simp [scanSign]
  rw [hsign]
  simp only [scanInt_ok hi (hf.noDigitHead h1), scanFrac_ok hf h1 h2, scanExp_ok he hr]


/-! soundness of the stages -/

theorem scanInt_sound {s ip t : Bytes} (h : scanInt s = some (ip, t)) : IntPart ip ∧ s = ip ++ t := by
  unfold scanInt at h
  split at h
  · simp at h; obtain ⟨h1, h2⟩ := h; subst h1; subst h2; exact ⟨Or.inl rfl, rfl⟩
  · rename_i c r h48
    by_cases hc : isDigit c = true
    · simp only [hc, if_true] at h
      obtain ⟨i1, i2, i3⟩ := takeDigits_spec r
      simp at h
      obtain ⟨h1, h2⟩ := h
      subst h1; subst h2
      refine ⟨Or.inr ⟨c, _, rfl, hc, ?_, i2⟩, by simpa using i1⟩
      intro hh; subst hh; exact h48 rfl
    · simp [hc] at h
  · simp at h

theorem scanFrac_sound {s fp t : Bytes} (h : scanFrac s = some (fp, t)) : FracPart fp ∧ s = fp ++ t := by
  unfold scanFrac at h
  split at h
  · rename_i r
    obtain ⟨i1, i2, i3⟩ := takeDigits_spec r
    by_cases hd : (takeDigits r).1.isEmpty = true
    · simp [hd] at h
    · simp [hd] at h
      obtain ⟨h1, h2⟩ := h
      subst h1; subst h2
      refine ⟨Or.inr ⟨_, rfl, ?_, i2⟩, by simpa using i1⟩
      intro hh; simp [hh] at hd
  · simp at h; obtain ⟨h1, h2⟩ := h; subst h1; subst h2; exact ⟨Or.inl rfl, rfl⟩

theorem scanExp_sound {s ep t : Bytes} (h : scanExp s = some (ep, t)) : ExpPart ep ∧ s = ep ++ t := by
  unfold scanExp at h
  split at h
  · rename_i c r
    by_cases hc : (c == 101 || c == 69) = true
    · simp only [hc, if_true] at h
      have hc' : c = 101 ∨ c = 69 := by simpa [Bool.or_eq_true] using hc
      -- the optional sign
      have key : ∀ (sg r2 : Bytes), (sg = [] ∨ sg = [43] ∨ sg = [45]) → r = sg ++ r2 →
          (if (takeDigits r2).1.isEmpty = true then none else some (c :: (sg ++ (takeDigits r2).1), (takeDigits r2).2)) = some (ep, t) →
          ExpPart ep ∧ c :: r = ep ++ t := by
        intro sg r2 hsg hr hh
        obtain ⟨i1, i2, i3⟩ := takeDigits_spec r2
        by_cases hd : (takeDigits r2).1.isEmpty = true
        · simp [hd] at hh
        · simp [hd] at hh
          obtain ⟨h1, h2⟩ := hh
          subst h1; subst h2
          refine ⟨Or.inr ⟨c, sg, _, rfl, hc', hsg, ?_, i2⟩, ?_⟩
          · intro e; simp [e] at hd
          · rw [hr]; simp only [List.cons_append, List.append_assoc]; rw [← i1]
      split at h
      · rename_i r'; exact key [43] r' (by simp) rfl h
      · rename_i r'; exact key [45] r' (by simp) rfl h
      · exact key [] r (by simp) rfl h
    · simp [hc] at h
      obtain ⟨h1, h2⟩ := h; subst h1; subst h2; exact ⟨Or.inl rfl, rfl⟩
  · simp at h; obtain ⟨h1, h2⟩ := h; subst h1; subst h2; exact ⟨Or.inl rfl, rfl⟩

theorem scanSign_spec (s : Bytes) : ((scanSign s).1 = [] ∨ (scanSign s).1 = [45]) ∧ s = (scanSign s).1 ++ (scanSign s).2 := by
  unfold scanSign
  split <;> simp

theorem scanNumber_sound {s l r : Bytes} (h : scanNumber s = some (l, r)) : NumShape l ∧ s = l ++ r := by
  rw [scanNumber_eq] at h
  obtain ⟨hs1, hs2⟩ := scanSign_spec s
  cases hi : scanInt (scanSign s).2 with
  | none => simp [hi] at h
  | some p1 =>
    obtain ⟨ip, s2⟩ := p1
    simp only [hi] at h
    cases hf : scanFrac s2 with
    | none => simp [hf] at h
    | some p2 =>
      obtain ⟨fp, s3⟩ := p2
      simp only [hf] at h
      cases he : scanExp s3 with
      | none => simp [he] at h
      | some p3 =>
        obtain ⟨ep, s4⟩ := p3
        simp only [he] at h
        simp at h
        obtain ⟨h1, h2⟩ := h
        obtain ⟨a1, a2⟩ := scanInt_sound hi
        obtain ⟨b1, b2⟩ := scanFrac_sound hf
        obtain ⟨c1, c2⟩ := scanExp_sound he
        subst h1; subst h2
        refine ⟨⟨_, ip, fp, ep, by simp, hs1, a1, b1, c1⟩, ?_⟩
        simp only [List.append_assoc]
        rw [← c2, ← b2, ← a2]
        exact hs2

/-- bytes a number literal is made of -/
def NumChar (c : UInt8) : Prop := isDigit c = true ∨ c = 45 ∨ c = 43 ∨ c = 46 ∨ c = 101 ∨ c = 69

theorem NumShape.chars {l : Bytes} (h : NumShape l) : ∀ c ∈ l, NumChar c := by
  obtain ⟨sign, ip, fp, ep, hl, hs, hi, hf, he⟩ := h
  subst hl
  intro c hc
  simp only [List.mem_append] at hc
  rcases hc with ((hc | hc) | hc) | hc
  · rcases hs with hs | hs <;> subst hs <;> simp at hc
    subst hc; right; left; rfl
  · rcases hi with hi | ⟨c0, d, hi, h0, _, hall⟩
    · subst hi; simp at hc; subst hc; left; decide
    · subst hi; simp at hc
      rcases hc with hc | hc
      · subst hc; left; exact h0
      · left; exact hall c hc
  · rcases hf with hf | ⟨d, hf, _, hall⟩
    · subst hf; simp at hc
    · subst hf; simp at hc
      rcases hc with hc | hc
      · subst hc; right; right; right; left; rfl
      · left; exact hall c hc
  · rcases he with he | ⟨c0, sg, d, he, h0, hsg, _, hall⟩
    · subst he; simp at hc
    · subst he; simp at hc
      rcases hc with hc | hc | hc
      · subst hc; rcases h0 with h0 | h0 <;> subst h0
        · right; right; right; right; left; rfl
        · right; right; right; right; right; rfl
      · rcases hsg with hsg | hsg | hsg <;> subst hsg <;> simp at hc
        · subst hc; right; right; left; rfl
        · subst hc; right; left; rfl
      · left; exact hall c hc

/-- the first byte of a number literal: `-` or a digit -/
theorem NumShape.head {l : Bytes} (h : NumShape l) : ∃ c t, l = c :: t ∧ (c = 45 ∨ isDigit c = true) := by
  obtain ⟨sign, ip, fp, ep, hl, hs, hi, hf, he⟩ := h
  subst hl
  obtain ⟨c, t, hc, hd⟩ := hi.head
  subst hc
  rcases hs with hs | hs <;> subst hs
  · exact ⟨c, t ++ fp ++ ep, by simp, Or.inr hd⟩
  · exact ⟨45, c :: t ++ fp ++ ep, by simp, Or.inl rfl⟩

end SonicSpec.Enc
