/-
  Two sorts, one result: the stable merge sort of the encoding/json specification and the insertion sort of the
  Enc model agree on entries with pairwise different keys, because a list sorted by an antisymmetric total
  order on distinct keys is determined by its elements.
-/
import SonicSpec.Model.EncStd
import SonicSpec.Proofs.EncOrder
namespace SonicSpec.EncStd
open SonicSpec SonicSpec.Json SonicSpec.Enc

theorem bytesLe_antisymm : ∀ (a b : Bytes), bytesLe a b = true → bytesLe b a = true → a = b := by
  intro a
  induction a with
  | nil => intro b _ h; cases b with
    | nil => rfl
    | cons _ _ => simp [bytesLe] at h
  | cons x xs ih =>
    intro b h1 h2
    cases b with
    | nil => simp [bytesLe] at h1
    | cons y ys =>
      simp only [bytesLe] at h1 h2
      by_cases hxy : x < y
      · have : ¬ y < x := fun h => absurd (UInt8.lt_trans hxy h) (UInt8.lt_irrefl _)
        simp [hxy, this] at h2
      · by_cases hyx : y < x
        · simp [hxy, hyx] at h1
        · have hxy' : x = y := UInt8.le_antisymm (UInt8.not_lt.mp hyx) (UInt8.not_lt.mp hxy)
          subst hxy'
          simp only [hxy, if_false] at h1 h2
          rw [ih ys h1 h2]

/-- a list sorted by key, with pairwise different keys, is determined by its elements -/
theorem sorted_perm_unique {β : Type} : ∀ (l1 l2 : List (Bytes × β)),
    l1.Pairwise (fun a b => bytesLe a.1 b.1 = true) → l2.Pairwise (fun a b => bytesLe a.1 b.1 = true) →
    l1.Perm l2 → (l1.map (·.1)).Nodup → l1 = l2 := by
  intro l1
  induction l1 with
  | nil => intro l2 _ _ hp _; exact (List.Perm.nil_eq hp)
  | cons h1 t1 ih =>
    intro l2 s1 s2 hp hn
    cases l2 with
    | nil => exact absurd hp.symm (by intro h; have := List.Perm.nil_eq h; cases this)
    | cons h2 t2 =>
      simp only [List.pairwise_cons] at s1 s2
      simp only [List.map_cons, List.nodup_cons] at hn
      have m1 : h1 ∈ h2 :: t2 := hp.mem_iff.mp (by simp)
      have m2 : h2 ∈ h1 :: t1 := hp.mem_iff.mpr (by simp)
      have hh : h1 = h2 := by
        rcases List.mem_cons.mp m1 with e | e
        · exact e
        · rcases List.mem_cons.mp m2 with e2 | e2
          · exact e2.symm
          · -- h1 ≤ h2 (h2 in t1) and h2 ≤ h1 (h1 in t2): equal keys, but keys are distinct
            have a := s1.1 h2 e2
            have b := s2.1 h1 e
            have hk : h1.1 = h2.1 := bytesLe_antisymm _ _ a b
            exfalso
            apply hn.1
            rw [hk]
            exact List.mem_map_of_mem e2
      subst hh
      have hp' : t1.Perm t2 := List.Perm.cons_inv hp
      rw [ih t2 s1.2 s2.2 hp' hn.2]

theorem keyLE_trans {β : Type} (a b c : Bytes × β) : bytesLe a.1 b.1 = true → bytesLe b.1 c.1 = true → bytesLe a.1 c.1 = true :=
  bytesLe_trans _ _ _

/-- encoding/json's sort of (key, text) pairs and the Enc model's sort of (key, tree) pairs give the same order
    when no key occurs twice -/
theorem mergeSort_eq_sortKV (es : List (Bytes × JVal)) (hn : (es.map (·.1)).Nodup) :
    (es.map fun e => (e.1, render e.2)).mergeSort keyLE = (sortKV es).map fun e => (e.1, render e.2) := by
  apply sorted_perm_unique
  · apply List.pairwise_mergeSort
    · intro a b c h1 h2; exact bytesLe_trans _ _ _ h1 h2
    · intro a b; simpa [keyLE] using bytesLe_total a.1 b.1
  · have := sortKV_sorted es
    simp only [SortedKV] at this
    exact List.Pairwise.map _ (fun _ _ h => h) this
  · exact (List.mergeSort_perm _ _).trans ((sortKV_perm es).symm.map _)
  · have hp : ((es.map fun e => (e.1, render e.2)).mergeSort keyLE).Perm (es.map fun e => (e.1, render e.2)) := List.mergeSort_perm _ _
    have hp2 := hp.map (·.1)
    rw [hp2.nodup_iff, List.map_map]
    have : ((fun x : Bytes × Bytes => x.1) ∘ fun e : Bytes × JVal => (e.1, render e.2)) = fun e => e.1 := rfl
    rw [this]
    exact hn

end SonicSpec.EncStd
