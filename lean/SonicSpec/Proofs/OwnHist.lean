/-
  C06 helper lemmas, part 4: EncodeInto, the decoding calls, the caller's own writes, and the
  induction over histories.
-/
import SonicSpec.Proofs.OwnOps
namespace SonicSpec.Own
open SonicSpec

/-! ### EncodeInto -/

/-- contents of the slice the caller passes -/
def targetPrior (st : State) : Target → Option Bytes
  | .fresh prior _ => some prior
  | .again id =>
    match st.heap[id]? with
    | some b => if b.owner = .caller ∧ id ∉ st.inputs then some (b.mem.take b.len) else none
    | none => none

def specEncodeInto (o : Opts) (prior : Bytes) (v : Val) : Option Bytes :=
  match render v with
  | none => none
  | some t => some (prior ++ (if o.escapeHTML then htmlEscape t else t))

theorem resolveTarget_ok {st : State} (h : Inv st) (t : Target) :
    (resolveTarget st t = none ∧ targetPrior st t = none) ∨
    ∃ st0 id b, resolveTarget st t = some (st0, id) ∧ Inv st0 ∧ st0.heap[id]? = some b ∧
      b.owner = .caller ∧ id ∉ st0.inputs ∧ st0.results = st.results ∧
      targetPrior st t = some (b.mem.take b.len) := by
  cases t with
  | fresh prior dirt =>
    right
    refine ⟨_, _, ⟨.caller, prior ++ dirt, prior.length⟩, rfl, alloc_inv h _ _ _ (by simp), alloc_heap_new st _ _ _, rfl, ?_, rfl, ?_⟩
    · intro hi
      obtain ⟨b, hb, _⟩ := h.inputs _ hi
      have := heap_lt hb
      simp [State.alloc] at this
    · simp [targetPrior]
  | again id =>
    cases hb : st.heap[id]? with
    | none => left; simp [resolveTarget, targetPrior, hb]
    | some b =>
      by_cases hc : b.owner = .caller ∧ id ∉ st.inputs
      · right
        exact ⟨st, id, b, by simp [resolveTarget, hb, hc], h, hb, hc.1, hc.2, rfl, by simp [targetPrior, hb, hc]⟩
      · left; simp [resolveTarget, targetPrior, hb, hc]

theorem opEncodeInto_ok {c : Ctx} (hc : c.OK) {st : State} (h : Inv st) (o : Opts) (impl : StrImpl)
    (t : Target) (v : Val) :
    ∃ st' ret, opEncodeInto c st o impl t v = .ok (st', ret) ∧ StepOK st st' ∧
      (∀ prior, targetPrior st t = some prior → ret.matches (specEncodeInto o prior v)) := by
  rcases resolveTarget_ok h t with ⟨hn, hp⟩ | ⟨st0, id, b, hres, hi0, hb, hown, hnin, hr0, hp⟩
  · exact ⟨st, .nothing, by unfold opEncodeInto; simp only [hn], stepOK_of_eq h rfl,
      fun prior hpr => by rw [hp] at hpr; cases hpr⟩
  · have hwfb := hi0.wf _ _ hb
    have hl : (st0.bytesOf id).length = b.len := by
      rw [bytesOf_cell hb, List.length_take]; omega
    obtain ⟨sb, hfs, hx⟩ := encodeInto_ok hc.env hc.nat impl o { mem := b.mem, len := b.len, gen := 0 } hwfb v
    obtain ⟨st1, id1, hrun, hr⟩ := runOn_ok hi0 hb (lent := some (st0.bytesOf id).length)
      (f := (encodeInto c.env c.nat impl o · v)) (Or.inr ⟨hown, by rw [hl]⟩) hfs hx
    have hcell := hr.cell
    have hgive : ∀ n, n ≤ sb.len → Given st1 (st1.give id1 0 n) id1 0 n := by
      intro n hn
      refine give_ok hr.inv hcell ?_ (by simpa using hn)
      by_cases e : id1 = id
      · right
        simp only [e, if_true]
        exact ⟨hown, by rw [hr.inputs]; exact hnin⟩
      · left; simp only [e, if_false]
    have hbytes1 : st1.bytesOf id1 = b.mem.take b.len ++ finishText o (compile v) := by
      rw [hr.bytesOf]; exact hx.bytes
    have hlen1 : (st1.bytesOf id1).length = sb.len := by
      rw [hr.bytesOf, List.length_take]; have := hx.wf; unfold SBuf.WF at this; omega
    have hg := hgive (st1.bytesOf id1).length (by omega)
    obtain ⟨r, hrr, _⟩ := hg.results
    rcases Bool.eq_false_or_eq_true (hasBad (compile v)) with hbad | hbad
    · rw [hbad] at hrun
      refine ⟨st1.give id1 0 (st1.bytesOf id1).length, .err, by unfold opEncodeInto; simp only [hres, hrun],
        ⟨hg.inv, [r], by rw [hrr, hr.results, hr0]; rfl⟩, ?_⟩
      intro prior _
      simp only [specEncodeInto, render_none hbad, Ret.matches]
    · rw [hbad] at hrun
      refine ⟨st1.give id1 0 (st1.bytesOf id1).length, .bytes id1 (st1.bytesOf id1),
        by unfold opEncodeInto; simp only [hres, hrun],
        ⟨hg.inv, [r], by rw [hrr, hr.results, hr0]; rfl⟩, ?_⟩
      intro prior hpr
      rw [hp] at hpr; cases hpr
      simp only [specEncodeInto, render_some hbad, Ret.matches]
      refine ⟨id1, ?_⟩
      rw [hbytes1]
      rcases Bool.eq_false_or_eq_true o.escapeHTML with ho | ho <;> simp [finishText, hbad, ho]

/-! ### decoding, the caller's writes, gc -/

theorem slice_length {doc : Bytes} {off n : Nat} (h : off + n ≤ doc.length) :
    ((doc.drop off).take n).length = n := by
  simp only [List.length_take, List.length_drop]; omega

theorem registerInput_inv {st : State} (h : Inv st) {id : Nat} {b : Buf} (hb : st.heap[id]? = some b)
    (ho : b.owner = .caller) (hfresh : ∀ r ∈ st.results, r.id ≠ id) : Inv (st.registerInput id) := by
  refine ⟨h.wf, h.pooled, h.nodup, ?_, ?_, h.log⟩
  · intro r hr
    obtain ⟨b', hb', ho', hl', hs', hi'⟩ := h.results r hr
    refine ⟨b', hb', ho', hl', hs', ?_⟩
    simp only [State.registerInput, List.mem_cons, not_or]
    exact ⟨hfresh r hr, hi'⟩
  · intro i hi
    simp only [State.registerInput, List.mem_cons] at hi
    rcases hi with hi | hi
    · subst hi; exact ⟨b, hb, ho⟩
    · exact h.inputs i hi

theorem addResults_inv {st : State} (h : Inv st) {rs : List Result} (hrs : ∀ r ∈ rs, r.ok st) :
    Inv (st.addResults rs) := by
  refine ⟨h.wf, h.pooled, h.nodup, ?_, h.inputs, h.log⟩
  intro r hr
  simp only [State.addResults, List.mem_append] at hr
  rcases hr with hr | hr
  · exact hrs r hr
  · exact h.results r hr

theorem decodeResults_ok {st : State} {id : Nat} {doc : Bytes} (parts : List (Nat × Nat))
    (hcell : st.heap[id]? = some ⟨.caller, doc, doc.length⟩) (hni : id ∉ st.inputs) :
    ∀ r ∈ decodeResults id doc parts, r.ok st := by
  intro r hr
  simp only [decodeResults, List.mem_map, List.mem_filter, decide_eq_true_eq] at hr
  obtain ⟨p, ⟨_, hp⟩, rfl⟩ := hr
  refine ⟨_, hcell, rfl, ?_, ?_, hni⟩
  · simp only [slice_length hp]; exact hp
  · simp only [slice_length hp]

theorem opDecode_ok {st : State} (h : Inv st) (doc : Bytes) (parts : List (Nat × Nat)) (copy : Bool) :
    StepOK st (opDecode st doc parts copy).1 := by
  have hlt : ∀ r ∈ st.results, r.id < st.heap.length := by
    intro r hr; obtain ⟨b, hb, _⟩ := h.results r hr; exact heap_lt hb
  have hilt : ∀ i ∈ st.inputs, i < st.heap.length := by
    intro i hi; obtain ⟨b, hb, _⟩ := h.inputs i hi; exact heap_lt hb
  have hi1 := alloc_inv h .caller doc doc.length (Nat.le_refl _)
  have hc1 := alloc_heap_new st .caller doc doc.length
  unfold opDecode
  cases copy
  · -- the values refer to the input itself
    simp only [Bool.false_eq_true, if_false]
    have hni : (st.alloc .caller doc doc.length).2 ∉ (st.alloc .caller doc doc.length).1.inputs := by
      intro hi
      have := hilt _ hi
      simp [State.alloc] at this
    exact ⟨addResults_inv hi1 (decodeResults_ok parts hc1 hni), _, rfl⟩
  · -- the values refer to a private copy; the input may be overwritten from now on
    simp only [if_true]
    have hi2 := registerInput_inv hi1 hc1 rfl (by
      intro r hr
      have := hlt r hr
      simp only [State.alloc]; omega)
    generalize hst1 : (st.alloc .caller doc doc.length).1.registerInput (st.alloc .caller doc doc.length).2 = st1 at hi2
    have hlen1 : st1.heap.length = st.heap.length + 1 := by
      rw [← hst1]; simp [State.alloc, State.registerInput]
    have hin1 : st1.inputs = st.heap.length :: st.inputs := by
      rw [← hst1]; simp [State.alloc, State.registerInput]
    have hres1 : st1.results = st.results := by rw [← hst1]; simp [State.alloc, State.registerInput]
    have hi3 := alloc_inv hi2 .internal doc doc.length (Nat.le_refl _)
    have hc3 := alloc_heap_new st1 .internal doc doc.length
    have hg := give_ok hi3 hc3 (Or.inl rfl) (off := 0) (n := 0) (by simp)
    obtain ⟨r0, hr0, _⟩ := hg.results
    have hcell : ((st1.alloc .internal doc doc.length).1.give (st1.alloc .internal doc doc.length).2 0 0).heap[
        (st1.alloc .internal doc doc.length).2]? = some ⟨.caller, doc, doc.length⟩ := by
      unfold State.give
      rw [hc3]
      simp only
      rw [getElem?_set_eq hc3, if_pos rfl]
    have hni : (st1.alloc .internal doc doc.length).2 ∉
        ((st1.alloc .internal doc doc.length).1.give (st1.alloc .internal doc doc.length).2 0 0).inputs := by
      rw [hg.inputs]
      simp only [State.alloc, hin1, hlen1, List.mem_cons, not_or]
      refine ⟨by omega, ?_⟩
      intro hi
      have := hilt _ hi
      omega
    refine ⟨addResults_inv hg.inv (decodeResults_ok parts hcell hni),
      decodeResults (st1.alloc .internal doc doc.length).2 doc parts ++ [r0], ?_⟩
    show decodeResults _ doc parts ++ (State.give _ _ 0 0).results = _
    rw [hr0]
    simp only [State.alloc, hres1, List.append_assoc, List.singleton_append]

theorem opScribble_ok {st : State} (h : Inv st) (id : Nat) (junk : Bytes) :
    StepOK st (opScribble st id junk) := by
  unfold opScribble
  cases hb : st.heap[id]? with
  | none => exact stepOK_of_eq h rfl
  | some b =>
    simp only
    by_cases hc : id ∈ st.inputs ∧ junk.length = b.mem.length
    · simp only [hc, and_self, if_true]
      obtain ⟨b0, hb0, ho0⟩ := h.inputs id hc.1
      rw [hb] at hb0; cases hb0
      have set_get : ∀ j, (st.heap.set id { b with mem := junk })[j]? =
          if id = j then some { b with mem := junk } else st.heap[j]? := fun j => getElem?_set_eq hb
      refine stepOK_of_eq ⟨?_, ?_, h.nodup, ?_, ?_, h.log⟩ rfl
      · intro j b' hj
        simp only [State.setBuf] at hj
        rw [set_get] at hj
        split at hj
        · cases hj; simp only; rw [hc.2]; exact h.wf _ _ hb
        · exact h.wf _ _ hj
      · intro p hp
        obtain ⟨b', hb', ho', hl'⟩ := h.pooled p hp
        have hne : p.2 ≠ id := by
          intro e; rw [e, hb] at hb'; cases hb'; rw [ho0] at ho'; cases ho'
        exact ⟨b', by simp only [State.setBuf]; rw [set_get, if_neg (Ne.symm hne)]; exact hb', ho', hl'⟩
      · intro r hr
        obtain ⟨b', hb', ho', hl', hs', hi'⟩ := h.results r hr
        have hne : r.id ≠ id := by intro e; rw [e] at hi'; exact hi' hc.1
        exact ⟨b', by simp only [State.setBuf]; rw [set_get, if_neg (Ne.symm hne)]; exact hb', ho', hl', hs', hi'⟩
      · intro i hi
        obtain ⟨b', hb', ho'⟩ := h.inputs i hi
        by_cases e : i = id
        · subst e; rw [hb] at hb'; cases hb'
          exact ⟨{ b with mem := junk }, by simp only [State.setBuf]; rw [set_get, if_pos rfl], ho'⟩
        · exact ⟨b', by simp only [State.setBuf]; rw [set_get, if_neg (Ne.symm e)]; exact hb', ho'⟩
    · simp only [hc, if_false]
      exact stepOK_of_eq h rfl

theorem opGC_ok {st : State} (h : Inv st) : StepOK st (opGC st) := by
  refine stepOK_of_eq ⟨h.wf, ?_, ?_, h.results, h.inputs, h.log⟩ rfl
  · intro p hp; simp [opGC] at hp
  · simp [opGC]

/-! ### histories -/

/-- no call of the model faults (so `step` never takes its fall-back branch), every call keeps the
    invariant and only adds results -/
theorem step_ok {c : Ctx} (hc : c.OK) {st : State} (h : Inv st) (op : Op) : StepOK st (step c st op).1 := by
  cases op with
  | marshal o v p1 p2 =>
    obtain ⟨st', ret, e, hs, _⟩ := opEncode_ok hc h o v p1 p2
    simp only [step, e]; exact hs
  | indent o v pre ind p1 p2 =>
    obtain ⟨st', ret, e, hs, _⟩ := opIndent_ok hc h o v pre ind p1 p2
    simp only [step, e]; exact hs
  | encodeInto o impl t v =>
    obtain ⟨st', ret, e, hs, _⟩ := opEncodeInto_ok hc h o impl t v
    simp only [step, e]; exact hs
  | node n p =>
    obtain ⟨st', ret, e, hs, _⟩ := opNode_ok hc h n p
    simp only [step, e]; exact hs
  | decode doc parts copy => exact opDecode_ok h doc parts copy
  | scribble id junk => exact opScribble_ok h id junk
  | gc => exact opGC_ok h

theorem run_ok {c : Ctx} (hc : c.OK) : ∀ (ops : List Op) {st : State}, Inv st → StepOK st (run c st ops) := by
  intro ops
  induction ops with
  | nil => intro st h; exact stepOK_of_eq h rfl
  | cons op r ih =>
    intro st h
    have h1 := step_ok hc h op
    have h2 := ih h1.inv
    obtain ⟨n1, e1⟩ := h1.mono
    obtain ⟨n2, e2⟩ := h2.mono
    exact ⟨h2.inv, n2 ++ n1, by simp only [run]; rw [e2, e1, List.append_assoc]⟩

theorem run_append (c : Ctx) (st : State) (a b : List Op) : run c st (a ++ b) = run c (run c st a) b := by
  induction a generalizing st with
  | nil => rfl
  | cons op r ih => simp only [List.cons_append, run]; exact ih _

theorem result_now_of_ok {st : State} {r : Result} (h : r.ok st) : r.now st = r.bytes := by
  obtain ⟨b, hb, _, _, hs, _⟩ := h
  simp only [Result.now, hb]; exact hs

end SonicSpec.Own
