/-
  Decoder IR: compileStructBody - the member loop (key, `_OP_struct_field`, `_OP_switch`, the field blocks,
  `_OP_object_next` for unknown keys), entered at either copy of the key matcher.
-/
import SonicSpec.Proofs.DirSlice
namespace SonicSpec.Dir
open SonicSpec SonicSpec.Go SonicSpec.Json SonicSpec.Bind SonicSpec.Stream

variable {o : DecOpts} {co : COpts}

/-! ### the resolved field list -/

theorem rawFields_mem : ∀ (fs : List (String × Option Bytes × GoType)) (i : Nat) (f : Field), f ∈ rawFields i fs →
    i ≤ f.idx ∧ ∃ nm tg, fs[f.idx - i]? = some (nm, tg, f.ty)
  | [], _, _, h => by simp [rawFields] at h
  | (nm, tg, t) :: fs, i, f, h => by
    unfold rawFields at h
    split at h
    · obtain ⟨h1, nm', tg', h2⟩ := rawFields_mem fs (i + 1) f h
      refine ⟨by omega, nm', tg', ?_⟩
      have : f.idx - i = (f.idx - (i + 1)) + 1 := by omega
      rw [this]; simpa using h2
    · simp only at h
      cases h with
      | head => simp
      | tail _ h =>
        obtain ⟨h1, nm', tg', h2⟩ := rawFields_mem fs (i + 1) f h
        refine ⟨by omega, nm', tg', ?_⟩
        have : f.idx - i = (f.idx - (i + 1)) + 1 := by omega
        rw [this]; simpa using h2

theorem resolve_mem {fs : List (String × Option Bytes × GoType)} {f : Field} (h : f ∈ resolveFields fs) :
    ∃ nm tg, fs[f.idx]? = some (nm, tg, f.ty) := by
  unfold resolveFields at h
  have := (List.mem_filter.mp h).1
  obtain ⟨_, nm, tg, h2⟩ := rawFields_mem fs 0 f this
  exact ⟨nm, tg, by simpa using h2⟩

theorem lookup_mem {fields : List Field} {cs : Bool} {key : Bytes} {f : Field} (h : lookupField fields cs key = .found f) : f ∈ fields := by
  unfold lookupField at h
  split at h
  · cases h
  · split at h
    · rename_i f' hf; injection h with h; subst h; exact List.mem_of_find?_eq_some hf
    · split at h
      · cases h
      · split at h
        · cases h
        · split at h
          · cases h
          · split at h
            · rename_i f' hf; injection h with h; subst h; exact List.mem_of_find?_eq_some hf
            · cases h

theorem fieldPos_mem {rs : List Field} {f : Field} (h : f ∈ rs) :
    ∃ j f', fieldPos rs f = some j ∧ rs[j]? = some f' ∧ f'.idx = f.idx := by
  unfold fieldPos
  cases hq : List.findIdx? (fun g => g.idx == f.idx) rs with
  | none =>
    have := List.findIdx?_eq_none_iff.mp hq f h
    simp at this
  | some j =>
    obtain ⟨hj, hp, _⟩ := List.findIdx?_eq_some_iff_getElem.mp hq
    exact ⟨j, rs[j], rfl, by simp [hj], by simpa using hp⟩

/-! ### `decodeStruct` unfolded -/

theorem ds_zero (o : DecOpts) (fields : List Field) (s : Bytes) (vs : List GoVal) : decodeStruct o 0 fields s vs = .error .syntax := by
  rw [decodeStruct]

/-- one member's result -/
def memberStep (o : DecOpts) (n : Nat) (fields : List Field) (key r2 : Bytes) (vs : List GoVal) : Res (List GoVal) :=
  match lookupField fields o.caseSensitive key with
  | .outside =>
    match skipVal true n (skipWs r2) with
    | none => .error .syntax
    | some r3 => .ok (vs, some .outside, r3)
  | .missing =>
    match skipVal o.validateString n (skipWs r2) with
    | none => .error .syntax
    | some r3 => .ok (vs, if o.disallowUnknown then some .unknownField else none, r3)
  | .found f =>
    match (if f.quoted then decodeQuoted o n f.ty (skipWs r2) (vs.getD f.idx (zeroOf f.ty)) else decodeVal o n f.ty (skipWs r2) (vs.getD f.idx (zeroOf f.ty))) with
    | .error e => .error e
    | .ok (v, e, r3) => .ok (vs.set f.idx v, e, r3)

theorem ds_succ (o : DecOpts) (n : Nat) (fields : List Field) (r0 : Bytes) (vs : List GoVal) :
    decodeStruct o (n + 1) fields (34 :: r0) vs =
      match scanString r0 with
      | none => .error .syntax
      | some (k, r1) =>
        match skipWs r1 with
        | 58 :: r2 =>
          match unquote k with
          | none => .error .syntax
          | some key =>
            match memberStep o n fields key r2 vs with
            | .error e => .error e
            | .ok (vs', e, r3) =>
              match skipWs r3 with
              | 44 :: t =>
                match decodeStruct o n fields (skipWs t) vs' with
                | .error e' => .error e'
                | .ok (res, e', t') => .ok (res, merge e e', t')
              | 125 :: t => .ok (vs', e, t)
              | _ => .error .syntax
        | _ => .error .syntax := by
  rw [decodeStruct]
  simp only [memberStep]
  cases scanString r0 with
  | none => rfl
  | some p =>
    obtain ⟨k, r1⟩ := p
    simp only
    split
    · rename_i r2 heq
      simp only [heq]
      cases unquote k with
      | none => rfl
      | some key => rfl
    · rename_i hne
      split
      · rename_i r2 heq; exact absurd heq (hne r2)
      · rfl

theorem ds_head (o : DecOpts) (n : Nat) (fields : List Field) (s : Bytes) (vs res : List GoVal) (e : Option DErr) (r : Bytes)
    (h : decodeStruct o n fields s vs = .ok (res, e, r)) : ∃ r0, s = 34 :: r0 := by
  cases n with
  | zero => rw [ds_zero] at h; cases h
  | succ n =>
    cases s with
    | nil => simp [decodeStruct] at h
    | cons c r0 =>
      by_cases hc : c = 34
      · subst hc; exact ⟨_, rfl⟩
      · rw [decodeStruct] at h
        · cases h
        · intro r hr; injection hr with h1 _; exact hc h1

/-! ### the member loop -/

/-- every JSON-visible field has its block, reached through `_OP_struct_field` + `_OP_switch` -/
def BlocksOK (co : COpts) (P : Program) (rs : List Field) (sw : List Nat) (lib : LibCode) (tab : Tab) (sp y0 : Nat) : Prop :=
  ∀ f ∈ rs, ∃ j bpc off, fieldPos rs f = some j ∧ sw[j]? = some bpc ∧
    At P bpc ([.index [f.idx] off] ++ (one co lib tab (bpc + 1) (sp + 1) f.ty).1 ++ [.load, .goto y0])

/-- the member loop of compileStructBody, entered at the `_OP_match_char '"'` of a key (`a`): the first copy, or the
    one behind the comma (`y0 + 4`) -/
def StructOK (o : DecOpts) (co : COpts) (n : Nat) : Prop :=
  ∀ (fs : List (String × Option Bytes × GoType)) (s : Bytes) (vs res : List GoVal) (e : Option DErr) (r : Bytes),
    SubF fs = true → (∀ f ∈ resolveFields fs, f.quoted = false) → WTf fs vs = true →
    decodeStruct o n (resolveFields fs) s vs = .ok (res, e, r) →
    WTf fs res = true ∧
    ∀ (lib : LibCode) (tab : Tab) (P : Program) (sp a y0 dropAt : Nat) (sw : List Nat),
      (∀ nm tg t, (nm, tg, t) ∈ fs → Above tab t) →
      BlocksOK co P (resolveFields fs) sw lib tab sp y0 →
      At P a [.matchChar 34, .structField (resolveFields fs), .lspace, .matchChar 58, .switch sw, .objectNext] →
      (∀ (R : Out → Prop) σ, Ends o co none R P y0 σ → Ends o co none R P (a + 6) σ) →
      At P y0 [.lspace, .checkChar dropAt 125, .matchChar 44, .lspace, .matchChar 34, .structField (resolveFields fs), .lspace, .matchChar 58,
        .switch sw, .objectNext, .goto y0] →
      ∀ (σ : St) (p : Path) (stk : List Frame),
        σ.inp = s → σ.vp = p → σ.stack = { vp := p, n := 0 } :: stk → getAt σ.root p = some (.st vs) →
        ∀ R : Out → Prop, (e ≠ none → Tol R) →
          (∀ σ' : St, σ'.inp = r → σ'.root = setAt σ.root p (.st res) → σ'.stack = σ.stack → σ'.et = merge σ.et e →
            Ends o co none R P dropAt σ') →
          Ends o co none R P a σ

theorem structOK_zero : StructOK o co 0 := by
  intro fs s vs res e r _ _ _ h
  rw [ds_zero] at h; cases h

theorem getAt_st_child {root : GoVal} {p : Path} {vs : List GoVal} {i : Nat} {x : GoVal} (hg : getAt root p = some (.st vs)) (hx : vs[i]? = some x) :
    getAt root (p ++ [.child i]) = some x := by
  rw [getAt_append, hg]
  simp only [Option.bind, getAt_cons, child1, hx, getAt_nil]

theorem setAt_st_child {root : GoVal} {p : Path} {vs : List GoVal} {i : Nat} {x v : GoVal} (hg : getAt root p = some (.st vs)) (hx : vs[i]? = some x) :
    setAt root (p ++ [.child i]) v = setAt root p (.st (vs.set i v)) := by
  rw [setAt_append _ _ _ _ _ hg, setAt_cons]
  simp only [child1, hx, put1, setAt_nil]

theorem getD_of_get {vs : List GoVal} {i : Nat} {d : GoVal} (h : i < vs.length) : vs[i]? = some (vs.getD i d) := by
  rw [List.getD_eq_getElem?_getD, List.getElem?_eq_getElem h]; rfl

theorem subF_mem : ∀ {fs : List (String × Option Bytes × GoType)} {nm : String} {tg : Option Bytes} {t : GoType},
    SubF fs = true → (nm, tg, t) ∈ fs → Sub t = true
  | [], _, _, _, _, h => by cases h
  | (n1, t1, ty1) :: gs, nm, tg, t, hsf, h => by
    simp only [SubF, Bool.and_eq_true] at hsf
    cases h with
    | head => exact hsf.1
    | tail _ h => exact subF_mem hsf.2 h

/-- one member: key, colon, the field's block (or the value skipped), back at `y0` -/
theorem member_sim (n : Nat) (hv : ValOK o co n) {fs : List (String × Option Bytes × GoType)}
    (hsf : SubF fs = true) (hq : ∀ f ∈ resolveFields fs, f.quoted = false)
    {vs vs' : List GoVal} {e1 : Option DErr} {r0 r1 r2 r3 k key : Bytes}
    (hwt : WTf fs vs = true) (hsc : scanString r0 = some (k, r1)) (hw1 : skipWs r1 = 58 :: r2) (hu : unquote k = some key)
    (hm : memberStep o n (resolveFields fs) key r2 vs = .ok (vs', e1, r3)) :
    WTf fs vs' = true ∧
    ∀ (lib : LibCode) (tab : Tab) (P : Program) (sp a y0 : Nat) (sw : List Nat),
      (∀ nm tg t, (nm, tg, t) ∈ fs → Above tab t) →
      BlocksOK co P (resolveFields fs) sw lib tab sp y0 →
      At P a [.matchChar 34, .structField (resolveFields fs), .lspace, .matchChar 58, .switch sw, .objectNext] →
      (∀ (R : Out → Prop) σ, Ends o co none R P y0 σ → Ends o co none R P (a + 6) σ) →
      ∀ (σ : St) (p : Path) (stk : List Frame),
        σ.inp = 34 :: r0 → σ.vp = p → σ.stack = { vp := p, n := 0 } :: stk → getAt σ.root p = some (.st vs) →
        ∀ R : Out → Prop, (e1 ≠ none → Tol R) →
          (∀ σ' : St, σ'.inp = r3 → σ'.vp = p → σ'.root = setAt σ.root p (.st vs') → σ'.stack = σ.stack → σ'.et = merge σ.et e1 →
            Ends o co none R P y0 σ') →
          Ends o co none R P a σ := by
  unfold memberStep at hm
  cases hl : lookupField (resolveFields fs) o.caseSensitive key with
  | outside =>
    rw [hl] at hm
    simp only at hm
    cases hsk : skipVal true n (skipWs r2) with
    | none => rw [hsk] at hm; cases hm
    | some r3' =>
      rw [hsk] at hm
      injection hm with hm; injection hm with h1 h2; injection h2 with h2 h3
      subst h1; subst h2; subst h3
      refine ⟨hwt, ?_⟩
      intro lib tab P sp a y0 sw _ _ hat _ σ p stk hi _ _ _ R ht _
      have ht := ht (by simp)
      refine e_matchChar (hat.get 0 rfl) hi ?_
      exact ends_err (hat.get 1 rfl) (e := .dec .outside) (by simp only [step, hsc, hu, hl]) (ht _)
  | missing =>
    rw [hl] at hm
    simp only at hm
    cases hsk : skipVal o.validateString n (skipWs r2) with
    | none => rw [hsk] at hm; cases hm
    | some r3' =>
      rw [hsk] at hm
      injection hm with hm; injection hm with h1 h2; injection h2 with h2 h3
      subst h1; subst h2; subst h3
      refine ⟨hwt, ?_⟩
      intro lib tab P sp a y0 sw _ _ hat hreach σ p stk hi hvp hst hg R ht k
      refine e_matchChar (hat.get 0 rfl) hi ?_
      by_cases hdu : o.disallowUnknown = true
      · have ht := ht (by simp [hdu])
        exact ends_err (hat.get 1 rfl) (e := .dec .unknownField) (by simp only [step, hsc, hu, hl, hdu, if_true]) (ht _)
      · refine ends_step (hat.get 1 rfl) (pc' := a + 1 + 1) (s' := { σ with inp := r1, sr := none }) (by simp only [step, hsc, hu, hl]; rw [if_neg hdu]) ?_
        refine e_lspace (hat.get 2 rfl) (c := 58) (r := r2) hw1 ?_
        refine e_matchChar (hat.get 3 rfl) (c := 58) (r := r2) rfl ?_
        refine ends_step (hat.get 4 rfl) (pc' := a + 4 + 1) (s' := { σ with inp := r2, sr := none }) (by simp only [step]) ?_
        have hx := (skipVal_exec hsk).1
        refine ends_step (hat.get 5 rfl) (pc' := a + 5 + 1) (s' := { σ with inp := r3', sr := none }) (by simp only [step, skipTo, hx]) ?_
        refine hreach R _ ?_
        refine k _ rfl hvp ?_ rfl ?_
        · simp only; exact (setAt_same _ _ _ hg).symm
        · simp only [hdu, Bool.false_eq_true, if_false]; exact (merge_none_right' _).symm
  | found f =>
    rw [hl] at hm
    simp only at hm
    have hfm : f ∈ resolveFields fs := lookup_mem hl
    have hfq : f.quoted = false := hq f hfm
    rw [hfq] at hm
    simp only [Bool.false_eq_true, if_false] at hm
    obtain ⟨nm, tg, hfs⟩ := resolve_mem hfm
    have hlen : vs.length = fs.length := wtf_length fs vs hwt
    have hidx : f.idx < vs.length := by
      rw [hlen]
      rcases Nat.lt_or_ge f.idx fs.length with h | h
      · exact h
      · rw [List.getElem?_eq_none h] at hfs; cases hfs
    have hcur : vs[f.idx]? = some (vs.getD f.idx (zeroOf f.ty)) := getD_of_get hidx
    have hwtc : WT f.ty (vs.getD f.idx (zeroOf f.ty)) = true := wtf_get fs vs hwt f.idx _ _ hfs hcur
    have hsub : Sub f.ty = true := subF_mem hsf (List.mem_of_getElem? hfs)
    cases hd : decodeVal o n f.ty (skipWs r2) (vs.getD f.idx (zeroOf f.ty)) with
    | error x => rw [hd] at hm; cases hm
    | ok q =>
      obtain ⟨v, e', r3'⟩ := q
      rw [hd] at hm
      simp only at hm
      injection hm with hm; injection hm with h1 h2; injection h2 with h2 h3
      subst h1; subst h2; subst h3
      have hv1 := hv f.ty r2 _ v e' r3' hsub hwtc hd
      refine ⟨wtf_set fs vs hwt f.idx _ v hfs hv1.1, ?_⟩
      intro lib tab P sp a y0 sw hab hblocks hat _ σ p stk hi hvp hst hg R ht k
      obtain ⟨j, bpc, off, hpos, hsw, hblk⟩ := hblocks f hfm
      refine e_matchChar (hat.get 0 rfl) hi ?_
      refine ends_step (hat.get 1 rfl) (pc' := a + 1 + 1) (s' := { σ with inp := r1, sr := some j }) (by simp only [step, hsc, hu, hl, hpos]) ?_
      refine e_lspace (hat.get 2 rfl) (c := 58) (r := r2) hw1 ?_
      refine e_matchChar (hat.get 3 rfl) (c := 58) (r := r2) rfl ?_
      refine ends_step (hat.get 4 rfl) (pc' := bpc) (s' := { σ with inp := r2, sr := some j }) (by simp only [step, hsw]) ?_
      refine e_index (hblk.get 0 rfl) ?_
      simp only [List.map_cons, List.map_nil]
      have hab' : Above tab f.ty := hab nm tg f.ty (List.mem_of_getElem? hfs)
      have hatc : At P (bpc + 1) (one co lib tab (bpc + 1) (sp + 1) f.ty).1 := hblk.left.right
      have hg1 : getAt σ.root (σ.vp ++ [Sel.child f.idx]) = some (vs.getD f.idx (zeroOf f.ty)) := by
        rw [hvp]; exact getAt_st_child hg hcur
      refine hv1.2 lib tab P (bpc + 1) (sp + 1) hab' hatc { σ with inp := r2, sr := some j, vp := σ.vp ++ [Sel.child f.idx] } rfl hg1 R ht ?_
      intro σ2 hp
      have htl : At P (bpc + 1 + (one co lib tab (bpc + 1) (sp + 1) f.ty).1.length) [Instr.load, Instr.goto y0] :=
        hblk.right' (by simp; omega)
      refine e_load (htl.get 0 rfl) (f := { vp := p, n := 0 }) (rest := stk) (by rw [hp.2.2.1]; exact hst) ?_
      refine e_goto (htl.get 1 rfl) ?_
      refine k _ hp.1 rfl ?_ hp.2.2.1 hp.2.2.2
      simp only
      rw [hp.2.1]
      simp only
      rw [hvp]
      exact setAt_st_child hg hcur

theorem structOK_succ (n : Nat) (hv : ValOK o co n) (ih : StructOK o co n) : StructOK o co (n + 1) := by
  intro fs s vs res e r hsf hq hwt h
  obtain ⟨r0, hs⟩ := ds_head o _ _ _ _ _ _ _ h
  subst hs
  rw [ds_succ] at h
  cases hsc : scanString r0 with
  | none => rw [hsc] at h; cases h
  | some q =>
    obtain ⟨k, r1⟩ := q
    rw [hsc] at h
    simp only at h
    -- the colon
    have hcol : ∃ r2, skipWs r1 = 58 :: r2 := by
      revert h
      split
      · rename_i r2 heq; intro _; exact ⟨r2, heq⟩
      · intro h; cases h
    obtain ⟨r2, hw1⟩ := hcol
    rw [hw1] at h
    simp only at h
    cases hu : unquote k with
    | none => rw [hu] at h; cases h
    | some key =>
      rw [hu] at h
      simp only at h
      cases hm : memberStep o n (resolveFields fs) key r2 vs with
      | error x => rw [hm] at h; cases h
      | ok q2 =>
        obtain ⟨vs', e1, r3⟩ := q2
        rw [hm] at h
        simp only at h
        have hmem := member_sim (co := co) n hv hsf hq hwt hsc hw1 hu hm
        cases hw3 : skipWs r3 with
        | nil => rw [hw3] at h; cases h
        | cons b t =>
          rw [hw3] at h
          by_cases h44 : b = 44
          · subst h44
            simp only at h
            cases hd2 : decodeStruct o n (resolveFields fs) (skipWs t) vs' with
            | error x => rw [hd2] at h; cases h
            | ok q3 =>
              obtain ⟨res', e', t'⟩ := q3
              rw [hd2] at h
              simp only at h
              injection h with h; injection h with h1 h2; injection h2 with h2 h3
              subst h1; subst h2; subst h3
              have ih2 := ih fs (skipWs t) vs' res' e' t' hsf hq hmem.1 hd2
              obtain ⟨r0', hs'⟩ := ds_head o _ _ _ _ _ _ _ hd2
              refine ⟨ih2.1, ?_⟩
              intro lib tab P sp a y0 dropAt sw hab hblocks hat hreach haty σ p stk hi hvp hst hg R ht k
              refine hmem.2 lib tab P sp a y0 sw hab hblocks hat hreach σ p stk hi hvp hst hg R (fun hne => ht (merge_ne_none_left hne)) ?_
              intro σ1 h1i h1v h1r h1s h1e
              refine e_lspace (haty.get 0 rfl) (c := 44) (r := t) (by rw [h1i]; exact hw3) ?_
              refine e_checkChar_miss (haty.get 1 rfl) (b := 44) (r := t) rfl (by decide) ?_
              refine e_matchChar (haty.get 2 rfl) (c := 44) (r := t) rfl ?_
              refine e_lspace (haty.get 3 rfl) (c := 34) (r := r0') (by simp only; exact hs') ?_
              have hatB : At P (y0 + 4) [Instr.matchChar 34, Instr.structField (resolveFields fs), Instr.lspace, Instr.matchChar 58, Instr.switch sw, Instr.objectNext] := by
                have := haty.mid (a := [Instr.lspace, Instr.checkChar dropAt 125, Instr.matchChar 44, Instr.lspace])
                  (b := [Instr.matchChar 34, Instr.structField (resolveFields fs), Instr.lspace, Instr.matchChar 58, Instr.switch sw, Instr.objectNext]) (c := [Instr.goto y0])
                exact this
              refine ih2.2 lib tab P sp (y0 + 4) y0 dropAt sw hab hblocks hatB (fun R' σ' h' => e_goto (haty.get 10 rfl) h') haty
                _ p stk (by simp only; exact hs'.symm) (by simp only; exact h1v) (by simp only; rw [h1s, hst]) (by simp only; rw [h1r]; exact getAt_setAt_self _ _ _ _ hg) R
                (fun hne => ht (merge_ne_none_right hne)) ?_
              intro σ' h'i h'r h's h'e
              refine k σ' h'i ?_ ?_ ?_
              · rw [h'r]; simp only; rw [h1r, setAt_setAt _ _ _ _ _ hg]
              · rw [h's]; simp only; exact h1s
              · rw [h'e]; simp only; rw [h1e, merge_assoc]
          · by_cases h125 : b = 125
            · subst h125
              simp only at h
              injection h with h; injection h with h1 h2; injection h2 with h2 h3
              subst h1; subst h2; subst h3
              refine ⟨hmem.1, ?_⟩
              intro lib tab P sp a y0 dropAt sw hab hblocks hat hreach haty σ p stk hi hvp hst hg R ht k
              refine hmem.2 lib tab P sp a y0 sw hab hblocks hat hreach σ p stk hi hvp hst hg R ht ?_
              intro σ1 h1i h1v h1r h1s h1e
              refine e_lspace (haty.get 0 rfl) (c := 125) (r := t) (by rw [h1i]; exact hw3) ?_
              refine e_checkChar_hit (haty.get 1 rfl) (c := 125) (r := t) rfl ?_
              exact k _ rfl h1r h1s h1e
            · exfalso
              revert h
              split
              · rename_i heq; injection heq with hb _; exact absurd hb h44
              · rename_i heq; injection heq with hb _; exact absurd hb h125
              · intro h; cases h

end SonicSpec.Dir
