/-
  Helper lemmas for C19: the shortest-digit search and the round-trip check of `fmtBits`.
-/
import SonicSpec.Model.NumFmt
namespace SonicSpec.Num

/-- what the digit search returns: a candidate of some digit count `k'` that rounds back, and no
    candidate of any smaller digit count (from `k` on) does -/
theorem searchDigits_spec (f : Fmt) (q t N D : Nat) (E : Int) :
    ∀ (fuel k : Nat) (c : Nat × Int), searchDigits f q t N D E fuel k = some c →
      ∃ k', k ≤ k' ∧ k' < k + fuel ∧ c ∈ candidates N D E k' ∧ roundsTo f q t c.1 c.2 = true ∧
        ∀ k'', k ≤ k'' → k'' < k' → ∀ c' ∈ candidates N D E k'', roundsTo f q t c'.1 c'.2 = false
  | 0, _, _, h => by simp [searchDigits] at h
  | fuel + 1, k, c, h => by
    simp only [searchDigits] at h
    split at h
    · rename_i c0 hf
      cases h
      refine ⟨k, Nat.le_refl _, by omega, List.mem_of_find?_eq_some hf, ?_, ?_⟩
      · have := List.find?_some hf
        simpa using this
      · intro k'' h1 h2; omega
    · rename_i hnone
      obtain ⟨k', h1, h2, h3, h4, h5⟩ := searchDigits_spec f q t N D E fuel (k + 1) c h
      refine ⟨k', by omega, by omega, h3, h4, ?_⟩
      intro k'' hk1 hk2 c' hc'
      by_cases hk : k'' = k
      · subst hk
        have := List.find?_eq_none.mp hnone c' hc'
        simpa using this
      · exact h5 k'' (by omega) hk2 c' hc'

/-- `fmtBits` only returns a text that parses back to the same bits -/
theorem fmtBits_roundtrip (f : Fmt) (th : Thresh) (bits : Nat) (txt : Bytes)
    (h : fmtBits f th bits = some txt) : toBits f txt = .ok bits := by
  simp only [fmtBits] at h
  split at h
  · cases h
  · rename_i txt' _
    split at h
    · rename_i b hb
      split at h
      · rename_i hbb
        cases h
        rw [hb, hbb]
      · cases h
    · cases h

/-- `floorScaled N D j` is the floor of `(N/D) / 10^j`, stated without division -/
theorem floorScaled_spec (N D : Nat) (j : Int) (hD : 0 < D) :
    (0 ≤ j → floorScaled N D j * (D * 10 ^ j.toNat) ≤ N ∧ N < (floorScaled N D j + 1) * (D * 10 ^ j.toNat)) ∧
    (j < 0 → floorScaled N D j * D ≤ N * 10 ^ (-j).toNat ∧ N * 10 ^ (-j).toNat < (floorScaled N D j + 1) * D) := by
  constructor
  · intro hj
    have hj' : j ≥ 0 := hj
    simp only [floorScaled, if_pos hj']
    have hpos : 0 < D * 10 ^ j.toNat := Nat.mul_pos hD (Nat.pow_pos (by decide))
    generalize D * 10 ^ j.toNat = M at *
    have h1 := Nat.div_add_mod N M
    have h2 := Nat.mod_lt N hpos
    have e1 : (N / M + 1) * M = N / M * M + M := by rw [Nat.add_mul, Nat.one_mul]
    have e2 : M * (N / M) = N / M * M := Nat.mul_comm _ _
    rw [e1]; omega
  · intro hj
    have hj' : ¬ j ≥ 0 := by omega
    simp only [floorScaled, if_neg hj']
    generalize N * 10 ^ (-j).toNat = M at *
    have h1 := Nat.div_add_mod M D
    have h2 := Nat.mod_lt M hD
    have e1 : (M / D + 1) * D = M / D * D + D := by rw [Nat.add_mul, Nat.one_mul]
    have e2 : D * (M / D) = M / D * D := Nat.mul_comm _ _
    rw [e1]; omega

/-- every candidate is one of the two neighbours `lo`, `lo + 1` of the exact value at scale `10^j` -/
theorem candidates_mem (N D : Nat) (E : Int) (k : Nat) (c : Nat × Int) (h : c ∈ candidates N D E k) :
    c.2 = E - (k : Int) + 1 ∧
      (c.1 = floorScaled N D (E - (k : Int) + 1) ∨ c.1 = floorScaled N D (E - (k : Int) + 1) + 1) := by
  simp only [candidates] at h
  split at h
  · simp only [List.mem_cons, List.mem_nil_iff, or_false] at h
    rcases h with rfl | rfl <;> simp
  · simp only [List.mem_cons, List.mem_nil_iff, or_false] at h
    rcases h with rfl | rfl <;> simp
  · split at h <;>
    · simp only [List.mem_cons, List.mem_nil_iff, or_false] at h
      rcases h with rfl | rfl <;> simp

end SonicSpec.Num
