/-
  C15 - component lemmas: key lookup, one level of parsing, complete loading.
-/
import SonicSpec.Proofs.AstEncode
set_option linter.unusedSimpArgs false
namespace SonicSpec.Ast

/-! ### key lookup -/

theorem findKey_getElem {β : Type} (k : Key) :
    ∀ (kvs : List (Key × β)) (i : Nat), findKey k kvs = some i → ∃ v, kvs[i]? = some (k, v)
  | [], i, h => by simp [findKey] at h
  | (k', v) :: r, i, h => by
    unfold findKey at h
    by_cases hk : k' = k
    · simp [hk] at h; subst h; subst hk; exact ⟨v, by simp⟩
    · simp only [hk, if_false] at h
      cases hf : findKey k r with
      | none => simp [hf] at h
      | some j =>
        simp [hf] at h; subst h
        obtain ⟨w, hw⟩ := findKey_getElem k r j hf
        exact ⟨w, by simpa using hw⟩

/-! ### one level of parsing -/

theorem childL_spec (v : Tree) : (childL v).abs = v ∧ (childL v).live = true ∧ (childL v).repOk = true := by
  cases v with
  | arr xs => cases xs <;> simp [childL, NodeM.abs, NodeM.live, NodeM.repOk, absElems, repElems, countLive]
  | obj kvs => cases kvs <;> simp [childL, NodeM.abs, NodeM.live, NodeM.repOk, absPairs, repPairs, countLive, ixOk]
  | _ => simp [childL, NodeM.abs, NodeM.live, NodeM.repOk]

theorem childL_elems (xs : List Tree) :
    absElems (xs.map childL) = xs ∧ repElems (xs.map childL) = true ∧
    (∀ x ∈ xs.map childL, x.live = true) := by
  induction xs with
  | nil => simp [absElems, repElems]
  | cons x xs ih =>
    obtain ⟨h1, h2, h3⟩ := childL_spec x
    simp [absElems, repElems, h1, h2, h3, ih.1, ih.2.1]
    intro a ha; exact (childL_spec a).2.1

theorem lockedPair_pairs (kvs : List (Key × Tree)) :
    absPairs (kvs.map lockedPair) = kvs ∧ repPairs (kvs.map lockedPair) = true ∧
    (∀ x ∈ kvs.map lockedPair, pairLive x = true) := by
  induction kvs with
  | nil => simp [absPairs, repPairs]
  | cons x xs ih =>
    obtain ⟨k, v⟩ := x
    obtain ⟨h1, h2, h3⟩ := childL_spec v
    simp [absPairs, repPairs, lockedPair, mkPair, h1, h2, h3, ih.1, ih.2.1]
    refine ⟨by simpa [pairLive] using h2, ?_⟩
    intro a a1 b x x1 _ _ _ hb; subst hb; simpa [pairLive] using (childL_spec x1).2.1

def NodeM.isRaw : NodeM → Bool
  | .raw _ _ => true
  | _ => false

theorem parse1_spec (lock : Bool) (v : Tree) :
    (parse1 lock v).abs = v ∧ (parse1 lock v).repOk = true ∧ (parse1 lock v).isRaw = false := by
  cases v with
  | arr xs =>
    cases xs with
    | nil => simp [parse1, NodeM.abs, NodeM.repOk, NodeM.isRaw, absElems, repElems, countLive]
    | cons y ys =>
      cases lock
      · simp [parse1, NodeM.abs, NodeM.repOk, NodeM.isRaw, absElems, repElems, allLiveElems]
      · obtain ⟨h1, h2, h3⟩ := childL_elems (y :: ys)
        simp only [parse1, NodeM.abs, NodeM.repOk, NodeM.isRaw, if_true, h1, h2, Bool.true_and,
          countLive_all _ _ h3, List.length_map, decide_true, and_self]
  | obj kvs =>
    cases kvs with
    | nil => simp [parse1, NodeM.abs, NodeM.repOk, NodeM.isRaw, absPairs, repPairs, countLive, ixOk]
    | cons y ys =>
      cases lock
      · simp [parse1, NodeM.abs, NodeM.repOk, NodeM.isRaw, absPairs, repPairs, allLivePairs]
      · obtain ⟨h1, h2, h3⟩ := lockedPair_pairs (y :: ys)
        obtain ⟨m1, m2⟩ := mkObject_spec _ h2 h3
        simp only [parse1, if_true, m1, m2, h1, true_and]
        simp [mkObject, NodeM.isRaw]
  | _ => simp [parse1, NodeM.abs, NodeM.repOk, NodeM.isRaw]

theorem checkRaw_spec (n : NodeM) (h : n.repOk = true) :
    n.checkRaw.abs = n.abs ∧ n.checkRaw.repOk = true ∧ n.checkRaw.isRaw = false := by
  cases n with
  | raw v lock => simpa [NodeM.checkRaw, NodeM.abs] using parse1_spec lock v
  | gone => simp [NodeM.repOk] at h
  | _ => simp [NodeM.checkRaw, h, NodeM.isRaw]

theorem checkRaw_of_not_raw (n : NodeM) (h : n.isRaw = false) : n.checkRaw = n := by
  cases n <;> simp [NodeM.checkRaw, NodeM.isRaw] at h ⊢

theorem kind_abs (n : NodeM) (h : n.repOk = true) : n.kind = n.abs.kind := by
  cases n <;> simp [NodeM.kind, NodeM.abs, Tree.kind, NodeM.repOk] at h ⊢

/-! ### complete loading -/

theorem skipAll_spec (n : NodeM) (h : n.repOk = true) :
    n.skipAll.abs = n.abs ∧ n.skipAll.repOk = true := by
  cases n with
  | arrLazy pre rest =>
    simp only [NodeM.repOk, Bool.and_eq_true] at h
    obtain ⟨⟨hr, hl⟩, _⟩ := h
    have hall := (allLiveElems_iff pre).mp hl
    simp [NodeM.skipAll, NodeM.abs, NodeM.repOk, absElems_append, raw_elems_abs, repElems_append, hr,
      repElems_raw, countLive_append, countLive_raw_elems, countLive_all _ _ hall]
  | objLazy pre rest =>
    simp only [NodeM.repOk, Bool.and_eq_true] at h
    obtain ⟨⟨hr, hl⟩, _⟩ := h
    have hall := (allLivePairs_iff pre).mp hl
    have hr' : repPairs (pre ++ rest.map rawPair) = true := by simp [repPairs_append, hr, repPairs_raw]
    have hl' : ∀ p ∈ pre ++ rest.map rawPair, pairLive p = true := by
      intro p hp
      rcases List.mem_append.mp hp with hp | hp
      · exact hall p hp
      · simp at hp; obtain ⟨k, v, _, rfl⟩ := hp; rfl
    obtain ⟨m1, m2⟩ := mkObject_spec _ hr' hl'
    simp [NodeM.skipAll, m1, m2, NodeM.abs, absPairs_append, raw_pairs_abs]
  | _ => simp [NodeM.skipAll, h]

end SonicSpec.Ast
