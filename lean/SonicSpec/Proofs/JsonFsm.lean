/-
  C02, structural layer: the frame-stack machine `run` (the transliteration of `fsm_exec`) against the
  grammar `Val SB`.

  Soundness goes through `Conts SB B st c`: "`c` is a text that completes the frames `st`" - defined by
  recursion on the stack, each frame kind contributing the corresponding right-linear nonterminal of the
  grammar - and is an induction on the number of turns of the loop.
  Completeness goes through the big-step relation `Runs` and is a mutual structural recursion on grammar
  derivations with the rest of the stack kept arbitrary (the continuation), the same scheme as the
  token-level prototype (`cval/celems/cmembers`).
-/
import SonicSpec.Proofs.JsonLex
import SonicSpec.Proofs.JsonNum
namespace SonicSpec.Json

/-! ### frame counts are positive for containers -/

theorem arrBody_pos {SB k t} (h : ArrBody SB k t) : k ≥ 1 := by
  cases h with
  | empty _ _ => exact Nat.le_refl _
  | elems _ _ _ k m _ _ _ => omega

theorem arrTail_pos {SB k t} (h : ArrTail SB k t) : k ≥ 1 := by
  cases h with
  | close _ _ => exact Nat.le_refl _
  | more _ _ _ _ k m _ _ _ _ => omega

theorem objBody_pos {SB k t} (h : ObjBody SB k t) : k ≥ 1 := by
  cases h with
  | empty _ _ => exact Nat.le_refl _
  | members _ _ _ _ _ _ k m _ _ _ _ _ _ => omega

theorem objTail_pos {SB k t} (h : ObjTail SB k t) : k ≥ 1 := by
  cases h with
  | close _ _ => exact Nat.le_refl _
  | more _ _ _ _ _ _ _ k m _ _ _ _ _ _ _ => omega

/-! ### what the frames on the stack still expect -/

/-- `k` more frames fit above `h` frames (a scalar needs none) -/
def Fits (B h k : Nat) : Prop := k = 0 ∨ h + k ≤ B

def Conts (SB : Bytes → Prop) (B : Nat) : List Frame → Bytes → Prop
  | [], c => c = []
  | .val :: st, c => ∃ w v c' k, c = w ++ (v ++ c') ∧ AllSpace w ∧ Val SB k v ∧ Fits B st.length k ∧ Conts SB B st c'
  | .arr0 :: st, c => ∃ t c' k, c = t ++ c' ∧ ArrBody SB k t ∧ st.length + k ≤ B ∧ Conts SB B st c'
  | .arr :: st, c => ∃ t c' k, c = t ++ c' ∧ ArrTail SB k t ∧ st.length + k ≤ B ∧ Conts SB B st c'
  | .obj0 :: st, c => ∃ t c' k, c = t ++ c' ∧ ObjBody SB k t ∧ st.length + k ≤ B ∧ Conts SB B st c'
  | .obj :: st, c => ∃ t c' k, c = t ++ c' ∧ ObjTail SB k t ∧ st.length + k ≤ B ∧ Conts SB B st c'
  | .elem :: st, c => ∃ w w' v c' k, c = w ++ 58 :: (w' ++ (v ++ c')) ∧ AllSpace w ∧ AllSpace w' ∧ Val SB k v ∧
      Fits B st.length k ∧ Conts SB B st c'
  | .key :: st, c => ∃ w key w1 w' v c' k, c = w ++ 34 :: (key ++ 34 :: (w1 ++ 58 :: (w' ++ (v ++ c')))) ∧
      AllSpace w ∧ SB key ∧ AllSpace w1 ∧ AllSpace w' ∧ Val SB k v ∧ Fits B st.length k ∧ Conts SB B st c'

/-- the stack never holds more than `B` frames, except for the initial `VAL` that `fsm_init` puts there
    without asking -/
def Inv (B : Nat) (st : List Frame) : Prop := st.length ≤ B ∨ st = [.val]

theorem inv_tail {B f st} (h : Inv B (f :: st)) : st.length ≤ B := by
  rcases h with h | h
  · simp at h; omega
  · cases h; simp

theorem inv_nonval {B f st} (h : Inv B (f :: st)) (hf : f ≠ .val) : st.length + 1 ≤ B := by
  rcases h with h | h
  · simpa using h
  · cases h; exact absurd rfl hf

/-! ### the value switch -/

section
variable {B : Nat} {m : StrMode}

theorem ofRes_next {st st2 : List Frame} {sp sp2 : Nat} {res : Res} {r2 : Bytes}
    (h : Step.ofRes st sp res = .next st2 sp2 r2) : res = .ok r2 ∧ st2 = st ∧ sp2 = sp := by
  cases res with
  | ok r => simp only [Step.ofRes, Step.next.injEq] at h; obtain ⟨rfl, rfl, rfl⟩ := h; exact ⟨rfl, rfl, rfl⟩
  | err e p => simp [Step.ofRes] at h

theorem number_nonempty {n : Bytes} (h : Number n) : n ≠ [] := by
  cases h with
  | pos nb hb => obtain ⟨c, t, rfl, _⟩ := numBody_head hb; simp
  | neg nb _ => simp

/-- what a successful turn of the value switch did: consumed one scalar, or pushed a container frame -/
theorem value_next (SB : Bytes → Prop) (hs : ∀ s r, scanStr m s = .ok r → ∃ b, s = b ++ 34 :: r ∧ SB b)
    {st st2 : List Frame} {sp sp2 : Nat} {ch : UInt8} {r0 r2 : Bytes}
    (h : value B m st sp ch r0 = .next st2 sp2 r2) :
    (st2 = st ∧ sp2 = sp ∧ ∃ v, ch :: r0 = v ++ r2 ∧ Val SB 0 v) ∨
    (ch = 91 ∧ st2 = .arr0 :: st ∧ sp2 = sp + 1 ∧ r2 = r0 ∧ sp < B) ∨
    (ch = 123 ∧ st2 = .obj0 :: st ∧ sp2 = sp + 1 ∧ r2 = r0 ∧ sp < B) := by
  unfold value at h
  by_cases h1 : isDigit ch = true
  · rw [if_pos h1] at h
    obtain ⟨hr, rfl, rfl⟩ := ofRes_next h
    obtain ⟨n, hn1, hn2⟩ := skipPositive_sound hr
    exact Or.inl ⟨rfl, rfl, n, hn1, .num n hn2⟩
  rw [if_neg h1] at h
  by_cases h2 : ch = 45
  · rw [if_pos h2] at h
    obtain ⟨hr, rfl, rfl⟩ := ofRes_next h
    subst h2
    obtain ⟨n, hn1, hn2⟩ := skipNegative_sound hr
    exact Or.inl ⟨rfl, rfl, n, hn1, .num n hn2⟩
  rw [if_neg h2] at h
  by_cases h3 : ch = 110
  · rw [if_pos h3] at h
    obtain ⟨hr, rfl, rfl⟩ := ofRes_next h
    subst h3
    have := lit_ok hr
    exact Or.inl ⟨rfl, rfl, [110, 117, 108, 108], by rw [this]; rfl, .nul⟩
  rw [if_neg h3] at h
  by_cases h4 : ch = 116
  · rw [if_pos h4] at h
    obtain ⟨hr, rfl, rfl⟩ := ofRes_next h
    subst h4
    have := lit_ok hr
    exact Or.inl ⟨rfl, rfl, [116, 114, 117, 101], by rw [this]; rfl, .tru⟩
  rw [if_neg h4] at h
  by_cases h5 : ch = 102
  · rw [if_pos h5] at h
    obtain ⟨hr, rfl, rfl⟩ := ofRes_next h
    subst h5
    have := lit_ok hr
    exact Or.inl ⟨rfl, rfl, [102, 97, 108, 115, 101], by rw [this]; rfl, .fls⟩
  rw [if_neg h5] at h
  by_cases h6 : ch = 91
  · rw [if_pos h6] at h
    by_cases hb : sp < B
    · rw [if_pos hb] at h
      simp only [Step.next.injEq] at h
      obtain ⟨rfl, rfl, rfl⟩ := h
      exact Or.inr (Or.inl ⟨h6, rfl, rfl, rfl, hb⟩)
    · rw [if_neg hb] at h; cases h
  rw [if_neg h6] at h
  by_cases h7 : ch = 123
  · rw [if_pos h7] at h
    by_cases hb : sp < B
    · rw [if_pos hb] at h
      simp only [Step.next.injEq] at h
      obtain ⟨rfl, rfl, rfl⟩ := h
      exact Or.inr (Or.inr ⟨h7, rfl, rfl, rfl, hb⟩)
    · rw [if_neg hb] at h; cases h
  rw [if_neg h7] at h
  by_cases h8 : ch = 34
  · rw [if_pos h8] at h
    obtain ⟨hr, rfl, rfl⟩ := ofRes_next h
    subst h8
    obtain ⟨b, hb1, hb2⟩ := hs _ _ hr
    refine Or.inl ⟨rfl, rfl, 34 :: (b ++ [34]), ?_, .str b hb2⟩
    rw [hb1]; simp
  · rw [if_neg h8] at h; cases h

theorem val_nonempty {SB k v} (h : Val SB k v) : v ≠ [] := by
  cases h with
  | num n hn => exact number_nonempty hn
  | _ => simp

/-- one turn of the loop, read backwards: whatever completes the new stack, prefixed by what the turn
    consumed, completes the old stack -/
theorem step_sound (SB : Bytes → Prop) (hs : ∀ s r, scanStr m s = .ok r → ∃ b, s = b ++ 34 :: r ∧ SB b)
    {f : Frame} {st st2 : List Frame} {sp2 : Nat} {s r2 : Bytes} (hinv : Inv B (f :: st))
    (h : step B m f st st.length s = .next st2 sp2 r2) :
    sp2 = st2.length ∧ Inv B st2 ∧ ∃ c1, c1 ≠ [] ∧ s = c1 ++ r2 ∧
      ∀ c2, Conts SB B st2 c2 → Conts SB B (f :: st) (c1 ++ c2) := by
  unfold step at h
  cases ha : advanceNs s with
  | none => rw [ha] at h; cases h
  | some p =>
    obtain ⟨ch, r0⟩ := p
    rw [ha] at h
    simp only at h
    obtain ⟨w, rfl, hw, hns, hnz⟩ := advanceNs_some ha
    have hst := inv_tail hinv
    cases f with
    | val =>
      simp only at h
      rcases value_next SB hs h with ⟨rfl, rfl, v, hv1, hv2⟩ | ⟨rfl, rfl, rfl, rfl, hb⟩ | ⟨rfl, rfl, rfl, rfl, hb⟩
      · refine ⟨rfl, Or.inl hst, w ++ v, by simp [val_nonempty hv2], by rw [hv1]; simp, ?_⟩
        intro c2 hc2
        exact ⟨w, v, c2, 0, by simp, hw, hv2, Or.inl rfl, hc2⟩
      · refine ⟨rfl, Or.inl (by simp; omega), w ++ [91], by simp, by simp, ?_⟩
        rintro c2 ⟨t, c', k, rfl, ht, hk, hc'⟩
        exact ⟨w, 91 :: t, c', k, by simp, hw, .arr k t ht, Or.inr hk, hc'⟩
      · refine ⟨rfl, Or.inl (by simp; omega), w ++ [123], by simp, by simp, ?_⟩
        rintro c2 ⟨t, c', k, rfl, ht, hk, hc'⟩
        exact ⟨w, 123 :: t, c', k, by simp, hw, .obj k t ht, Or.inr hk, hc'⟩
    | arr =>
      have hB := inv_nonval hinv (by decide)
      simp only at h
      by_cases h1 : ch = 93
      · rw [if_pos h1] at h
        simp only [Step.next.injEq] at h
        obtain ⟨rfl, rfl, rfl⟩ := h
        subst h1
        refine ⟨rfl, Or.inl hst, w ++ [93], by simp, by simp, ?_⟩
        intro c2 hc2
        exact ⟨w ++ [93], c2, 1, rfl, .close w hw, hB, hc2⟩
      rw [if_neg h1] at h
      by_cases h2 : ch = 44
      · rw [if_pos h2] at h
        by_cases hb : st.length + 1 < B
        · rw [if_pos hb] at h
          simp only [Step.next.injEq] at h
          obtain ⟨rfl, rfl, rfl⟩ := h
          subst h2
          refine ⟨rfl, Or.inl (by simp; omega), w ++ [44], by simp, by simp, ?_⟩
          rintro c2 ⟨w', v, c', k, rfl, hw', hv, hk, t, c'', m', rfl, ht, hm, hc''⟩
          refine ⟨w ++ 44 :: (w' ++ (v ++ t)), c'', _, by simp, .more w w' v t k m' hw hw' hv ht, ?_, hc''⟩
          rcases hk with rfl | hk
          · omega
          · simp at hk; omega
        · rw [if_neg hb] at h; cases h
      · rw [if_neg h2] at h; cases h
    | obj =>
      have hB := inv_nonval hinv (by decide)
      simp only at h
      by_cases h1 : ch = 125
      · rw [if_pos h1] at h
        simp only [Step.next.injEq] at h
        obtain ⟨rfl, rfl, rfl⟩ := h
        subst h1
        refine ⟨rfl, Or.inl hst, w ++ [125], by simp, by simp, ?_⟩
        intro c2 hc2
        exact ⟨w ++ [125], c2, 1, rfl, .close w hw, hB, hc2⟩
      rw [if_neg h1] at h
      by_cases h2 : ch = 44
      · rw [if_pos h2] at h
        by_cases hb : st.length + 1 < B
        · rw [if_pos hb] at h
          simp only [Step.next.injEq] at h
          obtain ⟨rfl, rfl, rfl⟩ := h
          subst h2
          refine ⟨rfl, Or.inl (by simp; omega), w ++ [44], by simp, by simp, ?_⟩
          rintro c2 ⟨w0, key, w1, w', v, c', k, rfl, hw0, hkey, hw1, hw', hv, hk, t, c'', m', rfl, ht, hm, hc''⟩
          refine ⟨w ++ 44 :: (w0 ++ 34 :: (key ++ 34 :: (w1 ++ 58 :: (w' ++ (v ++ t))))), c'', _, by simp,
            .more w w0 key w1 w' v t k m' hw hw0 hkey hw1 hw' hv ht, ?_, hc''⟩
          rcases hk with rfl | hk
          · omega
          · simp at hk; omega
        · rw [if_neg hb] at h; cases h
      · rw [if_neg h2] at h; cases h
    | key =>
      simp only at h
      by_cases h1 : ch = 34
      · rw [if_pos h1] at h
        obtain ⟨hr, rfl, rfl⟩ := ofRes_next h
        subst h1
        obtain ⟨kb, rfl, hkb⟩ := hs _ _ hr
        refine ⟨rfl, ?_, w ++ 34 :: (kb ++ [34]), by simp, by simp, ?_⟩
        · rcases hinv with hi | hi
          · exact Or.inl (by simpa using hi)
          · cases hi
        rintro c2 ⟨w1, w', v, c', k, rfl, hw1, hw', hv, hk, hc'⟩
        exact ⟨w, kb, w1, w', v, c', k, by simp, hw, hkb, hw1, hw', hv, hk, hc'⟩
      · rw [if_neg h1] at h; cases h
    | elem =>
      simp only at h
      by_cases h1 : ch = 58
      · rw [if_pos h1] at h
        simp only [Step.next.injEq] at h
        obtain ⟨rfl, rfl, rfl⟩ := h
        subst h1
        refine ⟨rfl, ?_, w ++ [58], by simp, by simp, ?_⟩
        · rcases hinv with hi | hi
          · exact Or.inl (by simpa using hi)
          · cases hi
        rintro c2 ⟨w', v, c', k, rfl, hw', hv, hk, hc'⟩
        exact ⟨w, w', v, c', k, by simp, hw, hw', hv, hk, hc'⟩
      · rw [if_neg h1] at h; cases h
    | arr0 =>
      have hB := inv_nonval hinv (by decide)
      simp only at h
      by_cases h1 : ch = 93
      · rw [if_pos h1] at h
        simp only [Step.next.injEq] at h
        obtain ⟨rfl, rfl, rfl⟩ := h
        subst h1
        refine ⟨rfl, Or.inl hst, w ++ [93], by simp, by simp, ?_⟩
        intro c2 hc2
        exact ⟨w ++ [93], c2, 1, rfl, .empty w hw, hB, hc2⟩
      rw [if_neg h1] at h
      have h' : value B m (.arr :: st) (List.length (Frame.arr :: st)) ch r0 = .next st2 sp2 r2 := h
      rcases value_next SB hs h' with ⟨rfl, rfl, v, hv1, hv2⟩ | ⟨rfl, rfl, rfl, rfl, hb⟩ | ⟨rfl, rfl, rfl, rfl, hb⟩
      · refine ⟨rfl, Or.inl (by simpa using hB), w ++ v, by simp [val_nonempty hv2], by rw [hv1]; simp, ?_⟩
        rintro c2 ⟨t, c', m', rfl, ht, hm, hc'⟩
        refine ⟨w ++ (v ++ t), c', _, by simp, .elems w v t 0 m' hw hv2 ht, ?_, hc'⟩
        have := arrTail_pos ht
        omega
      · refine ⟨rfl, Or.inl (by simp at hb ⊢; omega), w ++ [91], by simp, by simp, ?_⟩
        rintro c2 ⟨t1, c', k1, rfl, ht1, hk1, t, c'', m', rfl, ht, hm, hc''⟩
        refine ⟨w ++ ((91 :: t1) ++ t), c'', _, by simp, .elems w (91 :: t1) t k1 m' hw (.arr k1 t1 ht1) ht, ?_, hc''⟩
        simp at hk1; omega
      · refine ⟨rfl, Or.inl (by simp at hb ⊢; omega), w ++ [123], by simp, by simp, ?_⟩
        rintro c2 ⟨t1, c', k1, rfl, ht1, hk1, t, c'', m', rfl, ht, hm, hc''⟩
        refine ⟨w ++ ((123 :: t1) ++ t), c'', _, by simp, .elems w (123 :: t1) t k1 m' hw (.obj k1 t1 ht1) ht, ?_, hc''⟩
        simp at hk1; omega
    | obj0 =>
      have hB := inv_nonval hinv (by decide)
      simp only at h
      by_cases h1 : ch = 125
      · rw [if_pos h1] at h
        simp only [Step.next.injEq] at h
        obtain ⟨rfl, rfl, rfl⟩ := h
        subst h1
        refine ⟨rfl, Or.inl hst, w ++ [125], by simp, by simp, ?_⟩
        intro c2 hc2
        exact ⟨w ++ [125], c2, 1, rfl, .empty w hw, hB, hc2⟩
      rw [if_neg h1] at h
      by_cases h2 : ch = 34
      · rw [if_pos h2] at h
        subst h2
        cases hr : scanStr m r0 with
        | err e p => rw [hr] at h; cases h
        | ok r' =>
          rw [hr] at h
          simp only at h
          by_cases hb : st.length + 1 < B
          · rw [if_pos hb] at h
            simp only [Step.next.injEq] at h
            obtain ⟨rfl, rfl, rfl⟩ := h
            obtain ⟨kb, rfl, hkb⟩ := hs _ _ hr
            refine ⟨rfl, Or.inl (by simp; omega), w ++ 34 :: (kb ++ [34]), by simp, by simp, ?_⟩
            rintro c2 ⟨w1, w', v, c', k, rfl, hw1, hw', hv, hk, t, c'', m', rfl, ht, hm, hc''⟩
            refine ⟨w ++ 34 :: (kb ++ 34 :: (w1 ++ 58 :: (w' ++ (v ++ t)))), c'', _, by simp,
              .members w kb w1 w' v t k m' hw hkb hw1 hw' hv ht, ?_, hc''⟩
            rcases hk with rfl | hk
            · omega
            · simp at hk; omega
          · rw [if_neg hb] at h; cases h
      · rw [if_neg h2] at h; cases h

/-- soundness of the loop: a successful run consumed a text that completes the stack it started with -/
theorem run_sound (SB : Bytes → Prop) (hs : ∀ s r, scanStr m s = .ok r → ∃ b, s = b ++ 34 :: r ∧ SB b) :
    ∀ (n : Nat) (st : List Frame) (s r : Bytes), Inv B st → run B m n st st.length s = .ok r →
    ∃ c, s = c ++ r ∧ Conts SB B st c := by
  intro n
  induction n with
  | zero =>
    intro st s r _ h
    cases st with
    | nil => simp only [run, Res.ok.injEq] at h; subst h; exact ⟨[], rfl, rfl⟩
    | cons f st' => simp [run] at h
  | succ n ih =>
    intro st s r hinv h
    cases st with
    | nil => simp only [run, Res.ok.injEq] at h; subst h; exact ⟨[], rfl, rfl⟩
    | cons f st' =>
      rw [run] at h
      have e : (f :: st').length - 1 = st'.length := by simp
      rw [e] at h
      cases hstep : step B m f st' st'.length s with
      | fail e p => rw [hstep] at h; cases h
      | next st2 sp2 r2 =>
        rw [hstep] at h
        simp only at h
        obtain ⟨rfl, hinv2, c1, _, rfl, hc⟩ := step_sound SB hs hinv hstep
        obtain ⟨c2, rfl, hc2⟩ := ih st2 r2 r hinv2 h
        exact ⟨c1 ++ c2, by simp, hc c2 hc2⟩

/-- `skip_one` / `validate_one` accept only: space, one value of the grammar needing at most `B` frames -/
theorem skipOne_sound (SB : Bytes → Prop) (hs : ∀ s r, scanStr m s = .ok r → ∃ b, s = b ++ 34 :: r ∧ SB b)
    {s r : Bytes} (h : skipOne B m s = .ok r) :
    ∃ w v k, s = w ++ (v ++ r) ∧ AllSpace w ∧ Val SB k v ∧ k ≤ B := by
  obtain ⟨c, rfl, w, v, c', k, rfl, hw, hv, hk, hc'⟩ := run_sound SB hs _ [.val] s r (Or.inr rfl) h
  have : c' = [] := hc'
  subst this
  refine ⟨w, v, k, by simp, hw, hv, ?_⟩
  rcases hk with rfl | hk
  · exact Nat.zero_le _
  · simpa using hk

/-! ### progress: every turn consumes at least one byte -/

theorem value_progress {st st2 : List Frame} {sp2 : Nat} {ch : UInt8} {r0 r2 : Bytes}
    (h : value B m st st.length ch r0 = .next st2 sp2 r2) : sp2 = st2.length ∧ r2.length ≤ r0.length := by
  rcases value_next LaxBody (fun _ _ => scanStr_sound m) h with
    ⟨rfl, rfl, v, hv1, hv2⟩ | ⟨_, rfl, rfl, rfl, _⟩ | ⟨_, rfl, rfl, rfl, _⟩
  · refine ⟨rfl, ?_⟩
    have h1 := congrArg List.length hv1
    have h2 : v.length ≥ 1 := by
      cases v with
      | nil => exact absurd rfl (val_nonempty hv2)
      | cons _ _ => simp
    simp at h1
    omega
  · exact ⟨rfl, Nat.le_refl _⟩
  · exact ⟨rfl, Nat.le_refl _⟩

theorem step_progress {f : Frame} {st st2 : List Frame} {sp2 : Nat} {s r2 : Bytes}
    (h : step B m f st st.length s = .next st2 sp2 r2) : sp2 = st2.length ∧ r2.length < s.length := by
  unfold step at h
  cases ha : advanceNs s with
  | none => rw [ha] at h; cases h
  | some p =>
    obtain ⟨ch, r0⟩ := p
    rw [ha] at h
    simp only at h
    obtain ⟨w, rfl, _, _, _⟩ := advanceNs_some ha
    suffices hh : sp2 = st2.length ∧ r2.length ≤ r0.length by
      refine ⟨hh.1, ?_⟩
      simp only [List.length_append, List.length_cons]
      omega
    have str : ∀ {r' : Bytes}, scanStr m r0 = .ok r' → r'.length ≤ r0.length := by
      intro r' hr
      obtain ⟨b, rfl, _⟩ := scanStr_sound m hr
      simp only [List.length_append, List.length_cons]
      omega
    cases f with
    | val => exact value_progress h
    | arr =>
      simp only at h
      repeat' split at h
      all_goals first | (cases h; done) | (simp only [Step.next.injEq] at h; obtain ⟨rfl, rfl, rfl⟩ := h; exact ⟨rfl, Nat.le_refl _⟩)
    | obj =>
      simp only at h
      repeat' split at h
      all_goals first | (cases h; done) | (simp only [Step.next.injEq] at h; obtain ⟨rfl, rfl, rfl⟩ := h; exact ⟨rfl, Nat.le_refl _⟩)
    | key =>
      simp only at h
      split at h
      · obtain ⟨hr, rfl, rfl⟩ := ofRes_next h
        exact ⟨rfl, str hr⟩
      · cases h
    | elem =>
      simp only at h
      split at h
      · simp only [Step.next.injEq] at h; obtain ⟨rfl, rfl, rfl⟩ := h; exact ⟨rfl, Nat.le_refl _⟩
      · cases h
    | arr0 =>
      simp only at h
      split at h
      · simp only [Step.next.injEq] at h; obtain ⟨rfl, rfl, rfl⟩ := h; exact ⟨rfl, Nat.le_refl _⟩
      · have h' : value B m (.arr :: st) (List.length (Frame.arr :: st)) ch r0 = .next st2 sp2 r2 := h
        exact value_progress h'
    | obj0 =>
      simp only at h
      split at h
      · simp only [Step.next.injEq] at h; obtain ⟨rfl, rfl, rfl⟩ := h; exact ⟨rfl, Nat.le_refl _⟩
      · split at h
        · cases hr : scanStr m r0 with
          | err e p => rw [hr] at h; cases h
          | ok r' =>
            rw [hr] at h
            simp only at h
            split at h
            · simp only [Step.next.injEq] at h; obtain ⟨rfl, rfl, rfl⟩ := h; exact ⟨rfl, str hr⟩
            · cases h
        · cases h

/-! ### the loop as a relation (no fuel) -/

inductive Runs (B : Nat) (m : StrMode) : List Frame → Bytes → Res → Prop
  | done (s : Bytes) : Runs B m [] s (.ok s)
  | next {f : Frame} {st st2 : List Frame} {sp2 : Nat} {s r2 : Bytes} {res : Res} :
      step B m f st st.length s = .next st2 sp2 r2 → Runs B m st2 r2 res → Runs B m (f :: st) s res
  | fail {f : Frame} {st : List Frame} {s : Bytes} {e : Err} {p : Bytes} :
      step B m f st st.length s = .fail e p → Runs B m (f :: st) s (.err e p)

/-- with more fuel than bytes the function `run` computes what the relation says -/
theorem runs_run {st : List Frame} {s : Bytes} {res : Res} (h : Runs B m st s res) :
    ∀ n, s.length < n → run B m n st st.length s = res := by
  induction h with
  | done s => intro n _; cases n <;> rfl
  | @next f st st2 sp2 s r2 res hstep _ ih =>
    intro n hn
    cases n with
    | zero => omega
    | succ n' =>
      rw [run]
      have e : (f :: st).length - 1 = st.length := by simp
      rw [e, hstep]
      obtain ⟨rfl, hlt⟩ := step_progress hstep
      exact ih n' (by omega)
  | @fail f st s e p hstep =>
    intro n hn
    cases n with
    | zero => omega
    | succ n' =>
      rw [run]
      have e' : (f :: st).length - 1 = st.length := by simp
      rw [e', hstep]

theorem runs_skipOne {s : Bytes} {res : Res} (h : Runs B m [.val] s res) : skipOne B m s = res :=
  runs_run h (s.length + 1) (Nat.lt_succ_self _)

/-! ### completeness: derivations drive the machine -/

theorem space_facts : ∀ c : UInt8, isSpace c = true → numChar c = false ∧ c ≠ 34 := by
  apply forall_uint8
  decide +kernel

theorem digit_facts : ∀ c : UInt8, isDigit c = true → isSpace c = false ∧ c ≠ 0 ∧ c ≠ 93 ∧ c ≠ 125 := by
  apply forall_uint8
  decide +kernel

theorem numEnd_ws_cons {w : Bytes} {c : UInt8} (x : Bytes) (hw : AllSpace w) (hc : numChar c = false) :
    NumEnd (w ++ c :: x) := by
  intro d r h
  cases w with
  | nil => simp at h; obtain ⟨rfl, _⟩ := h; exact hc
  | cons e w' =>
    simp at h
    obtain ⟨rfl, _⟩ := h
    exact (space_facts _ (hw _ (by simp))).1

theorem numEnd_ws {w : Bytes} (hw : AllSpace w) : NumEnd w := by
  intro d r h
  subst h
  exact (space_facts _ (hw _ (by simp))).1

theorem arrTail_numEnd {SB k t} (r : Bytes) (h : ArrTail SB k t) : NumEnd (t ++ r) := by
  cases h with
  | close w hw => simpa using numEnd_ws_cons (c := 93) r hw (by decide)
  | more w w' v t k m hw _ _ _ => simpa using numEnd_ws_cons (c := 44) _ hw (by decide)

theorem objTail_numEnd {SB k t} (r : Bytes) (h : ObjTail SB k t) : NumEnd (t ++ r) := by
  cases h with
  | close w hw => simpa using numEnd_ws_cons (c := 125) r hw (by decide)
  | more w w0 key w1 w2 v t k m hw _ _ _ _ _ _ => simpa using numEnd_ws_cons (c := 44) _ hw (by decide)

/-- first byte of a value: not space, not NUL, not a closing bracket -/
theorem val_head {SB k v} (h : Val SB k v) :
    ∃ ch v', v = ch :: v' ∧ isSpace ch = false ∧ ch ≠ 0 ∧ ch ≠ 93 ∧ ch ≠ 125 := by
  cases h with
  | nul => exact ⟨110, _, rfl, by decide, by decide, by decide, by decide⟩
  | tru => exact ⟨116, _, rfl, by decide, by decide, by decide, by decide⟩
  | fls => exact ⟨102, _, rfl, by decide, by decide, by decide, by decide⟩
  | str b _ => exact ⟨34, _, rfl, by decide, by decide, by decide, by decide⟩
  | arr k t _ => exact ⟨91, _, rfl, by decide, by decide, by decide, by decide⟩
  | obj k t _ => exact ⟨123, _, rfl, by decide, by decide, by decide, by decide⟩
  | num n hn =>
    cases hn with
    | pos nb hb =>
      obtain ⟨c, t, rfl, hc⟩ := numBody_head hb
      obtain ⟨h1, h2, h3, h4⟩ := digit_facts c hc
      exact ⟨c, t, rfl, h1, h2, h3, h4⟩
    | neg nb _ => exact ⟨45, _, rfl, by decide, by decide, by decide, by decide⟩

theorem step_val_at (st : List Frame) (sp : Nat) {w : Bytes} {ch : UInt8} (r0 : Bytes) (hw : AllSpace w)
    (h1 : isSpace ch = false) (h2 : ch ≠ 0) :
    step B m .val st sp (w ++ ch :: r0) = value B m st sp ch r0 := by
  unfold step
  rw [advanceNs_ws r0 hw h1 h2]

theorem step_arr0_eq_val (st : List Frame) {s : Bytes} (h : ∀ r, advanceNs s ≠ some (93, r)) :
    step B m .arr0 st st.length s = step B m .val (.arr :: st) (Frame.arr :: st).length s := by
  unfold step
  cases ha : advanceNs s with
  | none => rfl
  | some p =>
    obtain ⟨ch, r⟩ := p
    simp only
    by_cases hc : ch = 93
    · subst hc; exact absurd ha (h r)
    · rw [if_neg hc]; rfl

theorem runs_arr0_of_val {st : List Frame} {s : Bytes} {res : Res} (hne : ∀ r, advanceNs s ≠ some (93, r))
    (h : Runs B m (.val :: .arr :: st) s res) : Runs B m (.arr0 :: st) s res := by
  cases h with
  | next hstep hr => exact Runs.next (by rw [step_arr0_eq_val st hne]; exact hstep) hr
  | fail hstep => exact Runs.fail (by rw [step_arr0_eq_val st hne]; exact hstep)

theorem value_lit (st : List Frame) (sp : Nat) (r : Bytes) :
    value B m st sp 110 (117 :: 108 :: 108 :: r) = .next st sp r ∧
    value B m st sp 116 (114 :: 117 :: 101 :: r) = .next st sp r ∧
    value B m st sp 102 (97 :: 108 :: 115 :: 101 :: r) = .next st sp r := by
  have a := lit_append [117, 108, 108] r
  have b := lit_append [114, 117, 101] r
  have c := lit_append [97, 108, 115, 101] r
  simp only [List.cons_append, List.nil_append] at a b c
  refine ⟨?_, ?_, ?_⟩
  · have : isDigit 110 = false := by decide
    simp [value, this, a, Step.ofRes]
  · have : isDigit 116 = false := by decide
    simp [value, this, b, Step.ofRes]
  · have : isDigit 102 = false := by decide
    simp [value, this, c, Step.ofRes]

theorem value_str (st : List Frame) (sp : Nat) {x r : Bytes} (h : scanStr m x = .ok r) :
    value B m st sp 34 x = .next st sp r := by
  have : isDigit 34 = false := by decide
  simp [value, this, h, Step.ofRes]

theorem value_open (st : List Frame) (sp : Nat) (r : Bytes) (h : sp < B) :
    value B m st sp 91 r = .next (.arr0 :: st) (sp + 1) r ∧
    value B m st sp 123 r = .next (.obj0 :: st) (sp + 1) r := by
  have a : isDigit 91 = false := by decide
  have b : isDigit 123 = false := by decide
  constructor
  · simp [value, a, h]
  · simp [value, b, h]

theorem value_number (st : List Frame) (sp : Nat) {ch : UInt8} {t r : Bytes}
    (h : (isDigit ch = true ∧ skipPositive ch (t ++ r) = .ok r) ∨
      (isDigit ch = false ∧ ch = 45 ∧ skipNegative (t ++ r) = .ok r)) :
    value B m st sp ch (t ++ r) = .next st sp r := by
  rcases h with ⟨h1, h2⟩ | ⟨h1, rfl, h2⟩
  · simp [value, h1, h2, Step.ofRes]
  · simp [value, h1, h2, Step.ofRes]

variable {SBc : Bytes → Prop}

mutual
theorem cval_ok (hc : ∀ b r, SBc b → scanStr m (b ++ 34 :: r) = .ok r) : ∀ {k : Nat} {v : Bytes}, Val SBc k v → ∀ (st : List Frame) (w r : Bytes) (res : Res),
    AllSpace w → NumEnd r → Fits B st.length k → Runs B m st r res →
    Runs B m (.val :: st) (w ++ (v ++ r)) res
  | _, _, .nul, st, w, r, res, hw, _, _, hr =>
    Runs.next (by rw [List.cons_append, step_val_at st _ _ hw (by decide) (by decide)]; exact (value_lit st _ r).1) hr
  | _, _, .tru, st, w, r, res, hw, _, _, hr =>
    Runs.next (by rw [List.cons_append, step_val_at st _ _ hw (by decide) (by decide)]; exact (value_lit st _ r).2.1) hr
  | _, _, .fls, st, w, r, res, hw, _, _, hr =>
    Runs.next (by rw [List.cons_append, step_val_at st _ _ hw (by decide) (by decide)]; exact (value_lit st _ r).2.2) hr
  | _, _, .num n hn, st, w, r, res, hw, hne, _, hr => by
    obtain ⟨ch, t, rfl, hh⟩ := number_complete hn hne
    obtain ⟨_, _, e, h1, h2, _, _⟩ := val_head (SB := SBc) (.num _ hn)
    cases e
    exact Runs.next (by rw [List.cons_append, step_val_at st _ _ hw h1 h2]; exact value_number st _ hh) hr
  | _, _, .str b hb, st, w, r, res, hw, _, _, hr =>
    Runs.next (by
      rw [List.cons_append, step_val_at st _ _ hw (by decide) (by decide)]
      exact value_str st _ (by rw [List.append_assoc]; exact hc b r hb)) hr
  | _, _, .arr k t ht, st, w, r, res, hw, _, hk, hr => by
    have hpos := arrBody_pos ht
    have hk' : st.length + k ≤ B := by rcases hk with h | h <;> omega
    exact Runs.next (by
      rw [List.cons_append, step_val_at st _ _ hw (by decide) (by decide)]
      exact (value_open st _ _ (by omega)).1) (carrBody_ok hc ht st r res hk' hr)
  | _, _, .obj k t ht, st, w, r, res, hw, _, hk, hr => by
    have hpos := objBody_pos ht
    have hk' : st.length + k ≤ B := by rcases hk with h | h <;> omega
    exact Runs.next (by
      rw [List.cons_append, step_val_at st _ _ hw (by decide) (by decide)]
      exact (value_open st _ _ (by omega)).2) (cobjBody_ok hc ht st r res hk' hr)
theorem carrBody_ok (hc : ∀ b r, SBc b → scanStr m (b ++ 34 :: r) = .ok r) : ∀ {k : Nat} {t : Bytes}, ArrBody SBc k t → ∀ (st : List Frame) (r : Bytes) (res : Res),
    st.length + k ≤ B → Runs B m st r res → Runs B m (.arr0 :: st) (t ++ r) res
  | _, _, .empty w hw, st, r, res, _, hr =>
    Runs.next (st2 := st) (sp2 := st.length) (r2 := r) (by
      unfold step
      rw [List.append_assoc, List.singleton_append, advanceNs_ws r hw (by decide) (by decide)]
      simp) hr
  | _, _, .elems w v t k m' hw hv ht, st, r, res, hk, hr => by
    obtain ⟨ch, v', hveq, h1, h2, h3, _⟩ := val_head hv
    have hne : ∀ r', advanceNs ((w ++ (v ++ t)) ++ r) ≠ some (93, r') := by
      intro r'
      rw [hveq, List.append_assoc, List.cons_append, List.cons_append, advanceNs_ws _ hw h1 h2]
      intro hh
      simp only [Option.some.injEq, Prod.mk.injEq] at hh
      exact h3 hh.1
    apply runs_arr0_of_val hne
    have := cval_ok hc hv (.arr :: st) w (t ++ r) res hw (arrTail_numEnd r ht)
      (by unfold Fits; simp only [List.length_cons]; omega)
      (carrTail_ok hc ht st r res (by omega) hr)
    simpa [List.append_assoc] using this
theorem carrTail_ok (hc : ∀ b r, SBc b → scanStr m (b ++ 34 :: r) = .ok r) : ∀ {k : Nat} {t : Bytes}, ArrTail SBc k t → ∀ (st : List Frame) (r : Bytes) (res : Res),
    st.length + k ≤ B → Runs B m st r res → Runs B m (.arr :: st) (t ++ r) res
  | _, _, .close w hw, st, r, res, _, hr =>
    Runs.next (st2 := st) (sp2 := st.length) (r2 := r) (by
      unfold step
      rw [List.append_assoc, List.singleton_append, advanceNs_ws r hw (by decide) (by decide)]
      simp) hr
  | _, _, .more w w' v t k m' hw hw' hv ht, st, r, res, hk, hr => by
    have hb : st.length + 1 < B := by omega
    refine Runs.next (st2 := .val :: .arr :: st) (sp2 := st.length + 2) (r2 := w' ++ (v ++ (t ++ r))) (by
      unfold step
      rw [List.append_assoc, List.cons_append, advanceNs_ws _ hw (by decide) (by decide)]
      simp [hb, List.append_assoc]) ?_
    exact cval_ok hc hv (.arr :: st) w' (t ++ r) res hw' (arrTail_numEnd r ht)
      (by unfold Fits; simp only [List.length_cons]; omega)
      (carrTail_ok hc ht st r res (by omega) hr)
theorem cobjBody_ok (hc : ∀ b r, SBc b → scanStr m (b ++ 34 :: r) = .ok r) : ∀ {k : Nat} {t : Bytes}, ObjBody SBc k t → ∀ (st : List Frame) (r : Bytes) (res : Res),
    st.length + k ≤ B → Runs B m st r res → Runs B m (.obj0 :: st) (t ++ r) res
  | _, _, .empty w hw, st, r, res, _, hr =>
    Runs.next (st2 := st) (sp2 := st.length) (r2 := r) (by
      unfold step
      rw [List.append_assoc, List.singleton_append, advanceNs_ws r hw (by decide) (by decide)]
      simp) hr
  | _, _, .members w key w1 w2 v t k m' hw hkey hw1 hw2 hv ht, st, r, res, hk, hr => by
    have hb : st.length + 1 < B := by omega
    have hs := hc key (w1 ++ 58 :: (w2 ++ (v ++ (t ++ r)))) hkey
    refine Runs.next (st2 := .elem :: .obj :: st) (sp2 := st.length + 2) (r2 := w1 ++ 58 :: (w2 ++ (v ++ (t ++ r)))) (by
      unfold step
      rw [List.append_assoc, List.cons_append, advanceNs_ws _ hw (by decide) (by decide)]
      simp only [List.append_assoc, List.cons_append] at hs ⊢
      simp [hs, hb]) ?_
    refine Runs.next (st2 := .val :: .obj :: st) (sp2 := st.length + 2) (r2 := w2 ++ (v ++ (t ++ r))) (by
      unfold step
      rw [advanceNs_ws _ hw1 (by decide) (by decide)]
      simp) ?_
    exact cval_ok hc hv (.obj :: st) w2 (t ++ r) res hw2 (objTail_numEnd r ht)
      (by unfold Fits; simp only [List.length_cons]; omega)
      (cobjTail_ok hc ht st r res (by omega) hr)
theorem cobjTail_ok (hc : ∀ b r, SBc b → scanStr m (b ++ 34 :: r) = .ok r) : ∀ {k : Nat} {t : Bytes}, ObjTail SBc k t → ∀ (st : List Frame) (r : Bytes) (res : Res),
    st.length + k ≤ B → Runs B m st r res → Runs B m (.obj :: st) (t ++ r) res
  | _, _, .close w hw, st, r, res, _, hr =>
    Runs.next (st2 := st) (sp2 := st.length) (r2 := r) (by
      unfold step
      rw [List.append_assoc, List.singleton_append, advanceNs_ws r hw (by decide) (by decide)]
      simp) hr
  | _, _, .more w w0 key w1 w2 v t k m' hw hw0 hkey hw1 hw2 hv ht, st, r, res, hk, hr => by
    have hb : st.length + 1 < B := by omega
    have hs := hc key (w1 ++ 58 :: (w2 ++ (v ++ (t ++ r)))) hkey
    refine Runs.next (st2 := .key :: .obj :: st) (sp2 := st.length + 2)
      (r2 := w0 ++ 34 :: (key ++ 34 :: (w1 ++ 58 :: (w2 ++ (v ++ (t ++ r)))))) (by
      unfold step
      rw [List.append_assoc, List.cons_append, advanceNs_ws _ hw (by decide) (by decide)]
      simp [hb, List.append_assoc]) ?_
    refine Runs.next (st2 := .elem :: .obj :: st) (sp2 := st.length + 2) (r2 := w1 ++ 58 :: (w2 ++ (v ++ (t ++ r)))) (by
      unfold step
      rw [advanceNs_ws _ hw0 (by decide) (by decide)]
      simp [hs, Step.ofRes]) ?_
    refine Runs.next (st2 := .val :: .obj :: st) (sp2 := st.length + 2) (r2 := w2 ++ (v ++ (t ++ r))) (by
      unfold step
      rw [advanceNs_ws _ hw1 (by decide) (by decide)]
      simp) ?_
    exact cval_ok hc hv (.obj :: st) w2 (t ++ r) res hw2 (objTail_numEnd r ht)
      (by unfold Fits; simp only [List.length_cons]; omega)
      (cobjTail_ok hc ht st r res (by omega) hr)
end

/-- a well-formed value that fits is consumed exactly, whatever the mode's complete string class is -/
theorem skipOne_complete (hc : ∀ b r, SBc b → scanStr m (b ++ 34 :: r) = .ok r) {k : Nat} {v w r : Bytes}
    (hv : Val SBc k v) (hk : k ≤ B) (hw : AllSpace w) (hr : NumEnd r) : skipOne B m (w ++ (v ++ r)) = .ok r :=
  runs_skipOne (cval_ok hc hv [] w r (.ok r) hw hr (Or.inr (by simpa using hk)) (Runs.done r))

/-! ### beyond the budget: the machine stops with the recursion error -/

theorem value_open_fail (st : List Frame) (sp : Nat) (r : Bytes) (h : ¬ sp < B) :
    value B m st sp 91 r = .fail .recurse r ∧ value B m st sp 123 r = .fail .recurse r := by
  have a : isDigit 91 = false := by decide
  have b : isDigit 123 = false := by decide
  constructor
  · simp [value, a, h]
  · simp [value, b, h]

mutual
theorem cval_err (hc : ∀ b r, SBc b → scanStr m (b ++ 34 :: r) = .ok r) : ∀ {k : Nat} {v : Bytes}, Val SBc k v →
    ∀ (st : List Frame) (w r : Bytes), AllSpace w → NumEnd r → st.length ≤ B → B < st.length + k →
    ∃ p, Runs B m (.val :: st) (w ++ (v ++ r)) (.err .recurse p)
  | _, _, .nul, st, w, r, _, _, h1, h2 => by omega
  | _, _, .tru, st, w, r, _, _, h1, h2 => by omega
  | _, _, .fls, st, w, r, _, _, h1, h2 => by omega
  | _, _, .num n hn, st, w, r, _, _, h1, h2 => by omega
  | _, _, .str b hb, st, w, r, _, _, h1, h2 => by omega
  | _, _, .arr k t ht, st, w, r, hw, _, h1, h2 => by
    by_cases hb : st.length < B
    · obtain ⟨p, hp⟩ := carrBody_err hc ht st r (by omega) h2
      exact ⟨p, Runs.next (by
        rw [List.cons_append, step_val_at st _ _ hw (by decide) (by decide)]
        exact (value_open st _ _ hb).1) hp⟩
    · exact ⟨_, Runs.fail (by
        rw [List.cons_append, step_val_at st _ _ hw (by decide) (by decide)]
        exact (value_open_fail st _ _ hb).1)⟩
  | _, _, .obj k t ht, st, w, r, hw, _, h1, h2 => by
    by_cases hb : st.length < B
    · obtain ⟨p, hp⟩ := cobjBody_err hc ht st r (by omega) h2
      exact ⟨p, Runs.next (by
        rw [List.cons_append, step_val_at st _ _ hw (by decide) (by decide)]
        exact (value_open st _ _ hb).2) hp⟩
    · exact ⟨_, Runs.fail (by
        rw [List.cons_append, step_val_at st _ _ hw (by decide) (by decide)]
        exact (value_open_fail st _ _ hb).2)⟩
theorem carrBody_err (hc : ∀ b r, SBc b → scanStr m (b ++ 34 :: r) = .ok r) : ∀ {k : Nat} {t : Bytes}, ArrBody SBc k t →
    ∀ (st : List Frame) (r : Bytes), st.length + 1 ≤ B → B < st.length + k →
    ∃ p, Runs B m (.arr0 :: st) (t ++ r) (.err .recurse p)
  | _, _, .empty w hw, st, r, h1, h2 => by omega
  | _, _, .elems w v t k m' hw hv ht, st, r, h1, h2 => by
    obtain ⟨ch, v', hveq, c1, c2, c3, _⟩ := val_head hv
    have hne : ∀ r', advanceNs ((w ++ (v ++ t)) ++ r) ≠ some (93, r') := by
      intro r'
      rw [hveq, List.append_assoc, List.cons_append, List.cons_append, advanceNs_ws _ hw c1 c2]
      intro hh
      simp only [Option.some.injEq, Prod.mk.injEq] at hh
      exact c3 hh.1
    by_cases hA : B < st.length + 1 + k
    · obtain ⟨p, hp⟩ := cval_err hc hv (.arr :: st) w (t ++ r) hw (arrTail_numEnd r ht) (by simpa using h1)
        (by simpa using hA)
      exact ⟨p, runs_arr0_of_val hne (by simpa [List.append_assoc] using hp)⟩
    · obtain ⟨p, hp⟩ := carrTail_err hc ht st r h1 (by omega)
      have := cval_ok hc hv (.arr :: st) w (t ++ r) _ hw (arrTail_numEnd r ht)
        (by unfold Fits; simp only [List.length_cons]; omega) hp
      exact ⟨p, runs_arr0_of_val hne (by simpa [List.append_assoc] using this)⟩
theorem carrTail_err (hc : ∀ b r, SBc b → scanStr m (b ++ 34 :: r) = .ok r) : ∀ {k : Nat} {t : Bytes}, ArrTail SBc k t →
    ∀ (st : List Frame) (r : Bytes), st.length + 1 ≤ B → B < st.length + k →
    ∃ p, Runs B m (.arr :: st) (t ++ r) (.err .recurse p)
  | _, _, .close w hw, st, r, h1, h2 => by omega
  | _, _, .more w w' v t k m' hw hw' hv ht, st, r, h1, h2 => by
    by_cases hb : st.length + 1 < B
    · have hstep : step B m .arr st st.length ((w ++ 44 :: (w' ++ (v ++ t))) ++ r) =
          .next (.val :: .arr :: st) (st.length + 2) (w' ++ (v ++ (t ++ r))) := by
        unfold step
        rw [List.append_assoc, List.cons_append, advanceNs_ws _ hw (by decide) (by decide)]
        simp [hb, List.append_assoc]
      by_cases hA : B < st.length + 1 + k
      · obtain ⟨p, hp⟩ := cval_err hc hv (.arr :: st) w' (t ++ r) hw' (arrTail_numEnd r ht) (by simp; omega)
          (by simpa using hA)
        exact ⟨p, Runs.next hstep hp⟩
      · obtain ⟨p, hp⟩ := carrTail_err hc ht st r h1 (by omega)
        exact ⟨p, Runs.next hstep (cval_ok hc hv (.arr :: st) w' (t ++ r) _ hw' (arrTail_numEnd r ht)
          (by unfold Fits; simp only [List.length_cons]; omega) hp)⟩
    · exact ⟨w' ++ (v ++ (t ++ r)), Runs.fail (by
        unfold step
        rw [List.append_assoc, List.cons_append, advanceNs_ws _ hw (by decide) (by decide)]
        simp [hb])⟩
theorem cobjBody_err (hc : ∀ b r, SBc b → scanStr m (b ++ 34 :: r) = .ok r) : ∀ {k : Nat} {t : Bytes}, ObjBody SBc k t →
    ∀ (st : List Frame) (r : Bytes), st.length + 1 ≤ B → B < st.length + k →
    ∃ p, Runs B m (.obj0 :: st) (t ++ r) (.err .recurse p)
  | _, _, .empty w hw, st, r, h1, h2 => by omega
  | _, _, .members w key w1 w2 v t k m' hw hkey hw1 hw2 hv ht, st, r, h1, h2 => by
    have hs := hc key (w1 ++ 58 :: (w2 ++ (v ++ (t ++ r)))) hkey
    by_cases hb : st.length + 1 < B
    · have hstep1 : step B m .obj0 st st.length ((w ++ 34 :: (key ++ 34 :: (w1 ++ 58 :: (w2 ++ (v ++ t))))) ++ r) =
          .next (.elem :: .obj :: st) (st.length + 2) (w1 ++ 58 :: (w2 ++ (v ++ (t ++ r)))) := by
        unfold step
        rw [List.append_assoc, List.cons_append, advanceNs_ws _ hw (by decide) (by decide)]
        simp only [List.append_assoc, List.cons_append] at hs ⊢
        simp [hs, hb]
      have hstep2 : step B m .elem (.obj :: st) (Frame.obj :: st).length (w1 ++ 58 :: (w2 ++ (v ++ (t ++ r)))) =
          .next (.val :: .obj :: st) (st.length + 2) (w2 ++ (v ++ (t ++ r))) := by
        unfold step
        rw [advanceNs_ws _ hw1 (by decide) (by decide)]
        simp
      by_cases hA : B < st.length + 1 + k
      · obtain ⟨p, hp⟩ := cval_err hc hv (.obj :: st) w2 (t ++ r) hw2 (objTail_numEnd r ht) (by simp; omega)
          (by simpa using hA)
        exact ⟨p, Runs.next hstep1 (Runs.next hstep2 hp)⟩
      · obtain ⟨p, hp⟩ := cobjTail_err hc ht st r h1 (by omega)
        exact ⟨p, Runs.next hstep1 (Runs.next hstep2 (cval_ok hc hv (.obj :: st) w2 (t ++ r) _ hw2 (objTail_numEnd r ht)
          (by unfold Fits; simp only [List.length_cons]; omega) hp))⟩
    · exact ⟨w1 ++ 58 :: (w2 ++ (v ++ (t ++ r))), Runs.fail (by
        unfold step
        rw [List.append_assoc, List.cons_append, advanceNs_ws _ hw (by decide) (by decide)]
        simp only [List.append_assoc, List.cons_append] at hs ⊢
        simp [hs, hb])⟩
theorem cobjTail_err (hc : ∀ b r, SBc b → scanStr m (b ++ 34 :: r) = .ok r) : ∀ {k : Nat} {t : Bytes}, ObjTail SBc k t →
    ∀ (st : List Frame) (r : Bytes), st.length + 1 ≤ B → B < st.length + k →
    ∃ p, Runs B m (.obj :: st) (t ++ r) (.err .recurse p)
  | _, _, .close w hw, st, r, h1, h2 => by omega
  | _, _, .more w w0 key w1 w2 v t k m' hw hw0 hkey hw1 hw2 hv ht, st, r, h1, h2 => by
    have hs := hc key (w1 ++ 58 :: (w2 ++ (v ++ (t ++ r)))) hkey
    by_cases hb : st.length + 1 < B
    · have hstep0 : step B m .obj st st.length
          ((w ++ 44 :: (w0 ++ 34 :: (key ++ 34 :: (w1 ++ 58 :: (w2 ++ (v ++ t)))))) ++ r) =
          .next (.key :: .obj :: st) (st.length + 2) (w0 ++ 34 :: (key ++ 34 :: (w1 ++ 58 :: (w2 ++ (v ++ (t ++ r)))))) := by
        unfold step
        rw [List.append_assoc, List.cons_append, advanceNs_ws _ hw (by decide) (by decide)]
        simp [hb, List.append_assoc]
      have hstep1 : step B m .key (.obj :: st) (Frame.obj :: st).length
          (w0 ++ 34 :: (key ++ 34 :: (w1 ++ 58 :: (w2 ++ (v ++ (t ++ r)))))) =
          .next (.elem :: .obj :: st) (st.length + 2) (w1 ++ 58 :: (w2 ++ (v ++ (t ++ r)))) := by
        unfold step
        rw [advanceNs_ws _ hw0 (by decide) (by decide)]
        simp [hs, Step.ofRes]
      have hstep2 : step B m .elem (.obj :: st) (Frame.obj :: st).length (w1 ++ 58 :: (w2 ++ (v ++ (t ++ r)))) =
          .next (.val :: .obj :: st) (st.length + 2) (w2 ++ (v ++ (t ++ r))) := by
        unfold step
        rw [advanceNs_ws _ hw1 (by decide) (by decide)]
        simp
      by_cases hA : B < st.length + 1 + k
      · obtain ⟨p, hp⟩ := cval_err hc hv (.obj :: st) w2 (t ++ r) hw2 (objTail_numEnd r ht) (by simp; omega)
          (by simpa using hA)
        exact ⟨p, Runs.next hstep0 (Runs.next hstep1 (Runs.next hstep2 hp))⟩
      · obtain ⟨p, hp⟩ := cobjTail_err hc ht st r h1 (by omega)
        exact ⟨p, Runs.next hstep0 (Runs.next hstep1 (Runs.next hstep2
          (cval_ok hc hv (.obj :: st) w2 (t ++ r) _ hw2 (objTail_numEnd r ht)
            (by unfold Fits; simp only [List.length_cons]; omega) hp)))⟩
    · exact ⟨w0 ++ 34 :: (key ++ 34 :: (w1 ++ 58 :: (w2 ++ (v ++ (t ++ r))))), Runs.fail (by
        unfold step
        rw [List.append_assoc, List.cons_append, advanceNs_ws _ hw (by decide) (by decide)]
        simp [hb])⟩
end

/-- a well-formed value that needs more than `B` frames is refused with the recursion error -/
theorem skipOne_too_deep (hc : ∀ b r, SBc b → scanStr m (b ++ 34 :: r) = .ok r) {k : Nat} {v w r : Bytes}
    (hv : Val SBc k v) (hk : B < k) (hw : AllSpace w) (hr : NumEnd r) :
    ∃ p, skipOne B m (w ++ (v ++ r)) = .err .recurse p := by
  obtain ⟨p, hp⟩ := cval_err hc hv [] w r hw hr (Nat.zero_le _) (by simpa using hk)
  exact ⟨p, runs_skipOne hp⟩

end

end SonicSpec.Json
