/-
  Helper lemmas for C20, double unquoting: the one-pass routine `unquote _ true` against the two-pass
  definition, on the minimal escaping of literal bodies.
-/
import SonicSpec.Model.Str
import SonicSpec.Model.StrSpec
import SonicSpec.Model.StrDbl
import SonicSpec.Proofs.U8
import SonicSpec.Proofs.StrQuote
import SonicSpec.Proofs.StrDenote
namespace SonicSpec.Str

theorem escapeAgain_plain (c : UInt8) (t : Bytes) (h1 : c ≠ 92) (h2 : c ≠ 34) :
    escapeAgain (c :: t) = c :: escapeAgain t := by
  have a : (c == 92) = false := by simpa using h1
  have b : (c == 34) = false := by simpa using h2
  simp [escapeAgain, a, b]

theorem escapeAgain_bs (t : Bytes) : escapeAgain (92 :: t) = 92 :: 92 :: escapeAgain t := by
  simp [escapeAgain]

theorem escapeAgain_quote (t : Bytes) : escapeAgain (34 :: t) = 92 :: 34 :: escapeAgain t := by
  simp [escapeAgain]

/-- the first pass undoes the minimal escaping -/
theorem unquote_escapeAgain (u : Bool) (m : Bytes) : unquote u false (escapeAgain m) = .ok m := by
  induction m with
  | nil => simp [escapeAgain, unquote_nil]
  | cons c t ih =>
    by_cases h92 : c = 92
    · subst h92
      rw [escapeAgain_bs, unquote_esc_ok u false (92 :: escapeAgain t) [92] (escapeAgain t) (by simp [escStep, escBody, simpleEsc]), ih]; rfl
    · by_cases h34 : c = 34
      · subst h34
        rw [escapeAgain_quote, unquote_esc_ok u false (34 :: escapeAgain t) [34] (escapeAgain t) (by simp [escStep, escBody, simpleEsc]), ih]; rfl
      · rw [escapeAgain_plain c t h92 h34, unquote_plain u false c _ h92, ih]; rfl

theorem unquoteTwice_escapeAgain (u : Bool) (m : Bytes) : unquoteTwice u (escapeAgain m) = unquote u false m := by
  unfold unquoteTwice
  rw [unquote_escapeAgain]

theorem denotes_escapeAgain (u : Bool) (m : Bytes) : Denotes u (escapeAgain m) m :=
  unquote_sound' u _ m (unquote_escapeAgain u m)

/-! ### okPart bookkeeping -/

theorem okPart_consOk (pre : Bytes) (x : Except UErr Bytes) : okPart (consOk pre x) = (okPart x).map (pre ++ ·) := by
  cases x <;> rfl

theorem okPart_unquote_plain (u d : Bool) (c : UInt8) (t : Bytes) (h : c ≠ 92) :
    okPart (unquote u d (c :: t)) = (okPart (unquote u d t)).map ([c] ++ ·) := by
  rw [unquote_plain u d c t h, okPart_consOk]

theorem okPart_unquote_esc_ok (u d : Bool) (t o r : Bytes) (h : escStep u d t = .ok (o, r)) :
    okPart (unquote u d (92 :: t)) = (okPart (unquote u d r)).map (o ++ ·) := by
  rw [unquote_esc_ok u d t o r h, okPart_consOk]

theorem okPart_unquote_esc_err (u d : Bool) (t : Bytes) (e : UErr) (h : escStep u d t = .error e) :
    okPart (unquote u d (92 :: t)) = none := by
  rw [unquote_esc_err u d t e h]; rfl

/-! ### one step of the one-pass routine on doubly escaped tokens -/

theorem escStepD_simple (u : Bool) (e : UInt8) (R : Bytes) (he : e ≠ 92) :
    escStep u true (92 :: e :: R) = escBody u true e R := by
  have : (e == 92) = false := by simpa using he
  simp [escStep, this]

theorem escStepD_bsq (u : Bool) (y : UInt8) (R : Bytes) (hy : y = 34 ∨ y = 92) :
    escStep u true (92 :: 92 :: y :: R) = escBody u true y R := by
  rcases hy with rfl | rfl <;> simp [escStep]

theorem escBody_simple (u d : Bool) (e v : UInt8) (R : Bytes) (h : simpleEsc e = some v) :
    escBody u d e R = .ok ([v], R) := by
  unfold escBody
  have hne : (e == 117) = false := by
    cases hc : e == 117 with
    | false => rfl
    | true =>
      have : e = 117 := by simpa using hc
      subst this
      rw [simpleEsc_u] at h; cases h
  simp only [hne, Bool.false_eq_true, ↓reduceIte, h]

theorem escBody_u (u d : Bool) (a b c d' : UInt8) (r : Nat) (R : Bytes) (h : hex4 a b c d' = some r) :
    escBody u d 117 (a :: b :: c :: d' :: R) = decodeRune u d r R := by
  simp only [escBody, beq_self_eq_true, ↓reduceIte, h]

theorem pairRune_not_bs (u : Bool) (r : Nat) (c : UInt8) (t : Bytes) (hc : c ≠ 92) :
    pairRune u r (c :: t) = lone u (c :: t) := by
  unfold pairRune
  split
  · rename_i e u' a b c' d rest heq
    injection heq with h1 _
    subst h1
    have : (c != 92) = true := by simpa using hc
    simp [this]
  · rfl

theorem hexVal_ne : ∀ x : UInt8, (hexVal x).isSome = true → x ≠ 92 ∧ x ≠ 34 := by
  apply forall_uint8
  decide +kernel

theorem hex4_digits' {a b c d : UInt8} {r : Nat} (h : hex4 a b c d = some r) :
    (hexVal a).isSome = true ∧ (hexVal b).isSome = true ∧ (hexVal c).isSome = true ∧ (hexVal d).isSome = true := by
  unfold hex4 at h
  split at h
  · rename_i x y z w h1 h2 h3 h4
    simp [h1, h2, h3, h4]
  · cases h

theorem escapeAgain_uesc {a b c d : UInt8} {r : Nat} (h : hex4 a b c d = some r) (t : Bytes) :
    escapeAgain (92 :: 117 :: a :: b :: c :: d :: t) = 92 :: 92 :: 117 :: a :: b :: c :: d :: escapeAgain t := by
  obtain ⟨ha, hb, hc, hd⟩ := hex4_digits' h
  have pa := hexVal_ne a ha
  have pb := hexVal_ne b hb
  have pc := hexVal_ne c hc
  have pd := hexVal_ne d hd
  rw [escapeAgain_bs, escapeAgain_plain 117 _ (by decide) (by decide), escapeAgain_plain a _ pa.1 pa.2,
    escapeAgain_plain b _ pb.1 pb.2, escapeAgain_plain c _ pc.1 pc.2, escapeAgain_plain d _ pd.1 pd.2]

theorem litBodyD_u_inv {a b c d : UInt8} {t : Bytes} (h : LitBodyD (92 :: 117 :: a :: b :: c :: d :: t)) : LitBodyD t := by
  cases h with
  | plain _ _ h92 _ => exact absurd rfl h92
  | simple hv _ => rw [simpleEsc_u] at hv; cases hv
  | uni _ ht _ => exact ht

theorem escapeAgain_ne_nil (c : UInt8) (t : Bytes) : escapeAgain (c :: t) ≠ [] := by
  unfold escapeAgain; split <;> simp

/-- Theorem A: on the minimal escaping of a literal body (no unpaired surrogate escape directly followed by
    another escape) the one-pass routine returns what decoding the body itself returns -/
theorem unquoteD_escapeAgain' (u : Bool) : ∀ (n : Nat) (m : Bytes), m.length ≤ n → LitBodyD m →
    okPart (unquote u true (escapeAgain m)) = okPart (unquote u false m) := by
  intro n
  induction n with
  | zero =>
    intro m hl _
    match m, hl with
    | [], _ => simp [escapeAgain, unquote_nil]
  | succ n ih =>
    intro m hl hm
    cases hm with
    | nil => simp [escapeAgain, unquote_nil]
    | @plain c t h32 h34 h92 ht =>
      have hlt : t.length ≤ n := by simp only [List.length_cons] at hl; omega
      rw [escapeAgain_plain c t h92 h34, okPart_unquote_plain u true c _ h92, okPart_unquote_plain u false c _ h92,
        ih t hlt ht]
    | @simple e v t hv ht =>
      have hlt : t.length ≤ n := by simp only [List.length_cons] at hl; omega
      have hs : escStep u false (e :: t) = .ok ([v], t) := escStep_simple u e v t hv
      rw [okPart_unquote_esc_ok u false _ _ _ hs]
      by_cases he92 : e = 92
      · subst he92
        have : escStep u true (92 :: 92 :: 92 :: escapeAgain t) = .ok ([v], escapeAgain t) := by
          rw [escStepD_bsq u 92 _ (Or.inr rfl), escBody_simple u true 92 v _ hv]
        rw [escapeAgain_bs, escapeAgain_bs, okPart_unquote_esc_ok u true _ _ _ this, ih t hlt ht]
      · by_cases he34 : e = 34
        · subst he34
          have : escStep u true (92 :: 92 :: 34 :: escapeAgain t) = .ok ([v], escapeAgain t) := by
            rw [escStepD_bsq u 34 _ (Or.inl rfl), escBody_simple u true 34 v _ hv]
          rw [escapeAgain_bs, escapeAgain_quote, okPart_unquote_esc_ok u true _ _ _ this, ih t hlt ht]
        · have : escStep u true (92 :: e :: escapeAgain t) = .ok ([v], escapeAgain t) := by
            rw [escStepD_simple u e _ he92, escBody_simple u true e v _ hv]
          rw [escapeAgain_bs, escapeAgain_plain e t he92 he34, okPart_unquote_esc_ok u true _ _ _ this, ih t hlt ht]
    | @uni a b c d r t hx ht hside =>
      have hlt : t.length ≤ n := by simp only [List.length_cons] at hl; omega
      rw [escapeAgain_uesc hx]
      have e1 : escStep u true (92 :: 117 :: a :: b :: c :: d :: escapeAgain t) = decodeRune u true r (escapeAgain t) := by
        rw [escStepD_simple u 117 _ (by decide), escBody_u u true a b c d r _ hx]
      have e2 : escStep u false (117 :: a :: b :: c :: d :: t) = decodeRune u false r t := escStep_u u a b c d r t hx
      by_cases hs : isSurr r
      · -- a surrogate code unit
        match t, ht, hside, hlt with
        | [], _, _, _ =>
          -- end of the body
          cases u with
          | true =>
            have d1 : decodeRune true true r (escapeAgain []) = .ok (fffd, []) := by
              unfold decodeRune
              have : (decide (r < 55296) || decide (r > 57343)) = false := by
                simp only [Bool.or_eq_false_iff, decide_eq_false_iff_not]; unfold isSurr at hs; omega
              simp [this, escapeAgain]
            have d2 : decodeRune true false r [] = .ok (fffd, []) := by
              rw [decodeRune_surr true r [] hs]; rfl
            rw [okPart_unquote_esc_ok true true _ _ _ (e1.trans d1), okPart_unquote_esc_ok true false _ _ _ (e2.trans d2)]
            simp [escapeAgain, unquote_nil]
          | false =>
            have d1 : decodeRune false true r (escapeAgain []) = .error .eof := by
              unfold decodeRune
              have : (decide (r < 55296) || decide (r > 57343)) = false := by
                simp only [Bool.or_eq_false_iff, decide_eq_false_iff_not]; unfold isSurr at hs; omega
              simp [this, escapeAgain]
            have d2 : decodeRune false false r [] = .error .unicode := by
              rw [decodeRune_surr false r [] hs]; rfl
            rw [okPart_unquote_esc_err false true _ _ (e1.trans d1), okPart_unquote_esc_err false false _ _ (e2.trans d2)]
        | c0 :: t0, ht, hside, hlt =>
          have d1 : decodeRune u true r (escapeAgain (c0 :: t0)) = pairRune u r (skipDbl true (escapeAgain (c0 :: t0))) := by
            unfold decodeRune
            have : (decide (r < 55296) || decide (r > 57343)) = false := by
              simp only [Bool.or_eq_false_iff, decide_eq_false_iff_not]; unfold isSurr at hs; omega
            have hne : (escapeAgain (c0 :: t0)).isEmpty = false := by
              cases h : escapeAgain (c0 :: t0) with
              | nil => exact absurd h (escapeAgain_ne_nil c0 t0)
              | cons _ _ => rfl
            simp [this, hne]
          have d2 : decodeRune u false r (c0 :: t0) = pairRune u r (c0 :: t0) := decodeRune_surr u r _ hs
          by_cases hp : isHi r ∧ StartsLo (c0 :: t0)
          · -- a surrogate pair, both halves doubly escaped
            obtain ⟨hhi, a', b', c', d', lo, t'', heq, hx', hlo⟩ := hp
            injection heq with h1 h2
            subst h1; subst h2
            have hlt2 : t''.length ≤ n := by simp only [List.length_cons] at hlt; omega
            have p1 : pairRune u r (skipDbl true (escapeAgain (92 :: 117 :: a' :: b' :: c' :: d' :: t'')))
                = .ok (encodeScalar ((r - 55296) * 1024 + (lo - 56320) + 65536), escapeAgain t'') := by
              rw [escapeAgain_uesc hx']
              simp only [skipDbl, ↓reduceIte, beq_self_eq_true]
              exact pairRune_pair u r lo a' b' c' d' _ hhi hx' hlo
            have p2 := pairRune_pair u r lo a' b' c' d' t'' hhi hx' hlo
            rw [okPart_unquote_esc_ok u true _ _ _ (e1.trans (d1.trans p1)),
              okPart_unquote_esc_ok u false _ _ _ (e2.trans (d2.trans p2)), ih t'' hlt2 (litBodyD_u_inv ht)]
          · -- an unpaired surrogate: by the side condition a plain byte follows
            have hc0 : c0 ≠ 92 := fun h => hside hs hp t0 (by rw [h])
            have hc34 : c0 ≠ 34 := by
              cases ht with
              | plain _ h34 _ _ => exact h34
              | simple _ _ => exact absurd rfl hc0
              | uni _ _ _ => exact absurd rfl hc0
            have p1 : pairRune u r (skipDbl true (escapeAgain (c0 :: t0))) = lone u (escapeAgain (c0 :: t0)) := by
              rw [escapeAgain_plain c0 t0 hc0 hc34]
              have : (c0 == 92) = false := by simpa using hc0
              simp only [skipDbl, ↓reduceIte, this, Bool.false_eq_true]
              exact pairRune_not_bs u r c0 _ hc0
            have p2 : pairRune u r (c0 :: t0) = lone u (c0 :: t0) := pairRune_not_bs u r c0 t0 hc0
            cases u with
            | true =>
              rw [okPart_unquote_esc_ok true true _ _ _ (e1.trans (d1.trans p1)),
                okPart_unquote_esc_ok true false _ _ _ (e2.trans (d2.trans p2)), ih (c0 :: t0) hlt ht]
            | false =>
              rw [okPart_unquote_esc_err false true _ _ (e1.trans (d1.trans p1)),
                okPart_unquote_esc_err false false _ _ (e2.trans (d2.trans p2))]
      · -- not a surrogate
        have hr : r < 55296 ∨ r > 57343 := by unfold isSurr at hs; omega
        have dd : ∀ dbl R, decodeRune u dbl r R = .ok (encodeScalar r, R) := by
          intro dbl R
          unfold decodeRune
          have : (decide (r < 55296) || decide (r > 57343)) = true := by
            simp only [Bool.or_eq_true, decide_eq_true_eq]; exact hr
          simp only [this, ↓reduceIte]
        rw [okPart_unquote_esc_ok u true _ _ _ (e1.trans (dd true _)),
          okPart_unquote_esc_ok u false _ _ _ (e2.trans (dd false _)), ih t hlt ht]

/-! ### the two-pass definition and the inductive specification -/

theorem unquoteTwice_ok_iff (u : Bool) (b s : Bytes) :
    unquoteTwice u b = .ok s ↔ DenotesD u b s := by
  unfold unquoteTwice
  constructor
  · intro h
    cases h1 : unquote u false b with
    | error e => rw [h1] at h; cases h
    | ok m =>
      rw [h1] at h
      exact DenotesD.mk (unquote_sound' u b m h1) (unquote_sound' u m s h)
  · rintro ⟨h1, h2⟩
    rw [unquote_complete' h1]
    exact unquote_complete' h2

theorem okPart_eq_some {x : Except UErr Bytes} {s : Bytes} : okPart x = some s ↔ x = .ok s := by
  cases x with
  | error e => simp [okPart]
  | ok o => simp [okPart]

/-- on the minimal escaping of a body `m` the only intermediate text is `m` -/
theorem denotesD_escapeAgain_iff (u : Bool) (m s : Bytes) : DenotesD u (escapeAgain m) s ↔ Denotes u m s := by
  constructor
  · rintro ⟨h1, h2⟩
    have e1 := unquote_complete' h1
    rw [unquote_escapeAgain] at e1
    cases e1
    exact h2
  · intro h
    exact DenotesD.mk (denotes_escapeAgain u m) h

/-- what `quoteD` writes is the minimal escaping of what `quote` writes -/
theorem quoteByte_escapeAgain : ∀ c : UInt8, quoteBody (quoteByte c) = escapeAgain (quoteByte c) := by
  apply forall_uint8
  decide +kernel

theorem escapeAgain_append (a b : Bytes) : escapeAgain (a ++ b) = escapeAgain a ++ escapeAgain b := by
  induction a with
  | nil => rfl
  | cons c t ih =>
    simp only [List.cons_append, escapeAgain]
    split <;> simp [ih]

theorem quoteBodyD_eq_escapeAgain (s : Bytes) : quoteBodyD s = escapeAgain (quoteBody s) := by
  rw [quoteBodyD_eq]
  induction s with
  | nil => rfl
  | cons c t ih =>
    rw [quoteBody_cons, escapeAgain_append, ← ih, ← quoteByte_escapeAgain]
    simp [quoteBody]

theorem litBodyD_quoteByte (c : UInt8) (t : Bytes) (h : LitBodyD t) : LitBodyD (quoteByte c ++ t) := by
  unfold quoteByte
  split
  · exact LitBodyD.simple (v := 34) (by decide) h
  split
  · exact LitBodyD.simple (v := 92) (by decide) h
  split
  · exact LitBodyD.simple (v := 9) (by decide) h
  split
  · exact LitBodyD.simple (v := 10) (by decide) h
  split
  · exact LitBodyD.simple (v := 13) (by decide) h
  split
  · rename_i hc
    refine LitBodyD.uni (hex4_ctl c hc) h ?_
    intro hs
    have := c.toNat_lt
    unfold isSurr at hs
    omega
  · rename_i h34 h92 _ _ _ hc
    exact LitBodyD.plain (UInt8.not_lt.mp hc) (by simpa using h34) (by simpa using h92) h

theorem litBodyD_quoteBody (s : Bytes) : LitBodyD (quoteBody s) := by
  induction s with
  | nil => exact LitBodyD.nil
  | cons c s ih => rw [quoteBody_cons]; exact litBodyD_quoteByte c _ ih

theorem litBody_of_litBodyD {m : Bytes} (h : LitBodyD m) : LitBody m := by
  induction h with
  | nil => exact LitBody.nil
  | plain a b c _ ih => exact LitBody.plain a b c ih
  | simple hv _ ih => exact LitBody.simple hv ih
  | uni hx _ _ ih => exact LitBody.uni hx ih

end SonicSpec.Str
