/-
  Invariant of the RCU program cache (Model/ConcRCU.lean) over all schedules.
-/
import SonicSpec.Model.ConcRCU
import SonicSpec.Proofs.ConcPMap
set_option linter.unusedSectionVars false
set_option linter.unusedVariables false
namespace SonicSpec.Conc
open PMap
variable {κ γ : Type} [DecidableEq κ]

/-- every stored codec is the one compiled for its own key -/
def Sound (compile : κ → Option γ) (m : PMap κ γ) : Prop := ∀ k v, Mem m k v → compile k = some v

def PubOK (hash : κ → Nat) (compile : κ → Option γ) (m : PMap κ γ) : Prop :=
  Inv hash m ∧ Sound compile m

/-- program counters at which the thread owns the mutex -/
def PC.critical : PC κ γ → Bool
  | .cCheckLoad _ | .cCheck _ _ | .cCompile _ | .cLoad2 _ _ | .cStore _ _ _ | .cUnlock _ _ => true
  | _ => false

/-- what a thread knows at each program counter -/
def PCok (hash : κ → Nat) (compile : κ → Option γ) (pub : PMap κ γ) : PC κ γ → Prop
  | .gLookup _ snap => PubOK hash compile snap
  | .cCheck _ snap => snap = pub
  | .cCompile op => ∀ v, ¬ Mem pub op.key v
  | .cLoad2 op v => (∀ v', ¬ Mem pub op.key v') ∧ compile op.key = some v
  | .cStore op v m' => m' = add hash pub op.key v ∧ (∀ v', ¬ Mem pub op.key v') ∧ compile op.key = some v
  | .cUnlock op r => r = compile op.key
  | _ => True

/-- what a completed call may have returned -/
def ResOK (compile : κ → Option γ) (op : Op κ) (r : Option γ) : Prop :=
  match op with
  | .get k => r = none ∨ r = compile k
  | .compute k => r = compile k
  | .find k => r = compile k

structure RInv (hash : κ → Nat) (compile : κ → Option γ) (s : State κ γ) : Prop where
  pub : PubOK hash compile s.pub
  lock : ∀ t, (s.threads t).pc.critical = true ↔ s.mutex = some t
  pcs : ∀ t, PCok hash compile s.pub (s.threads t).pc
  dones : ∀ t op r, (op, r) ∈ (s.threads t).done → ResOK compile op r

theorem PCok_indep (hash : κ → Nat) (compile : κ → Option γ) (pub pub' : PMap κ γ) (pc : PC κ γ)
    (h : pc.critical = false) (hp : PCok hash compile pub pc) : PCok hash compile pub' pc := by
  cases pc <;> simp [PC.critical] at h <;> simp_all [PCok]

theorem rinv_init (hash : κ → Nat) (compile : κ → Option γ) (e : Nat) (progs : Tid → List (Op κ)) :
    RInv hash compile (init e progs : State κ γ) := by
  refine ⟨⟨inv_empty hash e, ?_⟩, ?_, ?_, ?_⟩
  · intro k v h
    exact absurd h (mem_empty _ k v)
  · intro t
    simp [init, PC.critical]
  · intro t
    simp [init, PCok]
  · intro t op r h
    simp [init] at h

/-- the generic frame rule: thread `t` moves to `th'`, possibly taking/releasing the mutex and -
    only while it owns the mutex - publishing a new table -/
theorem rinv_upd (hash : κ → Nat) (compile : κ → Option γ) (s : State κ γ) (h : RInv hash compile s)
    (t : Tid) (th' : Thread κ γ) (pub' : PMap κ γ) (mx' : Option Tid) (cs' : List κ)
    (hpub : PubOK hash compile pub')
    (hmx : mx' = s.mutex ∨ (s.mutex = none ∧ mx' = some t) ∨ (s.mutex = some t ∧ mx' = none))
    (hcrit : th'.pc.critical = true ↔ mx' = some t)
    (hpc : PCok hash compile pub' th'.pc)
    (hch : pub' = s.pub ∨ s.mutex = some t)
    (hdone : ∀ op r, (op, r) ∈ th'.done → ResOK compile op r) :
    RInv hash compile (s.upd t th' pub' mx' cs') := by
  refine ⟨hpub, ?_, ?_, ?_⟩
  · intro t'
    simp only [State.upd]
    by_cases htt : t' = t
    · subst htt
      simp only [if_true]
      exact hcrit
    · simp only [if_neg htt]
      rw [h.lock t']
      rcases hmx with hmx | ⟨h1, h2⟩ | ⟨h1, h2⟩
      · rw [hmx]
      · rw [h1, h2]
        constructor
        · intro hh; cases hh
        · intro hh; cases hh; exact absurd rfl htt
      · rw [h1, h2]
        constructor
        · intro hh; cases hh; exact absurd rfl htt
        · intro hh; cases hh
  · intro t'
    simp only [State.upd]
    by_cases htt : t' = t
    · subst htt
      simp only [if_true]
      exact hpc
    · simp only [if_neg htt]
      rcases hch with hch | hch
      · rw [hch]
        exact h.pcs t'
      · have hnc : (s.threads t').pc.critical = false := by
          cases hc : (s.threads t').pc.critical with
          | false => rfl
          | true =>
            have := (h.lock t').1 hc
            rw [hch] at this
            cases this
            exact absurd rfl htt
        exact PCok_indep hash compile s.pub pub' _ hnc (h.pcs t')
  · intro t' op r
    simp only [State.upd]
    by_cases htt : t' = t
    · subst htt
      simp only [if_true]
      exact hdone op r
    · simp only [if_neg htt]
      exact h.dones t' op r

theorem pubok_get (hash : κ → Nat) (compile : κ → Option γ) (m : PMap κ γ)
    (h : PubOK hash compile m) (k : κ) (v : γ) (hg : get hash m k = some v) : compile k = some v :=
  h.2 k v ((get_iff hash m h.1.1 k v).1 hg)

theorem rinv_step (hash : κ → Nat) (compile : κ → Option γ) (s : State κ γ) (h : RInv hash compile s)
    (t : Tid) : RInv hash compile (step hash compile s t) := by
  have hlock := h.lock t
  have hpcs := h.pcs t
  have hd := h.dones t
  unfold step
  simp only
  cases hpc : (s.threads t).pc with
  | idle =>
    rw [hpc] at hlock
    simp only
    cases htodo : (s.threads t).todo with
    | nil => exact h
    | cons op rest =>
      simp only
      refine rinv_upd hash compile s h t _ _ _ _ h.pub (Or.inl rfl) ?_ ?_ (Or.inl rfl) hd
      · simp only [PC.critical] at hlock
        rw [← hlock]
        cases op <;> simp [startPC, PC.critical]
      · cases op <;> simp [startPC, PCok]
  | gLoad op =>
    rw [hpc] at hlock
    simp only
    refine rinv_upd hash compile s h t _ _ _ _ h.pub (Or.inl rfl) ?_ ?_ (Or.inl rfl) hd
    · simpa [Thread.goto, PC.critical] using hlock
    · simpa [Thread.goto, PCok] using h.pub
  | gLookup op snap =>
    rw [hpc] at hlock hpcs
    simp only [PCok] at hpcs
    simp only [PC.critical] at hlock
    simp only
    cases hg : get hash snap op.key with
    | some v =>
      simp only
      refine rinv_upd hash compile s h t _ _ _ _ h.pub (Or.inl rfl) ?_ ?_ (Or.inl rfl) ?_
      · simpa [Thread.finish, PC.critical] using hlock
      · simp [Thread.finish, PCok]
      · intro op' r hm
        simp only [Thread.finish, List.mem_cons, Prod.mk.injEq] at hm
        rcases hm with ⟨h1, h2⟩ | hm
        · subst h1; subst h2
          have := pubok_get hash compile snap hpcs op'.key v hg
          cases op' <;> simp [ResOK, Op.key] at this ⊢ <;> simp [this]
        · exact hd op' r hm
    | none =>
      simp only
      cases op with
      | get k =>
        simp only
        refine rinv_upd hash compile s h t _ _ _ _ h.pub (Or.inl rfl) ?_ ?_ (Or.inl rfl) ?_
        · simpa [Thread.finish, PC.critical] using hlock
        · simp [Thread.finish, PCok]
        · intro op' r hm
          simp only [Thread.finish, List.mem_cons, Prod.mk.injEq] at hm
          rcases hm with ⟨h1, h2⟩ | hm
          · subst h1; subst h2
            simp [ResOK]
          · exact hd op' r hm
      | compute k =>
        simp only
        refine rinv_upd hash compile s h t _ _ _ _ h.pub (Or.inl rfl) ?_ ?_ (Or.inl rfl) hd
        · simpa [Thread.goto, PC.critical] using hlock
        · simp [Thread.goto, PCok]
      | find k =>
        simp only
        refine rinv_upd hash compile s h t _ _ _ _ h.pub (Or.inl rfl) ?_ ?_ (Or.inl rfl) hd
        · simpa [Thread.goto, PC.critical] using hlock
        · simp [Thread.goto, PCok]
  | cLock op =>
    rw [hpc] at hlock
    simp only [PC.critical] at hlock
    simp only
    cases hmx : s.mutex with
    | some t' => exact h
    | none =>
      simp only
      refine rinv_upd hash compile s h t _ _ _ _ h.pub (Or.inr (Or.inl ⟨hmx, rfl⟩)) ?_ ?_ (Or.inl rfl) hd
      · simp [Thread.goto, PC.critical]
      · simp [Thread.goto, PCok]
  | cCheckLoad op =>
    rw [hpc] at hlock
    simp only [PC.critical] at hlock
    simp only
    refine rinv_upd hash compile s h t _ _ _ _ h.pub (Or.inl rfl) ?_ ?_ (Or.inl rfl) hd
    · simpa [Thread.goto, PC.critical] using hlock
    · simp [Thread.goto, PCok]
  | cCheck op snap =>
    rw [hpc] at hlock hpcs
    simp only [PCok] at hpcs
    simp only [PC.critical] at hlock
    subst hpcs
    simp only
    cases hg : get hash s.pub op.key with
    | some v =>
      simp only
      refine rinv_upd hash compile s h t _ _ _ _ h.pub (Or.inl rfl) ?_ ?_ (Or.inl rfl) hd
      · simpa [Thread.goto, PC.critical] using hlock
      · simp only [Thread.goto, PCok]
        exact (pubok_get hash compile s.pub h.pub op.key v hg).symm
    | none =>
      simp only
      refine rinv_upd hash compile s h t _ _ _ _ h.pub (Or.inl rfl) ?_ ?_ (Or.inl rfl) hd
      · simpa [Thread.goto, PC.critical] using hlock
      · simp only [Thread.goto, PCok]
        exact (get_none_iff hash s.pub h.pub.1.1 op.key).1 hg
  | cCompile op =>
    rw [hpc] at hlock hpcs
    simp only [PCok] at hpcs
    simp only [PC.critical] at hlock
    simp only
    cases hc : compile op.key with
    | some v =>
      simp only
      refine rinv_upd hash compile s h t _ _ _ _ h.pub (Or.inl rfl) ?_ ?_ (Or.inl rfl) hd
      · simpa [Thread.goto, PC.critical] using hlock
      · simp only [Thread.goto, PCok]
        exact ⟨hpcs, hc⟩
    | none =>
      simp only
      refine rinv_upd hash compile s h t _ _ _ _ h.pub (Or.inl rfl) ?_ ?_ (Or.inl rfl) hd
      · simpa [Thread.goto, PC.critical] using hlock
      · simp only [Thread.goto, PCok]
        exact hc.symm
  | cLoad2 op v =>
    rw [hpc] at hlock hpcs
    simp only [PCok] at hpcs
    simp only [PC.critical] at hlock
    simp only
    refine rinv_upd hash compile s h t _ _ _ _ h.pub (Or.inl rfl) ?_ ?_ (Or.inl rfl) hd
    · simpa [Thread.goto, PC.critical] using hlock
    · simp only [Thread.goto, PCok]
      exact ⟨trivial, hpcs.1, hpcs.2⟩
  | cStore op v m' =>
    rw [hpc] at hlock hpcs
    simp only [PCok] at hpcs
    simp only [PC.critical] at hlock
    simp only
    obtain ⟨hm', hfresh, hcv⟩ := hpcs
    obtain ⟨hinv, hn, hmem⟩ := add_spec hash s.pub h.pub.1 op.key v hfresh
    have hmx : s.mutex = some t := hlock.1 trivial
    refine rinv_upd hash compile s h t _ _ _ _ ?_ (Or.inl rfl) ?_ ?_ (Or.inr hmx) hd
    · subst hm'
      refine ⟨hinv, ?_⟩
      intro k' v' hk
      rcases (hmem k' v').1 hk with ⟨h1, h2⟩ | hk
      · subst h1; subst h2; exact hcv
      · exact h.pub.2 k' v' hk
    · simpa [Thread.goto, PC.critical] using hlock
    · simp only [Thread.goto, PCok]
      exact hcv.symm
  | cUnlock op r =>
    rw [hpc] at hlock hpcs
    simp only [PCok] at hpcs
    simp only [PC.critical] at hlock
    simp only
    have hmx : s.mutex = some t := hlock.1 trivial
    refine rinv_upd hash compile s h t _ _ _ _ h.pub (Or.inr (Or.inr ⟨hmx, rfl⟩)) ?_ ?_ (Or.inl rfl) ?_
    · simp [Thread.finish, PC.critical]
    · simp [Thread.finish, PCok]
    · intro op' r' hm
      simp only [Thread.finish, List.mem_cons, Prod.mk.injEq] at hm
      rcases hm with ⟨h1, h2⟩ | hm
      · subst h1; subst h2
        cases op' <;> simp [ResOK, Op.key] at hpcs ⊢ <;> simp [hpcs]
      · exact hd op' r' hm

theorem rinv_run (hash : κ → Nat) (compile : κ → Option γ) (sched : List Tid) :
    ∀ (s : State κ γ), RInv hash compile s → RInv hash compile (run hash compile s sched) := by
  induction sched with
  | nil => intro s h; exact h
  | cons t rest ih =>
    intro s h
    exact ih _ (rinv_step hash compile s h t)

/-! ### every successfully compiled key goes through the compiler once -/

/-- the thread has compiled `k` and not yet published it -/
def PC.inflight (k : κ) : PC κ γ → Prop
  | .cLoad2 op _ => op.key = k
  | .cStore op _ _ => op.key = k
  | _ => False

def CInv (compile : κ → Option γ) (s : State κ γ) : Prop :=
  ∀ k, compile k ≠ none →
    (s.compiles.count k = 0 ∧ (∀ v, ¬ Mem s.pub k v) ∧ ∀ t, ¬ (s.threads t).pc.inflight k) ∨
    (s.compiles.count k = 1 ∧ ((∃ v, Mem s.pub k v) ∨ ∃ t, (s.threads t).pc.inflight k))

theorem inflight_critical (k : κ) (pc : PC κ γ) (h : pc.inflight k) : pc.critical = true := by
  cases pc <;> simp [PC.inflight] at h <;> rfl

theorem cinv_frame (compile : κ → Option γ) (s : State κ γ) (h : CInv compile s)
    (t : Tid) (th' : Thread κ γ) (pub' : PMap κ γ) (mx' : Option Tid)
    (hmem : ∀ k v, Mem pub' k v ↔ Mem s.pub k v)
    (hin : ∀ k, th'.pc.inflight k ↔ (s.threads t).pc.inflight k) :
    CInv compile (s.upd t th' pub' mx' s.compiles) := by
  intro k hk
  have hthr : ∀ t', ((s.upd t th' pub' mx' s.compiles).threads t').pc.inflight k ↔
      (s.threads t').pc.inflight k := by
    intro t'
    simp only [State.upd]
    by_cases htt : t' = t
    · subst htt; simp only [if_true]; exact hin k
    · simp only [if_neg htt]
  rcases h k hk with ⟨h1, h2, h3⟩ | ⟨h1, h2⟩
  · refine Or.inl ⟨h1, ?_, ?_⟩
    · intro v hv
      exact h2 v ((hmem k v).1 hv)
    · intro t' ht'
      exact h3 t' ((hthr t').1 ht')
  · refine Or.inr ⟨h1, ?_⟩
    rcases h2 with ⟨v, hv⟩ | ⟨t', ht'⟩
    · exact Or.inl ⟨v, (hmem k v).2 hv⟩
    · exact Or.inr ⟨t', (hthr t').2 ht'⟩

theorem cinv_init (compile : κ → Option γ) (e : Nat) (progs : Tid → List (Op κ)) :
    CInv compile (init e progs : State κ γ) := by
  intro k _
  refine Or.inl ⟨by simp [init], ?_, ?_⟩
  · intro v hv
    exact mem_empty _ k v hv
  · intro t ht
    simp [init, PC.inflight] at ht

theorem cinv_step (hash : κ → Nat) (compile : κ → Option γ) (s : State κ γ) (hr : RInv hash compile s)
    (h : CInv compile s) (t : Tid) : CInv compile (step hash compile s t) := by
  have hlock := hr.lock t
  have hpcs := hr.pcs t
  unfold step
  simp only
  cases hpc : (s.threads t).pc with
  | idle =>
    simp only
    cases htodo : (s.threads t).todo with
    | nil => exact h
    | cons op rest =>
      simp only
      refine cinv_frame compile s h t _ _ _ (fun _ _ => Iff.rfl) ?_
      intro k
      rw [hpc]
      cases op <;> simp [startPC, PC.inflight]
  | gLoad op =>
    simp only
    refine cinv_frame compile s h t _ _ _ (fun _ _ => Iff.rfl) ?_
    intro k; rw [hpc]; simp [Thread.goto, PC.inflight]
  | gLookup op snap =>
    simp only
    cases hg : get hash snap op.key with
    | some v =>
      simp only
      refine cinv_frame compile s h t _ _ _ (fun _ _ => Iff.rfl) ?_
      intro k; rw [hpc]; simp [Thread.finish, PC.inflight]
    | none =>
      simp only
      cases op with
      | get k0 =>
        simp only
        refine cinv_frame compile s h t _ _ _ (fun _ _ => Iff.rfl) ?_
        intro k; rw [hpc]; simp [Thread.finish, PC.inflight]
      | compute k0 =>
        simp only
        refine cinv_frame compile s h t _ _ _ (fun _ _ => Iff.rfl) ?_
        intro k; rw [hpc]; simp [Thread.goto, PC.inflight]
      | find k0 =>
        simp only
        refine cinv_frame compile s h t _ _ _ (fun _ _ => Iff.rfl) ?_
        intro k; rw [hpc]; simp [Thread.goto, PC.inflight]
  | cLock op =>
    simp only
    cases hmx : s.mutex with
    | some t' => exact h
    | none =>
      simp only
      refine cinv_frame compile s h t _ _ _ (fun _ _ => Iff.rfl) ?_
      intro k; rw [hpc]; simp [Thread.goto, PC.inflight]
  | cCheckLoad op =>
    simp only
    refine cinv_frame compile s h t _ _ _ (fun _ _ => Iff.rfl) ?_
    intro k; rw [hpc]; simp [Thread.goto, PC.inflight]
  | cCheck op snap =>
    simp only
    cases hg : get hash snap op.key with
    | some v =>
      simp only
      refine cinv_frame compile s h t _ _ _ (fun _ _ => Iff.rfl) ?_
      intro k; rw [hpc]; simp [Thread.goto, PC.inflight]
    | none =>
      simp only
      refine cinv_frame compile s h t _ _ _ (fun _ _ => Iff.rfl) ?_
      intro k; rw [hpc]; simp [Thread.goto, PC.inflight]
  | cCompile op =>
    rw [hpc] at hlock hpcs
    simp only [PCok] at hpcs
    simp only [PC.critical] at hlock
    have hmx : s.mutex = some t := hlock.1 trivial
    -- nobody has `op.key` in flight: an in-flight thread owns the mutex, and the owner is `t`
    have hnoin : ∀ k t', ¬ (t' ≠ t ∧ (s.threads t').pc.inflight k) := by
      intro k t' ⟨hne, hi⟩
      have := (hr.lock t').1 (inflight_critical k _ hi)
      rw [hmx] at this
      cases this
      exact hne rfl
    simp only
    have hothers : ∀ (th' : Thread κ γ) k cs t', t' ≠ t →
        (((s.upd t th' s.pub s.mutex cs).threads t').pc.inflight k ↔ (s.threads t').pc.inflight k) := by
      intro th' k cs t' hne
      simp [State.upd, hne]
    have hself : ∀ (th' : Thread κ γ) cs, ((s.upd t th' s.pub s.mutex cs).threads t) = th' := by
      intro th' cs
      simp [State.upd]
    have key : ∀ (th' : Thread κ γ), (∀ k, th'.pc.inflight k → k = op.key ∧ compile op.key ≠ none) →
        (compile op.key ≠ none → th'.pc.inflight op.key) →
        CInv compile (s.upd t th' s.pub s.mutex (op.key :: s.compiles)) := by
      intro th' hin1 hin2 k hk
      by_cases hkk : k = op.key
      · subst hkk
        rcases h op.key hk with ⟨h1, _, _⟩ | ⟨_, h2⟩
        · refine Or.inr ⟨?_, Or.inr ⟨t, ?_⟩⟩
          · simp only [State.upd]
            rw [List.count_cons_self, h1]
          · rw [hself]
            exact hin2 hk
        · exfalso
          rcases h2 with ⟨v, hv⟩ | ⟨t', ht'⟩
          · exact hpcs v hv
          · by_cases hne : t' = t
            · subst hne
              rw [hpc] at ht'
              simp [PC.inflight] at ht'
            · exact hnoin _ t' ⟨hne, ht'⟩
      · have hcount : (op.key :: s.compiles).count k = s.compiles.count k := by
          rw [List.count_cons_of_ne (fun hh => hkk hh.symm)]
        have hth : ∀ t', ((s.upd t th' s.pub s.mutex (op.key :: s.compiles)).threads t').pc.inflight k ↔
            (s.threads t').pc.inflight k := by
          intro t'
          by_cases hne : t' = t
          · subst hne
            rw [hself, hpc]
            constructor
            · intro hh; exact absurd (hin1 k hh).1 hkk
            · intro hh; simp [PC.inflight] at hh
          · exact hothers th' k _ t' hne
        rcases h k hk with ⟨h1, h2, h3⟩ | ⟨h1, h2⟩
        · exact Or.inl ⟨by simp only [State.upd]; rw [hcount]; exact h1, h2, fun t' ht' => h3 t' ((hth t').1 ht')⟩
        · refine Or.inr ⟨by simp only [State.upd]; rw [hcount]; exact h1, ?_⟩
          rcases h2 with hv | ⟨t', ht'⟩
          · exact Or.inl hv
          · exact Or.inr ⟨t', (hth t').2 ht'⟩
    cases hc : compile op.key with
    | some v =>
      simp only
      refine key _ ?_ ?_
      · intro k hk
        simp only [Thread.goto, PC.inflight] at hk
        exact ⟨hk.symm, by rw [hc]; simp⟩
      · intro _
        simp [Thread.goto, PC.inflight]
    | none =>
      simp only
      refine key _ ?_ ?_
      · intro k hk
        simp [Thread.goto, PC.inflight] at hk
      · intro hh
        exact absurd hc hh
  | cLoad2 op v =>
    simp only
    refine cinv_frame compile s h t _ _ _ (fun _ _ => Iff.rfl) ?_
    intro k; rw [hpc]; simp [Thread.goto, PC.inflight]
  | cStore op v m' =>
    rw [hpc] at hlock hpcs
    simp only [PCok] at hpcs
    simp only [PC.critical] at hlock
    have hmx : s.mutex = some t := hlock.1 trivial
    obtain ⟨hm', hfresh, hcv⟩ := hpcs
    obtain ⟨_, _, hmem⟩ := add_spec hash s.pub hr.pub.1 op.key v hfresh
    subst hm'
    simp only
    intro k hk
    have hself : ((s.upd t ((s.threads t).goto (.cUnlock op (some v))) (add hash s.pub op.key v) s.mutex
        s.compiles).threads t).pc = .cUnlock op (some v) := by
      simp [State.upd, Thread.goto]
    have hothers : ∀ t', t' ≠ t →
        ((s.upd t ((s.threads t).goto (.cUnlock op (some v))) (add hash s.pub op.key v) s.mutex
          s.compiles).threads t') = s.threads t' := by
      intro t' hne
      simp [State.upd, hne]
    by_cases hkk : k = op.key
    · subst hkk
      rcases h op.key hk with ⟨_, _, h3⟩ | ⟨h1, _⟩
      · exfalso
        apply h3 t
        rw [hpc]
        simp [PC.inflight]
      · exact Or.inr ⟨h1, Or.inl ⟨v, (hmem op.key v).2 (Or.inl ⟨rfl, rfl⟩)⟩⟩
    · have hmk : ∀ v', Mem (add hash s.pub op.key v) k v' ↔ Mem s.pub k v' := by
        intro v'
        rw [hmem]
        constructor
        · rintro (⟨h1, _⟩ | h1)
          · exact absurd h1 hkk
          · exact h1
        · exact Or.inr
      have hth : ∀ t', ((s.upd t ((s.threads t).goto (.cUnlock op (some v))) (add hash s.pub op.key v) s.mutex
          s.compiles).threads t').pc.inflight k ↔ (s.threads t').pc.inflight k := by
        intro t'
        by_cases hne : t' = t
        · subst hne
          rw [hself, hpc]
          simp only [PC.inflight]
          constructor
          · intro hh; exact hh.elim
          · intro hh; exact absurd hh.symm hkk
        · rw [hothers t' hne]
      rcases h k hk with ⟨h1, h2, h3⟩ | ⟨h1, h2⟩
      · exact Or.inl ⟨h1, fun v' hv' => h2 v' ((hmk v').1 hv'), fun t' ht' => h3 t' ((hth t').1 ht')⟩
      · refine Or.inr ⟨h1, ?_⟩
        rcases h2 with ⟨v', hv'⟩ | ⟨t', ht'⟩
        · exact Or.inl ⟨v', (hmk v').2 hv'⟩
        · exact Or.inr ⟨t', (hth t').2 ht'⟩
  | cUnlock op r =>
    simp only
    refine cinv_frame compile s h t _ _ _ (fun _ _ => Iff.rfl) ?_
    intro k; rw [hpc]; simp [Thread.finish, PC.inflight]

theorem cinv_run (hash : κ → Nat) (compile : κ → Option γ) (sched : List Tid) :
    ∀ (s : State κ γ), RInv hash compile s → CInv compile s →
      CInv compile (run hash compile s sched) := by
  induction sched with
  | nil => intro s _ h; exact h
  | cons t rest ih =>
    intro s hr h
    exact ih _ (rinv_step hash compile s hr t) (cinv_step hash compile s hr h t)

/-! ### the published table only grows -/

theorem pub_mono_step (hash : κ → Nat) (compile : κ → Option γ) (s : State κ γ) (hr : RInv hash compile s)
    (t : Tid) (k : κ) (v : γ) (hm : Mem s.pub k v) : Mem (step hash compile s t).pub k v := by
  have hpcs := hr.pcs t
  unfold step
  simp only
  cases hpc : (s.threads t).pc with
  | idle =>
    simp only
    cases (s.threads t).todo <;> exact hm
  | gLoad op => exact hm
  | gLookup op snap =>
    simp only
    cases get hash snap op.key with
    | some v' => exact hm
    | none => cases op <;> exact hm
  | cLock op =>
    simp only
    cases s.mutex <;> exact hm
  | cCheckLoad op => exact hm
  | cCheck op snap =>
    simp only
    cases get hash snap op.key <;> exact hm
  | cCompile op =>
    simp only
    cases compile op.key <;> exact hm
  | cLoad2 op v' => exact hm
  | cStore op v' m' =>
    rw [hpc] at hpcs
    simp only [PCok] at hpcs
    obtain ⟨hm', hfresh, _⟩ := hpcs
    obtain ⟨_, _, hmem⟩ := add_spec hash s.pub hr.pub.1 op.key v' hfresh
    subst hm'
    simp only [State.upd]
    exact (hmem k v).2 (Or.inr hm)
  | cUnlock op r => exact hm

theorem pub_mono_run (hash : κ → Nat) (compile : κ → Option γ) (sched : List Tid) (k : κ) (v : γ) :
    ∀ (s : State κ γ), RInv hash compile s → Mem s.pub k v → Mem (run hash compile s sched).pub k v := by
  induction sched with
  | nil => intro s _ h; exact h
  | cons t rest ih =>
    intro s hr h
    exact ih _ (rinv_step hash compile s hr t) (pub_mono_step hash compile s hr t k v h)

/-! ### sync.Pool hand-off -/

def PoolInv (p : Pool) : Prop :=
  (p.free ++ p.held.map Prod.snd).Nodup ∧ ∀ o ∈ p.free ++ p.held.map Prod.snd, o < p.fresh

theorem poolinv_init : PoolInv Pool.init := by
  simp [PoolInv, Pool.init]

theorem poolinv_step (p : Pool) (h : PoolInv p) (a : PoolAct) : PoolInv (p.step a) := by
  obtain ⟨hn, hb⟩ := h
  cases a with
  | get t =>
    unfold Pool.step
    simp only
    cases hf : p.free with
    | nil =>
      rw [hf] at hn hb
      simp only [List.nil_append] at hn hb
      simp only [PoolInv, List.nil_append, List.map_cons]
      refine ⟨List.nodup_cons.2 ⟨?_, hn⟩, ?_⟩
      · intro hm
        have := hb _ hm
        omega
      · intro o ho
        rcases List.mem_cons.1 ho with ho | ho
        · omega
        · have := hb o ho
          omega
    | cons o rest =>
      rw [hf] at hn hb
      simp only [PoolInv, List.map_cons]
      have hperm : (rest ++ o :: List.map Prod.snd p.held).Perm (o :: rest ++ List.map Prod.snd p.held) :=
        List.perm_middle
      refine ⟨hperm.symm.nodup hn, ?_⟩
      intro x hx
      exact hb x ((hperm.mem_iff).1 hx)
  | put t o =>
    unfold Pool.step
    simp only
    split
    · rename_i hm
      simp only [PoolInv]
      have h1 : (List.map Prod.snd p.held).Perm (o :: List.map Prod.snd (p.held.erase (t, o))) := by
        have := (List.perm_cons_erase hm).map Prod.snd
        simpa using this
      have hperm : (p.free ++ List.map Prod.snd p.held).Perm
          (o :: p.free ++ List.map Prod.snd (p.held.erase (t, o))) := by
        have h2 : (p.free ++ List.map Prod.snd p.held).Perm
            (p.free ++ o :: List.map Prod.snd (p.held.erase (t, o))) := List.Perm.append_left _ h1
        exact h2.trans List.perm_middle
      refine ⟨hperm.nodup hn, ?_⟩
      intro x hx
      exact hb x ((hperm.mem_iff).2 hx)
    · exact ⟨hn, hb⟩
  | drop =>
    unfold Pool.step
    simp only [PoolInv, List.nil_append]
    rw [List.nodup_append] at hn
    refine ⟨hn.2.1, ?_⟩
    intro o ho
    exact hb o (List.mem_append_right _ ho)

theorem poolinv_run (acts : List PoolAct) : PoolInv (Pool.run acts) := by
  unfold Pool.run
  suffices ∀ p, PoolInv p → PoolInv (acts.foldl Pool.step p) from this _ poolinv_init
  induction acts with
  | nil => intro p h; exact h
  | cons a rest ih => intro p h; exact ih _ (poolinv_step p h a)

theorem nodup_map_snd_inj {l : List (Tid × Nat)} (h : (l.map Prod.snd).Nodup) {t1 t2 : Tid} {o : Nat}
    (h1 : (t1, o) ∈ l) (h2 : (t2, o) ∈ l) : t1 = t2 := by
  induction l with
  | nil => cases h1
  | cons a l ih =>
    simp only [List.map_cons, List.nodup_cons] at h
    rcases List.mem_cons.1 h1 with h1 | h1 <;> rcases List.mem_cons.1 h2 with h2 | h2
    · rw [← h1] at h2
      exact (Prod.mk.inj h2).1.symm
    · exfalso
      apply h.1
      rw [← h1]
      exact List.mem_map.2 ⟨(t2, o), h2, rfl⟩
    · exfalso
      apply h.1
      rw [← h2]
      exact List.mem_map.2 ⟨(t1, o), h1, rfl⟩
    · exact ih h.2 h1 h2

end SonicSpec.Conc
