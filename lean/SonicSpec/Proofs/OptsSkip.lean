/-
  Helper lemmas of the C18 work package, part 3 (core Lean only): the bracket-and-quote matching skipper
  (`Opts.skipRun`, what skipping without validation does) ends every well-formed value exactly where the
  strict parsers of Model/JsonTree.lean end it.
-/
import SonicSpec.Model.Opts
namespace SonicSpec.Opts
open SonicSpec SonicSpec.Json

/-- a byte the skipper passes over outside strings without changing state -/
def plain (c : UInt8) : Bool := c != 34 && c != 91 && c != 123 && c != 93 && c != 125

theorem skipRun_plain (d : Nat) (c : UInt8) (r : Bytes) (h : plain c = true) :
    skipRun (d + 1) false false (c :: r) = skipRun (d + 1) false false r := by
  simp only [plain, Bool.and_eq_true, bne_iff_ne, ne_eq] at h
  obtain ⟨⟨⟨⟨h1, h2⟩, h3⟩, h4⟩, h5⟩ := h
  simp [skipRun, h1, h2, h3, h4, h5]

theorem skipRun_plains (d : Nat) : ∀ (l r : Bytes), l.all plain = true →
    skipRun (d + 1) false false (l ++ r) = skipRun (d + 1) false false r
  | [], _, _ => rfl
  | c :: l, r, h => by
    simp only [List.all_cons, Bool.and_eq_true] at h
    rw [List.cons_append, skipRun_plain d c _ h.1, skipRun_plains d l r h.2]

theorem skipWs_run (d : Nat) : ∀ s, skipRun (d + 1) false false s = skipRun (d + 1) false false (skipWs s)
  | [] => rfl
  | c :: r => by
    unfold skipWs
    split
    · rename_i h
      have hp : plain c = true := by
        simp only [isSpace, Bool.or_eq_true, beq_iff_eq] at h
        rcases h with ((h | h) | h) | h <;> subst h <;> decide
      rw [skipRun_plain d c r hp]; exact skipWs_run d r
    · rfl

theorem takeDigits_spec : ∀ s d t, takeDigits s = (d, t) → s = d ++ t ∧ d.all plain = true
  | [], d, t, h => by simp [takeDigits] at h; obtain ⟨rfl, rfl⟩ := h; simp
  | c :: r, d, t, h => by
    unfold takeDigits at h
    split at h
    · rename_i hc
      cases hr : takeDigits r with
      | mk d' t' =>
        rw [hr] at h
        simp only [Prod.mk.injEq] at h
        obtain ⟨rfl, rfl⟩ := h
        have := takeDigits_spec r d' t' hr
        have hp : plain c = true := by
          simp only [isDigit, Bool.and_eq_true, decide_eq_true_eq] at hc
          simp only [plain, Bool.and_eq_true, bne_iff_ne, ne_eq]
          have h1 := UInt8.le_iff_toNat_le.mp hc.1
          have h2 := UInt8.le_iff_toNat_le.mp hc.2
          refine ⟨⟨⟨⟨?_, ?_⟩, ?_⟩, ?_⟩, ?_⟩ <;> (intro e; subst e; simp at h1 h2)
        exact ⟨by rw [this.1]; rfl, by simp [hp, this.2]⟩
    · simp only [Prod.mk.injEq] at h
      obtain ⟨rfl, rfl⟩ := h
      simp

/-- `l` is a prefix of `s` made of bytes the skipper passes over, `t` the rest -/
def Peel (s l t : Bytes) : Prop := s = l ++ t ∧ l.all plain = true

theorem Peel.nil (s : Bytes) : Peel s [] s := ⟨rfl, rfl⟩
theorem Peel.cons {s l t : Bytes} (c : UInt8) (hc : plain c = true) (h : Peel s l t) : Peel (c :: s) (c :: l) t :=
  ⟨by rw [h.1]; rfl, by simp [hc, h.2]⟩
theorem Peel.trans {s l1 t1 l2 t2 : Bytes} (h1 : Peel s l1 t1) (h2 : Peel t1 l2 t2) : Peel s (l1 ++ l2) t2 :=
  ⟨by rw [h1.1, h2.1, List.append_assoc], by simp [h1.2, h2.2]⟩
theorem Peel.digits (s : Bytes) : Peel s (takeDigits s).1 (takeDigits s).2 :=
  takeDigits_spec s _ _ rfl

theorem plain_digit (c : UInt8) (h : isDigit c = true) : plain c = true := by
  simp only [isDigit, Bool.and_eq_true, decide_eq_true_eq] at h
  simp only [plain, Bool.and_eq_true, bne_iff_ne, ne_eq]
  have h1 := UInt8.le_iff_toNat_le.mp h.1
  have h2 := UInt8.le_iff_toNat_le.mp h.2
  refine ⟨⟨⟨⟨?_, ?_⟩, ?_⟩, ?_⟩, ?_⟩ <;> (intro e; subst e; simp at h1 h2)

/-- sign -/
def numSign (s : Bytes) : Bytes × Bytes := match s with
  | 45 :: r => ([45], r)
  | _ => ([], s)
theorem numSign_peel (s : Bytes) : Peel s (numSign s).1 (numSign s).2 := by
  unfold numSign
  split
  · exact Peel.cons 45 (by decide) (Peel.nil _)
  · exact Peel.nil _

def numInt (s1 : Bytes) : Option (Bytes × Bytes) := match s1 with
  | 48 :: r => some ([48], r)
  | c :: r => if isDigit c then let (d, t) := takeDigits r; some (c :: d, t) else none
  | [] => none
theorem numInt_peel (s1 ip s2 : Bytes) (h : numInt s1 = some (ip, s2)) : Peel s1 ip s2 := by
  unfold numInt at h
  split at h
  · injection h with h; injection h with h1 h2; subst h1; subst h2
    exact Peel.cons 48 (by decide) (Peel.nil _)
  · split at h
    · rename_i c r _ hc
      injection h with h; injection h with h1 h2; subst h1; subst h2
      exact Peel.cons c (plain_digit c hc) (Peel.digits r)
    · cases h
  · cases h

def numFrac (s2 : Bytes) : Option (Bytes × Bytes) := match s2 with
  | 46 :: r => let (d, t) := takeDigits r; if d.isEmpty then none else some (46 :: d, t)
  | _ => some ([], s2)
theorem numFrac_peel (s2 fp s3 : Bytes) (h : numFrac s2 = some (fp, s3)) : Peel s2 fp s3 := by
  unfold numFrac at h
  split at h
  · rename_i r
    simp only at h
    split at h
    · cases h
    · injection h with h; injection h with h1 h2; subst h1; subst h2
      exact Peel.cons 46 (by decide) (Peel.digits r)
  · injection h with h; injection h with h1 h2; subst h1; subst h2
    exact Peel.nil _

def numExp (s3 : Bytes) : Option (Bytes × Bytes) := match s3 with
  | c :: r =>
    if c == 101 || c == 69 then
      let (sg, r2) : Bytes × Bytes := match r with
        | 43 :: r' => ([43], r')
        | 45 :: r' => ([45], r')
        | _ => ([], r)
      let (d, t) := takeDigits r2
      if d.isEmpty then none else some (c :: (sg ++ d), t)
    else some ([], s3)
  | [] => some ([], s3)
theorem numExp_peel (s3 ep s4 : Bytes) (h : numExp s3 = some (ep, s4)) : Peel s3 ep s4 := by
  unfold numExp at h
  split at h
  · rename_i c r
    split at h
    · rename_i hc
      have hpc : plain c = true := by
        simp only [Bool.or_eq_true, beq_iff_eq] at hc
        rcases hc with rfl | rfl <;> decide
      simp only at h
      split at h
      · rename_i r'
        split at h
        · cases h
        · injection h with h; injection h with h1 h2; subst h1; subst h2
          exact Peel.cons c hpc (Peel.trans (Peel.cons 43 (by decide) (Peel.nil r')) (Peel.digits r'))
      · rename_i r'
        split at h
        · cases h
        · injection h with h; injection h with h1 h2; subst h1; subst h2
          exact Peel.cons c hpc (Peel.trans (Peel.cons 45 (by decide) (Peel.nil r')) (Peel.digits r'))
      · split at h
        · cases h
        · injection h with h; injection h with h1 h2; subst h1; subst h2
          exact Peel.cons c hpc (Peel.trans (Peel.nil _) (Peel.digits _))
    · injection h with h; injection h with h1 h2; subst h1; subst h2
      exact Peel.nil _
  · injection h with h; injection h with h1 h2; subst h1; subst h2
    exact Peel.nil _

theorem scanNumber_eq (s : Bytes) : scanNumber s =
    (match numInt (numSign s).2 with
     | none => none
     | some (ip, s2) =>
       match numFrac s2 with
       | none => none
       | some (fp, s3) =>
         match numExp s3 with
         | none => none
         | some (ep, s4) => some ((numSign s).1 ++ ip ++ fp ++ ep, s4)) := by
  unfold scanNumber numSign numInt numFrac numExp
  rfl

theorem scanNumber_spec (s lit t : Bytes) (h : scanNumber s = some (lit, t)) : Peel s lit t := by
  rw [scanNumber_eq] at h
  cases h1 : numInt (numSign s).2 with
  | none => simp [h1] at h
  | some p1 =>
    obtain ⟨ip, s2⟩ := p1
    simp only [h1] at h
    cases h2 : numFrac s2 with
    | none => simp [h2] at h
    | some p2 =>
      obtain ⟨fp, s3⟩ := p2
      simp only [h2] at h
      cases h3 : numExp s3 with
      | none => simp [h3] at h
      | some p3 =>
        obtain ⟨ep, s4⟩ := p3
        simp only [h3] at h
        injection h with h; injection h with e1 e2; subst e1; subst e2
        exact (((numSign_peel s).trans (numInt_peel _ _ _ h1)).trans (numFrac_peel _ _ _ h2)).trans (numExp_peel _ _ _ h3)

theorem isHex_instr (c : UInt8) (h : isHex c = true) : c ≠ 92 ∧ c ≠ 34 := by
  simp only [isHex, isDigit, Bool.or_eq_true, Bool.and_eq_true, decide_eq_true_eq] at h
  constructor <;> (intro e; subst e; revert h; decide)

theorem skipRun_instr (d : Nat) (c : UInt8) (r : Bytes) (h1 : c ≠ 92) (h2 : c ≠ 34) :
    skipRun (d + 1) true false (c :: r) = skipRun (d + 1) true false r := by
  simp [skipRun, h1, h2]

theorem skipRun_bs (d : Nat) (x : UInt8) (r : Bytes) :
    skipRun (d + 1) true false (92 :: x :: r) = skipRun (d + 1) true false r := by
  simp [skipRun]

theorem skipRun_close (d : Nat) (r : Bytes) :
    skipRun (d + 1) true false (34 :: r) = skipRun (d + 1) false false r := by
  simp [skipRun]

theorem scanString_run (d : Nat) : ∀ (s body t : Bytes), scanString s = some (body, t) →
    skipRun (d + 1) true false s = skipRun (d + 1) false false t := by
  intro s
  fun_induction scanString s with
  | case1 => intro body t h; cases h
  | case2 r => intro body t h; injection h with h; injection h with h1 h2; subst h2; exact skipRun_close d r
  | case3 a b c e r hh ih =>
    intro body t h
    simp only [Option.map_eq_some_iff] at h
    obtain ⟨⟨b', t'⟩, hr, heq⟩ := h
    injection heq with h1 h2; subst h2
    simp only [Bool.and_eq_true] at hh
    obtain ⟨⟨⟨ha, hb⟩, hc⟩, he⟩ := hh
    have := ih b' t' hr
    rw [← this]
    rw [skipRun_bs, skipRun_instr d a _ (isHex_instr a ha).1 (isHex_instr a ha).2,
        skipRun_instr d b _ (isHex_instr b hb).1 (isHex_instr b hb).2,
        skipRun_instr d c _ (isHex_instr c hc).1 (isHex_instr c hc).2,
        skipRun_instr d e _ (isHex_instr e he).1 (isHex_instr e he).2]
  | case4 => intro body t h; cases h
  | case5 e r _ hh ih =>
    intro body t h
    simp only [Option.map_eq_some_iff] at h
    obtain ⟨⟨b', t'⟩, hr, heq⟩ := h
    injection heq with h1 h2; subst h2
    rw [← ih b' t' hr]
    exact skipRun_bs d e r
  | case6 => intro body t h; cases h
  | case7 => intro body t h; cases h
  | case8 c r h34 _ _ hh ih =>
    intro body t h
    simp only [Option.map_eq_some_iff] at h
    obtain ⟨⟨b', t'⟩, hr, heq⟩ := h
    injection heq with h1 h2; subst h2
    rw [← ih b' t' hr]
    simp only [Bool.or_eq_true, decide_eq_true_eq, beq_iff_eq, not_or] at hh
    exact skipRun_instr d c r hh.2 (fun e => h34 e)
theorem skipRun_open (d : Nat) (c : UInt8) (r : Bytes) (h : c = 91 ∨ c = 123) :
    skipRun (d + 1) false false (c :: r) = skipRun (d + 2) false false r := by
  rcases h with rfl | rfl <;> simp [skipRun]

theorem skipRun_closeb (d : Nat) (c : UInt8) (r : Bytes) (h : c = 93 ∨ c = 125) :
    skipRun (d + 1) false false (c :: r) = skipRun d false false r := by
  rcases h with rfl | rfl <;> simp [skipRun]

theorem skipRun_quote (d : Nat) (r : Bytes) :
    skipRun (d + 1) false false (34 :: r) = skipRun (d + 1) true false r := by
  simp [skipRun]

theorem parseVal_zero (s : Bytes) : parseVal 0 s = none := by unfold parseVal; rfl
theorem parseElems_zero (s : Bytes) : parseElems 0 s = none := by unfold parseElems; rfl
theorem parseMembers_zero (s : Bytes) : parseMembers 0 s = none := by unfold parseMembers; rfl

/-- the three parsers of Model/JsonTree.lean and the skipper agree on where a well-formed value ends -/
def SkipAgrees (n : Nat) : Prop :=
  (∀ d s v r, parseVal n s = some (v, r) → skipRun (d + 1) false false s = skipRun (d + 1) false false r) ∧
  (∀ d s xs r, parseElems n s = some (xs, r) → skipRun (d + 1) false false s = skipRun d false false r) ∧
  (∀ d s kvs r, parseMembers n s = some (kvs, r) → skipRun (d + 1) false false s = skipRun d false false r)

theorem skipAgrees : ∀ n, SkipAgrees n
  | 0 => ⟨fun _ s _ _ h => by simp [parseVal_zero] at h, fun _ s _ _ h => by simp [parseElems_zero] at h,
          fun _ s _ _ h => by simp [parseMembers_zero] at h⟩
  | n + 1 => by
    obtain ⟨ihV, ihE, ihM⟩ := skipAgrees n
    refine ⟨?_, ?_, ?_⟩
    · intro d s v r h
      unfold parseVal at h
      split at h
      · injection h with h; injection h with _ h2; subst h2
        exact skipRun_plains d [110, 117, 108, 108] _ (by decide)
      · injection h with h; injection h with _ h2; subst h2
        exact skipRun_plains d [116, 114, 117, 101] _ (by decide)
      · injection h with h; injection h with _ h2; subst h2
        exact skipRun_plains d [102, 97, 108, 115, 101] _ (by decide)
      · rename_i r0
        simp only [Option.map_eq_some_iff] at h
        obtain ⟨⟨b', t'⟩, hr, heq⟩ := h
        injection heq with _ h2; subst h2
        rw [skipRun_quote, scanString_run d r0 b' t' hr]
      · rename_i r0
        rw [skipRun_open d 91 r0 (Or.inl rfl), skipWs_run (d + 1) r0]
        split at h
        · rename_i t0 heq
          injection h with h; injection h with _ h2; subst h2
          rw [heq, skipRun_closeb (d + 1) 93 _ (Or.inl rfl)]
        · simp only [Option.map_eq_some_iff] at h
          obtain ⟨⟨xs', t'⟩, hr, heq⟩ := h
          injection heq with _ h2; subst h2
          exact ihE (d + 1) _ xs' t' hr
      · rename_i r0
        rw [skipRun_open d 123 r0 (Or.inr rfl), skipWs_run (d + 1) r0]
        split at h
        · rename_i t0 heq
          injection h with h; injection h with _ h2; subst h2
          rw [heq, skipRun_closeb (d + 1) 125 _ (Or.inr rfl)]
        · simp only [Option.map_eq_some_iff] at h
          obtain ⟨⟨kvs', t'⟩, hr, heq⟩ := h
          injection heq with _ h2; subst h2
          exact ihM (d + 1) _ kvs' t' hr
      · simp only [Option.map_eq_some_iff] at h
        obtain ⟨⟨l', t'⟩, hr, heq⟩ := h
        injection heq with _ h2; subst h2
        have hp := scanNumber_spec s l' t' hr
        rw [hp.1]
        exact skipRun_plains d l' t' hp.2
    · intro d s xs r h
      unfold parseElems at h
      split at h
      · cases h
      · rename_i v r1 hv
        rw [ihV d s v r1 hv, skipWs_run d r1]
        split at h
        · rename_i t0 heq
          simp only [Option.map_eq_some_iff] at h
          obtain ⟨⟨xs', t'⟩, hr, heq2⟩ := h
          injection heq2 with _ h2; subst h2
          rw [heq, skipRun_plain d 44 t0 (by decide), skipWs_run d t0]
          exact ihE d _ xs' t' hr
        · rename_i t0 heq
          injection h with h; injection h with _ h2; subst h2
          rw [heq, skipRun_closeb d 93 _ (Or.inl rfl)]
        · cases h
    · intro d s kvs r h
      unfold parseMembers at h
      split at h
      · rename_i r0
        split at h
        · cases h
        · rename_i k r1 hk
          rw [skipRun_quote, scanString_run d r0 k r1 hk, skipWs_run d r1]
          split at h
          · rename_i r2 heq
            rw [heq, skipRun_plain d 58 r2 (by decide), skipWs_run d r2]
            split at h
            · cases h
            · rename_i v r3 hv
              rw [ihV d _ v r3 hv, skipWs_run d r3]
              split at h
              · rename_i t0 heq3
                simp only [Option.map_eq_some_iff] at h
                obtain ⟨⟨kvs', t'⟩, hr, heq2⟩ := h
                injection heq2 with _ h2; subst h2
                rw [heq3, skipRun_plain d 44 t0 (by decide), skipWs_run d t0]
                exact ihM d _ kvs' t' hr
              · rename_i t0 heq3
                injection h with h; injection h with _ h2; subst h2
                rw [heq3, skipRun_closeb d 125 _ (Or.inr rfl)]
              · cases h
          · cases h
      · cases h


/-- top level: where the strict parser ends an array / object, the bracket-matching skipper ends it too -/
theorem skipContainer_agrees (n : Nat) (c : UInt8) (r0 : Bytes) (v : JVal) (r : Bytes) (hc : c = 91 ∨ c = 123)
    (h : parseVal n (c :: r0) = some (v, r)) : skipRun 1 false false r0 = some r := by
  cases n with
  | zero => simp [parseVal_zero] at h
  | succ n =>
    obtain ⟨_, ihE, ihM⟩ := skipAgrees n
    have hdone : ∀ t, skipRun 0 false false t = some t := fun t => by simp [skipRun]
    rcases hc with rfl | rfl
    · unfold parseVal at h
      simp only at h
      rw [skipWs_run 0 r0]
      split at h
      · rename_i t0 heq
        injection h with h; injection h with _ h2; subst h2
        rw [heq, skipRun_closeb 0 93 _ (Or.inl rfl), hdone]
      · simp only [Option.map_eq_some_iff] at h
        obtain ⟨⟨xs', t'⟩, hr, heq⟩ := h
        injection heq with _ h2; subst h2
        rw [ihE 0 _ xs' t' hr, hdone]
    · unfold parseVal at h
      simp only at h
      rw [skipWs_run 0 r0]
      split at h
      · rename_i t0 heq
        injection h with h; injection h with _ h2; subst h2
        rw [heq, skipRun_closeb 0 125 _ (Or.inr rfl), hdone]
      · simp only [Option.map_eq_some_iff] at h
        obtain ⟨⟨kvs', t'⟩, hr, heq⟩ := h
        injection heq with _ h2; subst h2
        rw [ihM 0 _ kvs' t' hr, hdone]

end SonicSpec.Opts
