/-
  C14 helper lemmas, part 7: `match_key`'s piecewise unescape-and-compare loop against
  "decode the key literal, then compare" (`unescapeKey`).
-/
import SonicSpec.Proofs.SearchBasic
namespace SonicSpec.Search
open SonicSpec SonicSpec.Json

theorem utf8enc_ne_nil (n : Nat) : utf8enc n ≠ [] := by
  unfold utf8enc; split <;> (try split) <;> (try split) <;> simp

theorem unescapeKey_cons_plain {c : UInt8} (hc : c ≠ 92) (rest : Bytes) :
    unescapeKey (c :: rest) = c :: unescapeKey rest := by
  unfold unescapeKey
  rw [codeUnits.eq_def]
  split
  · rename_i heq; cases heq
  · rename_i heq; exact absurd (List.cons.inj heq).1 hc
  · rename_i heq; exact absurd (List.cons.inj heq).1 hc
  · rename_i c' r' _ _ heq
    obtain ⟨rfl, rfl⟩ := List.cons.inj heq
    simp [encodeUnits]

theorem codeUnits_u {a b c d : UInt8} (h : (isHex a && isHex b && isHex c && isHex d) = true) (r : Bytes) :
    codeUnits (92 :: 117 :: a :: b :: c :: d :: r) = CU.u (hex4 a b c d) :: codeUnits r := by
  rw [codeUnits.eq_def]; simp [h]

/-- one escape: what `unescape` decodes is what the two-pass decoder produces for it -/
theorem unescapeKey_cons_escape {rest dec rest' : Bytes} (h : unescapeOne rest = some (dec, rest')) :
    unescapeKey (92 :: rest) = dec ++ unescapeKey rest' ∧ dec ≠ [] := by
  unfold unescapeOne at h
  split at h
  · cases h
  · rename_i a b c d r
    split at h
    · rename_i hx
      simp only at h
      split at h
      · rename_i hns
        cases h
        refine ⟨?_, utf8enc_ne_nil _⟩
        unfold unescapeKey
        rw [codeUnits_u hx]
        have h1 : ¬ (55296 ≤ hex4 a b c d ∧ hex4 a b c d < 56320) := by omega
        have h2 : ¬ (56320 ≤ hex4 a b c d ∧ hex4 a b c d < 57344) := by omega
        simp [encodeUnits, h1, h2]
      · rename_i hs
        split at h
        · cases h
        · rename_i hhi
          split at h
          · rename_i e f g hh r'
            split at h
            · rename_i hx2
              split at h
              · cases h
              · rename_i hlo
                simp only [Option.some.injEq, Prod.mk.injEq] at h
                obtain ⟨hd, hr⟩ := h
                subst hr
                rw [← hd]
                refine ⟨?_, utf8enc_ne_nil _⟩
                unfold unescapeKey
                rw [codeUnits_u hx, codeUnits_u hx2]
                have h1 : 55296 ≤ hex4 a b c d ∧ hex4 a b c d < 56320 := by omega
                have h2 : 56320 ≤ hex4 e f g hh ∧ hex4 e f g hh < 57344 := by omega
                simp [encodeUnits, h1, h2]
            · cases h
          · cases h
    · cases h
  · rename_i e r hnu
    have key : ∀ x : UInt8, e ≠ 117 → (codeUnits (92 :: e :: r) = CU.b x :: codeUnits r) →
        unescapeKey (92 :: e :: r) = [x] ++ unescapeKey r := by
      intro x _ hcu
      unfold unescapeKey
      rw [hcu]; simp [encodeUnits]
    have cu : e ≠ 117 → codeUnits (92 :: e :: r) =
        (if e == 98 then CU.b 8 else if e == 102 then .b 12 else if e == 110 then .b 10
         else if e == 114 then .b 13 else if e == 116 then .b 9 else .b e) :: codeUnits r := by
      intro he
      rw [codeUnits.eq_def]
      split
      · rename_i heq; cases heq
      · rename_i heq
        injection heq with _ h2; injection h2 with h3 _
        exact absurd h3 he
      · rename_i e' r2 _ heq
        injection heq with _ h2; injection h2 with h3 h4
        subst h3 h4; rfl
      · rename_i c' r2 _ _ hB heq
        injection heq with h1 h2
        exact (hB _ _ h1.symm h2.symm).elim
    split at h
    · rename_i he
      cases h
      have hne : e ≠ 117 := by
        intro e117; subst e117; simp at he
      refine ⟨key e hne ?_, by simp⟩
      rw [cu hne]
      simp only [Bool.or_eq_true, beq_iff_eq] at he
      rcases he with (rfl | rfl) | rfl <;> rfl
    · split at h
      · rename_i he; cases h
        have e98 : e = 98 := by simpa using he
        subst e98
        exact ⟨key 8 (by decide) (by rw [cu (by decide)]; rfl), by simp⟩
      · split at h
        · rename_i he; cases h
          have e' : e = 102 := by simpa using he
          subst e'
          exact ⟨key 12 (by decide) (by rw [cu (by decide)]; rfl), by simp⟩
        · split at h
          · rename_i he; cases h
            have e' : e = 110 := by simpa using he
            subst e'
            exact ⟨key 10 (by decide) (by rw [cu (by decide)]; rfl), by simp⟩
          · split at h
            · rename_i he; cases h
              have e' : e = 114 := by simpa using he
              subst e'
              exact ⟨key 13 (by decide) (by rw [cu (by decide)]; rfl), by simp⟩
            · split at h
              · rename_i he; cases h
                have e' : e = 116 := by simpa using he
                subst e'
                exact ⟨key 9 (by decide) (by rw [cu (by decide)]; rfl), by simp⟩
              · cases h

theorem append_eq_iff_prefix (dec U k : Bytes) :
    dec ++ U = k ↔ (dec.isPrefixOf k = true ∧ U = k.drop dec.length) := by
  induction dec generalizing k with
  | nil => simp [List.isPrefixOf]
  | cons a dec ih =>
    cases k with
    | nil => simp [List.isPrefixOf]
    | cons b k =>
      simp only [List.cons_append, List.cons.injEq, List.isPrefixOf, Bool.and_eq_true, beq_iff_eq,
        List.length_cons, List.drop_succ_cons]
      rw [ih k]
      constructor
      · rintro ⟨rfl, h1, h2⟩; exact ⟨⟨rfl, h1⟩, h2⟩
      · rintro ⟨⟨rfl, h1⟩, h2⟩; exact ⟨rfl, h1, h2⟩

/-- the escaped-key loop decides "decoded literal = wanted key" on a decodable key literal -/
theorem matchLoop_eq (n : Nat) : ∀ (body k : Bytes), keyWF n body = true →
    matchLoop n body k = if unescapeKey body = k then KeyCmp.eq else KeyCmp.ne := by
  induction n with
  | zero => intro body k h; simp [keyWF] at h
  | succ n ih =>
    intro body k h
    cases body with
    | nil =>
      have : unescapeKey [] = [] := rfl
      cases k <;> simp [matchLoop, this]
    | cons c rest =>
      by_cases hc : c = 92
      · subst hc
        simp only [keyWF, beq_self_eq_true, if_true] at h
        cases hu : unescapeOne rest with
        | none => rw [hu] at h; cases h
        | some x =>
          obtain ⟨dec, rest'⟩ := x
          rw [hu] at h
          obtain ⟨hdec, hne⟩ := unescapeKey_cons_escape hu
          rw [hdec]
          cases k with
          | nil =>
            have : ¬ (dec ++ unescapeKey rest' = []) := by
              intro e; exact hne (List.append_eq_nil_iff.1 e).1
            simp [matchLoop, this]
          | cons k0 k' =>
            simp only [matchLoop, beq_self_eq_true, if_true, hu]
            by_cases hp : dec.isPrefixOf (k0 :: k') = true
            · simp only [hp, if_true]
              rw [ih rest' _ h]
              by_cases he : unescapeKey rest' = (k0 :: k').drop dec.length
              · have : dec ++ unescapeKey rest' = k0 :: k' := (append_eq_iff_prefix _ _ _).2 ⟨hp, he⟩
                rw [if_pos he, if_pos this]
              · have : ¬ (dec ++ unescapeKey rest' = k0 :: k') := fun e => he ((append_eq_iff_prefix _ _ _).1 e).2
                rw [if_neg he, if_neg this]
            · have : ¬ (dec ++ unescapeKey rest' = k0 :: k') := fun e => hp ((append_eq_iff_prefix _ _ _).1 e).1
              simp [hp, this]
      · have hb : (c == 92) = false := by simpa using hc
        simp only [keyWF, hb] at h
        rw [unescapeKey_cons_plain hc]
        cases k with
        | nil => simp [matchLoop]
        | cons k0 k' =>
          simp only [matchLoop, hb]
          by_cases hk : c = k0
          · subst hk
            simp only [beq_self_eq_true, if_true]
            rw [ih rest k' (by simpa using h)]
            by_cases he : unescapeKey rest = k' <;> simp [he]
          · have : (c == k0) = false := by simpa using hk
            simp [this, hk]

end SonicSpec.Search
