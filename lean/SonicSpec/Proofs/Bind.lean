/-
  Helper lemmas for the typed decoding models (C01 / C11).
-/
import SonicSpec.Model.BindStream
namespace SonicSpec.Bind
open SonicSpec SonicSpec.Go SonicSpec.Json

/-! ### integer texts -/

/-- optional sign, then a non-empty run of digits (the syntax strconv.ParseInt accepts in base 10) -/
def intText (lit : Bytes) : Bool :=
  match lit with
  | 45 :: r => allDigits r
  | 43 :: r => allDigits r
  | s => allDigits s

/-- the integer such a text denotes -/
def intValue (lit : Bytes) : Int :=
  match lit with
  | 45 :: r => - (Int.ofNat (natOf r))
  | 43 :: r => Int.ofNat (natOf r)
  | s => Int.ofNat (natOf s)

theorem parseIntText_eq (lit : Bytes) : parseIntText lit = if intText lit then some (intValue lit) else none := by
  unfold parseIntText intText intValue digitsVal
  split <;> (split <;> simp_all)

/-! ### arrays -/

theorem bindElems_length (o : DecOpts) (xs : List RVal) (t : GoType) (curs : List GoVal) (n : Nat) :
    (bindElems o xs t curs (some n)).1.length = min xs.length n := by
  induction xs generalizing curs n with
  | nil => simp [bindElems]
  | cons x xs ih =>
    unfold bindElems
    cases n with
    | zero => simp
    | succ k =>
      have : (some (k+1) == some 0) = false := by simp
      simp only [this]
      simp [ih]

theorem bindVal_int_overwrites (o : DecOpts) (w : Nat) (l : Bytes) (n : Int) (cur : GoVal)
    (h : bindInt w l = some n) : bindVal o (.num l) (.int w) cur = (.int n, none) := by
  simp [bindVal, ptrBase, wrapPtr, storeNumber, h]

/-! ### the annotated parser against the shared strict parser -/

/-- the annotated parser accepts nothing the shared strict parser refuses -/
theorem parseR_sound : ∀ n : Nat,
    (∀ s v r, parseR n s = some (v, r) → ∃ j, Json.parseVal n s = some (j, r)) ∧
    (∀ s xs r, parseRElems n s = some (xs, r) → ∃ js, Json.parseElems n s = some (js, r)) ∧
    (∀ s kvs r, parseRMembers n s = some (kvs, r) → ∃ js, Json.parseMembers n s = some (js, r)) := by
  intro n
  induction n with
  | zero =>
    refine ⟨?_, ?_, ?_⟩ <;> intro s v r h <;> simp [parseR, parseRElems, parseRMembers] at h
  | succ n ih =>
    obtain ⟨ihV, ihE, ihM⟩ := ih
    refine ⟨?_, ?_, ?_⟩
    · intro s v r h
      unfold parseR at h
      split at h
      · cases h; exact ⟨.null, by rw [Json.parseVal]⟩
      · cases h; exact ⟨.bool true, by rw [Json.parseVal]⟩
      · cases h; exact ⟨.bool false, by rw [Json.parseVal]⟩
      · rename_i r0
        cases hs : scanString r0 with
        | none => simp [hs] at h
        | some p =>
          obtain ⟨b, t⟩ := p
          simp only [hs] at h
          cases hu : unquote b with
          | none => simp [hu] at h
          | some u =>
            simp only [hu] at h
            cases h
            exact ⟨.str b, by rw [Json.parseVal]; simp [hs]⟩
      · rename_i r0
        split at h
        · rename_i t ht
          cases h
          exact ⟨.arr [], by rw [Json.parseVal]; simp [ht]⟩
        · rename_i r' hr'
          cases he : parseRElems n (skipWs r0) with
          | none => simp [he] at h
          | some p =>
            obtain ⟨xs, t⟩ := p
            simp only [he, Option.map_some] at h
            cases h
            obtain ⟨js, hjs⟩ := ihE _ _ _ he
            refine ⟨.arr js, ?_⟩
            rw [Json.parseVal]
            split
            · rename_i t' ht'; exact absurd ht' (hr' t')
            · simp [hjs]
      · rename_i r0
        split at h
        · rename_i t ht
          cases h
          exact ⟨.obj [], by rw [Json.parseVal]; simp [ht]⟩
        · rename_i r' hr'
          cases he : parseRMembers n (skipWs r0) with
          | none => simp [he] at h
          | some p =>
            obtain ⟨xs, t⟩ := p
            simp only [he, Option.map_some] at h
            cases h
            obtain ⟨js, hjs⟩ := ihM _ _ _ he
            refine ⟨.obj js, ?_⟩
            rw [Json.parseVal]
            split
            · rename_i t' ht'; exact absurd ht' (hr' t')
            · simp [hjs]
      · cases hn : scanNumber s with
        | none => simp [hn] at h
        | some p =>
          obtain ⟨l, t⟩ := p
          simp only [hn, Option.map_some] at h
          cases h
          refine ⟨.num l, ?_⟩
          rw [Json.parseVal]
          · simp [hn]
          all_goals (intro r' hc; subst hc; simp_all)
    · intro s xs r h
      unfold parseRElems at h
      unfold Json.parseElems
      cases hv : parseR n s with
      | none => simp [hv] at h
      | some p =>
        obtain ⟨v, r1⟩ := p
        obtain ⟨j, hj⟩ := ihV _ _ _ hv
        simp only [hv] at h
        simp only [hj]
        split at h
        · rename_i t ht
          cases he : parseRElems n (skipWs t) with
          | none => simp [he] at h
          | some q =>
            obtain ⟨ys, t'⟩ := q
            simp only [he, Option.map_some] at h
            cases h
            obtain ⟨js, hjs⟩ := ihE _ _ _ he
            exact ⟨j :: js, by simp [ht, hjs]⟩
        · rename_i t ht
          cases h
          exact ⟨[j], by simp [ht]⟩
        · cases h
    · intro s kvs r h
      unfold parseRMembers at h
      unfold Json.parseMembers
      split at h
      · rename_i r0
        cases hs : scanString r0 with
        | none => simp [hs] at h
        | some p =>
          obtain ⟨k, r1⟩ := p
          simp only [hs] at h
          split at h
          · rename_i r2 hr2
            cases hu : unquote k with
            | none => simp [hu] at h
            | some key =>
              simp only [hu] at h
              cases hv : parseR n (skipWs r2) with
              | none => simp [hv] at h
              | some q =>
                obtain ⟨v, r3⟩ := q
                obtain ⟨j, hj⟩ := ihV _ _ _ hv
                simp only [hv] at h
                split at h
                · rename_i t ht
                  cases he : parseRMembers n (skipWs t) with
                  | none => simp [he] at h
                  | some q2 =>
                    obtain ⟨ys, t'⟩ := q2
                    simp only [he, Option.map_some] at h
                    cases h
                    obtain ⟨js, hjs⟩ := ihM _ _ _ he
                    exact ⟨(k, j) :: js, by simp [hs, hr2, hj, ht, hjs]⟩
                · rename_i t ht
                  cases h
                  exact ⟨[(k, j)], by simp [hs, hr2, hj, ht]⟩
                · cases h
          · cases h
      · cases h


theorem parseRDoc_sound (s : Bytes) (j : RVal) (h : parseRDoc s = some j) : (Json.parseDoc s).isSome = true := by
  unfold parseRDoc at h
  unfold Json.parseDoc
  cases hp : parseR (s.length + 1) (skipWs s) with
  | none => simp [hp] at h
  | some p =>
    obtain ⟨v, r⟩ := p
    obtain ⟨jv, hj⟩ := (parseR_sound _).1 _ _ _ hp
    simp only [hp] at h
    simp only [hj]
    split at h
    · rename_i he; simp [he]
    · cases h

end SonicSpec.Bind
