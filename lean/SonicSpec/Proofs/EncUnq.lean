/-
  Helper lemmas about what a string literal denotes: every chunk the string writers emit
  (encoding/json's spelling and sonic's spelling) unquotes to the bytes it stands for, hence
  `unq (quoteBody … s)` is `s` itself (ill-formed bytes replaced when ValidateString is on),
  independently of the escape spelling.
-/
import SonicSpec.Model.Enc
import SonicSpec.Model.Str
import SonicSpec.Proofs.EncLeaf
namespace SonicSpec.Enc
open SonicSpec SonicSpec.Json

theorem unqS_plain {c : UInt8} (h : Plain c) (r : Bytes) :
    unqS none (c :: r) = (unqS none r).map (c :: ·) := by
  obtain ⟨h1, h2, h3⟩ := h
  have a : (c == 92) = false := by simpa using h2
  have b : (c == 34 || decide (c < 32)) = false := by simp [h3, h1]
  rw [unqS.eq_def]
  simp [a, b, flushHi]

theorem unqS_esc2 {e w : UInt8} (he : simpleEsc e = some w) (rest : Bytes) :
    unqS none (92 :: e :: rest) = (unqS none rest).map (w :: ·) := by
  have h117 : e ≠ 117 := by
    intro hh; subst hh
    have : simpleEsc 117 = none := by decide
    rw [this] at he; cases he
  rw [unqS.eq_def]
  simp only [beq_self_eq_true, if_true]
  split
  · rename_i heq; injection heq with a _; exact absurd a h117
  · rename_i heq
    injection heq with a b
    subst a; subst b
    simp [he, flushHi]
  · rename_i heq; cases heq

theorem unqS_u {a b c d : UInt8} {v : Nat} (hv : hex4 a b c d = some v) (hs : ¬ (55296 ≤ v ∧ v ≤ 57343)) (rest : Bytes) :
    unqS none (92 :: 117 :: a :: b :: c :: d :: rest) = (unqS none rest).map (utf8Enc v ++ ·) := by
  rw [unqS.eq_def]
  simp only [beq_self_eq_true, if_true, hv]
  have h1 : (decide (v ≥ 55296) && decide (v ≤ 56319)) = false := by
    simp only [Bool.and_eq_false_iff, decide_eq_false_iff_not, ge_iff_le, Nat.not_le]
    omega
  have h2 : (decide (v ≥ 56320) && decide (v ≤ 57343)) = false := by
    simp only [Bool.and_eq_false_iff, decide_eq_false_iff_not, ge_iff_le, Nat.not_le]
    omega
  simp [h1, h2, flushHi]


theorem unqS_plain_append {p : Bytes} (hp : ∀ c ∈ p, Plain c) (r : Bytes) :
    unqS none (p ++ r) = (unqS none r).map (p ++ ·) := by
  induction p with
  | nil => simp
  | cons c t ih =>
    have h1 : Plain c := hp c (by simp)
    have h2 := ih (fun x hx => hp x (by simp [hx]))
    simp only [List.cons_append]
    rw [unqS_plain h1, h2]
    cases unqS none r <;> simp

/-- the bytes a chunk stands for (`none`: not a chunk the writers emit) -/
def chunkDen (ch : Bytes) : Option Bytes :=
  match ch with
  | [c] => if !(c < 32) && c != 92 && c != 34 then some [c] else none
  | [92, e] => (simpleEsc e).map fun w => [w]
  | [92, 117, a, b, c, d] =>
    match hex4 a b c d with
    | some v => if (v ≥ 55296 && v ≤ 57343) then none else some (utf8Enc v)
    | none => none
  | _ => none

theorem unq_chunk {ch d : Bytes} (h : chunkDen ch = some d) (rest : Bytes) :
    unqS none (ch ++ rest) = (unqS none rest).map (d ++ ·) := by
  unfold chunkDen at h
  split at h
  · rename_i c
    split at h
    · rename_i hc
      injection h with h; subst h
      simp only [Bool.and_eq_true, Bool.not_eq_true', decide_eq_false_iff_not, bne_iff_ne, ne_eq] at hc
      exact unqS_plain ⟨hc.1.1, hc.1.2, hc.2⟩ rest
    · cases h
  · rename_i e
    cases he : simpleEsc e with
    | none => simp [he] at h
    | some w =>
      simp [he] at h; subst h
      exact unqS_esc2 he rest
  · rename_i a b c d'
    cases hv : hex4 a b c d' with
    | none => simp [hv] at h
    | some v =>
      simp only [hv] at h
      split at h
      · cases h
      · rename_i hs
        injection h with h; subst h
        refine unqS_u hv ?_ rest
        intro hh
        apply hs
        simp [hh.1, hh.2]
  · cases h

/-- the bytes a piece stands for in a literal written with / without ValidateString -/
def pieceDen (fix : Bool) : Piece → Bytes
  | .bad c => if fix then repl else [c]
  | p => p.bytes

theorem escAscii_den : ∀ c : UInt8, c < 128 → ∀ html : Bool, chunkDen (escAscii html c) = some [c] := by
  apply forall_uint8
  decide +kernel

theorem quoteByte_den : ∀ c : UInt8, c < 128 → chunkDen (Str.quoteByte c) = some [c] := by
  apply forall_uint8
  decide +kernel

theorem u00_den : ∀ c : UInt8, c < 128 → chunkDen (u00 c) = some [c] := by
  apply forall_uint8
  decide +kernel

theorem unq_quotePiece (html fix : Bool) {p : Piece} (hp : PieceOK p) (rest : Bytes) :
    unqS none (quotePiece html fix p ++ rest) = (unqS none rest).map (pieceDen fix p ++ ·) := by
  cases p with
  | ascii c => exact unq_chunk (escAscii_den c hp html) rest
  | multi bs =>
    simp only [quotePiece, pieceDen, Piece.bytes]
    split
    · rename_i h; simp at h; subst h; exact unq_chunk (by decide) rest
    · split
      · rename_i h; simp at h; subst h; exact unq_chunk (by decide) rest
      · exact unqS_plain_append (fun c hc => highByte_plain (hp c hc)) rest
  | bad c =>
    simp only [quotePiece, pieceDen]
    split
    · exact unq_chunk (by decide) rest
    · exact unqS_plain (highByte_plain hp) rest

theorem unq_flatMap (html fix : Bool) : ∀ (ps : List Piece), (∀ p ∈ ps, PieceOK p) →
    unqS none (ps.flatMap (quotePiece html fix)) = some (ps.flatMap (pieceDen fix)) := by
  intro ps
  induction ps with
  | nil => intro _; simp [unqS, flushHi]
  | cons p r ih =>
    intro h
    simp only [List.flatMap_cons]
    rw [unq_quotePiece html fix (h p (by simp)), ih (fun q hq => h q (by simp [hq]))]
    rfl

/-- the pieces of a string, concatenated, are the string -/
theorem piecesF_bytes : ∀ (f : Nat) (s : Bytes), s.length ≤ f → (piecesF f s).flatMap Piece.bytes = s := by
  intro f
  induction f with
  | zero => intro s h; cases s <;> simp_all [piecesF]
  | succ f ih =>
    intro s h
    cases s with
    | nil => simp [piecesF]
    | cons c r =>
      have hr : r.length ≤ f := by simpa using h
      simp only [piecesF]
      split
      · simp [Piece.bytes, ih r hr]
      · split
        · simp [Piece.bytes, ih r hr]
        · rename_i h0 h1
          have hn : 1 ≤ seqLen (c :: r) := by
            have a : seqLen (c :: r) ≠ 0 := by simpa using h0
            omega
          have hd : (r.drop (seqLen (c :: r) - 1)).length ≤ f := by
            simp only [List.length_drop]; omega
          simp only [List.flatMap_cons, Piece.bytes, ih _ hd]
          have : (c :: r).drop (seqLen (c :: r)) = r.drop (seqLen (c :: r) - 1) := by
            cases hs : seqLen (c :: r) with
            | zero => omega
            | succ k => simp
          rw [← this]
          exact List.take_append_drop _ _

theorem pieces_bytes (s : Bytes) : (pieces s).flatMap Piece.bytes = s := piecesF_bytes _ _ (Nat.le_refl _)

theorem flatMap_den_false (ps : List Piece) : ps.flatMap (pieceDen false) = ps.flatMap Piece.bytes := by
  induction ps with
  | nil => rfl
  | cons p r ih =>
    simp only [List.flatMap_cons, ih]
    cases p <;> simp [pieceDen, Piece.bytes]

theorem flatMap_den_true (s : Bytes) : (pieces s).flatMap (pieceDen true) = coerce s := by
  unfold coerce
  congr 1

/-- without ValidateString a literal unquotes to the very bytes of the string, whatever they are -/
theorem unq_quoteBody_raw (html : Bool) (s : Bytes) : unq (quoteBody html false s) = some s := by
  unfold unq quoteBody
  rw [unq_flatMap html false _ (pieces_ok s), flatMap_den_false, pieces_bytes]

/-- with ValidateString it unquotes to the string with every ill-formed byte replaced by U+FFFD -/
theorem unq_quoteBody_fixed (html : Bool) (s : Bytes) : unq (quoteBody html true s) = some (coerce s) := by
  unfold unq quoteBody
  rw [unq_flatMap html true _ (pieces_ok s), flatMap_den_true]

/-- valid UTF-8 is left alone by `coerce` -/
theorem coerce_valid {s : Bytes} (h : validUtf8 s = true) : coerce s = s := by
  unfold coerce
  have : ∀ (ps : List Piece), (ps.all fun p => match p with | .bad _ => false | _ => true) = true →
      (ps.flatMap fun p => match p with | .bad _ => repl | q => q.bytes) = ps.flatMap Piece.bytes := by
    intro ps
    induction ps with
    | nil => intro _; rfl
    | cons p r ih =>
      intro hall
      simp only [List.all_cons, Bool.and_eq_true] at hall
      simp only [List.flatMap_cons, ih hall.2]
      cases p with
      | bad c => simp at hall
      | ascii c => rfl
      | multi bs => rfl
  have h' := this (pieces s) h
  exact h'.trans (pieces_bytes s)

/-! ### sonic's spelling of the same literals (native quote table + the two post-passes) -/

/-- image of a piece as the implementation spells it: `\u00XX` for every control character except
    \t \n \r (Str.quoteByte = native/parsing.h _SingleQuoteTab), U+2028/U+2029 and HTML characters
    escaped only by the EscapeHTML post-pass, ill-formed bytes replaced only by the ValidateString
    post-pass -/
def quotePieceSonic (html fix : Bool) : Piece → Bytes
  | .ascii c => if html && (c == 60 || c == 62 || c == 38) then u00 c else Str.quoteByte c
  | .multi bs =>
    if html && bs == [226, 128, 168] then u2028 else if html && bs == [226, 128, 169] then u2029 else bs
  | .bad c => if fix then uFFFD else [c]

def quoteBodySonic (html fix : Bool) (s : Bytes) : Bytes := (pieces s).flatMap (quotePieceSonic html fix)

theorem unq_quotePieceSonic (html fix : Bool) {p : Piece} (hp : PieceOK p) (rest : Bytes) :
    unqS none (quotePieceSonic html fix p ++ rest) = (unqS none rest).map (pieceDen fix p ++ ·) := by
  cases p with
  | ascii c =>
    simp only [quotePieceSonic, pieceDen, Piece.bytes]
    split
    · exact unq_chunk (u00_den c hp) rest
    · exact unq_chunk (quoteByte_den c hp) rest
  | multi bs =>
    simp only [quotePieceSonic, pieceDen, Piece.bytes]
    split
    · rename_i h; simp at h; obtain ⟨_, h⟩ := h; subst h; exact unq_chunk (by decide) rest
    · split
      · rename_i h; simp at h; obtain ⟨_, h⟩ := h; subst h; exact unq_chunk (by decide) rest
      · exact unqS_plain_append (fun c hc => highByte_plain (hp c hc)) rest
  | bad c =>
    simp only [quotePieceSonic, pieceDen]
    split
    · exact unq_chunk (by decide) rest
    · exact unqS_plain (highByte_plain hp) rest

theorem unq_quoteBodySonic (html fix : Bool) (s : Bytes) :
    unq (quoteBodySonic html fix s) = some ((pieces s).flatMap (pieceDen fix)) := by
  unfold unq quoteBodySonic
  have : ∀ (ps : List Piece), (∀ p ∈ ps, PieceOK p) →
      unqS none (ps.flatMap (quotePieceSonic html fix)) = some (ps.flatMap (pieceDen fix)) := by
    intro ps
    induction ps with
    | nil => intro _; simp [unqS, flushHi]
    | cons p r ih =>
      intro h
      simp only [List.flatMap_cons]
      rw [unq_quotePieceSonic html fix (h p (by simp)), ih (fun q hq => h q (by simp [hq]))]
      rfl
  exact this _ (pieces_ok s)

theorem unq_quoteBody (html fix : Bool) (s : Bytes) :
    unq (quoteBody html fix s) = some ((pieces s).flatMap (pieceDen fix)) := by
  unfold unq quoteBody
  exact unq_flatMap html fix _ (pieces_ok s)

end SonicSpec.Enc
