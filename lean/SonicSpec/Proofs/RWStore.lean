/-
  C16 - preservation of the invariant by the release-store of `t` that ends `assign`.
-/
import SonicSpec.Proofs.RWWrite
namespace SonicSpec.RW

variable {pf : Bool}

theorem inv_storeT {s : State} {i : Nat} {th : Th} {a : Abs} {K : Prog}
    (hI : Inv pf s) (hth : s.ths[i]? = some th) (hok : ThOK i s.sh th a)
    (hc : a.canWrite = true) (hwl : a.wl = true) (hwp : a.wp = true)
    (hK : safe pf { a with k := .nonraw, wl := false, wp := false, wc := false } K = true) :
    Inv pf ⟨(execOp i s.sh th .storeT K).1, s.ths.set i (execOp i s.sh th .storeT K).2⟩ := by
  have hG := hI.1
  obtain ⟨hk, hlk, hW, hw, ht, htv⟩ := canWrite_info hok hc
  have hg : genOf th = 0 := by rw [genOf_eq htv]; exact (hG.gRaw ht).1
  have hflags := hok.wlw hW
  have hr := races_false_iff.mpr (writer_norace (f := .t) (atm := true) hG hth hw ht (by decide) (fun h => by cases h))
  -- every write so far was made by the lock holder i, hence is in its own happens-before set
  have hmine : ∀ b ∈ s.sh.hist, b.wr = true → b.id ∈ th.hb := by
    intro b hb hbw
    obtain ⟨h, _⟩ := hG.wrBy ht b hb hbw
    rw [hw] at h; injection h with h
    exact hG.own b hb th (h ▸ hth)
  simp only [execOp]
  apply inv_update hI hth
  · constructor
    · exact hG.m
    · simp [Sh.record, hG.norace, hr]
    · simp
    · intro j hj; exact hG.excl j hj
    · intro hn
      simp only [Sh.record] at hn
      rw [hw] at hn; cases hn
    · intro h; simp at h
    · intro _
      simp only [Sh.record, hg]
      obtain ⟨_, e2, e3⟩ := hG.gRaw ht
      rw [hflags.1, hwl] at e2
      rw [hflags.2.1, hwp] at e3
      exact ⟨trivial, e2, e3⟩
    · intro _ b hb hbw
      simp only [Sh.record] at hb ⊢
      rcases List.mem_cons.mp hb with rfl | hb
      · exact List.mem_append_left _ List.mem_cons_self
      · exact List.mem_append_left _ (List.mem_cons_of_mem _ (hmine b hb hbw))
    · intro h; simp at h
    · intro b hb hbw hbf
      simp only [Sh.record] at hb
      rcases List.mem_cons.mp hb with rfl | hb
      · rfl
      · exact hG.wrAtomicT b hb hbw hbf
    · intro b hb hbw
      simp only [Sh.record] at hb
      rcases List.mem_cons.mp hb with rfl | hb
      · simp [mkAcc]
      · exact hG.wrNotM b hb hbw
    · intro b hb hba
      simp only [Sh.record] at hb
      rcases List.mem_cons.mp hb with rfl | hb
      · rfl
      · exact hG.atomicT b hb hba
    · intro h; simp at h
    · intro j thj hj
      simp only [Sh.record] at hj ⊢
      rw [getElem?_set_ite hth] at hj
      by_cases hij : i = j
      · subst hij
        simp only [if_true] at hj
        cases hj
        have := hG.holdHB i th hth
        exact ⟨fun hw' => ⟨fun x hx => List.mem_cons_of_mem _ ((this.1 hw').1 x hx),
                            fun x hx => List.mem_cons_of_mem _ ((this.1 hw').2 x hx)⟩,
               fun hr' x hx => List.mem_cons_of_mem _ (this.2 hr' x hx)⟩
      · simp only [hij, if_false] at hj
        exact hG.holdHB j thj hj
    · intro b hb thj hj
      simp only [Sh.record] at hb hj
      rw [getElem?_set_ite hth] at hj
      rcases List.mem_cons.mp hb with rfl | hb
      · simp only [mkAcc, if_true] at hj ⊢
        cases hj
        exact List.mem_cons_self
      · by_cases hij : i = b.tid
        · simp only [hij, if_true] at hj
          cases hj
          exact List.mem_cons_of_mem _ (hG.own b hb th (hij ▸ hth))
        · simp only [hij, if_false] at hj
          exact hG.own b hb thj hj
    · simp only [Sh.record]
      exact ordered_cons hG.ordered hth (fun x hx => List.mem_cons_of_mem _ hx) rfl
        (fun b hb hc => List.mem_cons_of_mem _ (writer_norace (f := .t) (atm := true) hG hth hw ht (by decide) (fun h => by cases h) b hb hc))
    · intro h; simp at h
    · simp only [Sh.record]
      refine List.pairwise_cons.mpr ⟨fun b hb hst => ?_, hG.noWriteAfterStore⟩
      rw [hG.rawNoStore ht b hb] at hst; cases hst
  · refine ⟨_, hK, ?_⟩
    refine { hW := hok.hW, hR := hok.hR, lkHeld := hok.lkHeld, wlw := fun _ => ⟨rfl, rfl, rfl⟩,
             wlH := (by intro h; cases h), wpH := (by intro h; cases h), wcH := (by intro h; cases h),
             nofault := hok.nofault, mread := hok.mread, lv := hok.lv, know := ?_, view := ?_,
             tvok := (by intro v g h; injection h with h; injection h with h1 _; rw [← h1]; decide) }
    · unfold KnowOK
      simp only
      refine ⟨.parsed, genOf th + 1, rfl, by decide, by simp, rfl, ?_⟩
      intro b hb hbw
      simp only [Sh.record] at hb
      rcases List.mem_cons.mp hb with rfl | hb
      · exact List.mem_cons_self
      · exact List.mem_cons_of_mem _ (hmine b hb hbw)
    · apply viewOK_of (v := .parsed) (g := genOf th + 1) rfl (Or.inl rfl) (Or.inl rfl)
      · intro h; cases h
      · intro _; rw [hg]
  · intro j thj aj hji hj hokj
    exact hokj.frame_write hji hw (hG.excl i hw) ht rfl rfl

end SonicSpec.RW
