/-
  Helper lemmas for C19: correct rounding is monotone, hence the set of rationals that round to one
  float is convex; canonical pairs are determined by their value; `roundDec` is complete for `IsRNE`.
-/
import SonicSpec.Proofs.NumOvf
namespace SonicSpec.Num

theorem two_pow_eq_double (p : Nat) (hp : 1 ≤ p) : 2 ^ p = 2 * 2 ^ (p - 1) := by
  have : p = (p - 1) + 1 := by omega
  rw [this, pow_succ_two]; simp

/-- `IsRNE` only depends on the rational `N / D`: numerator and denominator may be scaled -/
theorem IsRNE.scale {p N D q t : Nat} (c : Nat) (hc : 0 < c) (h : IsRNE p N D q t) :
    IsRNE p (N * c) (D * c) q t := by
  obtain ⟨q0, u, hup, hlo, hn1, hn2, htie, hnorm⟩ := h
  refine ⟨q0, u, ?_, ?_, ?_, ?_, ?_, hnorm⟩
  all_goals
    have e : D * c * 2 ^ u = D * 2 ^ u * c := by ac_rfl
    rw [e]
    generalize D * 2 ^ u = Du at *
  · have := Nat.mul_lt_mul_of_pos_right hup hc
    have e2 : 2 ^ p * Du * c = 2 ^ p * (Du * c) := Nat.mul_assoc _ _ _
    omega
  · intro hu
    have := Nat.mul_le_mul_right c (hlo hu)
    have e2 : 2 ^ (p - 1) * Du * c = 2 ^ (p - 1) * (Du * c) := Nat.mul_assoc _ _ _
    omega
  · have e2 : q0 * (Du * c) = q0 * Du * c := (Nat.mul_assoc _ _ _).symm
    rw [e2, ← Nat.sub_mul]
    have := Nat.mul_le_mul_right c hn1
    have e3 : 2 * (N - q0 * Du) * c = 2 * ((N - q0 * Du) * c) := Nat.mul_assoc _ _ _
    omega
  · have e2 : q0 * (Du * c) = q0 * Du * c := (Nat.mul_assoc _ _ _).symm
    rw [e2, ← Nat.sub_mul]
    have := Nat.mul_le_mul_right c hn2
    have e3 : 2 * (q0 * Du - N) * c = 2 * ((q0 * Du - N) * c) := Nat.mul_assoc _ _ _
    omega
  · have e2 : q0 * (Du * c) = q0 * Du * c := (Nat.mul_assoc _ _ _).symm
    rw [e2, ← Nat.sub_mul, ← Nat.sub_mul]
    intro h
    apply htie
    rcases h with h | h
    · left
      have e3 : 2 * ((N - q0 * Du) * c) = 2 * (N - q0 * Du) * c := (Nat.mul_assoc _ _ _).symm
      rw [e3] at h
      exact Nat.eq_of_mul_eq_mul_right hc h
    · right
      have e3 : 2 * ((q0 * Du - N) * c) = 2 * (q0 * Du - N) * c := (Nat.mul_assoc _ _ _).symm
      rw [e3] at h
      exact Nat.eq_of_mul_eq_mul_right hc h

/-- the value of the result is the value of the witness -/
theorem IsRNE.value {p N D q t : Nat} (hp : 1 ≤ p) (h : IsRNE p N D q t) :
    ∃ q0 u, q * 2 ^ t = q0 * 2 ^ u ∧
      N < 2 ^ p * (D * 2 ^ u) ∧ (0 < u → 2 ^ (p - 1) * (D * 2 ^ u) ≤ N) ∧
      2 * (N - q0 * (D * 2 ^ u)) ≤ D * 2 ^ u ∧ 2 * (q0 * (D * 2 ^ u) - N) ≤ D * 2 ^ u ∧
      ((2 * (N - q0 * (D * 2 ^ u)) = D * 2 ^ u ∨ 2 * (q0 * (D * 2 ^ u) - N) = D * 2 ^ u) → q0 % 2 = 0) := by
  obtain ⟨q0, u, hup, hlo, hn1, hn2, htie, hnorm⟩ := h
  refine ⟨q0, u, ?_, hup, hlo, hn1, hn2, htie⟩
  rcases hnorm with ⟨rfl, rfl, _⟩ | ⟨rfl, rfl, rfl⟩
  · rfl
  · rw [pow_succ_two, two_pow_eq_double p hp]; ac_rfl

/-- monotonicity on witnesses over one denominator -/
theorem wit_mono (p D N1 N2 a u b w : Nat) (hp : 1 ≤ p) (hD : 0 < D) (hN : N1 ≤ N2)
    (h1up : N1 < 2 ^ p * (D * 2 ^ u)) (h1lo : 0 < u → 2 ^ (p - 1) * (D * 2 ^ u) ≤ N1)
    (_h1a : 2 * (N1 - a * (D * 2 ^ u)) ≤ D * 2 ^ u) (h1b : 2 * (a * (D * 2 ^ u) - N1) ≤ D * 2 ^ u)
    (h1t : (2 * (N1 - a * (D * 2 ^ u)) = D * 2 ^ u ∨ 2 * (a * (D * 2 ^ u) - N1) = D * 2 ^ u) → a % 2 = 0)
    (h2up : N2 < 2 ^ p * (D * 2 ^ w)) (h2lo : 0 < w → 2 ^ (p - 1) * (D * 2 ^ w) ≤ N2)
    (h2a : 2 * (N2 - b * (D * 2 ^ w)) ≤ D * 2 ^ w) (_h2b : 2 * (b * (D * 2 ^ w) - N2) ≤ D * 2 ^ w)
    (h2t : (2 * (N2 - b * (D * 2 ^ w)) = D * 2 ^ w ∨ 2 * (b * (D * 2 ^ w) - N2) = D * 2 ^ w) → b % 2 = 0) :
    a * 2 ^ u ≤ b * 2 ^ w := by
  have hK := two_pow_eq_double p hp
  have mono : ∀ x y : Nat, x ≤ y → D * 2 ^ x ≤ D * 2 ^ y := fun x y hxy =>
    Nat.mul_le_mul_left D (Nat.pow_le_pow_right (by decide) hxy)
  have step : ∀ x : Nat, D * 2 ^ (x + 1) = 2 * (D * 2 ^ x) := fun x => by rw [pow_succ_two]; ac_rfl
  have hDw : 0 < D * 2 ^ w := Nat.mul_pos hD (Nat.two_pow_pos _)
  have hDu : 0 < D * 2 ^ u := Nat.mul_pos hD (Nat.two_pow_pos _)
  rcases Nat.lt_trichotomy u w with huw | huw | huw
  · -- lower binade: a ≤ 2^p, 2^(p-1) ≤ b
    have ha : a ≤ 2 ^ p := by
      apply Classical.byContradiction
      intro hc
      have h3 : (2 ^ p + 1) * (D * 2 ^ u) ≤ a * (D * 2 ^ u) := Nat.mul_le_mul_right _ (by omega)
      rw [Nat.add_mul, Nat.one_mul] at h3
      omega
    have hb : 2 ^ (p - 1) ≤ b := by
      apply Classical.byContradiction
      intro hc
      have h3 : (b + 1) * (D * 2 ^ w) ≤ 2 ^ (p - 1) * (D * 2 ^ w) := Nat.mul_le_mul_right _ (by omega)
      rw [Nat.add_mul, Nat.one_mul] at h3
      have := h2lo (by omega)
      omega
    have h4 : 2 ^ (u + 1) ≤ 2 ^ w := Nat.pow_le_pow_right (by decide) huw
    rw [pow_succ_two] at h4
    have h5 : a * 2 ^ u ≤ 2 ^ p * 2 ^ u := Nat.mul_le_mul_right _ ha
    have h6 : 2 ^ (p - 1) * 2 ^ w ≤ b * 2 ^ w := Nat.mul_le_mul_right _ hb
    have h7 : 2 ^ (p - 1) * (2 * 2 ^ u) ≤ 2 ^ (p - 1) * 2 ^ w := Nat.mul_le_mul_left _ h4
    have h8 : 2 ^ (p - 1) * (2 * 2 ^ u) = 2 ^ p * 2 ^ u := by rw [hK]; ac_rfl
    omega
  · subst huw
    generalize D * 2 ^ u = Du at *
    have hab : a ≤ b := by
      apply Classical.byContradiction
      intro hc
      obtain ⟨k, rfl⟩ := Nat.exists_eq_add_of_lt (Nat.lt_of_not_le hc)
      have e : (b + k + 1) * Du = b * Du + k * Du + Du := by rw [Nat.add_mul, Nat.add_mul, Nat.one_mul]
      rw [e] at h1b h1t
      have hk : k = 0 := by
        apply Classical.byContradiction
        intro hk
        have : Du ≤ k * Du := Nat.le_mul_of_pos_left Du (Nat.pos_of_ne_zero hk)
        omega
      subst hk
      simp only [Nat.zero_mul, Nat.add_zero] at *
      have t1 := h1t (by omega)
      have t2 := h2t (by omega)
      omega
    exact Nat.mul_le_mul_right _ hab
  · -- impossible: the binade of the smaller value is not above
    have h1 := h1lo (by omega)
    have h2 : D * 2 ^ (w + 1) ≤ D * 2 ^ u := mono _ _ huw
    rw [step] at h2
    have h3 : 2 ^ (p - 1) * (2 * (D * 2 ^ w)) ≤ 2 ^ (p - 1) * (D * 2 ^ u) := Nat.mul_le_mul_left _ h2
    have h4 : 2 ^ (p - 1) * (2 * (D * 2 ^ w)) = 2 ^ p * (D * 2 ^ w) := by rw [hK]; ac_rfl
    omega

/-- correct rounding is monotone: a smaller rational rounds to a smaller (or equal) float -/
theorem IsRNE.mono {p N1 D1 N2 D2 q1 t1 q2 t2 : Nat} (hp : 1 ≤ p) (hD1 : 0 < D1) (hD2 : 0 < D2)
    (hle : N1 * D2 ≤ N2 * D1) (h1 : IsRNE p N1 D1 q1 t1) (h2 : IsRNE p N2 D2 q2 t2) :
    q1 * 2 ^ t1 ≤ q2 * 2 ^ t2 := by
  have s1 := h1.scale D2 hD2
  have s2 := h2.scale D1 hD1
  rw [Nat.mul_comm D2 D1] at s2
  obtain ⟨a, u, e1, a1, a2, a3, a4, a5⟩ := s1.value hp
  obtain ⟨b, w, e2, b1, b2, b3, b4, b5⟩ := s2.value hp
  rw [e1, e2]
  exact wit_mono p (D1 * D2) _ _ a u b w hp (Nat.mul_pos hD1 hD2) hle a1 a2 a3 a4 a5 b1 b2 b3 b4 b5

/-- a canonical pair is determined by its value -/
theorem canonical_inj {p q t q' t' : Nat} (hp : 1 ≤ p) (h : Canonical p q t) (h' : Canonical p q' t')
    (hv : q * 2 ^ t = q' * 2 ^ t') : q = q' ∧ t = t' := by
  have hK := two_pow_eq_double p hp
  have key : ∀ (a x b y : Nat), Canonical p a x → Canonical p b y → a * 2 ^ x = b * 2 ^ y → x < y → False := by
    intro a x b y ha hb hv hxy
    obtain ⟨k, rfl⟩ := Nat.exists_eq_add_of_lt hxy
    have h1 := hb.2 (by omega)
    have e : b * 2 ^ (x + k + 1) = (b * (2 * 2 ^ k)) * 2 ^ x := by
      rw [Nat.pow_add, Nat.pow_add, Nat.pow_one]; ac_rfl
    rw [e] at hv
    have h2 := Nat.eq_of_mul_eq_mul_right (Nat.two_pow_pos x) hv
    have h3 : 1 ≤ 2 ^ k := Nat.two_pow_pos k
    have h4 : b * (2 * 1) ≤ b * (2 * 2 ^ k) := Nat.mul_le_mul_left _ (Nat.mul_le_mul_left _ h3)
    have := ha.1
    omega
  rcases Nat.lt_trichotomy t t' with hlt | heq | hgt
  · exact absurd (key q t q' t' h h' hv hlt) id
  · subst heq
    exact ⟨Nat.eq_of_mul_eq_mul_right (Nat.two_pow_pos t) hv, rfl⟩
  · exact absurd (key q' t' q t h' h hv.symm hgt) id

/-- rationals between two that round to `(q, t)` round to `(q, t)` as well (stated for the results) -/
theorem IsRNE.between {p N1 D1 N2 D2 N3 D3 q t q2 t2 : Nat} (hp : 1 ≤ p)
    (hD1 : 0 < D1) (hD2 : 0 < D2) (hD3 : 0 < D3)
    (h12 : N1 * D2 ≤ N2 * D1) (h23 : N2 * D3 ≤ N3 * D2)
    (h1 : IsRNE p N1 D1 q t) (h3 : IsRNE p N3 D3 q t) (h2 : IsRNE p N2 D2 q2 t2)
    (hc : Canonical p q t) (hc2 : Canonical p q2 t2) : q2 = q ∧ t2 = t := by
  have a := IsRNE.mono hp hD1 hD2 h12 h1 h2
  have b := IsRNE.mono hp hD2 hD3 h23 h2 h3
  exact canonical_inj hp hc2 hc (Nat.le_antisymm b a)

/-- a float rounds to itself -/
theorem isRNE_exact {p q t : Nat} (hc : Canonical p q t) : IsRNE p (q * 2 ^ t) 1 q t := by
  refine ⟨q, t, ?_, ?_, ?_, ?_, ?_, Or.inl ⟨rfl, rfl, hc.1⟩⟩
  · simp only [Nat.one_mul]
    exact Nat.mul_lt_mul_of_pos_right hc.1 (Nat.two_pow_pos _)
  · intro ht
    simp only [Nat.one_mul]
    exact Nat.mul_le_mul_right _ (hc.2 ht)
  · simp
  · simp
  · simp only [Nat.one_mul, Nat.sub_self, Nat.mul_zero]
    intro h
    have := Nat.two_pow_pos t
    omega

/-- `roundDec` finds every finite correctly rounded value: if the literal `m * 10^e` (m ≠ 0) has the
    round-half-even image `(q, t)`, canonical and finite, `roundDec` returns it -/
theorem roundDec_complete (f : Fmt) (hf : f.Ok) (m : Nat) (e : Int) (hm : m ≠ 0) (q t : Nat)
    (hc : Canonical f.prec q t) (ht : t ≤ f.tmax)
    (N D : Nat) (hD : 0 < D) (heq : (scale m e).1 * 2 ^ f.bias * D = N * (scale m e).2)
    (h : IsRNE f.prec N D q t) : roundDec f m e = some (q, t) := by
  have hDs : 0 < (scale m e).2 := Nat.pos_of_ne_zero (scale_den_ne_zero m e)
  cases hr : roundDec f m e with
  | none =>
    -- overflow would put the value at or above the threshold; monotonicity forbids it
    exfalso
    by_cases he : e > 400
    · have hov := huge_overflows f hf m e hm he
      -- compare with the exact float 2^p * 2^tmax ... use the overflow characterisation on (N, D)
      have h' := h.scale (scale m e).2 hDs
      have := (ovf_of_isRNE (tmax := f.tmax) hf.prec_pos (Nat.mul_pos hD hDs) h').mpr (by
        have e1 : D * (scale m e).2 * 2 ^ f.tmax = D * ((scale m e).2 * 2 ^ f.tmax) := Nat.mul_assoc _ _ _
        rw [e1, ← heq]
        have h2 := Nat.mul_le_mul_left D hov
        have e2 : D * (2 ^ (f.prec + 1) * ((scale m e).2 * 2 ^ f.tmax)) =
            2 ^ (f.prec + 1) * (D * ((scale m e).2 * 2 ^ f.tmax)) := by ac_rfl
        have e3 : D * (2 * ((scale m e).1 * 2 ^ f.bias) + (scale m e).2 * 2 ^ f.tmax) =
            2 * ((scale m e).1 * 2 ^ f.bias * D) + D * ((scale m e).2 * 2 ^ f.tmax) := by
          rw [Nat.mul_add]; ac_rfl
        rw [e2, e3] at h2
        exact h2)
      omega
    · obtain ⟨q2, t2, r1, r2, r3⟩ := roundDec_main f hf m e hm he
      rw [r3] at hr
      split at hr
      · rename_i hgt
        have hle : (scale m e).1 * 2 ^ f.bias * D ≤ N * (scale m e).2 := Nat.le_of_eq heq
        have hge : N * (scale m e).2 ≤ (scale m e).1 * 2 ^ f.bias * D := Nat.le_of_eq heq.symm
        have a := IsRNE.mono hf.prec_pos hDs hD hle r1 h
        have b := IsRNE.mono hf.prec_pos hD hDs hge h r1
        obtain ⟨_, rfl⟩ := canonical_inj hf.prec_pos r2 hc (Nat.le_antisymm a b)
        omega
      · cases hr
  | some r =>
    obtain ⟨q2, t2⟩ := r
    obtain ⟨r1, r2, _⟩ := roundDec_spec f hf m e hm q2 t2 hr
    have hle : (scale m e).1 * 2 ^ f.bias * D ≤ N * (scale m e).2 := Nat.le_of_eq heq
    have hge : N * (scale m e).2 ≤ (scale m e).1 * 2 ^ f.bias * D := Nat.le_of_eq heq.symm
    have a := IsRNE.mono hf.prec_pos hDs hD hle r1 h
    have b := IsRNE.mono hf.prec_pos hD hDs hge h r1
    obtain ⟨rfl, rfl⟩ := canonical_inj hf.prec_pos r2 hc (Nat.le_antisymm a b)
    rfl

end SonicSpec.Num
