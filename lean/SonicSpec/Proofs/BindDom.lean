/-
  The two-phase decoder (`Opt`, optdec architecture) against the specification (`Bind`).
-/
import SonicSpec.Model.BindDom
import SonicSpec.Proofs.Bind
namespace SonicSpec.Opt
open SonicSpec SonicSpec.Go SonicSpec.Json SonicSpec.Bind

mutual
/-- the DOM of a parsed tree -/
def toDom (o : DecOpts) : RVal → Dom
  | .null => .null
  | .bool b => .bool b
  | .num l => mkNum o l
  | .str b u => .str b u
  | .arr raw xs => .arr raw (toDomElems o xs)
  | .obj raw kvs => .obj raw (toDomMembers o kvs)
def toDomElems (o : DecOpts) : List RVal → List Dom
  | [] => []
  | x :: xs => toDom o x :: toDomElems o xs
def toDomMembers (o : DecOpts) : List (Bytes × RVal) → List (Bytes × Dom)
  | [] => []
  | (k, x) :: kvs => (k, toDom o x) :: toDomMembers o kvs
end

mutual
/-- some number literal of the tree lies outside the float64 range -/
def ovf (o : DecOpts) : RVal → Bool
  | .num l => overflows o l
  | .arr _ xs => ovfElems o xs
  | .obj _ kvs => ovfMembers o kvs
  | _ => false
def ovfElems (o : DecOpts) : List RVal → Bool
  | [] => false
  | x :: xs => ovf o x || ovfElems o xs
def ovfMembers (o : DecOpts) : List (Bytes × RVal) → Bool
  | [] => false
  | (_, x) :: kvs => ovf o x || ovfMembers o kvs
end

/-- phase 1 is the strict parser followed by the conversions, failing exactly on an out-of-range literal -/
theorem parseDom_eq (o : DecOpts) (fail : Bool) : ∀ n : Nat,
    (∀ s, parseDom o fail n s = match parseR n s with
      | none => .error .syntax
      | some (v, r) => if fail && ovf o v then .error .syntax else .ok (toDom o v, r)) ∧
    (∀ s, parseDomElems o fail n s = match parseRElems n s with
      | none => .error .syntax
      | some (xs, r) => if fail && ovfElems o xs then .error .syntax else .ok (toDomElems o xs, r)) ∧
    (∀ s, parseDomMembers o fail n s = match parseRMembers n s with
      | none => .error .syntax
      | some (kvs, r) => if fail && ovfMembers o kvs then .error .syntax else .ok (toDomMembers o kvs, r)) := by
  intro n
  induction n with
  | zero => refine ⟨?_, ?_, ?_⟩ <;> intro s <;> simp [parseDom, parseDomElems, parseDomMembers, parseR, parseRElems, parseRMembers]
  | succ n ih =>
    obtain ⟨ihV, ihE, ihM⟩ := ih
    refine ⟨?_, ?_, ?_⟩
    · intro s
      unfold parseDom parseR
      split
      · simp [ovf, toDom]
      · simp [ovf, toDom]
      · simp [ovf, toDom]
      · rename_i r0
        cases hs : scanString r0 with
        | none => simp [hs]
        | some p =>
          obtain ⟨b, t⟩ := p
          cases hu : unquote b <;> simp [hs, hu, ovf, toDom]
      · rename_i r0
        split
        · rename_i t ht; simp [ht, ovf, ovfElems, toDom, toDomElems]
        · rw [ihE]
          cases he : parseRElems n (skipWs r0) with
          | none => simp [he]
          | some p =>
            obtain ⟨xs, t⟩ := p
            simp only [he, Option.map_some, ovf, toDom]
            by_cases hb : (fail && ovfElems o xs) = true <;> simp [hb]
      · rename_i r0
        split
        · rename_i t ht; simp [ht, ovf, ovfMembers, toDom, toDomMembers]
        · rw [ihM]
          cases he : parseRMembers n (skipWs r0) with
          | none => simp [he]
          | some p =>
            obtain ⟨xs, t⟩ := p
            simp only [he, Option.map_some, ovf, toDom]
            by_cases hb : (fail && ovfMembers o xs) = true <;> simp [hb]
      · cases hn : scanNumber s with
        | none => simp [hn]
        | some p =>
          obtain ⟨l, t⟩ := p
          simp only [hn, Option.map_some, ovf, toDom]
          rfl
    · intro s
      rw [parseDomElems, ihV]
      cases hv : parseR n s with
      | none => simp [parseRElems, hv]
      | some p =>
        obtain ⟨v, r1⟩ := p
        simp only []
        by_cases hb : (fail && ovf o v) = true
        · -- the first element already overflows
          have hfo : fail = true ∧ ovf o v = true := by simpa using hb
          simp only [hb, if_true]
          cases hm : parseRElems (n+1) s with
          | none => rfl
          | some q =>
            obtain ⟨xs, r⟩ := q
            unfold parseRElems at hm
            simp only [hv] at hm
            split at hm
            · simp at hm
              obtain ⟨a, _, ha⟩ := hm
              subst ha
              simp [ovfElems, hfo.1, hfo.2]
            · cases hm; simp [ovfElems, hfo.1, hfo.2]
            · cases hm
        · have hv' : ¬ (fail = true ∧ ovf o v = true) := by simpa using hb
          simp only [hb, Bool.false_eq_true, if_false]
          rw [parseRElems]
          simp only [hv]
          split
          · rename_i t ht
            simp only [ihE]
            cases he : parseRElems n (skipWs t) with
            | none => simp [ht, he]
            | some q =>
              obtain ⟨ys, t'⟩ := q
              simp only [ht, he, Option.map_some, ovfElems, toDomElems]
              by_cases hb2 : (fail && ovfElems o ys) = true
              · have : fail = true ∧ ovfElems o ys = true := by simpa using hb2
                simp [hb2, this.1, this.2]
              · have h2 : ¬ (fail = true ∧ ovfElems o ys = true) := by simpa using hb2
                have : (fail && (ovf o v || ovfElems o ys)) = false := by
                  cases fail <;> simp_all
                simp [hb2, this]
          · rename_i t ht
            have : (fail && (ovf o v || false)) = false := by cases fail <;> simp_all
            simp [ht, ovfElems, toDomElems, this]
            intro hf
            cases h : ovf o v <;> simp_all
          · rename_i h1 h2
            split
            · rfl
            · rename_i heq
              split at heq
              · rename_i t ht; exact absurd ht (h1 t)
              · rename_i t ht; exact absurd ht (h2 t)
              · cases heq
    · intro s
      unfold parseDomMembers parseRMembers
      split
      · rename_i r0
        cases hs : scanString r0 with
        | none => simp [hs]
        | some p =>
          obtain ⟨k, r1⟩ := p
          simp only [hs]
          split
          · rename_i r2 hr2
            cases hu : unquote k with
            | none => simp [hr2, hu]
            | some key =>
              simp only [hr2, hu]
              rw [ihV]
              cases hv : parseR n (skipWs r2) with
              | none => simp [hv]
              | some p =>
                obtain ⟨v, r3⟩ := p
                simp only [hv]
                by_cases hb : (fail && ovf o v) = true
                · have hfo : fail = true ∧ ovf o v = true := by simpa using hb
                  simp only [hb, if_true]
                  split
                  · rfl
                  · rename_i heq
                    split at heq
                    · simp at heq
                      obtain ⟨a, _, ha⟩ := heq
                      subst ha
                      simp [ovfMembers, hfo.1, hfo.2]
                    · cases heq; simp [ovfMembers, hfo.1, hfo.2]
                    · cases heq
                · have hv' : ¬ (fail = true ∧ ovf o v = true) := by simpa using hb
                  simp only [hb, Bool.false_eq_true, if_false]
                  split
                  · rename_i t ht
                    simp only [ihM]
                    cases he : parseRMembers n (skipWs t) with
                    | none => simp [ht, he]
                    | some q =>
                      obtain ⟨ys, t'⟩ := q
                      simp only [ht, he, Option.map_some, ovfMembers, toDomMembers]
                      by_cases hb2 : (fail && ovfMembers o ys) = true
                      · have : fail = true ∧ ovfMembers o ys = true := by simpa using hb2
                        simp [hb2, this.1, this.2]
                      · have h2 : ¬ (fail = true ∧ ovfMembers o ys = true) := by simpa using hb2
                        have : (fail && (ovf o v || ovfMembers o ys)) = false := by
                          cases fail <;> simp_all
                        simp [hb2, this]
                  · rename_i t ht
                    have : (fail && (ovf o v || false)) = false := by cases fail <;> simp_all
                    simp [ht, ovfMembers, toDomMembers, this]
                    intro hf
                    cases h : ovf o v <;> simp_all
                  · rename_i h1 h2
                    split
                    · rfl
                    · rename_i heq
                      split at heq
                      · rename_i t ht; exact absurd ht (h1 t)
                      · rename_i t ht; exact absurd ht (h2 t)
                      · cases heq
          · rename_i h58
            split
            · rfl
            · rename_i heq
              split at heq
              · rename_i r2 hr2; exact absurd hr2 (h58 r2)
              · cases heq
      · rename_i h34
        split
        · rfl
        · rename_i heq
          split at heq
          · exact absurd rfl (h34 _)
          · cases heq

/-! ### numbers: the parsed class against the text -/

theorem digitsVal_minus (r : Bytes) : digitsVal (45 :: r) = none := by
  simp [digitsVal, allDigits, isDigit]
theorem digitsVal_plus (r : Bytes) : digitsVal (43 :: r) = none := by
  simp [digitsVal, allDigits, isDigit]

theorem clsInt_classify (lit : Bytes) : clsInt (classify lit) = parseIntText lit := by
  unfold classify parseIntText
  split
  · rename_i r; cases hd : digitsVal r <;> simp [hd, clsInt]
  · rename_i r; cases hd : digitsVal r <;> simp [hd, clsInt]
  · rename_i s h1 h2
    cases hd : digitsVal lit <;> simp [hd, clsInt]

theorem clsUint_classify (lit : Bytes) : clsUint (classify lit) = digitsVal lit := by
  unfold classify
  split
  · rename_i r; rw [digitsVal_minus]; cases hd : digitsVal r <;> simp [hd, clsUint]
  · rename_i r; rw [digitsVal_plus]; cases hd : digitsVal r <;> simp [hd, clsUint]
  · rename_i s h1 h2
    cases hd : digitsVal lit <;> simp [hd, clsUint]

theorem domAnyNumber_eq (o : DecOpts) (lit : Bytes) :
    domAnyNumber o lit (classify lit) (floatHook64 o lit) = anyNumber o lit := by
  unfold domAnyNumber anyNumber bindInt
  rw [clsInt_classify]
  cases hu : o.useNumber <;> cases hi : o.useInt64 <;> cases hp : parseIntText lit <;>
    simp only [Bool.false_eq_true, if_false, if_true, Option.bind] <;>
    first | rfl | (cases hf : floatHook64 o lit <;> rfl) | (split <;> first | rfl | (cases hf : floatHook64 o lit <;> rfl) | (rename_i x; cases x <;> rfl)) | skip

theorem domStoreNumber_eq (o : DecOpts) (q : Quirks) (hf : q.f32ViaF64 = false) (lit : Bytes) (T : GoType) (cur : GoVal) :
    domStoreNumber o q lit (classify lit) (floatHook64 o lit) T cur = storeNumber o false lit T cur := by
  unfold domStoreNumber storeNumber
  cases T <;> simp only [clsInt_classify, clsUint_classify, domAnyNumber_eq, bindInt, bindUint, bindF64, domF32, hf]
  all_goals (first | rfl | (split <;> rfl) | skip)
  · rename_i w
    cases hp : parseIntText lit with
    | none => rfl
    | some n => cases hr : inRangeInt w n <;> simp [hr]
  · rename_i w
    cases hp : digitsVal lit with
    | none => rfl
    | some n => cases hr : inRangeUint w n <;> simp [hr]


/-! ### phase 2 on the DOM of a parsed tree is the binder of the specification (no quirks) -/

mutual
theorem domToAny_eq (o : DecOpts) : ∀ v : RVal, domToAny o false (toDom o v) = toAny o v
  | .null => by simp [toDom, domToAny, toAny]
  | .bool b => by simp [toDom, domToAny, toAny]
  | .num l => by simp [toDom, mkNum, domToAny, toAny, domAnyNumber_eq]
  | .str b u => by simp [toDom, domToAny, toAny]
  | .arr raw xs => by simp [toDom, domToAny, toAny, domAnyElems_eq o xs]
  | .obj raw kvs => by simp [toDom, domToAny, toAny, domAnyMembers_eq o kvs]
theorem domAnyElems_eq (o : DecOpts) : ∀ xs : List RVal, domAnyElems o false (toDomElems o xs) = anyElems o xs
  | [] => by simp [toDomElems, domAnyElems, anyElems]
  | x :: xs => by simp [toDomElems, domAnyElems, anyElems, domToAny_eq o x, domAnyElems_eq o xs]
theorem domAnyMembers_eq (o : DecOpts) : ∀ (kvs : List (Bytes × RVal)) (acc : List (GoVal × GoVal)),
    domAnyMembers o false (toDomMembers o kvs) acc = anyMembers o kvs acc
  | [], acc => by simp [toDomMembers, domAnyMembers, anyMembers]
  | (k, x) :: kvs, acc => by
    simp only [toDomMembers, domAnyMembers, anyMembers, domToAny_eq o x, Bool.false_and, Bool.false_eq_true, if_false]
    rw [domAnyMembers_eq o kvs]
end


theorem domBindQuoted_eq (o : DecOpts) (v : RVal) (T : GoType) (cur : GoVal) :
    domBindQuoted o (toDom o v) T cur = bindQuoted o v T cur := by
  cases v <;> simp [toDom, mkNum, domBindQuoted, bindQuoted]

mutual
theorem bindDom_eq (o : DecOpts) (q : Quirks) (hn : q.nullElem = false) (hf : q.f32ViaF64 = false) (hfm : q.fastmapNullDup = false) : ∀ (v : RVal) (T : GoType) (cur : GoVal),
    bindDom o q (toDom o v) T cur = bindVal o v T cur
  | .null, T, cur => by simp [toDom, bindDom, bindVal]
  | .bool b, T, cur => by simp [toDom, bindDom, bindVal]
  | .num l, T, cur => by simp [toDom, mkNum, bindDom, bindVal, domStoreNumber_eq o q hf]
  | .str b u, T, cur => by simp [toDom, bindDom, bindVal]
  | .arr raw xs, T, cur => by
    rw [toDom, bindDom, bindVal]
    cases hB : ptrBase T <;>
      simp only [hn, hfm, Bool.false_and, bindDomElems_eq o q hn hf hfm xs, domAnyElems_eq o xs]
  | .obj raw kvs, T, cur => by
    rw [toDom, bindDom, bindVal]
    cases hB : ptrBase T <;>
      simp only [hn, hfm, Bool.false_and, bindDomStruct_eq o q hn hf hfm kvs, bindDomMap_eq o q hn hf hfm kvs, domAnyMembers_eq o kvs]
theorem bindDomElems_eq (o : DecOpts) (q : Quirks) (hn : q.nullElem = false) (hf : q.f32ViaF64 = false) (hfm : q.fastmapNullDup = false) : ∀ (xs : List RVal) (t : GoType) (curs : List GoVal) (lim : Option Nat),
    bindDomElems o q (toDomElems o xs) t curs lim false = bindElems o xs t curs lim
  | [], t, curs, lim => by simp [toDomElems, bindDomElems, bindElems]
  | x :: xs, t, curs, lim => by
    rw [toDomElems, bindDomElems, bindElems]
    simp only [Bool.false_and, Bool.false_eq_true, if_false, bindDom_eq o q hn hf hfm x, bindDomElems_eq o q hn hf hfm xs]
theorem bindDomStruct_eq (o : DecOpts) (q : Quirks) (hn : q.nullElem = false) (hf : q.f32ViaF64 = false) (hfm : q.fastmapNullDup = false) : ∀ (kvs : List (Bytes × RVal)) (fields : List Field) (vs : List GoVal),
    bindDomStruct o q (toDomMembers o kvs) fields vs = bindStruct o kvs fields vs
  | [], fields, vs => by simp [toDomMembers, bindDomStruct, bindStruct]
  | (k, x) :: kvs, fields, vs => by
    rw [toDomMembers, bindDomStruct, bindStruct]
    cases hl : lookupField fields o.caseSensitive k <;>
      simp only [bindDomStruct_eq o q hn hf hfm kvs, bindDom_eq o q hn hf hfm x, domBindQuoted_eq]
theorem bindDomMap_eq (o : DecOpts) (q : Quirks) (hn : q.nullElem = false) (hf : q.f32ViaF64 = false) (hfm : q.fastmapNullDup = false) : ∀ (kvs : List (Bytes × RVal)) (K E : GoType) (acc : List (GoVal × GoVal)),
    bindDomMap o q (toDomMembers o kvs) K E acc false = bindMap o kvs K E acc
  | [], K, E, acc => by simp [toDomMembers, bindDomMap, bindMap]
  | (k, x) :: kvs, K, E, acc => by
    rw [toDomMembers, bindDomMap, bindMap]
    simp only [Bool.false_and, Bool.false_eq_true, if_false, bindDom_eq o q hn hf hfm x]
    cases hk : bindKey K k <;> simp only [bindDomMap_eq o q hn hf hfm kvs]
end


/-- phase 1 without refusal is the strict parser followed by the conversions -/
theorem parseDomDoc_eq (o : DecOpts) (fail : Bool) (s : Bytes) :
    parseDomDoc o fail s = match parseRDoc s with
      | none => .error .syntax
      | some v => if fail && ovf o v then .error .syntax else .ok (toDom o v) := by
  unfold parseDomDoc parseRDoc
  rw [(parseDom_eq o fail (s.length + 1)).1]
  cases hp : parseR (s.length + 1) (skipWs s) with
  | none => rfl
  | some p =>
    obtain ⟨v, r⟩ := p
    simp only []
    cases he : (skipWs r).isEmpty
    · have hne : skipWs r ≠ [] := by intro h; simp [h] at he
      by_cases hb : (fail && ovf o v) = true <;> simp [hb, hne]
    · have hnil : skipWs r = [] := by simpa using he
      by_cases hb : (fail && ovf o v) = true <;> simp [hb, hnil]

/-- REFINEMENT: whenever no quirk fires (no refused literal, the two value quirks off) the two-phase decoder
    returns exactly what the specification returns: value, partially filled value beside an error, error -/
theorem decodeFull_eq_of (q : Quirks) (o : DecOpts) (T : GoType) (s : Bytes)
    (hn : q.nullElem = false) (hf : q.f32ViaF64 = false) (hfm : (q.fastmapNullDup && fastmapOn o T) = false)
    (hov : ∀ j, parseRDoc s = some j → (q.eagerRange && eagerMode o T && ovf o j) = false) :
    decodeFull q o T s = Bind.decodeFull o T s := by
  unfold decodeFull Bind.decodeFull
  rw [parseDomDoc_eq]
  cases hp : parseRDoc s with
  | none => rfl
  | some j =>
    have := hov j hp
    simp only [this, Bool.false_eq_true, if_false]
    exact bindDom_eq o { q with fastmapNullDup := q.fastmapNullDup && fastmapOn o T } hn hf hfm j T (zeroOf T)

theorem decodeFull_none_eq (o : DecOpts) (T : GoType) (s : Bytes) :
    decodeFull .none o T s = Bind.decodeFull o T s :=
  decodeFull_eq_of .none o T s rfl rfl rfl (fun _ _ => by simp [Quirks.none])

theorem decode_none_eq (o : DecOpts) (T : GoType) (s : Bytes) :
    decode .none o T s = Bind.decode o T s := by
  unfold decode Bind.decode
  rw [decodeFull_none_eq]
  cases Bind.decodeFull o T s with
  | mk v e => cases e <;> rfl

end SonicSpec.Opt
