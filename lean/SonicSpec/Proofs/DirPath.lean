/-
  Decoder IR: the destination as a tree with paths - `getAt` / `setAt` algebra.
-/
import SonicSpec.Proofs.DirRun
namespace SonicSpec.Dir
open SonicSpec SonicSpec.Go

theorem getAt_nil (r : GoVal) : getAt r [] = some r := by
  cases r <;> rfl

theorem setAt_nil (r w : GoVal) : setAt r [] w = w := by
  cases r <;> rfl

/-- one step down -/
def child1 : GoVal → Sel → Option GoVal
  | .st vs, .child i => vs[i]?
  | .arr xs, .child i => xs[i]?
  | .sl xs, .child i => xs[i]?
  | .map kvs, .child i => (kvs[i]?).map (·.2)
  | .ptr v, .deref => some v
  | _, _ => none

/-- replace one child -/
def put1 : GoVal → Sel → GoVal → GoVal
  | .st vs, .child i, w => .st (vs.set i w)
  | .arr xs, .child i, w => .arr (xs.set i w)
  | .sl xs, .child i, w => .sl (xs.set i w)
  | .map kvs, .child i, w => (match kvs[i]? with
    | some kv => .map (kvs.set i (kv.1, w))
    | none => .map kvs)
  | .ptr _, .deref, w => .ptr w
  | v, _, _ => v

theorem getAt_cons (r : GoVal) (s : Sel) (p : Path) :
    getAt r (s :: p) = (child1 r s).bind fun x => getAt x p := by
  cases r <;> cases s <;> simp only [getAt, child1, Option.bind] <;> try rfl
  all_goals (first | (split <;> simp_all) | rfl)

theorem setAt_cons (r : GoVal) (s : Sel) (p : Path) (w : GoVal) :
    setAt r (s :: p) w = match child1 r s with
      | some x => put1 r s (setAt x p w)
      | none => r := by
  cases r <;> cases s <;> simp only [setAt, child1, put1] <;> try rfl
  all_goals (first | (split <;> simp_all) | rfl)

theorem getAt_append (r : GoVal) (p q : Path) :
    getAt r (p ++ q) = (getAt r p).bind fun x => getAt x q := by
  induction p generalizing r with
  | nil => simp [getAt_nil]
  | cons s p ih =>
    rw [List.cons_append, getAt_cons, getAt_cons]
    cases child1 r s with
    | none => rfl
    | some x => simp only [Option.bind]; exact ih x

theorem setAt_append (r : GoVal) (p q : Path) (x w : GoVal) (h : getAt r p = some x) :
    setAt r (p ++ q) w = setAt r p (setAt x q w) := by
  induction p generalizing r with
  | nil => rw [getAt_nil] at h; injection h with h; subst h; simp [setAt_nil]
  | cons s p ih =>
    rw [getAt_cons] at h
    rw [List.cons_append, setAt_cons, setAt_cons]
    cases hc : child1 r s with
    | none => simp [hc] at h
    | some y =>
      rw [hc] at h
      simp only [Option.bind] at h
      simp only
      rw [ih y h]

theorem set_getElem?_same {α : Type} (xs : List α) (i : Nat) (x : α) (h : xs[i]? = some x) : xs.set i x = xs := by
  obtain ⟨hl, he⟩ := List.getElem?_eq_some_iff.mp h
  rw [← he]
  exact List.set_getElem_self hl

theorem child1_put1 (r : GoVal) (s : Sel) (x w : GoVal) (h : child1 r s = some x) : child1 (put1 r s w) s = some w := by
  cases r with
  | st vs => cases s with
    | child i => simp only [child1, put1] at h ⊢; rw [List.getElem?_set_self (List.getElem?_eq_some_iff.mp h).1]
    | deref => cases h
  | arr vs => cases s with
    | child i => simp only [child1, put1] at h ⊢; rw [List.getElem?_set_self (List.getElem?_eq_some_iff.mp h).1]
    | deref => cases h
  | sl vs => cases s with
    | child i => simp only [child1, put1] at h ⊢; rw [List.getElem?_set_self (List.getElem?_eq_some_iff.mp h).1]
    | deref => cases h
  | map kvs => cases s with
    | child i =>
      simp only [child1] at h
      cases hk : kvs[i]? with
      | none => rw [hk] at h; cases h
      | some kv =>
        simp only [put1, hk, child1]
        rw [List.getElem?_set_self (List.getElem?_eq_some_iff.mp hk).1]
        rfl
    | deref => cases h
  | ptr v => cases s with
    | child i => cases h
    | deref => rfl
  | _ => cases s <;> cases h

theorem put1_put1 (r : GoVal) (s : Sel) (v w : GoVal) : put1 (put1 r s v) s w = put1 r s w := by
  cases r with
  | st vs => cases s with
    | child i => simp only [put1, List.set_set]
    | deref => rfl
  | arr vs => cases s with
    | child i => simp only [put1, List.set_set]
    | deref => rfl
  | sl vs => cases s with
    | child i => simp only [put1, List.set_set]
    | deref => rfl
  | map kvs => cases s with
    | child i =>
      cases hk : kvs[i]? with
      | none => simp only [put1, hk]
      | some kv =>
        simp only [put1, hk]
        rw [List.getElem?_set_self (List.getElem?_eq_some_iff.mp hk).1]
        simp only [List.set_set]
    | deref => rfl
  | ptr v => cases s <;> rfl
  | _ => cases s <;> rfl

theorem put1_same (r : GoVal) (s : Sel) (x : GoVal) (h : child1 r s = some x) : put1 r s x = r := by
  cases r with
  | st vs => cases s with
    | child i => simp only [child1, put1] at h ⊢; rw [set_getElem?_same _ _ _ h]
    | deref => cases h
  | arr vs => cases s with
    | child i => simp only [child1, put1] at h ⊢; rw [set_getElem?_same _ _ _ h]
    | deref => cases h
  | sl vs => cases s with
    | child i => simp only [child1, put1] at h ⊢; rw [set_getElem?_same _ _ _ h]
    | deref => cases h
  | map kvs => cases s with
    | child i =>
      simp only [child1] at h
      cases hk : kvs[i]? with
      | none => rw [hk] at h; cases h
      | some kv =>
        rw [hk] at h
        simp only [Option.map] at h
        injection h with h
        simp only [put1, hk]
        have : (kv.1, x) = kv := by rw [← h]
        rw [this, set_getElem?_same _ _ _ hk]
    | deref => cases h
  | ptr v => cases s with
    | child i => cases h
    | deref => simp only [child1] at h; injection h with h; rw [h]; rfl
  | _ => cases s <;> cases h

theorem getAt_setAt_self (r : GoVal) (p : Path) (x w : GoVal) (h : getAt r p = some x) : getAt (setAt r p w) p = some w := by
  induction p generalizing r with
  | nil => rw [setAt_nil, getAt_nil]
  | cons s p ih =>
    rw [getAt_cons] at h
    rw [setAt_cons]
    cases hc : child1 r s with
    | none => simp [hc] at h
    | some y =>
      rw [hc] at h
      simp only [Option.bind] at h
      simp only
      rw [getAt_cons, child1_put1 r s y _ hc]
      simp only [Option.bind]
      exact ih y h

theorem setAt_setAt (r : GoVal) (p : Path) (v w : GoVal) (x : GoVal) (h : getAt r p = some x) :
    setAt (setAt r p v) p w = setAt r p w := by
  induction p generalizing r with
  | nil => simp [setAt_nil]
  | cons s p ih =>
    rw [getAt_cons] at h
    rw [setAt_cons r]
    cases hc : child1 r s with
    | none => simp [hc] at h
    | some y =>
      rw [hc] at h
      simp only [Option.bind] at h
      simp only
      rw [setAt_cons, child1_put1 r s y _ hc]
      simp only
      rw [put1_put1, ih y h, setAt_cons, hc]

theorem setAt_same (r : GoVal) (p : Path) (x : GoVal) (h : getAt r p = some x) : setAt r p x = r := by
  induction p generalizing r with
  | nil => rw [getAt_nil] at h; injection h with h; rw [setAt_nil, h]
  | cons s p ih =>
    rw [getAt_cons] at h
    rw [setAt_cons]
    cases hc : child1 r s with
    | none => rfl
    | some y =>
      rw [hc] at h
      simp only [Option.bind] at h
      simp only
      rw [ih y h]
      exact put1_same r s y hc

/-- reading below a freshly written place -/
theorem getAt_setAt_below (r : GoVal) (p q : Path) (x w : GoVal) (h : getAt r p = some x) :
    getAt (setAt r p w) (p ++ q) = getAt w q := by
  rw [getAt_append, getAt_setAt_self r p x w h]
  rfl

/-- writing below a place = rewriting the place -/
theorem setAt_below (r : GoVal) (p q : Path) (x w : GoVal) (h : getAt r p = some x) :
    setAt r (p ++ q) w = setAt r p (setAt x q w) := setAt_append r p q x w h

/-- two writes, the second below the first -/
theorem setAt_setAt_below (r : GoVal) (p q : Path) (x v w : GoVal) (h : getAt r p = some x) :
    setAt (setAt r p v) (p ++ q) w = setAt r p (setAt v q w) := by
  rw [setAt_append _ p q v w (getAt_setAt_self r p x v h), setAt_setAt r p _ _ x h]

end SonicSpec.Dir
