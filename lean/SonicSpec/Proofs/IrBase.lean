/-
  Encoder IR, compiler correctness (1): the statement `CodeOK`, the one-instruction types, []byte, pointers.
-/
import SonicSpec.Proofs.IrRun
import SonicSpec.Model.IrSub
namespace SonicSpec.Ir
open SonicSpec SonicSpec.Go SonicSpec.Enc SonicSpec.Json

/-- the code of `T` placed anywhere, run on a cursor holding `v`, appends the rendering of `encV T v` and leaves
    registers and stack as they were - or stops with the specification's error -/
def CodeOK (o : EncOpts) (co : COpts) (T : GoType) (v : GoVal) : Prop :=
  ∀ (addr fpv : Bool) (P : Program) (pc sp : Nat) (pv : Bool) (r : Regs) (s : Stack) (b : Bytes),
    At P pc (code co pc sp pv T) → r.p.get = some v → s.length + need T ≤ maxStack →
    (∀ j, encV o addr T v = .ok j → ∀ res,
        Halts o co fpv P (pc + (code co pc sp pv T).length) r s (b ++ render j) res → Halts o co fpv P pc r s b res) ∧
    (∀ e, encV o addr T v = .error e → e = .unsupportedValue ∧ Halts o co fpv P pc r s b (.error (.enc e)))

variable {o : EncOpts} {co : COpts}

def leafRes (out : Except EErr Bytes) (pc : Nat) (r : Regs) (s : Stack) (b : Bytes) : StepRes :=
  match out with
  | .ok l => .next (pc + 1) r s (b ++ l)
  | .error e => .err (.enc e)

/-- a type whose code is one instruction that formats the value under the cursor -/
theorem leaf_ok {T : GoType} {v : GoVal} {ins : Instr} (out : Except EErr Bytes)
    (hcode : ∀ pc sp pv, code co pc sp pv T = [ins])
    (henc : ∀ addr, (encV o addr T v).map render = out)
    (hstep : ∀ pc r s b, r.p.get = some v → step o ins pc r s b = leafRes out pc r s b)
    (herr : ∀ e, out = .error e → e = .unsupportedValue) : CodeOK o co T v := by
  intro addr fpv P pc sp pv r s b hat hg _
  rw [hcode] at hat ⊢
  have he := henc addr
  have hst := hstep pc r s b hg
  constructor
  · intro j hj res h
    rw [hj] at he
    simp only [Except.map] at he
    rw [← he] at hst
    simp only [leafRes] at hst
    exact halts_step hat.head hst (by simpa using h)
  · intro e hj
    rw [hj] at he
    simp only [Except.map] at he
    rw [← he] at hst
    simp only [leafRes] at hst
    exact ⟨herr e he.symm, halts_err hat.head hst⟩

theorem render_floatVal (l : Bytes) : render (if l == nullLit then JVal.null else JVal.num l) = l := by
  split
  · rename_i h; simp only [beq_iff_eq] at h; subst h; rfl
  · rfl

theorem floatLit_err {o : EncOpts} {x : Option Bytes} {e : EErr} (h : floatLit o x = .error e) : e = .unsupportedValue := by
  unfold floatLit at h
  split at h
  · cases h
  · split at h
    · cases h
    · injection h with h; exact h.symm

theorem numberLit_err {x : Bytes} {e : EErr} (h : numberLit x = .error e) : e = .unsupportedValue := by
  unfold numberLit at h
  split at h
  · cases h
  · split at h
    · cases h
    · injection h with h; exact h.symm

theorem codeOK_bool (x : Bool) : CodeOK o co .bool (.bool x) :=
  leaf_ok (.ok (render (.bool x))) (fun _ _ _ => by rw [code]) (fun _ => by simp only [encV, Except.map])
    (fun pc r s b hg => by simp only [step, hg, leafRes]) (fun e h => by cases h)

theorem codeOK_int (bits : Nat) (n : Int) : CodeOK o co (.int bits) (.int n) :=
  leaf_ok (.ok (intDec n)) (fun _ _ _ => by rw [code]) (fun _ => by simp only [encV, Except.map, render])
    (fun pc r s b hg => by
      unfold intOp
      split
      · simp only [step, hg, leafRes]
      · split
        · simp only [step, hg, leafRes]
        · split <;> simp only [step, hg, leafRes]) (fun e h => by cases h)

theorem codeOK_uint (bits : Nat) (n : Nat) : CodeOK o co (.uint bits) (.uint n) :=
  leaf_ok (.ok (natDec n)) (fun _ _ _ => by rw [code]) (fun _ => by simp only [encV, Except.map, render])
    (fun pc r s b hg => by
      unfold uintOp
      split
      · simp only [step, hg, leafRes]
      · split
        · simp only [step, hg, leafRes]
        · split <;> simp only [step, hg, leafRes]) (fun e h => by cases h)

theorem codeOK_f64 (x : UInt64) : CodeOK o co .f64 (.f64 x) :=
  leaf_ok (floatLit o (fmtF64 x)) (fun _ _ _ => by rw [code])
    (fun _ => by
      simp only [encV]
      cases floatLit o (fmtF64 x) with
      | error e => rfl
      | ok l => simp only [Except.map, render_floatVal])
    (fun pc r s b hg => by simp only [step, hg, floatOut]; cases floatLit o (fmtF64 x) <;> rfl)
    (fun e h => floatLit_err h)

theorem codeOK_f32 (x : UInt32) : CodeOK o co .f32 (.f32 x) :=
  leaf_ok (floatLit o (fmtF32 x)) (fun _ _ _ => by rw [code])
    (fun _ => by
      simp only [encV]
      cases floatLit o (fmtF32 x) with
      | error e => rfl
      | ok l => simp only [Except.map, render_floatVal])
    (fun pc r s b hg => by simp only [step, hg, floatOut]; cases floatLit o (fmtF32 x) <;> rfl)
    (fun e h => floatLit_err h)

theorem codeOK_str (x : Bytes) : CodeOK o co .str (.str x) :=
  leaf_ok (.ok (quoteLit o.escapeHTML o.validateString x)) (fun _ _ _ => by rw [code])
    (fun _ => by simp only [encV, Except.map, render, strVal, quoteLit])
    (fun pc r s b hg => by simp only [step, hg, leafRes]) (fun e h => by cases h)

theorem codeOK_num (x : Bytes) : CodeOK o co .num (.num x) :=
  leaf_ok (numberLit x) (fun _ _ _ => by rw [code])
    (fun _ => by
      simp only [encV]
      cases numberLit x with
      | error e => rfl
      | ok l => simp only [Except.map, render])
    (fun pc r s b hg => by simp only [step, hg, leafRes]; cases numberLit x <;> rfl)
    (fun e h => numberLit_err h)


theorem At.get {P : Program} {pc q : Nat} {c : Program} (h : At P pc c) (i : Nat) {ins : Instr} (hq : q = pc + i) (hi : c[i]? = some ins) :
    P[q]? = some ins := by
  obtain ⟨pre, post, rfl, hl⟩ := h
  subst hl hq
  rw [List.append_assoc, List.getElem?_append_right (by omega)]
  simp only [Nat.add_sub_cancel_left]
  rw [List.getElem?_append_left (by
    rcases Nat.lt_or_ge i c.length with h | h
    · exact h
    · rw [List.getElem?_eq_none h] at hi; cases hi)]
  exact hi

theorem At.skip {P : Program} {pc : Nat} {c : Program} (h : At P pc c) (n : Nat) (hn : n ≤ c.length := by simp) :
    At P (pc + n) (c.drop n) := by
  have h' : At P pc (c.take n ++ c.drop n) := by rw [List.take_append_drop]; exact h
  exact At.right' h' (by rw [List.length_take, Nat.min_eq_left hn])

theorem halts_cast {fpv : Bool} {P : Program} {pc pc' : Nat} {r r' : Regs} {s s' : Stack} {b b' : Bytes} {res : Res}
    (h : Halts o co fpv P pc' r' s' b' res) (hpc : pc = pc') (hr : r = r') (hs : s = s') (hb : b = b') :
    Halts o co fpv P pc r s b res := by subst hpc hr hs hb; exact h

theorem codeOK_bytes (v : GoVal) (hc : Conf .bytes v = true) : CodeOK o co .bytes v := by
  intro addr fpv P pc sp pv r s b hat hg _
  rw [code] at hat ⊢
  cases v <;> try (simp [Conf] at hc; done)
  case nil =>
    constructor
    · intro j hj res h
      simp only [encV] at hj
      injection hj with hj; subst hj
      refine halts_step (hat.get 0 (by omega) rfl) (by simp only [step, hg, jumpIf]; rfl) ?_
      refine halts_step (hat.get 3 (by omega) rfl) (by simp only [step]; rfl) ?_
      exact halts_cast h (by simp) rfl rfl rfl
    · intro e he; simp only [encV] at he; cases he
  case bytes x =>
    constructor
    · intro j hj res h
      simp only [encV] at hj
      injection hj with hj; subst hj
      refine halts_step (hat.get 0 (by omega) rfl) (by simp only [step, hg, jumpIf]; rfl) ?_
      refine halts_step (hat.get 1 (by omega) rfl) (by simp only [step, hg]; rfl) ?_
      refine halts_step (hat.get 2 (by omega) rfl) (by simp only [step]; rfl) ?_
      exact halts_cast h (by simp) rfl rfl (by simp [render])
    · intro e he; simp only [encV] at he; cases he



theorem codeOK_ptr_nil (t : GoType) : CodeOK o co (.ptr t) .nil := by
  intro addr fpv P pc sp pv r s b hat hg _
  rw [code] at hat ⊢
  simp only [List.cons_append, List.nil_append] at hat ⊢
  constructor
  · intro j hj res h
    simp only [encV] at hj
    injection hj with hj; subst hj
    refine halts_step (hat.get 0 (by omega) rfl) (by simp only [step, hg, jumpIf]; rfl) ?_
    have h3 : At P (pc + 3) (code co (pc + 3) (sp + 1) true t ++ _) := hat.skip 3
    have htl := h3.right
    refine halts_step (htl.get 2 (by omega) rfl) (by simp only [step]; rfl) ?_
    exact halts_cast h (by simp; omega) rfl rfl rfl
  · intro e he; simp only [encV] at he; cases he

theorem codeOK_ptr (t : GoType) (w : GoVal) (ih : CodeOK o co t w) : CodeOK o co (.ptr t) (.ptr w) := by
  intro addr fpv P pc sp pv r s b hat hg hs
  rw [code] at hat ⊢
  simp only [List.cons_append, List.nil_append] at hat ⊢
  simp only [need] at hs
  have hsave : step o (.save false) (pc + 1) r s b = .next (pc + 1 + 1) r (r :: s) b := by
    simp only [step]
    rw [if_neg (by omega)]
    simp
  have h3 : At P (pc + 3) (code co (pc + 3) (sp + 1) true t ++ _) := hat.skip 3
  have hbody := h3.left
  have htl := h3.right
  obtain ⟨ihok, iherr⟩ := ih true fpv P (pc + 3) (sp + 1) true { r with p := .val w } (r :: s) b hbody rfl (by simp; omega)
  simp only [encV]
  constructor
  · intro j hj res h
    refine halts_step (hat.get 0 (by omega) rfl) (by simp only [step, hg, jumpIf]; rfl) ?_
    refine halts_step (hat.get 1 (by omega) rfl) hsave ?_
    refine halts_step (hat.get 2 (by omega) rfl) (by simp only [step, hg]; rfl) ?_
    refine halts_cast (ihok j hj res ?_) (by omega) rfl rfl rfl
    refine halts_step (htl.get 0 (by omega) rfl) (by simp only [step]; rfl) ?_
    refine halts_step (htl.get 1 (by omega) rfl) (by simp only [step]; rfl) ?_
    exact halts_cast h (by simp; omega) rfl rfl rfl
  · intro e he
    obtain ⟨h1, h2⟩ := iherr e he
    refine ⟨h1, ?_⟩
    refine halts_step (hat.get 0 (by omega) rfl) (by simp only [step, hg, jumpIf]; rfl) ?_
    refine halts_step (hat.get 1 (by omega) rfl) hsave ?_
    refine halts_step (hat.get 2 (by omega) rfl) (by simp only [step, hg]; rfl) ?_
    exact halts_cast h2 (by omega) rfl rfl rfl

end SonicSpec.Ir
