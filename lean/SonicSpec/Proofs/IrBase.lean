/-
  Encoder IR, compiler correctness (1): the statement `CodeOK`, the one-instruction types, []byte, pointers.
-/
import SonicSpec.Proofs.IrRun
import SonicSpec.Model.IrSub
namespace SonicSpec.Ir
open SonicSpec SonicSpec.Go SonicSpec.Enc SonicSpec.Json

/-- `Compiler.tab` growing does not bring names back -/
theorem tabHas_cons (T U : GoType) (tab : List GoType) : tabHas (T :: tab) U = (typeEq U T || tabHas tab U) := by
  simp [tabHas]

theorem libLeft_cons_le (T : GoType) (tab : List GoType) : libLeft (T :: tab) ≤ libLeft tab := by
  unfold libLeft libNames
  simp only [List.filter, tabHas_cons]
  cases typeEq (.lib "Rec") T <;> cases typeEq (.lib "Tree") T <;> cases tabHas tab (.lib "Rec") <;> cases tabHas tab (.lib "Tree") <;> simp

theorem libLeft_lib_lt {n : String} {tab : List GoType} (hn : libNames.contains n = true) (ht : tabHas tab (.lib n) = false) :
    libLeft (.lib n :: tab) < libLeft tab := by
  unfold libLeft libNames at *
  simp only [List.filter, tabHas_cons]
  simp at hn
  rcases hn with rfl | rfl
  · simp [typeEq, ht]
  · simp [typeEq, ht]
    cases tabHas tab (.lib "Rec") <;> simp

theorem libLeft_nil : libLeft [] = libNames.length := by decide

/-- the code of `T` placed anywhere (compiled with any unfolding level `k` that covers the names not yet in `tab`), run on
    a cursor holding `v`, appends the rendering of `encV T v` and leaves registers and stack as they were - or stops
    with the specification's error -/
def CodeOK (o : EncOpts) (co : COpts) (T : GoType) (v : GoVal) : Prop :=
  ∀ (k : Nat) (tab : List GoType), libLeft tab ≤ k →
  ∀ (addr fpv : Bool) (P : Program) (pc sp : Nat) (pv : Bool) (r : Regs) (s : Stack) (b : Bytes),
    At P pc (code co (libK co k) tab pc sp pv T) → r.p.get = some v → s.length + needV T v ≤ maxStack →
    (∀ j, encV o addr T v = .ok j → ∀ res,
        Halts o co fpv P (pc + (code co (libK co k) tab pc sp pv T).length) r s (b ++ render j) res → Halts o co fpv P pc r s b res) ∧
    (∀ e, encV o addr T v = .error e → e = .unsupportedValue ∧ Halts o co fpv P pc r s b (.error (.enc e)))

/-- the same when `T` is not among the types being compiled (`compileRec`; otherwise the code is one OP_recurse) -/
def CodeOKn (o : EncOpts) (co : COpts) (T : GoType) (v : GoVal) : Prop :=
  ∀ (k : Nat) (tab : List GoType), libLeft tab ≤ k → tabHas tab T = false →
  ∀ (addr fpv : Bool) (P : Program) (pc sp : Nat) (pv : Bool) (r : Regs) (s : Stack) (b : Bytes),
    At P pc (code co (libK co k) tab pc sp pv T) → r.p.get = some v → s.length + needV T v ≤ maxStack →
    (∀ j, encV o addr T v = .ok j → ∀ res,
        Halts o co fpv P (pc + (code co (libK co k) tab pc sp pv T).length) r s (b ++ render j) res → Halts o co fpv P pc r s b res) ∧
    (∀ e, encV o addr T v = .error e → e = .unsupportedValue ∧ Halts o co fpv P pc r s b (.error (.enc e)))

variable {o : EncOpts} {co : COpts}

def leafRes (out : Except EErr Bytes) (pc : Nat) (r : Regs) (s : Stack) (b : Bytes) : StepRes :=
  match out with
  | .ok l => .next (pc + 1) r s (b ++ l)
  | .error e => .err (.enc e)

/-- a type whose code is one instruction that formats the value under the cursor -/
theorem leaf_ok {T : GoType} {v : GoVal} {ins : Instr} (out : Except EErr Bytes)
    (hcode : ∀ lib tab pc sp pv, code co lib tab pc sp pv T = [ins])
    (henc : ∀ addr, (encV o addr T v).map render = out)
    (hstep : ∀ pc r s b, r.p.get = some v → step o ins pc r s b = leafRes out pc r s b)
    (herr : ∀ e, out = .error e → e = .unsupportedValue) : CodeOK o co T v := by
  intro k tab _hk addr fpv P pc sp pv r s b hat hg _hs
  rw [hcode] at hat ⊢
  have he := henc addr
  have hst := hstep pc r s b hg
  constructor
  · intro j hj res h
    rw [hj] at he
    simp only [Except.map] at he
    rw [← he] at hst
    simp only [leafRes] at hst
    exact halts_step hat.head hst (by simpa using h)
  · intro e hj
    rw [hj] at he
    simp only [Except.map] at he
    rw [← he] at hst
    simp only [leafRes] at hst
    exact ⟨herr e he.symm, halts_err hat.head hst⟩

theorem render_floatVal (l : Bytes) : render (if l == nullLit then JVal.null else JVal.num l) = l := by
  split
  · rename_i h; simp only [beq_iff_eq] at h; subst h; rfl
  · rfl

theorem floatLit_err {o : EncOpts} {x : Option Bytes} {e : EErr} (h : floatLit o x = .error e) : e = .unsupportedValue := by
  unfold floatLit at h
  split at h
  · cases h
  · split at h
    · cases h
    · injection h with h; exact h.symm

theorem numberLit_err {x : Bytes} {e : EErr} (h : numberLit x = .error e) : e = .unsupportedValue := by
  unfold numberLit at h
  split at h
  · cases h
  · split at h
    · cases h
    · injection h with h; exact h.symm

theorem codeOK_bool (x : Bool) : CodeOK o co .bool (.bool x) :=
  leaf_ok (.ok (render (.bool x))) (fun _ _ _ _ _ => by rw [code]) (fun _ => by simp only [encV, Except.map])
    (fun pc r s b hg => by simp only [step, hg, leafRes]) (fun e h => by cases h)

theorem codeOK_int (bits : Nat) (n : Int) : CodeOK o co (.int bits) (.int n) :=
  leaf_ok (.ok (intDec n)) (fun _ _ _ _ _ => by rw [code]) (fun _ => by simp only [encV, Except.map, render])
    (fun pc r s b hg => by
      unfold intOp
      split
      · simp only [step, hg, leafRes]
      · split
        · simp only [step, hg, leafRes]
        · split <;> simp only [step, hg, leafRes]) (fun e h => by cases h)

theorem codeOK_uint (bits : Nat) (n : Nat) : CodeOK o co (.uint bits) (.uint n) :=
  leaf_ok (.ok (natDec n)) (fun _ _ _ _ _ => by rw [code]) (fun _ => by simp only [encV, Except.map, render])
    (fun pc r s b hg => by
      unfold uintOp
      split
      · simp only [step, hg, leafRes]
      · split
        · simp only [step, hg, leafRes]
        · split <;> simp only [step, hg, leafRes]) (fun e h => by cases h)

theorem codeOK_f64 (x : UInt64) : CodeOK o co .f64 (.f64 x) :=
  leaf_ok (floatLit o (fmtF64 x)) (fun _ _ _ _ _ => by rw [code])
    (fun _ => by
      simp only [encV]
      cases floatLit o (fmtF64 x) with
      | error e => rfl
      | ok l => simp only [Except.map, render_floatVal])
    (fun pc r s b hg => by simp only [step, hg, floatOut]; cases floatLit o (fmtF64 x) <;> rfl)
    (fun e h => floatLit_err h)

theorem codeOK_f32 (x : UInt32) : CodeOK o co .f32 (.f32 x) :=
  leaf_ok (floatLit o (fmtF32 x)) (fun _ _ _ _ _ => by rw [code])
    (fun _ => by
      simp only [encV]
      cases floatLit o (fmtF32 x) with
      | error e => rfl
      | ok l => simp only [Except.map, render_floatVal])
    (fun pc r s b hg => by simp only [step, hg, floatOut]; cases floatLit o (fmtF32 x) <;> rfl)
    (fun e h => floatLit_err h)

theorem codeOK_str (x : Bytes) : CodeOK o co .str (.str x) :=
  leaf_ok (.ok (quoteLit o.escapeHTML o.validateString x)) (fun _ _ _ _ _ => by rw [code])
    (fun _ => by simp only [encV, Except.map, render, strVal, quoteLit])
    (fun pc r s b hg => by simp only [step, hg, leafRes]) (fun e h => by cases h)

theorem codeOK_num (x : Bytes) : CodeOK o co .num (.num x) :=
  leaf_ok (numberLit x) (fun _ _ _ _ _ => by rw [code])
    (fun _ => by
      simp only [encV]
      cases numberLit x with
      | error e => rfl
      | ok l => simp only [Except.map, render])
    (fun pc r s b hg => by simp only [step, hg, leafRes]; cases numberLit x <;> rfl)
    (fun e h => numberLit_err h)


theorem At.get {P : Program} {pc q : Nat} {c : Program} (h : At P pc c) (i : Nat) {ins : Instr} (hq : q = pc + i) (hi : c[i]? = some ins) :
    P[q]? = some ins := by
  obtain ⟨pre, post, rfl, hl⟩ := h
  subst hl hq
  rw [List.append_assoc, List.getElem?_append_right (by omega)]
  simp only [Nat.add_sub_cancel_left]
  rw [List.getElem?_append_left (by
    rcases Nat.lt_or_ge i c.length with h | h
    · exact h
    · rw [List.getElem?_eq_none h] at hi; cases hi)]
  exact hi

theorem At.skip {P : Program} {pc : Nat} {c : Program} (h : At P pc c) (n : Nat) (hn : n ≤ c.length := by simp) :
    At P (pc + n) (c.drop n) := by
  have h' : At P pc (c.take n ++ c.drop n) := by rw [List.take_append_drop]; exact h
  exact At.right' h' (by rw [List.length_take, Nat.min_eq_left hn])

theorem halts_cast {fpv : Bool} {P : Program} {pc pc' : Nat} {r r' : Regs} {s s' : Stack} {b b' : Bytes} {res : Res}
    (h : Halts o co fpv P pc' r' s' b' res) (hpc : pc = pc') (hr : r = r') (hs : s = s') (hb : b = b') :
    Halts o co fpv P pc r s b res := by subst hpc hr hs hb; exact h

theorem codeOK_bytes {c0 : COpts} (v : GoVal) (hc : Conf c0 .bytes v = true) : CodeOK o co .bytes v := by
  intro k tab _hk addr fpv P pc sp pv r s b hat hg _hs
  rw [code] at hat ⊢
  cases v <;> try (simp [Conf] at hc; done)
  case nil =>
    constructor
    · intro j hj res h
      simp only [encV] at hj
      injection hj with hj; subst hj
      refine halts_step (hat.get 0 (by omega) rfl) (by simp only [step, hg, jumpIf]; rfl) ?_
      refine halts_step (hat.get 3 (by omega) rfl) (by simp only [step]; rfl) ?_
      exact halts_cast h (by simp) rfl rfl rfl
    · intro e he; simp only [encV] at he; cases he
  case bytes x =>
    constructor
    · intro j hj res h
      simp only [encV] at hj
      injection hj with hj; subst hj
      refine halts_step (hat.get 0 (by omega) rfl) (by simp only [step, hg, jumpIf]; rfl) ?_
      refine halts_step (hat.get 1 (by omega) rfl) (by simp only [step, hg]; rfl) ?_
      refine halts_step (hat.get 2 (by omega) rfl) (by simp only [step]; rfl) ?_
      exact halts_cast h (by simp) rfl rfl (by simp [render])
    · intro e he; simp only [encV] at he; cases he



theorem codeOK_ptr_nil (t : GoType) (hcb : ∀ pc, cbPtrCode t pc = none) : CodeOKn o co (.ptr t) .nil := by
  intro k tab _hk hnh addr fpv P pc sp pv r s b hat hg _hs
  rw [code, if_neg (by simp [hnh])] at hat ⊢
  simp only [hcb] at hat ⊢
  simp only [List.cons_append, List.nil_append] at hat ⊢
  constructor
  · intro j hj res h
    simp only [encV] at hj
    injection hj with hj; subst hj
    refine halts_step (hat.get 0 (by omega) rfl) (by simp only [step, hg, jumpIf]; rfl) ?_
    have h3 : At P (pc + 3) (code co (libK co k) (.ptr t :: tab) (pc + 3) (sp + 1) true t ++ _) := hat.skip 3
    have htl := h3.right
    refine halts_step (htl.get 2 (by omega) rfl) (by simp only [step]; rfl) ?_
    exact halts_cast h (by simp; omega) rfl rfl rfl
  · intro e he; simp only [encV] at he; cases he

theorem codeOK_ptr (t : GoType) (hcb : ∀ pc, cbPtrCode t pc = none) (w : GoVal) (ih : CodeOK o co t w) : CodeOKn o co (.ptr t) (.ptr w) := by
  intro k tab hk hnh addr fpv P pc sp pv r s b hat hg hs
  rw [code, if_neg (by simp [hnh])] at hat ⊢
  simp only [hcb] at hat ⊢
  simp only [List.cons_append, List.nil_append] at hat ⊢
  simp only [needV] at hs
  have hsave : step o (.save false) (pc + 1) r s b = .next (pc + 1 + 1) r (r :: s) b := by
    simp only [step]
    rw [if_neg (by omega)]
    simp
  have h3 : At P (pc + 3) (code co (libK co k) (.ptr t :: tab) (pc + 3) (sp + 1) true t ++ _) := hat.skip 3
  have hbody := h3.left
  have htl := h3.right
  obtain ⟨ihok, iherr⟩ := ih k (.ptr t :: tab) (Nat.le_trans (libLeft_cons_le _ _) hk) true fpv P (pc + 3) (sp + 1) true { r with p := .val w } (r :: s) b hbody rfl (by simp; omega)
  simp only [encV]
  constructor
  · intro j hj res h
    refine halts_step (hat.get 0 (by omega) rfl) (by simp only [step, hg, jumpIf]; rfl) ?_
    refine halts_step (hat.get 1 (by omega) rfl) hsave ?_
    refine halts_step (hat.get 2 (by omega) rfl) (by simp only [step, hg]; rfl) ?_
    refine halts_cast (ihok j hj res ?_) (by omega) rfl rfl rfl
    refine halts_step (htl.get 0 (by omega) rfl) (by simp only [step]; rfl) ?_
    refine halts_step (htl.get 1 (by omega) rfl) (by simp only [step]; rfl) ?_
    exact halts_cast h (by simp; omega) rfl rfl rfl
  · intro e he
    obtain ⟨h1, h2⟩ := iherr e he
    refine ⟨h1, ?_⟩
    refine halts_step (hat.get 0 (by omega) rfl) (by simp only [step, hg, jumpIf]; rfl) ?_
    refine halts_step (hat.get 1 (by omega) rfl) hsave ?_
    refine halts_step (hat.get 2 (by omega) rfl) (by simp only [step, hg]; rfl) ?_
    exact halts_cast h2 (by omega) rfl rfl rfl


/-- a type met while it is being compiled: OP_recurse runs the type's own program (compiled from an empty `tab`) -/
theorem codeOK_of_nohit {T : GoType} {v : GoVal}
    (hrec : ∀ lib tab pc sp pv, tabHas tab T = true → code co lib tab pc sp pv T = [Instr.recurse T pv])
    (hn : CodeOKn o co T v) : CodeOK o co T v := by
  intro k tab hk addr fpv P pc sp pv r s b hat hg hs
  cases hit : tabHas tab T with
  | false => exact hn k tab hk hit addr fpv P pc sp pv r s b hat hg hs
  | true =>
    rw [hrec _ _ _ _ _ hit] at hat ⊢
    obtain ⟨cok, cerr⟩ := hn libNames.length [] (Nat.le_of_eq libLeft_nil) rfl addr (fpv || pv)
      (compile co T (fpv || pv)) 0 0 (fpv || pv) (Regs.start r.p) s b (At.whole _) hg hs
    have hstep : step o (Instr.recurse T pv) pc r s b = .call T pv r.p := by simp only [step]
    constructor
    · intro j hj res h
      refine halts_call (hat.get 0 (by omega) rfl) hstep ?_ (halts_cast h (by simp) rfl rfl rfl)
      exact cok j hj _ (halts_done (At.end_none (by unfold compile; simp)))
    · intro e hj
      obtain ⟨h1, h2⟩ := cerr e hj
      exact ⟨h1, halts_callErr (hat.get 0 (by omega) rfl) hstep h2⟩

/-- a type with nothing inside: no test of `tab` is compiled -/
theorem codeOKn_of_codeOK {T : GoType} {v : GoVal} (h : CodeOK o co T v) : CodeOKn o co T v :=
  fun k tab hk _ => h k tab hk

end SonicSpec.Ir
