/-
  Driver for the encoder-IR core (C12 / C03 deep part).
    irdis <T> <pv 0|1> [<MaxInlineDepth> [<EncOnlyOmitNull 0|1>]]
        model=ok n=<instructions> dis=<hex of the disassembly of `Ir.compile`>, in the text format of
        go/harness/ops_ir_hook.go;  model=panic when a `Program.Tag` / map-key check of the real compiler
        fails;  model=unsupported for types with a named (library) type inside
    irmar <cfgbits> <T> <V> [out=<hex>|out=~]
        model=ok mout=<hex> | model=err:<kind> | model=unsupported: `Ir.execFuel` on `Ir.compile T false`;
        spec=eq|ne   `Enc.encode` gives the same answer
        so=eq|ne|~   the model's text ~ the implementation's text (token equivalence `Enc.textEq`: escape spelling free)
        sub=1|0      (T, V) lies in the sub-universe of Props/C12 `exec_compile_eq_encode_partial`
-/
import SonicSpec.Model.IrSub
import SonicSpec.Driver.Enc
namespace SonicSpec.Driver.Ir
open SonicSpec SonicSpec.Enc SonicSpec.Go SonicSpec.Ir

mutual
/-- no named type among the dynamic types of the interfaces inside a value -/
def valOK : GoVal → Bool
  | .any t v => noLib t && valOK v
  | .ptr v => valOK v
  | .sl xs | .arr xs | .st xs => valsOK xs
  | .map kvs => entriesOK kvs
  | .raw _ => false
  | _ => true
def valsOK : List GoVal → Bool
  | [] => true
  | v :: r => valOK v && valsOK r
def entriesOK : List (GoVal × GoVal) → Bool
  | [] => true
  | (k, v) :: r => valOK k && valOK v && entriesOK r
end

def coOf (rest : List String) : COpts :=
  let d := (rest.head?.bind String.toNat?).getD Gen.defaultMaxInlineDepth.toNat
  { maxInlineDepth := d, encOnlyOmitNull := rest.drop 1 == ["1"] }

def handleDis (T pv : String) (rest : List String) : Option String := do
  let t ← parseType T
  let co := coOf rest
  if !noLib t then pure "model=unsupported"
  else if !tagOK co 0 t then pure "model=panic"
  else
    let p := compile co t (pv == "1")
    -- a pointer-receiver callback type that is not addressable is compiled as the plain struct it is: outside the model
    if p.any (fun i => match i with | .unsupported _ => true | _ => false) then pure "model=unsupported" else
    pure s!"model=ok\tn={p.length}\tdis={hexArg (disasm p).toUTF8.toList}"

def xerrName : XErr → String
  | .enc e => Enc.errName e
  | .tooDeep => "too_deep"
  | .stuck => "stuck"

def handleMar (cfg T V : String) (rest : List String) : Option String := do
  let bits ← cfg.toNat?
  let t ← parseType T
  let v0 ← parseVal V
  let o := Enc.optsOfCfg bits
  let co : COpts := {}
  match prepV t v0 with
  | none => pure "model=unsupported\twhy=value"
  | some v =>
    let out := Enc.field rest "out"
    let sub := if Sub t && Conf co t v && decide (needV t v ≤ maxStack) then "1" else "0"
    if !noLib t || !valOK v || !tagOK co 0 t then pure "model=unsupported"
    else
      let spec := encode o t v
      match execFuel 1000000000 o co (compile co t false) v with
      | none => pure "model=unsupported\twhy=fuel"
      | some (.error .stuck) => pure "model=unsupported\twhy=stuck"
      | some (.error (.enc .unchecked)) => pure "model=unsupported\twhy=unchecked"   -- the specification makes no claim
      | some (.error (.enc .unsupportedType)) =>
        -- a pointer-receiver callback type that is not addressable (compiled as a plain struct: outside the model), or a type
        -- the specification refuses as well
        match spec with
        | .error .unsupportedType => pure s!"model=err:unsupported_type\tspec=eq\tsub={sub}"
        | _ => pure "model=unsupported\twhy=callback"
      | some (.error e) =>
        let same := match e, spec with
          | .enc a, .error b => a == b
          | .tooDeep, _ => true
          | _, _ => false
        pure s!"model=err:{xerrName e}\tspec={if same then "eq" else "ne"}\tsub={sub}"
      | some (.ok m) =>
        let same := match spec with
          | .ok s => s == m
          | _ => false
        pure s!"model=ok\tmout={hexArg m}\tspec={if same then "eq" else "ne"}\tso={Enc.rel o.sortMapKeys (some m) out}\tsub={sub}"

def handle : List String → Option String
  | "irdis" :: T :: pv :: rest => handleDis T pv rest
  | "irmar" :: cfg :: T :: V :: rest => handleMar cfg T V rest
  | _ => none

end SonicSpec.Driver.Ir
