/-
  Driver handler of the C18 work package: decides, for one `optpair` case, whether the two results
  of the implementation stand in the relation the property names for the flipped switch; computes
  the option words of a Config (`froze`) and of a setter sequence (`setseq`) from the regenerated tables.
-/
import SonicSpec.Model.OptsRel
namespace SonicSpec.Driver.Opts
open SonicSpec SonicSpec.Json SonicSpec.Opts
open SonicSpec.Str (htmlEscape correctWith)

def sentinel64 : Bytes := "7.25e+77".toUTF8.toList
def sentinel32 : Bytes := "7.25e+27".toUTF8.toList

def sameRes (a b : Res) : Bool := a == b

/-- stream encoder output against the Marshal output of the same configuration -/
def streamRel (noNewline : Bool) (a sa : Res) : Verdict :=
  match a, sa with
  | .ok va, .ok vs => req (vs == streamOut noNewline va) "stream output is not the Marshal output plus the newline rule"
  | .err k, .err k' => req (k == k') "stream encoder error differs from Marshal error"
  | _, _ => .bad "stream encoder and Marshal disagree on success"

def parseTms (s : String) : Option (List Bytes) :=
  if s == "none" then some [] else (s.splitOn ",").mapM unhexArg

/-- Marshal side.  `name` = switch flipped, `on` = the switches that are on in the Config without it. -/
def relM (name : String) (on : List String) (a b : Res) (x : Option Res) (sa sb : Res) (tms tmk : List Bytes) (nf bad : Nat) : Verdict :=
  let html := on.contains "EscapeHTML"
  let validate := on.contains "ValidateString"
  let nonl0 := on.contains "NoEncoderNewline"
  let nonl1 := nonl0 || name == "NoEncoderNewline"
  -- without SortMapKeys two encodings of one map may differ in order: no stream comparison on that side
  let st := if name == "SortMapKeys" then streamRel nonl1 b sb else (streamRel nonl0 a sa).and (streamRel nonl1 b sb)
  let rel : Verdict :=
    match name with
    | "EscapeHTML" =>
      match a, b with
      | .ok va, .ok vb => req (vb == htmlEscape va) "output with EscapeHTML is not HTMLEscape of the output without"
      | .err k, .err k' => req (k == k') "error kind changed"
      | _, _ => .bad "success changed"
    | "ValidateString" =>
      match a, b with
      | .ok va, .ok vb => req (vb == correctWith replEsc va) "output with ValidateString is not the output with ill-formed UTF-8 replaced by \\ufffd"
      | .err k, .err k' => req (k == k') "error kind changed"
      | _, _ => .bad "success changed"
    | "NoEncoderNewline" => req (sameRes a b) "Marshal output changed"
    | "SortMapKeys" =>
      match a, b with
      | .ok va, .ok vb =>
        -- `vb` with the quotes taken off again from every TextMarshaler map key (`"k":` -> `k:`)
        let fin := finish html validate
        let unqKeys := tmk.foldl (fun acc k => replaceAll (fin (Str.quote k) ++ [58]) (fin k ++ [58]) acc) vb
        (if bytesSorted va == bytesSorted vb then Verdict.ok
         else if on.contains "NoQuoteTextMarshaler" && bytesSorted va == bytesSorted unqKeys then
           Verdict.bad "KEYS-REQUOTED: under NoQuoteTextMarshaler, SortMapKeys puts the quotes back on TextMarshaler map keys"
         else Verdict.bad "outputs are not permutations of each other").and <|
        match parseDoc va, parseDoc vb with
        | some ta, some tb =>
          if validate && hasFFFDKey tb then
            -- keys were ordered before the UTF-8 post-pass rewrote them: only "same members" is decidable
            .skip "keys rewritten by the ValidateString post-pass (only 'same bytes' is decided)"
          else
            (req (render (sortKeysP structKey ta) == render tb) "output with SortMapKeys is not the output without, map members put into byte order").and
              (req (countWs va == countWs vb) "white space changed")
        | none, none => .skip "outputs are not JSON (NoValidateJSONMarshaler / NoQuoteTextMarshaler)"
        | _, _ => .bad "only one of the outputs is JSON"
      | .err _, .err _ => .ok      -- which of several failing members is met first depends on the order
      | _, _ => .bad "success changed"
    | "CompactMarshaler" =>
      match a, b with
      | .ok va, .ok vb =>
        match compactDoc va with
        | some cv => req (vb == cv) "output with CompactMarshaler is not the compacted output without"
        | none => .skip "output without the switch is not JSON"
      | .ok va, .err _ =>
        -- compacting ill-formed marshaler output is an error (`bad` = json.Marshaler leaves returning ill-formed text;
        -- an empty or blank one can leave the whole output well-formed)
        if (parseDoc va).isNone || bad > 0 then .ok
        else .bad "well-formed output became an error"
      | .err _, .err _ => .ok      -- json.Compact reports ill-formed text with its own error
      | .err _, .ok _ => .bad "error disappeared"
      | _, _ => .bad "panic"
    | "NoQuoteTextMarshaler" =>
      match a, b with
      | .ok va, .ok vb =>
        let fin := finish html validate
        let table := tms.map fun t => (fin (Str.quote t), fin t)
        let f := fun tok => match table.find? (fun p => p.1 == tok) with
          | some p => p.2
          | none => tok
        if vb == mapTokens f va then .ok
        else if vb == mapValueTokens f va then .bad "KEYS-STAY-QUOTED: TextMarshaler map keys keep their quotes under NoQuoteTextMarshaler"
        else if (parseDoc va).isNone then .skip "output without the switch is not JSON (unchecked Marshaler output): string tokens cannot be told apart"
        else .bad "output with NoQuoteTextMarshaler is not the output without, TextMarshaler texts unquoted"
      | .err k, .err k' => req (k == k') "error kind changed"
      | _, _ => .bad "success changed"
    | "NoNullSliceOrMap" =>
      match a, b, x with
      | .ok va, .ok vb, some (.ok vx) =>
        match parseDoc va, parseDoc vb, parseDoc vx with
        | some ta, some tb, some tx =>
          (req (nullRel3 ta tx tb) "output with NoNullSliceOrMap is not the output without, nil slices/maps as [] / {}").and
            (req (countWs va == countWs vb) "white space changed")
        | none, none, none =>
          if vb == vx then .skip "outputs are not JSON; equal to the output for the value with empty containers"
          else .skip "outputs are not JSON"
        | _, _, _ => .bad "only some of the outputs are JSON"
      | .err k, .err k', _ => req (k == k') "error kind changed"
      | _, _, _ => .bad "success changed"
    | "EncodeNullForInfOrNan" =>
      (if nf == 0 then req (sameRes a b) "changed although the value has no NaN/Inf" else .ok).and <|
      match a, b, x with
      | _, .ok vb, some (.ok vx) =>
        (req (vb == replaceAll sentinel32 nullText (replaceAll sentinel64 nullText vx))
          "output with EncodeNullForInfOrNan is not the output for finite floats with null in their place").and
          (match a with
           | .ok va => req (va == vb) "output changed although there was no error"
           | .err k => req (k == "unsupported_value" && nf > 0) "an error other than NaN/Inf disappeared"
           | _ => .bad "panic")
      | .err k, .err k', some (.err k'') => req (k' == k'' && (k == k' || k == "unsupported_value")) "error kind changed"
      | _, _, _ => .bad "success changed"
    | "NoValidateJSONMarshaler" =>
      match a, b with
      | .ok _, _ => req (sameRes a b) "output changed although it was valid"
      | .err k, .err k' => req (k == k' || bad > 0) "error kind changed"
      | .err k, .ok _ =>
        req (k == "marshaler" && bad > 0) "an error other than ill-formed Marshaler output disappeared"
      | _, _ => .bad "panic"
    | _ => req (sameRes a b) "a decoder switch changed a Marshal result"
  st.and rel

def isStructDest (dest : String) : Bool := dest == "flat" || dest == "nest"

def parseFields (s : String) : Option (List FlatField) :=
  (s.splitOn ",").mapM fun e =>
    match e.splitOn ":" with
    | [g, j] => if j == "!" then some (g.toUTF8.toList, none) else (unhexArg j).map fun jb => (g.toUTF8.toList, some jb)
    | _ => none

def ctlInStrings (doc : Bytes) : Bool := (stringBodies doc).any fun b => b.any (· < 32)

/-- Unmarshal side. -/
def relU (name : String) (on : List String) (dest : String) (doc : Bytes) (a b : Res) (x : Option Res) (xdoc : Option Bytes)
    (fields : Option (List FlatField)) : Verdict :=
  let on1 := name :: on
  let tree := parseDoc doc
  let valid := tree.isSome && validUtf8 doc
  -- destination `flat`: both results are predicted outright
  let direct : Verdict :=
    match dest, tree, fields with
    | "flat", some t, some fs =>
      if !validUtf8 doc || (stringBodies doc).any hasLoneSurrogate then .ok else
      match bindFlat (on.contains "CaseSensitive") (on.contains "DisallowUnknownFields") fs (doc.length + 2) t,
            bindFlat (on1.contains "CaseSensitive") (on1.contains "DisallowUnknownFields") fs (doc.length + 2) t with
      | some ea, some eb =>
        (req (ea == a) "result without the switch differs from the field-matching model").and
          (req (eb == b) "result with the switch differs from the field-matching model")
      | _, _ => .ok
    | _, _, _ => .ok
  let same := req (a == b)
  let rel : Verdict :=
    match name with
    | "CopyString" => if valid then same "CopyString changed the result on valid data" else .skip "invalid data"
    | "NoValidateJSONSkip" => if valid then same "NoValidateJSONSkip changed the result on valid data" else .skip "invalid data"
    | "UseNumber" | "UseInt64" =>
      -- both modes at once: where that does not panic (`P:`, judged by the orchestrator), UseNumber wins,
      -- as with the Decoder setters called in the documented order
      if name == "UseInt64" && on.contains "UseNumber" then
        (match a, b with
         | .panic _, _ => .skip "both number modes"
         | _, .panic _ => .skip "both number modes"
         | _, _ => same "UseInt64 changed a result although UseNumber is on")
      else
      let m := if name == "UseNumber" then NumMode.number else NumMode.int64
      match a, b with
      | .panic _, _ => .skip "both number modes"
      | _, .panic _ => .skip "both number modes"
      | .ok va, .ok vb =>
        match parseDoc va, parseDoc vb with
        | some ta, some tb =>
          (req (numRel2 m ta tb) "something other than numbers under interface{} changed").and <|
            match dest, tree with
            | "any", some t => if validUtf8 doc && !ctlInStrings doc then
                req (numRel3 m (doc.length + 2) t ta tb) "a number literal did not land as the mode says" else .ok
            | _, _ => .ok
        | _, _ => .bad "dump unreadable"
      | .err _, .err _ => .ok
      | .err _, .ok _ => if name == "UseNumber" then .skip "error disappeared (number out of float64 range?)" else .bad "error disappeared"
      | .ok _, .err _ => .bad "success became an error"
    | "UseUnicodeErrors" =>
      let lone := (stringBodies doc).any hasLoneSurrogate
      if !lone then
        match a, b with
        | .err _, .err _ => .ok      -- which error of a malformed document is met first is not the switch's subject
        | _, _ => same "UseUnicodeErrors changed the result of a document without lone surrogate escapes"
      else match a, b with
        | .ok _, .err _ => .ok
        | .ok _, .ok _ =>
          if isStructDest dest then same "result changed without becoming an error"     -- escapes in skipped values are not decoded
          else .bad "lone surrogate escape decoded without error under UseUnicodeErrors"
        | .err _, .err _ => .ok
        | _, _ => .bad "error disappeared"
    | "ValidateString" =>
      match xdoc with
      | none => .skip "no corrected document"
      | some xd =>
        (req (xd == correctWith replRaw doc) "reference correction of the document differs from the model's").and <|
        if ctlInStrings xd then
          match a, b with
          | .ok _, .err _ => .ok
          | .err _, .err _ => .ok
          | .ok _, .ok _ =>
            if on.contains "NoValidateJSONSkip" && isStructDest dest then req (some b == x) "result is neither an error nor the decoding of the corrected document"
            else .bad "raw control character inside a string accepted under ValidateString"
          | _, _ => .bad "error disappeared"
        else
          match b, x with
          | .ok vb, some (.ok vx) => req (vb == vx) "result with ValidateString is not the result for the document with ill-formed UTF-8 replaced by U+FFFD"
          | .err _, some (.err _) => .ok
          | .err _, some (.ok _) =>
            -- "errors or replacement characters": rejecting ill-formed UTF-8 outright is the other documented reading
            if xd != doc then .ok else .bad "a document without raw control characters or ill-formed UTF-8 became an error"
          | _, _ => .bad "success differs from the corrected document's"
    | "DisallowUnknownFields" =>
      match a, b with
      | .err _, .err _ => .ok
      | .ok _, .ok _ => same "result changed without becoming an error"
      | .ok _, .err k =>
        if !isStructDest dest then .bad "error although the destination has no struct"
        else req (k == "unknown_field") "error kind is not unknown_field"
      | _, _ => .bad "error disappeared"
    | "CaseSensitive" =>
      if !isStructDest dest then same "CaseSensitive changed a result without struct destination"
      else if dest == "flat" then .ok      -- decided by the direct model above
      else .skip "nested struct destination: reference only"
    | _ => same "an encoder switch changed an Unmarshal result"
  direct.and rel

def optRes (s : String) : Option (Option Res) := if s == "-" then some none else (Res.parse s).map some

/-- big document against small document, one Config: same error, or the small result scaled -/
def scaleRes (ns nb : String) (small big : Res) (what : String) : Verdict :=
  match small, big with
  | .ok vs, .ok vb =>
    match parseDoc vs, parseDoc vb with
    | some ts, some tb => req (scaleRel ns.toUTF8.toList nb.toUTF8.toList ts tb) (what ++ ": the result for the large document is not the small document's result with the repetition count scaled")
    | _, _ => .bad (what ++ ": dump unreadable")
  | .err k, .err k' => req (k == k') (what ++ ": error kind depends on the size of the document")
  | .panic t, .panic t' => req (t == t') (what ++ ": panic depends on the size of the document")
  | _, _ => .bad (what ++ ": success depends on the size of the document")

def parseNames (s : String) : List String := if s == "-" then [] else s.splitOn ","

/-- `field:word:mask;...` -/
def parseWires (s : String) : Option (List Wire) :=
  if s == "-" then some [] else
  (s.splitOn ";").mapM fun e =>
    match e.splitOn ":" with
    | [f, w, m] => m.toNat?.map fun n => ((f, w, Int.ofNat n, "") : Wire)
    | _ => none

/-- `recv:method:takesBool:set:clear:setFalse:clearFalse;...` -/
def parseSetters (s : String) : Option (List Setter) :=
  if s == "-" then some [] else
  (s.splitOn ";").mapM fun e =>
    match e.splitOn ":" with
    | [r, m, tb, a, b, c, d] =>
      match a.toNat?, b.toNat?, c.toNat?, d.toNat? with
      | some a, some b, some c, some d => some ((r, m, tb == "1", a, b, c, d) : Setter)
      | _, _, _, _ => none
    | _ => none

/-- protocol (the tables of `froze` / `setseq` are the regenerated ones, handed over by the orchestrator):
    optpair <switch name> <names on> m <a> <b> <x> <sa> <sb> <tms> <tmk> <nf> <bad>
    optpair <switch name> <names on> u <dest> <doc> <a> <b> <x> <xdoc> <fields>
    froze <cfg> <Config fields> <wires>          setseq <receiver> <calls> <setters> -/
def handle : List String → Option String
  | ["optpair", name, on, "m", a, b, x, sa, sb, tms, tmk, nf, bad] => do
    let a ← Res.parse a
    let b ← Res.parse b
    let x ← optRes x
    let sa ← Res.parse sa
    let sb ← Res.parse sb
    let tms ← parseTms tms
    let tmk ← parseTms tmk
    pure s!"model={(relM name (parseNames on) a b x sa sb tms tmk nf.toNat! bad.toNat!).str}"
  | ["optpair", name, on, "u", dest, doc, a, b, x, xdoc, fields] => do
    let doc ← unhexArg doc
    let a ← Res.parse a
    let b ← Res.parse b
    let x ← optRes x
    let xdoc ← if xdoc == "!" then some none else (unhexArg xdoc).map some
    let fields ← if fields == "-" then some none else (parseFields fields).map some
    pure s!"model={(relU name (parseNames on) dest doc a b x xdoc fields).str}"
  | ["optbig", name, on, dest, doc, a, b, x, xdoc, fields, ns, nb, ca, cb, bA, bB, sA, sB] => do
    let doc ← unhexArg doc
    let a ← Res.parse a
    let b ← Res.parse b
    let x ← optRes x
    let xdoc ← if xdoc == "!" then some none else (unhexArg xdoc).map some
    let fields ← if fields == "-" then some none else (parseFields fields).map some
    let ca ← Res.parse ca
    let cb ← Res.parse cb
    let bA ← Res.parse bA
    let bB ← Res.parse bB
    let sA ← Res.parse sA
    let sB ← Res.parse sB
    -- 1. the small document stands in the switch's relation (same decision as for `optpair ... u`);
    -- 2. under each of the two Configs the large result is the small one scaled;
    -- 3. the stream decoder fed in chunks returns what UnmarshalFromString returns
    let small := relU name (parseNames on) dest doc a b x xdoc fields
    let v := (scaleRes ns nb ca bA "without the switch").and <| (scaleRes ns nb cb bB "with the switch").and <|
      (req (sA == bA) "stream decoder result differs from Unmarshal on the large document (without the switch)").and
        (req (sB == bB) "stream decoder result differs from Unmarshal on the large document (with the switch)")
    pure s!"model={(v.and small).str}"
  | ["froze", cfg, fields, wires] =>
    let c := cfg.toNat!
    let fs := parseNames fields
    match parseWires wires with
    | none => some "model=unsupported"
    | some ws =>
      if fieldOnIn fs c "UseInt64" && fieldOnIn fs c "UseNumber" then
        -- `resolved` = the decoder word with UseInt64's own bit taken out again (UseNumber wins)
        let i64 := (ws.filter (fun w => wWord w == "decoderOpts" && wField w == "UseInt64")).foldl (fun acc w => acc ||| wMask w) 0
        some s!"model=P:both_number_modes\tresolved={(frozeIn fs ws c).1}:{(frozeIn fs ws c).2 &&& (all64 ^^^ i64)}"
      else some s!"model={(frozeIn fs ws c).1}:{(frozeIn fs ws c).2}"
  | ["setseq", recv, calls, setters] =>
    match parseSetters setters with
    | none => some "model=unsupported"
    | some tbl =>
      let base := if recv.startsWith "Stream" then (recv.drop 6).toString else recv
      let cs := if calls == "-" then [] else calls.splitOn ","
      let r := cs.foldl (fun (acc : Option Nat) c =>
        match acc with
        | none => none
        | some w =>
          match c.splitOn ":" with
          | [m] => applySetterIn tbl base m true w
          | [m, v] => applySetterIn tbl base m (v == "1") w
          | _ => none) (some 0)
      match r with
      | some w => some s!"model={w}"
      | none => some "model=unsupported"
  | _ => none

end SonicSpec.Driver.Opts
