/-
  Driver for C17: `stream` (scripted reader through the shipped model, the repaired model and the
  specification, plus a diagnosis of the first divergence) and `sink` (scripted writer).
-/
import SonicSpec.Model.IOJson
import SonicSpec.Model.IOPatched
namespace SonicSpec.Driver.IO
open SonicSpec SonicSpec.IO

def maxCalls : Nat := 200

def parseChunks (fe : RErr) : List String → Option Script
  | [] => some []
  | [s] =>
    if s.endsWith "!" then (unhexArg ((s.dropEnd 1).toString)).map fun b => [(b, some fe)]
    else (unhexArg s).map fun b => [(b, none)]
  | s :: r =>
    let s' := if s.endsWith "!" then (s.dropEnd 1).toString else s
    match unhexArg s', parseChunks fe r with
    | some b, some t => some ((b, none) :: t)
    | _, _ => none

def stopStr : Stop → String
  | .term .eof => "eof"
  | .term .syntaxError => "syntax"
  | .term (.readerErr _) => "rerr"
  | .noProgress => "noprogress"
  | .more => "more"

def valsStr (vs : List Bytes) : String :=
  if vs.isEmpty then "-" else ",".intercalate (vs.map hexArg)

/-- run a decoder model, recording after every value the position (in the whole stream) of the
    next non-space byte -/
def traceRun (step : DState → Script → RErr → DecodeRes Bytes × DState × Script × RErr) (data : Bytes) :
    Nat → DState → Script → RErr → List (Bytes × Nat) × Stop
  | 0, _, _, _ => ([], .more)
  | n + 1, st, sc, f =>
    match step st sc f with
    | (.value v, st', sc', f') =>
      let pos := data.length - (concat sc').length - st'.buf.length
      let np := pos + wsLen (data.drop pos)
      let (vs, t) := traceRun step data n st' sc' f'
      ((v, np) :: vs, t)
    | (.nothing, _, _, _) => ([], .noProgress)
    | (.error t, _, _, _) => ([], .term t)

/-- specification trace: (value, position of the next non-space byte, rest before the step) -/
def specTrace (dec : Bytes → Option (Bytes × Nat)) (lenient : Bool) (term : RErr) (total : Nat) : Nat → Bytes → List (Bytes × Nat × Bytes) × Stop × Bytes
  | 0, data => ([], .more, data)
  | n + 1, data =>
    match specStep dec lenient term data with
    | .done t => ([], .term t, data)
    | .val v rest =>
      let (vs, t, last) := specTrace dec lenient term total n rest
      ((v, total - rest.length + wsLen rest, data) :: vs, t, last)

def headNS (data : Bytes) : Option UInt8 := (data.drop (wsLen data)).head?

/-- name of the first place where the shipped model leaves the specification -/
def diagnose (term : RErr) : List (Bytes × Nat) → Stop → List (Bytes × Nat × Bytes) → Stop → Bytes → String
  | (v1, p1) :: r1, s1, (v2, p2, before) :: r2, s2, last =>
    let num := match headNS before with | some c => isNumStart c | none => false
    if v1 != v2 then (if num then "scalar-split" else "other")
    else if p1 != p2 then
      (if num then "number-frame-swallow"
       else if p1 > p2 && !(Str.validate before) then "validate-string-advance" else "other")
    else diagnose term r1 s1 r2 s2 last
  | (v1, _) :: r1, _, [], s2, last =>
    let rest := last.drop (wsLen last)
    let num := match rest with | c :: _ => isNumStart c | [] => false
    match s2 with
    | .term (.readerErr _) =>
      -- the whole remaining stream is one number and the shipped decoder delivered exactly it
      if num && v1 == rest && r1.isEmpty then "number-at-reader-error"
      else if num then "scalar-split" else "other"
    | .term .syntaxError => if num then "scalar-split" else "other"
    | _ => "other"
  | [], s1, (_, _, before) :: _, _, _ =>
    let num := match headNS before with | some c => isNumStart c | none => false
    if num && s1 == .term .syntaxError then "scalar-split" else "other"
  | [], s1, [], s2, last =>
    if s1 == s2 then "-"
    else
      let rest := last.drop (wsLen last)
      match s1, s2, rest with
      | .noProgress, .term .syntaxError, c :: _ => if c == 93 || c == 125 then "stray-closer" else "other"
      | .term .eof, .term .syntaxError, c :: _ =>
        -- a literal made up to its length by spaces that arrived in a Read of their own is not re-framed
        let lit := c == 116 || c == 110 || c == 102
        if Fixed.kindOf c == .invalid then "junk-clean-eof"
        else if (Fixed.frame rest).isNone || lit then "truncated-clean-eof" else "other"
      | .term (.readerErr _), .term .syntaxError, c :: _ =>
        let lit := c == 116 || c == 110 || c == 102
        if Fixed.kindOf c == .invalid then "error-precedence"
        else if lit then "error-precedence-literal" else "other"
      | .term .syntaxError, .term (.readerErr _), c :: _ => if isNumStart c then "scalar-split" else "other"
      | _, _, _ => "other"

def parseRepairs (opts : String) : Repairs :=
  match opts.splitOn ":" with
  | [_, fl] => { closer := fl.contains 'a', trunc := fl.contains 'b', split := fl.contains 'c',
                 inval := fl.contains 'd', pos := fl.contains 'e', clamp := fl.contains 'f' }
  | _ => {}

def streamLine (rp : Repairs) (fe : RErr) (sc : Script) : String :=
  let data := concat sc
  let term := termOf sc fe
  let init : DState := {}
  let shipped : DState → Script → RErr → DecodeRes Bytes × DState × Script × RErr :=
    if rp == {} then Faithful.decode decSonicV else Patched.decode decSonicV rp
  let (mt, ms) := traceRun shipped data maxCalls init sc .eof
  let (ft, fs) := traceRun (Fixed.decode decSonicIn) data maxCalls init sc .eof
  let (st, ss, last) := specTrace decSonicIn false term data.length maxCalls data
  let (lt, ls, _) := specTrace decSonicIn true term data.length maxCalls data
  let (et, es, _) := specTrace decJson false term data.length maxCalls data
  let why := diagnose term mt ms st ss last
  -- the same run with ONE of the switched-on repairs switched off, where that changes the answer:
  -- a tree that lost a repair answers like this, which pins the loss to the repair (and its theorem)
  let show_ := fun (t : List (Bytes × Nat) × Stop) => s!"{valsStr (t.1.map (·.1))}|{stopStr t.2}"
  let without : List (Char × Repairs) :=
    [('a', { rp with closer := false }), ('b', { rp with trunc := false }), ('c', { rp with split := false }),
     ('d', { rp with inval := false }), ('e', { rp with pos := false }), ('f', { rp with clamp := false })]
  let lost := without.foldl (fun acc (p : Char × Repairs) =>
    if p.2 == rp then acc
    else
      let r := traceRun (Patched.decode decSonicV p.2) data maxCalls init sc .eof
      if show_ r == show_ (mt, ms) then acc else acc ++ s!"\tno_{p.1}={show_ r}") ""
  s!"model={valsStr (mt.map (·.1))}|{stopStr ms}\tfixed={valsStr (ft.map (·.1))}|{stopStr fs}\tspec={valsStr (st.map (·.1))}|{stopStr ss}\tspec2={valsStr (lt.map (·.1))}|{stopStr ls}\tspecstd={valsStr (et.map (·.1))}|{stopStr es}\twhy={why}{lost}"

/-! sink -/

def parseWStep (s : String) : Option WStep :=
  if s == "ok" then some .ok
  else if s.startsWith "p" then (s.drop 1).toNat?.map .short
  else if s.startsWith "f" then (s.drop 1).toNat?.map .fail
  else none

def parseWScript (s : String) : Option (List WStep) :=
  if s == "-" then some [] else (s.splitOn ",").mapM parseWStep

def errStr : Option WErr → String
  | none => "0"
  | some .writer => "E"
  | some .shortWrite => "X"

def encodeAll (enc : Bytes → List WStep → EncRes) : List Bytes → List WStep → Bytes × List String
  | [], _ => ([], [])
  | m :: ms, ws =>
    let r := enc m ws
    let (d, es) := encodeAll enc ms r.rest
    (r.delivered ++ d, errStr r.err :: es)

def sinkLine (opts : String) (ws : List WStep) (ms : List Bytes) : String :=
  let indent := opts.contains 'i'
  let noNL := opts.contains 'n'
  let show_ := fun (p : Bytes × List String) =>
    s!"{hexArg p.1}|{if p.2.isEmpty then "-" else ",".intercalate p.2}"
  s!"model={show_ (encodeAll (Faithful.encode indent noNL) ms ws)}\tfixed={show_ (encodeAll (Fixed.encode indent noNL) ms ws)}"

def handle : List String → Option String
  | "stream" :: opts :: final :: chunks =>
    let fe : RErr := if final == "err" then .fail 1 else .eof
    match parseChunks fe chunks with
    | some sc =>
      -- the reader's own terminal error applies once the script is used up
      some (streamLine (parseRepairs opts) fe (sc ++ [([], some fe)]))
    | none => some "model=badcase"
  | ["sink", opts, wscript, marsh] =>
    match parseWScript wscript, (if marsh == "-" then some [] else (marsh.splitOn ",").mapM unhexArg) with
    | some ws, some ms => some (sinkLine opts ws ms)
    | _, _ => some "model=badcase"
  | _ => none

end SonicSpec.Driver.IO
