/-
  Driver for the Enc core.
    mar <cfgbits> <T> <V> [out=<hex>|out=~] [rout=<hex>|rout=~]
  answers
    model=ok|err:<kind>|unsupported  [mout=<hex>]
    wf=1|0|~         the implementation's text is exactly one strict JSON value
    so=eq|ne|~       model text ~ implementation text   (token equivalence, Enc.textEq)
    mr=eq|ne|~       model text ~ reference text
    sr=eq|ne|~       implementation text ~ reference text
    std=ok|err:<kind>|unsupported|~   the specification of encoding/json (Model/EncStd.lean) on the same case, with
    stdout=<hex>, xr= (spec ~ reference text), xs= (spec ~ implementation text), xm=same|eq|ne (spec vs Enc model)
    rt=eq|le|ne|na|~ decodeBack T (implementation text) against V: equal, equal up to nil-vs-empty containers, different
  `cfgbits` is the decimal mask over sonic.Config's fields in declaration order (Generated/Opts.lean).
    jcmp <ordered 0|1> [out=<hex>] [rout=<hex>]     only wf= and sr= of two texts
    compat quote <hex>      the Go fallback Quote of spec_compat.go (Model/EncCompat.lean)
-/
import SonicSpec.Model.EncDec
import SonicSpec.Model.EncStd
import SonicSpec.Model.EncCompat
import SonicSpec.Generated.Opts
namespace SonicSpec.Driver.Enc
open SonicSpec SonicSpec.Enc SonicSpec.Go

def cfgBitOf (name : String) : Nat := (Gen.configFields.idxOf? name).getD 63

def optsOfCfg (bits : Nat) : EncOpts :=
  let b (n : String) : Bool := bits.testBit (cfgBitOf n)
  { sortMapKeys := b "SortMapKeys", escapeHTML := b "EscapeHTML", compactMarshaler := b "CompactMarshaler",
    noQuoteTextMarshaler := b "NoQuoteTextMarshaler", noNullSliceOrMap := b "NoNullSliceOrMap",
    validateString := b "ValidateString", noValidateJSONMarshaler := b "NoValidateJSONMarshaler",
    noEncoderNewline := b "NoEncoderNewline", encodeNullForInfOrNan := b "EncodeNullForInfOrNan" }

/-- linear-time tokenizer for the s-expression wire syntax (`Go.tokenize` rebuilds the pending atom at
    every character, which is quadratic on the long hex atoms of the string streams) -/
def tokenizeFast (s : String) : List String :=
  let rec go (cs : List Char) (cur : List Char) (acc : List String) : List String :=
    match cs with
    | [] => (if cur.isEmpty then acc else String.ofList cur.reverse :: acc).reverse
    | c :: r =>
      if c == ' ' then go r [] (if cur.isEmpty then acc else String.ofList cur.reverse :: acc)
      else if c == '(' then go r [] ("(" :: (if cur.isEmpty then acc else String.ofList cur.reverse :: acc))
      else if c == ')' then go r [] (")" :: (if cur.isEmpty then acc else String.ofList cur.reverse :: acc))
      else go r (c :: cur) acc
  go s.toList [] []

def parseSxFast (s : String) : Option Sx :=
  let toks := tokenizeFast s
  match parseSxFuel (toks.length + 1) toks with
  | some (x, []) => some x
  | _ => none

def errName : EErr → String
  | .unsupportedType => "unsupported_type"
  | .unsupportedValue => "unsupported_value"
  | .marshaler => "marshaler"
  | .unchecked => "unchecked"
  | .illTyped => "illtyped"
  | .outside => "outside"

def field (args : List String) (key : String) : Option Bytes :=
  match args.find? (fun a => a.startsWith (key ++ "=")) with
  | some a =>
    let v := (a.drop (key.length + 1)).toString
    if v == "~" then none else unhexArg v
  | none => none

def rel (ordered : Bool) (a b : Option Bytes) : String :=
  match a, b with
  | some x, some y => if textEq ordered x y then "eq" else "ne"
  | _, _ => "~"

/-! ### pointer-shaped library types (go/harness/ops_enc.go)

`PSxx` (struct{ V *int64 }), `PAxx` ([1]*int64), `PMxx` (map[string]int64) print what their twins MV / MP / TV / TP of
go/harness/types.go print, from the same travelling JSON text, and are never empty either (a struct, an array of one
element, a map of one entry): the model sees the twin.  The pointer-receiver arrays PATP / PAJP print `[n]` when they are
not addressable; they have no twin and stay outside the model (`model=unsupported`). -/

def twinName : String → String
  | "PSTV" | "PATV" | "PMTV" => "TV"
  | "PSJV" | "PAJV" | "PMJV" => "MV"
  | "PSTP" | "PMTP" => "TP"
  | "PSJP" | "PMJP" => "MP"
  | n => n

mutual
def twinT : GoType → GoType
  | .sl t => .sl (twinT t)
  | .arr n t => .arr n (twinT t)
  | .ptr t => .ptr (twinT t)
  | .map k t => .map (twinT k) (twinT t)
  | .st fs => .st (twinFs fs)
  | .lib n => .lib (twinName n)
  | t => t
def twinFs : List (String × Option Bytes × GoType) → List (String × Option Bytes × GoType)
  | [] => []
  | (n, tg, t) :: r => (n, tg, twinT t) :: twinFs r
end

mutual
def twinV : GoVal → GoVal
  | .sl xs => .sl (twinVs xs)
  | .arr xs => .arr (twinVs xs)
  | .ptr v => .ptr (twinV v)
  | .map kvs => .map (twinKVs kvs)
  | .any t v => .any (twinT t) (twinV v)
  | .st vs => .st (twinVs vs)
  | v => v
def twinVs : List GoVal → List GoVal
  | [] => []
  | v :: r => twinV v :: twinVs r
def twinKVs : List (GoVal × GoVal) → List (GoVal × GoVal)
  | [] => []
  | (a, b) :: r => (twinV a, twinV b) :: twinKVs r
end

def handleMar (cfg T V : String) (rest : List String) : Option String := do
  let bits ← cfg.toNat?
  let t ← ((parseSxFast T).bind typeOfSx).map twinT
  let v0 ← ((parseSxFast V).bind valOfSx).map twinV
  let o := optsOfCfg bits
  let out := field rest "out"
  let rout := field rest "rout"
  let sr := rel o.sortMapKeys out rout
  let wf := match out with
    | some b => if (Json.parseDoc b).isSome then "1" else "0"
    | none => "~"
  match prepV t v0 with
  | none => pure s!"model=unsupported\twf={wf}\tsr={sr}"
  | some v =>
    let rt := match out with
      | some b => match decodeBack t b with
        | .ok w => if valEq false v w then "eq" else if valEq true v w then "le" else "ne"
        | .error .na => "na"
        | .error .mismatch => "ne"
      | none => "~"
    -- second voice: the specification of encoding/json itself (Model/EncStd.lean), for option words that are
    -- encoding/json's behaviour (sorted keys, compaction, U+FFFD; EscapeHTML either way)
    let stdShaped := o.sortMapKeys && o.compactMarshaler && o.validateString && !o.noQuoteTextMarshaler &&
      !o.noNullSliceOrMap && !o.encodeNullForInfOrNan
    let stdr := if stdShaped then some (EncStd.marshal o.escapeHTML t v) else none
    let encr := encode o t v
    let std := match stdr with
      | none => "std=~"
      | some (.error .outside) => "std=unsupported"
      | some (.error .illTyped) => "std=unsupported"
      | some (.error e) => s!"std=err:{errName e}"
      | some (.ok x) =>
        let xm := match encr with
          | .ok m => if m == x then "same" else if textEq true m x then "eq" else "ne"
          | .error _ => "~"
        s!"std=ok\tstdout={hexArg x}\txr={rel true (some x) rout}\txs={rel true (some x) out}\txm={xm}"
    match encr with
    | .error .outside => pure s!"model=unsupported\twf={wf}\tsr={sr}\trt={rt}\t{std}"
    | .error .illTyped => pure s!"model=unsupported\twf={wf}\tsr={sr}\trt={rt}\t{std}"
    | .error e => pure s!"model=err:{errName e}\twf={wf}\tsr={sr}\trt={rt}\t{std}"
    | .ok m =>
      pure s!"model=ok\tmout={hexArg m}\twf={wf}\tso={rel o.sortMapKeys (some m) out}\tmr={rel o.sortMapKeys (some m) rout}\tsr={sr}\trt={rt}\t{std}"

def handle : List String → Option String
  | "mar" :: cfg :: T :: V :: rest => handleMar cfg T V rest
  | "jcmp" :: ord :: rest =>
    let out := field rest "out"
    let wf := match out with
      | some b => if (Json.parseDoc b).isSome then "1" else "0"
      | none => "~"
    some s!"model=cmp\twf={wf}\tsr={rel (ord == "1") out (field rest "rout")}"
  | ["compat", "quote", h] => (unhexArg h).map fun b => s!"model={hexArg (Compat.quote b)}"
  | ["compat", "i64toa", n] => n.toInt?.map fun i => s!"model={hexArg (Compat.i64toa i)}"
  | _ => none

end SonicSpec.Driver.Enc
