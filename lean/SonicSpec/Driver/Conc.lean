/-
  Driver for core G (C08/C09):
    pmap <cap> <script>                      run the script on the model table, same tokens as the harness
    pcrace <cap> <thr> <nkeys> <mode> <seed> <table>
                                             decide whether the table the real ProgramCache ended with
                                             satisfies the invariant of Props.C08 and binds every key to
                                             its own codec
-/
import SonicSpec.Model.ConcPMap
import SonicSpec.Model.ConcRCU
import SonicSpec.Model.ConcLoad
import SonicSpec.Generated.Consts
namespace SonicSpec.Driver.Conc
open SonicSpec.Conc SonicSpec.Conc.PMap

/-- fabricated key: (id, hash); identity is the pair, the hash is a field of the key -/
abbrev Key := Nat × Nat
def khash (k : Key) : Nat := k.2

abbrev Tab := PMap Key Nat

def digestP : Nat := 2147483647

def digest (m : Tab) : Nat :=
  (entries m).foldl (fun d (e : Nat × Key × Nat) =>
    let d := (d * 31 + e.1) % digestP
    let d := (d * 31 + e.2.1.1) % digestP
    (d * 31 + e.2.2) % digestP) 0

def natOf (s : String) : Option Nat := s.toNat?

/-- capacity 0 on the wire = the production table (`newProgramMap()`): `_InitCapacity`, regenerated from pcache.go -/
def initCap (c : Nat) : Nat := if c = 0 then SonicSpec.Gen.pcacheInitCapacity.toNat else c

def dumpSmall (m : Tab) : String :=
  "D" ++ "|".intercalate ((entries m).map fun e => s!"{e.1}:{e.2.1.1}:{e.2.2}")

/-- one script op; returns the new table and the token -/
def runOp (m : Tab) (op : String) : Option (Tab × String) :=
  match op.toList with
  | 'a' :: rest =>
    match (String.ofList rest).splitOn "." with
    | [i, h, v] => do
      let i ← natOf i; let h ← natOf h; let v ← natOf v
      let m' := add khash m (i, h) v
      some (m', if m'.b.length ≤ 64 then s!"A{m'.n}.{m'.mask}.{digest m'}" else s!"A{m'.n}.{m'.mask}")
    | _ => none
  | 'g' :: rest =>
    match (String.ofList rest).splitOn "." with
    | [i, h] => do
      let i ← natOf i; let h ← natOf h
      match get khash m (i, h) with
      | some v => some (m, s!"G{v}")
      | none => some (m, "Gnil")
    | _ => none
  | ['r'] =>
    let m' := rehash khash m
    some (m', s!"R{m'.n}.{m'.mask}.{digest m'}")
  | _ => none

def runScript (m : Tab) : List String → List String → Option (Tab × List String)
  | [], acc => some (m, acc.reverse)
  | op :: rest, acc =>
    match runOp m op with
    | some (m', tok) => runScript m' rest (tok :: acc)
    | none => none

def handlePMap (cap script : String) : Option String := do
  let c ← natOf cap
  let ops := if script == "-" then [] else script.splitOn ","
  let (m, toks) ← runScript (empty (initCap c)) ops []
  let toks := if m.b.length ≤ 64 then toks ++ [dumpSmall m] else toks ++ [s!"F{m.n}.{m.mask}.{digest m}"]
  let gets := toks.filter (fun t => t.startsWith "G")
  some s!"model={";".intercalate toks}\tgets={if gets.isEmpty then "-" else ";".intercalate gets}\tlen={m.b.length}"

/-! ### checking a dumped table -/

/-- the executable invariant check of the model (`PMap.invCheck`, sound for `Inv` by
    `Props.C08.invCheck_sound`), with the name of the first failing part -/
def invWhy (m : Tab) : Option String :=
  if !chkPow2 m then some "capacity-not-power-of-two"
  else if !chkLen m then some "length"
  else if !chkCount m then some "count"
  else if !chkLoad m then some "load-factor"
  else if !chkHome khash m then some "entry-not-at-its-probe-position(unreachable-or-duplicate-key)"
  else if !invCheck khash m then some "inv"
  else none

def parseEntry (s : String) : Option (Nat × Key × Nat) :=
  match s.splitOn ":" with
  | [i, id, h, v] => do
    let i ← natOf i; let id ← natOf id; let h ← natOf h; let v ← natOf v
    some (i, (id, h), v)
  | _ => none

/-- buckets from a list of entries sorted by index -/
def buildBuckets : Nat → Nat → List (Nat × Key × Nat) → List (Option (Key × Nat))
  | 0, _, _ => []
  | n + 1, i, es =>
    match es with
    | (j, k, v) :: r => if j == i then some (k, v) :: buildBuckets n (i + 1) r else none :: buildBuckets n (i + 1) es
    | [] => none :: buildBuckets n (i + 1) []

def parseTable (s : String) : Option Tab :=
  match s.splitOn "|" with
  | hd :: rest =>
    match hd.splitOn "." with
    | [mask, n, len] => do
      let mask ← natOf mask; let n ← natOf n; let len ← natOf len
      let es ← rest.mapM parseEntry
      some { n := n, mask := mask, b := buildBuckets len 0 es }
    | _ => none
  | [] => none

/-- capacity after adding `k` fresh keys one at a time to an empty table of capacity `c` -/
def capAfter : Nat → Nat → Nat → Nat
  | 0, c, _ => c
  | k + 1, c, n => if c < 2 * (n + 1) then capAfter k (2 * c) (n + 1) else capAfter k c (n + 1)

def handlePCRace (cap nkeys table : String) : Option String := do
  let c ← natOf cap
  let nk ← natOf nkeys
  let m ← parseTable table
  let es := entries m
  let verdict :=
    match invWhy m with
    | some why => "bad:" ++ why
    | none =>
      if es.length != nk then "bad:entries"
      else if m.mask + 1 != capAfter nk (initCap c) 0 then "bad:capacity"
      else match es.find? (fun (e : Nat × Key × Nat) => e.2.2 != e.2.1.1 * 7 + 1) with
        | some e => s!"bad:foreign-codec-{e.2.1.1}"
        | none =>
          if (List.range nk).all (fun i => es.any (fun (e : Nat × Key × Nat) => e.2.1.1 == i + 1)) then "ok" else "bad:missing-key"
  some s!"model={verdict}\tcap={m.mask + 1}"

def handle : List String → Option String
  | ["pmap", cap, script] => handlePMap cap script
  | "pmap" :: cap :: script :: _ => handlePMap cap script
  | ["pcrace", cap, _, nkeys, _, _, table] => handlePCRace cap nkeys table
  | _ => none

end SonicSpec.Driver.Conc
