import SonicSpec.Model.JsonValidate
import SonicSpec.Model.JsonGeneric
/-
  Driver for property C02.   valid <api|all> <doc hex> [name=hex ...]
  Answers what the model says about the document (and about the document wrapped as a member value
  `{"r":DOC}`, which is what the field-capturing APIs see):
    strict / structural      membership in the two grammars, any depth   (decided by `skipOne` with a budget
                             larger than the text: `validate_iff` in Props/C02.lean)
    strictB / structB / valB `skipOne 4096` with the strict / default / validate-string scanner, whole text
    valid                    the model of sonic.Valid
    skip                     the model of decoder.Skip:  ok:<start>:<end> | err:<kind>
    tree                     the shared strict tree parser (`Json.parseDoc`) - an independent recogniser
    depth                    deepest bracket nesting outside strings (for the reference's own limit 10000)
  Every further `name=hex` argument is judged as "exactly one structural value, no space around":
    v_<name>=0|1
  m_structB / m_valB         DOC as the member value of `{"r":DOC}` read by `skip_one` (see `memberB`)
-/
namespace SonicSpec.Driver.Json
open SonicSpec SonicSpec.Json

def b01 (b : Bool) : String := if b then "1" else "0"

def errName : Err → String
  | .eof => "eof" | .inval => "syntax" | .recurse => "depth" | .fuel => "fuel"

/-- the whole text is one value with space around it -/
def wholeB (B : Nat) (m : StrMode) (s : Bytes) : Bool := unmarshalSkipB B m s

/-- deepest nesting of `[`/`{` outside strings (strings read structurally) -/
def nesting : Bytes → Nat → Nat → Bool → Nat
  | [], _, mx, _ => mx
  | c :: r, cur, mx, true =>
    if c = 92 then (match r with | [] => mx | _ :: r' => nesting r' cur mx true)
    else nesting r cur mx (c != 34)
  | c :: r, cur, mx, false =>
    if c = 34 then nesting r cur mx true
    else if c = 91 || c = 123 then nesting r (cur + 1) (max mx (cur + 1)) false
    else if c = 93 || c = 125 then nesting r (cur - 1) mx false
    else nesting r cur mx false

def oneValueB (s : Bytes) : Bool :=
  match s with
  | [] => false
  | c :: _ => !isSpace c && (match skipOne (s.length + 1) .dflt s with | .ok r => r.isEmpty | .err _ _ => false)

def report (pre : String) (s : Bytes) : List String :=
  let big := s.length + 1
  [ s!"{pre}strict={b01 (wholeB big .strict s)}",
    s!"{pre}structural={b01 (wholeB big .dflt s)}",
    s!"{pre}strictB={b01 (wholeB maxRecurse .strict s)}",
    s!"{pre}structB={b01 (wholeB maxRecurse .dflt s)}",
    -- the validate-string scanner needs the distance to the end of the input at every string: quadratic on
    -- a list; left out ("-") for very long texts
    s!"{pre}valB={if s.length ≤ 70000 then b01 (wholeB maxRecurse .validate s) else "-"}" ]

/-- `{"r":DOC}` through a compiled decoder: the decoder reads `{"r":` itself, hands DOC to `skip_one` with a
    fresh machine - but inside the same input buffer, which matters to the validate-string scanner (its block
    geometry counts from the end of the input) -, then wants `}` and only space -/
def memberB (m : StrMode) (s : Bytes) : Bool :=
  match skipOne maxRecurse m (s ++ [125]) with
  | .ok r => (match skipWs r with | [125] => true | _ => false)
  | .err _ _ => false

def extras : List String → List String
  | [] => []
  | a :: r =>
    match a.splitOn "=" with
    | [k, h] => (match unhexArg h with
        | some b => s!"v_{k}={b01 (oneValueB b)}" :: extras r
        | none => extras r)
    | _ => extras r

/-- stack slots the generic decoder needs above the first one (`TVal`'s index), computed on the tree -/
partial def gneed : JVal → Nat
  | .arr [] => 1
  | .arr xs => 1 + xs.foldl (fun a x => max a (gneed x)) 0
  | .obj [] => 0
  | .obj kvs => 1 + kvs.foldl (fun a kv => max a (gneed kv.2)) 0
  | _ => 0

def gStates : List GState := [.val, .arr, .arr0, .obj, .obj0, .objDelim, .objSep]
def gToks : List (String × GTok) :=
  [("scalar", .scalar), ("str", .str), ("lb", .lb), ("lc", .lc), ("colon", .colon), ("comma", .comma), ("rb", .rb), ("rc", .rc)]
def gnum : Option GState → Nat
  | none => 0
  | some s => s.num

/-- `gentab`: the decision table the theorems are about, one entry per (token, state):
    tok:state:setTop:setBelow:push:pop  (state numbers as in the Go source, 0 = none, `-` = error) -/
def gentab : String :=
  " ".intercalate (gToks.flatMap fun (n, t) => gStates.map fun s =>
    match gTable t s with
    | none => s!"{n}:{s.num}:-"
    | some a => s!"{n}:{s.num}:{gnum a.setTop}:{gnum a.setBelow}:{gnum a.push}:{a.pop}")

def handle : List String → Option String
  | ["gentab"] => some ("model=" ++ gentab)
  | "valid" :: "typed" :: h :: _ =>
    -- typed destinations: only the two grammars are asked (the compiled decoders are not the FSM)
    (unhexArg h).map fun s =>
      let big := s.length + 1
      let a := b01 (wholeB big .strict s)
      let b := b01 (wholeB big .dflt s)
      s!"model={a}{b}\tstrict={a}\tstructural={b}\tstrictB={b01 (wholeB maxRecurse .strict s)}\tdepth={nesting s 0 0 false}"
  | "valid" :: _api :: h :: more =>
    (unhexArg h).map fun s =>
      let w := [123, 34, 114, 34, 58] ++ s ++ [125]
      let skip := match skipApi s with
        | .ok a b => s!"ok:{a}:{b}"
        | .err k _ => s!"err:{errName k}"
      let skipU := match validate (s.length + 1) .dflt s with
        | .ok a b => s!"ok:{a}:{b}"
        | .err k _ => s!"err:{errName k}"
      let first := report "" s
      let fields := first ++
        [ s!"valid={b01 (Valid s)}", s!"newraw={b01 (newRawB s)}", s!"skip={skip}", s!"skipU={skipU}",
          s!"tree={b01 (parseDoc s).isSome}",
          s!"gframes={match parseDoc s with | some v => toString (gneed v) | none => "-"}", s!"depth={nesting s 0 0 false}" ] ++
        report "w_" w ++ [s!"w_depth={nesting w 0 0 false}",
          s!"m_structB={b01 (memberB .dflt s)}",
          s!"m_valB={if s.length ≤ 70000 then b01 (memberB .validate s) else "-"}"] ++ extras more
      let summary := String.join (first.map fun f => (f.splitOn "=").getLast!)
      "model=" ++ summary ++ "\t" ++ "\t".intercalate fields
  | _ => none

end SonicSpec.Driver.Json
