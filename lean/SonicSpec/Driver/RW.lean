/-
  C16 driver: `conc <mode> <doc hex> <K> <seed> <variant> <outs>` - the model's voice on one
  concurrent-read case.  The interleavings themselves are covered by the theorems (Props/C16);
  what is executable per case is (1) the reference value of the document (strict RFC 8259 tree),
  (2) the relation "a text returned by Raw/MarshalJSON of the shared root denotes the document's
  value" (white space and escape spelling are free: Raw returns the original text before the
  conversion and the re-serialised tree after it - both are single-threaded results),
  (3) whether a data race is predicted: the regenerated MarshalJSON is the pinned, undisciplined
  one (`variant = pinned`, see Props.C16.marshal_classified) and the case aims MarshalJSON at the
  raw root while somebody converts it.
  Core Lean only.
-/
import SonicSpec.Model.JsonTree
namespace SonicSpec.Driver.RW
open SonicSpec SonicSpec.Json

def hexNib (c : UInt8) : Nat :=
  if c ≥ 48 && c ≤ 57 then (c - 48).toNat
  else if c ≥ 97 && c ≤ 102 then (c - 87).toNat
  else if c ≥ 65 && c ≤ 70 then (c - 55).toNat
  else 0

def utf8 (cp : Nat) : Bytes :=
  if cp < 0x80 then [UInt8.ofNat cp]
  else if cp < 0x800 then [UInt8.ofNat (192 + cp / 64), UInt8.ofNat (128 + cp % 64)]
  else if cp < 0x10000 then [UInt8.ofNat (224 + cp / 4096), UInt8.ofNat (128 + cp / 64 % 64), UInt8.ofNat (128 + cp % 64)]
  else [UInt8.ofNat (240 + cp / 262144), UInt8.ofNat (128 + cp / 4096 % 64), UInt8.ofNat (128 + cp / 64 % 64), UInt8.ofNat (128 + cp % 64)]

def replacement : Bytes := [239, 191, 189]

/-- the string a (scanner-accepted) literal body denotes; a lone surrogate escape denotes U+FFFD -/
def decodeBody : Nat → Bytes → Bytes
  | 0, _ => []
  | _ + 1, [] => []
  | n + 1, 92 :: 117 :: a :: b :: c :: d :: r =>
    let cp := ((hexNib a * 16 + hexNib b) * 16 + hexNib c) * 16 + hexNib d
    if cp ≥ 0xD800 && cp < 0xDC00 then
      match r with
      | 92 :: 117 :: a2 :: b2 :: c2 :: d2 :: r2 =>
        let lo := ((hexNib a2 * 16 + hexNib b2) * 16 + hexNib c2) * 16 + hexNib d2
        if lo ≥ 0xDC00 && lo < 0xE000 then
          utf8 (0x10000 + (cp - 0xD800) * 1024 + (lo - 0xDC00)) ++ decodeBody n r2
        else replacement ++ decodeBody n r
      | _ => replacement ++ decodeBody n r
    else if cp ≥ 0xDC00 && cp < 0xE000 then replacement ++ decodeBody n r
    else utf8 cp ++ decodeBody n r
  | n + 1, 92 :: e :: r =>
    let ch : UInt8 := if e == 98 then 8 else if e == 102 then 12 else if e == 110 then 10
                      else if e == 114 then 13 else if e == 116 then 9 else e
    ch :: decodeBody n r
  | n + 1, c :: r => c :: decodeBody n r

def strEq (a b : Bytes) : Bool := decodeBody (a.length + 1) a == decodeBody (b.length + 1) b

mutual
/-- two trees denote the same value: same shape, member order kept, numbers by literal,
    strings and keys by the string they denote -/
def equivJ : Nat → JVal → JVal → Bool
  | 0, _, _ => false
  | _ + 1, .null, .null => true
  | _ + 1, .bool a, .bool b => a == b
  | _ + 1, .num a, .num b => a == b
  | _ + 1, .str a, .str b => strEq a b
  | n + 1, .arr xs, .arr ys => equivL n xs ys
  | n + 1, .obj xs, .obj ys => equivM n xs ys
  | _ + 1, _, _ => false
def equivL : Nat → List JVal → List JVal → Bool
  | 0, _, _ => false
  | _ + 1, [], [] => true
  | n + 1, x :: xs, y :: ys => equivJ n x y && equivL n xs ys
  | _ + 1, _, _ => false
def equivM : Nat → List (Bytes × JVal) → List (Bytes × JVal) → Bool
  | 0, _, _ => false
  | _ + 1, [], [] => true
  | n + 1, (k, x) :: xs, (l, y) :: ys => strEq k l && equivJ n x y && equivM n xs ys
  | _ + 1, _, _ => false
end

def allSome : List (Option Bytes) → Option (List Bytes)
  | [] => some []
  | none :: _ => none
  | some b :: r => (allSome r).map (b :: ·)

def handle : List String → Option String
  | "conc" :: mode :: docHex :: _k :: _seed :: variant :: mraw :: conv :: outs :: _ =>
    match unhexArg docHex with
    | none => none
    | some doc =>
      let race := if variant == "pinned" && mraw != "0" && conv != "0" && mode != "load" && mode != "loadall"
                  then "predicted" else "none"
      match parseDoc doc with
      | none => some s!"model=invalid_doc\trace={race}"
      | some v =>
        if mode == "sub" || outs == "-" || outs == "" then some s!"model=ok\touts_ok=1\trace={race}" else
        match allSome ((outs.splitOn ",").map unhexArg) with
        | none => none
        | some os =>
          let fuel := doc.length + 2
          let ok := os.all fun o =>
            match parseDoc o with
            | some w => equivJ fuel v w
            | none => false
          some s!"model=ok\touts_ok={if ok then 1 else 0}\trace={race}"
  | _ => none

end SonicSpec.Driver.RW
