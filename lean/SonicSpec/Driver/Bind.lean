/-
  Driver for the typed decoding model (C01 / C11).
    unm <cfgbits> <T> <doc hex>   →  model=<ok|syntax|mismatch|unknown_field|other|unsupported>  val=<V dump>
  `cfgbits` is the decimal mask over sonic.Config's fields in declaration order; the positions are read
  from the regenerated `Gen.configFields`, so a reordering of Config is followed automatically.
-/
import SonicSpec.Model.BindStream
import SonicSpec.Model.BindDom
import SonicSpec.Generated.Opts
namespace SonicSpec.Driver.Bind
open SonicSpec SonicSpec.Go SonicSpec.Bind

def cfgBit (bits : Nat) (name : String) : Bool :=
  match Gen.configFields.idxOf? name with
  | some i => bits / 2 ^ i % 2 == 1
  | none => false

def optsOf (bits : Nat) : DecOpts :=
  { useNumber := cfgBit bits "UseNumber", useInt64 := cfgBit bits "UseInt64",
    disallowUnknown := cfgBit bits "DisallowUnknownFields", caseSensitive := cfgBit bits "CaseSensitive",
    validateString := cfgBit bits "ValidateString", copyString := cfgBit bits "CopyString" }

def hasSub (s sub : String) : Bool := (s.splitOn sub).length > 1

def asciiLower (b : Bytes) : Bytes := b.map fun c => if c ≥ 65 && c ≤ 90 then c + 32 else c

def crudeFold (u : Bytes) : Bytes :=
  match fold u with
  | some f => f
  | none => asciiLower u

mutual
/-- some object carries one key (up to case) three times or more: encoding/json then may re-expose
    elements of a slice truncated by the second occurrence (hidden capacity), which `GoVal` cannot hold -/
partial def tripleDup : RVal → Bool
  | .arr _ xs => xs.any tripleDup
  | .obj _ kvs =>
    let ks := kvs.map fun p => crudeFold p.1
    ks.any (fun k => (ks.filter (· == k)).length ≥ 3) || kvs.any fun p => tripleDup p.2
  | _ => false
end

mutual
/-- the type has a struct none of whose fields is visible to JSON (sonic's `_OP_skip_emtpy` path) -/
partial def hasEmptyStruct : GoType → Bool
  | .st fs => (resolveFields fs).isEmpty || fs.any fun f => hasEmptyStruct f.2.2
  | .sl t | .arr _ t | .ptr t => hasEmptyStruct t
  | .map k t => hasEmptyStruct k || hasEmptyStruct t
  | _ => false
end

/-- a literal on which rounding to float64 first and then to float32 differs from rounding once
    (value one ulp off, or overflow on one side only): C19-f32-double-rounding -/
def f32DoubleRounds (l : Bytes) : Bool :=
  match Num.toF32Bits l, Num.f32ViaF64 l with
  | .ok a, .ok b => a.toNat != b
  | .ok _, .error _ => true
  | .error .range, .ok _ => true
  | _, _ => false

mutual
/-- number texts of a document: literals, and string contents (`,string` fields) -/
partial def numTexts : RVal → List Bytes
  | .num l => [l]
  | .str _ u => [u]
  | .arr _ xs => xs.flatMap numTexts
  | .obj _ kvs => kvs.flatMap fun p => numTexts p.2
  | _ => []
end

def run (cfg tstr h : String) : Option String := do
    let bits ← cfg.toNat?
    let doc ← unhexArg h
    let numFlags : String := match parseRDoc doc with
      | some j =>
        let ts := numTexts j
        s!"\tf32dr={if ts.any f32DoubleRounds then 1 else 0}\tnegz={if ts.any (· == [45, 48]) then 1 else 0}"
      | none => ""
    if hasSub tstr "(lib" then return s!"model=unsupported\twhy=lib\tstruct={if Stream.structuralDoc false doc then 1 else 0}{numFlags}"
    let T ← parseType tstr
    let o := optsOf bits
    if o.useNumber && o.useInt64 then return "model=unsupported\twhy=opts"
    -- the single-pass model (jitdec architecture) with the structural skipper: the judge of the documented
    -- leniency (skipped values are checked for structure only, whatever the configuration)
    let st : String :=
      match Stream.decodeFull { o with validateString := false } T doc with
      | .error e => s!"stream={e.toString}"
      | .ok (v, none) => s!"stream=ok\tsval={valToString v}"
      | .ok (_, some .outside) => "stream=unsupported"
      | .ok (v, some e) => s!"stream={e.toString}\tsval={valToString v}"
    let st := st ++ s!"\tstruct={if Stream.structuralDoc false doc then 1 else 0}\temptyst={if hasEmptyStruct T then 1 else 0}"
    let st := st ++ numFlags
    -- the two-phase model of the alternative decoder AS IT IS (quirks on): what the optdec workers are held against
    let st := st ++ (match Opt.decodeFull .real o T doc with
      | (v, none) => s!"\tomodel=ok\toval={valToString v}"
      | (_, some .outside) => "\tomodel=unsupported"
      | (v, some e) => s!"\tomodel={e.toString}\toval={valToString v}")
    -- ... and with the fastmap path of the interface{} decoder (SONIC_USE_FASTMAP=1)
    let st := st ++ (match Opt.decodeFull .realFastmap o T doc with
      | (v, none) => s!"\tfmodel=ok\tfval={valToString v}"
      | (_, some .outside) => "\tfmodel=unsupported"
      | (v, some e) => s!"\tfmodel={e.toString}\tfval={valToString v}")
    match parseRDoc doc with
    | none => return s!"model=syntax\tval={valToString (zeroOf T)}\t{st}"
    | some j =>
      if (hasSub tstr "(sl" || hasSub tstr "bytes") && tripleDup j then return s!"model=unsupported\twhy=tripledup\t{st}"
      let (v, e) := bindVal o j T (zeroOf T)
      match e with
      | none => return s!"model=ok\tval={valToString v}\t{st}"
      | some .outside => return s!"model=unsupported\twhy=outside\t{st}"
      | some err => return s!"model={err.toString}\tval={valToString v}\t{st}"

def handle : List String → Option String
  | ["unm", cfg, tstr, h] => run cfg tstr h
  | ["bind", cfg, tstr, h, _tags] => run cfg tstr h
  | ["bind", cfg, tstr, h, _tags, _] => run cfg tstr h
  | _ => none

end SonicSpec.Driver.Bind
