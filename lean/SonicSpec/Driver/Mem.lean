/-
  Driver of core I: the answers of the memory-indexed scanner models to the `place` / `plain`
  case lines of go/harness/ops_mem.go, for the entry points whose native path is modelled end to end:

    skip   decoder.Skip on a top-level string / number / literal   (skip_one: advance_ns, advance_string_default,
                                                                    do_skip_number, advance_dword)
    getf   sonic.GetWithOptions(ValidateJSON=false), empty path    (skip_one_fast: advance_ns, skip_string_fast,
                                                                    skip_container_fast, skip_number_fast)
    valid  sonic.Valid on a top-level string / number / literal    (validate_one + trailing blanks)
    gf=    for the number-parsing entry points on a bare number: does check_leading_zero fault in placement (ii)

  The model is run on the memories that ops_mem.go builds: `guard=` (input ending `offset` bytes before an
  unmapped page, the gap filled with the continuation), `tail=` (input followed by the continuation) and
  `model=` (zeroes behind the input, everything mapped).  `FAULT` = a load of an unmapped byte.
  `alt…=` are the answers when the uninitialised `ch` of advance_string_default happens to hold a quote.
-/
import SonicSpec.Model.MemScan
import SonicSpec.Model.MemStr
namespace SonicSpec.Driver.Mem
open SonicSpec SonicSpec.Mem

/-- the 16 bytes `\"[{,: 0.5e1]}"\` that ops_mem.go writes in front of every placed input -/
def prefixPat : Bytes := [92, 34, 91, 123, 44, 58, 32, 48, 46, 53, 101, 49, 93, 125, 34, 92]

def edge : Nat := 24 * 4096

def tailByte (tail : Array UInt8) (k : Nat) : UInt8 :=
  if tail.isEmpty then 0 else tail.getD (k % tail.size) 0

/-- memory of one placement: input at `start`, continuation for `fill` bytes behind it, zeroes further on,
    the hostile pattern in the 64 bytes in front, nothing mapped from `lim` on -/
def placed (doc tail : Array UInt8) (start fill lim : Nat) : Mem := fun a =>
  if a ≥ lim then none
  else if a ≥ start + doc.size then
    (if a - (start + doc.size) < fill then some (tailByte tail (a - (start + doc.size))) else some 0)
  else if a ≥ start then some (doc.getD (a - start) 0)
  else if start - a ≤ 64 then some (prefixPat.getD ((start - a) % 16) 0)
  else some 0

def showSkip (n : Nat) : Option (Option SkipRes) → String
  | none => "FAULT"
  | some none => "unsupported"
  | some (some (.ok s p)) => s!"{s},{p}"
  | some (some (.err c p)) => s!"-{c},{min p n}"   -- decoder.Skip clamps the error position into the input (errors.ClampPos)

def showGetf (doc : Bytes) : Option SkipRes → String
  | none => "FAULT"
  | some (.ok s p) => "ok:" ++ hexArg ((doc.drop s).take (p - s))
  | some (.err c p) => s!"astsyntax.{c}@{min p doc.length}"   -- ast syntaxError clamps the position (clampPos)

/-- alg.Valid (internal/encoder/alg/spec.go:37): empty ⇒ false; validate_one; only blanks may follow -/
def showValid (doc : Bytes) : Option (Option SkipRes) → String
  | none => "FAULT"
  | some none => "unsupported"
  | some (some (.ok _ p)) => if (doc.drop p).all isSpace then "1" else "0"
  | some (some (.err _ _)) => "0"

def isNumberParsing (api : String) : Bool :=
  ["unm_any", "unm_anystd", "unm_int", "unm_i8", "unm_u64", "unm_f64", "unm_f32"].contains api

/-- does the head of vnumber fault when the bare number `doc` lies in `m` at `base`? -/
def leadZeroFault (api : String) (m : Mem) (base : Nat) (doc : Bytes) : Option Bool :=
  let p := (doc.takeWhile isSpace).length
  match doc[p]? with
  | none => none
  | some c =>
    -- an unsigned destination rejects `-` (type mismatch) before any digit is looked at: no prediction
    if c == 45 && api == "unm_u64" then none
    else if c == 45 || isDigit c then
      some (vnumberHead (view m base) doc.length p).isNone
    else none

/-- the string routines run with the widths of the same build -/
def strW (w : Widths) : StrWidths := if w.lspace.isEmpty then StrWidths.sse else StrWidths.avx2

def showBytes : Option Bytes → String
  | none => "FAULT"
  | some b => hexArg b

/-- `unquote.String`: `<ParsingError>:<hex of the result>` (types.go:83-86) -/
def showUnq : Option (Except Str.UErr Bytes) → String
  | none => "FAULT"
  | some (.ok b) => "0:" ++ hexArg b
  | some (.error .eof) => "1:-"
  | some (.error .inval) => "2:-"
  | some (.error .escape) => "3:-"
  | some (.error .unicode) => "4:-"

/-- quote / unquote / html / utf8v / utf8vs / utf8c: the block-wise models of Model/MemStr.lean on the placement -/
def answerStr (sw : StrWidths) (api : String) (rd : Rd) (doc : Bytes) : Option String :=
  let n := doc.length
  if api == "quote" then
    -- alg.Quote: `""` for the empty string, else one native call per buffer size (first: nb + 1 free bytes)
    some (if n == 0 then hexArg [34, 34]
          else showBytes ((quoteGo sw Str.quoteByte rd n [n + 1] 0 []).map fun b => 34 :: (b ++ [34])))
  else if api == "unquote" then some (showUnq (unquoteNative sw true false rd n))
  else if api == "html" then some (showBytes (htmlGo sw rd n [n + 64] 0 []))
  else if api == "utf8v" || api == "utf8vs" then
    some (match utf8Fast sw rd n with
      | none => "FAULT"
      | some b => if b then "1" else "0")
  else if api == "utf8c" then some (showBytes ((loadW rd n 0).map (Str.correctWith Str.fffd)))
  else none

def answer (w : Widths) (api : String) (ch0 : UInt8) (m : Mem) (base : Nat) (doc : Bytes) : Option String :=
  let rd := view m base
  if let some r := answerStr (strW w) api rd doc then some r
  else if doc.isEmpty then
    (if api == "valid" then some "0" else none)
  else if api == "skip" then some (showSkip doc.length (skipOneScalarValue ch0 w rd doc.length 0))
  else if api == "valid" then some (showValid doc (skipOneScalarValue ch0 w rd doc.length 0))
  else if api == "getf" then some (showGetf doc (skipOneFast w base rd doc.length 0))
  else none

def widthsOf (mode : String) : Widths := if mode == "sse" then Widths.sse else Widths.avx2

/-- `place api doc off tail [mode]` / `plain api doc [mode]`; `mode` (avx2 | sse) is appended by the check -/
def handle : List String → Option String
  | "place" :: api :: hdoc :: soff :: htail :: rest =>
    match unhexArg hdoc, soff.toNat?, unhexArg htail with
    | some doc, some off, some tail =>
      let w := widthsOf (rest.headD "avx2")
      let gstart := edge - off - doc.length
      let tstart := 2 * 4096 + gstart % 64
      let mg := placed doc.toArray tail.toArray gstart (edge - gstart) edge
      let mt := placed doc.toArray tail.toArray tstart 256 edge
      let mh := placed doc.toArray #[] (3 * 4096 + 16) 0 edge
      let gf := if isNumberParsing api then
          (match leadZeroFault api mg gstart doc with
           | some b => s!"\tgf={if b then 1 else 0}"
           | none => "")
        else ""
      match answer w api 0 mh (3 * 4096 + 16) doc, answer w api 0 mg gstart doc, answer w api 0 mt tstart doc with
      | some h, some g, some t =>
        let ah := (answer w api 34 mh (3 * 4096 + 16) doc).getD h
        let ag := (answer w api 34 mg gstart doc).getD g
        let at' := (answer w api 34 mt tstart doc).getD t
        let vs := if api == "utf8v" || api == "utf8vs" then
            (match utf8Vec StrWidths.avx2.utf8 (ofList doc) doc.length with
             | some true => if Str.validate doc then "\tvecsound=1" else "\tvecsound=0"
             | _ => "\tvecsound=1")
          else ""
        some s!"model={h}\tguard={g}\ttail={t}\talt={ah}\taltguard={ag}\talttail={at'}{gf}{vs}"
      | _, _, _ => if gf == "" then none else some s!"model=unsupported{gf}"
    | _, _, _ => none
  | "plain" :: api :: hdoc :: rest =>
    match unhexArg hdoc with
    | some doc =>
      let w := widthsOf (rest.headD "avx2")
      let mh := placed doc.toArray #[] (3 * 4096 + 16) 0 edge
      match answer w api 0 mh (3 * 4096 + 16) doc with
      | some h =>
        let vs := if api == "utf8v" || api == "utf8vs" then
            (match utf8Vec StrWidths.avx2.utf8 (ofList doc) doc.length with
             | some true => if Str.validate doc then "\tvecsound=1" else "\tvecsound=0"
             | _ => "\tvecsound=1")
          else ""
        some s!"model={h}\talt={(answer w api 34 mh (3 * 4096 + 16) doc).getD h}{vs}"
      | none => none
    | none => none
  | _ => none

end SonicSpec.Driver.Mem
