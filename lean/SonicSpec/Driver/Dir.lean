/-
  Driver for the decoder-IR core (work package `dir`; C01 / C11 deep part).
    dirdis <T> [<MaxInlineDepth>]
        model=ok n=<instructions> dis=<hex of the disassembly of `Dir.compile`>, in the text format of
        go/harness/ops_dir_hook.go (the real `_Program.disassemble` layout, type operands in the type-expression
        grammar, hidden operands after ` ; `);  model=panic when a `_Program.tag` check of the real compiler
        fails ("type nesting too deep");  model=unsupported for a named type outside `Dir.libInfo`
    dirun <cfgbits> <T> <doc hex> [...]
        model=ok val=<V> | model=<error kind> | model=unsupported why=..: `Dir.execFuel` on `Dir.compile T` with the real stack
        limit, destination = zero value of T;
        stream=eq|ne   `Stream.decode` accepts the same documents with the same value (errors: both fail)
        sub=1|0        T lies in the sub-universe of Props/C01Dir `exec_compile_eq_stream_partial`
-/
import SonicSpec.Model.DirSub
import SonicSpec.Driver.Bind
namespace SonicSpec.Driver.Dir
open SonicSpec SonicSpec.Go SonicSpec.Dir SonicSpec.Bind

def coOf (rest : List String) : COpts :=
  match rest.head?.bind String.toNat? with
  | some d => if d == 0 then {} else { maxInlineDepth := d }
  | none => {}

def handleDis (T : String) (rest : List String) : Option String := do
  let t ← parseType T
  let co := coOf rest
  if !libsKnown t then pure "model=unsupported"
  else if !tagOK co 0 t then pure "model=panic"
  else
    let p := compile co t
    pure s!"model=ok\tn={p.length}\tdis={hexArg (disasm p)}"

def xerrName : XErr → String
  | .dec e => e.toString
  | .depth => "depth"
  | .stuck => "stuck"

def handleRun (cfg T h : String) : Option String := do
  let bits ← cfg.toNat?
  let t ← parseType T
  let doc ← unhexArg h
  let o := Driver.Bind.optsOf bits
  let co : COpts := {}
  let sub := if Sub t then "1" else "0"
  if !libsKnown t || !tagOK co 0 t then pure "model=unsupported\twhy=type"
  else if o.useNumber && o.useInt64 then pure "model=unsupported\twhy=opts"
  else
    let p := compile co t
    let spec := Stream.decode o t doc
    match execFuel (200 * (doc.length + p.length) + 1000) o co (some maxStack) p doc (zeroOf t) with
    | none => pure s!"model=unsupported\twhy=fuel\tsub={sub}"
    | some (.error .stuck) => pure s!"model=unsupported\twhy=stuck\tsub={sub}"
    | some (.error (.dec .outside)) => pure s!"model=unsupported\twhy=outside\tsub={sub}"
    | some (.error e) =>
      let same := match spec with
        | .error .outside => "~"
        | .error _ => "eq"
        | .ok _ => "ne"
      pure s!"model={xerrName e}\tstream={same}\tsub={sub}"
    | some (.ok v) =>
      let same := match spec with
        | .ok w => if valToString w == valToString v then "eq" else "ne"
        | .error .outside => "~"
        | .error _ => "ne"
      pure s!"model=ok\tval={valToString v}\tstream={same}\tsub={sub}"

def handle : List String → Option String
  | "dirdis" :: T :: rest => handleDis T rest
  | "dirun" :: cfg :: T :: h :: _ => handleRun cfg T h
  | _ => none

end SonicSpec.Driver.Dir
