/-
  Driver handler for C14:  `get <opts> <doc hex> <path>`  and  `pre <doc hex>`.
  path = `-` (empty) or elements joined by `/`:  `k:<hex|->`  |  `i:<int>`.
-/
import SonicSpec.Model.SearchViews
import SonicSpec.Model.SearchNode
namespace SonicSpec.Driver.Search
open SonicSpec SonicSpec.Json SonicSpec.Search

def parseElem (s : String) : Option PathElem :=
  if s.startsWith "k:" then (unhexArg (s.drop 2).toString).map PathElem.key
  else if s.startsWith "i:" then ((s.drop 2).toString.toInt?).map PathElem.idx
  else none

def parsePath (s : String) : Option Path :=
  if s == "-" then some []
  else (s.splitOn "/").mapM parseElem

def resClass {α : Type} : Res α → String
  | .found _ => "ok"
  | .notFound => "nf"
  | .inval => "err:syntax"
  | .eof => "err:syntax"
  | .badPath => "err:path"

/-- record of the byte-level search result: the raw slice is re-read by the strict parser -/
def searchRecord (r : Res Bytes) : String :=
  match r with
  | .found raw =>
    match parseDoc raw with
    | some v => viewRecord (some raw) v
    | none => "ok;unparsable;raw=" ++ hexs raw
  | other => resClass other

def specRecord (r : Res JVal) : String :=
  match r with
  | .found v => viewRecord none v
  | other => resClass other

def nodeRecord : NodeRes → String
  | .found v => viewRecord none v
  | .notFound => "nf"
  | .wrongType => "err:type"

def allOptions : List Options :=
  [false, true].flatMap fun a => [false, true].flatMap fun b => [false, true].map fun c =>
    { validateJSON := a, copyReturn := b, concurrentRead := c }

/-! wide documents by repetition (same construction as go/harness/ops_search.go:srchWideDoc) -/

def strBytes (s : String) : Bytes := s.toUTF8.toList

def wideChild (child : String) (i : Nat) : Bytes :=
  let num := strBytes (toString i)
  if child == "s" then num
  else if child == "e" then (if i % 2 == 0 then [91, 93] else [123, 125])
  else if child == "c" then
    (if i % 2 == 0 then 91 :: (num ++ strBytes ",\"r\"]") else strBytes "{\"id\":" ++ num ++ [125])
  else
    (if i % 3 == 0 then num else if i % 3 == 1 then [91, 93] else strBytes "{\"id\":" ++ num ++ [125])

def wideDoc (ckind child : String) (n : Nat) : Bytes :=
  let arr := ckind == "a"
  let body := (List.range n).foldr (fun i acc =>
    let item := (if arr then [] else strBytes ("\"k" ++ toString i ++ "\":")) ++ wideChild child i
    if i + 1 == n then item ++ acc else item ++ 44 :: acc) []
  strBytes "{\"meta\":{\"n\":1},\"rows\":" ++ (if arr then 91 else 123) :: (body ++ [if arr then 93 else 125, 125])

def fnv (s : String) : String :=
  let h := s.toUTF8.foldl (fun (h : UInt64) b => (h ^^^ b.toUInt64) * 1099511628211) 14695981039346656037
  toString s.utf8ByteSize ++ ":" ++ natHex h.toNat

/-- the long fields of a record as `<length>:<fnv-1a 64>` -/
def compressRec (rec : String) : String :=
  if !rec.startsWith "ok;" then rec
  else
    joinWith ";" ((rec.splitOn ";").map fun kv =>
      match kv.splitOn "=" with
      | k :: rest =>
        if k == "raw" || k == "oc" || k == "c" || k == "it" || k == "cf" || k == "un" then
          if kv == "raw=*" then kv else k ++ "=" ++ fnv (joinWith "=" rest)
        else kv
      | [] => kv)

def getAnswer (doc : Bytes) (path : Path) (compress : Bool) : String :=
  let cz := fun (r : String) => if compress then compressRec r else r
  match parseDoc doc with
  | none => "model=invalid"
  | some d =>
    -- wide documents: the two option sets that reach the model (ValidateJSON off / on)
    let opts := if compress then [{ validateJSON := false }, { validateJSON := true }] else allOptions
    let recs := opts.map fun o => searchRecord (search o doc path)
    let m := recs.headD ""
    let same := recs.all (· == m)
    let sp := specRecord (locateR d path)
    let short := fun (r : String) => if r == sp then "=" else cz r
    s!"model={cz m}\topt={if same then "same" else "diff"}\tkwf={if keysWF d then 1 else 0}\tspec={cz sp}"
      ++ s!"\tnode={short (nodeRecord (locateNode false d path))}\tnodelast={short (nodeRecord (locateNode true d path))}"

def handle : List String → Option String
  | ["c14wide", _opts, ckind, child, ns, ph] => do
    let n ← ns.toNat?
    let path ← parsePath ph
    some (getAnswer (wideDoc ckind child n) path true)
  | ["get", _opts, dh, ph] => do
    let doc ← unhexArg dh
    let path ← parsePath ph
    match parseDoc doc with
    | none => some "model=invalid"
    | some d =>
      let recs := allOptions.map fun o => searchRecord (search o doc path)
      let m := recs.headD ""
      let same := recs.all (· == m)
      let sp := specRecord (locateR d path)
      let short := fun (r : String) => if r == sp then "=" else r
      some (s!"model={m}\topt={if same then "same" else "diff"}\tkwf={if keysWF d then 1 else 0}\tspec={sp}"
        ++ s!"\tnode={short (nodeRecord (locateNode false d path))}\tnodelast={short (nodeRecord (locateNode true d path))}")
  | ["pre", dh] => do
    let doc ← unhexArg dh
    let tree := parseDoc doc
    let valid := tree.isSome
    let sk := match tree with
      | some d => s!"\tmskip=ok:{eventsStr (flattenSkip 1 0 d)}\tdepth={depth d}"
      | none => ""
    match preorderD maxRecurse doc with
    | .ok es => some (s!"model=ok:{eventsStr es}\tvalid={if valid then 1 else 0}" ++ sk)
    | .syntax => some (s!"model=err\tvalid={if valid then 1 else 0}" ++ sk)
    | .tooDeep => some (s!"model=depth\tvalid={if valid then 1 else 0}" ++ sk)
  | ["c14seq", dh, steps] => do
    let doc ← unhexArg dh
    match parseDoc doc with
    | none => some "model=invalid"
    | some d =>
      let stepList := steps.splitOn ";"
      let paths ← stepList.mapM fun st =>
        if st.startsWith "g" || st.startsWith "c" then (parsePath (st.drop 1).toString).map some
        else some none
      let lookups := paths.filterMap id
      -- the implementation model: every lookup of the sequence through the byte-level searcher
      let answers := searchSeq {} doc lookups
      let render := fun (r : Res Bytes) => match r with
        | .found raw => (match parseDoc raw with | some v => "ok:" ++ ocanon v | none => "ok:unparsable")
        | _ => "nf"
      let specOf := fun (p : Path) => match locate d p with | some v => "ok:" ++ ocanon v | none => "nf"
      let rec zipUp : List (Option Path) → List (Res Bytes) → List String × List String
        | [], _ => ([], [])
        | none :: ps, as => let (a, b) := zipUp ps as; ("-" :: a, "-" :: b)
        | some p :: ps, r :: as => let (a, b) := zipUp ps as; (render r :: a, specOf p :: b)
        | some p :: ps, [] => let (a, b) := zipUp ps []; ("?" :: a, specOf p :: b)
      let (m, sp) := zipUp paths answers
      -- the documented Node API (Index on an object = i-th pair), only for the known-finding matcher
      let nd := paths.map fun
        | none => "-"
        | some p => match locateNode false d p with | .found v => "ok:" ++ ocanon v | _ => "nf"
      -- the byte-level lazy loader: the whole sequence on ONE fresh lazy root
      let ln := nodeRunPaths (.raw doc) lookups
      let renderL := fun (a : Option Bytes) => match a with
        | some raw => (match parseDoc raw with | some v => "ok:" ++ ocanon v | none => "ok:unparsable")
        | none => "nf"
      let rec zipL : List (Option Path) → List (Option Bytes) → List String
        | [], _ => []
        | none :: ps, as => "-" :: zipL ps as
        | some _ :: ps, a :: as => renderL a :: zipL ps as
        | some _ :: ps, [] => "?" :: zipL ps []
      some s!"model={joinWith "|" m}\tspec={joinWith "|" sp}\tnode={joinWith "|" nd}\tlnode={joinWith "|" (zipL paths ln)}"
  | _ => none

end SonicSpec.Driver.Search
