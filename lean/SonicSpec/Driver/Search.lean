/-
  Driver handler for C14:  `get <opts> <doc hex> <path>`  and  `pre <doc hex>`.
  path = `-` (empty) or elements joined by `/`:  `k:<hex|->`  |  `i:<int>`.
-/
import SonicSpec.Model.SearchViews
namespace SonicSpec.Driver.Search
open SonicSpec SonicSpec.Json SonicSpec.Search

def parseElem (s : String) : Option PathElem :=
  if s.startsWith "k:" then (unhexArg (s.drop 2).toString).map PathElem.key
  else if s.startsWith "i:" then ((s.drop 2).toString.toInt?).map PathElem.idx
  else none

def parsePath (s : String) : Option Path :=
  if s == "-" then some []
  else (s.splitOn "/").mapM parseElem

def resClass {α : Type} : Res α → String
  | .found _ => "ok"
  | .notFound => "nf"
  | .inval => "err:syntax"
  | .eof => "err:syntax"
  | .badPath => "err:path"

/-- record of the byte-level search result: the raw slice is re-read by the strict parser -/
def searchRecord (r : Res Bytes) : String :=
  match r with
  | .found raw =>
    match parseDoc raw with
    | some v => viewRecord (some raw) v
    | none => "ok;unparsable;raw=" ++ hexs raw
  | other => resClass other

def specRecord (r : Res JVal) : String :=
  match r with
  | .found v => viewRecord none v
  | other => resClass other

def nodeRecord : NodeRes → String
  | .found v => viewRecord none v
  | .notFound => "nf"
  | .wrongType => "err:type"

def allOptions : List Options :=
  [false, true].flatMap fun a => [false, true].flatMap fun b => [false, true].map fun c =>
    { validateJSON := a, copyReturn := b, concurrentRead := c }

def handle : List String → Option String
  | ["get", _opts, dh, ph] => do
    let doc ← unhexArg dh
    let path ← parsePath ph
    match parseDoc doc with
    | none => some "model=invalid"
    | some d =>
      let recs := allOptions.map fun o => searchRecord (search o doc path)
      let m := recs.headD ""
      let same := recs.all (· == m)
      let sp := specRecord (locateR d path)
      let short := fun (r : String) => if r == sp then "=" else r
      some (s!"model={m}\topt={if same then "same" else "diff"}\tspec={sp}"
        ++ s!"\tnode={short (nodeRecord (locateNode false d path))}\tnodelast={short (nodeRecord (locateNode true d path))}")
  | ["pre", dh] => do
    let doc ← unhexArg dh
    let valid := (parseDoc doc).isSome
    match preorder doc with
    | some es => some s!"model=ok:{eventsStr es}\tvalid={if valid then 1 else 0}"
    | none => some s!"model=err\tvalid={if valid then 1 else 0}"
  | _ => none

end SonicSpec.Driver.Search
