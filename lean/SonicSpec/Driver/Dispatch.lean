import SonicSpec.Model.Hex
namespace SonicSpec.Driver

/-- one protocol line in (already split at tabs), one result line out -/
def dispatch (parts : List String) : String :=
  match parts with
  | "ping" :: _ => "pong"
  | _ => "model=unsupported"

end SonicSpec.Driver
