import SonicSpec.Model.Hex
import SonicSpec.Driver.Str
import SonicSpec.Driver.Num
import SonicSpec.Driver.Loader
import SonicSpec.Driver.Own
import SonicSpec.Driver.Mem
import SonicSpec.Driver.IO
import SonicSpec.Driver.Json
import SonicSpec.Driver.Opts
import SonicSpec.Driver.Conc
import SonicSpec.Driver.Search
import SonicSpec.Driver.RW
import SonicSpec.Driver.Ast
import SonicSpec.Driver.Bind
import SonicSpec.Driver.Enc
import SonicSpec.Driver.Robust
import SonicSpec.Driver.Ir
import SonicSpec.Driver.Dir
namespace SonicSpec.Driver

def handlers : List (List String → Option String) :=
  [ Str.handle, Num.handle, Loader.handle, Own.handle, Mem.handle, IO.handle, Json.handle, Opts.handle, Conc.handle, Search.handle, RW.handle, Ast.handle, Bind.handle, Enc.handle, Robust.handle, Ir.handle, Dir.handle ]

/-- one protocol line in (already split at tabs), one result line out -/
def dispatch (parts : List String) : String :=
  match parts with
  | "ping" :: _ => "pong"
  | _ =>
    match handlers.findSome? (fun h => h parts) with
    | some r => r
    | none => "model=unsupported"

end SonicSpec.Driver
