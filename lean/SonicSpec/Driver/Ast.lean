/-
  Driver for C15: `ast <mode> <doc hex> <op>...` (see go/harness/ops_ast.go for the grammar).
  Runs the specification (`Tree`) and the implementation model (`NodeM`) on the same sequence and
  prints both transcripts in the format of the harness:
     model=<steps>  nodem=<steps>  st=<representation of the addressed node before each step>
     fl=<flags per step>
-/
import SonicSpec.Model.AstRefine
namespace SonicSpec.Driver.Ast
open SonicSpec SonicSpec.Ast

def fnv64 (b : Bytes) : UInt64 :=
  b.foldl (fun h c => (h ^^^ c.toUInt64) * 1099511628211) 14695981039346656037

def hex16 (n : UInt64) : String :=
  let digs := (List.range 16).map fun i =>
    let d := ((n >>> (UInt64.ofNat (4 * (15 - i)))) &&& 15).toNat
    if d < 10 then Char.ofNat (48 + d) else Char.ofNat (87 + d)
  String.ofList digs

def bytesToString (b : Bytes) : String := String.ofList (b.map fun c => Char.ofNat c.toNat)

/-- shorten a canonical text for the wire (same rule as `cv` of the harness) -/
def cv (b : Bytes) : String :=
  if b.length ≤ 60 then bytesToString b else s!"#{hex16 (fnv64 b)}/{b.length}"

/-- keys and kinds of the members of a canonical container text, as the harness prints for `iter` -/
def tagOf (c : UInt8) : Char :=
  if c == 34 then 's' else if c == 91 then 'a' else if c == 123 then 'o'
  else if c == 116 || c == 102 then 'b' else if c == 110 then 'z' else 'n'

/-- scan the inside of a canonical container one byte at a time.  `ph`: 0 = a member starts,
    1 = inside the key, 2 = after the key (colon expected), 3 = the value starts, 4 = inside a value;
    strings hold hex digits only, so brackets and commas are always structural -/
def summaryGo (isObj : Bool) : Bytes → Nat → Nat → Bool → List Char → List Char
  | [], _, _, _, acc => acc.reverse
  | c :: r, depth, ph, emptyKey, acc =>
    if ph == 0 then
      if isObj then summaryGo isObj r depth 1 true acc            -- opening quote of the key
      else
        let d : Nat := if c == 91 || c == 123 then depth + 1 else depth
        summaryGo isObj r d 4 false (tagOf c :: acc)
    else if ph == 1 then
      if c == 34 then summaryGo isObj r depth 2 false (if emptyKey then '-' :: acc else acc)
      else summaryGo isObj r depth 1 false (Char.ofNat c.toNat :: acc)
    else if ph == 2 then summaryGo isObj r depth 3 false acc       -- the colon
    else if ph == 3 then
      let d : Nat := if c == 91 || c == 123 then depth + 1 else depth
      summaryGo isObj r d 4 false ('.' :: tagOf c :: acc)
    else if c == 91 || c == 123 then summaryGo isObj r (depth + 1) 4 false acc
    else if c == 93 || c == 125 then summaryGo isObj r (depth - 1) 4 false acc
    else if c == 44 && depth == 0 then summaryGo isObj r 0 0 false acc
    else summaryGo isObj r depth 4 false acc

def summary (text : Bytes) : String :=
  match text with
  | 91 :: r => String.ofList (summaryGo false r.dropLast 0 0 false [])
  | 123 :: r => String.ofList (summaryGo true r.dropLast 0 0 false [])
  | _ => ""

def errName : ErrKind → String
  | .unsupported => "unsupported"
  | .notfound => "notfound"

/-- (ret, val) columns of one step -/
def showRet (op : Op) : Ret → String × String
  | .val t =>
    match op with
    | .iter => (s!"it:{cv ((summary t).toUTF8.toList)}", cv t)
    | _ => ("v", cv t)
  | .nx => ("nx", "_")
  | .err k => (s!"e:{errName k}", "_")
  | .n k => (s!"n:{k}", "_")
  | .b x => (if x then "b:1" else "b:0", "_")
  | .ok => ("ok", "_")
  | .notarget => ("notarget", "_")
  | .panic => ("PANIC", "_")

/-! ## parsing the case line -/

def parseSel (s : String) : Option Sel :=
  match s.toList with
  | 'k' :: r => (unhexArg (String.ofList r)).map Sel.key
  | 'i' :: r => (String.ofList r).toNat?.map Sel.idx
  | _ => none

def parsePath (s : String) : Option (List Sel) :=
  if s == "." || s == "" then some [] else (s.splitOn "/").mapM parseSel

def parseVal (h : String) : Option Tree := (unhexArg h).bind parseTree

def parseOp (name : String) (args : List String) : Option Op :=
  match name, args with
  | "get", [k] => (unhexArg k).map Op.get
  | "idx", [i] => i.toNat?.map Op.idx
  | "len", [] => some .len
  | "iter", [] => some .iter
  | "set", [k, v] => do some (.set (← unhexArg k) (← parseVal v))
  | "seti", [i, v] => do some (.seti (← i.toNat?) (← parseVal v))
  | "add", [v] => (parseVal v).map Op.add
  | "unset", [k] => (unhexArg k).map Op.unset
  | "unseti", [i] => i.toNat?.map Op.unseti
  | "pop", [] => some .pop
  | "move", [d, s] => do some (.move (← d.toNat?) (← s.toNat?))
  | "sort", [r] => some (.sort (r == "1"))
  | "load", [] => some .load
  | "raw", [] => some .raw
  | "mar", [] => some .mar
  | _, _ => none

def parsePOp (s : String) : Option POp :=
  match s.splitOn ":" with
  | p :: name :: args => do some ⟨← parsePath p, ← parseOp name args⟩
  | _ => none

/-! ## a look at the addressed node without touching anything (flags only) -/

def peek : NodeM → List Sel → Option NodeM
  | n, [] => some n
  | n, s :: p =>
    let c : Option NodeM :=
      match n, s with
      | .raw v _, s => (v.child? s).map (fun c => NodeM.raw c false)
      | .arrLazy pre rest, .idx i =>
        if i < pre.length then pre[i]? else (rest[i - pre.length]?).map (fun c => NodeM.raw c false)
      | .objLazy pre rest, .idx i =>
        if i < pre.length then (pre[i]?).map (·.2.2) else (rest[i - pre.length]?).map (fun c => NodeM.raw c.2 false)
      | .objLazy pre rest, .key k =>
        match pre.find? (fun q => q.2.1 == k && pairLive q) with
        | some q => some q.2.2
        | none => (rest.find? (fun q => q.1 == k)).map (fun c => NodeM.raw c.2 false)
      | .arr _ st, .idx i => (nthLive NodeM.live st i).bind (fun j => st[j]?)
      | .obj _ st _, .idx i => (nthLive pairLive st i).bind (fun j => (st[j]?).map (·.2.2))
      | .obj _ st _, .key k => (st.find? (fun q => q.2.1 == k && pairLive q)).map (·.2.2)
      | _, _ => none
    c.bind (fun c => peek c p)

def opKey : Op → Option Key
  | .get k => some k
  | .set k _ => some k
  | .unset k => some k
  | _ => none

def countKey (k : Key) (kvs : List (Key × Tree)) : Nat := (kvs.filter (fun q => q.1 == k)).length

def resolveT : Tree → List Sel → Option Tree
  | t, [] => some t
  | t, s :: p => (t.child? s).bind (fun c => resolveT c p)

structure Fl where
  d : Bool := false
  e : Bool := false
  x : Bool := false
  i : Bool := false
  b : Bool := false
  o : Bool := false
  y : Bool := false

def firstLive (k : Key) : List PairM → Nat → Option Nat
  | [], _ => none
  | q :: r, i => if q.2.1 == k && pairLive q then some i else firstLive k r (i + 1)

/-- the hash index (present, or about to be built because more than 16 pairs get loaded) does not
    lead to the first live pair with key `k` -/
def incoherent (n : NodeM) (k : Key) : Bool :=
  match n with
  | .obj _ st (some ix) => ixGet ix (some k) != firstLive k st 0
  | .objLazy pre rest =>
    pre.length + rest.length > 16 &&
      (pre.filter (fun q => q.2.1 == k)).length + countKey k rest > 1
  | .raw (.obj kvs) _ => kvs.length > 16 && countKey k kvs > 1
  | _ => false

def nodeFlags (f : Fl) (t : Option Tree) (n : Option NodeM) (key : Option Key) : Fl :=
  let d : Bool := match t, key with
    | some (.obj kvs), some k => countKey k kvs > 1
    | _, _ => false
  let e : Bool := match key with | some k => k.isEmpty | none => false
  let b : Bool := match t with
    | some (.obj kvs) => kvs.length > 16
    | some (.arr xs) => xs.length > 16
    | _ => false
  let x : Bool := match n with
    | some (.arr l st) => st.length != l
    | some (.obj l st _) => st.length != l
    | _ => false
  let i : Bool := match n with
    | some (.obj _ _ (some _)) => true
    | some (.objLazy pre rest) => pre.length + rest.length > 16
    | some (.raw (.obj kvs) _) => kvs.length > 16
    | _ => false
  let y : Bool := match n, key with
    | some n, some k => incoherent n k
    | _, _ => false
  { f with d := f.d || d, e := f.e || e, x := f.x || x, i := f.i || i, b := f.b || b, y := f.y || y }

/-- flags gathered over every node the step walks through and the addressed node itself -/
def walkFlags (f : Fl) (t : Option Tree) (n : Option NodeM) : List Sel → Op → Fl
  | [], op =>
    let f := nodeFlags f t n (opKey op)
    let len : Nat := match t with
      | some (.arr xs) => xs.length
      | some (.obj kvs) => kvs.length
      | _ => 0
    let o : Bool := match op with
      | .move d s => d ≥ len || s ≥ len
      | .idx i => i ≥ len
      | .seti i _ => i ≥ len
      | .unseti i => i ≥ len
      | _ => false
    { f with o := o }
  | s :: p, op =>
    let f := nodeFlags f t n (match s with | .key k => some k | .idx _ => none)
    walkFlags f (t.bind (fun t => t.child? s)) (n.bind (fun n => peek n [s])) p op

/-- flags of one step: d = a key used occurs more than once in its object, e = an empty key is
    used, x = a node on the way has emptied slots, i = one holds a hash index, b = more than 16
    members, o = index argument beyond the length, y = the hash index of an object on the way does
    not lead to the first live pair carrying the key used -/
def flags (t : Tree) (n : NodeM) (o : POp) : String :=
  let f := walkFlags {} (some t) (some n) o.path o.op
  String.ofList ((if f.d then ['d'] else []) ++ (if f.e then ['e'] else []) ++ (if f.x then ['x'] else [])
    ++ (if f.i then ['i'] else []) ++ (if f.b then ['b'] else []) ++ (if f.o then ['o'] else [])
    ++ (if f.y then ['y'] else []))

structure Acc where
  t : Tree
  n : NodeM
  model : List String := []
  nodem : List String := []
  st : List Char := []
  fl : List String := []

def runOne (a : Acc) (o : POp) : Acc :=
  let rt := step a.t o
  let rn := stepM a.n o
  let (r1, v1) := showRet o.op rt.1
  let (r2, v2) := showRet o.op rn.1
  -- `len`: beside the answer, the length once completely loaded (the harness measures it on a copy)
  let fullLen (t : Option Tree) : String := match t with
    | some (.arr xs) => s!"full:{xs.length}"
    | some (.obj kvs) => s!"full:{kvs.length}"
    | some (.str s) => s!"full:{s.length}"
    | some .null => "full:0"
    | _ => "_"
  let v1 := match o.op, rt.1 with
    | .len, .n _ => fullLen (resolveT rt.2 o.path)
    | _, _ => v1
  let v2 := match o.op, rn.1 with
    | .len, .n _ =>
      -- what the harness does on its copy: Load(), then Len() again, through the same path
      match (stepM (stepM rn.2 ⟨o.path, .load⟩).2 ⟨o.path, .len⟩).1 with
      | .n k => s!"full:{k}"
      | .err e => s!"full:e:{errName e}"
      | _ => "_"
    | _, _ => v2
  let reprC := match peek a.n o.path with | some c => c.repr1 | none => 'x'
  { t := rt.2, n := rn.2,
    model := s!"{r1}~{v1}~{cv rt.2.canon}" :: a.model,
    nodem := s!"{r2}~{v2}~{cv rn.2.canon}" :: a.nodem,
    st := reprC :: a.st,
    fl := flags a.t a.n o :: a.fl }

def handle : List String → Option String
  | "ast" :: mode :: docH :: ops =>
    match (unhexArg docH).bind parseTree, ops.mapM parsePOp with
    | some doc, some pops =>
      let lock := mode == "cr"
      let init : Acc := { t := doc, n := newRaw doc lock }
      let a := pops.foldl runOne init
      let i0 := s!"init~_~{cv doc.canon}"
      let i1 := s!"init~_~{cv (newRaw doc lock).canon}"
      some (s!"model={";".intercalate (i0 :: a.model.reverse)}\tnodem={";".intercalate (i1 :: a.nodem.reverse)}"
        ++ s!"\tst={String.ofList a.st.reverse}\tfl={",".intercalate a.fl.reverse}")
    | none, _ => some "model=invalid-doc"
    | _, none => some "model=invalid-op"
  | _ => none

end SonicSpec.Driver.Ast
