import SonicSpec.Model.Robust
namespace SonicSpec.Driver.Robust
open SonicSpec SonicSpec.Robust SonicSpec.Gen

def showFmt : Fmt → String
  | .panic => "model=PANIC"
  | .nosrc => "model=nosrc"
  | .ok p x q y => s!"model=ok\tp={p}\tx={x}\tq={q}\ty={y}"

def showRes : SRes → String
  | .ok sp => s!"model=ok\tsp={sp}"
  | .tooDeep => "model=tooDeep"
  | .oob => "model=oob"

def parseOps (s : String) : Option (List SOp) :=
  s.toList.mapM fun c =>
    if c == 's' then some SOp.save else if c == 'l' then some SOp.load
    else if c == 'd' then some SOp.drop else if c == 'D' then some SOp.drop2 else none

def handle : List String → Option String
  -- bounds <size> <pos>: the regenerated calcBounds (decoder) and astDescriptionBounds (ast) tuples
  | ["bounds", size, pos] => do
      let s ← size.toInt?
      let p ← pos.toInt?
      let (a, b, c, d) := calcBounds s p
      let (e, f, g, h) := astDescriptionBounds s p
      some s!"model=ok\tp={a}\tx={b}\tq={c}\ty={d}\tap={e}\tax={f}\taq={g}\tay={h}"
  | ["fmterr", kind, size, pos] => do
      let s ← size.toInt?
      let p ← pos.toInt?
      if kind == "dec" then some (showFmt (decDescription s p))
      else if kind == "mis" then some (showFmt (mismatchFmt s p))
      else if kind == "ast" then some (showFmt (astDescription s p))
      else none
  -- encstack <ops over s,l,d,D>: the encoder state stack on a trace, with the regenerated limits
  | ["encstack", ops] => do
      let l ← parseOps ops
      some (showRes (run encM encS 0 l) ++ s!"\tbracketed={bracketed 0 l}")
  | ["encpush", n] => do
      let k ← n.toNat?
      some (showRes (run encM encS 0 (List.replicate k SOp.save)))
  | _ => none

end SonicSpec.Driver.Robust
