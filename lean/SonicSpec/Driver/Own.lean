/-
  Driver for core H (C06): runs the executable ownership model on the protocol lines
    hist     <limit> <encDefault> <astDefault> <call>*
    encinto  <cap> <prior hex> <opts> <value> [impl]
    htmlesc  <cap> <prior hex> <src hex>
    alias    <api> <doc hex>
  Core Lean only.
-/
import SonicSpec.Model.OwnHeap
namespace SonicSpec.Driver.Own
open SonicSpec SonicSpec.Own

/-! ### values on the wire:  n t f b  i<dec>;  s<hex>;  x<count>,<hex>;  [v*]  m<hex>;v  r<str><[str*]><int>
    j<w><dec>;  (an integer of Go width w = a..h: int8 int16 int32 int64 uint8 uint16 uint32 uint64)
    q<w><dec>,<dec>,...;  (a slice of such integers)   k<dec>;*8<t|f>  (struct{A int8 .. H uint64; T bool})
    F<bits>; G<bits>;  floats - not modelled (the driver answers `unsupported`) -/

def isDigit (c : Char) : Bool := c ≥ '0' && c ≤ '9'

def takeUntil (stop : Char) : List Char → List Char → Option (List Char × List Char)
  | [], _ => none
  | c :: r, acc => if c == stop then some (acc.reverse, r) else takeUntil stop r (c :: acc)

def natOf (cs : List Char) : Option Nat :=
  if cs.isEmpty || !cs.all isDigit then none
  else some (cs.foldl (fun n c => n * 10 + (c.toNat - 48)) 0)

def intOf : List Char → Option Int
  | '-' :: r => (natOf r).map fun n => -(Int.ofNat n)
  | cs => (natOf cs).map Int.ofNat

def bytesOfHex (cs : List Char) : Option Bytes :=
  if cs.isEmpty then some [] else unhex (String.ofList cs)

def repeatBytes (n : Nat) (b : Bytes) : Bytes := (List.replicate n b).flatten

/-- a string token: s<hex>;  or  x<count>,<hex>; -/
def parseStr : List Char → Option (Bytes × List Char)
  | 's' :: r => do
    let (h, rest) ← takeUntil ';' r []
    let b ← bytesOfHex h
    some (b, rest)
  | 'x' :: r => do
    let (n, r1) ← takeUntil ',' r []
    let (h, rest) ← takeUntil ';' r1 []
    let k ← natOf n
    let b ← bytesOfHex h
    some (repeatBytes k b, rest)
  | _ => none

def parseStrList : Nat → List Char → List Bytes → Option (List Bytes × List Char)
  | 0, _, _ => none
  | _ + 1, ']' :: r, acc => some (acc.reverse, r)
  | f + 1, cs, acc => do
    let (s, rest) ← parseStr cs
    parseStrList f rest (s :: acc)

def isWidth (c : Char) : Bool := c ≥ 'a' && c ≤ 'h'

def splitComma (cs : List Char) : List (List Char) :=
  (String.ofList cs).splitOn "," |>.map String.toList

def intsVals : List Int → Vals
  | [] => .nil
  | i :: r => .cons (.int i) (intsVals r)

/-- eight `<dec>;` fields -/
def parseInts : Nat → List Char → List Int → Option (List Int × List Char)
  | 0, cs, acc => some (acc.reverse, cs)
  | n + 1, cs, acc => do
    let (d, rest) ← takeUntil ';' cs []
    let i ← intOf d
    parseInts n rest (i :: acc)

def asciiBytes (s : String) : Bytes := s.toUTF8.toList

def ints8Text (xs : List Int) (t : Bool) : Bytes :=
  let names := ["A", "B", "C", "D", "E", "F", "G", "H"]
  let fields := (names.zip xs).map fun (n, i) => asciiBytes ("\"" ++ n ++ "\":") ++ decInt i
  [123] ++ (fields.intersperse [44]).flatten ++ asciiBytes ",\"T\":" ++ (if t then litTrue else litFalse) ++ [125]

def b64Char (n : Nat) : UInt8 :=
  if n < 26 then UInt8.ofNat (65 + n) else if n < 52 then UInt8.ofNat (71 + n)
  else if n < 62 then UInt8.ofNat (n - 4) else if n = 62 then 43 else 47

/-- base64.StdEncoding (with padding) -/
def base64 : Bytes → Bytes
  | a :: b :: c :: r =>
    let n := a.toNat * 65536 + b.toNat * 256 + c.toNat
    [b64Char (n / 262144), b64Char (n / 4096 % 64), b64Char (n / 64 % 64), b64Char (n % 64)] ++ base64 r
  | [a, b] =>
    let n := a.toNat * 65536 + b.toNat * 256
    [b64Char (n / 262144), b64Char (n / 4096 % 64), b64Char (n / 64 % 64), 61]
  | [a] =>
    let n := a.toNat * 65536
    [b64Char (n / 262144), b64Char (n / 4096 % 64), 61, 61]
  | [] => []

/-- a string or `n` (nil pointer) -/
def parseOptStr : List Char → Option (Option Bytes × List Char)
  | 'n' :: r => some (none, r)
  | cs => (parseStr cs).map fun (s, r) => (some s, r)

/-- compact text of `ownTagT` (go/harness/ops_own.go): `,string` quotes the quoted text once more -/
def tagText (s : Bytes) (i : Int) (b : Bool) (o : Bytes) (oi : Int) (y mk mv : Bytes)
    (p ps : Option Bytes) : Bytes :=
  let qq := fun x => Str.quote (Str.quote x)
  asciiBytes "{\"s\":" ++ qq s ++ asciiBytes ",\"i\":\"" ++ decInt i ++ asciiBytes "\",\"b\":\"" ++
  (if b then litTrue else litFalse) ++ [34] ++
  (if o.isEmpty then [] else asciiBytes ",\"o\":" ++ Str.quote o) ++
  (if oi == 0 then [] else asciiBytes ",\"oi\":" ++ decInt oi) ++
  asciiBytes ",\"y\":\"" ++ base64 y ++ asciiBytes "\",\"m\":{" ++ Str.quote mk ++ [58] ++ Str.quote mv ++
  asciiBytes "},\"p\":" ++ (match p with | none => litNull | some x => Str.quote x) ++
  asciiBytes ",\"ps\":" ++ (match ps with | none => litNull | some x => qq x) ++ [125]

def parseTag (r : List Char) : Option (Val × List Char) := do
  let (s, r) ← parseStr r
  let (d, r) ← takeUntil ';' r []
  let i ← intOf d
  let (b, r) ← match r with
    | 't' :: r => some (true, r)
    | 'f' :: r => some (false, r)
    | _ => none
  let (o, r) ← parseStr r
  let (d, r) ← takeUntil ';' r []
  let oi ← intOf d
  let (y, r) ← parseStr r
  let (mk, r) ← parseStr r
  let (mv, r) ← parseStr r
  let (p, r) ← parseOptStr r
  let (ps, r) ← parseOptStr r
  some (.lit (tagText s i b o oi y mk mv p ps), r)

mutual
def parseVal : Nat → List Char → Option (Val × List Char)
  | 0, _ => none
  | _ + 1, 'T' :: r => parseTag r
  | _ + 1, 'j' :: w :: r =>
    if isWidth w then do
      let (d, rest) ← takeUntil ';' r []
      let i ← intOf d
      some (.int i, rest)
    else none
  | _ + 1, 'q' :: w :: r =>
    if isWidth w then do
      let (d, rest) ← takeUntil ';' r []
      if d.isEmpty then some (.arr .nil, rest)
      else
        let is ← (splitComma d).mapM intOf
        some (.arr (intsVals is), rest)
    else none
  | _ + 1, 'k' :: r => do
    let (is, r1) ← parseInts 8 r []
    match r1 with
    | 't' :: rest => some (.lit (ints8Text is true), rest)
    | 'f' :: rest => some (.lit (ints8Text is false), rest)
    | _ => none
  | _ + 1, 'n' :: r => some (.null, r)
  | _ + 1, 't' :: r => some (.bool true, r)
  | _ + 1, 'f' :: r => some (.bool false, r)
  | _ + 1, 'b' :: r => some (.bad, r)
  | _ + 1, 'i' :: r => do
    let (d, rest) ← takeUntil ';' r []
    let i ← intOf d
    some (.int i, rest)
  | f + 1, '[' :: r => do
    let (xs, rest) ← parseVals f r
    some (.arr xs, rest)
  | f + 1, 'm' :: r => do
    let (h, r1) ← takeUntil ';' r []
    let k ← bytesOfHex h
    let (v, rest) ← parseVal f r1
    some (.map1 k v, rest)
  | f + 1, 'r' :: r => do
    let (a, r1) ← parseStr r
    match r1 with
    | '[' :: r2 =>
      let (b, r3) ← parseStrList f r2 []
      match r3 with
      | 'i' :: r4 =>
        let (d, rest) ← takeUntil ';' r4 []
        let c ← intOf d
        some (.rec3 a b c, rest)
      | _ => none
    | _ => none
  | _ + 1, cs => (parseStr cs).map fun (s, rest) => (.str s, rest)
def parseVals : Nat → List Char → Option (Vals × List Char)
  | 0, _ => none
  | _ + 1, ']' :: r => some (.nil, r)
  | f + 1, cs => do
    let (v, r1) ← parseVal f cs
    let (vs, rest) ← parseVals f r1
    some (.cons v vs, rest)
end

def valOf (s : String) : Option Val :=
  let cs := s.toList
  match parseVal (cs.length + 1) cs with
  | some (v, []) => some v
  | _ => none

/-! ### hashes -/

def fnvStep (h : UInt64) (x : UInt8) : UInt64 := (h ^^^ x.toUInt64) * 1099511628211
def fnvInit : UInt64 := 14695981039346656037
def fnv64 (b : Bytes) : UInt64 := b.foldl fnvStep fnvInit

def hex64 (h : UInt64) : String :=
  hex ((List.range 8).map fun i => (h >>> (UInt64.ofNat (8 * (7 - i)))).toUInt8)

/-- hash of a list of strings: each as 4 length bytes (little endian) + contents -/
def fnvStrs (ss : List Bytes) : UInt64 :=
  ss.foldl (fun h s =>
    let n := s.length
    let h := [n % 256, n / 256 % 256, n / 65536 % 256, n / 16777216 % 256].foldl (fun h x => fnvStep h (UInt8.ofNat x)) h
    s.foldl fnvStep h) fnvInit

-- the strings of a decoded value, depth first, object keys (sorted) before their values
mutual
def strsOf : Val → List Bytes
  | .str s => [s]
  | .arr xs => strsOfL xs
  | .map1 k v => k :: strsOf v
  | .rec3 a b _ => [[97], a, [98]] ++ b ++ [[99]]
  | _ => []
def strsOfL : Vals → List Bytes
  | .nil => []
  | .cons v vs => strsOf v ++ strsOfL vs
end

/-! ### contexts -/

def mkCtx (limit encDef astDef units : Nat) (z : Option UInt8) (exact : Bool) : Ctx :=
  { P := { limit := limit, encDefault := encDef, astDefault := astDef }
    env := { grow := fun c n => if exact then n else max n (2 * c + 3), garb := fun g i => UInt8.ofNat (g * 7 + i + 1) }
    nat := { quote := mkNative quoteGreedy units z, html := mkNative htmlGreedy units z } }

def optsOf (s : String) : Option Opts :=
  if s == "0" then some {} else if s == "1" then some { escapeHTML := true } else none

/-! ### hist -/

structure HState where
  st : State := {}
  /-- per call: the array its result lives in -/
  ids : List (Option Nat) := []
  /-- calls whose result was already passed to EncodeInto (the caller gave that slice away) -/
  used : List Nat := []
  out : List String := []

def retStr : Ret → String × Option Nat
  | .bytes id b => (hex64 (fnv64 b), some id)
  | .err => ("E", none)
  | .nothing => ("-", none)

def splitBar (s : String) : List String := s.splitOn "|"

def parseTarget (h : HState) (s : String) : Option Target :=
  match s.toList with
  | 'f' :: r => do
    let (c, ph) ← takeUntil ',' r []
    let cap ← natOf c
    let prior ← bytesOfHex ph
    some (.fresh prior (List.replicate (cap - prior.length) 165))
  | 'a' :: r => do
    let k ← natOf r
    let idx := h.ids.length - 1 - k      -- ids are kept newest first
    match h.ids[idx]? with
    | some (some id) => if k < h.ids.length && !h.used.contains k then some (.again id) else none
    | _ => none
  | _ => none

def push (h : HState) (r : State × Ret) : HState :=
  let (s, id) := retStr r.2
  { st := r.1, ids := id :: h.ids, out := s :: h.out }

def skip (h : HState) (s : String) : HState := { h with ids := none :: h.ids, out := s :: h.out }

/-- what Marshal returns (Proofs/OwnOps `specEncode`) -/
def specText (o : Opts) (v : Val) : Option Bytes :=
  (render v).map fun t => if o.escapeHTML then htmlEscape t else t

/-- text of the re-entrant encodings `J` / `K` (go/harness/ops_own.go `ownNestT`): the field's
    MarshalJSON / MarshalText output sits inside the outer object, `depth + 1` times -/
def nestText (text : Bool) : Nat → Bytes → Bytes
  | 0, inner => wrap inner
  | d + 1, inner => nestText text d (wrap inner)
where
  wrap (inner : Bytes) : Bytes :=
    asciiBytes "{\"a\":42,\"b\":\"inner-value\",\"inner\":" ++ (if text then Str.quote inner else inner) ++
    asciiBytes ",\"tail\":\"the-end\"}"

/-- a call the heap model does not step through (two live buffers in one goroutine, callbacks):
    its expected bytes are those of `output_independent_of_pool_state` -/
def expect (h : HState) (t : Option Bytes) : HState :=
  match t with
  | none => skip h "E"
  | some b => skip h (hex64 (fnv64 b))

def histCall (c : Ctx) (h : HState) (call : String) : HState :=
  match splitBar call with
  | [k, o, v] =>
    if k == "M" || k == "S" then
      match optsOf o, valOf v with
      | some o, some v => push h (step c h.st (.marshal o v 1 1))
      | _, _ => skip h "?"
    else if k == "D" then
      match optsOf o, valOf v with
      | some o, some v => expect h (specText o v)
      | _, _ => skip h "?"
    else if k == "Z" then
      match optsOf o, valOf v with
      | some o, some v => expect h ((specText o v).map fun t => t ++ [10] ++ t ++ [10])
      | _, _ => skip h "?"
    else skip h "?"
  | [k, o, pre, ind, v] =>
    if k == "I" then
      match optsOf o, unhexArg pre, unhexArg ind, valOf v with
      | some o, some pre, some ind, some v => push h (step c h.st (.indent o v pre ind 1 1))
      | _, _, _, _ => skip h "?"
    else skip h "?"
  | [k, o, t, v] =>
    if k == "J" || (k == "K" && t == "0") then
      -- J|<depth>|<opts>|<val>
      match natOf o.toList, optsOf t, valOf v with
      | some d, some o, some v => expect h ((specText o v).map (nestText (k == "K") d))
      | _, _, _ => skip h "?"
    else if k == "E" then
      match optsOf o, parseTarget h t, valOf v with
      | some o, some tg, some v =>
        let h1 := match t.toList with
          | 'a' :: r => { h with used := (natOf r).getD 0 :: h.used }
          | _ => h
        push h1 (step c h.st (.encodeInto o .jit tg v))
      | _, none, _ => skip h "-"
      | _, _, _ => skip h "?"
    else skip h "?"
  | [k, v] =>
    match valOf v with
    | none => if k == "X" then skip h "-" else skip h "?"
    | some v =>
      if k == "N" || k == "R" then push h (step c h.st (.node (.loaded v) 1))
      else if k == "P" || k == "Q" then
        match render v with
        | none => skip h "-"
        | some t =>
          let a := h.st.alloc .caller t t.length
          push { h with st := a.1 } (step c a.1 (.node (.raw a.2) 1))
      else if k == "G" then
        match render v with
        | none => skip h "-"
        | some t =>
          let r := step c h.st (.decode t [(0, t.length)] true)
          { st := r.1, ids := none :: h.ids, out := hex64 (fnv64 t) :: h.out }
      else if k == "U" then
        match render v with
        | none => skip h "-"
        | some t =>
          let r := step c h.st (.decode t [] true)
          { st := r.1, ids := none :: h.ids, out := hex64 (fnvStrs (strsOf v)) :: h.out }
      else skip h "?"
  | [k] =>
    if k == "C" then { h with st := (step c h.st .gc).1, ids := none :: h.ids, out := "-" :: h.out }
    else skip h "?"
  | _ => skip h "?"

/-- every recorded result still denotes the bytes that were returned (evaluated, not assumed) -/
def allStable (st : State) : Bool := st.results.all fun r => r.now st == r.bytes

def runHist (limit encDef astDef : Nat) (calls : List String) : String :=
  let c := mkCtx limit encDef astDef 1000000000 none false
  let h := calls.foldl (histCall c) {}
  s!"model={",".intercalate h.out.reverse}\tstable={if allStable h.st then 1 else 0}\tarrays={h.st.heap.length}\tpooled={h.st.pool.length}"

/-! ### encinto / htmlesc -/

def encIntoOnce (c : Ctx) (impl : StrImpl) (o : Opts) (prior dirt : Bytes) (v : Val) : String :=
  match encodeInto c.env c.nat impl o (SBuf.ofPrior prior dirt) v with
  | .error _ => "fault"
  | .ok (sb, true) => "err:" ++ hexArg sb.bytes
  | .ok (sb, false) => hexArg sb.bytes

def runEncInto (cap : Nat) (prior : Bytes) (o : Opts) (v : Val) (impl : StrImpl) : String :=
  let dirt := List.replicate (cap - prior.length) 165
  -- two natives (one scribbles over the whole space it is offered, one does not) and two growth rules must
  -- agree (Props/C06: they always do).  NB a native that stops early although space is left makes the real
  -- loop double the capacity on every restart - never give the driver a unit budget below the input size.
  let a := encIntoOnce (mkCtx 0 0 0 1000000000 (some 90) false) impl o prior dirt v
  let b := encIntoOnce (mkCtx 0 0 0 1000000000 none true) impl o prior dirt v
  if a == b then s!"model={a}" else s!"model=MISMATCH\ta={a}\tb={b}"

def runHtmlEsc (cap : Nat) (prior src : Bytes) : String :=
  let dirt := List.replicate (cap - prior.length) 165
  let c := mkCtx 0 0 0 1000000000 (some 90) false
  match htmlEscapeLoop c.env c.nat.html (SBuf.ofPrior prior dirt) src with
  | .error .growPanic => "model=panic"
  | .error _ => "model=fault"
  | .ok sb => s!"model={hexArg sb.bytes}"

/-- which decoding calls must not leave anything referring to the caller's input (the `copy` flag of
    `opDecode`): Unmarshal([]byte) and Get([]byte) under every configuration, and the string entry
    points when the configuration carries CopyString.  `<entry>.<cfg>.<dest>` -/
def copies (api : String) : Option Bool :=
  match api.splitOn "." with
  | [entry, cfg, _] =>
    let cs := cfg == "std" || cfg == "cs" || cfg == "csnum"
    if entry == "unmarshal" || entry == "get" || entry == "getcopy" then some true
    else if entry == "unmarshalstring" || entry == "decoder" then some cs
    else if entry == "getref" || entry == "getfromstring" then some false
    else none
  | [old] =>
    if old == "unmarshal" || old == "unmarshal_t" || old == "unmarshal_std" || old == "get" ||
       old == "copystring" || old == "copystring_t" || old == "decoder_copystring" || old == "decoder_copystring_t"
    then some true
    else if old == "unmarshalstring" || old == "unmarshalstring_t" || old == "getfromstring" then some false
    else none
  | _ => none

def implOf (s : String) : StrImpl := if s == "vm" then .alg else .jit

def handle : List String → Option String
  | "hist" :: limit :: encDef :: astDef :: calls =>
    match natOf limit.toList, natOf encDef.toList, natOf astDef.toList with
    | some l, some e, some a => some (runHist l e a calls)
    | _, _, _ => some "model=unsupported"
  | "encinto" :: cap :: prior :: o :: v :: rest =>
    match natOf cap.toList, unhexArg prior, optsOf o, valOf v with
    | some cap, some prior, some o, some v =>
      if prior.length ≤ cap then some (runEncInto cap prior o v (implOf (rest.headD "jit")))
      else some "model=unsupported"
    | _, _, _, _ => some "model=unsupported"
  | ["htmlesc", cap, prior, src] =>
    match natOf cap.toList, unhexArg prior, unhexArg src with
    | some cap, some prior, some src =>
      if prior.length ≤ cap then some (runHtmlEsc cap prior src) else some "model=unsupported"
    | _, _, _ => some "model=unsupported"
  | ["alias", api, _] =>
    match copies api with
    | some true => some "model=noalias"
    | some false => some "model=mayalias"
    | none => some "model=unsupported"
  | _ => none

end SonicSpec.Driver.Own
