import SonicSpec.Model.Str
import SonicSpec.Model.StrSpec
/-
  Driver for core B (strings): protocol lines of property C20.
  Lines with a trailing extra field carry the implementation's output; the model then also decides the
  relation the property states ("a literal that decodes back to the input").
-/
namespace SonicSpec.Driver.Str
open SonicSpec SonicSpec.Str

def errName : UErr → String
  | .eof => "EOF"
  | .escape => "INVALID_ESCAPE"
  | .inval => "INVALID_CHAR"
  | .unicode => "INVALID_UNICODE"

def showRes : Except UErr Bytes → String
  | .ok b => "ok:" ++ hexArg b
  | .error e => "err:" ++ errName e

def showOpt : Option Bytes → String
  | some b => "ok:" ++ hexArg b
  | none => "err"

def b01 (b : Bool) : String := if b then "1" else "0"

def isOk (r : Except UErr Bytes) (want : Bytes) : Bool :=
  match r with
  | .ok b => b == want
  | .error _ => false

/-- strip `pre` in front and `suf` behind -/
def strip (pre suf : Bytes) (s : Bytes) : Option Bytes :=
  if pre.isPrefixOf s && suf.isSuffixOf s && pre.length + suf.length ≤ s.length then
    some ((s.drop pre.length).take (s.length - pre.length - suf.length))
  else none

/-- relation "out is a string literal whose decoding is `want`" (decoding as encoding/json does:
    lone surrogates replaced).  For the `,string` form the literal has to denote another literal, which
    denotes `want` (two passes, the definition - not sonic's one-pass routine). -/
def litDecodes (dbl : Bool) (out want : Bytes) : Bool × Bool :=
  match strip [34] [34] out with
  | none => (false, false)
  | some body =>
    if !litBodyOk body then (false, false)
    else if dbl then
      match unquote true false body with
      | .error _ => (true, false)
      | .ok o1 =>
        match strip [34] [34] o1 with
        | none => (true, false)
        | some inner => (true, litBodyOk inner && isOk (unquote true false inner) want)
    else (true, isOk (unquote true false body) want)

def cfgHtml (cfg : String) : Bool := cfg == "s" || cfg == "h"
def cfgValid (cfg : String) : Bool := cfg == "s" || cfg == "v"

def marshalLit (shape cfg : String) (s : Bytes) : Bytes :=
  let lit := if shape == "fs" then quoteD s else quote s
  if shape == "a" then lit else encodeFinish (cfgHtml cfg) (cfgValid cfg) lit

/-- what the literal produced under `cfg` has to denote -/
def marshalWant (shape cfg : String) (s : Bytes) : Bytes :=
  if shape != "a" && cfgValid cfg then correctWith fffd s else s

def natArg (s : String) : Nat := s.toNat?.getD 0

def handle : List String → Option String
  | ["quote", h] => (unhexArg h).map fun b => s!"model={hexArg (quote b)}"
  | ["quote", h, o] => do
    let b ← unhexArg h
    let out ← unhexArg o
    let (lit, rt) := litDecodes false out b
    -- the restartable loop with a destination that fills up early must give the same bytes
    let lp := quoteLoop quoteByte [b.length + 1, 7] [34] b ++ [34]
    some s!"model={hexArg (quote b)}\tlit={b01 lit}\trt={b01 rt}\tloop={b01 (lp == quote b)}"
  | ["unq", h] => (unhexArg h).map fun b => s!"model={showRes (unquote true false b)}"
  | ["unqx", fl, h] => (unhexArg h).map fun b =>
      s!"model={showRes (unquote (fl.contains 'r') (fl.contains 'd') b)}"
  | ["html", extra, d, s] => do
    let dst ← unhexArg d
    let src ← unhexArg s
    let m := dst ++ htmlEscape src
    let lp := htmlLoop [natArg extra, 5, 64] dst src
    some s!"model={hexArg m}\tloop={b01 (lp == m)}"
  | ["utf8v", h] => (unhexArg h).map fun b => s!"model={b01 (validate b)}"
  | ["utf8c", r, d, s] => do
    let repl ← unhexArg r
    let dst ← unhexArg d
    let src ← unhexArg s
    let m := dst ++ correctWith repl src
    let ch := dst ++ correctChunked repl 4096 (src.length + 1) src
    some s!"model={hexArg m}\tchunk={b01 (ch == m)}"
  | ["mstr", shape, cfg, h] => (unhexArg h).map fun b => s!"model={hexArg (marshalLit shape cfg b)}"
  | ["mstr", shape, cfg, h, o] => do
    let b ← unhexArg h
    let out ← unhexArg o
    let (lit, rt) := litDecodes (shape == "fs") out (marshalWant shape cfg b)
    some s!"model={hexArg (marshalLit shape cfg b)}\tlit={b01 lit}\trt={b01 rt}"
  | ["ustr", shape, cfg, h] => (unhexArg h).map fun b =>
      let m := s!"model={showOpt (decodeString (cfg == "s") (cfg == "u") (shape == "fs") b)}"
      -- the two-pass definition of double unquoting, and the result if the no-replace option were ignored
      let two := if shape == "fs" then s!"\ttwo={showOpt (decodeStringTwice (cfg == "s") (cfg == "u") b)}" else ""
      let alt := if cfg == "u" then s!"\talt={showOpt (decodeString false false (shape == "fs") b)}" else ""
      m ++ two ++ alt
  | _ => none

end SonicSpec.Driver.Str
