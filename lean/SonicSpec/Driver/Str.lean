import SonicSpec.Model.Str
namespace SonicSpec.Driver.Str
open SonicSpec SonicSpec.Str

def handle : List String → Option String
  | ["quote", h] => (unhexArg h).map fun b => s!"model={hexArg (quote b)}"
  | _ => none

end SonicSpec.Driver.Str
