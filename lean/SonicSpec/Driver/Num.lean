import SonicSpec.Model.Num
import SonicSpec.Model.NumFmt
import SonicSpec.Model.JsonTree
namespace SonicSpec.Driver.Num
open SonicSpec SonicSpec.Num

def hexN (width : Nat) (n : Nat) : String :=
  let rec go : Nat → Nat → List Char → List Char
    | 0, _, acc => acc
    | w + 1, n, acc => go w (n / 16) (hexDigit (UInt8.ofNat (n % 16)) :: acc)
  String.ofList (go width n [])

def parseHexNat (s : String) : Option Nat :=
  s.toUTF8.toList.foldl (fun acc c => match acc, hexVal c with
    | some a, some v => some (a * 16 + v.toNat)
    | _, _ => none) (some 0)

def errStr : NumErr → String
  | .syntax => "err:syntax"
  | .range => "err:range"
  | .notInt => "err:notint"

def showF (w : Nat) (pre : String) : Except NumErr Nat → String
  | .ok b => s!"ok:{pre}{hexN w b}"
  | .error e => errStr e

def showI (pre : String) : Except NumErr Int → String
  | .ok n => s!"ok:{pre}{n}"
  | .error e => errStr e

def showU : Except NumErr Nat → String
  | .ok n => s!"ok:{n}"
  | .error e => errStr e

def intWidth : String → Option (Bool × Nat)
  | "i8" => some (false, 8) | "i16" => some (false, 16) | "i32" => some (false, 32)
  | "i64" => some (false, 64) | "int" => some (false, 64)
  | "u8" => some (true, 8) | "u16" => some (true, 16) | "u32" => some (true, 32)
  | "u64" => some (true, 64) | "uint" => some (true, 64)
  | _ => none

/-- class of the literal: b = malformed, else any of i (integer literal) z (zero) n (minus sign) -/
def cls (lit : Bytes) : String :=
  match parseDec lit with
  | none => "b"
  | some d => (if d.isInt then "i" else "f") ++ (if d.m = 0 then "z" else "") ++ (if d.neg then "n" else "")

def atofCore (kind : String) (lit : Bytes) : Option String :=
  match kind with
  | "f64" => some s!"model={showF 16 "" (toBits f64 lit)}"
  | "any" => some s!"model={showF 16 "f:" (toBits f64 lit)}"
  | "f32" => some s!"model={showF 8 "" (toBits f32 lit)}\tvia64={showF 8 "" (f32ViaF64 lit)}"
  | "num" =>
    some (match parseDec lit with
      | none => "model=err:syntax"
      | some _ => s!"model=ok:{hexArg lit}")
  | "any_usenumber" =>
    some (match parseDec lit with
      | none => "model=err:syntax"
      | some _ => s!"model=ok:n:{hexArg lit}")
  | "any_useint64" =>
    some (match fitsInt 64 lit with
      | .ok n => s!"model=ok:i:{n}"
      | .error .syntax => "model=err:syntax"
      | .error _ => s!"model={showF 16 "f:" (toBits f64 lit)}")
  | k =>
    match intWidth k with
    | some (false, w) => some s!"model={showI "" (fitsInt w lit)}"
    | some (true, w) => some s!"model={showU (fitsUint w lit)}"
    | none => none

/-- cross-check of the literal grammar against the shared strict JSON model (`Json.scanNumber`) -/
def gram (lit : Bytes) : String :=
  let a := (parseDec lit).isSome
  let b := match Json.scanNumber lit with
    | some (l, r) => l == lit && r.isEmpty
    | none => false
  if a == b then "ok" else "MISMATCH"

def atof (kind : String) (lit : Bytes) : Option String :=
  (atofCore kind lit).map fun r => s!"{r}\tcls={cls lit}\tf64={showF 16 "" (toBits f64 lit)}\tgram={gram lit}"

def ftoa (kind : String) (bits : Nat) : Option String :=
  let go (f : Fmt) (th : Thresh) : String :=
    let sb := signBit f
    if bits ≥ 2 * sb then "model=unsupported"
    else if (fields f (bits % sb)).1 = 2 ^ f.ebits - 1 then "model=err:nonfinite"
    else match fmtBits f th bits with
      | some t => s!"model=ok:{hexArg t}"
      | none => "model=none"
  match kind with
  | "f64" => some (go f64 thresh64)
  | "f32" => some (go f32 thresh32)
  | _ => none

def handle : List String → Option String
  | ["atof", kind, h] => (unhexArg h).bind (atof kind)
  | ["ftoa", kind, h] => (parseHexNat h).bind (ftoa kind)
  | ["itoa", _, n] => n.toInt?.map fun i => s!"model=ok:{hexArg (itoa i)}"
  | _ => none

end SonicSpec.Driver.Num
