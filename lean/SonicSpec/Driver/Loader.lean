/-
  Driver for core J (loader tables), protocol lines of property C10.

    pcdata   <table> <probes>     model=<hex|PANIC> wf= asc= dec= at= ate=
    pcline   <table> <probes>     model=<csv of line numbers | PANIC | degenerate>
    loadone  <textSize> <probes>  model=<csv of unsafepoint:stackmapindex>
    loadtabs <noPreempt> <textSize> <argbits> <localbits> <table>   model=<5 hex fields joined by :>
    stackmap <program>            model=<hex of StackMap.MarshalBinary> bits=<0/1 string>

  <table>   = `pc:val,pc:val,…` in decimal, `-` for the empty table
  <probes>  = `pc,pc,…`
  <program> = `f1`/`f0` (AddField true/false) and `<n>x1`/`<n>x0` (AddFields) joined by `,`; `-` = empty
  <bits>    = string of 0/1, `-` = empty, `nil` = no map
-/
import SonicSpec.Model.Loader
import SonicSpec.Generated.Frames
namespace SonicSpec.Driver.Loader
open SonicSpec SonicSpec.Loader SonicSpec.Generated.Frames

def parseNat (s : String) : Option Nat :=
  if s.isEmpty then none else s.toNat?

def parseInt (s : String) : Option Int :=
  if s.startsWith "-" then (parseNat (s.drop 1).toString).map (fun n => -(n : Int))
  else (parseNat s).map (fun n => (n : Int))

def parseList {α} (f : String → Option α) (s : String) : Option (List α) :=
  if s == "-" then some [] else (s.splitOn ",").mapM f

def parseEntry (s : String) : Option Pcvalue :=
  match s.splitOn ":" with
  | [a, b] => do
    let pc ← parseNat a
    let v ← parseInt b
    pure ⟨pc, v⟩
  | _ => none

def parseTable : String → Option (List Pcvalue) := parseList parseEntry
def parseProbes : String → Option (List Nat) := parseList parseNat

def parseBits (s : String) : Option (Option (List Bool)) :=
  if s == "nil" then some none
  else if s == "-" then some (some [])
  else (s.toList.mapM (fun c => if c == '1' then some true else if c == '0' then some false else none)).map some

def parseOp (s : String) : Option (Nat × Bool) :=
  if s == "f1" then some (1, true)
  else if s == "f0" then some (1, false)
  else match s.splitOn "x" with
    | [n, b] => do
      let k ← parseNat n
      if b == "1" then pure (k, true) else if b == "0" then pure (k, false) else none
    | _ => none

def csv (l : List String) : String := if l.isEmpty then "-" else ",".intercalate l

def showRes : PcRes → String
  | .found v => toString v
  | .notFound => "n"
  | .overrun => "o"

def showOpt : Option Int → String
  | some v => toString v
  | none => "n"

def b01 (b : Bool) : String := if b then "1" else "0"

def bitsStr (l : List Bool) : String := if l.isEmpty then "-" else String.ofList (l.map (fun b => if b then '1' else '0'))

def tableMax (t : List Pcvalue) : Nat := t.foldl (fun m e => max m e.pc) 0

def inRange (t : List Pcvalue) : Bool :=
  t.all (fun e => e.pc < 4294967296 && decide (InInt32 e.val))

def handlePcdata (t : List Pcvalue) (probes : List Nat) : String :=
  let wf := decide (WellFormed t)
  let asc := decide (Ascending t 0)
  let at_ := csv (probes.map (fun p => showOpt (valueAt t p)))
  let ate := csv (probes.map (fun p => showOpt (valueAt (emitted t) p)))
  match marshalPcdata t with
  | none => s!"model=PANIC\twf={b01 wf}\tasc={b01 asc}\tdec=-\tat={at_}\tate={ate}"
  | some b =>
    let dec := csv (probes.map (fun p => showRes (pcvalue b p)))
    s!"model={hexArg b}\twf={b01 wf}\tasc={b01 asc}\tdec={dec}\tat={at_}\tate={ate}"

/-- `(*runtime.Func).FileLine` → `funcline1`: a line of -1 (also "not found" when not strict)
    is reported as 0 -/
def handlePcline (t : List Pcvalue) (probes : List Nat) : String :=
  let textSize := tableMax t + 3
  match marshalPcdata t with
  | none => "model=PANIC"
  | some b =>
    if b == [0] then "model=degenerate"
    else
      let one (p : Nat) : String :=
        if p ≥ textSize then "x"
        else match decodePcValue b p with
          | some v => if v == -1 then "0" else toString v
          | none => "0"
      s!"model={csv (probes.map one)}"

def handleLoadone (textSize : Nat) (probes : List Nat) : String :=
  let f := buildLoadFunc loadFuncFacts true [] textSize none none
  match f.unsafePoint.bind marshalPcdata, marshalPcdata f.stackMapIndex with
  | some u, some s =>
    let one (p : Nat) : String :=
      if p ≥ textSize then "x" else s!"{showRes (pcvalue u p)}:{showRes (pcvalue s p)}"
    s!"model={csv (probes.map one)}"
  | _, _ => "model=PANIC"

def hexOpt : Option Bytes → String
  | some b => hexArg b
  | none => "PANIC"

def handleLoadtabs (noPreempt : Bool) (textSize : Nat) (a l : Option (List Bool)) (t : List Pcvalue) : String :=
  let f := buildLoadFunc loadFuncFacts noPreempt t textSize a l
  let sm : Option Bitmap → String
    | some m => hexArg (stackMapBytes m)
    | none => "nil"
  match marshalPcdata f.pcsp with
  | none => "model=PANIC"       -- MarshalBinary of the pc-sp table panics: nothing is built
  | some pcsp =>
    let up := match f.unsafePoint with
      | none => "nil"
      | some t => hexOpt (marshalPcdata t)
    let parts := [hexArg pcsp, up,
      hexOpt (marshalPcdata f.stackMapIndex), sm f.args, sm f.locals]
    s!"model={":".intercalate parts}"

def handle : List String → Option String
  | ["pcdata", t, p] => do
    let t ← parseTable t
    let p ← parseProbes p
    if !inRange t then none else pure (handlePcdata t p)
  | ["pcline", t, p] => do
    let t ← parseTable t
    let p ← parseProbes p
    if !inRange t then none else pure (handlePcline t p)
  | ["loadone", n, p] => do
    let n ← parseNat n
    let p ← parseProbes p
    pure (handleLoadone n p)
  | ["loadtabs", np, n, a, l, t] => do
    let n ← parseNat n
    let a ← parseBits a
    let l ← parseBits l
    let t ← parseTable t
    if !inRange t then none else pure (handleLoadtabs (np == "1") n a l t)
  | ["stackmap", prog] => do
    let ops ← parseList parseOp prog
    let m := runBuilder ops
    let fields := ops.flatMap (fun op => List.replicate op.1 op.2)
    pure s!"model={hexArg (stackMapBytes m)}\tbits={bitsStr fields}\tn={m.n}"
  | _ => none

end SonicSpec.Driver.Loader
