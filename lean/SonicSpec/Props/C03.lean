/-
  C03 - property theorems about the TOKEN ORDER and TOKEN CONTENT of the Marshal specification
  `Enc.encode` (Model/Enc.lean), which is written after encoding/json and tied to it and to sonic by
  the correspondence run of vlib/props/C03.py (the model agrees with encoding/json on every generated
  case; sonic is compared with both).

  * `field_order_is_declaration_order`   members of a struct object = the kept fields that survive
                                         omitempty/omitzero, in declaration order
  * `omitempty_only_drops_empty`         a member is dropped only for the reason its tag names
  * `sorted_keys`                        with SortMapKeys the members of a map object are a bytewise
                                         non-decreasing permutation of the map's rendered keys
  * `escape_spelling_only`               literals that differ only in escape spelling (encoding/json's
                                         \b \f  , sonic's \u0008 \u000c and raw U+2028, HTML escapes
                                         on or off) unquote to the same bytes

  Against the separately written byte-level specification of encoding/json (Model/EncStd.lean, tied to the real
  encoding/json by the `ref=` answers of every C03 stream, judge `model_ref_disagree`):

  * `encode_eq_std_partial`              on the sub-universe `EncStd.stdSub` (scalars, strings, []byte and []uint8,
                                         pointers, interfaces, slices, arrays, maps whose keys are strings, integers
                                         or TextMarshalers with pairwise different texts, structs with tags, name
                                         conflicts, omitempty and `,string`, the recursive library structs, the
                                         TextMarshaler library types) `Enc.encode` under the std option word and
                                         `EncStd.marshal` succeed together with the same bytes.  Outside it:
                                         json.Number, RawMessage and json.Marshaler text (encoding/json's `compact`
                                         against the model's parse-and-render), the embedded-field library type,
                                         `omitzero`
  * `std_field_resolution`, `std_emptiness`, `std_string_literal`, `std_integer_text`, `std_base64`,
    `std_sort_is_model_sort`            the leaves of that agreement, each for all inputs
  * `std_struct_members`, `std_map_members`, `std_output_wellformed`   the per-aspect theorems above (and C04's
                                         well-formedness) carried over to `EncStd.marshal`
  * `std_unsupported_key_whatever_the_value`, `std_nil_is_null`   read off the specification directly
  * `omitzero_not_in_go_1_23`            the one place where the two specifications differ by design
  * `known_*_fails`, `std_no_depth_limit`  one kernel-checked witness per recorded finding C03-*: the output
                                         recorded from sonic is not the specification's answer

  What is NOT here: the compiler-correctness theorem `exec (compile T) = encode` (the encoder IR is a
  separate work package); addressability-dependent dispatch is part of the model (`addr`) but no theorem
  is stated about sonic's `pv` flag.
-/
import SonicSpec.Proofs.EncOrder
import SonicSpec.Proofs.EncUnq
import SonicSpec.Proofs.EncWF
import SonicSpec.Proofs.EncStdEq
import SonicSpec.Model.EncDec
namespace SonicSpec.Props.C03
open SonicSpec SonicSpec.Enc SonicSpec.Json SonicSpec.Go

/-! ### struct members -/

/-- the member names of the object written for a struct are the names of the kept fields that survive
    `omitempty` / `omitzero`, in declaration order (`emitted` is a sublist of the declaration) -/
theorem field_order_is_declaration_order (o : EncOpts) (addr : Bool) (fs : List (String × Option Bytes × GoType))
    (vs : List GoVal) (j : JVal) (h : Enc.encV o addr (.st fs) (.st vs) = .ok j) :
    ∃ ks ms, Enc.keepList fs = some ks ∧ j = .obj ms ∧
      ms.map (·.1) = (Enc.emitted ks vs).map (fun f => Enc.nameKey o f.name) ∧
      (Enc.emitted ks vs).Sublist (Enc.kept ks) := by
  simp only [encV] at h
  split at h
  · rename_i ks hk
    split at h
    · obtain ⟨ms, h1, h2⟩ := except_map_ok h
      exact ⟨ks, ms, hk, h2.symm, encF_names ks vs ms h1, emitted_sublist ks vs⟩
    · cases h
  · cases h

/-- a kept field is left out only when its tag says so and the value is empty (`omitempty`, encode.go
    isEmptyValue) or zero (`omitzero`, reflect IsZero); otherwise it is written, in place -/
theorem omitempty_only_drops_empty (f : Field) (v : GoVal) (ks : List (Option Field)) (vs : List GoVal) :
    (Enc.emitted (some f :: ks) (v :: vs) = f :: Enc.emitted ks vs ∧
        ¬ ((f.omitEmpty = true ∧ Enc.isEmptyV f.typ v = true) ∨ (f.omitZero = true ∧ Enc.isZeroV v = true))) ∨
    (Enc.emitted (some f :: ks) (v :: vs) = Enc.emitted ks vs ∧
        ((f.omitEmpty = true ∧ Enc.isEmptyV f.typ v = true) ∨ (f.omitZero = true ∧ Enc.isZeroV v = true))) := by
  simp only [emitted]
  split
  · rename_i h
    right
    refine ⟨rfl, ?_⟩
    simpa [Bool.or_eq_true, Bool.and_eq_true] using h
  · rename_i h
    left
    refine ⟨rfl, ?_⟩
    simpa [Bool.or_eq_true, Bool.and_eq_true] using h

/-- emptiness per kind, as encoding/json defines it: false, 0, ±0.0, "", nil, length 0 -/
theorem emptiness_table :
    (∀ b, Enc.isEmptyV .bool (.bool b) = !b) ∧
    (∀ n k, Enc.isEmptyV (.int k) (.int n) = (n == 0)) ∧
    (∀ s, Enc.isEmptyV .str (.str s) = s.isEmpty) ∧
    (∀ t, Enc.isEmptyV (.ptr t) .nil = true) ∧
    (∀ t v, Enc.isEmptyV (.ptr t) (.ptr v) = false) ∧
    (∀ t xs, Enc.isEmptyV (.sl t) (.sl xs) = xs.isEmpty) ∧
    (∀ k t kvs, Enc.isEmptyV (.map k t) (.map kvs) = kvs.isEmpty) ∧
    (∀ fs vs, Enc.isEmptyV (.st fs) (.st vs) = false) ∧
    Enc.isEmptyV .f64 (.f64 0x8000000000000000) = true := by
  refine ⟨?_, ?_, ?_, ?_, ?_, ?_, ?_, ?_, ?_⟩ <;> intros <;> first | rfl | (simp [isEmptyV]) | decide

/-! ### map members -/

/-- with SortMapKeys the members of the object written for a map come from the map's entries
    (rendered key text, value) through a permutation that is bytewise non-decreasing in the key text;
    member names are the quoted key texts, member values are untouched -/
theorem sorted_keys (o : EncOpts) (hs : o.sortMapKeys = true) (addr : Bool) (k t : GoType)
    (kvs : List (GoVal × GoVal)) (j : JVal) (h : Enc.encV o addr (.map k t) (.map kvs) = .ok j) :
    ∃ es srt ms, Enc.encM o k t kvs = .ok es ∧ srt.Perm es ∧ Enc.SortedKV srt ∧
      Enc.keyBodies o k srt = .ok ms ∧ j = .obj ms ∧ ms.map (·.2) = srt.map (·.2) := by
  simp only [encV, hs, if_true] at h
  split at h
  · obtain ⟨es, h1, h2⟩ := except_bind_ok h
    obtain ⟨ms, h3, h4⟩ := except_map_ok h2
    exact ⟨es, sortKV es, ms, h1, sortKV_perm es, sortKV_sorted es, h3, h4.symm, keyBodies_values _ _ h3⟩
  · cases h

/-- without SortMapKeys the members follow the order in which the entries are handed over -/
theorem unsorted_keys (o : EncOpts) (hs : o.sortMapKeys = false) (addr : Bool) (k t : GoType)
    (kvs : List (GoVal × GoVal)) (j : JVal) (h : Enc.encV o addr (.map k t) (.map kvs) = .ok j) :
    ∃ es ms, Enc.encM o k t kvs = .ok es ∧ Enc.keyBodies o k es = .ok ms ∧ j = .obj ms := by
  simp only [encV, hs] at h
  split at h
  · obtain ⟨es, h1, h2⟩ := except_bind_ok h
    obtain ⟨ms, h3, h4⟩ := except_map_ok h2
    exact ⟨es, ms, h1, by simpa using h3, h4.symm⟩
  · cases h

/-! ### string literals -/

/-- the one tolerated difference: for every byte string, the literal in encoding/json's spelling and
    the literal in sonic's spelling, with the HTML escapes on or off on either side, unquote to the
    same bytes (`fix` = ValidateString must agree: it changes the denoted string, not the spelling) -/
theorem escape_spelling_only (html₁ html₂ fix : Bool) (s : Bytes) :
    Enc.unq (Enc.quoteBody html₁ fix s) = Enc.unq (Enc.quoteBodySonic html₂ fix s) ∧
    Enc.unq (Enc.quoteBody html₁ fix s) = Enc.unq (Enc.quoteBody html₂ fix s) := by
  rw [unq_quoteBody, unq_quoteBody, unq_quoteBodySonic]
  exact ⟨rfl, rfl⟩

/-- what the literals denote: the string itself; with ValidateString, the string with every byte that
    is not part of well-formed UTF-8 replaced by U+FFFD (encoding/json's reading) -/
theorem literal_denotes (html : Bool) (s : Bytes) :
    Enc.unq (Enc.quoteBody html false s) = some s ∧
    Enc.unq (Enc.quoteBody html true s) = some (Enc.coerce s) ∧
    (Enc.validUtf8 s = true → ∀ fix, Enc.unq (Enc.quoteBody html fix s) = some s) := by
  refine ⟨unq_quoteBody_raw html s, unq_quoteBody_fixed html s, ?_⟩
  intro hv fix
  cases fix
  · exact unq_quoteBody_raw html s
  · rw [unq_quoteBody_fixed, coerce_valid hv]


/-! ### against the byte-level specification of encoding/json (Model/EncStd.lean) -/

open SonicSpec.EncStd in
/-- on `stdSub` the token-level model under the std option word and the byte-level specification written from
    encoding/json's rules succeed together and write the same bytes -/
theorem encode_eq_std_partial (html : Bool) (T : GoType) (v : GoVal) (h : EncStd.stdSub T v = true) :
    (Enc.encode (EncStd.stdO html) T v).toOption = (EncStd.marshal html T v).toOption := by
  have := (eq_std_all html).1 false T v h
  simp only [opt] at this
  unfold Enc.encode Enc.encodeJ marshal
  rw [this]
  cases encV (stdO html) false T v <;> rfl

/-- the same, for a value below a pointer or in a slice (addressable: pointer-receiver methods are reachable) -/
theorem encV_eq_std_partial (html addr : Bool) (T : GoType) (v : GoVal) (h : EncStd.stdSub T v = true) :
    ((Enc.encV (EncStd.stdO html) addr T v).map render).toOption = (EncStd.encValue html addr T v).toOption := by
  have := (EncStd.eq_std_all html).1 addr T v h
  simp only [EncStd.opt] at this
  rw [this]
  cases encV (EncStd.stdO html) addr T v <;> rfl

/-- field resolution: counting same-named fields (encoding/json typeFields / dominantField without embedding)
    keeps exactly the fields the model's `keepList` keeps, for every declaration -/
theorem std_field_resolution (fs : List (String × Option Bytes × GoType)) :
    EncStd.typeFields fs = (Enc.keepList fs).map EncStd.convL := EncStd.typeFields_eq fs

/-- emptiness by the kind of the static type (encode.go isEmptyValue) is the model's table -/
theorem std_emptiness (T : GoType) (v : GoVal) (h : EncStd.kindMatch T v = true) :
    EncStd.isEmptyValue T v = Enc.isEmptyV T v := EncStd.isEmptyValue_eq T v h

/-- the byte loop of encode.go appendString (safe sets, `\u00xx`, U+FFFD, U+2028/9) writes the model's literal -/
theorem std_string_literal (html : Bool) (s : Bytes) :
    EncStd.appendString html s = Enc.quoteLit html true s := EncStd.appendString_eq html s

theorem std_integer_text (i : Int) (n : Nat) : Num.itoa i = Enc.intDec i ∧ Num.natDigits n = Enc.natDec n :=
  ⟨EncStd.itoa_eq i, EncStd.natDigits_eq n⟩

theorem std_base64 (b : Bytes) : EncStd.base64 b = Enc.b64 b := EncStd.base64_eq b

/-- `slices.SortFunc` by key text (a merge sort here) and the model's insertion sort give the same member list
    whenever the key texts differ pairwise -/
theorem std_sort_is_model_sort (es : List (Bytes × JVal)) (hn : (es.map (·.1)).Nodup) :
    (es.map fun e => (e.1, render e.2)).mergeSort EncStd.keyLE = (Enc.sortKV es).map fun e => (e.1, render e.2) :=
  EncStd.mergeSort_eq_sortKV es hn

/-- `field_order_is_declaration_order` carried over: what `EncStd.marshal` writes for a struct is the object of the
    kept, non-omitted fields in declaration order -/
theorem std_struct_members (html : Bool) (fs : List (String × Option Bytes × GoType)) (vs : List GoVal) (b : Bytes)
    (hs : EncStd.stdSub (.st fs) (.st vs) = true) (h : EncStd.marshal html (.st fs) (.st vs) = .ok b) :
    ∃ ks ms, Enc.keepList fs = some ks ∧ b = render (.obj ms) ∧
      ms.map (·.1) = (Enc.emitted ks vs).map (fun f => Enc.nameKey (EncStd.stdO html) f.name) ∧
      (Enc.emitted ks vs).Sublist (Enc.kept ks) := by
  have e := encode_eq_std_partial html _ _ hs
  rw [h] at e
  unfold Enc.encode Enc.encodeJ at e
  cases hj : encV (EncStd.stdO html) false (.st fs) (.st vs) with
  | error x => rw [hj] at e; cases e
  | ok j =>
    rw [hj] at e
    obtain ⟨ks, ms, h1, h2, h3, h4⟩ := field_order_is_declaration_order _ _ _ _ _ hj
    refine ⟨ks, ms, h1, ?_, h3, h4⟩
    subst h2
    have : some (render (JVal.obj ms)) = some b := e
    exact (Option.some.inj this).symm

/-- `sorted_keys` carried over: what `EncStd.marshal` writes for a map is the object of the entries in
    non-decreasing key order -/
theorem std_map_members (html : Bool) (k t : GoType) (kvs : List (GoVal × GoVal)) (b : Bytes)
    (hs : EncStd.stdSub (.map k t) (.map kvs) = true) (h : EncStd.marshal html (.map k t) (.map kvs) = .ok b) :
    ∃ es srt ms, Enc.encM (EncStd.stdO html) k t kvs = .ok es ∧ srt.Perm es ∧ Enc.SortedKV srt ∧
      Enc.keyBodies (EncStd.stdO html) k srt = .ok ms ∧ b = render (.obj ms) ∧ ms.map (·.2) = srt.map (·.2) := by
  have e := encode_eq_std_partial html _ _ hs
  rw [h] at e
  unfold Enc.encode Enc.encodeJ at e
  cases hj : encV (EncStd.stdO html) false (.map k t) (.map kvs) with
  | error x => rw [hj] at e; cases e
  | ok j =>
    rw [hj] at e
    obtain ⟨es, srt, ms, h1, h2, h3, h4, h5, h6⟩ := sorted_keys (EncStd.stdO html) rfl _ _ _ _ _ hj
    refine ⟨es, srt, ms, h1, h2, h3, h4, ?_, h6⟩
    subst h5
    have : some (render (JVal.obj ms)) = some b := e
    exact (Option.some.inj this).symm

/-- what `EncStd.marshal` writes on the sub-universe is one well-formed JSON value -/
theorem std_output_wellformed (html : Bool) (T : GoType) (v : GoVal) (b : Bytes)
    (hs : EncStd.stdSub T v = true) (h : EncStd.marshal html T v = .ok b) : (Json.parseDoc b).isSome = true := by
  have e := encode_eq_std_partial html _ _ hs
  rw [h] at e
  unfold Enc.encode Enc.encodeJ at e
  cases hj : encV (EncStd.stdO html) false T v with
  | error x => rw [hj] at e; cases e
  | ok j =>
    rw [hj] at e
    have : some (render j) = some b := e
    rw [← Option.some.inj this, parseDoc_render (encV_wf hj)]
    rfl

/-- a map type whose key kind encoding/json does not support is an UnsupportedTypeError whatever the value, nil
    and empty maps included (newMapEncoder decides by type) -/
theorem std_unsupported_key_whatever_the_value (html : Bool) (k t : GoType) (v : GoVal) (h : EncStd.mapKeyOK k = false) :
    EncStd.marshal html (.map k t) v = .error .unsupportedType := by
  cases v <;> simp [EncStd.marshal, EncStd.encValue, h]

/-- nil pointers, interfaces, slices, maps and []byte are `null` -/
theorem std_nil_is_null (html : Bool) (t : GoType) :
    EncStd.marshal html (.ptr t) .nil = .ok (ascii "null") ∧ EncStd.marshal html .any .nil = .ok (ascii "null") ∧
    EncStd.marshal html (.sl t) .nil = .ok (ascii "null") ∧ EncStd.marshal html .bytes .nil = .ok (ascii "null") ∧
    EncStd.marshal html (.map .str t) .nil = .ok (ascii "null") := by
  have hn : ascii "null" = EncStd.nullText := by decide
  rw [hn]
  refine ⟨?_, ?_, ?_, ?_, ?_⟩ <;> simp [EncStd.marshal, EncStd.encValue, EncStd.mapKeyOK]

/-! ### where the two specifications differ by design, and the recorded findings as witnesses -/

/-- Go 1.23 (the toolchain of the pinned tree) does not know `omitzero`: encoding/json writes the member, the
    model (which follows sonic's own tag reader, a Go 1.24 feature) drops it; `stdSub` excludes such fields -/
theorem omitzero_not_in_go_1_23 :
    EncStd.marshal false (.st [("G", some (ascii "g,omitzero"), .int 64)]) (.st [.int 0]) = .ok (ascii "{\"g\":0}") ∧
    Enc.encode (EncStd.stdO false) (.st [("G", some (ascii "g,omitzero"), .int 64)]) (.st [.int 0]) = .ok (ascii "{}") := by
  decide +kernel

/-- C03-string-opt-inner-literal: `struct{ S string "s,string" }{"\b"}`. The specification writes the inner
    literal with `\b`; sonic's recorded output has `\u0008` inside, which denotes another string -/
theorem known_string_opt_inner_literal_fails :
    EncStd.marshal false (.st [("S", some (ascii "s,string"), .str)]) (.st [.str [8]]) =
      .ok (ascii "{\"s\":\"\\\"\\\\b\\\"\"}") ∧
    Enc.textEq true (ascii "{\"s\":\"\\\"\\\\b\\\"\"}") (ascii "{\"s\":\"\\\"\\\\u0008\\\"\"}") = false := by
  decide +kernel

/-- C03-omitempty-negative-zero: `struct{ G float64 "g,omitempty" }{-0.0}`. The specification omits the member;
    sonic's recorded output is `{"g":-0}` -/
theorem known_omitempty_negative_zero_fails :
    EncStd.marshal false (.st [("G", some (ascii "g,omitempty"), .f64)]) (.st [.f64 0x8000000000000000]) = .ok (ascii "{}") ∧
    Enc.textEq true (ascii "{}") (ascii "{\"g\":-0}") = false := by
  decide +kernel

/-- C03-map-key-kinds-beyond-std: `map[bool]int{}` and a nil `map[float64]int`. The specification reports an
    unsupported type whatever the value; sonic's recorded answers are `{}` and `null` -/
theorem known_map_key_kinds_beyond_std_fails :
    EncStd.marshal false (.map .bool (.int 64)) (.map []) = .error .unsupportedType ∧
    EncStd.marshal false (.map .f64 (.int 64)) .nil = .error .unsupportedType := by
  decide +kernel

/-- `[][]…[]int64` with n+1 levels, and its value `[[…[]…]]` -/
def nestT : Nat → GoType
  | 0 => .sl (.int 64)
  | n + 1 => .sl (nestT n)
def nestV : Nat → GoVal
  | 0 => .sl []
  | n + 1 => .sl [nestV n]

/-- C03-max-stack-depth: the specification has no nesting limit (sonic answers `Value nesting too deep` above
    4096 levels) -/
theorem std_no_depth_limit (html : Bool) : ∀ n, ∃ b, EncStd.marshal html (nestT n) (nestV n) = .ok b := by
  intro n
  unfold EncStd.marshal
  generalize false = addr
  induction n generalizing addr with
  | zero => exact ⟨[91, 93], rfl⟩
  | succ n ih =>
    obtain ⟨t', ht⟩ : ∃ t', nestT n = .sl t' := by cases n <;> exact ⟨_, rfl⟩
    obtain ⟨b, hb⟩ := ih true
    refine ⟨91 :: (b ++ [93]), ?_⟩
    simp only [nestT, nestV]
    rw [ht] at hb ⊢
    simp [EncStd.encValue, EncStd.encElems, hb, bind, Except.bind, Except.map, pure, Except.pure]

/-! ### non-vacuity -/

/-- `\b` (encoding/json) and `\u0008` (sonic) are different spellings that unquote to the same byte -/
example : Enc.quoteBody false false [8] = [92, 98] ∧ Enc.quoteBodySonic false false [8] = [92, 117, 48, 48, 48, 56] ∧
    Enc.unq [92, 98] = some [8] ∧ Enc.unq [92, 117, 48, 48, 48, 56] = some [8] := by decide +kernel

/-- dominance: two fields tagged with the same name annihilate each other, a tagged one beats an untagged one -/
example : (Enc.keepList [("A", some [120], .bool), ("B", some [120], .bool), ("C", none, .bool), ("D", some [67], .bool)]).map
    (fun ks => (Enc.kept ks).map (·.name)) = some [[67]] := by decide +kernel

/-- sorted map keys of integer kind are ordered as TEXT: "-1" < "10" < "9" -/
example : Enc.encode EncOpts.std (.map (.int 64) .bool) (.map [(.int 9, .bool true), (.int 10, .bool false), (.int (-1), .bool true)]) =
    .ok (ascii "{\"-1\":true,\"10\":false,\"9\":true}") := by decide +kernel

/-- omitempty drops the empty slice and -0.0, keeps the non-nil pointer to an empty string -/
example : Enc.encode EncOpts.std
    (.st [("A", some (ascii "a,omitempty"), .sl .bool), ("F", some (ascii "f,omitempty"), .f64), ("P", some (ascii "p,omitempty"), .ptr .str)])
    (.st [.sl [], .f64 0x8000000000000000, .ptr (.str [])]) = .ok (ascii "{\"p\":\"\"}") := by decide +kernel


/-- `stdSub` is inhabited by a value that uses every stage: tags, a name conflict, omitempty, `,string`, a map with
    integer keys, a map with TextMarshaler keys, a slice of pointers, an interface, []byte, []uint8, the recursive
    library struct, the value- and pointer-receiver TextMarshaler library types -/
example : EncStd.stdSub
    (.st [("A", some (ascii "a,omitempty"), .int 64), ("B", some (ascii "b,string"), .f64), ("X", some (ascii "n"), .bool),
          ("Y", some (ascii "n"), .bool), ("M", none, .map (.int 64) .str), ("P", none, .sl (.ptr .str)), ("I", none, .any),
          ("Z", none, .bytes), ("U", none, .sl (.uint 8)), ("K", none, .map (.lib "TV") .bool), ("R", none, .ptr (.lib "Rec")),
          ("T", none, .lib "TP"), ("L", none, .lib "LT")])
    (.st [.int 0, .f64 0x3ff8000000000000, .bool true, .bool false, .map [(.int 10, .str [60]), (.int 9, .str [8])],
          .sl [.nil, .ptr (.str [226, 128, 168])], .any .bool (.bool true), .bytes [1, 2, 3], .sl [.uint 7, .uint 255],
          .map [(.st [.int 2], .bool true), (.st [.int 1], .bool false)], .ptr (.st [.int 1, .ptr (.st [.int 2, .nil])]),
          .st [.int 5], .lib [60, 62]]) = true := by
  decide +kernel

def exT : GoType :=
  .st [("A", some (ascii "a,omitempty"), .int 64), ("B", some (ascii "b,string"), .f64), ("X", some (ascii "n"), .bool),
       ("Y", some (ascii "n"), .bool), ("M", none, .map (.int 64) .str)]
def exV : GoVal :=
  .st [.int 0, .f64 0x3ff8000000000000, .bool true, .bool false, .map [(.int 10, .str [60]), (.int 9, .str [8])]]

/-- the agreement theorem at work: the specification's bytes for a struct with a two-entry map (whose merge sort the
    kernel does not unfold) are read off the model's side -/
example : EncStd.marshal true exT exV = .ok (ascii "{\"b\":\"1.5\",\"M\":{\"10\":\"\\u003c\",\"9\":\"\\b\"}}") := by
  have e := encode_eq_std_partial true exT exV (by decide +kernel)
  have h : Enc.encode (EncStd.stdO true) exT exV =
      .ok (ascii "{\"b\":\"1.5\",\"M\":{\"10\":\"\\u003c\",\"9\":\"\\b\"}}") := by decide +kernel
  rw [h] at e
  generalize EncStd.marshal true exT exV = r at e
  cases r with
  | error x => cases e
  | ok b => have : some _ = some b := e; rw [Option.some.inj this]

end SonicSpec.Props.C03
