/-
  C03 - property theorems about the TOKEN ORDER and TOKEN CONTENT of the Marshal specification
  `Enc.encode` (Model/Enc.lean), which is written after encoding/json and tied to it and to sonic by
  the correspondence run of vlib/props/C03.py (the model agrees with encoding/json on every generated
  case; sonic is compared with both).

  * `field_order_is_declaration_order`   members of a struct object = the kept fields that survive
                                         omitempty/omitzero, in declaration order
  * `omitempty_only_drops_empty`         a member is dropped only for the reason its tag names
  * `sorted_keys`                        with SortMapKeys the members of a map object are a bytewise
                                         non-decreasing permutation of the map's rendered keys
  * `escape_spelling_only`               literals that differ only in escape spelling (encoding/json's
                                         \b \f  , sonic's \u0008 \u000c and raw U+2028, HTML escapes
                                         on or off) unquote to the same bytes

  What is NOT here: the compiler-correctness theorem `exec (compile T) = encode` (the encoder IR is a
  separate work package); addressability-dependent dispatch is part of the model (`addr`) but no theorem
  is stated about sonic's `pv` flag.
-/
import SonicSpec.Proofs.EncOrder
import SonicSpec.Proofs.EncUnq
import SonicSpec.Proofs.EncWF
namespace SonicSpec.Props.C03
open SonicSpec SonicSpec.Enc SonicSpec.Json SonicSpec.Go

/-! ### struct members -/

/-- the member names of the object written for a struct are the names of the kept fields that survive
    `omitempty` / `omitzero`, in declaration order (`emitted` is a sublist of the declaration) -/
theorem field_order_is_declaration_order (o : EncOpts) (addr : Bool) (fs : List (String × Option Bytes × GoType))
    (vs : List GoVal) (j : JVal) (h : Enc.encV o addr (.st fs) (.st vs) = .ok j) :
    ∃ ks ms, Enc.keepList fs = some ks ∧ j = .obj ms ∧
      ms.map (·.1) = (Enc.emitted ks vs).map (fun f => Enc.nameKey o f.name) ∧
      (Enc.emitted ks vs).Sublist (Enc.kept ks) := by
  simp only [encV] at h
  split at h
  · rename_i ks hk
    split at h
    · obtain ⟨ms, h1, h2⟩ := except_map_ok h
      exact ⟨ks, ms, hk, h2.symm, encF_names ks vs ms h1, emitted_sublist ks vs⟩
    · cases h
  · cases h

/-- a kept field is left out only when its tag says so and the value is empty (`omitempty`, encode.go
    isEmptyValue) or zero (`omitzero`, reflect IsZero); otherwise it is written, in place -/
theorem omitempty_only_drops_empty (f : Field) (v : GoVal) (ks : List (Option Field)) (vs : List GoVal) :
    (Enc.emitted (some f :: ks) (v :: vs) = f :: Enc.emitted ks vs ∧
        ¬ ((f.omitEmpty = true ∧ Enc.isEmptyV f.typ v = true) ∨ (f.omitZero = true ∧ Enc.isZeroV v = true))) ∨
    (Enc.emitted (some f :: ks) (v :: vs) = Enc.emitted ks vs ∧
        ((f.omitEmpty = true ∧ Enc.isEmptyV f.typ v = true) ∨ (f.omitZero = true ∧ Enc.isZeroV v = true))) := by
  simp only [emitted]
  split
  · rename_i h
    right
    refine ⟨rfl, ?_⟩
    simpa [Bool.or_eq_true, Bool.and_eq_true] using h
  · rename_i h
    left
    refine ⟨rfl, ?_⟩
    simpa [Bool.or_eq_true, Bool.and_eq_true] using h

/-- emptiness per kind, as encoding/json defines it: false, 0, ±0.0, "", nil, length 0 -/
theorem emptiness_table :
    (∀ b, Enc.isEmptyV .bool (.bool b) = !b) ∧
    (∀ n k, Enc.isEmptyV (.int k) (.int n) = (n == 0)) ∧
    (∀ s, Enc.isEmptyV .str (.str s) = s.isEmpty) ∧
    (∀ t, Enc.isEmptyV (.ptr t) .nil = true) ∧
    (∀ t v, Enc.isEmptyV (.ptr t) (.ptr v) = false) ∧
    (∀ t xs, Enc.isEmptyV (.sl t) (.sl xs) = xs.isEmpty) ∧
    (∀ k t kvs, Enc.isEmptyV (.map k t) (.map kvs) = kvs.isEmpty) ∧
    (∀ fs vs, Enc.isEmptyV (.st fs) (.st vs) = false) ∧
    Enc.isEmptyV .f64 (.f64 0x8000000000000000) = true := by
  refine ⟨?_, ?_, ?_, ?_, ?_, ?_, ?_, ?_, ?_⟩ <;> intros <;> first | rfl | (simp [isEmptyV]) | decide

/-! ### map members -/

/-- with SortMapKeys the members of the object written for a map come from the map's entries
    (rendered key text, value) through a permutation that is bytewise non-decreasing in the key text;
    member names are the quoted key texts, member values are untouched -/
theorem sorted_keys (o : EncOpts) (hs : o.sortMapKeys = true) (addr : Bool) (k t : GoType)
    (kvs : List (GoVal × GoVal)) (j : JVal) (h : Enc.encV o addr (.map k t) (.map kvs) = .ok j) :
    ∃ es srt ms, Enc.encM o k t kvs = .ok es ∧ srt.Perm es ∧ Enc.SortedKV srt ∧
      Enc.keyBodies o k srt = .ok ms ∧ j = .obj ms ∧ ms.map (·.2) = srt.map (·.2) := by
  simp only [encV, hs, if_true] at h
  split at h
  · obtain ⟨es, h1, h2⟩ := except_bind_ok h
    obtain ⟨ms, h3, h4⟩ := except_map_ok h2
    exact ⟨es, sortKV es, ms, h1, sortKV_perm es, sortKV_sorted es, h3, h4.symm, keyBodies_values _ _ h3⟩
  · cases h

/-- without SortMapKeys the members follow the order in which the entries are handed over -/
theorem unsorted_keys (o : EncOpts) (hs : o.sortMapKeys = false) (addr : Bool) (k t : GoType)
    (kvs : List (GoVal × GoVal)) (j : JVal) (h : Enc.encV o addr (.map k t) (.map kvs) = .ok j) :
    ∃ es ms, Enc.encM o k t kvs = .ok es ∧ Enc.keyBodies o k es = .ok ms ∧ j = .obj ms := by
  simp only [encV, hs] at h
  split at h
  · obtain ⟨es, h1, h2⟩ := except_bind_ok h
    obtain ⟨ms, h3, h4⟩ := except_map_ok h2
    exact ⟨es, ms, h1, by simpa using h3, h4.symm⟩
  · cases h

/-! ### string literals -/

/-- the one tolerated difference: for every byte string, the literal in encoding/json's spelling and
    the literal in sonic's spelling, with the HTML escapes on or off on either side, unquote to the
    same bytes (`fix` = ValidateString must agree: it changes the denoted string, not the spelling) -/
theorem escape_spelling_only (html₁ html₂ fix : Bool) (s : Bytes) :
    Enc.unq (Enc.quoteBody html₁ fix s) = Enc.unq (Enc.quoteBodySonic html₂ fix s) ∧
    Enc.unq (Enc.quoteBody html₁ fix s) = Enc.unq (Enc.quoteBody html₂ fix s) := by
  rw [unq_quoteBody, unq_quoteBody, unq_quoteBodySonic]
  exact ⟨rfl, rfl⟩

/-- what the literals denote: the string itself; with ValidateString, the string with every byte that
    is not part of well-formed UTF-8 replaced by U+FFFD (encoding/json's reading) -/
theorem literal_denotes (html : Bool) (s : Bytes) :
    Enc.unq (Enc.quoteBody html false s) = some s ∧
    Enc.unq (Enc.quoteBody html true s) = some (Enc.coerce s) ∧
    (Enc.validUtf8 s = true → ∀ fix, Enc.unq (Enc.quoteBody html fix s) = some s) := by
  refine ⟨unq_quoteBody_raw html s, unq_quoteBody_fixed html s, ?_⟩
  intro hv fix
  cases fix
  · exact unq_quoteBody_raw html s
  · rw [unq_quoteBody_fixed, coerce_valid hv]

/-! ### non-vacuity -/

/-- `\b` (encoding/json) and `\u0008` (sonic) are different spellings that unquote to the same byte -/
example : Enc.quoteBody false false [8] = [92, 98] ∧ Enc.quoteBodySonic false false [8] = [92, 117, 48, 48, 48, 56] ∧
    Enc.unq [92, 98] = some [8] ∧ Enc.unq [92, 117, 48, 48, 48, 56] = some [8] := by decide +kernel

/-- dominance: two fields tagged with the same name annihilate each other, a tagged one beats an untagged one -/
example : (Enc.keepList [("A", some [120], .bool), ("B", some [120], .bool), ("C", none, .bool), ("D", some [67], .bool)]).map
    (fun ks => (Enc.kept ks).map (·.name)) = some [[67]] := by decide +kernel

/-- sorted map keys of integer kind are ordered as TEXT: "-1" < "10" < "9" -/
example : Enc.encode EncOpts.std (.map (.int 64) .bool) (.map [(.int 9, .bool true), (.int 10, .bool false), (.int (-1), .bool true)]) =
    .ok (ascii "{\"-1\":true,\"10\":false,\"9\":true}") := by decide +kernel

/-- omitempty drops the empty slice and -0.0, keeps the non-nil pointer to an empty string -/
example : Enc.encode EncOpts.std
    (.st [("A", some (ascii "a,omitempty"), .sl .bool), ("F", some (ascii "f,omitempty"), .f64), ("P", some (ascii "p,omitempty"), .ptr .str)])
    (.st [.sl [], .f64 0x8000000000000000, .ptr (.str [])]) = .ok (ascii "{\"p\":\"\"}") := by decide +kernel

end SonicSpec.Props.C03
