/-
  C15 - ast.Node behaves like a plain ordered tree; lazy loading is unobservable.
  Property theorems (helper lemmas live in Proofs/Ast*.lean).

  Specification  `Tree` / `step` / `run`          (Model/Ast.lean)
  Implementation `NodeM` / `stepM` / `runM`       (Model/AstNode.lean, transliterated from ast/*.go)
  Link           `abs`, `repOk`, `Refines`, `safeStep`, `safeRun`   (Model/AstRefine.lean)

  The statement at full strength is `Refinement` below.  The faithful implementation model makes it
  FALSE (`refinement_fails`, with five separate witnesses, each replayed on the real ast.Node by
  corpus/C15/witness.case).  What is proved for every document, every hidden representation and every finite
  operation sequence is the same statement restricted by `safeStep`, which excludes exactly
    * `Len()` on a node that is still raw or lazy,
    * key lookups (Get / Set / Unset / a key on the path) in an object that holds - or is about to
      build - a hash index (more than 16 pairs at load time),
    * key lookups with the empty key while soft-deleted pairs are present,
    * `Move` with an index beyond the logical length while soft-deleted slots are present.
-/
import SonicSpec.Proofs.AstRefine
import SonicSpec.Proofs.AstChunk
namespace SonicSpec.Props.C15
open SonicSpec SonicSpec.Ast

/-- the property at full strength, for one step -/
def Refinement : Prop :=
  ∀ (n : NodeM), n.repOk = true → ∀ o : POp, Refines (stepM n o) (step n.abs o)

/-- the property at full strength, for sequences: every observation of the real representation,
    and the text of the root after every step, are those of the plain tree -/
def SeqRefinement : Prop :=
  ∀ (n : NodeM), n.repOk = true → ∀ ops : List POp, (runM n ops).1 = (run n.abs ops).1

/-- "the order in which parts happen to be lazily parsed, and whether a node is raw, lazy or loaded,
    is never observable": two representations of the same tree answer every sequence alike -/
def LazyOrderUnobservable : Prop :=
  ∀ (n₁ n₂ : NodeM), n₁.repOk = true → n₂.repOk = true → n₁.abs = n₂.abs →
    ∀ ops : List POp, (runM n₁ ops).1 = (runM n₂ ops).1

/-! ## what holds -/

/-- one operation, addressed to the root or through a path: same observation, the new node stands for
    the new tree, the invariant is kept - whenever the step is not one of the excluded ones -/
theorem refinement_partial (n : NodeM) (o : POp) (hr : n.repOk = true) (hs : safeStep n o = true) :
    Refines (stepM n o) (step n.abs o) :=
  step_refines n o hr hs

/-- lifted to every finite sequence (each step safe in the state in which it is taken) -/
theorem refinement_seq_partial (n : NodeM) (ops : List POp) (hr : n.repOk = true)
    (hs : safeRun n ops = true) :
    (runM n ops).1 = (run n.abs ops).1 ∧ (runM n ops).2.abs = (run n.abs ops).2 ∧
    (runM n ops).2.repOk = true :=
  run_refines ops n hr hs

/-- `MarshalJSON` after any safe sequence on a freshly created node (`ast.NewRaw`, `sonic.Get`,
    `NewRawConcurrentRead`) prints the canonical text of the plain tree after the same sequence -/
theorem marshal_after_ops_partial (doc : Tree) (lock : Bool) (ops : List POp)
    (hs : safeRun (newRaw doc lock) ops = true) :
    (runM (newRaw doc lock) ops).2.canon = (run doc ops).2.canon := by
  obtain ⟨_, h2, h3⟩ := run_refines ops (newRaw doc lock) rfl hs
  have h2' : (runM (newRaw doc lock) ops).2.abs = (run doc ops).2 := h2
  rw [NodeM.canon, (encode_spec _ h3).1, h2']

/-- two hidden representations of the same tree (raw / partially parsed in any order / loaded / loaded
    with soft-deleted slots) cannot be told apart by any sequence that is safe on both -/
theorem lazy_order_unobservable_partial (n₁ n₂ : NodeM) (ops : List POp)
    (h₁ : n₁.repOk = true) (h₂ : n₂.repOk = true) (ha : n₁.abs = n₂.abs)
    (s₁ : safeRun n₁ ops = true) (s₂ : safeRun n₂ ops = true) :
    (runM n₁ ops).1 = (runM n₂ ops).1 := by
  rw [(run_refines ops n₁ h₁ s₁).1, (run_refines ops n₂ h₂ s₂).1, ha]

/-- the encoder of the implementation model prints the canonical text of the abstraction and leaves
    the abstraction alone (it may load lazy nodes on the way) -/
theorem encode_is_canon (n : NodeM) (hr : n.repOk = true) :
    n.encode.1 = n.abs.canon ∧ n.encode.2.abs = n.abs ∧ n.encode.2.repOk = true :=
  encode_spec n hr

/-- chunk arithmetic of `linkedNodes.At` / `linkedPairs.At` (ast/buffer.go:48, 222): under the shape
    invariant, slot `i` of the chunked storage is the `i`-th element of the flat list `NodeM` uses -/
theorem at_index (α : Type) (c : Nat) (hc : 0 < c) (s : Linked α) (h : Linked.WF c s) (i : Nat) :
    s.slot c i = (Linked.toList s)[i]? :=
  Linked.at_eq_getElem? c hc s h i

/-! ## what does not hold: the faithful model contradicts the full statement

Each witness is a concrete document and operation sequence; `corpus/C15/witness.case` replays it on
the real `ast.Node` (the real node answers exactly as `NodeM` does here). -/

def num (i : Nat) : Tree := .num [UInt8.ofNat (48 + i % 10)]
def key (i : Nat) : Key := [107, UInt8.ofNat (48 + i / 10), UInt8.ofNat (48 + i % 10)]
def here (op : Op) : POp := ⟨[], op⟩
/-- `[1,2,3,4]` -/
def arr4 : Tree := .arr [num 1, num 2, num 3, num 4]
/-- `{"k00":0,...,"k16":6}`: 17 pairs, one more than `_Threshold_Index` -/
def obj17 : Tree := .obj ((List.range 17).map (fun i => (key i, num i)))
/-- the same with `"k00":9` appended: a duplicated key in an object that gets a hash index -/
def obj18dup : Tree := .obj ((List.range 17).map (fun i => (key i, num i)) ++ [(key 0, num 9)])
/-- `{"a":1,"":2}` -/
def objEmptyKey : Tree := .obj [([97], num 1), ([], num 2)]

/-- W1 (`Len` counts only what has been parsed): on a fresh raw `[1,2,3,4]` the model answers 0,
    and 1 after `Index(0)`; the tree has 4 elements -/
theorem len_partial_observable :
    (stepM (newRaw arr4 false) (here .len)).1 = .n 0 ∧
    ((runM (newRaw arr4 false) [here (.idx 0), here .len]).1.map (·.1)).getLast? = some (.n 1) ∧
    (step arr4 (here .len)).1 = .n 4 := by decide

/-- the full statement is false -/
theorem refinement_fails : ¬ Refinement := by
  intro h
  have := (h (newRaw arr4 false) rfl (here .len)).1
  revert this; decide

theorem seq_refinement_fails : ¬ SeqRefinement := by
  intro h
  have := h (newRaw arr4 false) rfl [here .len]
  revert this; decide

/-- W2 (duplicate key + hash index): while the object is lazy `Get("k00")` finds the FIRST pair
    (value 0); once it has been loaded (here by an iteration) the index leads to the LAST (value 9) -/
theorem dupkey_index_picks_last :
    (runM (newRaw obj18dup false) [here (.get (key 0))]).1.map (·.1) = [.val [48]] ∧
    ((runM (newRaw obj18dup false) [here .iter, here (.get (key 0))]).1.map (·.1)).getLast? = some (.val [57]) ∧
    ((run obj18dup [here .iter, here (.get (key 0))]).1.map (·.1)).getLast? = some (.val [48]) := by decide

/-- hence laziness is observable: a raw node and the same node after an iteration stand for the same
    tree, satisfy the invariant, and answer `Get("k00")` differently -/
theorem lazy_order_observable : ¬ LazyOrderUnobservable := by
  intro h
  have hsafe : safeStep (newRaw obj18dup false) (here .iter) = true := by decide
  obtain ⟨_, r2, r3⟩ := refinement_partial (newRaw obj18dup false) (here .iter) rfl hsafe
  have habs : (newRaw obj18dup false).abs = (stepM (newRaw obj18dup false) (here .iter)).2.abs := by
    rw [r2]; rfl
  have := h (newRaw obj18dup false) (stepM (newRaw obj18dup false) (here .iter)).2 rfl r3 habs [here (.get (key 0))]
  revert this; decide

/-- W3 (DESIGN §8 #18): 17 members, `Unset(last); Pop(); Get(last)`: the soft delete leaves the index
    entry, `Pop` shrinks the store below it, `linkedPairs.Get` dereferences `At(i) = nil` -/
theorem unset_pop_get_panics :
    (runM (newRaw obj17 false) [here (.unset (key 16)), here .pop, here (.get (key 16))]).1.map (·.1)
      = [.b true, .ok, .panic] ∧
    (run obj17 [here (.unset (key 16)), here .pop, here (.get (key 16))]).1.map (·.1)
      = [.b true, .ok, .nx] := by decide

/-- W4 (empty key after a soft delete): the linear search of `linkedPairs.Get` matches the emptied
    `Pair{}` (its `Key` is `""`), so the real `""` member is not found any more -/
theorem empty_key_lost_after_unset :
    (runM (newRaw objEmptyKey false) [here (.unseti 0), here (.get [])]).1.map (·.1) = [.b true, .nx] ∧
    (run objEmptyKey [here (.unseti 0), here (.get [])]).1.map (·.1) = [.b true, .val [50]] := by decide

/-- W5 (`Move` with an index beyond the logical length while a slot is soft-deleted): the stale
    logical index is used as a physical one; `[2,3,4]` becomes `[3,4,2]` instead of staying -/
theorem move_out_of_range_moves :
    (runM (newRaw arr4 false) [here (.unseti 0), here (.move 3 0)]).2.canon = (Tree.arr [num 3, num 4, num 2]).canon ∧
    (run arr4 [here (.unseti 0), here (.move 3 0)]).2.canon = (Tree.arr [num 2, num 3, num 4]).canon := by decide

/-! ## non-vacuity -/

/-- `{"a":[1,2,3],"b":{"c":null,"a":true}}` -/
def doc1 : Tree := .obj [([97], .arr [num 1, num 2, num 3]), ([98], .obj [([99], .null), ([97], .bool true)])]

/-- reads, writes, deletions, a sort, a move across a soft-deleted slot, through paths and at the root -/
def ops1 : List POp :=
  [⟨[.key [97]], .idx 1⟩, ⟨[.key [97]], .unseti 0⟩, ⟨[.key [97]], .add (num 7)⟩, ⟨[.key [97]], .move 0 2⟩,
   ⟨[.key [98]], .sort false⟩, ⟨[.key [98]], .set [100] (.arr [])⟩, ⟨[.idx 1, .key [100]], .add .null⟩,
   ⟨[], .unset [97]⟩, ⟨[], .len⟩, ⟨[], .pop⟩, ⟨[], .mar⟩]

/-- the hypotheses of the partial theorems are satisfiable on a sequence that does something: every
    step of `ops1` is safe from a raw node and from a concurrently-readable one -/
example : (newRaw doc1 false).repOk = true ∧ safeRun (newRaw doc1 false) ops1 = true ∧
    safeRun (newRaw doc1 true) ops1 = true := by decide

/-- ... and the sequence is not a no-op: the observations are these, the document ends empty -/
example : (run doc1 ops1).1.map (·.1) =
    [.val [50], .b true, .ok, .ok, .ok, .b false, .ok, .b true, .n 1, .ok, .val [123, 125]] := by decide

/-- two genuinely different representations of `doc1` to which `lazy_order_unobservable_partial`
    applies: the raw node, and the node after `b` has been looked up, loaded and sorted -/
example :
    let n₂ := (runM (newRaw doc1 false) [⟨[.key [98]], .load⟩, ⟨[], .iter⟩]).2
    n₂.repOk = true ∧ safeRun n₂ ops1 = true ∧ (newRaw doc1 false).isRaw = true ∧ n₂.isRaw = false := by decide

end SonicSpec.Props.C15
