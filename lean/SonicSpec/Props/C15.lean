/-
  C15 - ast.Node behaves like a plain ordered tree; lazy loading is unobservable.
  Property theorems (helper lemmas live in Proofs/Ast*.lean).

  Specification  `Tree` / `step` / `run`          (Model/Ast.lean)
  Implementation `NodeM` / `stepM` / `runM`       (Model/AstNode.lean, transliterated from ast/*.go
                                                   WITH the four C15 repairs, patches/C15-*.diff)
  Link           `abs`, `repOk`, `Refines`, `safeStep`, `safeRun`   (Model/AstRefine.lean)

  The statement at full strength is `Refinement` below.  The faithful implementation model still makes
  it FALSE at exactly one point: `Len()` on a node that is raw or lazily loaded counts only what has
  been parsed (documented WARN at ast/node.go, `len_partial_observable`, replayed on the real node by
  corpus/C15/witness.case).  `safeStep` excludes that and nothing else: for every document, every hidden
  representation (raw, lazy in any state of progress, loaded, loaded with soft-deleted slots, with or
  without hash index, duplicated and empty keys included) and every finite sequence of operations that
  does not call `Len()` on a not-yet-loaded node, every observation and the final MarshalJSON are those
  of the plain tree (`refinement_seq_partial`; without any side condition when `Len` is not used:
  `refinement_seq_except_len`).  On loaded nodes `Len` is right too (`refinement_loaded`,
  `len_loaded_is_length`, `len_after_iter`).  The plain-list child store of `NodeM` is the chunked
  `linkedNodes`/`linkedPairs` storage for every mutator and every sequence (`chunk_*`,
  `chunk_ops_refine_list`, `store_ops_refine_list`).
-/
import SonicSpec.Proofs.AstRefine
import SonicSpec.Proofs.AstChunkOps
namespace SonicSpec.Props.C15
open SonicSpec SonicSpec.Ast

/-- the property at full strength, for one step -/
def Refinement : Prop :=
  ∀ (n : NodeM), n.repOk = true → ∀ o : POp, Refines (stepM n o) (step n.abs o)

/-- the property at full strength, for sequences: every observation of the real representation,
    and the text of the root after every step, are those of the plain tree -/
def SeqRefinement : Prop :=
  ∀ (n : NodeM), n.repOk = true → ∀ ops : List POp, (runM n ops).1 = (run n.abs ops).1

/-- "the order in which parts happen to be lazily parsed, and whether a node is raw, lazy or loaded,
    is never observable": two representations of the same tree answer every sequence alike -/
def LazyOrderUnobservable : Prop :=
  ∀ (n₁ n₂ : NodeM), n₁.repOk = true → n₂.repOk = true → n₁.abs = n₂.abs →
    ∀ ops : List POp, (runM n₁ ops).1 = (runM n₂ ops).1

/-! ## what holds -/

/-- one operation, addressed to the root or through a path: same observation, the new node stands for
    the new tree, the invariant is kept - unless the step is a `Len()` on a not-yet-loaded node -/
theorem refinement_partial (n : NodeM) (o : POp) (hr : n.repOk = true) (hs : safeStep n o = true) :
    Refines (stepM n o) (step n.abs o) :=
  step_refines n o hr hs

/-- lifted to every finite sequence (each step safe in the state in which it is taken) -/
theorem refinement_seq_partial (n : NodeM) (ops : List POp) (hr : n.repOk = true)
    (hs : safeRun n ops = true) :
    (runM n ops).1 = (run n.abs ops).1 ∧ (runM n ops).2.abs = (run n.abs ops).2 ∧
    (runM n ops).2.repOk = true :=
  run_refines ops n hr hs

/-- `MarshalJSON` after any safe sequence on a freshly created node (`ast.NewRaw`, `sonic.Get`,
    `NewRawConcurrentRead`) prints the canonical text of the plain tree after the same sequence -/
theorem marshal_after_ops_partial (doc : Tree) (lock : Bool) (ops : List POp)
    (hs : safeRun (newRaw doc lock) ops = true) :
    (runM (newRaw doc lock) ops).2.canon = (run doc ops).2.canon := by
  obtain ⟨_, h2, h3⟩ := run_refines ops (newRaw doc lock) rfl hs
  have h2' : (runM (newRaw doc lock) ops).2.abs = (run doc ops).2 := h2
  rw [NodeM.canon, (encode_spec _ h3).1, h2']

/-- two hidden representations of the same tree (raw / partially parsed in any order / loaded / loaded
    with soft-deleted slots) cannot be told apart by any sequence that is safe on both -/
theorem lazy_order_unobservable_partial (n₁ n₂ : NodeM) (ops : List POp)
    (h₁ : n₁.repOk = true) (h₂ : n₂.repOk = true) (ha : n₁.abs = n₂.abs)
    (s₁ : safeRun n₁ ops = true) (s₂ : safeRun n₂ ops = true) :
    (runM n₁ ops).1 = (runM n₂ ops).1 := by
  rw [(run_refines ops n₁ h₁ s₁).1, (run_refines ops n₂ h₂ s₂).1, ha]

/-- the encoder of the implementation model prints the canonical text of the abstraction and leaves
    the abstraction alone (it may load lazy nodes on the way) -/
theorem encode_is_canon (n : NodeM) (hr : n.repOk = true) :
    n.encode.1 = n.abs.canon ∧ n.encode.2.abs = n.abs ∧ n.encode.2.repOk = true :=
  encode_spec n hr

/-- chunk arithmetic of `linkedNodes.At` / `linkedPairs.At` (ast/buffer.go:48, 222): under the shape
    invariant, slot `i` of the chunked storage is the `i`-th element of the flat list `NodeM` uses -/
theorem at_index (α : Type) (c : Nat) (hc : 0 < c) (s : Linked α) (h : Linked.WF c s) (i : Nat) :
    s.slot c i = (Linked.toList s)[i]? :=
  Linked.at_eq_getElem? c hc s h i

/-- no side condition at all for an operation other than `Len` -/
theorem refinement_except_len (n : NodeM) (o : POp) (hr : n.repOk = true) (ho : o.op.isLen = false) :
    Refines (stepM n o) (step n.abs o) :=
  step_refines n o hr (safeAt_of_not_len o.op ho o.path n)

/-- ... and for every finite sequence of such operations -/
theorem refinement_seq_except_len (n : NodeM) (ops : List POp) (hr : n.repOk = true)
    (ho : ∀ o ∈ ops, o.op.isLen = false) :
    (runM n ops).1 = (run n.abs ops).1 ∧ (runM n ops).2.abs = (run n.abs ops).2 ∧
    (runM n ops).2.repOk = true :=
  run_refines ops n hr (safeRun_of_no_len ops n ho)

/-- raw / lazy in any state / loaded / soft-deleted / indexed representations of one tree are
    indistinguishable by any sequence that does not use `Len` -/
theorem lazy_order_unobservable_except_len (n₁ n₂ : NodeM) (ops : List POp)
    (h₁ : n₁.repOk = true) (h₂ : n₂.repOk = true) (ha : n₁.abs = n₂.abs)
    (ho : ∀ o ∈ ops, o.op.isLen = false) :
    (runM n₁ ops).1 = (runM n₂ ops).1 :=
  lazy_order_unobservable_partial n₁ n₂ ops h₁ h₂ ha (safeRun_of_no_len ops n₁ ho) (safeRun_of_no_len ops n₂ ho)

/-- `Set(i, v)` on the chunked storage (`i` a slot in use, or the first free one = `Push`): the
    shape invariant is kept and the flat list is overwritten at `i` / extended by `v`; new chunks
    are allocated as `growTailLength` does (ast/buffer.go:99-138, 257-304) -/
theorem chunk_set (α : Type) (c : Nat) (hc : 0 < c) (zero : α) (s : Linked α) (h : Linked.WF c s)
    (i : Nat) (hi : i ≤ s.size) (v : α) :
    Linked.WF c (Linked.set c zero s i v) ∧
    Linked.toList (Linked.set c zero s i v) =
      (if i < s.size then (Linked.toList s).set i v else Linked.toList s ++ [v]) :=
  Linked.set_toList c hc zero s h i hi v

theorem chunk_push (α : Type) (c : Nat) (hc : 0 < c) (zero : α) (s : Linked α) (h : Linked.WF c s) (v : α) :
    Linked.WF c (Linked.push c zero s v) ∧ Linked.toList (Linked.push c zero s v) = Linked.toList s ++ [v] :=
  Linked.push_toList c hc zero s h v

/-- `Pop()` (ast/buffer.go:87, 241) drops the last slot in use -/
theorem chunk_pop (α : Type) (c : Nat) (hc : 0 < c) (zero : α) (s : Linked α) (h : Linked.WF c s) :
    Linked.WF c (Linked.pop c zero s) ∧ Linked.toList (Linked.pop c zero s) = (Linked.toList s).dropLast :=
  Linked.pop_toList c hc zero s h

/-! ### `Len`: full strength on loaded nodes -/

/-- a node whose first level is loaded (anything but a raw or lazily loaded container) refines the
    plain tree for EVERY operation, `Len` included: the statement at full strength for loaded nodes -/
theorem refinement_loaded (n : NodeM) (op : Op) (hr : n.repOk = true) (hl : n.lenSafe = true) :
    Refines (stepM n ⟨[], op⟩) (step n.abs ⟨[], op⟩) :=
  stepHere_refines n op hr (safeHere_of_lenSafe n op hl)

/-- in particular `Len()` of a loaded array / object is the length of the list / association list,
    whatever the number of soft-deleted slots and wherever the chunk boundary falls -/
theorem len_loaded_is_length (n : NodeM) (hr : n.repOk = true) (hl : n.lenSafe = true) :
    (∀ xs, n.abs = .arr xs → (stepM n ⟨[], .len⟩).1 = .n xs.length) ∧
    (∀ kvs, n.abs = .obj kvs → (stepM n ⟨[], .len⟩).1 = .n kvs.length) := by
  have h := (refinement_loaded n .len hr hl).1
  constructor
  · intro xs ha; rw [h]; simp [step, Tree.stepAt, ha, Tree.stepHere]
  · intro kvs ha; rw [h]; simp [step, Tree.stepAt, ha, Tree.stepHere]

/-- and a node IS loaded after an iteration: `iter; len` is right from every representation (raw and
    lazy ones included) - the deviation of `len_partial_observable` needs a not-yet-loaded node -/
theorem len_after_iter (n : NodeM) (hr : n.repOk = true) :
    (runM n [⟨[], .iter⟩, ⟨[], .len⟩]).1 = (run n.abs [⟨[], .iter⟩, ⟨[], .len⟩]).1 := by
  apply (run_refines _ n hr _).1
  simp only [safeRun, safeStep, NodeM.safeAt, NodeM.safeHere, Bool.true_and, Bool.and_true]
  exact lenSafe_after_iter n hr

/-! ### the chunked storage refines the plain list, for every mutator and every sequence

`NodeM` keeps the children of a loaded container in a plain list; ast/buffer.go keeps them in a head
array of `_DEFAULT_NODE_CAP` slots plus tail chunks.  The theorems below close that gap once and for
all: with `toList` as abstraction, each mutator the public API reaches commutes with the list
operation `NodeM` uses, and so does every finite sequence of them - whatever the container size and
wherever the chunk boundary falls. -/

/-- `*At(i) = v` (SetByIndex, Set on an existing key; with `v` = zero value: the soft deletion of
    Unset / UnsetByIndex) is `List.set`; size and shape are kept -/
theorem chunk_assign (α : Type) (c : Nat) (hc : 0 < c) (s : Linked α) (h : Linked.WF c s) (i : Nat) (v : α) :
    Linked.WF c (Linked.assign c s i v) ∧ (Linked.assign c s i v).size = s.size ∧
    Linked.toList (Linked.assign c s i v) = (Linked.toList s).set i v :=
  Linked.assign_toList c hc s h i v

/-- `MoveOne(src, dst)` (ast/buffer.go:63, the two shifting loops) is `moveElem`, the function
    `Move` uses in `NodeM` and in the specification -/
theorem chunk_move_one (α : Type) (c : Nat) (hc : 0 < c) (s : Linked α) (h : Linked.WF c s) (src dst : Nat) :
    Linked.WF c (Linked.moveOne c s src dst) ∧
    Linked.toList (Linked.moveOne c s src dst) = moveElem (Linked.toList s) dst src := by
  obtain ⟨w, tl⟩ := Linked.moveOne_toList c hc s h src dst
  exact ⟨w, by rw [tl, LOps.moveOne_eq_moveElem]⟩

/-- `Swap(i, j)` (ast/buffer.go:404; `Sort` is a sequence of these) exchanges two elements of the list -/
theorem chunk_swap (α : Type) (c : Nat) (hc : 0 < c) (s : Linked α) (h : Linked.WF c s) (i j : Nat) :
    Linked.WF c (Linked.swap c s i j) ∧ Linked.toList (Linked.swap c s i j) = LOps.swap (Linked.toList s) i j :=
  Linked.swap_toList c hc s h i j

/-- the tail loop of `Node.Pop` (drop emptied slots at the end, then one live slot) is `popLive` -/
theorem chunk_pop_loop (α : Type) (c : Nat) (hc : 0 < c) (zero : α) (live : α → Bool) (s : Linked α)
    (h : Linked.WF c s) :
    Linked.WF c (Linked.popLoop c zero live s.size s).1 ∧
    Linked.toList (Linked.popLoop c zero live s.size s).1 = (popLive live (Linked.toList s)).1 ∧
    (Linked.popLoop c zero live s.size s).2 = (popLive live (Linked.toList s)).2 :=
  Linked.popLoop_toList c hc zero live s.size s h (Nat.le_refl _)

/-- every finite sequence of assign / unset / push / pop / MoveOne / Swap: the chunked storage keeps
    its shape invariant and its slots in use are what the same sequence makes of the plain list -/
theorem chunk_ops_refine_list (α : Type) (c : Nat) (hc : 0 < c) (zero : α) (ops : List (Linked.COp α))
    (s : Linked α) (h : Linked.WF c s) :
    Linked.WF c (Linked.runOps c zero s ops) ∧
    Linked.toList (Linked.runOps c zero s ops) = LOps.runOps zero (Linked.toList s) ops :=
  Linked.runOps_toList c hc zero ops s h

/-- the same for the store transitions exactly as `NodeM.stepHere` performs them (`List.set`, the soft
    delete, append, `popLive`, `moveElem`): the plain-list store of `NodeM` IS the chunked storage, for
    every sequence, so `refinement_seq_partial` needs no separate argument for containers beyond 16 -/
theorem store_ops_refine_list (α : Type) (c : Nat) (hc : 0 < c) (zero : α) (live : α → Bool)
    (ops : List (StoreOp α)) (s : Linked α) (h : Linked.WF c s) :
    Linked.WF c (StoreOp.runC c zero live s ops) ∧
    Linked.toList (StoreOp.runC c zero live s ops) = StoreOp.runL zero live (Linked.toList s) ops :=
  StoreOp.runC_toList c hc zero live ops s h

/-- in particular a container built by pushes from `new(linkedNodes)` holds exactly what was pushed -/
theorem chunk_build (α : Type) (c : Nat) (hc : 0 < c) (zero : α) (vs : List α) :
    Linked.toList (Linked.runOps c zero (Linked.empty c zero) (vs.map Linked.COp.push)) = vs := by
  obtain ⟨w, e⟩ := Linked.empty_spec c zero
  rw [(Linked.runOps_toList c hc zero _ _ w).2, e, LOps.runOps_push]; rfl

/-- `FromSlice` (ast/buffer.go:161, 372; `NewArray`, `NewObject`): the chunked storage built from a
    slice has the shape invariant and holds exactly the slice, whatever its length -/
theorem chunk_from_slice (α : Type) (c : Nat) (hc : 0 < c) (zero : α) (con : List α) :
    Linked.WF c (Linked.fromSlice c zero con) ∧ Linked.toList (Linked.fromSlice c zero con) = con :=
  Linked.fromSlice_spec c hc zero con

/-- non-vacuity, across the 16-slot boundary in both directions: 17 pushes allocate a tail chunk;
    slot 15 (last of `head`) is soft-deleted; the element of slot 16 (first of the tail chunk) is moved
    to slot 2 and slot 1 to slot 16; two pops bring the size back to 15; a push grows it again -/
example :
    let s := Linked.runOps 16 0 (Linked.empty 16 (0 : Nat))
      ((List.range 17).map (fun i => Linked.COp.push (i + 100)) ++
        [.unset 15, .moveOne 16 2, .moveOne 1 16, .swap 0 16, .pop, .pop, .push 7])
    s.tail.length = 1 ∧ s.size = 16 ∧
    Linked.toList s = [101, 116, 102, 103, 104, 105, 106, 107, 108, 109, 110, 111, 112, 113, 114, 7] := by decide

/-- the store transitions of `NodeM` across the boundary with soft-deleted slots on it: 18 pushes,
    slots 15 (last of `head`), 16, 17 (tail chunk) emptied, the Pop loop trims them and takes slot 14
    (size 18 -> 14), three pushes grow it back over the boundary, writes and moves across it -/
example :
    let ops : List (StoreOp Nat) := (List.range 18).map (fun i => StoreOp.push (i + 1)) ++
      [.kill 16, .kill 15, .kill 17, .popLive, .push 50, .push 51, .push 52, .setAt 16 60, .move 0 16, .kill 15,
       .move 16 2]
    let s := StoreOp.runC 16 0 (· != 0) (Linked.empty 16 (0 : Nat)) ops
    s.size = 17 ∧ Linked.toList s = StoreOp.runL 0 (· != 0) [] ops ∧
    Linked.toList s = [60, 1, 3, 4, 5, 6, 7, 8, 9, 10, 11, 12, 13, 14, 0, 51, 2] := by decide +kernel

/-! ## what does not hold: `Len()` before the node is loaded -/

def num (i : Nat) : Tree := .num [UInt8.ofNat (48 + i % 10)]
def key (i : Nat) : Key := [107, UInt8.ofNat (48 + i / 10), UInt8.ofNat (48 + i % 10)]
def here (op : Op) : POp := ⟨[], op⟩
/-- `[1,2,3,4]` -/
def arr4 : Tree := .arr [num 1, num 2, num 3, num 4]
/-- `{"k00":0,...,"k16":6}`: 17 pairs, one more than `_Threshold_Index` -/
def obj17 : Tree := .obj ((List.range 17).map (fun i => (key i, num i)))
/-- the same with `"k00":9` appended: a duplicated key in an object that gets a hash index -/
def obj18dup : Tree := .obj ((List.range 17).map (fun i => (key i, num i)) ++ [(key 0, num 9)])
/-- `{"a":1,"":2}` -/
def objEmptyKey : Tree := .obj [([97], num 1), ([], num 2)]

/-- `Len` counts only what has been parsed: on a fresh raw `[1,2,3,4]` the model answers 0, and 1
    after `Index(0)`; the tree has 4 elements.  (corpus/C15/witness.case, first line; finding
    C15-len-partial) -/
theorem len_partial_observable :
    (stepM (newRaw arr4 false) (here .len)).1 = .n 0 ∧
    ((runM (newRaw arr4 false) [here (.idx 0), here .len]).1.map (·.1)).getLast? = some (.n 1) ∧
    (step arr4 (here .len)).1 = .n 4 := by decide

/-- the full statement is false -/
theorem refinement_fails : ¬ Refinement := by
  intro h
  have := (h (newRaw arr4 false) rfl (here .len)).1
  revert this; decide

theorem seq_refinement_fails : ¬ SeqRefinement := by
  intro h
  have := h (newRaw arr4 false) rfl [here .len]
  revert this; decide

/-- laziness is observable through `Len`: a raw node and the same node after an iteration stand for
    the same tree, satisfy the invariant, and answer `Len()` differently -/
theorem lazy_order_observable : ¬ LazyOrderUnobservable := by
  intro h
  obtain ⟨_, r2, r3⟩ := refinement_except_len (newRaw arr4 false) (here .iter) rfl rfl
  have habs : (newRaw arr4 false).abs = (stepM (newRaw arr4 false) (here .iter)).2.abs := by
    rw [r2]; rfl
  have := h (newRaw arr4 false) (stepM (newRaw arr4 false) (here .iter)).2 rfl r3 habs [here .len]
  revert this; decide

/-! ## regression documentation: the four defects repaired by patches/C15-*.diff

Before the repairs the transliterated model (and the real node) deviated on the four sequences below
(the pre-fix answers are quoted); the model of the repaired code agrees with the plain tree on each.
The same sequences are replayed on the real `ast.Node` by corpus/C15/witness.case. -/

/-- C15-index-first-pair-wins: `Get("k00")` on the 18-pair object with `k00` duplicated finds the
    first pair (value 0) while lazy AND after loading (pre-fix: 9, the last pair, once loaded) -/
theorem dupkey_first_pair_always :
    (runM (newRaw obj18dup false) [here (.get (key 0))]).1.map (·.1) = [.val [48]] ∧
    ((runM (newRaw obj18dup false) [here .iter, here (.get (key 0))]).1.map (·.1)).getLast? = some (.val [48]) ∧
    ((runM (newRaw obj18dup false) [here .iter, here .pop, here (.get (key 0))]).1.map (·.1)).getLast?
      = some (.val [48]) := by decide

/-- C15-stale-index-nil-deref: 17 members, `Unset(last); Pop(); Get(last)` answers "absent"
    (pre-fix: nil-pointer panic in `linkedPairs.Get`) -/
theorem unset_pop_get_absent :
    (runM (newRaw obj17 false) [here (.unset (key 16)), here .pop, here (.get (key 16))]).1.map (·.1)
      = [.b true, .ok, .nx] := by decide

/-- C15-empty-key-after-soft-delete: the member `""` is still found after another member was unset
    (pre-fix: the emptied `Pair{}` answered for the empty key) -/
theorem empty_key_kept_after_unset :
    (runM (newRaw objEmptyKey false) [here (.unseti 0), here (.get [])]).1.map (·.1) = [.b true, .val [50]] := by
  decide

/-- C15-move-out-of-range-noop: `Move(3, 0)` on `[2,3,4]` with one soft-deleted slot leaves it alone
    (pre-fix: `[3,4,2]`) -/
theorem move_out_of_range_noop :
    (runM (newRaw arr4 false) [here (.unseti 0), here (.move 3 0)]).2.canon = (Tree.arr [num 2, num 3, num 4]).canon := by
  decide

/-! ## non-vacuity -/

/-- `{"a":[1,2,3],"b":{"c":null,"a":true}}` -/
def doc1 : Tree := .obj [([97], .arr [num 1, num 2, num 3]), ([98], .obj [([99], .null), ([97], .bool true)])]

/-- reads, writes, deletions, a sort, a move across a soft-deleted slot, through paths and at the root -/
def ops1 : List POp :=
  [⟨[.key [97]], .idx 1⟩, ⟨[.key [97]], .unseti 0⟩, ⟨[.key [97]], .add (num 7)⟩, ⟨[.key [97]], .move 0 2⟩,
   ⟨[.key [98]], .sort false⟩, ⟨[.key [98]], .set [100] (.arr [])⟩, ⟨[.idx 1, .key [100]], .add .null⟩,
   ⟨[], .unset [97]⟩, ⟨[], .len⟩, ⟨[], .pop⟩, ⟨[], .mar⟩]

/-- the hypotheses of the partial theorems are satisfiable on a sequence that does something (and that
    even contains a `Len`, taken when the root has been loaded): every step of `ops1` is safe from a
    raw node and from a concurrently-readable one -/
example : (newRaw doc1 false).repOk = true ∧ safeRun (newRaw doc1 false) ops1 = true ∧
    safeRun (newRaw doc1 true) ops1 = true := by decide

/-- ... and the sequence is not a no-op: the observations are these, the document ends empty -/
example : (run doc1 ops1).1.map (·.1) =
    [.val [50], .b true, .ok, .ok, .ok, .b false, .ok, .b true, .n 1, .ok, .val [123, 125]] := by decide

/-- two genuinely different representations of `doc1` to which `lazy_order_unobservable_partial`
    applies: the raw node, and the node after `b` has been looked up, loaded and sorted -/
example :
    let n₂ := (runM (newRaw doc1 false) [⟨[.key [98]], .load⟩, ⟨[], .iter⟩]).2
    n₂.repOk = true ∧ safeRun n₂ ops1 = true ∧ (newRaw doc1 false).isRaw = true ∧ n₂.isRaw = false := by decide

/-- an indexed object with duplicated, deleted and empty keys is inside the theorems now: the
    18-pair object after an iteration, a soft delete and a pop still satisfies the invariant -/
example : (runM (newRaw obj18dup false) [here .iter, here (.unseti 3), here .pop, here (.set [] (num 1))]).2.repOk = true := by
  decide

end SonicSpec.Props.C15
