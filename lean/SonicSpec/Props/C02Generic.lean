/-
  C02, third Props module: the value state machine of the generic (interface{}) decoder as a decision table
  (Model/JsonGeneric.lean `gTable`, re-extracted from generic_regabi_amd64.go by the check on every run)
  accepts exactly the token-level JSON grammar within its stack budget.
-/
import SonicSpec.Proofs.JsonGeneric
namespace SonicSpec.Props.C02Generic
open SonicSpec SonicSpec.Json

/-- the table has exactly these 17 entries; every other (token, state) pair is an error
    (`_invalid_char` / `_vtype_error`) -/
theorem gtable_entries (t : GTok) (s : GState) :
    (gTable t s).isSome = true ↔
      (t = .scalar ∧ (s = .val ∨ s = .arr0)) ∨ (t = .str ∧ (s = .val ∨ s = .arr0 ∨ s = .obj0 ∨ s = .objSep)) ∨
      (t = .lb ∧ (s = .val ∨ s = .arr0)) ∨ (t = .lc ∧ (s = .val ∨ s = .arr0)) ∨ (t = .colon ∧ s = .objDelim) ∨
      (t = .comma ∧ (s = .arr ∨ s = .obj)) ∨ (t = .rb ∧ (s = .arr0 ∨ s = .arr)) ∨ (t = .rc ∧ (s = .obj0 ∨ s = .obj)) := by
  cases t <;> cases s <;> decide

/-- SOUNDNESS: whatever the machine consumes before it returns is one value of the grammar that fits -/
theorem generic_sound (B : Nat) (ts rest : List GTok) (h : gDecode B ts = .ok rest) :
    ∃ v k, ts = v ++ rest ∧ TVal k v ∧ (k = 0 ∨ 1 + k ≤ B) := by
  obtain ⟨c, rfl, v, c', k, rfl, hv, hk, hc'⟩ :=
    grun_sound B ts [.val] rest ⟨⟨by decide, by decide⟩, Or.inr (Nat.le_refl _)⟩ h
  have : c' = [] := hc'
  subst this
  exact ⟨v, k, by simp, hv, by simpa [Nat.add_comm] using hk⟩

/-- COMPLETENESS: every value of the grammar that fits is consumed exactly, whatever follows -/
theorem generic_complete (B : Nat) {k : Nat} {v : List GTok} (rest : List GTok) (hv : TVal k v)
    (hk : k = 0 ∨ 1 + k ≤ B) : gDecode B (v ++ rest) = .ok rest := by
  unfold gDecode
  rw [gval_ok B hv .val [] rest (Or.inl rfl) (by simpa [Nat.add_comm] using hk)]
  cases rest <;> rfl

/-- every step the table allows is a step of the grammar and every missing entry an error: together -/
theorem generic_accepts_iff (B : Nat) (ts rest : List GTok) :
    gDecode B ts = .ok rest ↔ ∃ v k, ts = v ++ rest ∧ TVal k v ∧ (k = 0 ∨ 1 + k ≤ B) := by
  constructor
  · exact generic_sound B ts rest
  · rintro ⟨v, k, rfl, hv, hk⟩
    exact generic_complete B rest hv hk

/-- DEPTH: a value that needs more slots than the budget allows is refused with the depth error
    (`_stack_overflow`), never anything else -/
theorem generic_too_deep (B : Nat) {k : Nat} {v : List GTok} (rest : List GTok) (hv : TVal k v)
    (hk : k ≠ 0) (hB : B < 1 + k) : gDecode B (v ++ rest) = .error .depth :=
  gval_err B hv .val [] rest (Or.inl rfl) hk (by simpa [Nat.add_comm] using hB)

/-- UNIQUE SPLIT: the grammar is prefix-free - a token stream has at most one decomposition into one
    value and a rest, so "the value the machine consumed" (`generic_sound`) is THE value at the front of
    the input and the reported end offset is determined by the input alone (no budget hypothesis) -/
theorem generic_value_unique {k k' : Nat} {v v' rest rest' : List GTok} (hv : TVal k v) (hv' : TVal k' v')
    (h : v ++ rest = v' ++ rest') : v = v' ∧ rest = rest' := by
  have h1 := generic_complete (1 + k + k') rest hv (Or.inr (by omega))
  have h2 := generic_complete (1 + k + k') rest' hv' (Or.inr (by omega))
  rw [h, h2] at h1
  have hr : rest' = rest := by injection h1
  subst hr
  exact ⟨List.append_cancel_right h, rfl⟩

/-- non-vacuity: `[ s , { str : [ ] } ]` needs 3 slots above the first -/
example : gDecode 4096 [.lb, .scalar, .comma, .lc, .str, .colon, .lb, .rb, .rc, .rb] = .ok [] := rfl
example : gDecode 3 [.lb, .scalar, .comma, .lc, .str, .colon, .lb, .rb, .rc, .rb] = .error .depth := rfl
example : gDecode 4096 [.lc, .comma, .str, .colon, .scalar, .rc] = .error .inval := rfl
example : gDecode 4096 [.lb, .scalar, .comma, .rb] = .error .inval := rfl

end SonicSpec.Props.C02Generic
