/-
  C11 - the alternative decoder is observably equivalent.

  optdec = parse the whole document to a DOM, then bind by type  (`Bind.decode`);
  jitdec = one type-directed pass over the bytes, skipping what is not stored  (`Stream.decode`).
  The equivalence theorem of the two architectures is `Props.C01.stream_eq_bind…`; this file states
  the C11 reading of it and the rejection of malformed documents by either architecture.
-/
import SonicSpec.Props.C01
import SonicSpec.Proofs.BindDom
namespace SonicSpec.Props.C11
open SonicSpec SonicSpec.Go SonicSpec.Json SonicSpec.Bind

/-- the parse-then-bind architecture returns ok on no document the strict grammar refuses -/
theorem bind_rejects_malformed (o : DecOpts) (T : GoType) (s : Bytes) (h : Json.parseDoc s = none) :
    ∀ v, Bind.decode o T s ≠ .ok v := by
  intro v hv
  have := C01.decode_ok_implies_parses o T s v hv
  simp [h] at this

/-- C11 at model level: for every VALID document, destination type and option set both architectures agree
    on error-or-not and on the decoded value (`Stream` = jitdec, `Bind` = optdec) -/
theorem decoders_agree_on_valid (o : DecOpts) (T : GoType) (s : Bytes) (h : (parseRDoc s).isSome = true) :
    Stream.decode o T s = Bind.decode o T s :=
  (C01.stream_eq_bind_partial o T s h).1

/-- ... in particular one accepts exactly when the other does, with the same value -/
theorem decoders_agree_ok (o : DecOpts) (T : GoType) (s : Bytes) (h : (parseRDoc s).isSome = true) (v : GoVal) :
    Stream.decode o T s = .ok v ↔ Bind.decode o T s = .ok v := by
  rw [decoders_agree_on_valid o T s h]

/-- the single-pass architecture returns ok on no document the structural grammar refuses -/
theorem stream_rejects_malformed (o : DecOpts) (T : GoType) (s : Bytes) (h : Stream.structuralDoc false s = false) :
    ∀ v, Stream.decode o T s ≠ .ok v := by
  intro v hv
  have := C01.stream_ok_implies_structural o T s v hv
  simp [h] at this

/-- both architectures reject every structurally malformed document (what the strict grammar accepts the
    structural grammar accepts: `Stream.skip_of_parse`) -/
theorem both_reject_malformed (o : DecOpts) (T : GoType) (s : Bytes) (h : Stream.structuralDoc false s = false) :
    (∀ v, Stream.decode o T s ≠ .ok v) ∧ (∀ v, Bind.decode o T s ≠ .ok v) := by
  refine ⟨stream_rejects_malformed o T s h, ?_⟩
  intro v hv
  have hs := C01.bind_ok_implies_stream_ok o T s v hv
  exact stream_rejects_malformed o T s h v hs

/-! ### the alternative decoder as it is built: two phases (`Opt`, Model/BindDom.lean)

  `Opt.decode q` = `parseDom` (eager DOM: numbers converted and strings un-escaped at parse time) then `bindDom`
  (range checks on the parsed class).  `Quirks.none` is the repaired optdec, `Quirks.real` the code as it is. -/

/-- REFINEMENT, full strength: on EVERY input (any option set, type, byte string) the two-phase decoder
    without quirks returns what the specification returns - same value, same error class -/
theorem optdec_eq_bind (o : DecOpts) (T : GoType) (s : Bytes) :
    Opt.decode .none o T s = Bind.decode o T s ∧ Opt.decodeFull .none o T s = Bind.decodeFull o T s :=
  ⟨Opt.decode_none_eq o T s, Opt.decodeFull_none_eq o T s⟩

/-- ... and for optdec AS IT IS under the named hypothesis that no quirk fires: the two value quirks are off
    (`nullElem`, `f32ViaF64`) and the document holds no literal that the eager conversion refuses (or raw-number
    mode is on: UseNumber with an interface{} / map[string]interface{} / []interface{} root), and the fastmap
    path is not taken -/
theorem optdec_eq_bind_partial (q : Opt.Quirks) (o : DecOpts) (T : GoType) (s : Bytes)
    (hn : q.nullElem = false) (hf : q.f32ViaF64 = false)
    (hfm : (q.fastmapNullDup && Opt.fastmapOn o T) = false)
    (hov : ∀ j, parseRDoc s = some j → (q.eagerRange && Opt.eagerMode o T && Opt.ovf o j) = false) :
    Opt.decodeFull q o T s = Bind.decodeFull o T s :=
  Opt.decodeFull_eq_of q o T s hn hf hfm hov

/-- C11 for all inputs, both architectures as models: on every document of the strict grammar the single
    pass (jitdec) and the two phases (optdec) agree on error-or-not, error class and value -/
theorem jit_eq_optdec_on_valid (o : DecOpts) (T : GoType) (s : Bytes) (h : (parseRDoc s).isSome = true) :
    Stream.decode o T s = Opt.decode .none o T s := by
  rw [(optdec_eq_bind o T s).1]
  exact decoders_agree_on_valid o T s h

/-- ... and on every other document the two-phase decoder reports a syntax error, while the single pass
    accepts at most structurally well-formed documents (the documented leniency) -/
theorem optdec_rejects_invalid (o : DecOpts) (T : GoType) (s : Bytes) (h : parseRDoc s = none) :
    Opt.decode .none o T s = .error .syntax := by
  rw [(optdec_eq_bind o T s).1]
  exact C01.bind_syntax_error o T s h

theorem optdec_rejects_malformed (o : DecOpts) (T : GoType) (s : Bytes) (h : Stream.structuralDoc false s = false) :
    ∀ v, Opt.decode .none o T s ≠ .ok v := by
  rw [(optdec_eq_bind o T s).1]
  exact (both_reject_malformed o T s h).2

/-! ### the recorded optdec findings as kernel-checked differences of `Quirks.real` -/

def bytesOf (s : String) : Bytes := s.toUTF8.toList

def isOkNum (r : Except DErr GoVal) (txt : Bytes) : Bool :=
  match r with
  | .ok (.num t) => t == txt
  | _ => false

def isErr (r : Except DErr GoVal) (e : DErr) : Bool :=
  match r with
  | .error e' => e' == e
  | _ => false

/-- C11-optdec-eager-number-range: `1e400` into json.Number - the specification keeps the text, optdec as it
    is reports a syntax error (every literal is converted at parse time) -/
theorem optdec_real_eager_range_fails :
    isOkNum (Bind.decode {} .num (bytesOf "1e400")) (bytesOf "1e400") = true ∧
    isErr (Opt.decode .real {} .num (bytesOf "1e400")) .syntax = true := by decide +kernel

/-- the same literal in a value that is only skipped (unknown field) -/
theorem optdec_real_eager_range_skipped_fails :
    (match Bind.decode {} (.st [("A", none, .int 64)]) (bytesOf "{\"A\":1,\"b\":1e400}") with
      | .ok (.st [.int 1]) => true | _ => false) = true ∧
    isErr (Opt.decode .real {} (.st [("A", none, .int 64)]) (bytesOf "{\"A\":1,\"b\":1e400}")) .syntax = true := by
  decide +kernel

/-- raw-number mode: under UseNumber the literal survives into a root interface{} but not into an
    interface{} FIELD (native.go:184 looks at the root type only) -/
theorem optdec_real_usenumber_root_only :
    (match Opt.decode .real { useNumber := true } .any (bytesOf "1e400") with
      | .ok (.any .num (.num _)) => true | _ => false) = true ∧
    isErr (Opt.decode .real { useNumber := true } (.st [("A", none, .any)]) (bytesOf "{\"A\":1e400}")) .syntax = true ∧
    (match Bind.decode { useNumber := true } (.st [("A", none, .any)]) (bytesOf "{\"A\":1e400}") with
      | .ok (.st [.any .num (.num _)]) => true | _ => false) = true := by decide +kernel

/-- C11-optdec-null-in-slice: `[1,null]` into []int64 and `{"a":null}` into map[string]string are type
    errors in optdec as it is, no-ops in the specification; []int16 and map[string]int are not affected -/
theorem optdec_real_null_elem_fails :
    (match Bind.decode {} (.sl (.int 64)) (bytesOf "[1,null]") with | .ok (.sl [.int 1, .int 0]) => true | _ => false) = true ∧
    isErr (Opt.decode .real {} (.sl (.int 64)) (bytesOf "[1,null]")) .mismatch = true ∧
    (match Bind.decode {} (.map .str .str) (bytesOf "{\"a\":null}") with | .ok (.map [(.str _, .str [])]) => true | _ => false) = true ∧
    isErr (Opt.decode .real {} (.map .str .str) (bytesOf "{\"a\":null}")) .mismatch = true ∧
    (match Opt.decode .real {} (.sl (.int 16)) (bytesOf "[1,null]") with | .ok (.sl [.int 1, .int 0]) => true | _ => false) = true ∧
    (match Opt.decode .real {} (.map .str (.int 64)) (bytesOf "{\"a\":null}") with | .ok (.map [(.str _, .int 0)]) => true | _ => false) = true := by
  decide +kernel

/-- C19-f32-double-rounding as optdec has it: float32 narrowed from the float64 of phase 1 -/
theorem optdec_real_f32_double_rounding_fails :
    (match Bind.decode {} .f32 (bytesOf "1.00000017881393432617187499") with | .ok (.f32 b) => b == 0x3f800001 | _ => false) = true ∧
    (match Opt.decode .real {} .f32 (bytesOf "1.00000017881393432617187499") with | .ok (.f32 b) => b == 0x3f800002 | _ => false) = true := by
  decide +kernel

/-- C11-fastmap-dup-key-null-keeps-value: with the fastmap path a later `null` for a key already seen inside an
    interface{} keeps the earlier value; without it (and in the specification) the value becomes nil; CopyString
    switches the path off, and the entries of a ROOT map[string]interface{} are not affected -/
theorem optdec_fastmap_dup_null_fails :
    (match Bind.decode {} .any (bytesOf "{\"a\":1,\"a\":null}") with
      | .ok (.any _ (.map [(.str _, .nil)])) => true | _ => false) = true ∧
    (match Opt.decode .real {} .any (bytesOf "{\"a\":1,\"a\":null}") with
      | .ok (.any _ (.map [(.str _, .nil)])) => true | _ => false) = true ∧
    (match Opt.decode .realFastmap {} .any (bytesOf "{\"a\":1,\"a\":null}") with
      | .ok (.any _ (.map [(.str _, .any .f64 _)])) => true | _ => false) = true ∧
    (match Opt.decode .realFastmap { copyString := true } .any (bytesOf "{\"a\":1,\"a\":null}") with
      | .ok (.any _ (.map [(.str _, .nil)])) => true | _ => false) = true ∧
    (match Opt.decode .realFastmap {} (.map .str .any) (bytesOf "{\"a\":1,\"a\":null}") with
      | .ok (.map [(.str _, .nil)]) => true | _ => false) = true := by decide +kernel

/-- non-vacuity of the refinement: a document with numbers of every class, strings with escapes, nesting and a
    mismatch goes through both phases to the same result as through the specification -/
example : (match Opt.decodeFull .none {} C01.exT C01.exDoc with
    | (v, some .mismatch) => C01.isEx v 8
    | _ => false) = true := by decide +kernel

end SonicSpec.Props.C11
