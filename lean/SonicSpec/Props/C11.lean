/-
  C11 - the alternative decoder is observably equivalent.

  optdec = parse the whole document to a DOM, then bind by type  (`Bind.decode`);
  jitdec = one type-directed pass over the bytes, skipping what is not stored  (`Stream.decode`).
  The equivalence theorem of the two architectures is `Props.C01.stream_eq_bind…`; this file states
  the C11 reading of it and the rejection of malformed documents by either architecture.
-/
import SonicSpec.Props.C01
namespace SonicSpec.Props.C11
open SonicSpec SonicSpec.Go SonicSpec.Json SonicSpec.Bind

/-- the parse-then-bind architecture returns ok on no document the strict grammar refuses -/
theorem bind_rejects_malformed (o : DecOpts) (T : GoType) (s : Bytes) (h : Json.parseDoc s = none) :
    ∀ v, Bind.decode o T s ≠ .ok v := by
  intro v hv
  have := C01.decode_ok_implies_parses o T s v hv
  simp [h] at this

/-- C11 at model level: for every VALID document, destination type and option set both architectures agree
    on error-or-not and on the decoded value (`Stream` = jitdec, `Bind` = optdec) -/
theorem decoders_agree_on_valid (o : DecOpts) (T : GoType) (s : Bytes) (h : (parseRDoc s).isSome = true) :
    Stream.decode o T s = Bind.decode o T s :=
  (C01.stream_eq_bind_partial o T s h).1

/-- ... in particular one accepts exactly when the other does, with the same value -/
theorem decoders_agree_ok (o : DecOpts) (T : GoType) (s : Bytes) (h : (parseRDoc s).isSome = true) (v : GoVal) :
    Stream.decode o T s = .ok v ↔ Bind.decode o T s = .ok v := by
  rw [decoders_agree_on_valid o T s h]

/-- the single-pass architecture returns ok on no document the structural grammar refuses -/
theorem stream_rejects_malformed (o : DecOpts) (T : GoType) (s : Bytes) (h : Stream.structuralDoc false s = false) :
    ∀ v, Stream.decode o T s ≠ .ok v := by
  intro v hv
  have := C01.stream_ok_implies_structural o T s v hv
  simp [h] at this

/-- both architectures reject every structurally malformed document (what the strict grammar accepts the
    structural grammar accepts: `Stream.skip_of_parse`) -/
theorem both_reject_malformed (o : DecOpts) (T : GoType) (s : Bytes) (h : Stream.structuralDoc false s = false) :
    (∀ v, Stream.decode o T s ≠ .ok v) ∧ (∀ v, Bind.decode o T s ≠ .ok v) := by
  refine ⟨stream_rejects_malformed o T s h, ?_⟩
  intro v hv
  have hs := C01.bind_ok_implies_stream_ok o T s v hv
  exact stream_rejects_malformed o T s h v hs

end SonicSpec.Props.C11
