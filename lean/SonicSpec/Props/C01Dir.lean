/-
  C01 / C11, deep part (work package `dir`): the JIT decoder's own program.

  Model.  `Dir.compile : COpts → GoType → Program` (Model/DirCompile.lean) is a transliteration of
  internal/decoder/jitdec/compiler.go, tied to the REAL compiler by exact equality of the disassembly on generated types
  (op `dirdis`, hook internal/decoder/jitdec/verif_hook.go).  `Dir.run` / `Dir.execFuel` (Model/DirExec.lean) is the abstract
  machine: the meaning of the instructions after the code the assembler emits for each, over the input cursor, a destination
  cursor (a path into the destination value), the value stack and the saved type error; tied to the real machine code by the
  differential run (op `dirun`).  `Dir.exec o co lim P s dest` is its result as a function (Proofs/DirCorrect.lean).

  COMPILER CORRECTNESS, the statement wanted:

      exec o (compile T) s (zero T)  ≈  Stream.decode o T s            (`ExecCompileEqStream` below)

  where `≈` compares acceptance and the value (`Except.toOption`): the machine ends some failing runs at once where the
  single-pass specification saves the error and goes on (range errors of the narrow integer kinds, unknown fields under
  DisallowUnknownFields), so error KINDS are not compared.  `Stream.decode` is proved equal to the encoding/json-style
  specification `Bind.decode` on every document that parses (Props/C01 `stream_eq_bind_partial`), which chains the machine to
  the specification of the property.

  Proved, on the sub-universe (`Dir.Sub`: bool, the integer and float kinds, strings, interface{} (`_OP_any`, the generic
  decoder specified as parse-then-`toAny`), pointers, slices, fixed arrays (`_OP_array_skip` / `_OP_array_clear`), structs with
  tags - in place or, nested beyond MaxInlineDepth, through `_OP_recurse`; floats through the exact conversion of core C):
  `exec_compile_eq_stream_partial` - every document the specification ACCEPTS is accepted by the compiled program with the
  same value, from any value stack, which is left as found (`value_stack_balanced`);
  `exec_compile_eq_stream_valid_partial` - on every document of the strict JSON grammar both directions: the program accepts
  exactly what the specification accepts (`exec_compile_eq_stream_unless_syntax_partial`: more generally whenever the
  specification reports no syntax error).  NOT proved: that the program refuses the documents OUTSIDE the grammar on which
  the specification reports a syntax error; it needs the same simulation read on failing runs plus the fact that the
  specification's fuel (`length + 1`) never runs out before the machine stops.
  Kinds still outside `Sub`: maps inside other types and maps with a repeated key (`exec_compile_eq_stream_map_partial` covers
  map[string]E at the top with pairwise different keys; with a repeated key the statement is false, below), `,string` fields
  (false, below), integer / float / TextUnmarshaler map keys (the machine runs them - `intKeyOp`, `floatKeyOp`, `textKeyOp` in
  Model/DirExec.lean, tied by the differential run only), json.Number, []byte, named types (callbacks; `Stream.decode` itself answers
  `outside` there, also for the recursive library types reached through `_OP_recurse`).  The full statement does not
  hold on the faithful model outside the sub-universe: `map_dup_key_deviates`, `string_opt_deviates`
  (`exec_compile_eq_stream_fails`); both are listed findings of C01 (C01-map-dup-key-merges-element,
  C01-string-opt-number-content), here located in the program: the first is the order `map_key` → decode-in-place, the second
  the in-place `_OP_i64` + `match_char '"'` of compileStructFieldStr.

  REFUSING.  `exec_refuses_stream_refuses_partial`: an error of the program implies an error of the specification, on every
  document; `refuses_iff_stream_refuses_valid_partial` / `..._unless_syntax_partial`: both directions where the specification has
  no syntax error.  The error CLASS is not carried and cannot be: `error_class_deviates`, `same_error_class_fails` (inside the
  sub-universe; `[300, }` into []int8 is a type error for the program and a syntax error for the specification).

  NAMED POINTER TYPES (finding C09-jitdec-namedptr-inline-depth).  The compile model knows `type DirRef *MV` (tied by
  disassembly like the rest); the machine runs `_OP_unmarshal_p` for the library's MV.  `namedptr_inline_depth_fails`: the same
  type compiled at MaxInlineDepth 3 and 8 gives two different values on the same document (`namedptr_programs_differ`: one
  program defers to the method, the other calls nothing); `namedptr_field_is_unnamed`: as a struct field the type loses its name,
  and `field_defined_pointer_type_fails` (finding C01-field-defined-pointer-type-calls-elem-unmarshaler): there the element's
  method is called at every depth, where the field-by-field decoding of the plain pointer-to-struct gives another value.
-/
import SonicSpec.Proofs.DirDepth
import SonicSpec.Proofs.DirMap
namespace SonicSpec.Props.C01Dir
open SonicSpec SonicSpec.Go SonicSpec.Json SonicSpec.Bind SonicSpec.Dir

/-- the stack limit of the machine is the decoder's `_MaxStack`, which is also `consts.MaxStack` -/
theorem max_stack_consts_agree : Gen.decJitMaxStack = Gen.decMaxStack ∧ Dir.maxStack = Gen.decMaxStack.toNat := by
  decide

/-- the full statement: the compiled program of every type accepts exactly the documents the single-pass specification
    accepts, with the same value -/
def ExecCompileEqStream : Prop :=
  ∀ (T : GoType) (o : DecOpts) (co : COpts) (s : Bytes), 0 < co.maxInlineDepth →
    (exec o co none (compile co T) s (zeroOf T)).toOption = (Stream.decode o T s).toOption

/-- COMPILER CORRECTNESS (partial: sub-universe; the accepting direction).  Whatever the single-pass specification decodes
    from a document into a zero value of `T`, the program `compile T` decodes: same value, no error.  Any decoder options,
    any `MaxInlineDepth >= 1` (structs nested deeper run through `_OP_recurse` into their own program). -/
theorem exec_compile_eq_stream_partial (o : DecOpts) (co : COpts) (T : GoType) (s : Bytes) (v : GoVal)
    (hco : 0 < co.maxInlineDepth) (hT : Sub T = true) (h : Stream.decode o T s = .ok v) :
    exec o co none (compile co T) s (zeroOf T) = .ok v :=
  exec_of_stream_ok hco hT h

/-- COMPILER CORRECTNESS ON VALID DOCUMENTS (sub-universe; both directions).  On every document of the strict JSON grammar
    (`Bind.parseRDoc`, the grammar of encoding/json's `checkValid`) the program accepts exactly when the single-pass
    specification does, with the same value - and there the specification IS the encoding/json-style two-pass specification
    `Bind.decode` (Props/C01 `stream_eq_bind_partial`).  What stays open for the full statement: documents outside the grammar
    on which the specification reports a syntax error (the program is not shown to refuse them). -/
theorem exec_compile_eq_stream_valid_partial (o : DecOpts) (co : COpts) (T : GoType) (s : Bytes) (j : RVal)
    (hco : 0 < co.maxInlineDepth) (hT : Sub T = true) (hj : parseRDoc s = some j) :
    (exec o co none (compile co T) s (zeroOf T)).toOption = (Stream.decode o T s).toOption ∧
    Stream.decode o T s = Bind.decode o T s :=
  ⟨exec_toOption_of_parses hco hT hj, Stream.decode_eq o T s j hj⟩

/-- the same whenever the specification gets through the value without a syntax error (it may have saved a type error;
    anything may follow the value): the refusing direction needs no more than that -/
theorem exec_compile_eq_stream_unless_syntax_partial (o : DecOpts) (co : COpts) (T : GoType) (s : Bytes) (v : GoVal) (e : Option DErr) (r : Bytes)
    (hco : 0 < co.maxInlineDepth) (hT : Sub T = true)
    (hd : Stream.decodeVal o (s.length + 1) T (skipWs s) (zeroOf T) = .ok (v, e, r)) :
    (exec o co none (compile co T) s (zeroOf T)).toOption = (Stream.decode o T s).toOption :=
  exec_toOption_of_decodeVal hco hT hd

/-- THE REFUSING DIRECTION, one half for EVERY document (sub-universe): whenever the program reports an error, the specification
    refuses the document as well (the accepting direction read backwards).  Open: the converse on documents outside the grammar
    on which the specification reports a syntax error. -/
theorem exec_refuses_stream_refuses_partial (o : DecOpts) (co : COpts) (T : GoType) (s : Bytes) (x : XErr)
    (hco : 0 < co.maxInlineDepth) (hT : Sub T = true) (h : exec o co none (compile co T) s (zeroOf T) = .error x) :
    ∃ e, Stream.decode o T s = .error e := by
  cases hd : Stream.decode o T s with
  | error e => exact ⟨e, rfl⟩
  | ok v => rw [exec_of_stream_ok hco hT hd] at h; cases h

/-- THE REFUSING DIRECTION (sub-universe, documents of the strict grammar): the program refuses exactly when the specification
    refuses.  Rejection is carried as well as acceptance; the error CLASS is not (`same_error_class_fails`). -/
theorem refuses_iff_stream_refuses_valid_partial (o : DecOpts) (co : COpts) (T : GoType) (s : Bytes) (j : RVal)
    (hco : 0 < co.maxInlineDepth) (hT : Sub T = true) (hj : parseRDoc s = some j) :
    (∃ x, exec o co none (compile co T) s (zeroOf T) = .error x) ↔ (∃ e, Stream.decode o T s = .error e) := by
  have h := exec_toOption_of_parses (o := o) hco hT hj
  generalize exec o co none (compile co T) s (zeroOf T) = a at h
  generalize Stream.decode o T s = b at h
  cases a <;> cases b <;> simp [Except.toOption] at h ⊢

/-- ... and likewise whenever the specification gets through the value without a syntax error -/
theorem refuses_iff_stream_refuses_unless_syntax_partial (o : DecOpts) (co : COpts) (T : GoType) (s : Bytes) (v : GoVal) (e : Option DErr)
    (r : Bytes) (hco : 0 < co.maxInlineDepth) (hT : Sub T = true)
    (hd : Stream.decodeVal o (s.length + 1) T (skipWs s) (zeroOf T) = .ok (v, e, r)) :
    (∃ x, exec o co none (compile co T) s (zeroOf T) = .error x) ↔ (∃ e, Stream.decode o T s = .error e) := by
  have h := exec_toOption_of_decodeVal (o := o) hco hT hd
  generalize exec o co none (compile co T) s (zeroOf T) = a at h
  generalize Stream.decode o T s = b at h
  cases a <;> cases b <;> simp [Except.toOption] at h ⊢

/-- the full refusing statement with classes: every decoding error of the program is the specification's error -/
def SameErrorClass : Prop :=
  ∀ (T : GoType) (o : DecOpts) (co : COpts) (s : Bytes) (e : DErr), 0 < co.maxInlineDepth → Sub T = true →
    exec o co none (compile co T) s (zeroOf T) = .error (.dec e) → Stream.decode o T s = .error e

/-- MAPS (partial: map[string]E at the top, E in the sub-universe, no key of the top-level object twice - `Dir.freshDoc`, decided
    along the specification's own run).  The program decodes an element INTO the entry `_OP_map_key_str` finds or makes; as long
    as every key is new that entry is a fresh zero value, which is what the specification decodes into. -/
theorem exec_compile_eq_stream_map_partial (o : DecOpts) (co : COpts) (E : GoType) (s : Bytes) (v : GoVal)
    (hco : 0 < co.maxInlineDepth) (hE : Sub E = true) (hf : freshDoc o E s = true) (h : Stream.decode o (.map .str E) s = .ok v) :
    exec o co none (compile co (.map .str E)) s .nil = .ok v :=
  exec_of_stream_ok_map hco hE h hf

/-- ... and with the real value stack of `_MaxStack` slots the same, unless the nesting-depth error is raised -/
theorem exec_bounded_partial (o : DecOpts) (co : COpts) (T : GoType) (s : Bytes) (v : GoVal) (L : Nat)
    (hco : 0 < co.maxInlineDepth) (hT : Sub T = true) (h : Stream.decode o T s = .ok v) (n : Nat) (res : Except XErr GoVal)
    (hr : execFuel n o co (some L) (compile co T) s (zeroOf T) = some res) :
    res = .ok v ∨ res = .error .depth := by
  unfold execFuel at hr
  cases hrun : run o co (some L) n (compile co T) 0 (St.start s (zeroOf T)) with
  | none => rw [hrun] at hr; cases hr
  | some out =>
    rw [hrun] at hr
    simp only [Option.map] at hr
    injection hr with hr
    rcases run_bounded (o := o) (co := co) L n _ _ _ _ hrun with hd | hn
    · subst hd; subst hr; exact Or.inr rfl
    · left
      have h1 := exec_eq_of_fuel (o := o) (co := co) (lim := none) (n := n) (res := finish out) (by unfold execFuel; rw [hn]; rfl)
      rw [exec_of_stream_ok hco hT h] at h1
      rw [← hr, ← h1]

/-- SAVE / DROP DISCIPLINE: started on any value stack, the program of a value returns with exactly that stack (and the
    specification's value stored, no error saved) -/
theorem value_stack_balanced (o : DecOpts) (co : COpts) (T : GoType) (s : Bytes) (v : GoVal) (stk : List Frame)
    (hco : 0 < co.maxInlineDepth) (hT : Sub T = true) (h : Stream.decode o T s = .ok v) :
    ∃ σ', Halts o co none (compile co T) 0 { St.start s (zeroOf T) with stack := stk } (.ok σ') ∧
      σ'.stack = stk ∧ σ'.root = v ∧ σ'.et = none := by
  obtain ⟨σ', r, hh, _, _, h2, h3, h4⟩ := run_compile_ok (co := co) hco hT h stk
  exact ⟨σ', hh, h4, h2, h3⟩

/-- STACK LIMIT: (1) `_OP_save` on a full value stack is the nesting-depth error (`_stack_error`), whatever else the state is;
    (2) no instruction, and (3) no run - calls through `_OP_recurse` included - takes a stack of at most `L` slots beyond `L`:
    `_Stack.sb[_MaxStack]` is never indexed out of bounds; (4) the bounded machine differs from the unbounded one by that
    error only. -/
theorem depth_error (o : DecOpts) (co : COpts) (L : Nat) :
    (∀ (enter : Bool) (pc : Nat) (σ : St), L ≤ σ.stack.length → step o (some L) (.save enter) pc σ = .err .depth) ∧
    (∀ (ins : Instr) (pc pc' : Nat) (σ σ' : St), σ.stack.length ≤ L → step o (some L) ins pc σ = .next pc' σ' → σ'.stack.length ≤ L) ∧
    (∀ (n : Nat) (P : Program) (pc : Nat) (σ σ' : St), σ.stack.length ≤ L → run o co (some L) n P pc σ = some (.ok σ') → σ'.stack.length ≤ L) ∧
    (∀ (n : Nat) (P : Program) (pc : Nat) (σ : St) (out : Out), run o co (some L) n P pc σ = some out →
      out = .error .depth ∨ run o co none n P pc σ = some out) :=
  ⟨fun enter pc σ h => save_full L enter pc σ h, fun ins pc pc' σ σ' hs h => step_stack_le L ins pc pc' σ σ' hs h,
   fun n P pc σ σ' hs h => run_stack_le L n P pc σ σ' hs h, fun n P pc σ out h => run_bounded L n P pc σ out h⟩

/-! ### where the full statement fails (outside the sub-universe), on the faithful model -/

def tMap : GoType := .map .str (.int 64)
def dDup : Bytes := ascii "{\"a\":1,\"a\":null}"

/-- the value of the first entry of a map of integers -/
def firstInt : GoVal → Option Int
  | .map ((_, .int n) :: _) => some n
  | _ => none

/-- map[string]int, `{"a":1,"a":null}`: the program decodes the second element INTO the entry the first one made
    (`_OP_map_key_str` returns the slot, the element code runs on it, `null` leaves an integer alone): 1.  The specification,
    like encoding/json, decodes every element into a fresh zero value: 0.  Known finding C01-map-dup-key-merges-element. -/
theorem map_dup_key_deviates :
    ∃ v w, exec {} {} (some maxStack) (compile {} tMap) dDup (zeroOf tMap) = .ok v ∧ Stream.decode {} tMap dDup = .ok w ∧
      firstInt v = some 1 ∧ firstInt w = some 0 := by
  obtain ⟨v, hv, pv⟩ := exec_ok_of (o := {}) (co := {}) (lim := some maxStack) (P := compile {} tMap) (s := dDup) (dest := zeroOf tMap) (n := 200)
    (fun v => firstInt v == some 1) (by decide +kernel)
  obtain ⟨w, hw, pw⟩ := stream_ok_of (o := {}) (T := tMap) (s := dDup) (fun v => firstInt v == some 0) (by decide +kernel)
  exact ⟨v, w, hv, hw, by simpa using pv, by simpa using pw⟩

def tStrOpt : GoType := .st [("A", some (ascii "a,string"), .int 64)]
def dStrOpt : Bytes := ascii "{\"a\":\"01\"}"

/-- `,string` on an integer field, `{"a":"01"}`: the program reads the number in place behind the quote (`_OP_i64`: `0`) and
    then wants the closing quote (`_OP_match_char`): a syntax error.  The specification, like encoding/json, unquotes the
    string and hands `01` to strconv: 1.  Known finding C01-string-opt-number-content. -/
theorem string_opt_deviates :
    exec {} {} (some maxStack) (compile {} tStrOpt) dStrOpt (zeroOf tStrOpt) = .error (.dec .syntax) ∧
    ∃ w, Stream.decode {} tStrOpt dStrOpt = .ok w := by
  constructor
  · have h : (match execFuel 200 {} {} (some maxStack) (compile {} tStrOpt) dStrOpt (zeroOf tStrOpt) with
        | some (.error (.dec .syntax)) => true
        | _ => false) = true := by decide +kernel
    cases hq : execFuel 200 {} {} (some maxStack) (compile {} tStrOpt) dStrOpt (zeroOf tStrOpt) with
    | none => rw [hq] at h; cases h
    | some r =>
      rw [hq] at h
      cases r with
      | ok v => cases h
      | error x =>
        cases x with
        | dec e => cases e <;> first | exact exec_eq_of_fuel hq | cases h
        | depth => cases h
        | stuck => cases h
  · obtain ⟨w, hw, _⟩ := stream_ok_of (o := {}) (T := tStrOpt) (s := dStrOpt) (fun _ => true) (by decide +kernel)
    exact ⟨w, hw⟩

/-- ERROR CLASSES DIFFER, inside the sub-universe.  `[300, }` into []int8 and `{"A":300,}` into struct{A int8}:
    `_OP_i8` stops the run at the value out of range (a type error, immediately), the specification - like encoding/json, which
    checks the syntax of the whole document first - reports the syntax error behind it.  This is the real decoder's behaviour
    (dirun: sonic=mismatch, encoding/json=syntax); the `bind` streams of C01 judge it. -/
theorem error_class_deviates :
    exec {} {} none (compile {} (.sl (.int 8))) (ascii "[300, }") (zeroOf (.sl (.int 8))) = .error (.dec .mismatch) ∧
    Stream.decode {} (.sl (.int 8)) (ascii "[300, }") = .error .syntax ∧
    exec {} {} none (compile {} (.st [("A", none, .int 8)])) (ascii "{\"A\":300,}") (zeroOf (.st [("A", none, .int 8)])) = .error (.dec .mismatch) ∧
    Stream.decode {} (.st [("A", none, .int 8)]) (ascii "{\"A\":300,}") = .error .syntax :=
  ⟨exec_err_of (n := 200) _ (by decide +kernel), stream_err_of _ (by decide +kernel),
    exec_err_of (n := 200) _ (by decide +kernel), stream_err_of _ (by decide +kernel)⟩

theorem same_error_class_fails : ¬ SameErrorClass := by
  intro h
  have h1 := h (.sl (.int 8)) {} {} (ascii "[300, }") .mismatch (by decide) (by decide +kernel) error_class_deviates.1
  rw [error_class_deviates.2.1] at h1
  cases h1

/-- the full statement does not hold for the faithful model (the deviation above is in the real program) -/
theorem exec_compile_eq_stream_fails : ¬ ExecCompileEqStream := by
  intro h
  have h1 := h tStrOpt {} {} dStrOpt (by decide)
  obtain ⟨w, hw⟩ := string_opt_deviates.2
  rw [hw] at h1
  have h2 : (match execFuel 200 {} {} none (compile {} tStrOpt) dStrOpt (zeroOf tStrOpt) with
      | some (.error (.dec .syntax)) => true
      | _ => false) = true := by decide +kernel
  cases hq : execFuel 200 {} {} none (compile {} tStrOpt) dStrOpt (zeroOf tStrOpt) with
  | none => rw [hq] at h2; cases h2
  | some r =>
    rw [exec_eq_of_fuel hq] at h1
    rw [hq] at h2
    cases r with
    | ok v => cases h2
    | error x => cases h1

/-! ### the recorded finding C09-jitdec-namedptr-inline-depth, on the model

  `type DirRef *MV` (go/harness/ops_dir_hook.go), `(*MV).UnmarshalJSON` reads `{"mv":N}` into V.  DirRef is of pointer kind and has
  no methods, so compilePtr's `checkMarshaler` finds nothing and the element struct MV is compiled by compileOps: field by field
  in place while `sp < MaxInlineDepth`, `_OP_recurse MV` beyond - and the program of MV, compiled by compileOne, is
  `lspace; unmarshal_p *MV`, the method.  Same type, same document, same destination, two inline depths, two values.
  (encoding/json decodes a DirRef element field by field; so does the real decoder up to the bound: `[{"V":5}]` into [1]DirRef
  gives V=5 on both, `[[[{"V":5}]]]` into [1][1][1]DirRef gives V=0 with sonic and V=5 with encoding/json - dirun on the
  unchanged tree.) -/

def tC09 : GoType := .arr 1 (.arr 1 (.arr 1 (.lib "DirRef")))
def dC09 : Bytes := ascii "[[[{\"V\":5}]]]"
/-- the destination: the pointer already points to an MV{V:7} (a named struct value is `(st (i V))` in the machine) -/
def destC09 : GoVal := .arr [.arr [.arr [.ptr (.st [.int 7])]]]
def innerV : GoVal → Option Int
  | .arr [.arr [.arr [.ptr (.st [.int v])]]] => some v
  | _ => none

def isRecurseMV : Instr → Bool
  | .recurse (.lib "MV") => true
  | _ => false
def isCallback : Instr → Bool
  | .recurse _ | .unmarshal _ _ | .unmarshalP _ _ | .unmarshalText _ _ | .unmarshalTextP _ _ | .dyn _ _ => true
  | _ => false

/-- the two programs: at the default depth the element is deferred to the program of MV, which is the method call; at depth 8
    nothing is deferred and no method is called anywhere -/
theorem namedptr_programs_differ :
    (compile {} tC09).any isRecurseMV = true ∧
    (match compile {} (.lib "MV") with
      | [.lspace, .unmarshalP (.ptr (.lib "MV")) 0] => true
      | _ => false) = true ∧
    (compile { maxInlineDepth := 8 } tC09).any isCallback = false := by decide +kernel

/-- `…_fails` witness for "the inline depth is an optimisation only": the same type compiled at two inline depths executes
    differently - V = 0 (the method ran and found no "mv") at the default depth 3, V = 5 (the field was set in place) at depth 8 -/
theorem namedptr_inline_depth_fails :
    ∃ v w, exec {} {} (some maxStack) (compile {} tC09) dC09 destC09 = .ok v ∧
      exec {} { maxInlineDepth := 8 } (some maxStack) (compile { maxInlineDepth := 8 } tC09) dC09 destC09 = .ok w ∧
      innerV v = some 0 ∧ innerV w = some 5 := by
  obtain ⟨v, hv, pv⟩ := exec_ok_of (o := {}) (co := {}) (lim := some maxStack) (P := compile {} tC09) (s := dC09) (dest := destC09) (n := 500)
    (fun v => innerV v == some 0) (by decide +kernel)
  obtain ⟨w, hw, pw⟩ := exec_ok_of (o := {}) (co := { maxInlineDepth := 8 }) (lim := some maxStack) (P := compile { maxInlineDepth := 8 } tC09)
    (s := dC09) (dest := destC09) (n := 500) (fun v => innerV v == some 5) (by decide +kernel)
  exact ⟨v, w, hv, hw, by simpa using pv, by simpa using pw⟩

/-- a struct FIELD of the defined pointer type is compiled as the unnamed `*MV` (resolver.go:168 puts the pointer together again
    with `reflect.PtrTo`): there the method IS called, at every depth -/
theorem namedptr_field_is_unnamed :
    ((compile {} (.st [("A", none, .lib "DirRef")])).any fun i => match i with
      | .unmarshal (.ptr (.lib "MV")) 0 => true
      | _ => false) = true ∧
    ((compile { maxInlineDepth := 8 } (.st [("A", none, .lib "DirRef")])).any fun i => match i with
      | .unmarshal (.ptr (.lib "MV")) 0 => true
      | _ => false) = true := by decide +kernel

/-! ### finding C01-field-defined-pointer-type-calls-elem-unmarshaler, on the model -/

def tFieldRef : GoType := .st [("A", none, .lib "DirRef")]
/-- what encoding/json sees in `struct{ A DirRef }`: a pointer to a struct with the field V, no methods involved -/
def tFieldPlain : GoType := .st [("A", none, .ptr (.st [("V", none, .int 64)]))]
def dFieldRef : Bytes := ascii "{\"A\":{\"V\":5}}"
def fieldV : GoVal → Option Int
  | .st [.ptr (.st [.int v])] => some v
  | _ => none

/-- `…_fails` witness for "a field of a defined pointer type is decoded like the pointer to the plain struct it is"
    (encoding/json: the defined type has no methods, the element is decoded field by field): `{"A":{"V":5}}` into
    struct{A DirRef} from the zero value.  The program of the compiler - `namedptr_field_is_unnamed`: `_OP_unmarshal *MV`, because
    resolver.go:168 rebuilt the field type with reflect.PtrTo - hands the text to (*MV).UnmarshalJSON, which knows only "mv":
    V = 0, at every inline depth; the field-by-field decoding of the specification gives V = 5. -/
theorem field_defined_pointer_type_fails :
    ∃ v v' w, exec {} {} (some maxStack) (compile {} tFieldRef) dFieldRef (zeroOf tFieldRef) = .ok v ∧
      exec {} { maxInlineDepth := 8 } (some maxStack) (compile { maxInlineDepth := 8 } tFieldRef) dFieldRef (zeroOf tFieldRef) = .ok v' ∧
      Stream.decode {} tFieldPlain dFieldRef = .ok w ∧
      fieldV v = some 0 ∧ fieldV v' = some 0 ∧ fieldV w = some 5 := by
  obtain ⟨v, hv, pv⟩ := exec_ok_of (o := {}) (co := {}) (lim := some maxStack) (P := compile {} tFieldRef) (s := dFieldRef)
    (dest := zeroOf tFieldRef) (n := 500) (fun v => fieldV v == some 0) (by decide +kernel)
  obtain ⟨v', hv', pv'⟩ := exec_ok_of (o := {}) (co := { maxInlineDepth := 8 }) (lim := some maxStack) (P := compile { maxInlineDepth := 8 } tFieldRef)
    (s := dFieldRef) (dest := zeroOf tFieldRef) (n := 500) (fun v => fieldV v == some 0) (by decide +kernel)
  obtain ⟨w, hw, pw⟩ := stream_ok_of (o := {}) (T := tFieldPlain) (s := dFieldRef) (fun v => fieldV v == some 5) (by decide +kernel)
  exact ⟨v, v', w, hv, hv', hw, by simpa using pv, by simpa using pv', by simpa using pw⟩

/-- a value nested deeper than the value stack: the run ends in the nesting-depth error (with a stack of 2 slots,
    `[[[1]]]` into [][][]int64), while the specification - like encoding/json, which only has its 10000-level limit - decodes -/
theorem too_deep_witness :
    exec {} {} (some 2) (compile {} (.sl (.sl (.sl (.int 64))))) (ascii "[[[1]]]") .nil = .error .depth ∧
    ∃ w, Stream.decode {} (.sl (.sl (.sl (.int 64)))) (ascii "[[[1]]]") = .ok w := by
  constructor
  · have h : (match execFuel 300 {} {} (some 2) (compile {} (.sl (.sl (.sl (.int 64))))) (ascii "[[[1]]]") .nil with
        | some (.error .depth) => true
        | _ => false) = true := by decide +kernel
    cases hq : execFuel 300 {} {} (some 2) (compile {} (.sl (.sl (.sl (.int 64))))) (ascii "[[[1]]]") .nil with
    | none => rw [hq] at h; cases h
    | some r =>
      rw [hq] at h
      cases r with
      | ok v => cases h
      | error x =>
        cases x with
        | dec e => cases h
        | depth => exact exec_eq_of_fuel hq
        | stuck => cases h
  · obtain ⟨w, hw, _⟩ := stream_ok_of (o := {}) (T := .sl (.sl (.sl (.int 64)))) (s := ascii "[[[1]]]") (fun _ => true) (by decide +kernel)
    exact ⟨w, hw⟩

/-! ### non-vacuity -/

/-- a type with every constructor of the sub-universe: tags, a field hidden by `-`, a pointer chain, slices of structs, a
    fixed array, a struct nested beyond the default MaxInlineDepth (3) so that `_OP_recurse` appears -/
def tDemo : GoType :=
  .st [("A", some (ascii "a"), .int 8), ("B", none, .ptr (.ptr .str)), ("H", some (ascii "-"), .bool),
       ("C", some (ascii "c,omitempty"), .sl (.st [("X", none, .uint 16), ("Y", none, .bool)])),
       ("D", none, .arr 3 (.int 64)), ("N", none, .f64), ("M", some (ascii "m"), .ptr .f32), ("I", some (ascii "i"), .any),
       ("E", none, .st [("F", none, .st [("G", none, .st [("K", none, .st [("L", none, .uint 64)])])])])]

/-- a document with an unknown field, a duplicate key, nulls, an array shorter than the destination, whitespace -/
def dDemo : Bytes :=
  ascii "{ \"a\": -128, \"zz\": [1, {\"q\": null}], \"B\": \"x\\ny\", \"c\": [ {\"X\": 65535, \"Y\": true}, {}, null ], \"D\": [7, 8], \"N\": 1.5, \"m\": -2.5e3, \"i\": [true, {\"k\": \"v\"}], \"a\": 5, \"E\": {\"F\": {\"G\": {\"K\": {\"L\": 18446744073709551615}}}}, \"H\": true }"

/-- the same with a mismatching value (a string for the integer): accepted by neither side -/
def dDemoBad : Bytes := ascii "{\"a\": \"x\", \"D\": [1]}"

def isDemo : GoVal → Bool
  | .st [.int 5, .ptr (.ptr (.str s)), .bool false, .sl [.st [.uint 65535, .bool true], .st [.uint 0, .bool false], .st [.uint 0, .bool false]],
         .arr [.int 7, .int 8, .int 0], .f64 0x3FF8000000000000, .ptr (.f32 0xC51C4000),
         .any (.sl .any) (.sl [.any .bool (.bool true), .any (.map .str .any) (.map [(.str _, .any .str (.str _))])]), .st [.st [.st [.st [.uint 18446744073709551615]]]]] => s == ascii "x\ny"
  | _ => false

/-- the hypotheses of `exec_compile_eq_stream_partial` hold for it ... -/
example : Sub tDemo = true ∧ (0 < ({} : COpts).maxInlineDepth) := by decide +kernel
/-- ... the specification accepts the document with the expected value ... -/
example : (match Stream.decode {} tDemo dDemo with | .ok v => isDemo v | _ => false) = true := by decide +kernel
/-- ... and so does the machine with the real stack limit, computed independently -/
example : (match execFuel 3000 {} {} (some maxStack) (compile {} tDemo) dDemo (zeroOf tDemo) with
    | some (.ok v) => isDemo v
    | _ => false) = true := by decide +kernel
/-- the struct nested four deep is compiled out of line (`_OP_recurse`), the others in place -/
example : ((compile {} tDemo).any fun i => match i with | .recurse (.st _) => true | _ => false) = true ∧
    ((compile { maxInlineDepth := 9 } tDemo).any fun i => match i with | .recurse _ => true | _ => false) = false := by decide +kernel
/-- the mismatch is an error on both sides (the machine saves it, skips the value and goes on to the end) -/
example : (match Stream.decode {} tDemo dDemoBad with | .error .mismatch => true | _ => false) = true ∧
    (match execFuel 3000 {} {} (some maxStack) (compile {} tDemo) dDemoBad (zeroOf tDemo) with
      | some (.error (.dec .mismatch)) => true
      | _ => false) = true := by decide +kernel
/-- a map of slices with pairwise different keys: the hypotheses of `exec_compile_eq_stream_map_partial` hold, both sides agree -/
example : Sub (.sl (.int 64)) = true ∧ freshDoc {} (.sl (.int 64)) (ascii "{\"a\": [1, 2], \"b\": [], \"\": null}") = true ∧
    freshDoc {} (.int 64) dDup = false := by decide +kernel
example : (match Stream.decode {} (.map .str (.sl (.int 64))) (ascii "{\"a\": [1, 2], \"b\": [], \"\": null}") with
      | .ok (.map [(_, .sl [.int 1, .int 2]), (_, .sl []), (_, .nil)]) => true
      | _ => false) = true ∧
    (match execFuel 1000 {} {} (some maxStack) (compile {} (.map .str (.sl (.int 64)))) (ascii "{\"a\": [1, 2], \"b\": [], \"\": null}") .nil with
      | some (.ok (.map [(_, .sl [.int 1, .int 2]), (_, .sl []), (_, .nil)])) => true
      | _ => false) = true := by decide +kernel

/-- maps INSIDE other types (struct field, slice element, map value) are not covered by a theorem yet; on this document with
    pairwise different keys the program and the specification agree (what the general statement would say) -/
def tNest : GoType := .st [("M", none, .map .str (.sl (.int 64))), ("L", none, .sl (.map .str (.int 64))), ("N", none, .map .str (.map .str .bool))]
def dNest : Bytes := ascii "{\"M\": {\"a\": [1], \"b\": null}, \"L\": [{\"x\": 1}, {}, {\"x\": 2, \"y\": 3}], \"N\": {\"p\": {\"q\": true}}}"
def isNest : GoVal → Bool
  | .st [.map [(_, .sl [.int 1]), (_, .nil)], .sl [.map [(_, .int 1)], .map [], .map [(_, .int 2), (_, .int 3)]], .map [(_, .map [(_, .bool true)])]] => true
  | _ => false
example : (match Stream.decode {} tNest dNest with | .ok v => isNest v | _ => false) = true ∧
    (match execFuel 2000 {} {} (some maxStack) (compile {} tNest) dNest (zeroOf tNest) with
      | some (.ok v) => isNest v
      | _ => false) = true := by decide +kernel

/-- DisallowUnknownFields: the specification saves the error, the machine stops at the key - both refuse -/
example : (match Stream.decode { disallowUnknown := true } tDemo dDemo with | .error .unknownField => true | _ => false) = true ∧
    (match execFuel 3000 { disallowUnknown := true } {} (some maxStack) (compile {} tDemo) dDemo (zeroOf tDemo) with
      | some (.error (.dec .unknownField)) => true
      | _ => false) = true := by decide +kernel

end SonicSpec.Props.C01Dir
