/-
  C02, second Props module: the native skip/validate stack machine as a fuel-free transition system
  (Model/JsonMachine.lean) refines the grammar - by an invariant that reads the frame stack as the
  context of a recursive descent (`Conts`: every frame stands for the right-linear nonterminal that is
  still open), not by bounded evaluation.
-/
import SonicSpec.Model.JsonMachine
import SonicSpec.Proofs.JsonFsm
import SonicSpec.Proofs.JsonGrammar
import SonicSpec.Proofs.JsonTotal
import SonicSpec.Props.C02
import SonicSpec.Proofs.JsonTreeGrammar
namespace SonicSpec.Props.C02Fsm
open SonicSpec SonicSpec.Json

variable {B : Nat} {m : StrMode}

/-! ## the relation and the big-step reading used in the proofs are the same thing -/

theorem reach_runs {c : Cfg} {res : Res} : ∀ {a : Cfg}, Reach B m a c → Runs B m c.st c.rest res → Runs B m a.st a.rest res := by
  intro a h
  induction h with
  | refl _ => exact id
  | head ht _ ih =>
    intro hr
    cases ht with
    | turn hstep => exact Runs.next hstep (ih hr)

theorem runs_ok_reach {st : List Frame} {s : Bytes} {res : Res} (h : Runs B m st s res) :
    ∀ r, res = .ok r → Reach B m ⟨st, s⟩ ⟨[], r⟩ := by
  induction h with
  | done s => intro r e; cases e; exact .refl _
  | next hstep _ ih => intro r e; exact .head (.turn hstep) (ih r e)
  | fail _ => intro r e; cases e

theorem runs_err_reach {st : List Frame} {s : Bytes} {res : Res} (h : Runs B m st s res) :
    ∀ e p, res = .err e p → ∃ c, Reach B m ⟨st, s⟩ c ∧ Stuck B m c e p := by
  induction h with
  | done s => intro e p h; cases h
  | next hstep _ ih =>
    intro e p h
    obtain ⟨c, hc, hs⟩ := ih e p h
    exact ⟨c, .head (.turn hstep) hc, hs⟩
  | fail hstep => intro e p h; cases h; exact ⟨_, .refl _, .turn hstep⟩

/-- the fuel-bounded function computes a run of the relation (its fuel is never what stops it) -/
theorem run_runs : ∀ (n : Nat) (st : List Frame) (s : Bytes) (res : Res), s.length < n →
    run B m n st st.length s = res → Runs B m st s res := by
  intro n
  induction n with
  | zero => intro st s res h; omega
  | succ n ih =>
    intro st s res hn h
    cases st with
    | nil => simp only [run] at h; subst h; exact .done s
    | cons f st' =>
      rw [run] at h
      have e : (f :: st').length - 1 = st'.length := by simp
      rw [e] at h
      cases hstep : step B m f st' st'.length s with
      | fail e2 p2 => rw [hstep] at h; simp only at h; subst h; exact .fail hstep
      | next st2 sp2 r2 =>
        rw [hstep] at h
        simp only at h
        obtain ⟨rfl, hlt⟩ := step_progress hstep
        exact .next hstep (ih st2 r2 res (by omega) h)

/-- REFINEMENT 1: machine = function.  `skipOne` (what the driver runs, what `validB` is made of) answers
    `ok r` exactly when the transition system empties its stack with `r` unread ... -/
theorem fsm_ok_iff_skipOne (s r : Bytes) : FsmOk B m s r ↔ skipOne B m s = .ok r := by
  constructor
  · intro h
    exact runs_skipOne (reach_runs (c := ⟨[], r⟩) h (Runs.done r))
  · intro h
    exact runs_ok_reach (run_runs _ [.val] s _ (Nat.lt_succ_self _) h) r rfl

/-- ... and an error exactly when the machine reaches a turn that returns it -/
theorem fsm_err_iff_skipOne (s : Bytes) (e : Err) : FsmErr B m s e ↔ ∃ p, skipOne B m s = .err e p := by
  constructor
  · rintro ⟨c, p, hr, hs⟩
    cases hs with
    | turn hstep => exact ⟨p, runs_skipOne (reach_runs hr (Runs.fail hstep))⟩
  · rintro ⟨p, h⟩
    obtain ⟨c, hc, hs⟩ := runs_err_reach (run_runs _ [.val] s _ (Nat.lt_succ_self _) h) e p rfl
    exact ⟨c, p, hc, hs⟩

/-- the machine is deterministic -/
theorem fsm_deterministic {a b c : Cfg} (h1 : Trans B m a b) (h2 : Trans B m a c) : b = c := by
  cases h1 with
  | turn s1 =>
    cases h2 with
    | turn s2 => rw [s1] at s2; cases s2; rfl

/-- every turn consumes input: the machine terminates on every byte string -/
theorem fsm_turn_consumes {a b : Cfg} (h : Trans B m a b) : b.rest.length < a.rest.length := by
  cases h with
  | turn hstep => exact (step_progress hstep).2

/-! ## the machine against the grammar -/

/-- REFINEMENT 2 (the statement asked for): the stack machine accepts exactly what `validB` accepts -/
theorem fsm_accepts_iff_validB (B : Nat) (s : Bytes) : FsmAccepts B s ↔ validB B s = true := by
  cases s with
  | nil => simp [FsmAccepts, validB]
  | cons c t =>
    unfold FsmAccepts
    simp only [ne_eq, reduceCtorEq, not_false_eq_true, true_and, validB]
    constructor
    · rintro ⟨r, hr, hsp⟩
      rw [(fsm_ok_iff_skipOne _ r).mp hr]
      exact (C02.allSpaceB_iff r).mpr hsp
    · intro h
      cases hs : skipOne B .dflt (c :: t) with
      | err e p => rw [hs] at h; cases h
      | ok r =>
        rw [hs] at h
        exact ⟨r, (fsm_ok_iff_skipOne _ r).mpr hs, (C02.allSpaceB_iff r).mp h⟩

/-- ... which is: space, one structural value that needs at most `B` frames, space - at every depth up to
    the bound -/
theorem fsm_accepts_iff_grammar (B : Nat) (s : Bytes) : FsmAccepts B s ↔ ∃ k, k ≤ B ∧ Structural.docN k s := by
  rw [fsm_accepts_iff_validB, C02.validB_eq, C02.accepts_iff_structural]

/-- beyond the bound the machine answers with the depth error (and so never accepts), for every scanner -/
theorem fsm_depth_error (B : Nat) (m : StrMode) {k : Nat} {s : Bytes} (h : Strict.docN k s) (hk : B < k) :
    FsmErr B m s .recurse := by
  cases h with
  | mk w v w' k hw hv hw' =>
    exact (fsm_err_iff_skipOne _ _).mpr (C02.validate_depth B m hv hk hw (numEnd_ws hw'))

theorem fsm_depth_error_structural (B : Nat) {k : Nat} {s : Bytes} (h : Structural.docN k s) (hk : B < k) :
    FsmErr B .dflt s .recurse ∧ ¬ FsmAccepts B s := by
  cases h with
  | mk w v w' k hw hv hw' =>
    obtain ⟨p, hp⟩ := C02.validate_depth_structural B hv hk hw (numEnd_ws hw')
    refine ⟨(fsm_err_iff_skipOne _ _).mpr ⟨p, hp⟩, ?_⟩
    rintro ⟨_, r, hr, _⟩
    rw [(fsm_ok_iff_skipOne _ r).mp hr] at hp
    cases hp

/-! ## the invariant: a frame stack is a recursive-descent context

`Conts SB B st c` (Proofs/JsonFsm.lean) reads the stack as the list of nonterminals a recursive descent
would still have open - `FSM_VAL` = "a value", `FSM_ARR_0` = "what may follow `[`", `FSM_ARR` = "what may
follow an element", `FSM_OBJ_0`/`FSM_OBJ` likewise, `FSM_KEY` = "key `:` value", `FSM_ELEM` = "`:` value" -
with the frame budget of each.  A configuration empties its stack on exactly the texts of that context. -/

/-- frames that stand for "a value comes next" sit directly on what the value belongs to: nothing (the
    initial VAL), an array or an object frame.  Every stack the machine builds has this shape. -/
def okOn (f : Frame) (st : List Frame) : Prop :=
  match f with
  | .val => st = [] ∨ (∃ t, st = .arr :: t) ∨ (∃ t, st = .obj :: t)
  | .elem => ∃ t, st = .obj :: t
  | .key => ∃ t, st = .obj :: t
  | _ => True

def WfStack : List Frame → Prop
  | [] => True
  | f :: st => okOn f st ∧ WfStack st

theorem conts_numEnd {SB : Bytes → Prop} {f : Frame} {st : List Frame} {c r : Bytes}
    (hf : f = .val ∨ f = .elem ∨ f = .key) (hok : okOn f st) (hc : Conts SB B st c) (hr : NumEnd r) : NumEnd (c ++ r) := by
  have key : st = [] ∨ (∃ t, st = .arr :: t) ∨ (∃ t, st = .obj :: t) := by
    rcases hf with rfl | rfl | rfl
    · exact hok
    · exact Or.inr (Or.inr hok)
    · exact Or.inr (Or.inr hok)
  rcases key with rfl | ⟨t, rfl⟩ | ⟨t, rfl⟩
  · have : c = [] := hc
    subst this; simpa using hr
  · obtain ⟨t1, c', k, rfl, ht, _, _⟩ := hc
    rw [List.append_assoc]; exact arrTail_numEnd _ ht
  · obtain ⟨t1, c', k, rfl, ht, _, _⟩ := hc
    rw [List.append_assoc]; exact objTail_numEnd _ ht

/-- context ⇒ run (default scanner, whole structural grammar) -/
theorem conts_runs : ∀ (st : List Frame) (c r : Bytes), WfStack st → st.length ≤ B ∨ st = [.val] →
    Conts LaxBody B st c → NumEnd r → Runs B .dflt st (c ++ r) (.ok r) := by
  have hc : ∀ b r, LaxBody b → scanStr .dflt (b ++ 34 :: r) = .ok r := fun _ r hb => strDefault_complete r hb
  intro st
  induction st with
  | nil => intro c r _ _ h _; have : c = [] := h; subst this; exact .done r
  | cons f st ih =>
    intro c r hwf hinv h hr
    obtain ⟨hok, hwf'⟩ := hwf
    have hst : st.length ≤ B := inv_tail hinv
    have ih' := fun c' (h' : Conts LaxBody B st c') => ih c' r hwf' (Or.inl hst) h' hr
    cases f with
    | val =>
      obtain ⟨w, v, c', k, rfl, hw, hv, hk, hc'⟩ := h
      have := cval_ok hc hv st w (c' ++ r) _ hw (conts_numEnd (Or.inl rfl) hok hc' hr) hk (ih' c' hc')
      simpa [List.append_assoc] using this
    | arr0 =>
      obtain ⟨t, c', k, rfl, ht, hk, hc'⟩ := h
      have := carrBody_ok hc ht st (c' ++ r) _ hk (ih' c' hc')
      simpa [List.append_assoc] using this
    | arr =>
      obtain ⟨t, c', k, rfl, ht, hk, hc'⟩ := h
      have := carrTail_ok hc ht st (c' ++ r) _ hk (ih' c' hc')
      simpa [List.append_assoc] using this
    | obj0 =>
      obtain ⟨t, c', k, rfl, ht, hk, hc'⟩ := h
      have := cobjBody_ok hc ht st (c' ++ r) _ hk (ih' c' hc')
      simpa [List.append_assoc] using this
    | obj =>
      obtain ⟨t, c', k, rfl, ht, hk, hc'⟩ := h
      have := cobjTail_ok hc ht st (c' ++ r) _ hk (ih' c' hc')
      simpa [List.append_assoc] using this
    | elem =>
      obtain ⟨w, w', v, c', k, rfl, hw, hw', hv, hk, hc'⟩ := h
      have hv' := cval_ok hc hv st w' (c' ++ r) _ hw' (conts_numEnd (Or.inr (Or.inl rfl)) hok hc' hr) hk (ih' c' hc')
      refine Runs.next (st2 := .val :: st) (sp2 := st.length + 1) (r2 := w' ++ (v ++ (c' ++ r))) ?_ hv'
      unfold step
      rw [List.append_assoc, List.cons_append, advanceNs_ws _ hw (by decide) (by decide)]
      simp [List.append_assoc]
    | key =>
      obtain ⟨w, kb, w1, w', v, c', k, rfl, hw, hkb, hw1, hw', hv, hk, hc'⟩ := h
      have hv' := cval_ok hc hv st w' (c' ++ r) _ hw' (conts_numEnd (Or.inr (Or.inr rfl)) hok hc' hr) hk (ih' c' hc')
      have hs := hc kb (w1 ++ 58 :: (w' ++ (v ++ (c' ++ r)))) hkb
      refine Runs.next (st2 := .elem :: st) (sp2 := st.length + 1) (r2 := w1 ++ 58 :: (w' ++ (v ++ (c' ++ r)))) ?_ ?_
      · unfold step
        rw [List.append_assoc, List.cons_append, advanceNs_ws _ hw (by decide) (by decide)]
        simp only [List.append_assoc, List.cons_append] at hs ⊢
        simp [hs, Step.ofRes]
      · refine Runs.next (st2 := .val :: st) (sp2 := st.length + 1) (r2 := w' ++ (v ++ (c' ++ r))) ?_ hv'
        unfold step
        rw [advanceNs_ws _ hw1 (by decide) (by decide)]
        simp

/-- REFINEMENT 3 (the invariant, both directions, for every reachable-shaped stack): the configuration
    `(st, s)` runs to the empty stack leaving `r` iff `s` is a text of the recursive-descent context `st`
    followed by `r` (`r` not continuing a number) -/
theorem fsm_config_iff (st : List Frame) (s r : Bytes) (hwf : WfStack st) (hinv : st.length ≤ B ∨ st = [.val])
    (hr : NumEnd r) :
    Reach B .dflt ⟨st, s⟩ ⟨[], r⟩ ↔ ∃ c, s = c ++ r ∧ Conts LaxBody B st c := by
  constructor
  · intro h
    have h1 := runs_run (reach_runs (c := ⟨[], r⟩) h (Runs.done r)) (s.length + 1) (Nat.lt_succ_self _)
    exact run_sound LaxBody (fun _ _ => scanStr_sound .dflt) _ st s r hinv h1
  · rintro ⟨c, rfl, hc⟩
    exact runs_ok_reach (conts_runs st c r hwf hinv hc hr) r rfl

/-- the machine only ever builds stacks of that shape -/
theorem fsm_keeps_shape {a b : Cfg} (h : Trans B m a b) (hwf : WfStack a.st) : WfStack b.st := by
  cases h with
  | @turn f st st2 sp2 s r2 hstep =>
    obtain ⟨hok, hwf'⟩ := hwf
    unfold step at hstep
    cases ha : advanceNs s with
    | none => rw [ha] at hstep; cases hstep
    | some p =>
      obtain ⟨ch, r0⟩ := p
      rw [ha] at hstep
      simp only at hstep
      have hval : ∀ {st0 : List Frame} {sp : Nat}, WfStack st0 → value B m st0 sp ch r0 = .next st2 sp2 r2 → WfStack st2 := by
        intro st0 sp h0 hv
        rcases value_next LaxBody (fun _ _ => scanStr_sound m) hv with ⟨rfl, _, _⟩ | ⟨_, rfl, _⟩ | ⟨_, rfl, _⟩
        · exact h0
        · exact ⟨trivial, h0⟩
        · exact ⟨trivial, h0⟩
      cases f with
      | val => exact hval hwf' hstep
      | arr =>
        simp only at hstep
        repeat' split at hstep
        all_goals first
          | (cases hstep; done)
          | (simp only [Step.next.injEq] at hstep; obtain ⟨rfl, _, _⟩ := hstep
             first | exact hwf' | exact ⟨Or.inr (Or.inl ⟨_, rfl⟩), trivial, hwf'⟩)
      | obj =>
        simp only at hstep
        repeat' split at hstep
        all_goals first
          | (cases hstep; done)
          | (simp only [Step.next.injEq] at hstep; obtain ⟨rfl, _, _⟩ := hstep
             first | exact hwf' | exact ⟨⟨_, rfl⟩, trivial, hwf'⟩)
      | key =>
        simp only at hstep
        split at hstep
        · obtain ⟨_, rfl, _⟩ := ofRes_next hstep
          exact ⟨hok, hwf'⟩
        · cases hstep
      | elem =>
        simp only at hstep
        split at hstep
        · simp only [Step.next.injEq] at hstep; obtain ⟨rfl, _, _⟩ := hstep
          obtain ⟨t, rfl⟩ := hok
          exact ⟨Or.inr (Or.inr ⟨_, rfl⟩), hwf'⟩
        · cases hstep
      | arr0 =>
        simp only at hstep
        split at hstep
        · simp only [Step.next.injEq] at hstep; obtain ⟨rfl, _, _⟩ := hstep; exact hwf'
        · exact hval (st0 := .arr :: st) ⟨trivial, hwf'⟩ hstep
      | obj0 =>
        simp only at hstep
        split at hstep
        · simp only [Step.next.injEq] at hstep; obtain ⟨rfl, _, _⟩ := hstep; exact hwf'
        · split at hstep
          · cases hr : scanStr m r0 with
            | err e p => rw [hr] at hstep; cases hstep
            | ok r' =>
              rw [hr] at hstep
              simp only at hstep
              split at hstep
              · simp only [Step.next.injEq] at hstep; obtain ⟨rfl, _, _⟩ := hstep
                exact ⟨⟨_, rfl⟩, trivial, hwf'⟩
              · cases hstep
          · cases hstep

/-! ## the shared recursive-descent parser (`Json.parseDoc`, the tree model the other properties use)

A real recursive descent over bytes (fuel-structured mutual functions `parseVal/parseElems/parseMembers`
with `skipWs`, `scanString`, `scanNumber`).  It accepts exactly the Strict grammar, hence exactly what the
stack machine with the strict scanner accepts at unbounded depth, and everything it accepts within 4096
frames is accepted by the machine behind sonic.Valid. -/

/-- REFINEMENT 4: recursive descent = Strict grammar, for every byte string -/
theorem parseDoc_iff_strict (s : Bytes) : (parseDoc s).isSome = true ↔ Strict.doc s :=
  Json.parseDoc_iff_strict s

/-- recursive descent = stack machine (strict scanner, budget larger than the text) -/
theorem fsm_iff_parseDoc (s : Bytes) :
    unmarshalSkipB (s.length + 1) .strict s = true ↔ (parseDoc s).isSome = true := by
  rw [C02.decide_strict, Json.parseDoc_iff_strict]

/-- what the tree model parses is accepted by the machine behind sonic.Valid whenever it fits the frame
    budget, and is refused with the depth error otherwise - never for any other reason -/
theorem parseDoc_valid {s : Bytes} {v : JVal} (h : parseDoc s = some v) :
    ∃ k, Strict.docN k s ∧ (k ≤ 4096 → FsmAccepts 4096 s) ∧ (4096 < k → FsmErr 4096 .dflt s .recurse) := by
  obtain ⟨k, hd⟩ := Json.parseDoc_sound h
  refine ⟨k, hd, fun hk => ?_, fun hk => fsm_depth_error 4096 .dflt hd hk⟩
  exact (fsm_accepts_iff_grammar 4096 s).mpr ⟨k, hk, C02.strict_sub_structural hd⟩

end SonicSpec.Props.C02Fsm
