/-
  C13 - "Forcing the SSE routines (SONIC_MODE=noavx2) instead of the AVX2 ones does not change the result of
  any public API call on any input: parsing, validation, skipping, searching, quoting, unquoting, HTML
  escaping, UTF-8 validation and number formatting are bit-identical across instruction sets."

  The AVX2 and the SSE build of a native routine are the same C source with a different list of block
  widths (Model/MemScan.lean, `Widths.avx2` / `Widths.sse`) and a different load granularity (one 32-byte
  load vs two 16-byte loads: Props/C05.lean `load_granularity_irrelevant`).  `width_irrelevant`: for EVERY two
  lists of widths the block-wise scanner gives the same answer, namely the scalar twin's (`Ws = []`), on every
  mapped input - stated for memories and, in the shape `∀ W₁ W₂, scan [W₁] s = scan [W₂] s = scalar s`, for
  byte lists.

  Where the faithful model makes the statement false it is refuted on a witness and the true part is kept
  as `…_partial`:
  * advance_string_default tests an uninitialised `ch` when the scalar tail is empty: width-irrelevant only
    when that variable does not hold a quote (both builds have the same widths there, so this is a C02 defect,
    not a difference between the builds);  its `*ep` side result is width dependent (never observable as a value);
  * do_skip_number reports a width-dependent error POSITION for numbers with two defects (known finding
    C13-skipnum-errpos, the AVX2 and SSE builds do differ there).
-/
import SonicSpec.Model.MemScan
import SonicSpec.Proofs.Mem
import SonicSpec.Proofs.MemScan
import SonicSpec.Proofs.MemCt
import SonicSpec.Proofs.MemApi
import SonicSpec.Proofs.MemNum2
import SonicSpec.Proofs.MemStrQuote
import SonicSpec.Proofs.MemStrHtml
import SonicSpec.Proofs.MemStrUnq
import SonicSpec.Proofs.MemStrUtf8
namespace SonicSpec.Props.C13
open SonicSpec SonicSpec.Mem
set_option linter.unusedSimpArgs false

theorem ofList_mapped (s : Bytes) : ∀ i, i < s.length → ofList s i ≠ none := by
  intro i hi
  simp [ofList, hi]

/-! ### first byte of a class: space skipping (lspace), special-byte search (memcchr_quote, memcchr_html_quote,
    memcchr_p32) -/

theorem findSpecial_width_irrelevant (special : UInt8 → Bool) (Ws₁ Ws₂ : List Nat) (m : Mem) (base len p : Nat)
    (h : Mapped m base len) :
    findSpecial special Ws₁ (view m base) len p = findSpecial special Ws₂ (view m base) len p ∧
    findSpecial special Ws₁ (view m base) len p = findSpecial special [] (view m base) len p := by
  rw [findSpecial_eq_scalar (rd := view m base) len special h Ws₁ p, findSpecial_eq_scalar (rd := view m base) len special h Ws₂ p]
  exact ⟨rfl, rfl⟩

/-- what the scalar twin computes: `p` plus the length of the longest run of ordinary bytes from `p` on -/
theorem findSpecial_scalar_spec (special : UInt8 → Bool) (s : Bytes) (p : Nat) :
    findSpecial special [] (ofList s) s.length p =
      some (p + ((s.drop p).takeWhile (fun c => !special c)).length) := by
  simp only [findSpecial, Scan.run.eq_1, findScan]
  fun_induction scalarLoop (findStep special) (fun _ off => off) (ofList s) s.length () p with
  | case1 st off hlt hb => simp [ofList, hlt] at hb
  | case2 st off hlt b hb r hs =>
    simp only [ofList, List.getElem?_eq_getElem hlt, Option.some.injEq] at hb
    simp only [findStep] at hs
    split at hs
    · cases hs
      rw [List.drop_eq_getElem_cons hlt, hb]
      simp [*]
    · cases hs
  | case3 st off hlt b hb st' hs ih =>
    simp only [ofList, List.getElem?_eq_getElem hlt, Option.some.injEq] at hb
    simp only [findStep] at hs
    split at hs
    · cases hs
    · rw [ih, List.drop_eq_getElem_cons hlt, hb]
      simp only [*, Bool.not_false, List.takeWhile_cons_of_pos, List.length_cons]
      congr 1
      omega
  | case4 st off hlt =>
    have : s.drop off = [] := List.drop_eq_nil_of_le (by omega)
    simp [this]

theorem lspace_width_irrelevant (Ws₁ Ws₂ : List Nat) (m : Mem) (base len p : Nat) (h : Mapped m base len) :
    lspace Ws₁ (view m base) len p = lspace Ws₂ (view m base) len p ∧
    lspace Ws₁ (view m base) len p = lspace [] (view m base) len p :=
  findSpecial_width_irrelevant _ Ws₁ Ws₂ m base len p h

/-- the two builds of lspace: 32-byte rounds (AVX2) vs none (SSE) -/
theorem lspace_avx2_eq_sse (m : Mem) (base len p : Nat) (h : Mapped m base len) :
    lspace Widths.avx2.lspace (view m base) len p = lspace Widths.sse.lspace (view m base) len p :=
  (lspace_width_irrelevant _ _ m base len p h).1

/-- the shape of the brief, on byte lists: any two widths, and the scalar twin -/
theorem lspace_width_irrelevant_list (W₁ W₂ : Nat) (s : Bytes) (p : Nat) :
    lspace [W₁] (ofList s) s.length p = lspace [W₂] (ofList s) s.length p ∧
    lspace [W₁] (ofList s) s.length p = lspace [] (ofList s) s.length p := by
  simp only [lspace]
  rw [findSpecial_eq_scalar s.length _ (ofList_mapped s) [W₁] p, findSpecial_eq_scalar s.length _ (ofList_mapped s) [W₂] p]
  exact ⟨rfl, rfl⟩

/-- memcchr_quote / memcchr_html_quote / memcchr_p32: AVX2 `[32, 16]` vs SSE `[16]` -/
theorem specialSearch_avx2_eq_sse (special : UInt8 → Bool) (m : Mem) (base len p : Nat) (h : Mapped m base len) :
    findSpecial special Widths.avx2.find (view m base) len p = findSpecial special Widths.sse.find (view m base) len p :=
  (findSpecial_width_irrelevant special _ _ m base len p h).1

theorem specialSearch_width_irrelevant_list (special : UInt8 → Bool) (W₁ W₂ : Nat) (s : Bytes) (p : Nat) :
    findSpecial special [W₁] (ofList s) s.length p = findSpecial special [W₂] (ofList s) s.length p ∧
    findSpecial special [W₁] (ofList s) s.length p = findSpecial special [] (ofList s) s.length p := by
  rw [findSpecial_eq_scalar s.length _ (ofList_mapped s) [W₁] p, findSpecial_eq_scalar s.length _ (ofList_mapped s) [W₂] p]
  exact ⟨rfl, rfl⟩

/-! ### string-end search with escape carry across blocks -/

/-- skip_string_fast: full statement -/
theorem skipStringFast_width_irrelevant (Ws₁ Ws₂ : List Nat) (m : Mem) (base len p : Nat) (h : Mapped m base len) :
    skipStringFast Ws₁ (view m base) len p = skipStringFast Ws₂ (view m base) len p ∧
    skipStringFast Ws₁ (view m base) len p = skipStringFast [] (view m base) len p := by
  rw [skipStringFast_eq_scalar (rd := view m base) len h Ws₁ p, skipStringFast_eq_scalar (rd := view m base) len h Ws₂ p]
  exact ⟨rfl, rfl⟩

theorem skipStringFast_width_irrelevant_list (W₁ W₂ : Nat) (s : Bytes) (p : Nat) :
    skipStringFast [W₁] (ofList s) s.length p = skipStringFast [W₂] (ofList s) s.length p ∧
    skipStringFast [W₁] (ofList s) s.length p = skipStringFast [] (ofList s) s.length p := by
  rw [skipStringFast_eq_scalar s.length (ofList_mapped s) [W₁] p, skipStringFast_eq_scalar s.length (ofList_mapped s) [W₂] p]
  exact ⟨rfl, rfl⟩

/-- advance_string_default: the returned position is width independent PROVIDED the uninitialised `ch` does not
    hold a quote (partial: the hypothesis `ch0 ≠ 34`, and the statement is about the position, not about `*ep`) -/
theorem advStr_width_irrelevant_partial (ch0 : UInt8) (hch : ch0 ≠ 34) (Ws₁ Ws₂ : List Nat) (m : Mem)
    (base len p : Nat) (h : Mapped m base len) :
    (advStr ch0 Ws₁ (view m base) len p).map StrRes.pos = (advStr ch0 Ws₂ (view m base) len p).map StrRes.pos ∧
    (advStr ch0 Ws₁ (view m base) len p).map StrRes.pos = (advStr ch0 [] (view m base) len p).map StrRes.pos := by
  rw [advStr_pos_eq_scalar (rd := view m base) len h ch0 hch Ws₁ p, advStr_pos_eq_scalar (rd := view m base) len h ch0 hch Ws₂ p]
  exact ⟨rfl, rfl⟩

theorem advStr_width_irrelevant_partial_list (ch0 : UInt8) (hch : ch0 ≠ 34) (W₁ W₂ : Nat) (s : Bytes) (p : Nat) :
    (advStr ch0 [W₁] (ofList s) s.length p).map StrRes.pos = (advStr ch0 [W₂] (ofList s) s.length p).map StrRes.pos ∧
    (advStr ch0 [W₁] (ofList s) s.length p).map StrRes.pos = (advStr ch0 [] (ofList s) s.length p).map StrRes.pos := by
  rw [advStr_pos_eq_scalar s.length (ofList_mapped s) ch0 hch [W₁] p,
      advStr_pos_eq_scalar s.length (ofList_mapped s) ch0 hch [W₂] p]
  exact ⟨rfl, rfl⟩

/-- without the hypothesis the statement is FALSE: on the unterminated body `xx`, scanned in one 2-byte round, the
    empty scalar tail tests the stale `ch`; if it holds a quote the string is "terminated" at its end
    (DESIGN §8 #11: body length a positive multiple of the last round's width) -/
theorem advStr_width_relevant_uninit :
    ¬ (∀ (ch0 : UInt8) (Ws : List Nat) (s : Bytes) (p : Nat),
        (advStr ch0 Ws (ofList s) s.length p).map StrRes.pos = (advStr ch0 [] (ofList s) s.length p).map StrRes.pos) := by
  intro h
  have := h 34 [2] [120, 120] 0
  simp [advStr, strScan, Scan.run, scalarLoop, loadW, ofList, strBlk, strStep, strEof, escMask, ctz, StrRes.pos] at this

/-- the `*ep` side result (first backslash) IS width dependent: a round sets it from the whole block, including
    a backslash behind the closing quote (it only steers copy-vs-reference in the callers, never a value) -/
theorem advStr_ep_width_dependent :
    ¬ (∀ (Ws : List Nat) (s : Bytes) (p : Nat), advStr 0 Ws (ofList s) s.length p = advStr 0 [] (ofList s) s.length p) := by
  intro h
  have := h [4] [97, 34, 92, 98] 0
  simp [advStr, strScan, Scan.run, scalarLoop, loadW, ofList, strBlk, strStep, escMask, ctz, epSet] at this

/-! ### bracket counting -/

/-- skip_container_fast (64-byte rounds in both builds, as 2x32 resp. 4x16 loads; padded / over-reading last block)
    = its scalar twin, byte by byte, on every mapped input in page-granular memory -/
theorem skipContainerFast_eq_scalar (lc rc : UInt8) (m : Mem) (base len p : Nat) (hg : PageGranular m)
    (h : Mapped m base len) :
    skipContainerFast base lc rc (view m base) len p = ctScalar lc rc (view m base) len ⟨false, false, 0, 0⟩ p :=
  skipContainerFast_eq_scalar' lc rc hg h p

/-- any widths for the scanner with a plain scalar tail -/
theorem bracketCount_width_irrelevant (lc rc : UInt8) (Ws₁ Ws₂ : List Nat) (m : Mem) (base len p : Nat) (st : CtSt)
    (h : Mapped m base len) :
    (ctScalarScan lc rc).run (view m base) len Ws₁ st p = (ctScalarScan lc rc).run (view m base) len Ws₂ st p ∧
    (ctScalarScan lc rc).run (view m base) len Ws₁ st p = ctScalar lc rc (view m base) len st p := by
  have e : ∀ Ws, (ctScalarScan lc rc).run (view m base) len Ws st p = ctScalar lc rc (view m base) len st p :=
    fun Ws => run_eq_scalar (ctScalarScan lc rc) (step := ctStepO lc rc) (eof := fun _ _ => none) rfl
      (fun st off bs => ctBlkO_eq_fold lc rc bs st off) len Ws st p h
  rw [e Ws₁, e Ws₂]
  exact ⟨rfl, rfl⟩

/-! ### number skipping -/

/-- do_skip_number: the error POSITION depends on the block width.  `1e1e1.1.` in one 8-byte round: the round
    reports the second `.` (index 7) before it looks at the exponent letters; 4-byte rounds and the scalar
    code report the second `e` (index 3).  (Known finding C13-skipnum-errpos; AVX2 = `[32,16]`, SSE = `[16]`.) -/
theorem doSkipNumber_errpos_width_dependent :
    ¬ (∀ (Ws₁ Ws₂ : List Nat) (s : Bytes),
        doSkipNumber Ws₁ (ofList s) s.length = doSkipNumber Ws₂ (ofList s) s.length) := by
  intro h
  have := h [8] [4] [49, 101, 49, 101, 49, 46, 49, 46]
  simp [doSkipNumber, numScan, Scan.run, scalarLoop, loadW, ofList, numBlk, numCut, numStep, ctz, second, vidx, sidx,
    isNumCh, isDigit, isDot, isExp, isSign, checkIndex] at this

/-- what does hold (partial: everything except the error position): every list of block widths accepts exactly
    the numbers the scalar code accepts, and with the same length -/
theorem doSkipNumber_width_irrelevant_partial (Ws₁ Ws₂ : List Nat) (m : Mem) (base nb : Nat) (h : Mapped m base nb) :
    (doSkipNumber Ws₁ (view m base) nb).map accept = (doSkipNumber Ws₂ (view m base) nb).map accept ∧
    (doSkipNumber Ws₁ (view m base) nb).map accept = (doSkipNumber [] (view m base) nb).map accept := by
  rw [doSkipNumber_accept_eq_scalar (rd := view m base) nb h Ws₁, doSkipNumber_accept_eq_scalar (rd := view m base) nb h Ws₂]
  exact ⟨rfl, rfl⟩

/-- the two builds of do_skip_number -/
theorem doSkipNumber_avx2_eq_sse_partial (m : Mem) (base nb : Nat) (h : Mapped m base nb) :
    (doSkipNumber Widths.avx2.num (view m base) nb).map accept = (doSkipNumber Widths.sse.num (view m base) nb).map accept :=
  (doSkipNumber_width_irrelevant_partial _ _ m base nb h).1

theorem doSkipNumber_width_irrelevant_partial_list (W₁ W₂ : Nat) (s : Bytes) :
    (doSkipNumber [W₁] (ofList s) s.length).map accept = (doSkipNumber [W₂] (ofList s) s.length).map accept ∧
    (doSkipNumber [W₁] (ofList s) s.length).map accept = (doSkipNumber [] (ofList s) s.length).map accept := by
  rw [doSkipNumber_accept_eq_scalar s.length (ofList_mapped s) [W₁], doSkipNumber_accept_eq_scalar s.length (ofList_mapped s) [W₂]]
  exact ⟨rfl, rfl⟩

/-! ### UTF-8 fast path -/

/-- the ASCII fast path of the UTF-8 validator (native/utf8.h: whole blocks without a byte ≥ 0x80 are skipped) is a
    special-byte search for the first non-ASCII byte: any widths, same position -/
theorem asciiPrefix_width_irrelevant (Ws₁ Ws₂ : List Nat) (m : Mem) (base len p : Nat) (h : Mapped m base len) :
    asciiPrefix Ws₁ (view m base) len p = asciiPrefix Ws₂ (view m base) len p ∧
    asciiPrefix Ws₁ (view m base) len p = asciiPrefix [] (view m base) len p :=
  findSpecial_width_irrelevant _ Ws₁ Ws₂ m base len p h

/-! ### non-vacuity -/

/-- blocks of 2 and of 3 bytes and the scalar loop all stop at the `1` behind five blanks -/
example : lspace [2] (ofList [32, 32, 32, 32, 32, 49]) 6 0 = some 5 := by
  simp [lspace, findSpecial, findScan, Scan.run, scalarLoop, loadW, ofList, findBlk, ctz, findStep, isSpace]
example : lspace [3] (ofList [32, 32, 32, 32, 32, 49]) 6 0 = some 5 := by
  simp [lspace, findSpecial, findScan, Scan.run, scalarLoop, loadW, ofList, findBlk, ctz, findStep, isSpace]
example : lspace [] (ofList [32, 32, 32, 32, 32, 49]) 6 0 = some 5 := by
  simp [lspace, findSpecial, findScan, Scan.run, scalarLoop, ofList, findStep, isSpace]

/-- escape carry across a 2-byte block boundary: `a\"b"` ends at 5, not at the escaped quote -/
example : (advStr 0 [2] (ofList [97, 92, 34, 98, 34]) 5 0).map StrRes.pos = some (some 5) := by
  simp [advStr, strScan, Scan.run, scalarLoop, loadW, ofList, strBlk, strStep, escMask, ctz, epSet, StrRes.pos]

/-- bracket counting in 4-byte blocks: `[]"]"]` behind the opening bracket closes at the last byte -/
example : (ctScalarScan 91 93).run (ofList [91, 93, 34, 93, 34, 93]) 6 [4] ⟨false, false, 0, 0⟩ 0 = some (some 6) := by
  simp [ctScalarScan, ctScalar, Scan.run, scalarLoop, loadW, ofList, ctBlkO, ctBlk, ctStepO, ctStep, escMask,
    prefixXor, braceWalk]

/-! ### the string routines: quote, unquote, html_escape, UTF-8 validation (Model/MemStr.lean)

    Block-wise over a partial memory, as the C writes them (block searches `memcchr_quote` / `memcchr_html_quote`
    with the output budget and the `-(consumed)-1` restart protocol, `memcchr_p32`, the unchecked fast path of
    quote, the Go grow-and-retry loops), for EVERY list of block widths and EVERY sequence of output budgets, on
    a fully mapped input they return exactly the proved scalar specifications of core B (Props/C20.lean):
    `Str.quoteBody`, `Str.unquote`, `Str.htmlEscape`, `Str.validate`. -/

/-- `encoder.Quote` body / the `,string` body: any widths (`w`), any growth of the output buffer (`rooms`) -/
theorem quote_width_irrelevant (w : StrWidths) (rooms : List Nat) (m : Mem) (base : Nat) (s : Bytes)
    (h : Holds (view m base) s) :
    quoteGo w Str.quoteByte (view m base) s.length rooms 0 [] = some (Str.quoteBody s) ∧
    quoteGo w Str.quoteByteD (view m base) s.length rooms 0 [] = some (Str.quoteBodyD s) := by
  constructor
  · rw [quoteGo_spec w Str.quoteByte (fun c hc => (quoteSpecial_tabs c hc).1) h rooms 0 [] (Nat.zero_le _)]
    rfl
  · rw [quoteGo_spec w Str.quoteByteD (fun c hc => (quoteSpecial_tabs c hc).2) h rooms 0 [] (Nat.zero_le _)]
    rfl

theorem quote_avx2_eq_sse (rooms₁ rooms₂ : List Nat) (m : Mem) (base : Nat) (s : Bytes) (h : Holds (view m base) s) :
    quoteGo StrWidths.avx2 Str.quoteByte (view m base) s.length rooms₁ 0 [] =
    quoteGo StrWidths.sse Str.quoteByte (view m base) s.length rooms₂ 0 [] := by
  rw [(quote_width_irrelevant _ rooms₁ m base s h).1, (quote_width_irrelevant _ rooms₂ m base s h).1]

/-- one native call of quote, as `Str.quoteCall` is specified (C20 `quoteLoop_any_capacity` rests on exactly this):
    what was written is the image of what was consumed, `≥ 0` means everything was consumed -/
theorem quoteNative_sound (w : StrWidths) (m : Mem) (base : Nat) (s : Bytes) (p room : Nat)
    (h : Holds (view m base) s) (hp : p ≤ s.length) :
    ∃ r, quoteNative w Str.quoteByte (view m base) s.length p room = some r ∧ r.consumed ≤ s.length ∧
      r.out ++ Str.quoteBody (s.drop r.consumed) = Str.quoteBody (s.drop p) ∧ (r.done = true → r.consumed = s.length) := by
  obtain ⟨r, hr, h1, h2, h3, h4, _⟩ :=
    quoteNative_spec w Str.quoteByte (fun c hc => (quoteSpecial_tabs c hc).1) h p room hp
  refine ⟨r, hr, h2, ?_, h4⟩
  rw [h3]
  show _ ++ (s.drop r.consumed).flatMap Str.quoteByte = (s.drop p).flatMap Str.quoteByte
  rw [drop_eq_slice_append s p r.consumed h1, List.flatMap_append]

/-- `unquote` (all four flag combinations) -/
theorem unquote_width_irrelevant (w : StrWidths) (unirep dbl : Bool) (m : Mem) (base : Nat) (s : Bytes)
    (h : Holds (view m base) s) :
    unquoteNative w unirep dbl (view m base) s.length = some (Str.unquote unirep dbl s) :=
  unquoteNative_spec w unirep dbl h

/-- `encoder.HTMLEscape(dst, src)`: any widths, any growth of the destination -/
theorem htmlEscape_width_irrelevant (w : StrWidths) (rooms : List Nat) (dst : Bytes) (m : Mem) (base : Nat) (s : Bytes)
    (h : Holds (view m base) s) :
    htmlGo w (view m base) s.length rooms 0 dst = some (dst ++ Str.htmlEscape s) := by
  rw [htmlGo_spec w h rooms 0 dst (Nat.zero_le _)]
  rfl

/-- UTF-8 validation, SSE build (scalar validator only): full statement -/
theorem utf8_sse_eq_validate (m : Mem) (base : Nat) (s : Bytes) (h : Holds (view m base) s) :
    utf8Fast StrWidths.sse (view m base) s.length = some (Str.validate s) :=
  utf8Fast_spec StrWidths.sse (Or.inl rfl) h

/-- UTF-8 validation, any build: PARTIAL - under `VecSound` (the vector validator's "valid" is never wrong; its
    lookup tables are transcribed and executed, not verified).  The vector verdict itself only matters when it says
    "valid": otherwise the scalar validator decides (validate_utf8_fast.c). -/
theorem utf8_width_irrelevant_partial (w : StrWidths) (hs : w.utf8 = [] ∨ VecSound w.utf8) (m : Mem) (base : Nat)
    (s : Bytes) (h : Holds (view m base) s) :
    utf8Fast w (view m base) s.length = some (Str.validate s) :=
  utf8Fast_spec w hs h

/-- non-vacuity: `a"b` quoted with 2-byte blocks and a 3-byte first budget (second call: unchecked path) -/
example : quoteGo ⟨[2], [2], []⟩ Str.quoteByte (ofList [97, 34, 98]) 3 [3] 0 [] = some [97, 92, 34, 98] := by
  have h : Holds (ofList [97, 34, 98]) [97, 34, 98] := fun i hi => rfl
  have := quoteGo_spec ⟨[2], [2], []⟩ Str.quoteByte (fun c hc => (quoteSpecial_tabs c hc).1) h [3] 0 [] (Nat.zero_le _)
  exact this.trans (by decide)

end SonicSpec.Props.C13
