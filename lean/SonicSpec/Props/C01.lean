/-
  C01 - Unmarshal agrees with encoding/json.

  `Bind.decode`  = the specification (encoding/json: syntax of the whole document first, then bind by kind);
  `Stream.decode` = the single-pass decoder of sonic's JIT (type-directed, skips what it does not store).
  The theorems below are about these two definitions for ALL documents, types and option sets; the
  correspondence harness ties `Bind.decode` to encoding/json and both to the running decoders.
-/
import SonicSpec.Proofs.Bind
import SonicSpec.Proofs.BindStream
namespace SonicSpec.Props.C01
open SonicSpec SonicSpec.Go SonicSpec.Json SonicSpec.Bind

/-! ### field lookup: exact match, then case-insensitive fallback on the smallest index -/

/-- an exact match on the JSON name always wins, whatever the case-insensitive candidates are -/
theorem lookup_exact_wins (fields : List Field) (cs : Bool) (key : Bytes) (f : Field)
    (h : fields.find? (fun g => g.name == key) = some f) : lookupField fields cs key = .found f := by
  unfold lookupField
  have hne : fields.isEmpty = false := by
    cases fields with
    | nil => simp at h
    | cons a b => rfl
  simp [hne, h]

/-- without an exact match the fallback returns the FIRST field (smallest index) whose folded name equals
    the folded key: every earlier field folds differently -/
theorem lookup_fold_smallest_index (fields : List Field) (key : Bytes) (f : Field)
    (hno : fields.find? (fun g => g.name == key) = none)
    (h : lookupField fields false key = .found f) :
    ∃ pre post, fields = pre ++ f :: post ∧ fold f.name = fold key ∧ (fold key).isSome = true ∧
      ∀ g ∈ pre, fold g.name ≠ fold key := by
  unfold lookupField at h
  by_cases hE : fields.isEmpty = true
  · simp [hE] at h
  · simp only [hE, hno] at h
    simp only [Bool.false_eq_true, if_false] at h
    split at h
    · cases h
    · rename_i fk hfk
      split at h
      · cases h
      · split at h
        · rename_i p hp
          cases h
          obtain ⟨hpp, as, bs, hab, hpre⟩ := List.find?_eq_some_iff_append.mp hp
          refine ⟨as, bs, hab, ?_, ?_, ?_⟩
          · rw [hfk]; simpa using hpp
          · rw [hfk]; rfl
          · intro g hg; rw [hfk]; simpa using hpre g hg
        · cases h

/-- with `CaseSensitive` only exact matches count -/
theorem lookup_case_sensitive_exact_only (fields : List Field) (key : Bytes) (f : Field)
    (h : lookupField fields true key = .found f) : fields.find? (fun g => g.name == key) = some f := by
  unfold lookupField at h
  by_cases hE : fields.isEmpty = true
  · simp [hE] at h
  · simp only [hE] at h
    cases hfind : fields.find? (fun g => g.name == key) with
    | none => simp [hfind] at h
    | some g => simp [hfind] at h; rw [h]

/-! ### duplicate keys -/

/-- a key given twice for a scalar field: both values are stored in turn, the last one stays -/
theorem dup_key_last_wins (o : DecOpts) (fields : List Field) (k : Bytes) (f : Field) (w : Nat)
    (l1 l2 : Bytes) (n1 n2 : Int) (vs : List GoVal)
    (hf : lookupField fields o.caseSensitive k = .found f) (hq : f.quoted = false) (ht : f.ty = .int w)
    (h1 : bindInt w l1 = some n1) (h2 : bindInt w l2 = some n2) :
    bindStruct o [(k, .num l1), (k, .num l2)] fields vs = (vs.set f.idx (.int n2), none) := by
  simp [bindStruct, hf, hq, ht, bindVal_int_overwrites, h1, h2, merge, List.set_set]

/-! ### integers: exact or refused (never wrapped, never truncated), every width -/

theorem bind_int_exact (w : Nat) (lit : Bytes) (n : Int) :
    bindInt w lit = some n ↔ intText lit = true ∧ n = intValue lit ∧ inRangeInt w n = true := by
  unfold bindInt
  rw [parseIntText_eq]
  by_cases h : intText lit = true
  · simp only [h, if_true, true_and]
    by_cases hr : inRangeInt w (intValue lit) = true
    · simp only [hr, if_true]
      constructor
      · intro e; cases e; exact ⟨rfl, hr⟩
      · intro ⟨e, _⟩; rw [e]
    · simp only [hr]
      constructor
      · intro e; simp at e
      · intro ⟨e, hr'⟩; rw [e] at hr'; exact absurd hr' hr
  · simp [h]

theorem bind_uint_exact (w : Nat) (lit : Bytes) (n : Nat) :
    bindUint w lit = some n ↔ allDigits lit = true ∧ n = natOf lit ∧ inRangeUint w n = true := by
  unfold bindUint digitsVal
  by_cases h : allDigits lit = true
  · simp only [h, if_true, true_and]
    by_cases hr : inRangeUint w (natOf lit) = true
    · simp only [hr, if_true]
      constructor
      · intro e; cases e; exact ⟨rfl, hr⟩
      · intro ⟨e, _⟩; rw [e]
    · simp only [hr]
      constructor
      · intro e; simp at e
      · intro ⟨e, hr'⟩; rw [e] at hr'; exact absurd hr' hr
  · simp [h]

/-- a literal that is not an integer text (fraction, exponent, ...) or does not fit is a type error and
    leaves the destination untouched -/
theorem int_mismatch_keeps_value (o : DecOpts) (w : Nat) (lit : Bytes) (cur : GoVal)
    (h : bindInt w lit = none) : bindVal o (.num lit) (.int w) cur = (cur, some .mismatch) := by
  simp [bindVal, ptrBase, wrapPtr, peel, storeNumber, h]

/-! ### null -/

theorem null_is_noop_on_scalars (o : DecOpts) (T : GoType) (cur : GoVal)
    (hT : match T with
      | .bool | .int _ | .uint _ | .f32 | .f64 | .str | .num | .arr _ _ | .st _ => True
      | _ => False) :
    bindVal o .null T cur = (cur, none) := by
  unfold bindVal bindNull
  cases T <;> simp_all

theorem null_clears_references (o : DecOpts) (T : GoType) (cur : GoVal)
    (hT : match T with
      | .ptr _ | .map _ _ | .sl _ | .any | .bytes => True
      | _ => False) :
    bindVal o .null T cur = (.nil, none) := by
  unfold bindVal bindNull
  cases T <;> simp_all

/-! ### arrays -/

theorem array_truncates_and_zero_fills (o : DecOpts) (raw : Bytes) (xs : List RVal) (n : Nat) (t : GoType) (cs : List GoVal) :
    ∃ vs e, bindVal o (.arr raw xs) (.arr n t) (.arr cs) = (.arr (vs ++ List.replicate (n - vs.length) (zeroOf t)), e) ∧
      (vs, e) = bindElems o xs t cs (some n) ∧ vs.length = min xs.length n ∧
      (vs ++ List.replicate (n - vs.length) (zeroOf t)).length = n := by
  refine ⟨(bindElems o xs t cs (some n)).1, (bindElems o xs t cs (some n)).2, ?_, rfl, bindElems_length .., ?_⟩
  · simp [bindVal, ptrBase, peel, wrapPtr, curElems]
  · simp [bindElems_length]; omega

/-! ### syntax first -/

/-- nothing is accepted that the strict grammar (shared `Json.parseDoc`) refuses: a syntax error anywhere in
    the document wins over every binding outcome -/
theorem decode_ok_implies_parses (o : DecOpts) (T : GoType) (s : Bytes) (v : GoVal)
    (h : Bind.decode o T s = .ok v) : (Json.parseDoc s).isSome = true := by
  unfold Bind.decode Bind.decodeFull at h
  cases hp : parseRDoc s with
  | none => simp [hp] at h
  | some j => exact parseRDoc_sound s j hp

/-! ### the single-pass decoder against the specification

  `stream_eq_bind` is stated for every option set, every type of the modelled universe (scalars, pointers,
  slices, arrays, structs with `,string` fields, maps with every key kind, interface{}, json.Number,
  RawMessage, []byte) and every byte string.  The leniency is characterised from the outside: whatever the
  single pass accepts beyond the strict grammar still passes the structural grammar (`structuralDoc false`:
  nesting, separators, literals and numbers exact, string literals only delimited).  That the offending
  bytes sit inside a SKIPPED value is visible in the definition of `Stream.decode` (every stored string goes
  through the strict scanner) but is not stated as a theorem. -/

/-- on every document the strict grammar accepts, the type-directed single pass (skip what is not stored)
    and parse-then-bind agree completely: error-or-not, error kind, value - and also on the partially
    filled value that accompanies a type error -/
theorem stream_eq_bind_partial (o : DecOpts) (T : GoType) (s : Bytes) (h : (parseRDoc s).isSome = true) :
    Stream.decode o T s = Bind.decode o T s ∧ Stream.decodeFull o T s = .ok (Bind.decodeFull o T s) := by
  cases hj : parseRDoc s with
  | none => simp [hj] at h
  | some j => exact ⟨Stream.decode_eq o T s j hj, Stream.decodeFull_eq o T s j hj⟩

/-- whatever the specification accepts, the single pass accepts with the same value -/
theorem bind_ok_implies_stream_ok (o : DecOpts) (T : GoType) (s : Bytes) (v : GoVal)
    (h : Bind.decode o T s = .ok v) : Stream.decode o T s = .ok v := by
  cases hj : parseRDoc s with
  | none => simp [Bind.decode, Bind.decodeFull, hj] at h
  | some j => rw [Stream.decode_eq o T s j hj]; exact h

/-- a type error, an unknown field under DisallowUnknownFields, a bad `,string` content reported by the
    specification is reported by the single pass as well (nothing is silently accepted by skipping) -/
theorem bind_error_implies_stream_error (o : DecOpts) (T : GoType) (s : Bytes) (e : DErr)
    (hs : (parseRDoc s).isSome = true) (h : Bind.decode o T s = .error e) : Stream.decode o T s = .error e := by
  rw [(stream_eq_bind_partial o T s hs).1]; exact h

/-- the `Bind` side of the second half: a document the strict grammar refuses is a syntax error -/
theorem bind_syntax_error (o : DecOpts) (T : GoType) (s : Bytes) (h : parseRDoc s = none) :
    Bind.decode o T s = .error .syntax := by
  simp [Bind.decode, Bind.decodeFull, h]

/-- the `Stream` side of the second half: whatever the single pass accepts passes the structural grammar -/
theorem stream_ok_implies_structural (o : DecOpts) (T : GoType) (s : Bytes) (v : GoVal)
    (h : Stream.decode o T s = .ok v) : Stream.structuralDoc false s = true :=
  Stream.decode_ok_structural o T s v h

/-- FULL statement: equality on every document of the strict grammar; outside it the specification reports a
    syntax error and the single pass accepts at most structurally well-formed documents -/
theorem stream_eq_bind (o : DecOpts) (T : GoType) (s : Bytes) :
    match parseRDoc s with
    | some _ => Stream.decode o T s = Bind.decode o T s ∧ Stream.decodeFull o T s = .ok (Bind.decodeFull o T s)
    | none => Bind.decode o T s = .error .syntax ∧
        ∀ v, Stream.decode o T s = .ok v → Stream.structuralDoc false s = true := by
  cases hj : parseRDoc s with
  | some j => exact stream_eq_bind_partial o T s (by simp [hj])
  | none => exact ⟨bind_syntax_error o T s hj, fun v hv => stream_ok_implies_structural o T s v hv⟩

/-! ### non-vacuity: a struct with tags, an unknown field, a mismatch and a duplicate key -/

/-- `struct { Name string `json:"name"`; Age int8 `json:"age,omitempty"`; Tags []int }` -/
def exT : GoType := .st [("Name", some "name".toUTF8.toList, .str), ("Age", some "age,omitempty".toUTF8.toList, .int 8), ("Tags", none, .sl (.int 64))]

def exDoc : Bytes := "{\"name\":\"x\",\"zz\":[1,{}],\"AGE\":\"old\",\"age\":7,\"age\":8,\"Tags\":[1,2]}".toUTF8.toList

example : (Json.parseDoc exDoc).isSome = true := by decide +kernel

/-- shape test used by the examples (`GoVal` has no decidable equality) -/
def isEx (v : GoVal) (age : Int) : Bool :=
  match v with
  | .st [.str a, .int b, .sl [.int c, .int d]] => a == [120] && b == age && c == 1 && d == 2
  | _ => false

/-- the mismatch (`"old"` into int8) is reported, the unknown field is ignored, the duplicate `age` ends
    as the last value, and the value is still produced -/
example : (match Bind.decodeFull {} exT exDoc with
    | (v, some .mismatch) => isEx v 8
    | _ => false) = true := by decide +kernel

example : (match Stream.decodeFull {} exT exDoc with
    | .ok (v, some .mismatch) => isEx v 8
    | _ => false) = true := by decide +kernel

/-- without the mismatching member the document is accepted, by both models, with the same value -/
def exDoc2 : Bytes := "{\"name\":\"x\",\"zz\":[1,{}],\"age\":7,\"AGE\":8,\"Tags\":[1,2]}".toUTF8.toList

example : (match Bind.decode {} exT exDoc2 with | .ok v => isEx v 8 | _ => false) = true := by decide +kernel
example : (match Stream.decode {} exT exDoc2 with | .ok v => isEx v 8 | _ => false) = true := by decide +kernel
example : (match Bind.decode { disallowUnknown := true } exT exDoc2 with | .error .unknownField => true | _ => false) = true := by
  decide +kernel
example : bindInt 8 "128".toUTF8.toList = none ∧ bindInt 8 "-128".toUTF8.toList = some (-128) ∧ bindInt 8 "1e2".toUTF8.toList = none := by decide +kernel

end SonicSpec.Props.C01
