/-
  C14 - AST search and read-only views return exactly the addressed value.
  Property theorems only; helper lemmas live in Proofs/Search*.lean.

  Vocabulary (Model/Search.lean, Model/SearchViews.lean):
  * `parseDoc s = some d`      `s` is a valid document and `d` its tree (strict RFC 8259 grammar);
  * `locateR d p` / `locate`   the value encoding/json finds at path `p` (first occurrence of a
                               duplicated key, keys compared decoded), else the error class;
  * `search o s p`             the byte-level searcher of `native/get_by_path.c` under options `o`,
                               returning the raw slice; it never builds a tree and skips siblings
                               with the bracket/quote counting `skipFast`;
  * `preorder s` / `flatten`   the callbacks of `ast.Preorder` / the event list of a tree.
-/
import SonicSpec.Model.SearchViews
import SonicSpec.Proofs.SearchRaw
import SonicSpec.Proofs.SearchPreorder
import SonicSpec.Proofs.SearchDepth
import SonicSpec.Proofs.SearchNode
namespace SonicSpec.Props.C14
open SonicSpec SonicSpec.Json SonicSpec.Search

/-! ## the fast skipper agrees with the grammar on valid input -/

/-- KEY LEMMA, container part, no side condition: on the text of a strictly valid value the
    scan that only counts one bracket pair, quotes and backslashes (`skip_container_fast`) ends in
    the state it started in - for both bracket pairs, at every depth, including strings that
    contain brackets, quotes and escapes. -/
theorem pairScan_eq_on_valid {lc rc : UInt8} (hp : (lc = 91 ∧ rc = 93) ∨ (lc = 123 ∧ rc = 125))
    {n : Nat} {s : Bytes} {v : JVal} {r : Bytes} (h : parseVal n s = some (v, r)) (d : Nat) (hd : d ≥ 1) :
    pairScan lc rc d false s = pairScan lc rc d false r :=
  (scan_valid hp n).1 s v r h d hd

/-- KEY LEMMA: where the strict grammar reads a value `v` and leaves `r`, `skip_one_fast` stops at
    the same place.  The side condition only matters for numbers (the fast skipper runs a number up
    to the next `,` `]` `}` or white space): what follows must be able to follow a value, which is
    always the case inside a valid document. -/
theorem skipFast_eq_skip_on_valid {n : Nat} {s : Bytes} {v : JVal} {r : Bytes}
    (h : parseVal n (skipWs s) = some (v, r))
    (hf : r = [] ∨ ∃ c t, r = c :: t ∧ isNumStop c = true) :
    skipFast s = some (skipWs s, r) :=
  skipFast_of_parse h hf

/-- on a whole valid document the fast skipper consumes exactly the value -/
theorem skipFast_doc {s : Bytes} {d : JVal} (h : parseDoc s = some d) :
    ∃ r, skipFast s = some (skipWs s, r) ∧ skipWs r = [] ∧ parseDoc (rawOf (skipWs s, r)) = some d := by
  unfold parseDoc at h
  split at h
  · rename_i v r hp
    split at h
    · rename_i he
      cases h
      have hr : skipWs r = [] := by simpa using he
      exact ⟨r, skipFast_of_parse hp (numFollow_of_skipWs_nil hr), hr, parseDoc_raw hp⟩
    · cases h
  · cases h

/-! ## `match_key`: the piecewise unescape-and-compare loop -/

/-- on a key literal all of whose escapes `unescape` can decode (`keyWF`; on a strictly valid string
    this excludes only lone / wrongly ordered surrogate escapes) the native comparison - one memcmp
    for an escape-free literal, otherwise plain bytes one by one and each escape decoded into a
    buffer that must be a prefix of the rest of the key, first mismatch ends it - decides exactly
    "the decoded literal equals the wanted key" -/
theorem matchKey_eq_decode_compare {raw key : Bytes} (h : keyWF (raw.length + 1) raw = true) :
    matchKey raw key = if unescapeKey raw = key then KeyCmp.eq else KeyCmp.ne :=
  matchKey_eq h

/-- where they differ (finding C14-lone-surrogate-key): the literal `\ud800` denotes U+FFFD for
    encoding/json and for `unescapeKey`, but `match_key` reports an error when the comparison reaches
    it; it is not reached when an earlier byte already differs (`x\ud800` against `a`: plain mismatch) -/
theorem matchKey_lone_surrogate_witness :
    unescapeKey [92, 117, 100, 56, 48, 48] = [239, 191, 189] ∧
    matchKey [92, 117, 100, 56, 48, 48] [239, 191, 189] = KeyCmp.err ∧
    keyWF 7 [92, 117, 100, 56, 48, 48] = false ∧
    matchKey [120, 92, 117, 100, 56, 48, 48] [97] = KeyCmp.ne := by decide +kernel

/-- the same on a whole document, `{"\ud800":1,"a":2}` with path `a`: the document is valid, the
    specification finds `2`, the searcher model (faithful to `match_key`) reports a syntax error: the
    hypothesis `keysWF` of `search_eq_locate` cannot be dropped -/
theorem search_lone_surrogate_witness :
    (parseDoc [123, 34, 92, 117, 100, 56, 48, 48, 34, 58, 49, 44, 34, 97, 34, 58, 50, 125]).isSome = true ∧
    ((parseDoc [123, 34, 92, 117, 100, 56, 48, 48, 34, 58, 49, 44, 34, 97, 34, 58, 50, 125]).map fun d => ((locate d [.key [97]]).map render, keysWF d)) = some (some [50], false) ∧
    search {} [123, 34, 92, 117, 100, 56, 48, 48, 34, 58, 49, 44, 34, 97, 34, 58, 50, 125] [.key [97]] = .inval := by decide +kernel

/-! ## search = locate -/

/-- MAIN THEOREM (over the searcher model that compares keys with the native `matchKey` loop).
    Hypothesis `keysWF d`: every object key literal of the document is decodable by `unescape`.
    For every such valid document, every path and every option set the byte-level
    searcher returns exactly what the specification finds on the tree: when `locate` finds a value
    the searcher returns a raw slice which, read as a document of its own, is that value; otherwise
    it reports the same failure class (missing key / index past the end: not found; key into a
    non-object or index into a non-array: invalid; negative index into an array: bad path). -/
theorem search_eq_locate {s : Bytes} {d : JVal} (h : parseDoc s = some d) (hk : keysWF d = true) (o : Options) (p : Path) :
    match locateR d p with
    | .found w => ∃ raw, search o s p = .found raw ∧ parseDoc raw = some w
    | .notFound => search o s p = .notFound
    | .inval => search o s p = .inval
    | .eof => search o s p = .eof
    | .badPath => search o s p = .badPath := by
  obtain ⟨r, hAt⟩ := at_of_parseDoc h hk
  have := (getByPath_locate (s.length + 1) p d s r hAt o.validateJSON).1
  unfold search
  cases hl : locateR d p with
  | found w =>
    rw [hl] at this
    obtain ⟨st, rest, hg, m, _, hp, _⟩ := this
    exact ⟨rawOf (st, rest), by rw [hg]; rfl, parseDoc_raw hp⟩
  | notFound => rw [hl] at this; simp only [Agrees] at this; rw [this]; rfl
  | inval => rw [hl] at this; simp only [Agrees] at this; rw [this]; rfl
  | eof => rw [hl] at this; simp only [Agrees] at this; rw [this]; rfl
  | badPath => rw [hl] at this; simp only [Agrees] at this; rw [this]; rfl

/-- the searcher finds something exactly when the path exists in the tree -/
theorem search_found_iff {s : Bytes} {d : JVal} (h : parseDoc s = some d) (hk : keysWF d = true) (o : Options) (p : Path) :
    (∃ raw, search o s p = .found raw) ↔ ∃ w, locate d p = some w := by
  have := search_eq_locate h hk o p
  unfold locate
  cases hl : locateR d p <;> rw [hl] at this <;> simp [Res.toOption]
  · obtain ⟨raw, hr, _⟩ := this; exact ⟨raw, hr⟩
  all_goals (intro raw hr; rw [this] at hr; cases hr)

/-- `parse (search result) = located subtree` -/
theorem search_raw_is_located {s : Bytes} {d : JVal} (h : parseDoc s = some d) (hk : keysWF d = true) (o : Options) (p : Path)
    {raw : Bytes} (hr : search o s p = .found raw) : parseDoc raw = locate d p := by
  have := search_eq_locate h hk o p
  unfold locate
  cases hl : locateR d p <;> rw [hl] at this
  · obtain ⟨raw', hr', hp⟩ := this
    rw [hr] at hr'; cases hr'
    simpa [Res.toOption] using hp
  all_goals (rw [this] at hr; cases hr)

/-- missing / wrong kind / out of range ⇒ nothing is returned -/
theorem search_missing {s : Bytes} {d : JVal} (h : parseDoc s = some d) (hk : keysWF d = true) (o : Options) (p : Path)
    (hm : locate d p = none) : ∀ raw, search o s p ≠ .found raw := by
  intro raw hr
  have := (search_found_iff h hk o p).1 ⟨raw, hr⟩
  obtain ⟨w, hw⟩ := this
  rw [hm] at hw; cases hw

/-- a key that no member of the addressed object carries: not found -/
theorem missing_key_not_found {s : Bytes} {d : JVal} (h : parseDoc s = some d) (hk : keysWF d = true) (o : Options) (q p : Path)
    {kvs : List (Bytes × JVal)} {k : Bytes} (hq : locateR d q = .found (.obj kvs)) (hmiss : lookupKey k kvs = none) :
    search o s (q ++ PathElem.key k :: p) = .notFound := by
  have := search_eq_locate h hk o (q ++ PathElem.key k :: p)
  rw [locateR_append, hq] at this
  simpa [locateR, hmiss] using this

/-- an index at or past the end of the addressed array: not found -/
theorem index_out_of_range_not_found {s : Bytes} {d : JVal} (h : parseDoc s = some d) (hk : keysWF d = true) (o : Options) (q p : Path)
    {xs : List JVal} {i : Nat} (hq : locateR d q = .found (.arr xs)) (hi : xs.length ≤ i) :
    search o s (q ++ PathElem.idx i :: p) = .notFound := by
  have := search_eq_locate h hk o (q ++ PathElem.idx i :: p)
  rw [locateR_append, hq] at this
  have hx : xs[i]? = none := by simpa using hi
  have hneg : ¬ ((i : Int) < 0) := by omega
  simpa [locateR, hx, hneg] using this

/-- a key into something that is not an object, an index into something that is not an array:
    reported as invalid, never a value -/
theorem wrong_kind_not_found {s : Bytes} {d : JVal} (h : parseDoc s = some d) (hk : keysWF d = true) (o : Options) (q p : Path)
    {v : JVal} (hq : locateR d q = .found v) (e : PathElem)
    (hkind : match e, v with
      | .key _, .obj _ => False
      | .idx _, .arr _ => False
      | _, _ => True) :
    search o s (q ++ e :: p) = .inval := by
  have := search_eq_locate h hk o (q ++ e :: p)
  rw [locateR_append, hq] at this
  cases e <;> cases v <;> simp_all [locateR]

/-! ## options, views -/

/-- the search options do not appear in the result: any two option sets give the same answer on a
    valid document (`ValidateJSON` chooses between the validating and the fast skipper for the
    located value - they agree by the key lemma; `CopyReturn` and `ConcurrentRead` are not
    parameters of the result at all) -/
theorem search_options_irrelevant {s : Bytes} {d : JVal} (h : parseDoc s = some d) (hk : keysWF d = true) (o o' : Options) (p : Path) :
    search o s p = search o' s p := by
  obtain ⟨r, hAt⟩ := at_of_parseDoc h hk
  have h1 := (getByPath_locate (s.length + 1) p d s r hAt o.validateJSON).2
  have h2 := (getByPath_locate (s.length + 1) p d s r hAt o'.validateJSON).2
  unfold search
  rw [h1, h2]

/-- every view of the located node (type, typed accessors, generic conversion, iterator contents,
    the Preorder events of its raw text: all functions of the node's raw text through the parser)
    is the corresponding view of the value `locate` finds -/
theorem views_agree {s : Bytes} {d : JVal} (h : parseDoc s = some d) (hk : keysWF d = true) (o : Options) (p : Path)
    {raw : Bytes} (hr : search o s p = .found raw) {α : Type} (view : JVal → α) :
    (parseDoc raw).map view = (locate d p).map view := by
  rw [search_raw_is_located h hk o p hr]

/-! ## Preorder -/

/-- `ast.Preorder` on a valid document delivers exactly the flattening of its tree -/
theorem preorder_eq_flatten {s : Bytes} {d : JVal} (h : parseDoc s = some d) : preorder s = some (flatten d) := by
  unfold parseDoc at h
  unfold preorder
  rw [(trav_eq_parse _).1]
  split at h
  · rename_i v r hp
    split at h
    · cases h; simp [hp]
    · cases h
  · cases h

/-- on ANY input: when Preorder returns without error its callbacks are the flattening of a
    strictly valid value at the head of the input (it does not look at what follows) -/
theorem preorder_sound (s : Bytes) {es : List Event} (h : preorder s = some es) :
    ∃ v r, parseVal (s.length + 1) (skipWs s) = some (v, r) ∧ es = flatten v := by
  unfold preorder at h
  rw [(trav_eq_parse _).1] at h
  cases hp : parseVal (s.length + 1) (skipWs s) with
  | none => rw [hp] at h; cases h
  | some x =>
    obtain ⟨v, r⟩ := x
    rw [hp] at h
    simp at h
    exact ⟨v, r, rfl, h.symm⟩

/-- the located node's raw text, traversed, gives the events of the located value -/
theorem preorder_of_located {s : Bytes} {d : JVal} (h : parseDoc s = some d) (hk : keysWF d = true) (o : Options) (p : Path)
    {raw : Bytes} (hr : search o s p = .found raw) : preorder raw = (locate d p).map flatten := by
  have hl := search_raw_is_located h hk o p hr
  cases hw : locate d p with
  | none => rw [hw] at hl; have := search_missing h hk o p hw raw; exact absurd hr this
  | some w => rw [hw] at hl; simp [preorder_eq_flatten hl]

/-! ## Preorder's nesting bound, sequences of lookups -/

/-- with the nesting bound `L` (the real one is `maxRecurse` = `types.MAX_RECURSE`, re-read from the
    source): on a valid document Preorder delivers the flattening when the REAL nesting depth of
    the document fits, and the depth error otherwise - the number of containers met before
    (siblings, empty arrays/objects) plays no role -/
theorem preorder_depth_bound (L : Nat) {s : Bytes} {d : JVal} (h : parseDoc s = some d) :
    preorderD L s = if depth d ≤ L then .ok (flatten d) else .tooDeep := by
  unfold parseDoc at h
  unfold preorderD
  split at h
  · rename_i v r hp
    split at h
    · cases h
      rw [(travD_valid L _).1 0 _ _ _ (Nat.zero_le _) hp]
      by_cases hd : depth d ≤ L <;> simp [hd]
    · cases h
  · cases h

/-- depth error iff the real nesting depth exceeds MAX_RECURSE -/
theorem preorder_depth_error_iff {s : Bytes} {d : JVal} (h : parseDoc s = some d) :
    preorderD maxRecurse s = .tooDeep ↔ depth d > maxRecurse := by
  rw [preorder_depth_bound maxRecurse h]
  by_cases hd : depth d ≤ maxRecurse
  · simp [hd]
  · simp [hd]; omega

/-- within the bound the bounded traversal is the unbounded one -/
theorem preorder_within_bound {s : Bytes} {d : JVal} (h : parseDoc s = some d) (hd : depth d ≤ maxRecurse) :
    preorderD maxRecurse s = .ok (flatten d) ∧ preorder s = some (flatten d) := by
  refine ⟨?_, preorder_eq_flatten h⟩
  rw [preorder_depth_bound maxRecurse h]; simp [hd]

/-- a lookup inside a sequence of lookups on the same document answers exactly like the lookup
    alone, whatever was looked up before or after it (and hence like `locate`, by
    `search_eq_locate`) -/
theorem lookup_sequence_history_free (o : Options) (s : Bytes) (before after : List Path) (p : Path) :
    (searchSeq o s (before ++ p :: after))[before.length]? = some (search o s p) := by
  simp [searchSeq]

/-! ## the Node side: the byte-level lazy loader behind `Node.Get / Index / GetByPath` -/

/-- `node_get_eq_locate`.  ANY sequence of `Get(key)` / `Index(i)` calls on one fresh lazy root of a
    valid document: every answer is the raw text of exactly the child the specification names
    (`stepSpec`: first occurrence of a duplicated key; position in an array; nothing otherwise; and
    the documented pair-by-position for `Index` on an object) - whatever was asked before, however
    much of the node is loaded by then.  No hypothesis on key literals: this loader decodes keys with
    `unquote.String`. -/
theorem node_get_eq_locate {s : Bytes} {d : JVal} (h : parseDoc s = some d) (es : List PathElem) :
    AnsAll (nodeRun (.raw s) es) (es.map (stepSpec d)) :=
  nodeRun_ok (n := .raw s) h es

/-- the same for sequences of `GetByPath` calls on one root -/
theorem node_getbypath_eq_locate {s : Bytes} {d : JVal} (h : parseDoc s = some d) (ps : List Path) :
    AnsAll (nodeRunPaths (.raw s) ps) (ps.map (pathSpec d)) :=
  nodeRunPaths_ok (n := .raw s) h ps

/-- and the Node API's reading of a path returns what `locate` returns whenever `locate` finds
    something (the converse fails only for an index applied to an object: finding
    C14-node-index-on-object, witness below) -/
theorem node_path_finds_located {d w : JVal} {p : Path} (hp : p ≠ []) (h : locate d p = some w) :
    pathSpec d p = some w :=
  pathSpec_of_locate p d w hp h

/-- `{"a":{"b":7,"c":8}}`, path `a`,1: nothing for `locate`, the second pair for the Node API, and
    the loader model returns its text -/
theorem node_index_on_object_witness :
    ((parseDoc [123, 34, 97, 34, 58, 123, 34, 98, 34, 58, 55, 44, 34, 99, 34, 58, 56, 125, 125]).map fun d =>
        ((locate d [.key [97], .idx 1]).map render, (pathSpec d [.key [97], .idx 1]).map render)) = some (none, some [56]) ∧
    (nodeGetByPath (.raw [123, 34, 97, 34, 58, 123, 34, 98, 34, 58, 55, 44, 34, 99, 34, 58, 56, 125, 125]) [.key [97], .idx 1]).2 = some [56] := by decide +kernel

/-- typed accessors and conversions of the located node, spelled out (instances of `views_agree`):
    type, StrictString, StrictNumber, StrictBool, StrictInt64, Float64 (the correctly rounded binary64
    of the literal, `Num.toF64Bits`), InterfaceUseNumber and Interface (numbers as float64) -/
theorem typed_views_agree {s : Bytes} {d : JVal} (h : parseDoc s = some d) (hk : keysWF d = true) (o : Options) (p : Path)
    {raw : Bytes} (hr : search o s p = .found raw) :
    (parseDoc raw).map typeOf = (locate d p).map typeOf ∧
    (parseDoc raw).map strView = (locate d p).map strView ∧
    (parseDoc raw).map numView = (locate d p).map numView ∧
    (parseDoc raw).map boolView = (locate d p).map boolView ∧
    (parseDoc raw).map int64View = (locate d p).map int64View ∧
    (parseDoc raw).map f64View = (locate d p).map f64View ∧
    (parseDoc raw).map toGeneric = (locate d p).map toGeneric ∧
    (parseDoc raw).map toFloatGeneric = (locate d p).map toFloatGeneric :=
  ⟨views_agree h hk o p hr _, views_agree h hk o p hr _, views_agree h hk o p hr _, views_agree h hk o p hr _,
   views_agree h hk o p hr _, views_agree h hk o p hr _, views_agree h hk o p hr _, views_agree h hk o p hr _⟩

/-- the *UseNode conversions of the located node (`ArrayUseNode`, `MapUseNode`, `InterfaceUseNode`:
    the children themselves - all of them, in document order for an array, one per distinct key for
    an object) and the *UseNumber ones (`toGeneric`), as instances of `views_agree` -/
theorem usenode_views_agree {s : Bytes} {d : JVal} (h : parseDoc s = some d) (hk : keysWF d = true) (o : Options) (p : Path)
    {raw : Bytes} (hr : search o s p = .found raw) :
    (parseDoc raw).map arrayNodes = (locate d p).map arrayNodes ∧
    (parseDoc raw).map mapNodes = (locate d p).map mapNodes ∧
    (parseDoc raw).map toGeneric = (locate d p).map toGeneric :=
  ⟨views_agree h hk o p hr _, views_agree h hk o p hr _, views_agree h hk o p hr _⟩

/-! ## non-vacuity: concrete documents (escaped key, duplicate key, brackets and quotes inside
    skipped strings, white space) -/

-- {"s":"]}\"[", "\u0061":[1,{"b":null}], "a":2}
def exDoc : Bytes :=
  [123, 34, 115, 34, 58, 34, 93, 125, 92, 34, 91, 34, 44, 32, 34, 92, 117, 48, 48, 54, 49, 34, 58, 91, 49, 44, 123, 34, 98, 34, 58, 110, 117, 108, 108, 125, 93, 44, 32, 34, 97, 34, 58, 50, 125]

example : (parseDoc exDoc).isSome = true := by decide +kernel
/-- key `a` is spelled with a unicode escape in its first occurrence; the duplicate `"a":2` is not taken -/
example : search {} exDoc [.key [97], .idx 1, .key [98]] = .found [110, 117, 108, 108] := by decide +kernel
example : search { validateJSON := false } exDoc [.key [97], .idx 0] = .found [49] := by decide +kernel
example : search {} exDoc [.key [97], .idx 2] = .notFound := by decide +kernel
example : search {} exDoc [.key [120]] = .notFound := by decide +kernel
example : search {} exDoc [.idx 0] = .inval := by decide +kernel
example : search {} exDoc [.key [97], .idx (-1)] = .badPath := by decide +kernel
-- [1,{"k":"\n"}]
example : preorder [91, 49, 44, 123, 34, 107, 34, 58, 34, 92, 110, 34, 125, 93] =
    some [.arrBegin, .num [49], .objBegin, .key [107], .str [10], .objEnd, .arrEnd] := by decide +kernel
/-- the side condition of the key lemma is needed: the fast skipper does not validate numbers
    (`1x,2` is skipped up to the comma) -/
example : skipFast [49, 120, 44, 50] = some ([49, 120, 44, 50], [44, 50]) := by decide +kernel
/-- and it is not a validator for containers either (`[}{]` is skipped as one array) -/
example : (skipFast [91, 125, 123, 93]).isSome = true := by decide +kernel

/-- 3 sibling empty arrays at depth 2 fit in bound 2; 3 nested arrays do not -/
example : preorderD 2 [91, 91, 93, 44, 91, 93, 44, 91, 93, 93] =
    .ok [.arrBegin, .arrBegin, .arrEnd, .arrBegin, .arrEnd, .arrBegin, .arrEnd, .arrEnd] := by decide +kernel
example : preorderD 2 [91, 91, 91, 93, 93, 93] = .tooDeep := by decide +kernel
example : maxRecurse = 4096 := by decide +kernel

/-- `1.5` and `1e400` through the exact number model -/
example : f64Of [49, 46, 53] = some 4609434218613702656 ∧ f64Of [49, 101, 52, 48, 48] = none := by decide +kernel

end SonicSpec.Props.C14
