/-
  C19 - numbers convert exactly in both directions: property theorems.

  All statements are about the executable definitions the driver runs (`Model/Num.lean`,
  `Model/NumFmt.lean`) and quantify over every literal / bit pattern / integer.  They are written in
  `Nat`/`Int` only (no reals): a literal `(-1)^neg * m * 10^e` is the rational `N / D` with
  `(N, D) = scale m e`, a float is `q * 2^t` in units of the smallest subnormal (`2^-1074` for
  float64, `2^-149` for float32), so the literal in those units is `N * 2^bias / D`.
  The specification relations `IsRNE`, `Canonical`, `IsIntLit` are in `Model/NumSpec.lean`.

  The native conversion routines themselves (Eisel-Lemire, big-decimal fallback, Schubfach-style
  printing) are machine code: modelled by this specification and tied to it by correspondence only.
-/
import SonicSpec.Model.Num
import SonicSpec.Model.NumFmt
import SonicSpec.Model.NumSpec
import SonicSpec.Proofs.NumRound
import SonicSpec.Proofs.NumDec
import SonicSpec.Proofs.NumOvf
import SonicSpec.Proofs.NumInt
import SonicSpec.Proofs.NumFmt
import SonicSpec.Proofs.NumNotation
namespace SonicSpec.Props.C19
open SonicSpec SonicSpec.Num

/-! ### literal -> float: correctly rounded -/

/-- Every accepted literal is converted to the IEEE round-to-nearest-even value, for any format
    satisfying the side conditions `Fmt.Ok` (float64 and float32 do: `f64_ok`, `f32_ok`):
    the bits are sign + canonical `(q, t)`, finite (`t ≤ tmax`), zero stays zero, and for a non-zero
    literal `(q, t)` is the round-half-even image of `N * 2^bias / D` (`IsRNE`: the exponent is that of
    the binade containing the exact value, the significand is a nearest integer, even on a tie, and a
    carry is renormalised). -/
theorem toBits_correctly_rounded (f : Fmt) (hf : f.Ok) (lit : Bytes) (bits : Nat)
    (h : toBits f lit = .ok bits) :
    ∃ d q t, parseDec lit = some d ∧
      bits = packBits f q t + (if d.neg then signBit f else 0) ∧
      Canonical f.prec q t ∧ t ≤ f.tmax ∧
      (d.m = 0 → q = 0 ∧ t = 0) ∧
      (d.m ≠ 0 → IsRNE f.prec ((scale d.m d.e).1 * 2 ^ f.bias) (scale d.m d.e).2 q t) := by
  simp only [toBits] at h
  split at h
  · cases h
  · rename_i d hd
    split at h
    · cases h
    · rename_i q t hr
      simp only [Except.ok.injEq] at h
      refine ⟨d, q, t, hd, h.symm, ?_⟩
      by_cases hm : d.m = 0
      · rw [hm, roundDec_zero] at hr
        cases hr
        exact ⟨⟨Nat.two_pow_pos _, fun h => absurd h (by decide)⟩, Nat.zero_le _, fun _ => ⟨rfl, rfl⟩,
          fun h => absurd hm h⟩
      · obtain ⟨h1, h2, h3⟩ := roundDec_spec f hf d.m d.e hm q t hr
        exact ⟨h2, h3, fun h => absurd h hm, fun _ => h1⟩

/-- float64: a literal accepted by `toF64Bits` (= `strconv.ParseFloat(s, 64)` on JSON literals)
    yields sign, exponent and significand of the correctly rounded nearest double:
    `b = sign * 2^63 + t * 2^52 + q`, normal numbers have `2^52 ≤ q < 2^53` (exponent field `t + 1`),
    subnormals only at `t = 0`, and `q * 2^t` is the round-half-even image of `N * 2^1074 / D`. -/
theorem toF64_correctly_rounded (lit : Bytes) (b : UInt64) (h : toF64Bits lit = .ok b) :
    ∃ d q t, parseDec lit = some d ∧
      b.toNat = t * 2 ^ 52 + q + (if d.neg then 2 ^ 63 else 0) ∧
      q < 2 ^ 53 ∧ (0 < t → 2 ^ 52 ≤ q) ∧ t ≤ 2045 ∧
      (d.m = 0 → q = 0 ∧ t = 0) ∧
      (d.m ≠ 0 → IsRNE 53 ((scale d.m d.e).1 * 2 ^ 1074) (scale d.m d.e).2 q t) := by
  simp only [toF64Bits] at h
  cases hb : toBits f64 lit with
  | error e => rw [hb] at h; cases h
  | ok bits =>
    rw [hb] at h
    simp only [Except.map, Except.ok.injEq] at h
    obtain ⟨d, q, t, h1, h2, h3, h4, h5, h6⟩ := toBits_correctly_rounded f64 f64_ok lit bits hb
    refine ⟨d, q, t, h1, ?_, h3.1, h3.2, h4, h5, h6⟩
    have hlt := bits_lt f64 (by decide) q t d.neg h3 (by
      have : f64.tmax = 2045 := rfl
      have : (2 : Nat) ^ f64.ebits = 2048 := by decide
      omega)
    rw [← h2] at hlt
    have hs : 2 * signBit f64 = 2 ^ 64 := by decide
    rw [hs] at hlt
    rw [← h, UInt64.toNat_ofNat', Nat.mod_eq_of_lt hlt, h2]
    rfl

/-- float32 (`strconv.ParseFloat(s, 32)`, what encoding/json stores into a float32): rounded once,
    directly from the literal: `b = sign * 2^31 + t * 2^23 + q`, `q * 2^t` is the round-half-even image
    of `N * 2^149 / D` for 24 significant bits -/
theorem toF32_correctly_rounded (lit : Bytes) (b : UInt32) (h : toF32Bits lit = .ok b) :
    ∃ d q t, parseDec lit = some d ∧
      b.toNat = t * 2 ^ 23 + q + (if d.neg then 2 ^ 31 else 0) ∧
      q < 2 ^ 24 ∧ (0 < t → 2 ^ 23 ≤ q) ∧ t ≤ 253 ∧
      (d.m = 0 → q = 0 ∧ t = 0) ∧
      (d.m ≠ 0 → IsRNE 24 ((scale d.m d.e).1 * 2 ^ 149) (scale d.m d.e).2 q t) := by
  simp only [toF32Bits] at h
  cases hb : toBits f32 lit with
  | error e => rw [hb] at h; cases h
  | ok bits =>
    rw [hb] at h
    simp only [Except.map, Except.ok.injEq] at h
    obtain ⟨d, q, t, h1, h2, h3, h4, h5, h6⟩ := toBits_correctly_rounded f32 f32_ok lit bits hb
    refine ⟨d, q, t, h1, ?_, h3.1, h3.2, h4, h5, h6⟩
    have hlt := bits_lt f32 (by decide) q t d.neg h3 (by
      have : f32.tmax = 253 := rfl
      have : (2 : Nat) ^ f32.ebits = 256 := by decide
      omega)
    rw [← h2] at hlt
    have hs : 2 * signBit f32 = 2 ^ 32 := by decide
    rw [hs] at hlt
    rw [← h, UInt32.toNat_ofNat', Nat.mod_eq_of_lt hlt, h2]
    rfl

/-- the specification pins the result down: any canonical pair that is a round-half-even image of the
    literal is the one `toBits` returns (so "correctly rounded" leaves no freedom, ties included) -/
theorem correctly_rounded_unique (f : Fmt) (hf : f.Ok) (lit : Bytes) (bits : Nat) (d : Dec)
    (h : toBits f lit = .ok bits) (hd : parseDec lit = some d) (hm : d.m ≠ 0) (q' t' : Nat)
    (hr : IsRNE f.prec ((scale d.m d.e).1 * 2 ^ f.bias) (scale d.m d.e).2 q' t') :
    bits = packBits f q' t' + (if d.neg then signBit f else 0) := by
  obtain ⟨d0, q, t, h1, h2, _, _, _, h6⟩ := toBits_correctly_rounded f hf lit bits h
  rw [hd] at h1
  cases h1
  obtain ⟨rfl, rfl⟩ := (h6 hm).unique hf.prec_pos (Nat.pos_of_ne_zero (scale_den_ne_zero _ _)) hr
  exact h2

/-- the error bound in the form of the brief: the result is within half a unit in its last place,
    `2 * |N' - q * D * 2^t| ≤ D * 2^t` with `N' = N * 2^bias` (two truncated subtractions) -/
theorem toBits_half_ulp (f : Fmt) (hf : f.Ok) (lit : Bytes) (bits : Nat) (h : toBits f lit = .ok bits) :
    ∃ d q t, parseDec lit = some d ∧ bits = packBits f q t + (if d.neg then signBit f else 0) ∧
      (d.m ≠ 0 →
        2 * ((scale d.m d.e).1 * 2 ^ f.bias - q * ((scale d.m d.e).2 * 2 ^ t)) ≤ (scale d.m d.e).2 * 2 ^ t ∧
        2 * (q * ((scale d.m d.e).2 * 2 ^ t) - (scale d.m d.e).1 * 2 ^ f.bias) ≤ (scale d.m d.e).2 * 2 ^ t) := by
  obtain ⟨d, q, t, h1, h2, _, _, _, h6⟩ := toBits_correctly_rounded f hf lit bits h
  exact ⟨d, q, t, h1, h2, fun hm => (h6 hm).half_ulp hf.prec_pos⟩

/-- the sign of zero is kept: a literal whose digits are all zero (`-0`, `-0.0`, `-0e5`, `0`, ...)
    gives exactly the sign bit -/
theorem neg_zero_kept (f : Fmt) (lit : Bytes) (d : Dec) (h : parseDec lit = some d) (hm : d.m = 0) :
    toBits f lit = .ok (if d.neg then signBit f else 0) := by
  simp only [toBits, h, hm, roundDec_zero, packBits]
  simp

/-- overflow is an error (as in strconv / encoding/json), and exactly when the literal is at least
    `(2^p - 1/2) * 2^tmax` units, i.e. `2^(p+1) * D * 2^tmax ≤ 2 * N * 2^bias + D * 2^tmax`
    (the midpoint between the largest finite value and `2^p * 2^tmax` rounds to even, hence away) -/
theorem overflow_is_error (f : Fmt) (hf : f.Ok) (lit : Bytes) (d : Dec) (h : parseDec lit = some d) :
    toBits f lit = .error .range ↔
      d.m ≠ 0 ∧ 2 ^ (f.prec + 1) * ((scale d.m d.e).2 * 2 ^ f.tmax) ≤
        2 * ((scale d.m d.e).1 * 2 ^ f.bias) + (scale d.m d.e).2 * 2 ^ f.tmax := by
  simp only [toBits, h]
  by_cases hm : d.m = 0
  · rw [hm, roundDec_zero]; simp
  · rw [← roundDec_none_iff f hf d.m d.e hm]
    cases hr : roundDec f d.m d.e with
    | none => simp [hm]
    | some r => simp

/-- the only errors of `toBits` are a malformed literal and overflow -/
theorem toBits_total (f : Fmt) (lit : Bytes) (d : Dec) (h : parseDec lit = some d) :
    (∃ bits, toBits f lit = .ok bits) ∨ toBits f lit = .error .range := by
  simp only [toBits, h]
  cases roundDec f d.m d.e with
  | none => exact Or.inr rfl
  | some r => exact Or.inl ⟨_, rfl⟩

/-! ### literal -> integer: exact, range-checked, integer literals only -/

/-- signed destinations of every width `w`: the literal is accepted iff it is an integer literal
    `-? (0 | [1-9][0-9]*)` (no fraction, no exponent) whose value lies in `[-2^(w-1), 2^(w-1))`, and the
    stored value is that value - never wrapped, never truncated -/
theorem int_exact (w : Nat) (lit : Bytes) (n : Int) :
    fitsInt w lit = .ok n ↔ IsIntLit lit n ∧ - (2 ^ (w - 1) : Int) ≤ n ∧ n < (2 ^ (w - 1) : Int) := by
  constructor
  · intro h
    simp only [fitsInt, intValue] at h
    split at h
    · cases h
    · rename_i v hv
      split at hv
      · cases hv
      · rename_i d hd
        split at hv
        · rename_i hi
          simp only [Except.ok.injEq] at hv
          split at h
          · rename_i hr
            simp only [Except.ok.injEq] at h
            subst h
            obtain ⟨ds, h1, h2, h3, h4, h5⟩ :=
              (parseDec_isInt_iff lit d.neg d.m).mp ⟨d, hd, hi, rfl, rfl⟩
            refine ⟨⟨d.neg, ds, h1, h2, h3, h4, ?_⟩, hr.1, hr.2⟩
            rw [← hv, h5]
          · cases h
        · cases hv
  · rintro ⟨⟨neg, ds, h1, h2, h3, h4, h5⟩, hr1, hr2⟩
    obtain ⟨d, hd, hi, hn, hm⟩ := (parseDec_isInt_iff lit neg (digitsVal ds)).mpr ⟨ds, h1, h2, h3, h4, rfl⟩
    simp only [fitsInt, intValue, hd, hi, if_true, hn, hm]
    rw [← h5]
    simp [hr1, hr2]

/-- unsigned destinations: additionally no minus sign (not even `-0`, as strconv.ParseUint) -/
theorem uint_exact (w : Nat) (lit : Bytes) (n : Nat) :
    fitsUint w lit = .ok n ↔ IsIntLit lit (n : Int) ∧ lit.head? ≠ some 45 ∧ n < 2 ^ w := by
  constructor
  · intro h
    simp only [fitsUint] at h
    split at h
    · cases h
    · rename_i d hd
      split at h
      · cases h
      · rename_i hi
        split at h
        · cases h
        · rename_i hneg
          split at h
          · rename_i hr
            simp only [Except.ok.injEq] at h
            subst h
            have hi' : d.isInt = true := by simpa using hi
            have hneg' : d.neg = false := by simpa using hneg
            obtain ⟨ds, h1, h2, h3, h4, h5⟩ :=
              (parseDec_isInt_iff lit d.neg d.m).mp ⟨d, hd, hi', rfl, rfl⟩
            rw [hneg'] at h1
            simp only [Bool.false_eq_true, if_false, List.nil_append] at h1
            refine ⟨⟨false, ds, by simpa using h1, h2, h3, h4, by simp [h5]⟩, ?_, hr⟩
            rw [h1]
            cases ds with
            | nil => exact absurd rfl h2
            | cons c r =>
              have hc : isDigit c = true := h3 c (List.mem_cons_self ..)
              intro hh
              simp only [List.head?_cons, Option.some.injEq] at hh
              subst hh
              exact absurd hc (by decide)
          · cases h
  · rintro ⟨⟨neg, ds, h1, h2, h3, h4, h5⟩, hh, hr⟩
    cases neg with
    | true =>
      subst h1
      exact absurd (by simp) hh
    | false =>
      obtain ⟨d, hd, hi, hn, hm⟩ :=
        (parseDec_isInt_iff lit false (digitsVal ds)).mpr ⟨ds, h1, h2, h3, h4, rfl⟩
      have h5' : n = digitsVal ds := by simp only [Bool.false_eq_true, if_false] at h5; omega
      simp only [fitsUint, hd, hi, hn, hm]
      simp [h5' ▸ hr, h5']

/-- a literal with a fraction or an exponent part is never stored into an integer (encoding/json:
    `1.0`, `1e2` into an int are errors, not 1 and 100), and nothing malformed is -/
theorem int_rejects_non_integer_literal (w : Nat) (lit : Bytes) (n : Int) (h : fitsInt w lit = .ok n) :
    ∃ d, parseDec lit = some d ∧ d.isInt = true ∧ d.e = 0 := by
  obtain ⟨⟨neg, ds, h1, h2, h3, h4, _⟩, _⟩ := (int_exact w lit n).mp h
  obtain ⟨d, hd, hi, hn, hm⟩ := (parseDec_isInt_iff lit neg (digitsVal ds)).mpr ⟨ds, h1, h2, h3, h4, rfl⟩
  refine ⟨d, hd, hi, ?_⟩
  unfold parseDec at hd
  split at hd
  · exact (parseInt1_isInt _ _ _ hd hi).2.2.2 ▸ rfl
  · exact (parseInt1_isInt _ _ _ hd hi).2.2.2 ▸ rfl

/-! ### integer -> text -> integer -/

/-- `itoa n` is an integer literal denoting `n` -/
theorem itoa_isIntLit (n : Int) : IsIntLit (itoa n) n := by
  obtain ⟨h1, h2, h3, h4⟩ := natDigits_spec n.natAbs
  simp only [itoa]
  by_cases hn : n < 0
  · simp only [if_pos hn]
    exact ⟨true, natDigits n.natAbs, rfl, h1, h2, h4, by simp only [if_true]; rw [h3]; omega⟩
  · simp only [if_neg hn]
    exact ⟨false, natDigits n.natAbs, rfl, h1, h2, h4, by simp only [Bool.false_eq_true, if_false]; rw [h3]; omega⟩

/-- every integer survives formatting and parsing -/
theorem int_roundtrip (n : Int) : intValue (itoa n) = .ok n := by
  obtain ⟨neg, ds, h1, h2, h3, h4, h5⟩ := itoa_isIntLit n
  obtain ⟨d, hd, hi, hn, hm⟩ := (parseDec_isInt_iff (itoa n) neg (digitsVal ds)).mpr ⟨ds, h1, h2, h3, h4, rfl⟩
  simp only [intValue, hd, hi, if_true, hn, hm]
  rw [← h5]

/-- and into every width that holds it -/
theorem int_roundtrip_width (w : Nat) (n : Int) (h1 : - (2 ^ (w - 1) : Int) ≤ n) (h2 : n < (2 ^ (w - 1) : Int)) :
    fitsInt w (itoa n) = .ok n :=
  (int_exact w (itoa n) n).mpr ⟨itoa_isIntLit n, h1, h2⟩

theorem uint_roundtrip_width (w : Nat) (n : Nat) (h : n < 2 ^ w) : fitsUint w (itoa n) = .ok n := by
  refine (uint_exact w (itoa n) n).mpr ⟨itoa_isIntLit n, ?_, h⟩
  have hn : ¬ ((n : Int) < 0) := by omega
  simp only [itoa, if_neg hn, Int.natAbs_natCast]
  obtain ⟨h1, h2, _, _⟩ := natDigits_spec n
  cases hd : natDigits n with
  | nil => exact absurd hd h1
  | cons c r =>
    intro hh
    simp only [List.head?_cons, Option.some.injEq] at hh
    subst hh
    have : isDigit 45 = true := h2 45 (by rw [hd]; exact List.mem_cons_self ..)
    exact absurd this (by decide)

/-! ### float -> text -/

/-- whatever `fmtBits` prints parses back to the very same bits (sign of zero included): the round
    trip is checked by the definition itself -/
theorem fmt_roundtrip (f : Fmt) (th : Thresh) (bits : Nat) (txt : Bytes)
    (h : fmtBits f th bits = some txt) : toBits f txt = .ok bits :=
  fmtBits_roundtrip f th bits txt h

theorem fmtF64_roundtrip (b : UInt64) (txt : Bytes) (h : fmtF64 b = some txt) : toF64Bits txt = .ok b := by
  have := fmt_roundtrip f64 thresh64 b.toNat txt h
  simp [toF64Bits, this, Except.map]

theorem fmtF32_roundtrip (b : UInt32) (txt : Bytes) (h : fmtF32 b = some txt) : toF32Bits txt = .ok b := by
  have := fmt_roundtrip f32 thresh32 b.toNat txt h
  simp [toF32Bits, this, Except.map]

/-- shortest, as far as it holds by construction of the search: `E` is the decimal exponent of the
    value (`10^E ≤ q * 2^t / 2^bias < 10^(E+1)`), the digits returned for `(q, t)` round back to `(q, t)`,
    come from the two neighbours of the exact value with `k'` digits (`candidates_are_neighbours`), and
    with fewer digits neither neighbour of the exact value rounds back.
    PARTIAL: "no shorter digit string at all round-trips" needs in addition that rounding is monotone
    (a decimal further from the value than a neighbour cannot round back when the neighbour does not);
    that lemma is not proved here.  The correspondence runs compare the digit strings with
    strconv's shortest formatting on every case. -/
theorem fmt_shortest_partial (f : Fmt) (q t : Nat) (c : Nat × Int) (h : shortest f q t = some c) :
    pow10Le (floorLog10 (q * 2 ^ t) (2 ^ f.bias)) (q * 2 ^ t) (2 ^ f.bias) = true ∧
    pow10Le (floorLog10 (q * 2 ^ t) (2 ^ f.bias) + 1) (q * 2 ^ t) (2 ^ f.bias) = false ∧
    ∃ k', 1 ≤ k' ∧ k' ≤ 17 ∧
      c ∈ candidates (q * 2 ^ t) (2 ^ f.bias) (floorLog10 (q * 2 ^ t) (2 ^ f.bias)) k' ∧
      roundDec f c.1 c.2 = some (q, t) ∧
      ∀ k'', 1 ≤ k'' → k'' < k' →
        ∀ c' ∈ candidates (q * 2 ^ t) (2 ^ f.bias) (floorLog10 (q * 2 ^ t) (2 ^ f.bias)) k'',
          roundDec f c'.1 c'.2 ≠ some (q, t) := by
  simp only [shortest] at h
  split at h
  · rename_i hE
    simp only [Bool.and_eq_true, Bool.not_eq_true'] at hE
    obtain ⟨k', h1, h2, h3, h4, h5⟩ := searchDigits_spec f q t _ _ _ 17 1 c h
    refine ⟨hE.1, hE.2, k', h1, by omega, h3, by simpa [roundsTo] using h4, ?_⟩
    intro k'' hk1 hk2 c' hc'
    have := h5 k'' hk1 hk2 c' hc'
    simpa [roundsTo] using this
  · cases h

/-- the candidates of the search are exactly the two neighbours of the exact value `N / D` on the grid
    `10^j`, `j = E - k + 1`: `lo * 10^j ≤ N / D < (lo + 1) * 10^j` (written without division) -/
theorem candidates_are_neighbours (N D : Nat) (hD : 0 < D) (E : Int) (k : Nat) (c : Nat × Int)
    (h : c ∈ candidates N D E k) :
    ∃ lo, c.2 = E - (k : Int) + 1 ∧ (c.1 = lo ∨ c.1 = lo + 1) ∧
      (0 ≤ c.2 → lo * (D * 10 ^ c.2.toNat) ≤ N ∧ N < (lo + 1) * (D * 10 ^ c.2.toNat)) ∧
      (c.2 < 0 → lo * D ≤ N * 10 ^ (-c.2).toNat ∧ N * 10 ^ (-c.2).toNat < (lo + 1) * D) := by
  obtain ⟨h1, h2⟩ := candidates_mem N D E k c h
  obtain ⟨h3, h4⟩ := floorScaled_spec N D (E - (k : Int) + 1) hD
  exact ⟨floorScaled N D (E - (k : Int) + 1), h1, h2, h1 ▸ h3, h1 ▸ h4⟩

/-! ### float -> text, full strength (wave 2) -/

/-- correct rounding is monotone: a smaller rational never rounds to a larger float (values `q * 2^t`
    in units of the smallest subnormal) -/
theorem rounding_monotone (p N1 D1 N2 D2 q1 t1 q2 t2 : Nat) (hp : 1 ≤ p) (hD1 : 0 < D1) (hD2 : 0 < D2)
    (hle : N1 * D2 ≤ N2 * D1) (h1 : IsRNE p N1 D1 q1 t1) (h2 : IsRNE p N2 D2 q2 t2) :
    q1 * 2 ^ t1 ≤ q2 * 2 ^ t2 :=
  IsRNE.mono hp hD1 hD2 hle h1 h2

/-- SHORTEST, full strength.  For a finite float `(q, t)` the digits found by the search have at most
    `k'` digits (`< 10^k'` after stripping trailing zeros), round back to `(q, t)`, and NO decimal
    `d' * 10^j'` whatsoever with fewer than `k'` digits (`0 < d' < 10^(k'-1)`, any exponent `j'`) rounds to
    `(q, t)`.  Moreover `k' ≤ K` whenever `2^p < 10^(K-1)`: at most 17 digits for binary64, 9 for binary32. -/
theorem fmt_shortest (f : Fmt) (hf : f.Ok) (q t : Nat) (hc : Canonical f.prec q t) (ht : t ≤ f.tmax)
    (c : Nat × Int) (h : shortest f q t = some c) :
    ∃ k', 1 ≤ k' ∧ k' ≤ 17 ∧ (stripZeros 20 c.1 c.2).1 < 10 ^ k' ∧ roundDec f c.1 c.2 = some (q, t) ∧
      (∀ (d' : Nat) (j' : Int), d' ≠ 0 → d' < 10 ^ (k' - 1) → roundDec f d' j' ≠ some (q, t)) ∧
      (∀ K, 1 ≤ K → 2 ^ f.prec < 10 ^ (K - 1) → k' ≤ K) := by
  obtain ⟨k', a, b, _, d, e, g, i⟩ := shortest_full f hf q t hc ht c h
  exact ⟨k', a, b, d, e, g, i⟩

/-- 17 significant digits always suffice for binary64 and 9 for binary32 -/
theorem fmt_digits_f64 (q t : Nat) (hc : Canonical 53 q t) (ht : t ≤ 2045) (c : Nat × Int)
    (h : shortest f64 q t = some c) : (stripZeros 20 c.1 c.2).1 < 10 ^ 17 := by
  obtain ⟨k', _, b, d, _, _, _⟩ := fmt_shortest f64 f64_ok q t hc ht c h
  exact Nat.lt_of_lt_of_le d (Nat.pow_le_pow_right (by decide) b)

theorem fmt_digits_f32 (q t : Nat) (hc : Canonical 24 q t) (ht : t ≤ 253) (c : Nat × Int)
    (h : shortest f32 q t = some c) : (stripZeros 20 c.1 c.2).1 < 10 ^ 9 := by
  obtain ⟨k', _, _, d, _, _, i⟩ := fmt_shortest f32 f32_ok q t hc ht c h
  have := i 9 (by decide) (by decide)
  exact Nat.lt_of_lt_of_le d (Nat.pow_le_pow_right (by decide) this)

/-- TOTAL: every finite bit pattern of the format's width has a text (so `fmt_roundtrip` is never
    vacuous): the search succeeds by 17 digits and both layouts parse back to the same bits -/
theorem fmt_total (f : Fmt) (hf : f.Ok) (hfin : f.Fin) (th : Thresh) (bits : Nat)
    (hb : bits < 2 * signBit f) (hfinite : (fields f (bits % signBit f)).1 ≠ 2 ^ f.ebits - 1) :
    ∃ txt, fmtBits f th bits = some txt :=
  fmtBits_isSome f hf hfin th bits hb hfinite

/-- `fmtF64 b = none` exactly for NaN and the infinities (exponent field all ones) -/
theorem fmtF64_none_iff (b : UInt64) : fmtF64 b = none ↔ b.toNat % 2 ^ 63 / 2 ^ 52 = 2047 := by
  have hs : signBit f64 = 2 ^ 63 := by decide
  have hf : (fields f64 (b.toNat % 2 ^ 63)).1 = b.toNat % 2 ^ 63 / 2 ^ 52 := rfl
  constructor
  · intro h
    apply Classical.byContradiction
    intro hne
    obtain ⟨txt, ht⟩ := fmt_total f64 f64_ok f64_fin thresh64 b.toNat (by rw [hs]; exact b.toNat_lt)
      (by rw [hs, hf]; exact hne)
    simp only [fmtF64] at h
    rw [h] at ht
    cases ht
  · intro h
    simp only [fmtF64, fmtBits, fmtBitsRaw, hs, hf, h]
    rfl

/-- `fmtF32 b = none` exactly for NaN and the infinities -/
theorem fmtF32_none_iff (b : UInt32) : fmtF32 b = none ↔ b.toNat % 2 ^ 31 / 2 ^ 23 = 255 := by
  have hs : signBit f32 = 2 ^ 31 := by decide
  have hf : (fields f32 (b.toNat % 2 ^ 31)).1 = b.toNat % 2 ^ 31 / 2 ^ 23 := rfl
  constructor
  · intro h
    apply Classical.byContradiction
    intro hne
    obtain ⟨txt, ht⟩ := fmt_total f32 f32_ok f32_fin thresh32 b.toNat (by rw [hs]; exact b.toNat_lt)
      (by rw [hs, hf]; exact hne)
    simp only [fmtF32] at h
    rw [h] at ht
    cases ht
  · intro h
    simp only [fmtF32, fmtBits, fmtBitsRaw, hs, hf, h]
    rfl

/-- `%e` layout parses to the decimal it denotes: `[-]d[.ddd]e±x` with `x = dp - 1` is
    `(-1)^neg * d * 10^(dp - len)` -/
theorem layout_e_parses (neg : Bool) (d : Nat) (hd : d ≠ 0) (dp : Int) :
    parseDec ((if neg then [45] else []) ++ fmtE (natDigits d) dp) =
      some { neg := neg, m := d, e := dp - ((natDigits d).length : Int), isInt := false } :=
  parseDec_sign neg _ _ (parse_fmtE neg d hd dp)

/-- `%f` layout parses to the same decimal (`m * 10^e = d * 10^(dp - len)`; written as an integer
    literal `d00..0` when `dp ≥ len`) -/
theorem layout_f_parses (neg : Bool) (d : Nat) (hd : d ≠ 0) (dp : Int) :
    ∃ m e isI, parseDec ((if neg then [45] else []) ++ fmtF (natDigits d) dp) =
        some { neg := neg, m := m, e := e, isInt := isI } ∧
      ((m = d ∧ e = dp - ((natDigits d).length : Int)) ∨
       (0 ≤ dp - ((natDigits d).length : Int) ∧ m = d * 10 ^ (dp - ((natDigits d).length : Int)).toNat ∧ e = 0)) := by
  obtain ⟨m, e, isI, h1, h2⟩ := parse_fmtF neg d hd dp
  exact ⟨m, e, isI, parseDec_sign neg _ _ h1, h2⟩

/-- NOTATION = encoding/json's.  For finite non-zero bits with shortest digits `d` (stripped) and
    decimal exponent `X` (`d.ddd * 10^X`): the text is the sign followed by the `%e` layout when
    `X < -6 ∨ 21 ≤ X` and by the `%f` layout otherwise; and that condition on the decimal exponent is
    exactly encoding/json's comparison of the float with 1e-6 and 1e21 in the float's own width
    (`|x| < 1e-6 || |x| >= 1e21` on the magnitude bits; `thresh64_ok`, `thresh32_ok`). -/
theorem fmt_notation_matches_encoding_json (f : Fmt) (hf : f.Ok) (hfin : f.Fin) (th : Thresh) (hth : th.Ok f)
    (bits : Nat) (hfinite : (fields f (bits % signBit f)).1 < 2 ^ f.ebits - 1) (hmag : bits % signBit f ≠ 0)
    (d : Nat) (j : Int) (hs : shortDigits f (bits % signBit f) = some (d, j)) :
    (decExp d j < -6 ∨ 21 ≤ decExp d j ↔ bits % signBit f < th.lo ∨ th.hi ≤ bits % signBit f) ∧
    fmtBitsRaw f th bits = some ((if bits / signBit f % 2 = 1 then [45] else []) ++
      (if decExp d j < -6 ∨ 21 ≤ decExp d j then fmtE (natDigits d) (decExp d j + 1)
       else fmtF (natDigits d) (decExp d j + 1))) := by
  have h1 := decExp_ge_iff f hf hfin _ th.lo (-6) hfinite hth.lo_fin hmag hth.lo_round hth.lo_short d j hs
  have h2 := decExp_ge_iff f hf hfin _ th.hi 21 hfinite hth.hi_fin hmag hth.hi_round hth.hi_short d j hs
  have hiff : decExp d j < -6 ∨ 21 ≤ decExp d j ↔ bits % signBit f < th.lo ∨ th.hi ≤ bits % signBit f := by
    constructor
    · rintro (h | h)
      · left
        apply Classical.byContradiction
        intro hc
        have := h1.mpr (by omega)
        omega
      · exact Or.inr (h2.mp h)
    · rintro (h | h)
      · left
        apply Classical.byContradiction
        intro hc
        have := h1.mp (by omega)
        omega
      · exact Or.inr (h2.mpr h)
  refine ⟨hiff, ?_⟩
  rw [fmtBitsRaw_nonzero f th bits (by omega) hmag d j hs]
  have e : decExp d j + 1 = ((natDigits d).length : Int) + j := by simp only [decExp]; omega
  rw [e]
  by_cases hcnd : decExp d j < -6 ∨ 21 ≤ decExp d j
  · have h' : bits % signBit f < th.lo ∨ bits % signBit f ≥ th.hi := hiff.mp hcnd
    simp only [if_pos hcnd, if_pos h']
  · have h' : ¬ (bits % signBit f < th.lo ∨ bits % signBit f ≥ th.hi) := fun h => hcnd (hiff.mpr h)
    simp only [if_neg hcnd, if_neg h']

/-! ### non-vacuity: the definitions compute the familiar values -/

private def lit (s : String) : Bytes := s.toUTF8.toList

-- correctly rounded, including a tie (2^53 + 1 is half way: to even), subnormals and the limits
example : (toBits f64 (lit "1")).toOption = some 0x3ff0000000000000 := by decide +kernel
example : (toBits f64 (lit "0.1")).toOption = some 0x3fb999999999999a := by decide +kernel
example : (toBits f64 (lit "9007199254740993")).toOption = some 0x4340000000000000 := by decide +kernel
example : (toBits f64 (lit "9007199254740995")).toOption = some 0x4340000000000002 := by decide +kernel
example : (toBits f64 (lit "1e23")).toOption = some 0x44b52d02c7e14af6 := by decide +kernel
example : (toBits f64 (lit "5e-324")).toOption = some 1 := by decide +kernel
example : (toBits f64 (lit "2.4703282292062327e-324")).toOption = some 0 := by decide +kernel
example : (toBits f64 (lit "2.4703282292062328e-324")).toOption = some 1 := by decide +kernel
example : (toBits f64 (lit "1.7976931348623157e308")).toOption = some 0x7fefffffffffffff := by decide +kernel
example : (toBits f64 (lit "1.7976931348623158e308")).toOption = some 0x7fefffffffffffff := by decide +kernel
example : (toBits f64 (lit "1.7976931348623159e308")).toOption = none := by decide +kernel
example : (toBits f64 (lit "1e99999999999999999999")).toOption = none := by decide +kernel
example : (toBits f64 (lit "1e-99999999999999999999")).toOption = some 0 := by decide +kernel
-- sign of zero
example : (toBits f64 (lit "-0")).toOption = some 0x8000000000000000 := by decide +kernel
example : (toBits f64 (lit "-0.0e7")).toOption = some 0x8000000000000000 := by decide +kernel
example : (toBits f32 (lit "-0")).toOption = some 0x80000000 := by decide +kernel
-- float32 is rounded once: 1 + 2^-24 + 2^-60 is above the float32 tie, its float64 rounding is the tie
example : (toBits f32 (lit "1.00000005960464477626")).toOption = some 0x3f800001 := by decide +kernel
example : (f32ViaF64 (lit "1.00000005960464477626")).toOption = some 0x3f800000 := by decide +kernel
-- malformed literals
example : (toBits f64 (lit "01")).toOption = none ∧ parseDec (lit "01") = none ∧ parseDec (lit "1.") = none ∧
    parseDec (lit "-") = none ∧ parseDec (lit ".5") = none ∧ parseDec (lit "1e") = none ∧
    parseDec (lit "+1") = none := by decide +kernel
-- integers
example : (fitsInt 8 (lit "127")).toOption = some 127 ∧ (fitsInt 8 (lit "128")).toOption = none ∧
    (fitsInt 8 (lit "-128")).toOption = some (-128) ∧ (fitsInt 8 (lit "-129")).toOption = none ∧
    (fitsInt 64 (lit "9223372036854775807")).toOption = some 9223372036854775807 ∧
    (fitsInt 64 (lit "9223372036854775808")).toOption = none ∧
    (fitsInt 64 (lit "1.0")).toOption = none ∧ (fitsInt 64 (lit "1e2")).toOption = none ∧
    (fitsInt 64 (lit "-0")).toOption = some 0 ∧
    (fitsUint 64 (lit "18446744073709551615")).toOption = some 18446744073709551615 ∧
    (fitsUint 64 (lit "18446744073709551616")).toOption = none ∧
    (fitsUint 8 (lit "-0")).toOption = none := by decide +kernel
-- formatting: notation thresholds and exponent clean-up
example : fmtBits f64 thresh64 0x3fb999999999999a = some (lit "0.1") := by decide +kernel
example : fmtBits f64 thresh64 0x444b1ae4d6e2ef50 = some (lit "1e+21") := by decide +kernel
example : fmtBits f64 thresh64 0x444b1ae4d6e2ef4f = some (lit "999999999999999900000") := by decide +kernel
example : fmtBits f64 thresh64 0x3eb0c6f7a0b5ed8d = some (lit "0.000001") := by decide +kernel
example : fmtBits f64 thresh64 0x3eb0c6f7a0b5ed8c = some (lit "9.999999999999997e-7") := by decide +kernel
example : fmtBits f64 thresh64 0x8000000000000000 = some (lit "-0") := by decide +kernel
example : fmtBits f64 thresh64 1 = some (lit "5e-324") := by decide +kernel
example : fmtBits f64 thresh64 0x7fefffffffffffff = some (lit "1.7976931348623157e+308") := by decide +kernel
example : fmtBits f64 thresh64 0x7ff0000000000000 = none := by decide +kernel
example : fmtBits f32 thresh32 0x3dcccccd = some (lit "0.1") := by decide +kernel
example : fmtBits f32 thresh32 0x7f7fffff = some (lit "3.4028235e+38") := by decide +kernel
example : itoa (-9223372036854775808) = lit "-9223372036854775808" ∧ itoa 0 = lit "0" := by decide +kernel

end SonicSpec.Props.C19
