/-
  C08 - codecs are safe and deterministic under arbitrary concurrent use.
  Property theorems only (helper lemmas in Proofs/ConcPMap.lean, Proofs/ConcRCU.lean).

  What the model carries: the open-addressing table of `internal/caching/pcache.go` for EVERY hash
  function (so any collision pattern), and `ProgramCache.Get/Compute` as an interleaving system over
  every schedule of any number of threads, at the granularity "one atomic load / store / lock / unlock
  / pure computation on a private snapshot per step".
  NOT exhibited by the model (partial by nature, see DESIGN 1.3): data races below that granularity and
  the Go memory model itself (the `-race` streams of the check validate them at run time), uint32
  wrap-around of the capacity (tables ≥ 2^31 buckets), the generated machine code.
-/
import SonicSpec.Proofs.ConcRCU
namespace SonicSpec.Props.C08
open SonicSpec.Conc SonicSpec.Conc.PMap
variable {κ γ : Type} [DecidableEq κ]

/-! ### the table -/

/-- the freshly created table satisfies the invariant (`newProgramMap`, any power-of-two capacity) -/
theorem inv_new (hash : κ → Nat) (e : Nat) : Inv hash (empty (2 ^ e) : PMap κ γ) :=
  inv_empty hash e

/-- `insert` never reaches `panic("no available slots")` on a table that is not full - in particular
    on every table satisfying `Inv` and on every intermediate table of `rehash` -/
theorem insert_never_panics (hash : κ → Nat) (m : PMap κ γ) (h : WF hash m) (hn : m.n < m.mask + 1) (k : κ) :
    ∃ p, probeFree m.b m.mask (m.mask + 1) (hash k &&& m.mask) = some p := by
  obtain ⟨e, he⟩ := h.pow2
  rw [and_mask he]
  exact probeFree_exists m.b m.mask (m.mask + 1) (by omega) (and_mask he) h.len (by rw [← h.cnt]; exact hn)
    _ (Nat.mod_lt _ (by omega))

/-- `Inv` (power-of-two capacity, count exact, no key twice, no tombstones: every entry reachable from
    its home bucket, load factor ≤ 1/2) is preserved by `add` of a key that is not yet present -/
theorem inv_add (hash : κ → Nat) (m : PMap κ γ) (h : Inv hash m) (k : κ) (v : γ)
    (hk : get hash m k = none) : Inv hash (add hash m k v) :=
  (add_spec hash m h k v ((get_none_iff hash m h.1 k).1 hk)).1

/-- ... and by `rehash`, which keeps every binding -/
theorem inv_rehash (hash : κ → Nat) (m : PMap κ γ) (h : Inv hash m) :
    Inv hash (rehash hash m) ∧ ∀ k, get hash (rehash hash m) k = get hash m k := by
  obtain ⟨w, hn, hm, hmem⟩ := rehash_spec hash m h.1
  refine ⟨⟨w, by have := h.2; omega⟩, ?_⟩
  intro k
  cases hg : get hash m k with
  | none =>
    rw [get_none_iff hash _ w]
    intro v hv
    exact (get_none_iff hash m h.1 k).1 hg v ((hmem k v).1 hv)
  | some v =>
    rw [get_iff hash _ w]
    exact (hmem k v).2 ((get_iff hash m h.1 k v).1 hg)

/-- the table is a finite map: after `add m k v` (k not yet present - what the re-check of `Compute`
    under the mutex establishes) every lookup answers as the specification `Cache` does.
    For every hash function, i.e. including total collisions; across the rehash when one happens. -/
theorem pmap_get_add (hash : κ → Nat) (m : PMap κ γ) (h : Inv hash m) (k : κ) (v : γ)
    (hk : get hash m k = none) (k' : κ) :
    get hash (add hash m k v) k' = if k' = k then some v else get hash m k' := by
  obtain ⟨hi, _, hmem⟩ := add_spec hash m h k v ((get_none_iff hash m h.1 k).1 hk)
  by_cases hkk : k' = k
  · subst hkk
    rw [if_pos rfl, get_iff hash _ hi.1]
    exact (hmem k' v).2 (Or.inl ⟨rfl, rfl⟩)
  · rw [if_neg hkk]
    cases hg : get hash m k' with
    | none =>
      rw [get_none_iff hash _ hi.1]
      intro v' hv'
      rcases (hmem k' v').1 hv' with ⟨h1, _⟩ | hv'
      · exact hkk h1
      · exact (get_none_iff hash m h.1 k').1 hg v' hv'
    | some v' =>
      rw [get_iff hash _ hi.1]
      exact (hmem k' v').2 (Or.inr ((get_iff hash m h.1 k' v').1 hg))

/-- the hypothesis `get m k = none` of `pmap_get_add` is forced: `add` does not look for an existing
    binding, so adding a present key again leaves the OLD codec visible (this is why `Compute`
    re-checks under the mutex, pcache.go:167) -/
theorem pmap_add_present_key_keeps_old :
    ∃ (m : PMap Nat Nat), Inv (fun k => k) m ∧ get (fun k => k) (add (fun k => k) m 1 20) 1 ≠ some 20 := by
  refine ⟨add (fun k => k) (empty (2 ^ 3)) 1 10, ?_, by decide⟩
  exact inv_add _ _ (inv_empty _ 3) 1 10 (by decide)

/-- what `Compute` does to the table under the mutex: re-check, then `add` only a key that is absent -/
def addAbsent (hash : κ → Nat) (m : PMap κ γ) (kv : κ × γ) : PMap κ γ :=
  if (get hash m kv.1).isNone then add hash m kv.1 kv.2 else m

/-- the specification: a finite map in which the FIRST binding of a key wins -/
def specAddAbsent (s : κ → Option γ) (kv : κ × γ) : κ → Option γ :=
  fun k' => if (s kv.1).isNone ∧ k' = kv.1 then some kv.2 else s k'

/-- refinement over whole histories: from ANY table satisfying `Inv` that agrees with a specification
    map, any sequence of guarded additions - of any length, i.e. across any number of rehashes, for any
    hash function, with repeated keys - keeps `Inv` and answers every lookup as the specification does -/
theorem pmap_refines_map_from (hash : κ → Nat) (kvs : List (κ × γ)) :
    ∀ (m : PMap κ γ) (s : κ → Option γ), Inv hash m → (∀ k, get hash m k = s k) →
      Inv hash (kvs.foldl (addAbsent hash) m) ∧
      ∀ k, get hash (kvs.foldl (addAbsent hash) m) k = (kvs.foldl specAddAbsent s) k := by
  induction kvs with
  | nil => intro m s h hs; exact ⟨h, hs⟩
  | cons kv kvs ih =>
    intro m s h hs
    rw [List.foldl_cons, List.foldl_cons]
    apply ih
    · unfold addAbsent
      split
      · rename_i hn
        exact inv_add hash m h kv.1 kv.2 (Option.isNone_iff_eq_none.1 hn)
      · exact h
    · intro k
      unfold addAbsent specAddAbsent
      rw [← hs kv.1]
      by_cases hn : (get hash m kv.1).isNone = true
      · rw [if_pos hn, pmap_get_add hash m h kv.1 kv.2 (Option.isNone_iff_eq_none.1 hn) k, ← hs k]
        by_cases hk : k = kv.1
        · rw [if_pos hk, if_pos ⟨hn, hk⟩]
        · rw [if_neg hk, if_neg (fun hc => hk hc.2)]
      · rw [if_neg hn, if_neg (fun hc => hn hc.1)]
        exact hs k

/-- ... in particular from the table `newProgramMap` creates: the cache IS a first-writer-wins map -/
theorem pmap_refines_map (hash : κ → Nat) (e : Nat) (kvs : List (κ × γ)) :
    Inv hash (kvs.foldl (addAbsent hash) (empty (2 ^ e) : PMap κ γ)) ∧
    ∀ k, get hash (kvs.foldl (addAbsent hash) (empty (2 ^ e) : PMap κ γ)) k =
      (kvs.foldl specAddAbsent (fun _ => none)) k :=
  pmap_refines_map_from hash kvs _ _ (inv_empty hash e)
    (fun k => (get_none_iff hash _ (wf_empty hash e) k).2 (fun v => mem_empty _ k v))

/-- the specification in closed form: a lookup returns the FIRST binding of the key in the history -/
theorem spec_lookup_first (kvs : List (κ × γ)) : ∀ (s : κ → Option γ) (k : κ),
    (kvs.foldl specAddAbsent s) k =
      (s k).or ((kvs.find? (fun kv => decide (kv.1 = k))).map (·.2)) := by
  induction kvs with
  | nil => intro s k; simp
  | cons kv kvs ih =>
    intro s k
    rw [List.foldl_cons, ih, List.find?_cons]
    unfold specAddAbsent
    by_cases hk : kv.1 = k
    · subst hk
      cases hs : s kv.1 <;> simp
    · have hk' : ¬ k = kv.1 := fun h => hk h.symm
      simp [hk, hk']

/-- ... hence the codec a type is served by is the one published first for exactly that key, whatever
    was added before or after it, however many rehashes happened, whatever collides with it -/
theorem pmap_lookup_first (hash : κ → Nat) (e : Nat) (kvs : List (κ × γ)) (k : κ) :
    get hash (kvs.foldl (addAbsent hash) (empty (2 ^ e) : PMap κ γ)) k =
      (kvs.find? (fun kv => decide (kv.1 = k))).map (·.2) := by
  rw [(pmap_refines_map hash e kvs).2 k, spec_lookup_first]
  simp

/-- when the binding of a key is a function of the key (the codec compiled for that type): a lookup
    depends only on WHETHER the key was ever requested - not on the order of requests, how often they
    were repeated, which other keys were requested, the initial capacity or the hash function -/
theorem lookup_depends_on_membership_only (hash : κ → Nat) (e : Nat) (codec : κ → γ) (ks : List κ) (k : κ) :
    get hash ((ks.map fun x => (x, codec x)).foldl (addAbsent hash) (empty (2 ^ e) : PMap κ γ)) k =
      if k ∈ ks then some (codec k) else none := by
  rw [pmap_lookup_first]
  induction ks with
  | nil => simp
  | cons x r ih =>
    rw [List.map_cons, List.find?_cons]
    by_cases hx : x = k
    · subst hx; simp
    · have hx' : ¬ k = x := fun h => hx h.symm
      simp only [hx, decide_false, List.mem_cons, hx', false_or]
      exact ih

/-- the executable check that the driver applies to every table dumped from the REAL `ProgramCache`
    after a racing round (`pcrace`) is sound for the invariant of these theorems -/
theorem invCheck_sound (hash : κ → Nat) (m : PMap κ γ) (h : invCheck hash m = true) : Inv hash m :=
  invCheck_inv hash m h

/-! ### the RCU cache under every schedule -/

/-- for every number of threads, every script per thread and every schedule: the published table
    satisfies `Inv` and maps each key to the codec computed for THAT key -/
theorem rcu_inv (hash : κ → Nat) (compile : κ → Option γ) (e : Nat) (progs : Tid → List (Op κ))
    (sched : List Tid) :
    let s := run hash compile (init e progs) sched
    Inv hash s.pub ∧ ∀ k v, get hash s.pub k = some v → compile k = some v := by
  intro s
  have h := rinv_run hash compile sched _ (rinv_init hash compile e progs)
  exact ⟨h.pub.1, fun k v hg => pubok_get hash compile _ h.pub k v hg⟩

/-- mutual exclusion: at most one thread is between `Lock` and `Unlock` of `Compute` -/
theorem rcu_mutex (hash : κ → Nat) (compile : κ → Option γ) (e : Nat) (progs : Tid → List (Op κ))
    (sched : List Tid) (t₁ t₂ : Tid) :
    let s := run hash compile (init e progs) sched
    (s.threads t₁).pc.critical = true → (s.threads t₂).pc.critical = true → t₁ = t₂ := by
  intro s h1 h2
  have h := rinv_run hash compile sched _ (rinv_init hash compile e progs)
  have a := (h.lock t₁).1 h1
  have b := (h.lock t₂).1 h2
  rw [a] at b
  cases b
  rfl

/-- every completed call returned what it returns when run alone: `Compute k` and `FindOrCompile k`
    the codec compiled for `k` (or the compile error, `none`), `Get k` that codec or a miss -/
theorem rcu_linearizable (hash : κ → Nat) (compile : κ → Option γ) (e : Nat) (progs : Tid → List (Op κ))
    (sched : List Tid) (t : Tid) (op : Op κ) (r : Option γ) :
    let s := run hash compile (init e progs) sched
    (op, r) ∈ (s.threads t).done →
      match op with
      | .get k => r = none ∨ r = compile k
      | .compute k => r = compile k
      | .find k => r = compile k := by
  intro s hm
  have h := rinv_run hash compile sched _ (rinv_init hash compile e progs)
  have := h.dones t op r hm
  cases op <;> exact this

/-- a published codec stays published: from any reachable state on, whatever is scheduled next, a
    lookup that succeeded keeps succeeding with the same codec (so a `Get` issued after a completed
    `Compute k` can no longer miss) -/
theorem rcu_published_stays (hash : κ → Nat) (compile : κ → Option γ) (e : Nat)
    (progs : Tid → List (Op κ)) (sched more : List Tid) (k : κ) (v : γ) :
    get hash (run hash compile (init e progs) sched).pub k = some v →
    get hash (run hash compile (init e progs) (sched ++ more)).pub k = some v := by
  intro hg
  have h := rinv_run hash compile sched _ (rinv_init hash compile e progs)
  have h' := rinv_run hash compile more _ h
  have e1 : run hash compile (init e progs) (sched ++ more)
      = run hash compile (run hash compile (init e progs) sched) more := by
    simp [run, List.foldl_append]
  rw [e1, get_iff hash _ h'.pub.1.1]
  exact pub_mono_run hash compile more k v _ h ((get_iff hash _ h.pub.1.1 k v).1 hg)

/-- a key whose compilation succeeds is handed to the compiler at most once in the whole execution,
    and exactly once if it is published -/
theorem compile_once_per_publication (hash : κ → Nat) (compile : κ → Option γ) (e : Nat)
    (progs : Tid → List (Op κ)) (sched : List Tid) (k : κ) (hk : compile k ≠ none) :
    let s := run hash compile (init e progs) sched
    s.compiles.count k ≤ 1 ∧ (get hash s.pub k ≠ none → s.compiles.count k = 1) := by
  intro s
  have hr := rinv_run hash compile sched _ (rinv_init hash compile e progs)
  have hc := cinv_run hash compile sched _ (rinv_init hash compile e progs) (cinv_init compile e progs)
  rcases hc k hk with ⟨h1, h2, _⟩ | ⟨h1, _⟩
  · have h1' : s.compiles.count k = 0 := h1
    refine ⟨by omega, ?_⟩
    intro hg
    exfalso
    apply hg
    exact (get_none_iff hash _ hr.pub.1.1 k).2 h2
  · have h1' : s.compiles.count k = 1 := h1
    exact ⟨by omega, fun _ => h1⟩

/-- sync.Pool hand-off (`newStack`/`freeStack` and the buffer pools): whatever the order of Get / Put /
    GC-drop actions, an object is in at most one place - never in two threads' hands, never both in
    the pool and in a thread's hands (Put is only enabled for an object the thread holds: the
    discipline of `newStack … freeStack` in one call frame, jitdec/decoder.go:83-87) -/
theorem pool_exclusive (acts : List PoolAct) :
    let p := Pool.run acts
    (∀ t₁ t₂ o, (t₁, o) ∈ p.held → (t₂, o) ∈ p.held → t₁ = t₂) ∧
    (∀ t o, (t, o) ∈ p.held → o ∉ p.free) ∧ p.free.Nodup ∧ (p.held.map Prod.snd).Nodup := by
  intro p
  obtain ⟨hn, _⟩ := poolinv_run acts
  rw [List.nodup_append] at hn
  refine ⟨fun t₁ t₂ o h1 h2 => nodup_map_snd_inj hn.2.1 h1 h2, ?_, hn.1, hn.2.1⟩
  intro t o hh hf
  exact hn.2.2 o hf o (List.mem_map.2 ⟨(t, o), hh, rfl⟩) rfl

/-! ### non-vacuity: concrete executions (evaluated by the kernel) -/

section Examples

/-- every key on bucket 0: five colliding keys, three rehashes (capacity 2 → 16), all found -/
example : let m := [1, 2, 3, 4, 5].foldl (fun m k => add (fun _ => 0) m k (k * 10)) (empty (2 ^ 1) : PMap Nat Nat)
    m.mask + 1 = 16 ∧ m.n = 5 ∧ [1, 2, 3, 4, 5, 6].map (get (fun _ => 0) m) = [some 10, some 20, some 30, some 40, some 50, none] := by
  decide

/-- `pmap_refines_map` on total collisions with a repeated key: the second binding of 2 is ignored -/
example : let m := [(1, 10), (2, 20), (2, 99), (3, 30)].foldl (addAbsent (fun _ => 0)) (empty (2 ^ 1) : PMap Nat Nat)
    [1, 2, 3, 4].map (get (fun _ => 0) m) = [some 10, some 20, some 30, none] ∧
    [1, 2, 3, 4].map ([(1, 10), (2, 20), (2, 99), (3, 30)].foldl specAddAbsent (fun _ => none)) =
      [some 10, some 20, some 30, none] := by
  decide

private def progs2 : Tid → List (Op Nat)
  | 0 => [.find 7]
  | 1 => [.find 7, .get 8]
  | _ => []

private def codec (k : Nat) : Option Nat := if k = 9 then none else some (k + 100)

/-- two threads race the first use of key 7 (both miss, both go for the lock): both obtain the same
    codec, the compiler ran once -/
example :
    let s := run (fun k => k) codec (init 1 progs2) [0, 1, 0, 1, 0, 1, 1, 1, 1, 1, 1, 1, 1, 0, 0, 0, 0, 0, 1, 1, 1]
    (s.threads 0).done = [(.find 7, some 107)] ∧ (s.threads 1).done = [(.get 8, none), (.find 7, some 107)] ∧
    s.compiles = [7] ∧ s.mutex = none := by
  decide

end Examples

end SonicSpec.Props.C08
