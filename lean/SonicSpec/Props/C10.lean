/-
  C10 - generated code cooperates with the Go runtime: property theorems.

  Only the part of C10 that is *logic* is stated here: the tables sonic hands to the runtime
  (pc-value tables, pointer bitmaps, frame and argument sizes).  What the runtime then does
  with a live frame (scanning, stack copying, async preemption, write barriers per emitted
  store) is not modelled anywhere - see `vlib/props/C10.py` (assumptions) - and is only
  exercised by the `gcstress` streams.

  Part 1: theorems for every table / every field list (model = transliteration of
          /repo/loader/pcdata.go, /repo/loader/internal/rt/stackmap.go, runtime/symtab.go).
  Part 2: theorems about the facts regenerated from the source on every run
          (`Generated/Frames.lean`, written by go/factx_frames): finite, closed by `decide`.
-/
import SonicSpec.Model.Loader
import SonicSpec.Proofs.Loader
import SonicSpec.Generated.Frames
namespace SonicSpec.Props.C10
open SonicSpec SonicSpec.Loader SonicSpec.Generated.Frames

/-! ## Part 1 - for all tables -/

/-- zig-zag (`binary.PutVarint`) is undone by the runtime's `int32(-(u&1) ^ (u>>1))` -/
theorem zigzag_roundtrip (x : Int) : unzig32 (zigzag x) = x := unzig32_zigzag x

/-- `binary.PutUvarint` is read back by `runtime.readvarint` (and by the single-byte fast path of
    `step`) for every `uint32`, whatever follows in the table -/
theorem varint_roundtrip (x : Nat) (rest : Bytes) (hx : x < 4294967296) :
    readvarint (putUvarint x ++ rest) = some (x, rest) ∧
    readFast (putUvarint x ++ rest) = some (x, rest) :=
  ⟨readvarint_put x rest hx, readFast_put x rest hx⟩

/-- signed: every `int32` delta written by `binary.PutVarint` comes back -/
theorem svarint_roundtrip (x : Int) (rest : Bytes) (hx : InInt32 x) :
    (readvarint (putVarint x ++ rest)).map (fun r => (unzig32 r.1, r.2)) = some (x, rest) := by
  unfold putVarint
  rw [readvarint_put _ rest (zigzag_lt hx)]
  simp [unzig32_zigzag]

/-- THE round trip.  For every table with strictly increasing pcs (> 0), fields inside
    `uint32`/`int32`, and no entry repeating the value before it (-1 before the first entry):
    `MarshalBinary` does not panic, and the Go runtime's `pcvalue` finds, for *every* target pc,
    exactly the value the table means there (`none` = beyond the last entry). -/
theorem pcvalue_roundtrip (t : List Pcvalue) (pc : Nat) (h : WellFormed t) :
    ∃ b, marshalPcdata t = some b ∧ decodePcValue b pc = valueAt t pc :=
  decode_marshal_wf t h pc

/-- The same for EVERY table `MarshalBinary` accepts (pcs merely non-decreasing), with the
    `dv == 0 || dp == 0` skip rule: what the runtime reads back is the meaning of the entries
    that were really written (`emitted`).  Entries that repeat the previous value are *dropped
    together with their pc range* - see `pcvalue_skip_loses_range`. -/
theorem pcvalue_roundtrip_skip (t : List Pcvalue) (pc : Nat) (h : Ascending t 0) :
    ∃ b, marshalPcdata t = some b ∧ decodePcValue b pc = valueAt (emitted t) pc :=
  decode_marshal_any t h pc

/-- under the precondition nothing is skipped -/
theorem emitted_of_wellformed (t : List Pcvalue) (h : WellFormed t) : emitted t = t :=
  emittedGo_of_wf t (-1) 0 h neg_one_in

/-- The precondition "no repeated value" of `pcvalue_roundtrip` cannot be dropped: the faithful
    model makes the unconditional statement false.  `{10,5},{20,5}`: the second entry is
    skipped, pc 15 has no value for the runtime although the table says 5.
    (Replayed on the real `MarshalBinary` and the real `runtime.pcvalue` by corpus/C10.) -/
theorem pcvalue_skip_loses_range :
    Ascending [⟨10, 5⟩, ⟨20, 5⟩] 0 ∧
    marshalPcdata [⟨10, 5⟩, ⟨20, 5⟩] = some [12, 10, 0] ∧
    decodePcValue [12, 10, 0] 15 = none ∧ valueAt [⟨10, 5⟩, ⟨20, 5⟩] 15 = some 5 := by
  decide

/-- The first-entry rule cannot be dropped either: a table whose only value is -1 (what
    `buildLoadFunc` builds for `PCDATA_UnsafePointSafe` when `NoPreempt` is false) is marshalled
    to the bare terminator, on which the runtime's first `step` (which does not stop at a zero
    uvdelta) runs off the table. sonic's own loaders always pass `NoPreempt: true`. -/
theorem pcvalue_first_entry_rule (n : Nat) (hn : n < 4294967296) :
    marshalPcdata [⟨n, -1⟩] = some [0] ∧ pcvalue [0] 0 = .overrun ∧
    ∀ pc, decodePcValue [0] pc = none := by
  refine ⟨?_, by decide, ?_⟩
  · have : wrap32 0 = 0 := by decide
    simp [marshalPcdata, marshalGo, this]
  · intro pc
    simp [decodePcValue, pcvalue, pcvalueLoop, step, readFast, PcRes.toOption]

/-- `StackMapBuilder`: after `AddField(f₀) … AddField(fₙ₋₁)` the bitmap has `n` bits in
    `(n+7)/8` bytes and bit `i` (as the runtime's `ptrbit` reads it) is `fᵢ` -/
theorem stackmap_bits (fields : List Bool) :
    (buildBitmap fields).n = fields.length ∧
    (buildBitmap fields).b.length = (fields.length + 7) / 8 ∧
    ∀ i, i < fields.length → getBit (buildBitmap fields).b i = fields.getD i false := by
  obtain ⟨h1, h2, h3⟩ := binv_build fields
  exact ⟨h1, by rw [h2, h1], fun i hi => h3 i (by omega)⟩

/-- the same for any program of `AddField` / `AddFields(n, b)` calls -/
theorem stackmap_builder_program (ops : List (Nat × Bool)) :
    let fields := ops.flatMap (fun op => List.replicate op.1 op.2)
    (runBuilder ops).n = fields.length ∧
    ∀ i, i < fields.length → getBit (runBuilder ops).b i = fields.getD i false := by
  obtain ⟨h1, _, h3⟩ := binv_runBuilder ops
  exact ⟨h1, fun i hi => h3 i (by omega)⟩

/-- `buildLoadFunc` as the source has it now (`loadFuncFacts` regenerated): with `NoPreempt` (what both
    of sonic's loaders pass) every pc of the text is an unsafe point (-2) and has stack-map index 0,
    for every text size -/
theorem loadfunc_tables_cover_text (pcsp : List Pcvalue) (textSize pc : Nat) (a l : Option (List Bool))
    (h0 : 0 < textSize) (h1 : textSize < 4294967296) (hpc : pc < textSize) :
    let f := buildLoadFunc loadFuncFacts true pcsp textSize a l
    (∃ t b, f.unsafePoint = some t ∧ marshalPcdata t = some b ∧ decodePcValue b pc = some (-2)) ∧
    (∃ b, marshalPcdata f.stackMapIndex = some b ∧ decodePcValue b pc = some 0) := by
  have hin2 : InInt32 (-2) := by unfold InInt32; omega
  have hin0 : InInt32 0 := by unfold InInt32; omega
  have w1 : WellFormed [⟨textSize, -2⟩] := ⟨h0, h1, hin2, (by show (-2 : Int) ≠ -1; decide), trivial⟩
  have w2 : WellFormed [⟨textSize, 0⟩] := ⟨h0, h1, hin0, (by show (0 : Int) ≠ -1; decide), trivial⟩
  obtain ⟨b1, hb1, hd1⟩ := decode_marshal_wf _ w1 pc
  obtain ⟨b2, hb2, hd2⟩ := decode_marshal_wf _ w2 pc
  have hu : loadFuncFacts.unsafeVal = -2 := by decide
  have hs : loadFuncFacts.smiVal = 0 := by decide
  refine ⟨⟨[⟨textSize, -2⟩], b1, by simp [buildLoadFunc, hu], hb1, ?_⟩, ⟨b2, by simpa [buildLoadFunc, hs] using hb2, ?_⟩⟩
  · rw [hd1]; simp [valueAt, hpc]
  · rw [hd2]; simp [valueAt, hpc]

/-- without `NoPreempt` the table must be readable as "safe everywhere": either there is no table
    (the runtime then reads -1), or - the state of the unchanged tree - the one-entry table with the
    start value -1, which `pcvalue_first_entry_rule` shows the runtime cannot read. This theorem only
    records which of the two the source has; it is an observation about the public loader API, not a
    C10 obligation on sonic's own loaders (they always pass `NoPreempt`). -/
theorem loadfunc_safe_table_cases (textSize pc : Nat) (htx : textSize < 4294967296) :
    let f := buildLoadFunc loadFuncFacts false [] textSize none none
    (f.unsafePoint = none ∧ readPcdata none pc = some (-1)) ∨
    (f.unsafePoint = some [⟨textSize, -1⟩] ∧ marshalPcdata [⟨textSize, -1⟩] = some [0] ∧ readPcdata (some [0]) pc = none) := by
  have hcases : loadFuncFacts.safeVal = none ∨ loadFuncFacts.safeVal = some (-1) := by decide
  rcases hcases with h | h
  · left; simp [buildLoadFunc, h, readPcdata]
  · right
    obtain ⟨hm, _, hd⟩ := pcvalue_first_entry_rule textSize htx
    exact ⟨by simp [buildLoadFunc, h], hm, by simpa [readPcdata] using hd pc⟩

/-! ## Part 2 - on the facts regenerated from the source -/

/-- names that deliberately share bytes without an `a = b` declaration.  One pair in the unchanged
    tree: `_VAR_sr = jit.Ptr(_SP, _FP_fargs+_FP_saves)` (the `sr` out-parameter of `unquote`) is
    declared in the same `var (…)` group as `_VAR_st = _VAR_st_Vt` and overlays the first word of
    the `JsonState` block; the two are never live together.  Any *other* overlap fails the theorem. -/
def declaredOverlays : List (String × String) :=
  [("_VAR_sr", "_VAR_st_Vt"), ("_VAR_sr", "_VAR_st")]

/-- `_FP_offs = fargs+saves+locals`, `_FP_size = offs+8`, `_FP_base = size+8`, everything a
    multiple of 8, for the decoder, the generic decoder and the encoder frame -/
theorem frame_arith : decFrame.arithOk ∧ genFrame.arithOk ∧ encFrame.arithOk := by decide

/-- every `_ARG_*` / `_VAR_*` slot of the three assemblers is 8-aligned and inside the area its
    address expression names; no two names overlap except declared aliases -/
theorem frame_slots_disjoint_in_bounds :
    decFrame.slotsOk declaredOverlays ∧ genFrame.slotsOk [] ∧ encFrame.slotsOk [] := by
  decide +kernel

/-- the named local slots fit in the local area (`≤`, not `=`: the loader is given an EMPTY local pointer map for
    these frames, so anonymous spare words are never scanned and a frame with unused locals is as good; an earlier
    version demanded equality and raised a false alarm on the harmless rewrite `jitdec-frame-locals-grown`) -/
theorem frame_locals_fit :
    (decFrame.slots.filter (fun s => s.base == .locals && s.aliasOf.isNone && s.name != "_VAR_sr")).length * 8 ≤ decFrame.fpLocals ∧
    (genFrame.slots.filter (fun s => s.base == .locals && s.aliasOf.isNone)).length * 8 ≤ genFrame.fpLocals ∧
    (encFrame.slots.filter (fun s => s.base == .locals && s.aliasOf.isNone)).length * 8 ≤ encFrame.fpLocals ∧
    -- the justification, as a regenerated fact: no local word of these frames is declared a pointer to the runtime
    decFrame.localPtrs.all (· == false) ∧ genFrame.localPtrs.all (· == false) ∧ encFrame.localPtrs.all (· == false) := by
  decide +kernel

/-- the argument pointer bitmap handed to the loader is, word for word, the pointer-ness of the
    Go signature the generated function is called through (`_Decoder`, `Encoder`) -/
theorem argptrs_match_signature :
    decFrame.argPtrs = decoderSigArgs.map (·.ptr) ∧ encFrame.argPtrs = encoderSigArgs.map (·.ptr) := by
  decide

/-- argument size = 8 × number of argument words = 8 × number of bitmap bits -/
theorem fp_args_matches_arity :
    decFrame.fpArgs = 8 * decoderSigArgs.length ∧ decFrame.fpArgs = 8 * decFrame.argPtrs.length ∧
    encFrame.fpArgs = 8 * encoderSigArgs.length ∧ encFrame.fpArgs = 8 * encFrame.argPtrs.length ∧
    genFrame.fpArgs = 8 * genFrame.argPtrs.length := by
  decide

/-- what the assemblers pass to `Load` is the frame size / argument size / the maps checked above -/
theorem load_call_passes_frame :
    decLoadFrameSize = decFrame.fpSize ∧ decLoadArgSize = decFrame.fpArgs ∧ decLoadPtrMaps = ["argPtrs", "localPtrs"] ∧
    genLoadFrameSize = genFrame.fpSize ∧ genLoadArgSize = genFrame.fpArgs ∧ genLoadPtrMaps = ["argPtrs_generic", "localPtrs_generic"] ∧
    encLoadFrameSize = encFrame.fpSize ∧ encLoadArgSize = encFrame.fpArgs ∧ encLoadPtrMaps = ["vars.ArgPtrs", "vars.LocalPtrs"] := by
  decide

/-- the stack pre-growth before entering a decoder covers the decoder frame, the generic decoder
    frame it may call and the deepest native routine; and every native routine stays inside
    `native.MaxFrameSize` -/
theorem morestack_covers_frame :
    moreStackRequest ≥ decFrame.fpSize + genFrame.fpSize + nativeMaxFrameSize ∧
    moreStackTerms = ["_FP_size", "_VD_size", "native.MaxFrameSize"] ∧
    ∀ f ∈ natives, f.stack ≤ nativeMaxFrameSize := by
  decide +kernel

/-- Go's nosplit budget (`internal/abi.StackNosplitBase`, go1.23; a toolchain constant, not
    regenerated): what a function that passed its own stack check may still use without checking -/
def goStackNosplitBase : Nat := 800

/-- the encoder does not pre-grow (no `MoreStack` call under internal/encoder): its frame, its
    return address, and the deepest native routine with its return address fit the nosplit budget -/
theorem encoder_frame_within_nosplit_budget :
    encoderMoreStackCalls = 0 ∧
    ∀ f ∈ natives, encFrame.fpSize + 8 + f.stack + 8 ≤ goStackNosplitBase := by
  decide +kernel

/-- every native pc-sp table satisfies the precondition of `pcvalue_roundtrip`, ends exactly at the
    text size, and its depths stay within the declared maximum stack -/
theorem native_tables_wellformed : ∀ f ∈ natives, nativeOk nativeMaxFrameSize f = true := by
  decide +kernel

/-- consequence: inside every native routine the runtime finds a stack depth at every pc, and it
    is the one the table says -/
theorem native_pcsp_roundtrip (f : NativeFn) (hf : f ∈ natives) (pc : Nat) (hpc : pc < f.size) :
    ∃ b v, marshalPcdata f.pcsp = some b ∧ decodePcValue b pc = some v ∧ valueAt f.pcsp pc = some v := by
  have hok := native_tables_wellformed f hf
  simp only [nativeOk, Bool.and_eq_true, decide_eq_true_eq] at hok
  obtain ⟨⟨⟨hwf, _⟩, hlast⟩, _⟩ := hok
  obtain ⟨b, hb, hd⟩ := pcvalue_roundtrip f.pcsp pc hwf
  cases hl : f.pcsp.getLast? with
  | none =>
    rw [hl] at hlast
    simp at hlast
    omega
  | some e =>
    rw [hl] at hlast
    simp at hlast
    have hs := valueAt_isSome_of_lt_last f.pcsp e pc hl (by omega)
    obtain ⟨v, hv⟩ := Option.isSome_iff_exists.mp hs
    exact ⟨b, v, hb, by rw [hd, hv], hv⟩

/-! ## non-vacuity -/

-- the shape `GetPcspTable` produces (SUBQ $280,SP at 7; ADDQ at 90; RET at 91; tail to 120)
example : WellFormed [⟨7, 0⟩, ⟨90, 280⟩, ⟨91, 0⟩, ⟨120, 280⟩] := by decide
example : marshalPcdata [⟨7, 0⟩, ⟨90, 280⟩, ⟨91, 0⟩, ⟨120, 280⟩] =
    some [2, 7, 176, 4, 83, 175, 4, 1, 176, 4, 29, 0] := by decide
example : decodePcValue [2, 7, 176, 4, 83, 175, 4, 1, 176, 4, 29, 0] 50 = some 280 := by decide
example : decodePcValue [2, 7, 176, 4, 83, 175, 4, 1, 176, 4, 29, 0] 90 = some 0 := by decide
example : decodePcValue [2, 7, 176, 4, 83, 175, 4, 1, 176, 4, 29, 0] 120 = none := by decide
-- a 5-byte varint and a negative delta
example : putUvarint 4294967295 = [255, 255, 255, 255, 15] := by decide
example : putVarint (-2147483648) = [255, 255, 255, 255, 15] := by decide
example : readvarint [255, 255, 255, 255, 15, 7] = some (4294967295, [7]) := by decide
-- int32 wrap: the delta from 2^31-1 to -2^31 is +1 after wrapping, and decodes back
example : marshalGo [⟨5, -2147483648⟩] 2147483647 0 = some [2, 5, 0] := by decide
example : pcvalueLoop 4 [2, 5, 0] 1 2147483647 3 = .found (-2147483648) := by decide
-- a descending table panics
example : marshalPcdata [⟨10, 1⟩, ⟨5, 2⟩] = none := by decide
-- the decoder's argument bitmap as the runtime gets it: N=1, L=9, bits 1001 1010 | 1
example : stackMapBytes (buildBitmap [true, false, false, true, true, false, true, false, true]) =
    [1, 0, 0, 0, 9, 0, 0, 0, 0x59, 0x01] := by decide
example : stackMapBytes (buildBitmap [true, true, true, false]) = [1, 0, 0, 0, 4, 0, 0, 0, 0x07] := by decide
example : stackMapBytes (runBuilder [(3, true), (6, false), (1, true)]) = [1, 0, 0, 0, 10, 0, 0, 0, 0x07, 0x02] := by decide
-- the regenerated facts are not empty
example : decFrame.slots.length > 0 ∧ encFrame.slots.length > 0 ∧ genFrame.slots.length > 0 ∧ natives.length > 0 ∧
    decoderSigArgs.length > 0 ∧ encoderSigArgs.length > 0 := by decide
-- the slot check does reject a misaligned slot, a slot outside its area, and an undeclared overlap
-- (a second name on the bytes of the first slot of the frame)
example : ({ decFrame with slots := ⟨"_VAR_x", decFrame.fpFargs + decFrame.fpSaves + 4, .locals, none⟩ :: decFrame.slots }).slotsOk declaredOverlays = false := by
  decide +kernel
example : ({ decFrame with slots := ⟨"_VAR_x", decFrame.fpOffs, .locals, none⟩ :: decFrame.slots }).slotsOk declaredOverlays = false := by
  decide +kernel
example : ({ encFrame with slots := (encFrame.slots.head?.map (fun (s : Slot) => { s with name := "_VAR_x" })).toList ++ encFrame.slots }).slotsOk [] = false := by
  decide +kernel

end SonicSpec.Props.C10
