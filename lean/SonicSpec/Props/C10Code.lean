/-
  C10 (wave 2) - the pc-sp table against the code that is emitted, and the encoder's state stack
  against the displacements the generated code addresses it with.

  Part 1 (all instruction sizes, all bodies): `GetPcspTable` (internal/jit/backend.go, transliterated
  as `getPcspTable`) applied to the shape `SUBQ $n,SP; body; ADDQ $n,SP; RET; tail` yields a table
  that (a) satisfies the precondition of `pcvalue_roundtrip`, so the Go runtime reads back, at every
  pc, (b) exactly the SP displacement the code has there: 0 until the SUBQ has executed, n through
  the body, 0 at the RET, n in the out-of-line tail.
  Part 2 (regenerated facts): the three assemblers do emit that shape with n = the frame size the
  loader is given, and nothing else writes SP; the encoder's `vars.State`/`vars.Stack` layout is what
  `save_state`/`drop_state` assume, with the pointer words where the write barriers are.

  NOT covered: instruction sizes and the bytes themselves (golang-asm), and that the tail is only
  entered from the body (it is: every block after the RET is reached by a jump from generated code
  that runs between prologue and epilogue, but that is a reading of the assemblers, not a theorem).
-/
import SonicSpec.Model.Loader
import SonicSpec.Proofs.Loader
import SonicSpec.Generated.Frames
namespace SonicSpec.Props.C10Code
open SonicSpec SonicSpec.Loader SonicSpec.Generated.Frames

/-! ## Part 1 -/

/-- the table `GetPcspTable` computes for the frame-code shape, whatever the instruction sizes -/
theorem pcsp_table_of_frame_code (pre body tail : List Ins) (s1 s2 s3 : Nat) (n : Int)
    (hpre : NoSp pre) (hbody : NoSp body) :
    getPcspTable (frameCode pre s1 n body s2 s3 tail) =
      some (⟨codeSize pre + s1, 0⟩ :: ⟨codeSize pre + s1 + codeSize body + s2, n⟩ ::
            ⟨codeSize pre + s1 + codeSize body + s2 + s3, 0⟩ ::
            (if tail.isEmpty then [] else
              [⟨codeSize pre + s1 + codeSize body + s2 + s3 + codeSize tail, max 0 n⟩])) :=
  getPcspTable_frameCode pre body tail s1 s2 s3 n hpre hbody

/-- THE consistency statement: for every code of that shape (real instructions have positive size,
    frame size below 2^31, text below 2^32) the table handed to the loader is marshalled, and the Go
    runtime's `pcvalue` finds at every pc the SP displacement of that region of the code. -/
theorem jit_pcsp_consistent (pre body tail : List Ins) (s1 s2 s3 : Nat) (n : Int)
    (hpre : NoSp pre) (hbody : NoSp body)
    (h1 : 0 < s1) (h2 : 0 < s2) (h3 : 0 < s3) (ht : tail = [] ∨ 0 < codeSize tail)
    (hn : 0 < n) (hn2 : n < 2147483648)
    (hsz : codeSize pre + s1 + codeSize body + s2 + s3 + codeSize tail < 4294967296) (pc : Nat) :
    ∃ t b, getPcspTable (frameCode pre s1 n body s2 s3 tail) = some t ∧ marshalPcdata t = some b ∧
      decodePcValue b pc =
        regionDelta (codeSize pre + s1) (codeSize pre + s1 + codeSize body + s2)
          (codeSize pre + s1 + codeSize body + s2 + s3)
          (codeSize pre + s1 + codeSize body + s2 + s3 + codeSize tail) n pc := by
  have htab := getPcspTable_frameCode pre body tail s1 s2 s3 n hpre hbody
  simp only at htab
  rcases ht with ht | ht
  · subst ht
    simp only [List.isEmpty_nil, if_true] at htab
    have hwf := wf_frameTable3 (codeSize pre + s1) (codeSize pre + s1 + codeSize body + s2)
      (codeSize pre + s1 + codeSize body + s2 + s3) n (by omega) (by omega) (by omega)
      (by have h0 : codeSize ([] : List Ins) = 0 := rfl
          rw [h0] at hsz; omega) hn hn2
    obtain ⟨b, hb, hd⟩ := decode_marshal_wf _ hwf pc
    refine ⟨_, b, htab, hb, ?_⟩
    rw [hd, valueAt_frameTable3]
    simp [codeSize]
  · have hne : tail.isEmpty = false := by
      cases tail with
      | nil => simp [codeSize] at ht
      | cons _ _ => rfl
    simp only [hne] at htab
    have hwf := wf_frameTable (codeSize pre + s1) (codeSize pre + s1 + codeSize body + s2)
      (codeSize pre + s1 + codeSize body + s2 + s3)
      (codeSize pre + s1 + codeSize body + s2 + s3 + codeSize tail) n
      (by omega) (by omega) (by omega) (by omega) hsz hn hn2
    obtain ⟨b, hb, hd⟩ := decode_marshal_wf _ hwf pc
    refine ⟨_, b, htab, hb, ?_⟩
    rw [hd]
    exact valueAt_frameTable' _ _ _ _ n hn pc

/-- up to and including the RET, "the SP displacement of the region" is literally what executing
    the instructions before `pc` in order has done to SP -/
theorem region_is_what_the_code_did (pre body tail : List Ins) (s1 s2 s3 : Nat) (n : Int)
    (hpre : NoSp pre) (hbody : NoSp body) (e pc : Nat)
    (hpc : pc < codeSize pre + s1 + codeSize body + s2 + s3) :
    regionDelta (codeSize pre + s1) (codeSize pre + s1 + codeSize body + s2)
      (codeSize pre + s1 + codeSize body + s2 + s3) e n pc =
    some (linearDelta (frameCode pre s1 n body s2 s3 tail) 0 pc 0) :=
  regionDelta_eq_linear pre body tail s1 s2 s3 n hpre hbody pc e hpc

/-- a PUSH without its POP before the RET makes `GetPcspTable` panic (it cannot produce a table that lies) -/
theorem unbalanced_code_is_rejected (s1 s2 : Nat) (k : Int) (hk : k ≠ 0) :
    getPcspTable [⟨s1, .push k⟩, ⟨s2, .ret⟩] = none := by
  simp [getPcspTable, getPcspGo, hk]

/-! ## Part 2 - regenerated facts -/

/-- each assembler emits `SUBQ $frame, SP` first, `ADDQ $frame, SP; RET` once, and nothing else that
    writes SP (no PUSH/POP/ADJSP, no other instruction with SP as destination, only known raw byte
    sequences), with `frame` = the frame size passed to `Load` -/
theorem code_sp_discipline :
    decCode.ok decLoadFrameSize = true ∧ genCode.ok genLoadFrameSize = true ∧ encCode.ok encLoadFrameSize = true := by
  decide +kernel

/-- frame sizes are in the range `jit_pcsp_consistent` asks for -/
theorem frame_sizes_in_range :
    0 < decFrame.fpSize ∧ decFrame.fpSize < 2147483648 ∧ 0 < genFrame.fpSize ∧ genFrame.fpSize < 2147483648 ∧
    0 < encFrame.fpSize ∧ encFrame.fpSize < 2147483648 := by decide

/-- instance for the decoder: whatever the program compiled (any `body`, any `tail`, any instruction
    sizes), the runtime finds `_FP_size` inside the body and 0 before the SUBQ / at the RET -/
theorem decoder_pcsp_consistent (body tail : List Ins) (s1 s2 s3 : Nat) (hbody : NoSp body)
    (h1 : 0 < s1) (h2 : 0 < s2) (h3 : 0 < s3) (ht : tail = [] ∨ 0 < codeSize tail)
    (hsz : s1 + codeSize body + s2 + s3 + codeSize tail < 4294967296) (pc : Nat) :
    ∃ t b, getPcspTable (frameCode [] s1 decFrame.fpSize body s2 s3 tail) = some t ∧ marshalPcdata t = some b ∧
      decodePcValue b pc = regionDelta s1 (s1 + codeSize body + s2) (s1 + codeSize body + s2 + s3)
        (s1 + codeSize body + s2 + s3 + codeSize tail) decFrame.fpSize pc := by
  have := jit_pcsp_consistent [] body tail s1 s2 s3 decFrame.fpSize (fun _ h => by simp at h) hbody h1 h2 h3 ht
    (by decide) (by decide) (by simpa [codeSize] using hsz) pc
  simpa [codeSize] using this

/-! ### encoder state stack -/

def fieldOff (l : List FieldLayout) (f : String) : Option Nat := (l.find? (fun e => e.1 == f)).map (·.2.1)
def fieldShape (l : List FieldLayout) (f : String) : Option String := (l.find? (fun e => e.1 == f)).map (·.2.2.2)
def fieldSize (l : List FieldLayout) (f : String) : Option Nat := (l.find? (fun e => e.1 == f)).map (·.2.2.1)

/-- which `State` field a saved register belongs to -/
def regField : String → Option String
  | "_SP_x" => some "x" | "_SP_f" => some "f" | "_SP_p" => some "p" | "_SP_q" => some "q" | _ => none

/-- every register store / load of `save_state` and `drop_state` uses `offset(Stack.sb) +
    offset(State.<field>)` of the field that register shadows; the stack pointer is `Stack.sp` at 0 -/
theorem enc_state_offsets_match :
    encStateAccess.all (fun a =>
      if a.op.endsWith ":sp" then fieldOff encStackLayout "sp" == some a.disp
      else match regField a.reg with
        | some f => (do let sb ← fieldOff encStackLayout "sb"; let o ← fieldOff encStateLayout f; pure (sb + o)) == some a.disp
        | none => a.reg == "_X0") = true ∧
    (encStateAccess.filter (fun a => (regField a.reg).isSome)).length = 8 := by
  decide +kernel

/-- the words stored with a write barrier (`WritePtr`) are exactly the pointer-shaped fields, so the
    collector traces what the generated code parks there; the plain `MOVQ` stores go to scalars -/
theorem enc_state_pointer_slots_traced :
    (encStateAccess.filter (fun a => a.fn == "save_state" && (regField a.reg).isSome)).all (fun a =>
      match regField a.reg with
      | some f => (fieldShape encStateLayout f == some "ptr") == (a.op == "WritePtr") &&
                  (fieldShape encStateLayout f == some "scalar") == (a.op == "MOVQ")
      | none => false) = true ∧
    fieldShape encStateLayout "p" = some "ptr" ∧ fieldShape encStateLayout "q" = some "ptr" ∧
    fieldShape encStackLayout "sb" = some "array-of-struct" := by
  decide +kernel

/-- `drop_state` clears the whole popped state (two 16-byte stores cover offset(sb) .. +StateSize) -/
theorem enc_state_clear_covers :
    ((encStateAccess.filter (fun a => a.op == "MOVOU")).map (·.disp)) = [8, 24] ∧
    fieldOff encStackLayout "sb" = some 8 ∧ 8 + 16 + 16 = 8 + encStateSizeof := by
  decide +kernel

/-- sizes and capacity: StateSize / StackLimit / StackSize constants are the compiler's sizes, the
    state array holds MaxStack states, fields are 8-aligned, disjoint and fill the structs, and
    `drop_state` is only used with whole states -/
theorem enc_stack_capacity :
    encStateSizeConst = encStateSizeof ∧ encStackSizeConst = encStackSizeof ∧
    encStackLimit = encMaxStack * encStateSizeof ∧ fieldSize encStackLayout "sb" = some encStackLimit ∧
    encStackSizeof = 8 + encStackLimit ∧
    encStateLayout.map (fun e => (e.2.1, e.2.2.1)) = [(0, 8), (8, 8), (16, 8), (24, 8)] ∧
    encDropAmounts.all (fun d => d % encStateSizeof == 0 && d > 0) = true := by
  decide +kernel


/-! ### memory handed to the runtime as pointer-typed -/

/-- THE EXPECTATION TABLE (hand-written; it is the tie): every `mallocgc` call that does not pass the
    constant `needzero = true`, with the reason it may.  Un-zeroed memory of a pointer-containing type
    is visible to the collector (and, for slots the code then skips, to the caller) with whatever the
    previous owner left there.  A new or changed call site breaks `raw_allocations_zeroed_or_listed`. -/
def allocExpectations : List (String × String × String × String) := [
  ("internal/decoder/jitdec/assembler_regabi_amd64.go", "malloc_AX", "_T_byte", "pointer-free: byte buffer for unquoted strings"),
  ("internal/decoder/jitdec/generic_regabi_amd64.go", "compile", "_T_byte", "pointer-free: byte buffer for unquoted strings"),
  ("internal/decoder/optdec/native.go", "parse", "nodeType", "pointer-free: node{typ, val uint64}"),
  ("internal/rt/fastconv.go", "Conv", "Uint64Type", "pointer-free: one uint64"),
  ("loader/internal/rt/stackmap.go", "Build", "byteType", "pointer-free: bitmap bytes, header and bits written before use")]

/-- type expressions known to denote pointer-free types -/
def pointerFreeTypeExprs : List String := ["_T_byte", "byteType", "nodeType", "Uint64Type"]

/-- every raw allocation either asks the runtime for zeroed memory or is one of the listed
    allocations of a pointer-free type -/
theorem raw_allocations_zeroed_or_listed :
    ((rawAllocs.filter (fun a => !a.zeroed)).map (fun a => (a.file, a.fn, a.typ))) =
      allocExpectations.map (fun e => (e.1, e.2.1, e.2.2.1)) ∧
    allocExpectations.all (fun e => pointerFreeTypeExprs.contains e.2.2.1) = true ∧
    rawAllocs.length > 0 := by
  decide +kernel

/-- the address of a local is hidden from escape analysis (`rt.NoEscape(&x)`) only as the argument of
    `EncodeTypedPointer` under `if vt.Indirect()`: the callee then loads the value pointer at once and
    never stores the address.  For a direct (pointer-shaped) type the callee keeps the address in the
    heap-allocated state stack, where a stack move would leave it stale. -/
theorem noescape_of_locals_only_for_indirect_types :
    noEscapeSites.all (fun s => s.callee == "EncodeTypedPointer" && s.guard == "then:vt.Indirect()") = true := by
  decide +kernel

/-! ## non-vacuity -/

-- a 3-byte SUBQ, a 20-byte body in two instructions and a label, ADDQ, RET, 9 bytes of tail
example : getPcspTable (frameCode [] 7 280 [⟨12, .none⟩, ⟨0, .none⟩, ⟨8, .none⟩] 7 1 [⟨9, .none⟩]) =
    some [⟨7, 0⟩, ⟨34, 280⟩, ⟨35, 0⟩, ⟨44, 280⟩] := by decide
example : linearDelta (frameCode [] 7 280 [⟨12, .none⟩, ⟨0, .none⟩, ⟨8, .none⟩] 7 1 [⟨9, .none⟩]) 0 20 0 = 280 := by decide
example : linearDelta (frameCode [] 7 280 [⟨12, .none⟩, ⟨0, .none⟩, ⟨8, .none⟩] 7 1 [⟨9, .none⟩]) 0 3 0 = 0 := by decide
example : linearDelta (frameCode [] 7 280 [⟨12, .none⟩, ⟨0, .none⟩, ⟨8, .none⟩] 7 1 [⟨9, .none⟩]) 0 34 0 = 0 := by decide
-- pushes and pops as in a native wrapper
example : getPcspTable [⟨1, .push 8⟩, ⟨2, .push 8⟩, ⟨5, .none⟩, ⟨1, .pop 8⟩, ⟨1, .pop 8⟩, ⟨1, .ret⟩] =
    some [⟨1, 0⟩, ⟨3, 8⟩, ⟨9, 16⟩, ⟨10, 8⟩, ⟨11, 0⟩] := by decide
-- the discipline check rejects a second SP writer, a PUSH, and a frame size that is not the one loaded
example : ({ encCode with spWriters := ("x", "SUBQ", 8) :: encCode.spWriters }).ok encLoadFrameSize = false := by decide +kernel
example : ({ encCode with pushPops := [("x", "PUSHQ")] }).ok encLoadFrameSize = false := by decide +kernel
example : encCode.ok (encLoadFrameSize + 8) = false := by decide +kernel
example : encStateAccess.length > 0 ∧ encStateLayout.length = 4 := by decide

-- the allocation check rejects an un-zeroed pointerful arena
example : (((⟨"internal/rt/pool.go", "NewPool", "go", "typ", "false"⟩ :: rawAllocs).filter (fun a => !a.zeroed)).map
    (fun a => (a.file, a.fn, a.typ))) ≠ allocExpectations.map (fun e => (e.1, e.2.1, e.2.2.1)) := by decide +kernel

end SonicSpec.Props.C10Code
