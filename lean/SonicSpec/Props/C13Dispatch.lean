/-
  C13 - static part: the SIMD level only selects the build.  `useAVX2()` and `useSSE()` of
  internal/native/dispatch_amd64.go, re-read on every run (go/factx_dispatch -> Generated/Dispatch.lean), fill
  the same set of slots, each from its own package, each slot with the symbol that carries the slot's name.
  A slip such as `S_skip_array = sse.S_skip_object` breaks this obligation whether or not a case stream
  happens to reach the slot.
-/
import SonicSpec.Model.MemDispatch
import SonicSpec.Generated.Dispatch
namespace SonicSpec.Props.C13Dispatch
open SonicSpec.Mem.Dispatch SonicSpec.Generated

theorem dispatch_tables_wired : tablesOK Dispatch.avx2Use Dispatch.avx2 Dispatch.sseUse Dispatch.sse = true := by
  decide +kernel

/-- what the boolean checker means, for ANY pair of tables it accepts: every slot one build fills is
    filled by the other build too, with the symbol of the same name, each from its own package, and the
    symbol is the one that carries the slot's name -/
theorem tablesOK_sound (au su : List Name) (a s : Table) (h : tablesOK au a su s = true) :
    (∀ e ∈ a, e.2.1 = avx2Pkg ∧ slotMatches e.1 e.2.2 = true ∧
      ∃ f ∈ s, f.1 = e.1 ∧ f.2.2 = e.2.2 ∧ f.2.1 = ssePkg) ∧
    (∀ f ∈ s, f.2.1 = ssePkg ∧ slotMatches f.1 f.2.2 = true ∧
      ∃ e ∈ a, e.1 = f.1 ∧ e.2.2 = f.2.2 ∧ e.2.1 = avx2Pkg) := by
  simp only [tablesOK, tableOK, sameSlots, Bool.and_eq_true, List.all_eq_true, List.any_eq_true,
    beq_iff_eq] at h
  obtain ⟨⟨⟨⟨⟨_, ha⟩, _⟩, ⟨⟨_, hs⟩, _⟩⟩, hab, hba⟩, _⟩ := h
  constructor
  · intro e he
    obtain ⟨f, hf, h1, h2⟩ := hab e he
    exact ⟨(ha e he).1, (ha e he).2, f, hf, h1, h2, (hs f hf).1⟩
  · intro f hf
    obtain ⟨e, he, h1, h2⟩ := hba f hf
    exact ⟨(hs f hf).1, (hs f hf).2, e, he, h1, h2, (ha e he).1⟩

/-- ... and so for the tables read from the source on this run -/
theorem dispatch_slots_paired :
    (∀ e ∈ Dispatch.avx2, e.2.1 = avx2Pkg ∧ slotMatches e.1 e.2.2 = true ∧
      ∃ f ∈ Dispatch.sse, f.1 = e.1 ∧ f.2.2 = e.2.2 ∧ f.2.1 = ssePkg) ∧
    (∀ f ∈ Dispatch.sse, f.2.1 = ssePkg ∧ slotMatches f.1 f.2.2 = true ∧
      ∃ e ∈ Dispatch.avx2, e.1 = f.1 ∧ e.2.2 = f.2.2 ∧ e.2.1 = avx2Pkg) :=
  tablesOK_sound _ _ _ _ dispatch_tables_wired

/-- the checker is not vacuous: the slip is rejected -/
example : tablesOK [avx2Pkg] [([83, 95, 97], avx2Pkg, [83, 95, 97]), ([83, 95, 98], avx2Pkg, [83, 95, 98])]
    [ssePkg] [([83, 95, 97], ssePkg, [83, 95, 98]), ([83, 95, 98], ssePkg, [83, 95, 98])] = false := by decide

example : slotMatches [95, 95, 72, 84, 77, 76, 69, 115, 99] [70, 95, 104, 116, 109, 108, 95, 101, 115, 99] = true := by decide

end SonicSpec.Props.C13Dispatch
