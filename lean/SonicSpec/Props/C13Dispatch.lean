/-
  C13 - static part: the SIMD level only selects the build.  `useAVX2()` and `useSSE()` of
  internal/native/dispatch_amd64.go, re-read on every run (go/factx_dispatch -> Generated/Dispatch.lean), fill
  the same set of slots, each from its own package, each slot with the symbol that carries the slot's name.
  A slip such as `S_skip_array = sse.S_skip_object` breaks this obligation whether or not a case stream
  happens to reach the slot.
-/
import SonicSpec.Model.MemDispatch
import SonicSpec.Generated.Dispatch
namespace SonicSpec.Props.C13Dispatch
open SonicSpec.Mem.Dispatch SonicSpec.Generated

theorem dispatch_tables_wired : tablesOK Dispatch.avx2Use Dispatch.avx2 Dispatch.sseUse Dispatch.sse = true := by
  decide +kernel

/-- the checker is not vacuous: the slip is rejected -/
example : tablesOK [avx2Pkg] [([83, 95, 97], avx2Pkg, [83, 95, 97]), ([83, 95, 98], avx2Pkg, [83, 95, 98])]
    [ssePkg] [([83, 95, 97], ssePkg, [83, 95, 98]), ([83, 95, 98], ssePkg, [83, 95, 98])] = false := by decide

example : slotMatches [95, 95, 72, 84, 77, 76, 69, 115, 99] [70, 95, 104, 116, 109, 108, 95, 101, 115, 99] = true := by decide

end SonicSpec.Props.C13Dispatch
