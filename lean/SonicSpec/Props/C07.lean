/-
  C07 - property theorems: error values are usable (excerpt arithmetic), budgets are finite.
  `Gen.calcBounds`, `Gen.clamp_zero`, `Gen.astDescriptionBounds` are REGENERATED from the Go
  source by go/factx on every run (Generated/Bounds.lean), so these theorems are re-checked
  against what the code says now.  Go `int` is modelled as `Int`: the property here is not
  about wrap-around (sizes and positions are far below 2^63).
-/
import SonicSpec.Generated.Bounds
import SonicSpec.Generated.Consts
import SonicSpec.Model.Robust
import SonicSpec.Proofs.Robust
set_option linter.unusedSimpArgs false
namespace SonicSpec.Props.C07
open SonicSpec.Gen

/-- decoder `SyntaxError.description`: for EVERY size ≥ 0 and EVERY position (also negative or past
    the end) the excerpt `Src[p:q]` is a legal slice and both `strings.Repeat` counts are
    non-negative - formatting an error can never panic. -/
theorem calcBounds_safe (size pos : Int) (hs : 0 ≤ size) :
    let r := calcBounds size pos
    0 ≤ r.1 ∧ r.1 ≤ r.2.2.1 ∧ r.2.2.1 ≤ size ∧ 0 ≤ r.2.1 ∧ 0 ≤ r.2.2.2 := by
  simp only [calcBounds, clamp_zero, Id.run, pure, bind, Bool.or_eq_true, decide_eq_true_eq, ge_iff_le]
  repeat' split
  all_goals (simp only []; omega)

/-- for a position inside the input the message is bounded: the excerpt has at most 32 bytes and the
    caret line at most 32 characters, whatever the input size -/
theorem calcBounds_bounded (size pos : Int) (h0 : 0 ≤ pos) (h1 : pos < size) :
    let r := calcBounds size pos
    r.2.2.1 - r.1 ≤ 32 ∧ r.2.1 + r.2.2.2 + 1 ≤ 32 ∧ r.1 ≤ pos ∧ pos < r.2.2.1 := by
  simp only [calcBounds, clamp_zero, Id.run, pure, bind, Bool.or_eq_true, decide_eq_true_eq, ge_iff_le]
  repeat' split
  all_goals (simp only []; omega)

/-- the caret points at the reported position: left width = pos - lbound -/
theorem calcBounds_caret (size pos : Int) (h0 : 0 ≤ pos) (h1 : pos < size) :
    let r := calcBounds size pos
    r.1 + r.2.1 = pos := by
  simp only [calcBounds, clamp_zero, Id.run, pure, bind, Bool.or_eq_true, decide_eq_true_eq, ge_iff_le]
  repeat' split
  all_goals (simp only []; omega)

/-- AST `SyntaxError.description` has no guard of its own; it is safe exactly when the position is not
    more than 16 past the end (partial: the full statement "for every pos" is FALSE, see the witness) -/
theorem astDescription_safe_partial (size pos : Int) (hs : 0 < size) (hp : pos ≤ size + 16) :
    let r := astDescriptionBounds size pos
    0 ≤ r.1 ∧ r.1 ≤ r.2.2.1 ∧ r.2.2.1 ≤ size ∧ 0 ≤ r.2.1 ∧ 0 ≤ r.2.2.2 := by
  simp only [astDescriptionBounds, clamp_zero, Id.run, pure, bind, Bool.or_eq_true, decide_eq_true_eq, ge_iff_le,
    beq_iff_eq]
  repeat' split
  all_goals (simp only []; omega)

/-- witness that the unguarded AST formatter is unsafe for positions far past the end:
    size 2, pos 40 gives the slice `Src[24:2]` -/
theorem astDescription_unsafe_witness :
    (astDescriptionBounds 2 40).1 > (astDescriptionBounds 2 40).2.2.1 := by decide

/-- the three nesting budgets are positive and finite, so the depth-limited recognisers terminate with an
    error instead of exhausting the machine stack (regenerated constants) -/
theorem budgets_positive : 0 < maxRecurse ∧ 0 < decMaxStack ∧ 0 < encMaxStack ∧
    encStackLimit = encMaxStack * encStateSize := by decide

-- non-vacuity: a concrete in-range position meets the hypotheses, and the bounds are the expected ones
example : calcBounds 100 50 = (34, 16, 66, 15) := by decide
example : calcBounds 2 6 = (0, 0, 2, 0) := by decide
example : (0 : Int) ≤ 50 ∧ (50 : Int) < 100 := by decide

/-! ## error formatters around the excerpt arithmetic (Model/Robust.lean: hand transliteration of the
    slice / index / Repeat expressions; the arithmetic itself is the regenerated code) -/
open SonicSpec.Robust SonicSpec.Proofs.Robust

/-- decoder `SyntaxError.Error/Description` never panics, whatever `Pos` and `Src` are -/
theorem syntaxError_description_safe (size pos : Int) (hs : 0 ≤ size) :
    decDescription size pos ≠ Fmt.panic := by
  have h := calcBounds_safe size pos hs
  simp only [] at h
  unfold decDescription compose sliceOk repeatOk
  split
  · simp
  · rw [if_pos]
    · simp
    · simp only [Bool.and_eq_true, decide_eq_true_eq]
      omega

/-- `MismatchTypeError.Error/Description` panic EXACTLY when `Pos` is not an index of `Src`
    (`swithchJSONType` indexes `src[pos]` unguarded, errors.go:145) -/
theorem mismatch_description_panics_iff (size pos : Int) (hs : 0 ≤ size) :
    mismatchFmt size pos = Fmt.panic ↔ ¬ (0 ≤ pos ∧ pos < size) := by
  unfold mismatchFmt
  constructor
  · intro h hc
    rw [if_pos (by simp only [Bool.and_eq_true, decide_eq_true_eq]; exact hc)] at h
    exact syntaxError_description_safe size pos hs h
  · intro hc
    rw [if_neg (by simp only [Bool.and_eq_true, decide_eq_true_eq]; exact hc)]

/-- partial safety (the full statement "for every Pos" is false, see the witness): a mismatch error whose
    position is an index of its source formats without panic -/
theorem mismatch_description_safe_partial (size pos : Int) (h0 : 0 ≤ pos) (h1 : pos < size) :
    mismatchFmt size pos ≠ Fmt.panic := by
  intro h
  exact ((mismatch_description_panics_iff size pos (by omega)).1 h) ⟨h0, h1⟩

/-- witness: `Pos = len(Src)` (an end-of-input position) makes `MismatchTypeError.Error()` panic -/
theorem mismatch_description_unsafe_witness : mismatchFmt 2 2 = Fmt.panic := by decide

/-- ast `SyntaxError.Error/Description` panic EXACTLY for a short source (≤ 32 bytes) and a position more
    than 16 past its end -/
theorem astDescription_panics_iff (size pos : Int) (hs : 0 < size) :
    astDescription size pos = Fmt.panic ↔ (size ≤ 32 ∧ size + 16 < pos) := by
  unfold astDescription
  rw [if_neg (by simp only [beq_iff_eq]; omega), compose_panic_iff]
  have h := astBounds_char size pos hs
  simp only [] at h
  rw [h]
  exact Classical.not_not

/-! ## encoder state stack (vars/stack.go, vm.go OP_save/OP_load/OP_drop/OP_drop_2) -/

/-- `depth_error_not_crash` (encoder budget): on every trace of stack operations that respects the
    compiler's save/drop bracketing, with the REGENERATED limits `MaxStack`/`StateSize`, no `State` is
    ever read or written outside `Stack.sb`: the run ends normally or with the ordinary error
    `ERR_too_deep`.  (The decoder value stack and the native FSM budget are machine code: tied by the
    deep-nesting correspondence streams only; `budgets_positive` covers their constants.) -/
theorem depth_error_not_crash (ops : List SOp) (hb : bracketed 0 ops = true) :
    run encM encS 0 ops ≠ SRes.oob := by
  have h := run_bracketed encM encS (by decide) ops 0 (Nat.zero_le _) hb
  rw [Nat.zero_mul] at h
  rcases h with h | ⟨d', _, h⟩ <;> rw [h] <;> simp

/-- the budget is exact: `n` nested saves succeed iff `n ≤ MaxStack`; one more is the error -/
theorem depth_budget_exact (n : Nat) :
    run encM encS 0 (List.replicate n SOp.save) =
      if n ≤ encM then SRes.ok (n * encS) else SRes.tooDeep := by
  have key : ∀ k d, d ≤ encM → run encM encS (d * encS) (List.replicate k SOp.save) =
      if d + k ≤ encM then SRes.ok ((d + k) * encS) else SRes.tooDeep := by
    intro k
    induction k with
    | zero => intro d hd; simp [run, hd]
    | succ k ih =>
      intro d hd
      by_cases hlt : d < encM
      · have h1 : ¬ (d * encS ≥ encM * encS) := by
          have := Nat.mul_lt_mul_of_lt_of_le hlt (Nat.le_refl encS) (by decide)
          omega
        have h2 : d * encS + encS ≤ encM * encS := by
          have := Nat.mul_le_mul_right encS (Nat.succ_le_of_lt hlt)
          rw [Nat.succ_mul] at this; exact this
        simp only [List.replicate_succ, run, step, push, if_neg h1, if_pos h2]
        rw [← Nat.succ_mul, ih (d + 1) hlt]
        have : d + 1 + k = d + (k + 1) := by omega
        rw [this]
      · have hd' : d = encM := by omega
        subst hd'
        simp only [List.replicate_succ, run, step, push, ge_iff_le, Nat.le_refl, if_true]
        rw [if_neg (by omega)]
  have := key n 0 (Nat.zero_le _)
  simpa using this

/-! ## stream decoder progress (stream.go `Decode`/`More`/`peek`; reader chunking abstracted) -/

/-- NEGATION witness of "success implies progress": with a `]` or `}` next in the stream, every one of `n`
    consecutive `Decode` calls returns nil and leaves the decoder exactly where it was - for every `n`, every
    rest of the stream and whatever the value decoder does (replayed: `crash streamall 5d`) -/
theorem stream_no_progress_witness (skip : List UInt8 → Option Nat) (c : UInt8) (hc : isCloser c = true)
    (rest : List UInt8) (n : Nat) :
    decodeN skip n { rest := c :: rest, err := false } =
      (List.replicate n DRes.ok, { rest := c :: rest, err := false }) := by
  have hsp : isSpace c = false := by
    simp only [isCloser, Bool.or_eq_true, beq_iff_eq] at hc
    rcases hc with h | h <;> subst h <;> decide
  have h1 : decode skip { rest := c :: rest, err := false } = (DRes.ok, { rest := c :: rest, err := false }) := by
    simp [decode, dropSpace, hsp, hc]
  induction n with
  | zero => rfl
  | succ n ih => simp only [decodeN, h1, ih, List.replicate_succ]

/-- partial `decode_progress` (the full statement is false, see the witness): when the next non-blank byte is
    not a closer, a successful `Decode` consumes at least one byte (given that a decoded value has ≥ 1 byte) -/
theorem stream_progress_partial (skip : List UInt8 → Option Nat) (hskip : ∀ b n, skip b = some n → 0 < n)
    (s s' : SD) (h : decode skip s = (DRes.ok, s'))
    (hnc : ∀ c r, dropSpace s.rest = c :: r → isCloser c = false) :
    s'.rest.length < s.rest.length := by
  unfold decode at h
  split at h
  · simp at h
  · split at h
    · simp at h
    · rename_i c r heq
      rw [hnc c r heq] at h
      simp only [Bool.false_eq_true, if_false] at h
      split at h
      · simp at h
      · rename_i n hn
        have hpos := hskip _ _ hn
        have hl := dropSpace_length s.rest
        rw [heq] at hl
        simp only [Prod.mk.injEq, true_and] at h
        subst h
        simp only [List.length_drop, List.length_cons] at *
        omega

example : decodeN (fun _ => some 1) 3 { rest := [0x5d], err := false } =
    ([DRes.ok, DRes.ok, DRes.ok], { rest := [0x5d], err := false }) := by decide
example : decode (fun _ => some 1) { rest := [0x20, 0x31], err := false } = (DRes.ok, { rest := [], err := false }) := by decide

/-! ## positions reported by the Go glue, with the clamp of patches/C07-error-position-clamp.diff -/

/-- `error_pos_in_input` for the Go glue: whatever cursor the native code hands back (any integer, also far
    outside), every modelled wrapper that builds an error value reports a position inside the source -/
theorem error_pos_in_input (size raw base : Int) (hs : 0 ≤ size) :
    (0 ≤ errorWrapPos size raw ∧ errorWrapPos size raw ≤ size) ∧
    (0 ≤ checkTrailingsPos size raw ∧ checkTrailingsPos size raw ≤ size) ∧
    (0 ≤ optdecFixErrorPos size base raw ∧ optdecFixErrorPos size base raw ≤ size) ∧
    (0 ≤ astSyntaxErrorPos size raw ∧ astSyntaxErrorPos size raw ≤ size) ∧
    (0 ≤ skipErrorEnd size raw ∧ skipErrorEnd size raw ≤ size) := by
  simp only [errorWrapPos, checkTrailingsPos, optdecFixErrorPos, astSyntaxErrorPos, skipErrorEnd, clampPos]
  repeat' split
  all_goals omega

/-- the clamp loses nothing: a position that already lies inside the source is reported unchanged -/
theorem clampPos_id_inside (size pos : Int) (h0 : 0 ≤ pos) (h1 : pos ≤ size) : clampPos pos size = pos := by
  simp only [clampPos]
  repeat' split
  all_goals omega

/-- with the clamp, formatting an ast syntax error can no longer panic (compare `astDescription_panics_iff`) -/
theorem astDescription_clamped_safe (size raw : Int) (hs : 0 < size) :
    astDescription size (astSyntaxErrorPos size raw) ≠ Fmt.panic := by
  intro h
  have hb := (astDescription_panics_iff size (astSyntaxErrorPos size raw) hs).1 h
  have hp := (error_pos_in_input size raw 0 (by omega)).2.2.2.1
  omega

example : errorWrapPos 2 6 = 2 := by decide
example : astSyntaxErrorPos 7 (-1) = 0 := by decide
example : optdecFixErrorPos 10 3 4 = 7 := by decide

-- non-vacuity
example : bracketed 0 [SOp.save, SOp.save, SOp.load, SOp.drop2] = true := by decide
example : run encM encS 0 [SOp.save, SOp.save, SOp.load, SOp.drop2] = SRes.ok 0 := by decide
example : run encM encS 0 [SOp.drop] = SRes.oob := by decide
example : decDescription 100 50 = Fmt.ok 34 16 66 15 := by decide
example : astDescription 2 40 = Fmt.panic := by decide
example : mismatchFmt 20 3 = Fmt.ok 0 3 20 16 := by decide

end SonicSpec.Props.C07
