/-
  C07 - property theorems: error values are usable (excerpt arithmetic), budgets are finite.
  `Gen.calcBounds`, `Gen.clamp_zero`, `Gen.astDescriptionBounds` are REGENERATED from the Go
  source by go/factx on every run (Generated/Bounds.lean), so these theorems are re-checked
  against what the code says now.  Go `int` is modelled as `Int`: the property here is not
  about wrap-around (sizes and positions are far below 2^63).
-/
import SonicSpec.Generated.Bounds
import SonicSpec.Generated.Consts
set_option linter.unusedSimpArgs false
namespace SonicSpec.Props.C07
open SonicSpec.Gen

/-- decoder `SyntaxError.description`: for EVERY size ≥ 0 and EVERY position (also negative or past
    the end) the excerpt `Src[p:q]` is a legal slice and both `strings.Repeat` counts are
    non-negative - formatting an error can never panic. -/
theorem calcBounds_safe (size pos : Int) (hs : 0 ≤ size) :
    let r := calcBounds size pos
    0 ≤ r.1 ∧ r.1 ≤ r.2.2.1 ∧ r.2.2.1 ≤ size ∧ 0 ≤ r.2.1 ∧ 0 ≤ r.2.2.2 := by
  simp only [calcBounds, clamp_zero, Id.run, pure, bind, Bool.or_eq_true, decide_eq_true_eq, ge_iff_le]
  repeat' split
  all_goals (simp only []; omega)

/-- for a position inside the input the message is bounded: the excerpt has at most 32 bytes and the
    caret line at most 32 characters, whatever the input size -/
theorem calcBounds_bounded (size pos : Int) (h0 : 0 ≤ pos) (h1 : pos < size) :
    let r := calcBounds size pos
    r.2.2.1 - r.1 ≤ 32 ∧ r.2.1 + r.2.2.2 + 1 ≤ 32 ∧ r.1 ≤ pos ∧ pos < r.2.2.1 := by
  simp only [calcBounds, clamp_zero, Id.run, pure, bind, Bool.or_eq_true, decide_eq_true_eq, ge_iff_le]
  repeat' split
  all_goals (simp only []; omega)

/-- the caret points at the reported position: left width = pos - lbound -/
theorem calcBounds_caret (size pos : Int) (h0 : 0 ≤ pos) (h1 : pos < size) :
    let r := calcBounds size pos
    r.1 + r.2.1 = pos := by
  simp only [calcBounds, clamp_zero, Id.run, pure, bind, Bool.or_eq_true, decide_eq_true_eq, ge_iff_le]
  repeat' split
  all_goals (simp only []; omega)

/-- AST `SyntaxError.description` has no guard of its own; it is safe exactly when the position is not
    more than 16 past the end (partial: the full statement "for every pos" is FALSE, see the witness) -/
theorem astDescription_safe_partial (size pos : Int) (hs : 0 < size) (hp : pos ≤ size + 16) :
    let r := astDescriptionBounds size pos
    0 ≤ r.1 ∧ r.1 ≤ r.2.2.1 ∧ r.2.2.1 ≤ size ∧ 0 ≤ r.2.1 ∧ 0 ≤ r.2.2.2 := by
  simp only [astDescriptionBounds, clamp_zero, Id.run, pure, bind, Bool.or_eq_true, decide_eq_true_eq, ge_iff_le,
    beq_iff_eq]
  repeat' split
  all_goals (simp only []; omega)

/-- witness that the unguarded AST formatter is unsafe for positions far past the end:
    size 2, pos 40 gives the slice `Src[24:2]` -/
theorem astDescription_unsafe_witness :
    (astDescriptionBounds 2 40).1 > (astDescriptionBounds 2 40).2.2.1 := by decide

/-- the three nesting budgets are positive and finite, so the depth-limited recognisers terminate with an
    error instead of exhausting the machine stack (regenerated constants) -/
theorem budgets_positive : 0 < maxRecurse ∧ 0 < decMaxStack ∧ 0 < encMaxStack ∧
    encStackLimit = encMaxStack * encStateSize := by decide

-- non-vacuity: a concrete in-range position meets the hypotheses, and the bounds are the expected ones
example : calcBounds 100 50 = (34, 16, 66, 15) := by decide
example : calcBounds 2 6 = (0, 0, 2, 0) := by decide
example : (0 : Int) ≤ 50 ∧ (50 : Int) < 100 := by decide

end SonicSpec.Props.C07
