/-
  C16 - "Nodes declared concurrently readable really are": property theorems.

  Setting.  One shared `ast.Node` obtained with ConcurrentRead / NewRawConcurrentRead (raw text,
  own RWMutex) is read by any number of goroutines.  Thread programs are NOT written by hand:
  `RW.progOf Generated.Access.access fn` compiles the ordered list of atomic operations, mutex
  calls and plain field accesses that `go/factx_access` re-reads from ast/node.go, ast/encode.go,
  ast/parser.go on every run (calls inlined, deferred calls placed at every exit, data-dependent
  branches resolved by a per-thread oracle).  Executions are arbitrary schedules (`List Nat`) of
  single field reads/writes, atomic operations on `t` and mutex operations (`RW.step`).

  * a data race = two accesses to the same plain field by different threads, one a write, not
    both atomic, the earlier one not happening-before the later one (`RW.races`; happens-before
    = program order + Unlock/RUnlock → Lock, Unlock → RLock, release-store of t → acquire-load);
  * a torn read = a view `(t, l, p)` whose parts are of different generations (`RW.Th.torn`).

  What is proved about ALL programs that pass the static discipline `RW.safe` (any number of
  threads, all schedules, all oracles): no data race, no torn read, every snapshot is the one a
  single-threaded run sees before or after the conversion; and - by kernel evaluation over the
  regenerated facts - that every documented read operation passes the discipline, EXCEPT
  `Node.MarshalJSON`, whose pinned source reads `(p,l)` after an unlocked `isRaw()`: for that
  program the statement is false (concrete 2-thread schedule below, replayed on the real code by
  the `-race` harness), and true again for the repaired program (read lock as in `Raw()`).

  `pf` = "the node's own parser rejects the text".  The three statements are proved for every
  `pf`; the regenerated programs pass the discipline for `pf = false`.  For `pf = true` (a text the
  skipper accepted and the parser rejects) the pinned parseRaw overwrites the whole node including
  its mutex pointer (`*self = *newSyntaxError(..)`): negation proved below (`parse_failure_*`), and the
  full statement for the repaired parseRaw (`both_repairs_all_documents`).
  Assumption A1 (tied by `children_*` below only syntactically): the value `assign` publishes is
  never lazy, its container children are raw nodes with their own mutex; each child is another
  instance of this same protocol, published by the parent's release-store.
-/
import SonicSpec.Proofs.RWThm
import SonicSpec.Generated.Access
namespace SonicSpec.Props.C16
open SonicSpec SonicSpec.RW

abbrev facts : RawTable := Generated.Access.access

/-- a system of disciplined threads: thread `i` runs program `ps[i].1` with oracle `ps[i].2` -/
def Disciplined (pf : Bool) (ps : List (Prog × List Bool)) : Prop := ∀ p ∈ ps, safe pf Abs.init p.1 = true

/-! ## the three statements, for every system of disciplined threads and every schedule -/

/-- F.  No torn read: in every reachable state every thread's view is consistent - a reader that
    observed `t` non-raw reads `(l,p)` of the generation of that `t` (the parsed representation),
    a reader that observed `t` raw (it then holds a lock, by the discipline) reads the raw text. -/
theorem no_torn_read (pf : Bool) (ps : List (Prog × List Bool)) (hs : Disciplined pf ps) (sched : List Nat) :
    ∀ th ∈ (run pf (State.init ps) sched).ths,
      th.torn = false ∧
      ∀ v g, th.tv = some (v, g) →
        (∀ a, th.lg = some a → a = g) ∧ (∀ b, th.pg = some b → b = g) ∧
        (v = .raw → g = 0) ∧ (v = .parsed → g = 1) := by
  intro th hth
  have hI := inv_reachable (pf := pf) ps hs sched
  refine ⟨hI.not_torn hth, ?_⟩
  intro v g htv
  obtain ⟨_, _, _, _, hok⟩ := hI.thread hth
  obtain ⟨h1, h2, h3, h4⟩ := viewOK_inv hok.view htv
  refine ⟨?_, ?_, h3, h4⟩
  · intro a ha; rcases h1 with h | h <;> rw [ha] at h <;> cases h; rfl
  · intro b hb; rcases h2 with h | h <;> rw [hb] at h <;> cases h; rfl

/-- F.  No data race, under every schedule. -/
theorem no_data_race (pf : Bool) (ps : List (Prog × List Bool)) (hs : Disciplined pf ps) (sched : List Nat) :
    (run pf (State.init ps) sched).sh.race = false :=
  (inv_reachable (pf := pf) ps hs sched).1.norace

/-- the two snapshots `(t, generation of l, generation of p)` a single-threaded run can return:
    the raw text (before the conversion) and the parsed representation (after it) -/
def seqRaw : TV × Nat × Nat := (.raw, 0, 0)
def seqParsed : TV × Nat × Nat := (.parsed, 1, 1)

/-- F.  Every read returns what a single-threaded run returns: the snapshot behind every completed
    read is the single-threaded snapshot before the conversion or the one after it - nothing else
    (no mixture, no intermediate value, no error value). -/
theorem readers_agree_with_sequential (pf : Bool) (ps : List (Prog × List Bool)) (hs : Disciplined pf ps) (sched : List Nat) :
    ∀ th ∈ (run pf (State.init ps) sched).ths, ∀ v g a b,
      th.tv = some (v, g) → th.lg = some a → th.pg = some b →
      (v, a, b) = seqRaw ∨ (v, a, b) = seqParsed := by
  intro th hth v g a b htv hl hp
  rcases (inv_reachable (pf := pf) ps hs sched).snapshot hth htv hl hp with ⟨h1, h2, h3⟩ | ⟨h1, h2, h3⟩
  · left; rw [h1, h2, h3]; rfl
  · right; rw [h1, h2, h3]; rfl

/-- no thread ever unlocks a mutex it does not hold, and no thread ever reaches a step the model
    does not cover (`Prog.abort`: unknown callee, escaping receiver, exhausted inlining fuel) -/
theorem no_fault_no_uncovered_step (pf : Bool) (ps : List (Prog × List Bool)) (hs : Disciplined pf ps) (sched : List Nat) :
    ∀ th ∈ (run pf (State.init ps) sched).ths, th.fault = false ∧ th.prog ≠ .abort :=
  fun _ hth => ⟨(inv_reachable (pf := pf) ps hs sched).no_fault hth, (inv_reachable (pf := pf) ps hs sched).not_abort hth⟩

/-- mutual exclusion of the node's RWMutex and the shape of the two stable states -/
theorem lock_and_state_shape (pf : Bool) (ps : List (Prog × List Bool)) (hs : Disciplined pf ps) (sched : List Nat) :
    let sh := (run pf (State.init ps) sched).sh
    (∀ i, sh.w = some i → sh.r = []) ∧ sh.t ≠ .err ∧ sh.m = true ∧
    (sh.t = .parsed → sh.tg = 1 ∧ sh.l = 1 ∧ sh.p = 1) ∧
    (sh.t = .raw → sh.w = none → sh.tg = 0 ∧ sh.l = 0 ∧ sh.p = 0) := by
  have hG := (inv_reachable (pf := pf) ps hs sched).1
  refine ⟨hG.excl, hG.noerr, hG.m, hG.gParsed, ?_⟩
  intro ht hw
  obtain ⟨h1, h2, h3⟩ := hG.gRaw ht
  obtain ⟨e1, e2⟩ := hG.wfree hw
  rw [e1] at h2; rw [e2] at h3
  exact ⟨h1, h2, h3⟩

/-- F.  The same three statements for a node on which Load/LoadAll has returned before it was shared
    (already converted; its container children are fresh instances of the raw protocol above) -/
theorem loaded_node_safe (pf : Bool) (ps : List (Prog × List Bool)) (hs : Disciplined pf ps) (sched : List Nat) :
    (run pf (State.initLoaded ps) sched).sh.race = false ∧
    (∀ th ∈ (run pf (State.initLoaded ps) sched).ths, th.torn = false) ∧
    (∀ th ∈ (run pf (State.initLoaded ps) sched).ths, ∀ v g a b,
      th.tv = some (v, g) → th.lg = some a → th.pg = some b → (v, a, b) = seqRaw ∨ (v, a, b) = seqParsed) := by
  have hI := inv_reachable_loaded (pf := pf) ps hs sched
  refine ⟨hI.1.norace, fun th hth => hI.not_torn hth, ?_⟩
  intro th hth v g a b htv hl hp
  rcases hI.snapshot hth htv hl hp with ⟨h1, h2, h3⟩ | ⟨h1, h2, h3⟩
  · left; rw [h1, h2, h3]; rfl
  · right; rw [h1, h2, h3]; rfl

/-! ## the tie: the documented read operations, as regenerated from the source, are disciplined -/

/-- the documented read operations (ast/search.go:33, ast/node.go:1843) and the helpers the API
    offers beside them; `MarshalJSON` is treated separately below -/
def documentedReads : List String :=
  [ "Get", "Index", "GetByPath", "IndexPair", "IndexOrGet", "IndexOrGetWithIdx",
    "Bool", "Int64", "StrictInt64", "Number", "StrictNumber", "String", "StrictString",
    "Float64", "StrictFloat64", "StrictBool",
    "Interface", "InterfaceUseNumber", "InterfaceUseNode",
    "Map", "MapUseNumber", "MapUseNode", "Array", "ArrayUseNumber", "ArrayUseNode",
    "Raw", "Valid", "Exists", "Check", "TypeSafe", "Len", "Cap",
    "checkRaw", "should", "encode", "encodeRaw" ]

set_option maxRecDepth 100000 in
/-- PARTIAL (everything except MarshalJSON): each documented read operation, compiled from the
    facts regenerated from the current source, passes the access discipline - so the three
    statements above hold for any number of goroutines running any mix of them. -/
theorem documented_reads_disciplined_partial :
    documentedReads.all (fun fn => disciplinedAt false facts fn) = true := by decide +kernel

/-- from "every listed function is disciplined" to the three statements for any mix of them -/
theorem mix_safe (pf : Bool) (tbl : RawTable) (names : List String)
    (hall : names.all (fun fn => disciplinedAt pf tbl fn) = true)
    (fns : List (String × List Bool)) (hf : ∀ f ∈ fns, f.1 ∈ names) (sched : List Nat) :
    let ps := fns.map fun f => ((progOf tbl f.1).getD .done, f.2)
    (run pf (State.init ps) sched).sh.race = false ∧
    (∀ th ∈ (run pf (State.init ps) sched).ths, th.torn = false) ∧
    (∀ th ∈ (run pf (State.init ps) sched).ths, ∀ v g a b,
      th.tv = some (v, g) → th.lg = some a → th.pg = some b → (v, a, b) = seqRaw ∨ (v, a, b) = seqParsed) := by
  intro ps
  have hs : Disciplined pf ps := by
    intro p hp
    obtain ⟨f, hfm, rfl⟩ := List.mem_map.mp hp
    have hd := List.all_eq_true.mp hall f.1 (hf f hfm)
    simp only [disciplinedAt] at hd
    cases hq : progOf tbl f.1 with
    | none => rw [hq] at hd; cases hd
    | some P => rw [hq] at hd; simpa using hd
  exact ⟨no_data_race pf ps hs sched, fun th hth => (no_torn_read pf ps hs sched th hth).1,
         readers_agree_with_sequential pf ps hs sched⟩

/-- PARTIAL consequence, spelled out: any mix of the documented reads EXCEPT MarshalJSON on one
    shared node whose text the parser accepts, any number of goroutines, any schedule: no race,
    no torn read, only single-threaded snapshots -/
theorem documented_reads_safe_partial (fns : List (String × List Bool))
    (hf : ∀ f ∈ fns, f.1 ∈ documentedReads) (sched : List Nat) :
    let ps := fns.map fun f => ((progOf facts f.1).getD .done, f.2)
    (run false (State.init ps) sched).sh.race = false ∧
    (∀ th ∈ (run false (State.init ps) sched).ths, th.torn = false) ∧
    (∀ th ∈ (run false (State.init ps) sched).ths, ∀ v g a b,
      th.tv = some (v, g) → th.lg = some a → th.pg = some b → (v, a, b) = seqRaw ∨ (v, a, b) = seqParsed) :=
  mix_safe false facts documentedReads documented_reads_disciplined_partial fns hf sched

/-! ## MarshalJSON: pinned source fails, repaired source passes -/

/-- ast/encode.go:94 as pinned: `if self.isRaw() { return rt.Str2Mem(self.toString()), nil }` -/
def marshalPinned : List Ev :=
  [.ifB .selfNil false, .ret, .ifE, .call "isRaw" .none, .ifB .raw false, .call "toString" .none,
   .ret, .ifE, .call "encode" .none, .ifB .opaque false, .ret, .ifE,
   .ifB .opaque false, .els, .ifE, .ret]

/-- the repaired fast path (patches/C16-marshal-rlock.diff): take the read lock as `Raw()` does and
    re-check `isRaw()` under it -/
def marshalRepaired : List Ev :=
  [.ifB .selfNil false, .ret, .ifE, .call "isRaw" .none, .ifB .raw false, .callSet "rlock" .none,
   .call "isRaw" .none, .ifB .raw false, .call "toString" .none, .ifB .lockVar false, .call "runlock" .none, .ifE,
   .ret, .ifE, .ifB .lockVar false, .call "runlock" .none, .ifE, .ifE,
   .call "encode" .none, .ifB .opaque false, .ret, .ifE, .ifB .opaque false, .els,
   .ifE, .ret]

def factsPinned : RawTable := override facts "MarshalJSON" marshalPinned
def factsRepaired : RawTable := override facts "MarshalJSON" marshalRepaired

/-- ast/node.go:2013 parseRaw as pinned: on a parse error `*self = *newSyntaxError(..)` (last events) -/
def parseRawPinned : List Ev :=
  [.callSet "lock" .none, .deferCall "unlock", .call "isRaw" .none, .ifB .raw true, .ret, .ifE,
   .call "toString" .none, .ifB .param false, .pset "noLazy" true, .wrAll, .els, .ifB .lockVar false,
   .pset "noLazy" true, .pset "loadOnce" true, .call "assign" .none, .els, .wrAll, .ifE,
   .ifE, .ifB .parseErr false, .wrAll, .ifE]

/-- the synchronisation core exactly as in the pinned source (ast/node.go, ast/parser.go,
    ast/encode.go); the negation witnesses below run on THIS table, so they stay true whatever the
    current tree looks like -/
def pinnedCore : RawTable :=
  [ ("assign", [.wr .l, .wr .p, .astore .t]),
    ("checkFast", [.ifB .selfNil false, .ret, .els, .rd .t, .ifB .opaque false, .ret, .els, .ret, .ifE, .ifE]),
    ("checkRaw", [.ifB .selfNil false, .ret, .ifE, .call "loadt" .none, .ifB .tErr false, .ret,
                  .ifE, .ifB .raw false, .call "parseRaw" .fls, .ifE, .call "checkFast" .none, .ret]),
    ("isRaw", [.call "loadt" .none, .ret]),
    ("loadt", [.aload .t, .ret]),
    ("lock", [.rd .m, .ifB .mNonNil false, .mcall .Lock, .ret, .ifE, .ret]),
    ("rlock", [.rd .m, .ifB .mNonNil false, .mcall .RLock, .ret, .ifE, .ret]),
    ("runlock", [.rd .m, .ifB .mNonNil false, .mcall .RUnlock, .ifE]),
    ("toString", [.rd .p, .rd .l, .ret]),
    ("unlock", [.rd .m, .ifB .mNonNil false, .mcall .Unlock, .ifE]),
    ("parseRaw", parseRawPinned),
    ("MarshalJSON", marshalPinned) ]

/-- the helpers of the synchronisation core are, in the current tree, what the pinned table says
    (MarshalJSON and parseRaw are classified separately) -/
theorem core_helpers_as_pinned :
    ["assign", "checkFast", "checkRaw", "isRaw", "loadt", "lock", "rlock", "runlock", "toString", "unlock"].all
      (fun fn => decide (facts.lookup fn = pinnedCore.lookup fn)) = true := by decide +kernel

/-- which MarshalJSON the current tree has (read by the check: `unlocked` ⇒ the race is predicted) -/
def marshalIsPinned : Bool := decide (facts.lookup "MarshalJSON" = some marshalPinned)

set_option maxRecDepth 100000 in
/-- the regenerated MarshalJSON is either the pinned, undisciplined one (finding C16-marshal-raw-
    unlocked) or a disciplined one (then all theorems above cover it as well) -/
theorem marshal_classified :
    facts.lookup "MarshalJSON" = some marshalPinned ∨ disciplined facts "MarshalJSON" = true := by
  decide +kernel

set_option maxRecDepth 100000 in
/-- the pinned MarshalJSON does not pass the discipline: it reads `(p,l)` after an unlocked isRaw() -/
theorem marshal_pinned_not_disciplined : disciplined factsPinned "MarshalJSON" = false := by
  decide +kernel

/-- witness schedule: goroutine 0 = MarshalJSON (loads t: raw), goroutine 1 = checkRaw → parseRaw
    up to and including `self.l = n.l` of assign, then goroutine 0 reads p (old) and l (new) -/
def marshalWitness : List Nat := [0, 0] ++ List.replicate 13 1 ++ [0, 0]

set_option maxRecDepth 100000 in
/-- NEGATION for the pinned program: on this 2-thread schedule MarshalJSON's read is TORN
    (p of the raw text, l of the parsed value) and is a DATA RACE with assign's write.
    Confirmed on the real code by `go build -race` (read in toString ← MarshalJSON, ast/encode.go:101,
    vs write in assign ← parseRaw, ast/node.go:2040). -/
theorem marshal_pinned_torn_and_racy :
    let s := run false (State.init [((progOf pinnedCore "MarshalJSON").getD .done, []),
                                    ((progOf pinnedCore "checkRaw").getD .done, [])]) marshalWitness
    s.sh.race = true ∧ (s.ths.map Th.torn) = [true, false] ∧
    (s.ths.map Th.view).head? = some (some (.raw, 0), some 1, some 0) := by
  decide +kernel

set_option maxRecDepth 100000 in
/-- the pinned statement is therefore FALSE for the documented list including MarshalJSON -/
theorem no_torn_read_fails_for_pinned_marshal :
    ¬ (∀ sched : List Nat,
        ∀ th ∈ (run false (State.init [((progOf pinnedCore "MarshalJSON").getD .done, []),
                                        ((progOf pinnedCore "checkRaw").getD .done, [])]) sched).ths,
          th.torn = false) := by
  intro h
  have := marshal_pinned_torn_and_racy.2.1
  have h0 := h marshalWitness
  generalize run false _ marshalWitness = s at this h0
  match s, this, h0 with
  | ⟨_, [a, b]⟩, hm, h0 =>
    simp only [List.map_cons, List.map_nil, List.cons.injEq, and_true] at hm
    have := h0 a (List.mem_cons_self)
    rw [hm.1] at this; cases this
  | ⟨_, []⟩, hm, _ => cases hm
  | ⟨_, [_]⟩, hm, _ => simp at hm
  | ⟨_, _ :: _ :: _ :: _⟩, hm, _ => simp at hm

set_option maxRecDepth 100000 in
/-- F for the REPAIRED MarshalJSON: it passes the discipline, and so do the operations that call
    it (Raw), hence the three statements hold for the complete documented list -/
theorem marshal_repaired_disciplined :
    ("MarshalJSON" :: documentedReads).all (fun fn => disciplinedAt false factsRepaired fn) = true := by
  decide +kernel

/-- the full statement for the repaired MarshalJSON (texts the parser accepts): any mix of ALL
    documented reads incl. MarshalJSON -/
theorem repaired_all_reads_safe (fns : List (String × List Bool))
    (hf : ∀ f ∈ fns, f.1 ∈ "MarshalJSON" :: documentedReads) (sched : List Nat) :
    let ps := fns.map fun f => ((progOf factsRepaired f.1).getD .done, f.2)
    (run false (State.init ps) sched).sh.race = false ∧
    (∀ th ∈ (run false (State.init ps) sched).ths, th.torn = false) ∧
    (∀ th ∈ (run false (State.init ps) sched).ths, ∀ v g a b,
      th.tv = some (v, g) → th.lg = some a → th.pg = some b → (v, a, b) = seqRaw ∨ (v, a, b) = seqParsed) :=
  mix_safe false factsRepaired ("MarshalJSON" :: documentedReads) marshal_repaired_disciplined fns hf sched

/-! ## documents the parser rejects (second finding): the error path of parseRaw -/

/-- repaired (patches/C16-parse-error-assign.diff): under the lock the error node is published
    through assign() as well (l, p, then the atomic store of t; m untouched), then return -/
def parseRawRepaired : List Ev :=
  [.callSet "lock" .none, .deferCall "unlock", .call "isRaw" .none, .ifB .raw true, .ret, .ifE,
   .call "toString" .none, .ifB .param false, .pset "noLazy" true, .wrAll, .els, .ifB .lockVar false,
   .pset "noLazy" true, .pset "loadOnce" true, .ifB .parseErr false, .ifE, .call "assign" .none, .ret,
   .els, .wrAll, .ifE, .ifE, .ifB .parseErr false, .wrAll,
   .ifE]

def factsBothRepaired : RawTable := override factsRepaired "parseRaw" parseRawRepaired

set_option maxRecDepth 100000 in
/-- the regenerated parseRaw is either the pinned one (finding C16-parse-error-overwrites-node) or
    one under which every documented read (except possibly MarshalJSON, classified above) is
    disciplined also for texts the parser rejects -/
theorem parseRaw_classified :
    facts.lookup "parseRaw" = some parseRawPinned ∨
    documentedReads.all (fun fn => disciplinedAt true facts fn) = true := by
  decide +kernel

/-- goroutine 1 reaches `m.Lock()` (it has read `self.m`), goroutine 0 converts, the parser fails,
    `*self = *newSyntaxError(..)` overwrites t (plainly) and m (nil); the deferred unlock() then
    finds `self.m == nil` and does not unlock -/
def parseFailWitness : List Nat := List.replicate 5 1 ++ List.replicate 21 0

/-- the state after that schedule -/
def parseFailState : State :=
  run true (State.init [((progOf pinnedCore "checkRaw").getD .done, []),
                        ((progOf pinnedCore "checkRaw").getD .done, [])]) parseFailWitness

set_option maxRecDepth 100000 in
/-- NEGATION for a document the parser rejects (pinned parseRaw): a data race on `t` (plain write of
    the error node vs the atomic load of a reader), and the write lock is left held by a finished
    goroutine -/
theorem parse_failure_race_and_lock_leak :
    parseFailState.sh.race = true ∧ parseFailState.sh.w = some 0 ∧ parseFailState.sh.m = false ∧
    (parseFailState.ths.map fun th => match th.prog with | .done => 0 | .op .acqW _ => 1 | _ => 2) = [0, 1] := by
  decide +kernel

set_option maxRecDepth 100000 in
/-- ... and goroutine 1, blocked in `m.Lock()`, never returns: no schedule changes that state -/
theorem parse_failure_deadlock : ∀ sched : List Nat, run true parseFailState sched = parseFailState := by
  have h0 : step true parseFailState 0 = parseFailState := by decide +kernel
  have h1 : step true parseFailState 1 = parseFailState := by decide +kernel
  have hl : parseFailState.ths.length = 2 := by decide +kernel
  have hstep : ∀ j, step true parseFailState j = parseFailState := by
    intro j
    match j with
    | 0 => exact h0
    | 1 => exact h1
    | j + 2 => exact step_oob (by rw [hl]; omega)
  exact run_fixed hstep

set_option maxRecDepth 100000 in
/-- with BOTH repairs every documented read incl. MarshalJSON is disciplined whether the parser
    accepts the text or not -/
theorem both_repairs_disciplined :
    ("MarshalJSON" :: documentedReads).all (fun fn => disciplinedAt false factsBothRepaired fn) = true ∧
    ("MarshalJSON" :: documentedReads).all (fun fn => disciplinedAt true factsBothRepaired fn) = true := by
  decide +kernel

/-- F for the code with both repairs: ALL documents (accepted by the parser or not), all
    documented reads incl. MarshalJSON, any number of goroutines, all schedules -/
theorem both_repairs_all_documents (pf : Bool) (fns : List (String × List Bool))
    (hf : ∀ f ∈ fns, f.1 ∈ "MarshalJSON" :: documentedReads) (sched : List Nat) :
    let ps := fns.map fun f => ((progOf factsBothRepaired f.1).getD .done, f.2)
    (run pf (State.init ps) sched).sh.race = false ∧
    (∀ th ∈ (run pf (State.init ps) sched).ths, th.torn = false) ∧
    (∀ th ∈ (run pf (State.init ps) sched).ths, ∀ v g a b,
      th.tv = some (v, g) → th.lg = some a → th.pg = some b → (v, a, b) = seqRaw ∨ (v, a, b) = seqParsed) := by
  cases pf
  · exact mix_safe false factsBothRepaired _ both_repairs_disciplined.1 fns hf sched
  · exact mix_safe true factsBothRepaired _ both_repairs_disciplined.2 fns hf sched

/-! ## construction facts read from the parser (children of a converted node) -/

/-- ast/parser.go Parse: the two `newRawNode` calls of the load-once branches pass `lock = true`
    (children created raw WITH their own mutex); lazy nodes are only built after both the
    `noLazy` and the `loadOnce` tests failed -/
theorem children_raw_nodes_own_mutex :
    (facts.lookup "Parser.Parse").map constructions = some [.newRaw .tru, .newLazy, .newRaw .tru, .newLazy] ∧
    (facts.lookup "newRawNode") = some [.ifB .param false, .mkMutex, .ifE, .ret] ∧
    (facts.lookup "NewRawConcurrentRead").map constructions = some [.newRaw .tru] := by
  decide +kernel

/-- parseRaw converts a lockable node with `noLazy = loadOnce = true` and publishes through assign -/
theorem parseRaw_lock_branch :
    (facts.lookup "parseRaw").map (fun evs => evs.filter fun e =>
        match e with | .pset _ _ | .call "assign" _ | .wrAll | .ifB .lockVar _ => true | _ => false) =
      some [.pset "noLazy" true, .wrAll, .ifB .lockVar false, .pset "noLazy" true, .pset "loadOnce" true,
            .call "assign" .none, .wrAll, .wrAll] ∧
    facts.lookup "assign" = some [.wr .l, .wr .p, .astore .t] := by
  decide +kernel

/-! ## non-vacuity -/

-- single-threaded runs: Raw on the fresh node returns the raw snapshot, a converting read the parsed one
example : ((run false (State.init [((progOf facts "Raw").getD .abort, [])]) (List.replicate 60 0)).ths.map Th.view)
    = [(some (.raw, 0), some 0, some 0)] := by decide +kernel
example : ((run false (State.init [((progOf facts "Interface").getD .abort,
      [false, false, false, false, false, false, false, true])]) (List.replicate 120 0)).ths.map
        fun th => (th.tv, th.lg)) = [(some (.parsed, 1), some 1)] := by decide +kernel
-- the discipline is not trivially true: a mutator, a deprecated by-value accessor and a bare lock are rejected
example : disciplined facts "Set" = false ∧ disciplined facts "IsRaw" = false ∧ disciplined facts "lock" = false := by
  decide +kernel
-- two racing converters: exactly one converts, both end with the parsed snapshot, no race
example :
    let s := run false (State.init [((progOf facts "checkRaw").getD .abort, []), ((progOf facts "checkRaw").getD .abort, [])])
               ((List.replicate 6 0 ++ List.replicate 6 1 ++ List.replicate 40 0 ++ List.replicate 40 1))
    s.sh.race = false ∧ s.sh.t = .parsed ∧ (s.sh.hist.filter (·.wr)).length = 3 := by decide +kernel

end SonicSpec.Props.C16
