/-
  C16 - "Nodes declared concurrently readable really are": property theorems.

  Setting.  One shared `ast.Node` obtained with ConcurrentRead / NewRawConcurrentRead (raw text,
  own RWMutex) - or on which Load/LoadAll has returned - is read by any number of goroutines.
  Thread programs are NOT written by hand: `RW.progOf Generated.Access.access fn` compiles the
  ordered list of atomic operations, mutex calls and plain accesses (fields t/l/p/m of the node and
  `c` = the memory behind `p`: children container, hash index, child slots) that
  `go/factx_access` re-reads from ast/{node,encode,parser,buffer,…}.go on every run (calls inlined -
  also into linkedNodes/linkedPairs -, deferred calls placed at every exit, data-dependent branches
  resolved by a per-thread oracle).  Executions are arbitrary schedules (`List Nat`) of single
  accesses, atomic operations on `t` and mutex operations (`RW.step`).

  * a data race = two accesses to the same location class by different threads, one a write, not
    both atomic, the earlier one not happening-before the later one (`RW.races`; happens-before
    = program order + Unlock/RUnlock → Lock, Unlock → RLock, release-store of t → acquire-load);
  * a torn read = a view `(t, l, p)` whose parts are of different generations (`RW.Th.torn`).

  HEADLINE (section 2): every documented read operation INCLUDING MarshalJSON, as regenerated from
  the current tree, passes the static discipline `RW.safe` - for texts the node's parser accepts
  (`pf = false`) and for texts it rejects (`pf = true`) - hence (section 1, proved for ALL
  disciplined programs, any number of threads, all schedules, all oracles): no data race, no torn
  read, every snapshot is one a single-threaded run sees, nothing is written once the conversion
  has been published.  Section 3: children - the parser creates them (and their container) under
  the parent's write lock before the release-store of `t`; nothing reaches them earlier; what it
  creates under `noLazy = loadOnce = true` are raw children with their own mutex and never a lazy
  node (assumption A1 of the first version, now a regenerated fact): every child starts as another
  instance of this same protocol.  Section 4: the PRE-FIX REGRESSION section - the two defects the
  pinned snapshot had (MarshalJSON's unlocked fast path, parseRaw's error path), as negations on
  the pinned event lists; a revert of either repair breaks section 2.
-/
import SonicSpec.Proofs.RWThm
import SonicSpec.Proofs.RWMulti
import SonicSpec.Model.RWParse
import SonicSpec.Generated.Access
namespace SonicSpec.Props.C16
open SonicSpec SonicSpec.RW

abbrev facts : RawTable := Generated.Access.access

/-- a system of disciplined threads: thread `i` runs program `ps[i].1` with oracle `ps[i].2` -/
def Disciplined (pf : Bool) (ps : List (Prog × List Bool)) : Prop := ∀ p ∈ ps, safe pf Abs.init p.1 = true

/-! ## 1. the statements, for every system of disciplined threads and every schedule -/

/-- F.  No torn read: in every reachable state every thread's view is consistent - a reader that
    observed `t` non-raw reads `(l,p)` of the generation of that `t` (the parsed representation),
    a reader that observed `t` raw (it then holds a lock, by the discipline) reads the raw text. -/
theorem no_torn_read (pf : Bool) (ps : List (Prog × List Bool)) (hs : Disciplined pf ps) (sched : List Nat) :
    ∀ th ∈ (run pf (State.init ps) sched).ths,
      th.torn = false ∧
      ∀ v g, th.tv = some (v, g) →
        (∀ a, th.lg = some a → a = g) ∧ (∀ b, th.pg = some b → b = g) ∧
        (v = .raw → g = 0) ∧ (v = .parsed → g = 1) := by
  intro th hth
  have hI := inv_reachable (pf := pf) ps hs sched
  refine ⟨hI.not_torn hth, ?_⟩
  intro v g htv
  obtain ⟨_, _, _, _, hok⟩ := hI.thread hth
  obtain ⟨h1, h2, h3, h4⟩ := viewOK_inv hok.view htv
  refine ⟨?_, ?_, h3, h4⟩
  · intro a ha; rcases h1 with h | h <;> rw [ha] at h <;> cases h; rfl
  · intro b hb; rcases h2 with h | h <;> rw [hb] at h <;> cases h; rfl

/-- F.  No data race, under every schedule. -/
theorem no_data_race (pf : Bool) (ps : List (Prog × List Bool)) (hs : Disciplined pf ps) (sched : List Nat) :
    (run pf (State.init ps) sched).sh.race = false :=
  (inv_reachable (pf := pf) ps hs sched).1.norace

/-- the two snapshots `(t, generation of l, generation of p)` a single-threaded run can return:
    the raw text (before the conversion) and the parsed representation (after it) -/
def seqRaw : TV × Nat × Nat := (.raw, 0, 0)
def seqParsed : TV × Nat × Nat := (.parsed, 1, 1)

/-- F.  Every read returns what a single-threaded run returns: the snapshot behind every completed
    read is the single-threaded snapshot before the conversion or the one after it - nothing else
    (no mixture, no intermediate value, no error value). -/
theorem readers_agree_with_sequential (pf : Bool) (ps : List (Prog × List Bool)) (hs : Disciplined pf ps) (sched : List Nat) :
    ∀ th ∈ (run pf (State.init ps) sched).ths, ∀ v g a b,
      th.tv = some (v, g) → th.lg = some a → th.pg = some b →
      (v, a, b) = seqRaw ∨ (v, a, b) = seqParsed := by
  intro th hth v g a b htv hl hp
  rcases (inv_reachable (pf := pf) ps hs sched).snapshot hth htv hl hp with ⟨h1, h2, h3⟩ | ⟨h1, h2, h3⟩
  · left; rw [h1, h2, h3]; rfl
  · right; rw [h1, h2, h3]; rfl

/-- no thread ever unlocks a mutex it does not hold, and no thread ever reaches a step the model
    does not cover (`Prog.abort`: unknown callee, escaping receiver, exhausted inlining fuel) -/
theorem no_fault_no_uncovered_step (pf : Bool) (ps : List (Prog × List Bool)) (hs : Disciplined pf ps) (sched : List Nat) :
    ∀ th ∈ (run pf (State.init ps) sched).ths, th.fault = false ∧ th.prog ≠ .abort :=
  fun _ hth => ⟨(inv_reachable (pf := pf) ps hs sched).no_fault hth, (inv_reachable (pf := pf) ps hs sched).not_abort hth⟩

/-- mutual exclusion of the node's RWMutex and the shape of the two stable states -/
theorem lock_and_state_shape (pf : Bool) (ps : List (Prog × List Bool)) (hs : Disciplined pf ps) (sched : List Nat) :
    let sh := (run pf (State.init ps) sched).sh
    (∀ i, sh.w = some i → sh.r = []) ∧ sh.t ≠ .err ∧ sh.m = true ∧
    (sh.t = .parsed → sh.tg = 1 ∧ sh.l = 1 ∧ sh.p = 1) ∧
    (sh.t = .raw → sh.w = none → sh.tg = 0 ∧ sh.l = 0 ∧ sh.p = 0) := by
  have hG := (inv_reachable (pf := pf) ps hs sched).1
  refine ⟨hG.excl, hG.noerr, hG.m, hG.gParsed, ?_⟩
  intro ht hw
  obtain ⟨h1, h2, h3⟩ := hG.gRaw ht
  obtain ⟨e1, e2, _⟩ := hG.wfree hw
  rw [e1] at h2; rw [e2] at h3
  exact ⟨h1, h2, h3⟩

/-- F.  The same three statements for a node on which Load/LoadAll has returned before it was shared
    (already converted; its container children are fresh instances of the raw protocol above) -/
theorem loaded_node_safe (pf : Bool) (ps : List (Prog × List Bool)) (hs : Disciplined pf ps) (sched : List Nat) :
    (run pf (State.initLoaded ps) sched).sh.race = false ∧
    (∀ th ∈ (run pf (State.initLoaded ps) sched).ths, th.torn = false) ∧
    (∀ th ∈ (run pf (State.initLoaded ps) sched).ths, ∀ v g a b,
      th.tv = some (v, g) → th.lg = some a → th.pg = some b → (v, a, b) = seqRaw ∨ (v, a, b) = seqParsed) := by
  have hI := inv_reachable_loaded (pf := pf) ps hs sched
  refine ⟨hI.1.norace, fun th hth => hI.not_torn hth, ?_⟩
  intro th hth v g a b htv hl hp
  rcases hI.snapshot hth htv hl hp with ⟨h1, h2, h3⟩ | ⟨h1, h2, h3⟩
  · left; rw [h1, h2, h3]; rfl
  · right; rw [h1, h2, h3]; rfl

/-- F.  Nothing is written after publication: once the type word is non-raw, no step of any
    disciplined thread writes a field of the node or the memory behind `p` (container, hash index,
    child slots) - the documented reads are reads of the published structure -/
theorem no_write_after_publication (pf : Bool) (ps : List (Prog × List Bool)) (hs : Disciplined pf ps)
    (sched : List Nat) (i : Nat) :
    let s := run pf (State.init ps) sched
    s.sh.t ≠ .raw → (step pf s i).sh.hist.filter (·.wr) = s.sh.hist.filter (·.wr) :=
  fun ht => writes_only_while_raw (inv_reachable (pf := pf) ps hs sched) ht i

/-! ## 2. HEADLINE: the documented read operations of the current tree -/

/-- the documented read operations (ast/search.go:33, ast/node.go:1843: GetByPath/Get/Index/
    GetOrIndex/Int64/Bool/Float64/String/Number/Interface/Array/Map/Raw/MarshalJSON) and the
    helpers the API offers beside them -/
def documentedReads : List String :=
  [ "MarshalJSON",
    "Get", "Index", "GetByPath", "IndexPair", "IndexOrGet", "IndexOrGetWithIdx",
    "Bool", "Int64", "StrictInt64", "Number", "StrictNumber", "String", "StrictString",
    "Float64", "StrictFloat64", "StrictBool",
    "Interface", "InterfaceUseNumber", "InterfaceUseNode",
    "Map", "MapUseNumber", "MapUseNode", "Array", "ArrayUseNumber", "ArrayUseNode",
    "Raw", "Valid", "Exists", "Check", "TypeSafe", "Len", "Cap",
    "checkRaw", "should", "encode", "encodeRaw" ]

set_option maxRecDepth 100000 in
/-- every documented read, compiled from the facts regenerated from the current source - calls
    followed into the children containers - passes the access discipline, whether the node's
    parser accepts the text or not.  (False on the pinned snapshot: section 4.) -/
theorem all_documented_reads_disciplined :
    documentedReads.all (fun fn => disciplinedAt false facts fn) = true ∧
    documentedReads.all (fun fn => disciplinedAt true facts fn) = true := by
  decide +kernel

/-- from "every listed function is disciplined" to the statements for any mix of them -/
theorem mix_safe (pf : Bool) (tbl : RawTable) (names : List String)
    (hall : names.all (fun fn => disciplinedAt pf tbl fn) = true)
    (fns : List (String × List Bool)) (hf : ∀ f ∈ fns, f.1 ∈ names) (sched : List Nat) :
    let ps := fns.map fun f => ((progOf tbl f.1).getD .done, f.2)
    (run pf (State.init ps) sched).sh.race = false ∧
    (∀ th ∈ (run pf (State.init ps) sched).ths, th.torn = false) ∧
    (∀ th ∈ (run pf (State.init ps) sched).ths, ∀ v g a b,
      th.tv = some (v, g) → th.lg = some a → th.pg = some b → (v, a, b) = seqRaw ∨ (v, a, b) = seqParsed) := by
  intro ps
  have hs : Disciplined pf ps := by
    intro p hp
    obtain ⟨f, hfm, rfl⟩ := List.mem_map.mp hp
    have hd := List.all_eq_true.mp hall f.1 (hf f hfm)
    simp only [disciplinedAt] at hd
    cases hq : progOf tbl f.1 with
    | none => rw [hq] at hd; cases hd
    | some P => rw [hq] at hd; simpa using hd
  exact ⟨no_data_race pf ps hs sched, fun th hth => (no_torn_read pf ps hs sched th hth).1,
         readers_agree_with_sequential pf ps hs sched⟩

/-- F (the property, on the current tree): ALL documents (accepted by the node's parser or not),
    any mix of ALL documented reads incl. MarshalJSON on one shared node, any number of goroutines,
    all schedules: no data race, no torn read, every snapshot is a single-threaded one -/
theorem all_reads_all_documents (pf : Bool) (fns : List (String × List Bool))
    (hf : ∀ f ∈ fns, f.1 ∈ documentedReads) (sched : List Nat) :
    let ps := fns.map fun f => ((progOf facts f.1).getD .done, f.2)
    (run pf (State.init ps) sched).sh.race = false ∧
    (∀ th ∈ (run pf (State.init ps) sched).ths, th.torn = false) ∧
    (∀ th ∈ (run pf (State.init ps) sched).ths, ∀ v g a b,
      th.tv = some (v, g) → th.lg = some a → th.pg = some b → (v, a, b) = seqRaw ∨ (v, a, b) = seqParsed) := by
  cases pf
  · exact mix_safe false facts _ all_documented_reads_disciplined.1 fns hf sched
  · exact mix_safe true facts _ all_documented_reads_disciplined.2 fns hf sched

/-! ## 3. children and lazy nodes -/

/-- COMPOSITION.  In every reachable state of a disciplined system: while `t` is raw, every write
    so far (node fields and the memory behind `p`: container, index, child slots, i.e. the creation
    of the children) was made by the thread that holds the node's write lock NOW; once `t` is non-raw
    every such write is in the set published by the release-store of `t`.  With `no_data_race`
    (which covers the memory behind `p`: every read of it by another thread has those writes in its
    happens-before set) and `no_write_after_publication`: a child is created under the parent's
    write lock, is reachable only after the parent's release-store, and all of its initial state -
    raw text, own mutex - happens-before every access to it: each child starts exactly like
    `State.init`, i.e. is a further instance of the system these theorems are about. -/
theorem children_created_under_lock_published_by_store (pf : Bool) (ps : List (Prog × List Bool))
    (hs : Disciplined pf ps) (sched : List Nat) :
    let sh := (run pf (State.init ps) sched).sh
    (sh.t = .raw → ∀ a ∈ sh.hist, a.wr = true → sh.w = some a.tid) ∧
    (sh.t ≠ .raw → ∀ a ∈ sh.hist, a.wr = true → a.id ∈ sh.relT) := by
  have hG := (inv_reachable (pf := pf) ps hs sched).1
  exact ⟨fun ht a ha hw => (hG.wrBy ht a ha hw).1, fun ht a ha hw => hG.hbT ht a ha hw⟩

set_option maxRecDepth 100000 in
/-- A1 as a regenerated fact.  parseRaw converts a lockable node with `noLazy = loadOnce = true`;
    started with these flags `Parser.Parse` (through decodeArray/decodeObject and back, all branches
    other than the flag tests explored both ways) constructs only `newRawNode(_, _, true)` children -
    raw, with their own mutex - and never a lazy node; at its own level it constructs neither (the
    value handed to assign is a scalar or a fully decoded container); `newRawNode` allocates the
    mutex exactly when asked to. -/
theorem parser_builds_locked_raw_children_never_lazy :
    parserConstructs facts "Parse" ⟨true, true, false⟩ = some [.newRaw .tru] ∧
    parserConstructsHere facts "Parse" ⟨true, true, false⟩ = some [] ∧
    facts.lookup "newRawNode" = some [.ifB .param false, .mkMutex, .ifE, .ret] ∧
    (facts.lookup "NewRawConcurrentRead").map constructions = some [.newRaw .tru] := by
  decide +kernel

/-- the lock branch of parseRaw: sets both flags, parses (building the children), publishes through
    assign (also the error node), returns; assign = l, p, then the atomic store of t -/
theorem parseRaw_lock_branch :
    (facts.lookup "parseRaw").map (fun evs => evs.filter fun e =>
        match e with | .pset _ _ | .parse | .call "assign" _ | .wrAll | .ifB .lockVar _ | .ifB .parseErr _ => true | _ => false) =
      some [.pset "noLazy" true, .parse, .wrAll, .ifB .lockVar false, .pset "noLazy" true, .pset "loadOnce" true,
            .parse, .ifB .parseErr false, .call "assign" .none, .parse, .wrAll, .ifB .parseErr false, .wrAll] ∧
    facts.lookup "assign" = some [.wr .l, .wr .p, .astore .t] := by
  decide +kernel

/-! ## 5. the multi-node object: parent + children, any depth -/

/-- thread programs on every node: `pss[n][i]` = program and oracle of thread `i` on node `n` -/
def MDisciplined (pf : Bool) (pss : List (List (Prog × List Bool))) : Prop := ∀ ps ∈ pss, Disciplined pf ps

/-- F (composite).  No data race on any node of the multi-node object, whatever the tree shape
    (`topo`), the number of nodes and threads, and the schedule of (thread, node) steps - readers
    descending parent → child while others convert either level. -/
theorem composite_no_data_race (pf : Bool) (topo : Nat → Nat) (pss : List (List (Prog × List Bool)))
    (hs : MDisciplined pf pss) (sched : List (Nat × Nat)) :
    ∀ (n : Nat) (s : State), (mrun pf topo (MState.init pss) sched).nodes[n]? = some s → s.sh.race = false :=
  fun n s hn => (inv_composite topo pss hs sched n s hn).1.norace

/-- F (composite).  No torn read on any node. -/
theorem composite_no_torn_read (pf : Bool) (topo : Nat → Nat) (pss : List (List (Prog × List Bool)))
    (hs : MDisciplined pf pss) (sched : List (Nat × Nat)) :
    ∀ (n : Nat) (s : State), (mrun pf topo (MState.init pss) sched).nodes[n]? = some s →
      ∀ th ∈ s.ths, th.torn = false :=
  fun n s hn _ hth => (inv_composite topo pss hs sched n s hn).not_torn hth

/-- F (composite).  Every snapshot read on any node is a single-threaded one (the node's raw text
    or its parsed representation). -/
theorem composite_readers_agree_with_sequential (pf : Bool) (topo : Nat → Nat)
    (pss : List (List (Prog × List Bool))) (hs : MDisciplined pf pss) (sched : List (Nat × Nat)) :
    ∀ (n : Nat) (s : State), (mrun pf topo (MState.init pss) sched).nodes[n]? = some s →
      ∀ th ∈ s.ths, ∀ v g a b, th.tv = some (v, g) → th.lg = some a → th.pg = some b →
        (v, a, b) = seqRaw ∨ (v, a, b) = seqParsed := by
  intro n s hn th hth v g a b htv hl hp
  rcases (inv_composite topo pss hs sched n s hn).snapshot hth htv hl hp with ⟨h1, h2, h3⟩ | ⟨h1, h2, h3⟩
  · left; rw [h1, h2, h3]; rfl
  · right; rw [h1, h2, h3]; rfl

/-- F (composite, PUBLICATION).  Whenever a thread `i` may act on a non-root node `n` - it has read
    a child slot of the parent after the parent's release-store - the parent is published (`t`
    non-raw) and EVERY write another thread made to the memory behind the parent's `p` (the
    creation of `n` and its siblings under the parent's write lock: container, key index, slots,
    the children's initial fields and mutexes) is in `i`'s happens-before set.  So each child
    starts for each of its readers exactly like `State.init`: the composition lemma of wave 2 as a
    theorem about the actual multi-node state. -/
theorem composite_child_published_before_entered (pf : Bool) (topo : Nat → Nat)
    (pss : List (List (Prog × List Bool))) (hs : MDisciplined pf pss) (sched : List (Nat × Nat))
    (i n : Nat) (hn0 : n ≠ 0)
    (henter : mayEnter topo (mrun pf topo (MState.init pss) sched) i n = true) :
    ∃ par, (mrun pf topo (MState.init pss) sched).nodes[topo n]? = some par ∧ par.sh.t ≠ .raw ∧
      ∀ th, par.ths[i]? = some th →
        ∀ b ∈ par.sh.hist, b.f = .c → b.wr = true → b.tid ≠ i → b.id ∈ th.hb := by
  simp only [mayEnter, Bool.or_eq_true, beq_iff_eq] at henter
  rcases henter with h | h
  · exact absurd h hn0
  · cases hp : (mrun pf topo (MState.init pss) sched).nodes[topo n]? with
    | none => rw [hp] at h; cases h
    | some par =>
      rw [hp] at h
      have hI := inv_composite topo pss hs sched (topo n) par hp
      refine ⟨par, rfl, ?_, ?_⟩
      · cases hl : par.ths[i]? with
        | some th => exact (creation_in_hb hI h hl).1
        | none =>
          -- without a thread record there is no descent read either; use the store fact directly
          obtain ⟨l1, acc, l2, st, hh, _, _, _, hst2, hstT⟩ := descended_split h
          intro ht
          have := hI.1.rawNoStore ht st (by rw [hh]; exact List.mem_append_right _ (List.mem_cons_of_mem _ hst2))
          have hstT' : (st.f == .t && st.wr && st.atomic) = true := hstT
          rw [this] at hstT'; cases hstT'
      · intro th hth
        exact (creation_in_hb hI h hth).2

/-- F (composite).  Once a node is published nothing writes its fields or the memory behind its
    `p` (children container, key index, child slots) any more, whoever steps wherever. -/
theorem composite_no_write_after_publication (pf : Bool) (topo : Nat → Nat)
    (pss : List (List (Prog × List Bool))) (hs : MDisciplined pf pss) (sched : List (Nat × Nat))
    (x : Nat × Nat) (n : Nat) (s s' : State)
    (hn : (mrun pf topo (MState.init pss) sched).nodes[n]? = some s) (ht : s.sh.t ≠ .raw)
    (hn' : (mstep pf topo (mrun pf topo (MState.init pss) sched) x).nodes[n]? = some s') :
    s'.sh.hist.filter (·.wr) = s.sh.hist.filter (·.wr) := by
  have hI := inv_composite topo pss hs sched n s hn
  unfold mstep at hn'
  cases hx : (mrun pf topo (MState.init pss) sched).nodes[x.2]? with
  | none => rw [hx] at hn'; simp only at hn'; rw [hn] at hn'; cases hn'; rfl
  | some sx =>
    rw [hx] at hn'
    simp only at hn'
    split at hn'
    · simp only at hn'
      rw [getElem?_set_ite hx] at hn'
      by_cases hxn : x.2 = n
      · subst hxn
        simp only [if_true] at hn'
        cases hn'
        rw [hn] at hx; cases hx
        exact writes_only_while_raw hI ht x.1
      · simp only [hxn, if_false] at hn'
        rw [hn] at hn'; cases hn'; rfl
    · rw [hn] at hn'; cases hn'; rfl

/-- a thread that has not descended cannot move on a non-root node -/
theorem composite_blocked_before_descent (pf : Bool) (topo : Nat → Nat) (ms : MState) (i n : Nat)
    (h : mayEnter topo ms i n = false) : mstep pf topo ms (i, n) = ms := by
  unfold mstep
  cases hs : ms.nodes[n]? with
  | none => rfl
  | some s => simp only [h]; rfl

/-- F (composite, on the current tree): any tree of nodes, on every node any mix of ALL
    documented reads, all documents, any number of goroutines, all schedules -/
theorem composite_all_reads_all_documents (pf : Bool) (topo : Nat → Nat)
    (fnss : List (List (String × List Bool))) (hf : ∀ fns ∈ fnss, ∀ f ∈ fns, f.1 ∈ documentedReads)
    (sched : List (Nat × Nat)) :
    let pss := fnss.map fun fns => fns.map fun f => ((progOf facts f.1).getD .done, f.2)
    ∀ (n : Nat) (s : State), (mrun pf topo (MState.init pss) sched).nodes[n]? = some s →
      s.sh.race = false ∧ (∀ th ∈ s.ths, th.torn = false) ∧
      (∀ th ∈ s.ths, ∀ v g a b, th.tv = some (v, g) → th.lg = some a → th.pg = some b →
        (v, a, b) = seqRaw ∨ (v, a, b) = seqParsed) := by
  intro pss n s hn
  have hs : MDisciplined pf pss := by
    intro ps hps p hp
    obtain ⟨fns, hfns, rfl⟩ := List.mem_map.mp hps
    obtain ⟨f, hfm, rfl⟩ := List.mem_map.mp hp
    have hall : documentedReads.all (fun fn => disciplinedAt pf facts fn) = true := by
      cases pf
      · exact all_documented_reads_disciplined.1
      · exact all_documented_reads_disciplined.2
    have hd := List.all_eq_true.mp hall f.1 (hf fns hfns f hfm)
    simp only [disciplinedAt] at hd
    cases hq : progOf facts f.1 with
    | none => rw [hq] at hd; cases hd
    | some P => rw [hq] at hd; simpa using hd
  exact ⟨composite_no_data_race pf topo pss hs sched n s hn, composite_no_torn_read pf topo pss hs sched n s hn,
         composite_readers_agree_with_sequential pf topo pss hs sched n s hn⟩

/-! ### the key index: part of the memory behind `p`, read-only after publication -/

/-- the hash index over an object's keys is built EAGERLY by the constructor the parser calls
    (`newObject`: BuildIndex when there are more than _Threshold_Index pairs), i.e. inside the
    conversion, under the write lock, before the release-store; the lookups the documented reads
    use (`skipKey` → `linkedPairs.Get` → `At`, `Len`, …) contain no write at all and call only each
    other.  (A lazily built index - seeds C16-lazy-index-in-get / C16b-lazy-keyindex-on-first-get -
    breaks this theorem and `all_documented_reads_disciplined`.) -/
theorem key_index_built_at_construction_read_only_after :
    facts.lookup "newObject" =
      some [.rd .c, .ifB .opaque false, .call "linkedPairs.BuildIndex" .none, .ifE, .call "linkedPairs.Len" .none, .ret] ∧
    ["linkedPairs.Get", "linkedPairs.At", "linkedPairs.Len", "linkedPairs.Cap",
     "linkedNodes.At", "linkedNodes.Len", "linkedNodes.Cap"].all (fun fn =>
      match facts.lookup fn with
      | some evs => evs.all fun e =>
          match e with
          | .wr _ | .wrAll | .astore _ | .parse | .escape _ => false
          | .call g _ => g == "linkedPairs.At" || g == "linkedNodes.At"
          | _ => true
      | none => false) = true ∧
    (facts.lookup "skipKey").map (fun evs => evs.filter fun e =>
        match e with | .call g _ => g.startsWith "linkedPairs." | .wr _ => true | _ => false) =
      some [.call "linkedPairs.Get" .none] := by
  decide +kernel

/-! ## 4. PRE-FIX REGRESSION: the pinned snapshot (before 45c02e9 / 7073139) -/

/-- ast/encode.go:94 as pinned: `if self.isRaw() { return rt.Str2Mem(self.toString()), nil }` -/
def marshalPinned : List Ev :=
  [.ifB .selfNil false, .ret, .ifE, .call "isRaw" .none, .ifB .raw false, .call "toString" .none,
   .ret, .ifE, .call "encode" .none, .ifB .opaque false, .ret, .ifE,
   .ifB .opaque false, .els, .ifE, .ret]

/-- ast/node.go:2013 parseRaw as pinned: on a parse error `*self = *newSyntaxError(..)` (last events) -/
def parseRawPinned : List Ev :=
  [.callSet "lock" .none, .deferCall "unlock", .call "isRaw" .none, .ifB .raw true, .ret, .ifE,
   .call "toString" .none, .ifB .param false, .pset "noLazy" true, .parse, .wrAll, .els, .ifB .lockVar false,
   .pset "noLazy" true, .pset "loadOnce" true, .parse, .call "assign" .none, .els, .parse, .wrAll, .ifE,
   .ifE, .ifB .parseErr false, .wrAll, .ifE]

/-- the synchronisation core exactly as in the pinned source; the negation witnesses run on THIS
    table, so they stay true whatever the current tree looks like -/
def pinnedCore : RawTable :=
  [ ("assign", [.wr .l, .wr .p, .astore .t]),
    ("checkFast", [.ifB .selfNil false, .ret, .els, .rd .t, .ifB .opaque false, .ret, .els, .ret, .ifE, .ifE]),
    ("checkRaw", [.ifB .selfNil false, .ret, .ifE, .call "loadt" .none, .ifB .tErr false, .ret,
                  .ifE, .ifB .raw false, .call "parseRaw" .fls, .ifE, .call "checkFast" .none, .ret]),
    ("isRaw", [.call "loadt" .none, .ret]),
    ("loadt", [.aload .t, .ret]),
    ("lock", [.rd .m, .ifB .mNonNil false, .mcall .Lock, .ret, .ifE, .ret]),
    ("rlock", [.rd .m, .ifB .mNonNil false, .mcall .RLock, .ret, .ifE, .ret]),
    ("runlock", [.rd .m, .ifB .mNonNil false, .mcall .RUnlock, .ifE]),
    ("toString", [.rd .p, .rd .l, .ret]),
    ("unlock", [.rd .m, .ifB .mNonNil false, .mcall .Unlock, .ifE]),
    ("parseRaw", parseRawPinned),
    ("MarshalJSON", marshalPinned) ]

/-- the helpers of the synchronisation core are, in the current tree, what the pinned table says -/
theorem core_helpers_as_pinned :
    ["assign", "checkFast", "checkRaw", "isRaw", "loadt", "lock", "rlock", "runlock", "toString", "unlock"].all
      (fun fn => decide (facts.lookup fn = pinnedCore.lookup fn)) = true := by decide +kernel

set_option maxRecDepth 100000 in
/-- with either pinned function put back into the current table the discipline check fails:
    the pinned MarshalJSON reads `(p,l)` after an unlocked isRaw(); the pinned parseRaw overwrites
    the whole node on a parse error -/
theorem pinned_functions_not_disciplined :
    disciplinedAt false (override facts "MarshalJSON" marshalPinned) "MarshalJSON" = false ∧
    disciplinedAt true (override facts "parseRaw" parseRawPinned) "checkRaw" = false := by
  decide +kernel

/-- witness schedule: goroutine 0 = MarshalJSON (loads t: raw), goroutine 1 = checkRaw → parseRaw
    up to and including `self.l = n.l` of assign, then goroutine 0 reads p (old) and l (new) -/
def marshalWitness : List Nat := [0, 0] ++ List.replicate 14 1 ++ [0, 0]

set_option maxRecDepth 100000 in
/-- NEGATION for the pinned MarshalJSON: on this 2-thread schedule its read is TORN (p of the raw
    text, l of the parsed value) and is a DATA RACE with assign's write.  Confirmed on the pinned
    code by `go build -race` (read in toString ← MarshalJSON, ast/encode.go:101, vs write in
    assign ← parseRaw, ast/node.go:2040); repaired by 45c02e9. -/
theorem marshal_pinned_torn_and_racy :
    let s := run false (State.init [((progOf pinnedCore "MarshalJSON").getD .done, []),
                                    ((progOf pinnedCore "checkRaw").getD .done, [])]) marshalWitness
    s.sh.race = true ∧ (s.ths.map Th.torn) = [true, false] ∧
    (s.ths.map Th.view).head? = some (some (.raw, 0), some 1, some 0) := by
  decide +kernel

/-- goroutine 1 reaches `m.Lock()` (it has read `self.m`), goroutine 0 converts, the parser fails,
    `*self = *newSyntaxError(..)` overwrites t (plainly) and m (nil); the deferred unlock() then
    finds `self.m == nil` and does not unlock -/
def parseFailWitness : List Nat := List.replicate 5 1 ++ List.replicate 22 0

def parseFailState : State :=
  run true (State.init [((progOf pinnedCore "checkRaw").getD .done, []),
                        ((progOf pinnedCore "checkRaw").getD .done, [])]) parseFailWitness

set_option maxRecDepth 100000 in
/-- NEGATION for the pinned parseRaw on a text the parser rejects: a data race on `t`, and the
    write lock is left held by a finished goroutine; repaired by 7073139 -/
theorem parse_failure_race_and_lock_leak :
    parseFailState.sh.race = true ∧ parseFailState.sh.w = some 0 ∧ parseFailState.sh.m = false ∧
    (parseFailState.ths.map fun th => match th.prog with | .done => 0 | .op .acqW _ => 1 | _ => 2) = [0, 1] := by
  decide +kernel

set_option maxRecDepth 100000 in
/-- ... and goroutine 1, blocked in `m.Lock()`, never returns: no schedule changes that state -/
theorem parse_failure_deadlock : ∀ sched : List Nat, run true parseFailState sched = parseFailState := by
  have h0 : step true parseFailState 0 = parseFailState := by decide +kernel
  have h1 : step true parseFailState 1 = parseFailState := by decide +kernel
  have hl : parseFailState.ths.length = 2 := by decide +kernel
  have hstep : ∀ j, step true parseFailState j = parseFailState := by
    intro j
    match j with
    | 0 => exact h0
    | 1 => exact h1
    | j + 2 => exact step_oob (by rw [hl]; omega)
  exact run_fixed hstep

/-! ## non-vacuity -/

-- single-threaded runs: Raw on the fresh node returns the raw snapshot, a converting read the parsed one
example : ((run false (State.init [((progOf facts "Raw").getD .abort, [])]) (List.replicate 60 0)).ths.map Th.view)
    = [(some (.raw, 0), some 0, some 0)] := by decide +kernel
-- the discipline is not trivially true: a mutator, a deprecated by-value accessor and a bare lock are rejected
example : disciplined facts "Set" = false ∧ disciplined facts "IsRaw" = false ∧ disciplined facts "lock" = false := by
  decide +kernel
-- two racing converters: exactly one converts (children, l, p, t), both end without a race
example :
    let s := run false (State.init [((progOf facts "checkRaw").getD .abort, []), ((progOf facts "checkRaw").getD .abort, [])])
               ((List.replicate 6 0 ++ List.replicate 6 1 ++ List.replicate 40 0 ++ List.replicate 40 1))
    s.sh.race = false ∧ s.sh.t = .parsed ∧ (s.sh.hist.filter (·.wr)).length = 4 := by decide +kernel
-- a read that builds the hash index lazily (seeded defect C16-lazy-index-in-get) is rejected
example : disciplined (override facts "linkedPairs.Get"
    [.rd .c, .ifB .opaque false, .call "linkedPairs.BuildIndex" .none, .ifE, .rd .c, .ret]) "Get" = false := by
  decide +kernel

-- the second key-index seed (skipKey builds the index on the first lookup) is rejected as well
example : disciplined (override facts "skipKey"
    [.call "len" .none, .rd .p, .rd .c, .ifB .opaque false, .call "linkedPairs.BuildIndex" .none, .ifE,
     .call "linkedPairs.Get" .none, .ret]) "Get" = false := by
  decide +kernel

/-! two levels, two readers at different levels: node 0 = parent, node 1 = child.  Thread 1 runs
    Index on the parent (converts it, descends), then checkRaw on the child (converts it); thread 0
    runs Get on the parent and, once it has descended, Raw on the child - concurrently with
    thread 1's conversion of the child. -/
def demoPss : List (List (Prog × List Bool)) :=
  [[((progOf facts "Get").getD .abort, [false, true, false, true]),
    ((progOf facts "Index").getD .abort, [false, false, true, true])],
   [((progOf facts "Raw").getD .abort, []), ((progOf facts "checkRaw").getD .abort, [])]]
def demoTopo : Nat → Nat := fun _ => 0
def demoSched1 : List (Nat × Nat) := List.replicate 5 (0, 1) ++ List.replicate 120 (1, 0)
def demoSched2 : List (Nat × Nat) :=
  demoSched1 ++ List.replicate 60 (0, 0) ++ (List.replicate 80 [(1, 1), (0, 1)]).flatten

set_option maxRecDepth 100000 in
-- before anybody has descended nobody moves on the child; after thread 1's Index on the parent
-- thread 1 may enter the child, thread 0 may not (yet)
example :
    let ms := mrun false demoTopo (MState.init demoPss) demoSched1
    (ms.nodes.map fun s => (s.sh.t, s.sh.hist.length)) = [(.parsed, 19), (.raw, 0)] ∧
    mayEnter demoTopo ms 1 1 = true ∧ mayEnter demoTopo ms 0 1 = false := by decide +kernel

set_option maxRecDepth 100000 in
-- both levels converted, both readers finished on both nodes with single-threaded snapshots, no race
example :
    let ms := mrun false demoTopo (MState.init demoPss) demoSched2
    (ms.nodes.map fun s => (s.sh.race, s.sh.t)) = [(false, .parsed), (false, .parsed)] ∧
    (ms.nodes.map fun s => s.ths.map fun th => (th.torn, decide (th.prog = .done))) =
      [[(false, true), (false, true)], [(false, true), (false, true)]] ∧
    mayEnter demoTopo ms 0 1 = true := by decide +kernel

end SonicSpec.Props.C16
