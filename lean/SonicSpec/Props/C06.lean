/-
  C06 - returned data is caller-owned; buffers and inputs are never aliased or overrun.

  Property theorems only (helper lemmas: Proofs/Own*.lean; models: Model/Own.lean, Model/OwnHeap.lean).
  Everything is quantified over
    * every history (list of calls with arbitrary arguments and arbitrary `sync.Pool.Get` choices,
      garbage collections, and the caller overwriting its decoder inputs),
    * every machine-code routine meeting the contract `NativeOK` (native.Quote / native.HTMLEscape),
    * every `runtime.growslice` rounding (`Env.grow`, only `requested ≤ obtained` is assumed) and every
      content of uncleared memory (`Env.garb`),
    * every value of option.LimitBufferSize / DefaultEncoderBufferSize / DefaultAstBufferSize (`Params`:
      no side condition at all is needed on them), every capacity, prior content and dirty spare part.
-/
import SonicSpec.Proofs.OwnHist
import SonicSpec.Proofs.OwnNative
namespace SonicSpec.Props.C06
open SonicSpec SonicSpec.Own

/-! ## ownership over histories -/

/-- In every reachable state: (1) every pooled array carries the tag `pool` - so no array is at the
    same time the caller's and in a pool - and is pooled once; (2) every store the library ever made
    lies inside the capacity of its array (`no_overrun` at heap level), and the array was held by the
    library at that moment, or it was the slice lent to that very call and the store lies in the spare
    part behind its length; (3) every array the caller may overwrite is the caller's; (4) every byte
    range ever returned lies in an array of the caller's that is not such an input, and still holds
    the bytes that were returned. -/
theorem ownership_inv (c : Ctx) (hc : c.OK) (ops : List Op) :
    let st := run c {} ops
    (∀ p ∈ st.pool, ∃ b, st.heap[p.2]? = some b ∧ b.owner = .pool) ∧
    (st.pool.map (·.2)).Nodup ∧
    (∀ e ∈ st.log, e.hi ≤ e.cap ∧
      (e.owner = .internal ∨ (e.owner = .caller ∧ ∃ l, e.lent = some l ∧ l ≤ e.off))) ∧
    (∀ i ∈ st.inputs, ∃ b, st.heap[i]? = some b ∧ b.owner = .caller) ∧
    (∀ r ∈ st.results, ∃ b, st.heap[r.id]? = some b ∧ b.owner = .caller ∧ r.id ∉ st.inputs ∧
      r.now st = r.bytes) := by
  intro st
  have h := (run_ok hc ops inv_init).inv
  refine ⟨?_, h.nodup, h.log, h.inputs, ?_⟩
  · intro p hp
    obtain ⟨b, hb, ho, _⟩ := h.pooled p hp
    exact ⟨b, hb, ho⟩
  · intro r hr
    have hok := h.results r hr
    obtain ⟨b, hb, ho, _, _, hi⟩ := hok
    exact ⟨b, hb, ho, hi, result_now_of_ok (h.results r hr)⟩

/-- Bytes returned by any call of a history are unchanged after any continuation of the history
    (further Marshal / MarshalString / MarshalIndent / EncodeInto / Node.MarshalJSON / Raw / decoding
    calls with any pool choices, garbage collections, the caller overwriting decoder inputs). -/
theorem returned_bytes_stable (c : Ctx) (hc : c.OK) (before after : List Op) :
    ∀ r ∈ (run c {} before).results,
      r ∈ (run c {} (before ++ after)).results ∧ r.now (run c {} (before ++ after)) = r.bytes := by
  intro r hr
  have h1 := run_ok hc before inv_init
  have h2 := run_ok hc after h1.inv
  rw [run_append]
  obtain ⟨new, hn⟩ := h2.mono
  have hmem : r ∈ (run c (run c {} before) after).results := by
    rw [hn]; exact List.mem_append_right _ hr
  exact ⟨hmem, result_now_of_ok (h2.inv.results r hmem)⟩

/-- No call faults (no store outside a capacity, no length beyond a capacity, no growslice panic,
    no endless restart loop) in any reachable state: `step` never takes its fall-back branch. -/
theorem no_call_faults (c : Ctx) (hc : c.OK) (ops : List Op) :
    let st := run c {} ops
    (∀ o v p1 p2, ∃ r, opEncode c st o v p1 p2 = .ok r) ∧
    (∀ o v pre ind p1 p2, ∃ r, opIndent c st o v pre ind p1 p2 = .ok r) ∧
    (∀ o impl t v, ∃ r, opEncodeInto c st o impl t v = .ok r) ∧
    (∀ n p, ∃ r, opNode c st n p = .ok r) := by
  intro st
  have h := (run_ok hc ops inv_init).inv
  refine ⟨?_, ?_, ?_, ?_⟩
  · intro o v p1 p2
    obtain ⟨st', ret, e, _⟩ := opEncode_ok hc h o v p1 p2; exact ⟨_, e⟩
  · intro o v pre ind p1 p2
    obtain ⟨st', ret, e, _⟩ := opIndent_ok hc h o v pre ind p1 p2; exact ⟨_, e⟩
  · intro o impl t v
    obtain ⟨st', ret, e, _⟩ := opEncodeInto_ok hc h o impl t v; exact ⟨_, e⟩
  · intro n p
    obtain ⟨st', ret, e, _⟩ := opNode_ok hc h n p; exact ⟨_, e⟩

/-- What a call returns depends on its arguments only - not on the history, hence not on the state
    of the pools, on which pooled array `sync.Pool.Get` hands out, on capacities or on stale bytes. -/
theorem output_independent_of_pool_state (c : Ctx) (hc : c.OK) (ops : List Op) :
    let st := run c {} ops
    (∀ o v p1 p2, ∃ st' ret, opEncode c st o v p1 p2 = .ok (st', ret) ∧ ret.matches (specEncode o v)) ∧
    (∀ o v pre ind p1 p2, ∃ st' ret, opIndent c st o v pre ind p1 p2 = .ok (st', ret) ∧
      ret.matches (specIndent o v pre ind)) ∧
    (∀ v p, ∃ st' ret, opNode c st (.loaded v) p = .ok (st', ret) ∧ ret.matches (render v)) ∧
    (∀ o impl prior dirt v, ∃ st' ret, opEncodeInto c st o impl (.fresh prior dirt) v = .ok (st', ret) ∧
      ret.matches (specEncodeInto o prior v)) := by
  intro st
  have h := (run_ok hc ops inv_init).inv
  refine ⟨?_, ?_, ?_, ?_⟩
  · intro o v p1 p2
    obtain ⟨st', ret, e, _, m⟩ := opEncode_ok hc h o v p1 p2; exact ⟨st', ret, e, m⟩
  · intro o v pre ind p1 p2
    obtain ⟨st', ret, e, _, m⟩ := opIndent_ok hc h o v pre ind p1 p2; exact ⟨st', ret, e, m⟩
  · intro v p
    obtain ⟨st', ret, e, _, m⟩ := opNode_ok hc h (.loaded v) p; exact ⟨st', ret, e, m _ rfl⟩
  · intro o impl prior dirt v
    obtain ⟨st', ret, e, _, m⟩ := opEncodeInto_ok hc h o impl (.fresh prior dirt) v
    exact ⟨st', ret, e, m prior rfl⟩

/-! ## one slice: no overrun, output independent of capacity / prior contents / native behaviour -/

/-- alg.Quote on a caller's slice with contents `prior` and ANY spare capacity holding ANY bytes
    (`dirt`; its length is `cap - len`), with ANY native routine meeting the contract and ANY growth
    rounding: never faults, and the result is `prior ++ quote s`. -/
theorem output_independent_of_capacity (env : Env) (henv : env.OK) (nat : Native)
    (hnat : NativeOK Str.quoteBody 6 nat) (prior dirt s : Bytes) :
    (quoteLoop env nat (SBuf.ofPrior prior dirt) s).map SBuf.bytes = .ok (prior ++ Str.quote s) := by
  have hwf := SBuf.ofPrior_wf prior dirt
  obtain ⟨b', e, x⟩ := quoteLoop_ok henv hnat _ hwf s
  have hb := x.bytes
  rw [SBuf.ofPrior_bytes] at hb
  rw [e, ← hb]; rfl

/-- the same for the copy of that loop that the JIT emits inline (encode_string) -/
theorem jit_output_independent_of_capacity (env : Env) (henv : env.OK) (nat : Native)
    (hnat : NativeOK Str.quoteBody 6 nat) (prior dirt s : Bytes) :
    (jitString env nat (SBuf.ofPrior prior dirt) s).map SBuf.bytes = .ok (prior ++ Str.quote s) := by
  have hwf := SBuf.ofPrior_wf prior dirt
  obtain ⟨b', e, x⟩ := jitString_ok henv hnat _ hwf s
  have hb := x.bytes
  rw [SBuf.ofPrior_bytes] at hb
  rw [e, ← hb]; rfl

/-- alg.HtmlEscape with a caller-supplied destination of ANY length and capacity (the tree carries
    the fix 1774a90; before it a destination longer than `len(src)*3/2+64` with little room made
    rt.GrowSlice panic - the former witness `prior = 100 bytes, cap = 100, src = ""` now comes out) -/
theorem htmlEscape_output_independent_of_capacity (env : Env) (henv : env.OK) (nat : Native)
    (hnat : NativeOK htmlEscape 6 nat) (prior dirt src : Bytes) :
    (htmlEscapeLoop env nat (SBuf.ofPrior prior dirt) src).map SBuf.bytes = .ok (prior ++ htmlEscape src) := by
  have hwf := SBuf.ofPrior_wf prior dirt
  obtain ⟨b', e, x⟩ := htmlEscapeLoop_ok henv hnat _ hwf src
  have hb := x.bytes
  rw [SBuf.ofPrior_bytes] at hb
  rw [e, ← hb]; rfl

/-- EncodeInto on any caller slice: never faults, and the result is the caller's prior content
    followed by the text of `v` (HTML-escaped under EscapeHTML) whatever the capacity, the dirt, the
    native, the growth rule and the string routine (JIT or alg.Quote); the prior content is never
    rewritten (the tree carries the fix of C06-encinto-finish-rewrites-prefix). -/
theorem encodeInto_output_independent_of_capacity (env : Env) (henv : env.OK) (n : Natives) (hn : n.OK)
    (impl : StrImpl) (o : Opts) (prior dirt : Bytes) (v : Val) :
    ∃ sb, encodeInto env n impl o (SBuf.ofPrior prior dirt) v = .ok (sb, hasBad (compile v)) ∧
      (∀ t, render v = some t →
        sb.bytes = prior ++ (if o.escapeHTML then htmlEscape t else t)) := by
  have hwf := SBuf.ofPrior_wf prior dirt
  obtain ⟨sb, e, hx⟩ := encodeInto_ok henv hn impl o _ hwf v
  refine ⟨sb, e, ?_⟩
  intro t ht
  have hbad : hasBad (compile v) = false := by
    cases h : hasBad (compile v)
    · rfl
    · rw [render_none h] at ht; cases ht
  rw [render_some hbad] at ht; cases ht
  have := hx.bytes
  rw [SBuf.ofPrior_bytes] at this
  rw [this]
  rcases Bool.eq_false_or_eq_true o.escapeHTML with ho | ho <;> simp [finishText, hbad, ho]

/-- The escape leaves a prefix alone exactly when it contains nothing the escape rewrites. -/
theorem htmlEscape_clean_prefix (p x : Bytes) (h : ∀ c ∈ p, c ≠ 60 ∧ c ≠ 62 ∧ c ≠ 38 ∧ c ≠ 226) :
    htmlEscape (p ++ x) = p ++ htmlEscape x := by
  induction p with
  | nil => rfl
  | cons c r ih =>
    have hc := h c (List.mem_cons_self)
    have hr : ∀ d ∈ r, d ≠ 60 ∧ d ≠ 62 ∧ d ≠ 38 ∧ d ≠ 226 := fun d hd => h d (List.mem_cons_of_mem _ hd)
    have p1 : ∀ y, c :: (r ++ x) ≠ 226 :: 128 :: 168 :: y := fun y e => hc.2.2.2 (List.cons.inj e).1
    have p2 : ∀ y, c :: (r ++ x) ≠ 226 :: 128 :: 169 :: y := fun y e => hc.2.2.2 (List.cons.inj e).1
    rw [List.cons_append, htmlEscape_cons_plain p1 p2, ih hr]
    have : htmlByte c = [c] := by
      simp only [htmlByte, beq_iff_eq, hc.1, hc.2.1, hc.2.2.1, if_false]
    rw [this]; rfl

/-! ## decoding never aliases the input under the copying entry points -/

/-- sonic.Unmarshal([]byte), sonic.Get([]byte) and decoders with CopyString (`copy = true`): no
    decoded value refers to the caller's input array; the caller may overwrite the input afterwards
    (it is registered in `inputs`, and `returned_bytes_stable` covers `Op.scribble`). -/
theorem decode_no_alias (c : Ctx) (hc : c.OK) (ops : List Op) (doc : Bytes) (parts : List (Nat × Nat)) :
    let st := run c {} ops
    let input := st.heap.length
    let st' := (opDecode st doc parts true).1
    input ∈ st'.inputs ∧ (∀ r ∈ st'.results, r.id ≠ input) ∧
    ∀ junk, ∀ r ∈ st'.results, r.now (opScribble st' input junk) = r.bytes := by
  intro st input st'
  have h := (run_ok hc ops inv_init).inv
  have h' := (opDecode_ok h doc parts true).inv
  have hin : input ∈ st'.inputs := by
    show st.heap.length ∈ (opDecode st doc parts true).1.inputs
    simp [opDecode, State.addResults, State.give, State.alloc, State.registerInput]
  refine ⟨hin, ?_, ?_⟩
  · intro r hr e
    obtain ⟨_, _, _, _, _, hni⟩ := h'.results r hr
    rw [e] at hni; exact hni hin
  · intro junk r hr
    have hs := opScribble_ok h' input junk
    obtain ⟨new, hn⟩ := hs.mono
    have : r ∈ (opScribble st' input junk).results := by rw [hn]; exact List.mem_append_right _ hr
    exact result_now_of_ok (hs.inv.results r this)

/-! ## non-vacuity -/

/-- a context whose natives are executable reference routines; they meet the contract -/
def refCtx (limit encDefault astDefault units : Nat) (z : Option UInt8) : Ctx :=
  { P := { limit := limit, encDefault := encDefault, astDefault := astDefault }
    env := { grow := fun c n => max n (2 * c), garb := fun g i => UInt8.ofNat (g + i) }
    nat := { quote := mkNative quoteGreedy units z, html := mkNative htmlGreedy units z } }

theorem refCtx_ok (limit encDefault astDefault units : Nat) (hu : 0 < units) (z : Option UInt8) :
    (refCtx limit encDefault astDefault units z).OK :=
  ⟨⟨fun c n => Nat.le_max_left n (2 * c)⟩, ⟨refQuote_ok units hu z, refHtml_ok units hu z⟩⟩

/-- the contract is not decoration: a routine that stores one byte more than it was offered makes
    the very first store fault with `overrun` (this is what the guard page observes) -/
example : (restartLoop (refCtx 8 4 4 1 none).env
    (fun s dn => { done := true, consumed := s.length, written := List.replicate (dn + 1) 0, emitted := 0 })
    5 (SBuf.ofPrior [] [0, 0]) [65]).toOption.isNone ∧
    (match restartLoop (refCtx 8 4 4 1 none).env
      (fun s dn => { done := true, consumed := s.length, written := List.replicate (dn + 1) 0, emitted := 0 })
      5 (SBuf.ofPrior [] [0, 0]) [65] with | .error .overrun => true | _ => false) = true := by decide

/-- a capacity too small for one escape: the loop restarts (grows) and still produces the quote -/
example : ((quoteLoop (refCtx 8 4 4 1 (some 170)).env (mkNative quoteGreedy 1 (some 170))
    (SBuf.ofPrior [88] []) [1, 34]).toOption.map fun b => (b.bytes, decide (1 < b.gen))) =
      some ([88] ++ Str.quote [1, 34], true) := by decide

/-- hand-over versus copy-out really both occur, and a pooled array really is reused: with the limit
    at 6 bytes a 2-byte output is copied out of a pooled 4-byte array, a later call takes that very
    array from the pool, and a 10-byte output is handed over (its array never enters the pool) -/
example :
    let c := refCtx 6 4 4 1 none
    let st := run c {} [.marshal {} (.int 42) 0 0, .marshal {} (.int 7) 1 0,
                        .marshal {} (.str [65, 66, 67, 68, 69, 70, 71, 72]) 1 0]
    st.results.map (·.bytes) = [[34, 65, 66, 67, 68, 69, 70, 71, 72, 34], [55], [52, 50]] ∧
    st.pool = [] ∧ st.results.map (·.id) = [3, 2, 1] ∧ st.log.map (·.id) = [0, 0, 0] := by decide +kernel

/-- a non-copying decode (UnmarshalString without CopyString) DOES alias the input - the model
    distinguishes the two kinds of entry point -/
example : ((opDecode {} [34, 97, 34] [(1, 1)] false).1.results.map (·.id)) = [0] ∧
          ((opDecode {} [34, 97, 34] [(1, 1)] true).1.results.map (·.id)) = [1, 1] := by decide

/-- overwriting a registered input really changes it -/
example : ((opScribble (opDecode {} [34, 97, 34] [(1, 1)] true).1 0 [0, 0, 0]).heap[0]?).map (·.mem) =
    some [0, 0, 0] := by decide

end SonicSpec.Props.C06
