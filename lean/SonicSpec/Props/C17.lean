/-
  C17 - property theorems.

  Objects (Model/IO.lean): a reader is a script of `Read` results `(data, error?)` plus the error it
  returns for ever afterwards; `concat`/`termOf` = the bytes it delivers / the error that ends it.
  `Faithful.*` transliterates /repo/internal/decoder/api/stream.go and
  /repo/internal/encoder/stream.go as shipped; `Fixed.*` is the repaired design (patches/C17-*.diff);
  `decodeAllStop` is the specification: value-by-value decoding of the concatenated bytes.
  Everything is generic in the inner one-value decoder `dec` (value, bytes consumed); the concrete
  witnesses use the strict JSON parser (`decJson`).

  Full statements are about the repaired model.  For the shipped model every statement that fails
  has its negation proved on a concrete witness (`shipped_not_*`, replayed on the real code by
  corpus/C17/witnesses.case) and a `*_partial` theorem under the condition that excludes the defect.
-/
import SonicSpec.Model.IOJson
import SonicSpec.Proofs.IO
import SonicSpec.Proofs.IOEnc
import SonicSpec.Proofs.IOShipped
import SonicSpec.Proofs.IOShipped2
import SonicSpec.Proofs.IOPatched
namespace SonicSpec.Props.C17
open SonicSpec SonicSpec.IO

section decoder
variable {V : Type} (dec : Bytes → Option (V × Nat))

/-- FULL (repaired decoder).  Two readers that deliver the same bytes and end with the same error
    make the decoder return the same values and the same terminal condition, namely those of
    decoding the concatenated bytes value by value - however the bytes are cut into `Read` results
    (single bytes, empty reads, data together with EOF or with an error). -/
theorem chunking_irrelevant (r₁ r₂ : Script) (f₁ f₂ : RErr)
    (hbytes : concat r₁ = concat r₂) (hterm : termOf r₁ f₁ = termOf r₂ f₂) :
    Fixed.outputs dec r₁ f₁ = Fixed.outputs dec r₂ f₂ ∧
    Fixed.outputs dec r₁ f₁ = decodeAllStop dec (concat r₁) (termOf r₁ f₁) := by
  refine ⟨?_, Fixed.outputs_eq dec r₁ f₁⟩
  rw [Fixed.outputs_eq, Fixed.outputs_eq, hbytes, hterm]

/-- the specification always reaches a terminal condition within its budget -/
theorem decodeAll_total (data : Bytes) (term : RErr) :
    ∃ vs t, decodeAllStop dec data term = (vs, .term t) ∧ decodeAll dec data term = (vs, t) := by
  have h := decodeAllFuel_ne_more dec false term (data.length + 1) data
    (by have := dropWs_length_le data; omega)
  have hne : ∀ vs, decodeAllStop dec data term ≠ (vs, .noProgress) := by
    intro vs
    have : ∀ n d vs, decodeAllFuel dec false term n d ≠ (vs, Stop.noProgress) := by
      intro n
      induction n with
      | zero => intro d vs; simp [decodeAllFuel]
      | succ n ih =>
        intro d vs
        unfold decodeAllFuel
        cases specStep dec false term d with
        | done t => simp
        | val v rest =>
          simp only
          cases hr : decodeAllFuel dec false term n rest with
          | mk vs' s' =>
            intro hc
            simp only [Prod.mk.injEq] at hc
            exact ih rest vs' (by rw [hr, hc.2])
    exact this _ _ _
  unfold decodeAll
  cases hd : decodeAllStop dec data term with
  | mk vs s =>
    cases s with
    | term t => exact ⟨vs, t, rfl, rfl⟩
    | noProgress => exact absurd hd (hne vs)
    | more => unfold decodeAllStop at hd; rw [hd] at h; exact absurd rfl h

/-- FULL (repaired decoder).  The stream ends cleanly (io.EOF) only if the reader ended with EOF and
    nothing but white space follows the last decoded value: a truncated or malformed tail is an error. -/
theorem truncated_is_error (r : Script) (f : RErr) (vs : List V)
    (h : Fixed.outputs dec r f = (vs, .term .eof)) :
    termOf r f = .eof ∧
    ∃ tail, tail <:+ concat r ∧ dropWs tail = [] ∧
      tail = specRemainder dec false (termOf r f) ((concat r).length + 1) (concat r) := by
  rw [Fixed.outputs_eq] at h
  have ⟨h1, h2⟩ := decodeAllFuel_eof dec false _ _ _ vs h
  exact ⟨h1, _, specRemainder_suffix dec false _ _ _, h2, rfl⟩

/-- FULL (repaired decoder).  When the reader fails with error code `c`, the decoder returns the
    values of the specification and then either that same error or a syntax error for a malformed
    tail - never a clean end; and if only white space follows the last value it is exactly the
    reader's error, unchanged. -/
theorem reader_error_after_values (r : Script) (f : RErr) (c : Nat) (hterm : termOf r f = .fail c) :
    (∃ vs, Fixed.outputs dec r f = (vs, .term (.readerErr c)) ∨
           Fixed.outputs dec r f = (vs, .term .syntaxError)) ∧
    (dropWs (specRemainder dec false (.fail c) ((concat r).length + 1) (concat r)) = [] →
      ∃ vs, Fixed.outputs dec r f = (vs, .term (.readerErr c))) := by
  rw [Fixed.outputs_eq, hterm]
  unfold decodeAllStop
  have hm := decodeAllFuel_ne_more dec false (.fail c) ((concat r).length + 1) (concat r)
    (by have := dropWs_length_le (concat r); omega)
  cases hd : decodeAllFuel dec false (.fail c) ((concat r).length + 1) (concat r) with
  | mk vs s =>
    rw [hd] at hm
    have ⟨h1, h2⟩ := decodeAllFuel_fail dec false c _ _ vs s hd
    constructor
    · refine ⟨vs, ?_⟩
      rcases h1 with rfl | rfl | rfl
      · exact absurd rfl hm
      · exact Or.inl rfl
      · exact Or.inr rfl
    · intro hc
      rcases h2 hc with rfl | rfl
      · exact absurd rfl hm
      · exact ⟨vs, rfl⟩

/-- FULL (repaired decoder).  Between calls (`scanp = 0`, which every call re-establishes) `Decode`
    never returns nil without a value, and a returned value means the input offset grew. -/
theorem decode_progress (st : DState) (r : Script) (f : RErr) (h0 : st.scanp = 0) :
    (∀ st' r' f', Fixed.decode dec st r f ≠ (.nothing, st', r', f')) ∧
    (∀ v st' r' f', Fixed.decode dec st r f = (.value v, st', r', f') →
      st.offset < st'.offset ∧ st'.scanp = 0) :=
  Fixed.decode_progress_aux dec st r f h0

/-- PARTIAL (shipped decoder): on a stream of self-delimiting values only - strings, arrays and
    objects that are complete and that the inner decoder accepts, separated by optional white
    space, nothing else after the last one - the shipped decoder is independent of the chunking and
    computes the specification.  Missing (and false, see `shipped_not_*`): streams with top-level
    numbers (framed early when cut, or framed too long), truncated or junk tails, stray closers. -/
theorem shipped_chunking_irrelevant_partial (r₁ r₂ : Script) (f₁ f₂ : RErr) (n : Nat)
    (hbytes : concat r₁ = concat r₂) (hterm : termOf r₁ f₁ = termOf r₂ f₂)
    (hsd : SelfDelimited dec n (concat r₁)) :
    Faithful.outputs dec r₁ f₁ = Faithful.outputs dec r₂ f₂ ∧
    Faithful.outputs dec r₁ f₁ = decodeAllStop dec (concat r₁) (termOf r₁ f₁) := by
  refine ⟨?_, Faithful.outputs_eq_delim dec r₁ f₁ n hsd⟩
  rw [Faithful.outputs_eq_delim dec r₁ f₁ n hsd, Faithful.outputs_eq_delim dec r₂ f₂ n (hbytes ▸ hsd),
    hbytes, hterm]

/-- PARTIAL (shipped decoder): the full statement under `Faithful.RunSafe` - at every `Decode`
    call of both runs the rest of the stream is white space only or starts with a complete value
    that the inner decoder accepts entirely and that is a string/array/object, a literal, or a
    NUMBER THAT THE FIRST FRAMING ATTEMPT FRAMES EXACTLY.  For numbers that is: no cut falls inside
    or directly after the number, and nothing behind it is dragged into the frame
    (`number_framed_whole_when`: at most 16 bytes buffered from its first byte on and a blank or
    `}` `]` `,` behind its digits).  "No cut inside or directly after a scalar" alone is not enough:
    `shipped_number_frame_swallows_values` needs no cut at all.  Literals need no condition on cuts.
    Missing: truncated/junk tails and stray closers (excluded by the hypothesis, false without it). -/
theorem shipped_chunking_irrelevant_no_scalar_cut_partial (r₁ r₂ : Script) (f₁ f₂ : RErr)
    (hbytes : concat r₁ = concat r₂) (hterm : termOf r₁ f₁ = termOf r₂ f₂)
    (h₁ : Faithful.RunSafe dec ((concat r₁).length + 1) {} r₁ f₁)
    (h₂ : Faithful.RunSafe dec ((concat r₂).length + 1) {} r₂ f₂) :
    Faithful.outputs dec r₁ f₁ = Faithful.outputs dec r₂ f₂ ∧
    Faithful.outputs dec r₁ f₁ = decodeAllStop dec (concat r₁) (termOf r₁ f₁) := by
  refine ⟨?_, Faithful.outputs_eq_safe dec r₁ f₁ h₁⟩
  rw [Faithful.outputs_eq_safe dec r₁ f₁ h₁, Faithful.outputs_eq_safe dec r₂ f₂ h₂, hbytes, hterm]

/-- the number clause of `Faithful.StepSafe` in plain terms -/
theorem number_framed_whole_when (c : UInt8) (r' : Bytes) (e : UInt8) (t : Bytes)
    (hc : isNumStart c = true) (hlen : (c :: r').length ≤ 16)
    (hnext : (c :: r').drop (numRun (c :: r')) = e :: t) (he : (isStruct e || isSpace e) = true) :
    skipOneFast (c :: r') = .ok 0 (numRun (c :: r')) :=
  skipOneFast_number_whole c r' e t hc hlen hnext he

/-- PARTIAL (shipped decoder): when the reader fails with error code `c`, the run never ends with a
    clean end of stream, and a reader error it reports is that error, unchanged.  Missing: that the
    values returned before are those of the specification (false: `shipped_not_chunking_irrelevant`),
    and the run may instead stop with a nil-without-value call (`shipped_not_decode_progress`). -/
theorem shipped_reader_error_after_values_partial (r : Script) (f : RErr) (c : Nat)
    (hterm : termOf r f = .fail c) :
    (Faithful.outputs dec r f).2 ≠ .term .eof ∧
    ∀ c', (Faithful.outputs dec r f).2 = .term (.readerErr c') → c' = c := by
  have h := Faithful.run_stop dec ((concat r).length + 1) {} r f rfl
  rw [hterm] at h
  simp only [RErr.toTerminal] at h
  unfold Faithful.outputs
  constructor
  · intro he; rw [he] at h; simp at h
  · intro c' he; rw [he] at h; simpa using h

/-- PARTIAL (shipped decoder): a `Decode` that returns a VALUE moved the input offset forward.
    Missing: the call can also return nil without a value (`shipped_not_decode_progress`). -/
theorem shipped_decode_progress_partial (st : DState) (r : Script) (f : RErr) (v : V)
    (st' : DState) (r' : Script) (f' : RErr)
    (h : Faithful.decode dec st r f = (.value v, st', r', f')) : st.offset < st'.offset :=
  Faithful.decode_value_progress dec st r f v st' r' f' h

/-- PARTIAL (shipped decoder), the exact shape of the `truncated_is_error` defect: whenever the
    framing loop gives up, the error it records is the reader's own terminal error (io.EOF for a
    reader that ended normally) - never a syntax error. -/
theorem shipped_framing_failure_returns_reader_error (st : DState) (s : Nat) (r : Script) (f : RErr)
    (st2 : DState) (r2 : Script) (f2 : RErr)
    (h : Faithful.frameLoop st s true r f = .failed st2 r2 f2) :
    st2.err = some (termOf r f).toTerminal := by
  have := Faithful.frameLoop_spec s r st true f
  rw [h] at this
  exact this

/-- the correspondence runs the model family `Patched.decode` (one switch per small repair
    patches/C17-*.diff, set from known_findings.json); with every switch off it is the shipped
    decoder these theorems are about -/
theorem patched_none_is_shipped (st : DState) (r : Script) (f : RErr) :
    Patched.decode dec {} st r f = Faithful.decode dec st r f :=
  Patched.decode_none dec st r f

end decoder

/-! ### witnesses: the shipped decoder (concrete inner decoder `decJson`) -/

/-- "12" | "3 4"  versus  "123 4": same bytes, different values (12, 3, 4 / 123, 4) -/
theorem shipped_not_chunking_irrelevant :
    ¬ (∀ (r₁ r₂ : Script) (f₁ f₂ : RErr), concat r₁ = concat r₂ → termOf r₁ f₁ = termOf r₂ f₂ →
        Faithful.outputs decJson r₁ f₁ = Faithful.outputs decJson r₂ f₂) := by
  intro h
  have := h [([49, 50], none), ([51, 32, 52], none)] [([49, 50, 51, 32, 52], none)] .eof .eof
    (by decide) (by decide)
  revert this
  decide +kernel

example : Faithful.outputs decJson [([49, 50], none), ([51, 32, 52], none)] .eof
    = ([[49, 50], [51], [52]], .term .eof) := by decide +kernel
example : Fixed.outputs decJson [([49, 50], none), ([51, 32, 52], none)] .eof
    = ([[49, 50, 51], [52]], .term .eof) := by decide +kernel

/-- no cut needed: "1 2 3 4 5 6 7 8 9 10 11 12" in ONE `Read` yields 1, 10, 11, 12 - the extent
    `skip_number_fast` gives the first number swallows 2..9 -/
theorem shipped_number_frame_swallows_values :
    Faithful.outputs decJson
      [([49,32,50,32,51,32,52,32,53,32,54,32,55,32,56,32,57,32,49,48,32,49,49,32,49,50], none)] .eof
    = ([[49], [49,48], [49,49], [49,50]], .term .eof) := by decide +kernel

/-- "[1,2" and "1 x" end with a clean EOF -/
theorem shipped_not_truncated_is_error :
    Faithful.outputs decJson [([91, 49, 44, 50], none)] .eof = ([], .term .eof) ∧
    Faithful.outputs decJson [([49, 32, 120], none)] .eof = ([[49]], .term .eof) ∧
    (decodeAllStop decJson [91, 49, 44, 50] .eof).2 = .term .syntaxError ∧
    (decodeAllStop decJson [49, 32, 120] .eof).2 = .term .syntaxError := by decide +kernel

/-- "1 ]": the second `Decode` returns nil, decodes nothing and leaves the state where it was -/
theorem shipped_not_decode_progress :
    Faithful.outputs decJson [([49, 32, 93], none)] .eof = ([[49]], .noProgress) ∧
    (∃ st : DState, st.scanp = 0 ∧ st.err = none ∧
      Faithful.decode decJson st [] .eof = (.nothing, st, [], .eof)) := by
  refine ⟨by decide +kernel, ⟨{ buf := [93] }, rfl, rfl, by decide +kernel⟩⟩

/-- "x" delivered together with a reader error: the junk is reported as the reader's error -/
theorem shipped_error_precedence :
    Faithful.outputs decJson [([120], some (.fail 7))] .eof = ([], .term (.readerErr 7)) ∧
    decodeAllStop decJson [120] (.fail 7) = ([], .term .syntaxError) := by decide +kernel

/-- the hypothesis of `shipped_chunking_irrelevant_partial` is satisfiable: `[1]"a"` -/
example : SelfDelimited decJson 2 [91, 49, 93, 34, 97, 34] :=
  Or.inr ⟨91, [49, 93, 34, 97, 34], 3, [91, 49, 93], by decide +kernel, by decide +kernel,
    by decide +kernel, by decide +kernel,
    Or.inr ⟨34, [97, 34], 3, [34, 97, 34], by decide +kernel, by decide +kernel, by decide +kernel,
      by decide +kernel, by show dropWs _ = []; decide +kernel⟩⟩
example : Faithful.outputs decJson [([91, 49], none), ([93, 34], none), ([97, 34], some .eof)] .eof
    = ([[91, 49, 93], [34, 97, 34]], .term .eof) := by decide +kernel

/-- `Faithful.RunSafe` is satisfiable with numbers and literals in the stream: `7 true` | ` [1]` -/
example : Faithful.outputs decJson [([55, 32, 116, 114, 117, 101], none), ([32, 91, 49, 93], none)] .eof
    = decodeAllStop decJson [55, 32, 116, 114, 117, 101, 32, 91, 49, 93] .eof := by decide +kernel
example : skipOneFast [55, 32, 116, 114, 117, 101] = .ok 0 1 := by decide +kernel

/-! non-vacuity of the full statements on the same inputs -/
example : Fixed.outputs decJson [([91, 49, 44, 50], none)] .eof = ([], .term .syntaxError) := by decide +kernel
example : Fixed.outputs decJson [([49, 32, 93], none)] .eof = ([[49]], .term .syntaxError) := by decide +kernel
example : Fixed.outputs decJson [([91, 49, 93, 32], none), ([], some (.fail 7))] .eof
    = ([[91, 49, 93]], .term (.readerErr 7)) := by decide +kernel
example : Fixed.outputs decJson [([49], none), ([], none), ([50, 32], some .eof)] .eof
    = ([[49, 50]], .term .eof) := by decide +kernel

/-! ### stream encoder -/
section encoder

/-- FULL (repaired encoder).  If every `Write` accepts what it is offered, exactly Marshal's bytes
    plus the newline (unless disabled) reach the writer and no error is returned. -/
theorem encoder_delivers (indent noNewline : Bool) (m : Bytes) (ws : List WStep) (h : AllOk ws) :
    (Fixed.encode indent noNewline m ws).delivered = m ++ nl noNewline ∧
    (Fixed.encode indent noNewline m ws).err = none := by
  unfold Fixed.encode
  cases indent with
  | true =>
    cases ws with
    | nil => simp [writeOnce]
    | cons w ws => have := h w (List.mem_cons_self); subst this; simp [writeOnce]
  | false =>
    exact writeAll_noFail ws _ (fun w hw k => by rw [h w hw]; simp)

/-- stronger on the plain path: short counts without an error are retried until all is written -/
theorem encoder_delivers_despite_short_writes (noNewline : Bool) (m : Bytes) (ws : List WStep)
    (h : NoFail ws) :
    (Fixed.encode false noNewline m ws).delivered = m ++ nl noNewline ∧
    (Fixed.encode false noNewline m ws).err = none :=
  writeAll_noFail ws _ h

/-- FULL (repaired encoder).  Whatever the writer does: (1) `Encode` returns nil only if all of
    Marshal's bytes and the newline were delivered - so the failure of any write, the newline's
    included, is reported; (2) what was delivered is a prefix of those bytes; (3) a reported
    writer error was really returned by some `Write`; (4) if the first `Write` fails after
    accepting `k` bytes, the writer's error is returned and exactly those `k` bytes were delivered. -/
theorem encoder_reports_first_failure (indent noNewline : Bool) (m : Bytes) (ws : List WStep) :
    ((Fixed.encode indent noNewline m ws).err = none →
      (Fixed.encode indent noNewline m ws).delivered = m ++ nl noNewline) ∧
    (Fixed.encode indent noNewline m ws).delivered <+: m ++ nl noNewline ∧
    ((Fixed.encode indent noNewline m ws).err = some .writer → ∃ k, WStep.fail k ∈ ws) ∧
    (∀ k rest, ws = .fail k :: rest → m ++ nl noNewline ≠ [] →
      (Fixed.encode indent noNewline m ws).err = some .writer ∧
      (Fixed.encode indent noNewline m ws).delivered = (m ++ nl noNewline).take k) := by
  unfold Fixed.encode
  cases indent with
  | true =>
    have ⟨h1, h2, h3⟩ := writeOnce_sound (m ++ nl noNewline) ws
    refine ⟨h1, h2, h3, ?_⟩
    intro k rest hws _
    subst hws; simp [writeOnce]
  | false =>
    have ⟨h1, h2, h3, _⟩ := writeAll_sound ws (m ++ nl noNewline)
    refine ⟨h1, h2, h3, ?_⟩
    intro k rest hws hne
    subst hws
    cases hb : m ++ nl noNewline with
    | nil => exact absurd hb hne
    | cons x xs => simp [writeAll]

/-- the shipped encoder drops the result of the newline's `Write`: value written, newline write
    fails, `Encode` returns nil although the newline was not delivered -/
theorem shipped_not_encoder_reports_first_failure :
    ¬ (∀ (indent noNewline : Bool) (m : Bytes) (ws : List WStep),
        (Faithful.encode indent noNewline m ws).err = none →
        (Faithful.encode indent noNewline m ws).delivered = m ++ nl noNewline) := by
  intro h
  have := h false false [91, 49, 93] [.ok, .fail 0]
  revert this
  decide +kernel

/-- PARTIAL (shipped encoder): with indentation (one `io.Copy` of value and newline) or with the
    newline disabled the shipped encoder IS the repaired one, so all of the above holds for it.
    Missing: the plain path with newline, where the newline's `Write` result is ignored. -/
theorem shipped_encoder_reports_first_failure_partial (indent noNewline : Bool) (m : Bytes)
    (ws : List WStep) (h : indent = true ∨ noNewline = true) :
    Faithful.encode indent noNewline m ws = Fixed.encode indent noNewline m ws := by
  unfold Faithful.encode Fixed.encode
  cases indent with
  | true => rfl
  | false =>
    have hn : noNewline = true := by simpa using h
    subst hn
    simp only [nl, if_true, List.append_nil, Bool.false_eq_true, if_false]
    cases he : (writeAll m ws).err <;> simp

end encoder
end SonicSpec.Props.C17
