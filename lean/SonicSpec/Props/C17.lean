/-
  C17 - property theorems.

  Objects (Model/IO.lean): a reader is a script of `Read` results `(data, error?)` plus the error it
  returns for ever afterwards; `concat`/`termOf` = the bytes it delivers / the error that ends it.
  `Faithful.*` transliterates /repo/internal/decoder/api/stream.go and
  /repo/internal/encoder/stream.go as shipped; `Fixed.*` is the repaired design (patches/C17-*.diff);
  `decodeAllStop` is the specification: value-by-value decoding of the concatenated bytes.
  Everything is generic in the inner one-value decoder `dec` (value, bytes consumed); the concrete
  witnesses use the strict JSON parser (`decJson`).

  Full statements are about the repaired model.  For the shipped model every statement that fails
  has its negation proved on a concrete witness (`shipped_not_*`, replayed on the real code by
  corpus/C17/witnesses.case) and a `*_partial` theorem under the condition that excludes the defect.
-/
import SonicSpec.Model.IOJson
import SonicSpec.Proofs.IO
import SonicSpec.Proofs.IOEnc
import SonicSpec.Proofs.IOShipped
import SonicSpec.Proofs.IOShipped2
import SonicSpec.Proofs.IOPatched
import SonicSpec.Proofs.IOGrammar
import SonicSpec.Proofs.IOHead
namespace SonicSpec.Props.C17
open SonicSpec SonicSpec.IO

section decoder
variable {V : Type} (dec : Bytes → Option (V × Nat))

/-- FULL (repaired decoder).  Two readers that deliver the same bytes and end with the same error
    make the decoder return the same values and the same terminal condition, namely those of
    decoding the concatenated bytes value by value - however the bytes are cut into `Read` results
    (single bytes, empty reads, data together with EOF or with an error). -/
theorem chunking_irrelevant (r₁ r₂ : Script) (f₁ f₂ : RErr)
    (hbytes : concat r₁ = concat r₂) (hterm : termOf r₁ f₁ = termOf r₂ f₂) :
    Fixed.outputs dec r₁ f₁ = Fixed.outputs dec r₂ f₂ ∧
    Fixed.outputs dec r₁ f₁ = decodeAllStop dec (concat r₁) (termOf r₁ f₁) := by
  refine ⟨?_, Fixed.outputs_eq dec r₁ f₁⟩
  rw [Fixed.outputs_eq, Fixed.outputs_eq, hbytes, hterm]

/-- the specification always reaches a terminal condition within its budget -/
theorem decodeAll_total (data : Bytes) (term : RErr) :
    ∃ vs t, decodeAllStop dec data term = (vs, .term t) ∧ decodeAll dec data term = (vs, t) := by
  have h := decodeAllFuel_ne_more dec false term (data.length + 1) data
    (by have := dropWs_length_le data; omega)
  have hne : ∀ vs, decodeAllStop dec data term ≠ (vs, .noProgress) := by
    intro vs
    have : ∀ n d vs, decodeAllFuel dec false term n d ≠ (vs, Stop.noProgress) := by
      intro n
      induction n with
      | zero => intro d vs; simp [decodeAllFuel]
      | succ n ih =>
        intro d vs
        unfold decodeAllFuel
        cases specStep dec false term d with
        | done t => simp
        | val v rest =>
          simp only
          cases hr : decodeAllFuel dec false term n rest with
          | mk vs' s' =>
            intro hc
            simp only [Prod.mk.injEq] at hc
            exact ih rest vs' (by rw [hr, hc.2])
    exact this _ _ _
  unfold decodeAll
  cases hd : decodeAllStop dec data term with
  | mk vs s =>
    cases s with
    | term t => exact ⟨vs, t, rfl, rfl⟩
    | noProgress => exact absurd hd (hne vs)
    | more => unfold decodeAllStop at hd; rw [hd] at h; exact absurd rfl h

/-- FULL (repaired decoder).  The stream ends cleanly (io.EOF) only if the reader ended with EOF and
    nothing but white space follows the last decoded value: a truncated or malformed tail is an error. -/
theorem truncated_is_error (r : Script) (f : RErr) (vs : List V)
    (h : Fixed.outputs dec r f = (vs, .term .eof)) :
    termOf r f = .eof ∧
    ∃ tail, tail <:+ concat r ∧ dropWs tail = [] ∧
      tail = specRemainder dec false (termOf r f) ((concat r).length + 1) (concat r) := by
  rw [Fixed.outputs_eq] at h
  have ⟨h1, h2⟩ := decodeAllFuel_eof dec false _ _ _ vs h
  exact ⟨h1, _, specRemainder_suffix dec false _ _ _, h2, rfl⟩

/-- FULL (repaired decoder).  When the reader fails with error code `c`, the decoder returns the
    values of the specification and then either that same error or a syntax error for a malformed
    tail - never a clean end; and if only white space follows the last value it is exactly the
    reader's error, unchanged. -/
theorem reader_error_after_values (r : Script) (f : RErr) (c : Nat) (hterm : termOf r f = .fail c) :
    (∃ vs, Fixed.outputs dec r f = (vs, .term (.readerErr c)) ∨
           Fixed.outputs dec r f = (vs, .term .syntaxError)) ∧
    (dropWs (specRemainder dec false (.fail c) ((concat r).length + 1) (concat r)) = [] →
      ∃ vs, Fixed.outputs dec r f = (vs, .term (.readerErr c))) := by
  rw [Fixed.outputs_eq, hterm]
  unfold decodeAllStop
  have hm := decodeAllFuel_ne_more dec false (.fail c) ((concat r).length + 1) (concat r)
    (by have := dropWs_length_le (concat r); omega)
  cases hd : decodeAllFuel dec false (.fail c) ((concat r).length + 1) (concat r) with
  | mk vs s =>
    rw [hd] at hm
    have ⟨h1, h2⟩ := decodeAllFuel_fail dec false c _ _ vs s hd
    constructor
    · refine ⟨vs, ?_⟩
      rcases h1 with rfl | rfl | rfl
      · exact absurd rfl hm
      · exact Or.inl rfl
      · exact Or.inr rfl
    · intro hc
      rcases h2 hc with rfl | rfl
      · exact absurd rfl hm
      · exact ⟨vs, rfl⟩

/-- FULL (repaired decoder).  Between calls (`scanp = 0`, which every call re-establishes) `Decode`
    never returns nil without a value, and a returned value means the input offset grew. -/
theorem decode_progress (st : DState) (r : Script) (f : RErr) (h0 : st.scanp = 0) :
    (∀ st' r' f', Fixed.decode dec st r f ≠ (.nothing, st', r', f')) ∧
    (∀ v st' r' f', Fixed.decode dec st r f = (.value v, st', r', f') →
      st.offset < st'.offset ∧ st'.scanp = 0) :=
  Fixed.decode_progress_aux dec st r f h0

/-- PARTIAL (shipped decoder): on a stream of self-delimiting values only - strings, arrays and
    objects that are complete and that the inner decoder accepts, separated by optional white
    space, nothing else after the last one - the shipped decoder is independent of the chunking and
    computes the specification.  Missing (and false, see `shipped_not_*`): streams with top-level
    numbers (framed early when cut, or framed too long), truncated or junk tails, stray closers. -/
theorem shipped_chunking_irrelevant_partial (r₁ r₂ : Script) (f₁ f₂ : RErr) (n : Nat)
    (hbytes : concat r₁ = concat r₂) (hterm : termOf r₁ f₁ = termOf r₂ f₂)
    (hsd : SelfDelimited dec n (concat r₁)) :
    Faithful.outputs dec r₁ f₁ = Faithful.outputs dec r₂ f₂ ∧
    Faithful.outputs dec r₁ f₁ = decodeAllStop dec (concat r₁) (termOf r₁ f₁) := by
  refine ⟨?_, Faithful.outputs_eq_delim dec r₁ f₁ n hsd⟩
  rw [Faithful.outputs_eq_delim dec r₁ f₁ n hsd, Faithful.outputs_eq_delim dec r₂ f₂ n (hbytes ▸ hsd),
    hbytes, hterm]

/-- PARTIAL (shipped decoder): the full statement under `Faithful.RunSafe` - at every `Decode`
    call of both runs the rest of the stream is white space only or starts with a complete value
    that the inner decoder accepts entirely and that is a string/array/object, a literal, or a
    NUMBER THAT THE FIRST FRAMING ATTEMPT FRAMES EXACTLY.  For numbers that is: no cut falls inside
    or directly after the number, and nothing behind it is dragged into the frame
    (`number_framed_whole_when`: at most 16 bytes buffered from its first byte on and a blank or
    `}` `]` `,` behind its digits).  "No cut inside or directly after a scalar" alone is not enough:
    `shipped_number_frame_swallows_values` needs no cut at all.  Literals need no condition on cuts.
    Missing: truncated/junk tails and stray closers (excluded by the hypothesis, false without it). -/
theorem shipped_chunking_irrelevant_no_scalar_cut_partial (r₁ r₂ : Script) (f₁ f₂ : RErr)
    (hbytes : concat r₁ = concat r₂) (hterm : termOf r₁ f₁ = termOf r₂ f₂)
    (h₁ : Faithful.RunSafe dec ((concat r₁).length + 1) {} r₁ f₁)
    (h₂ : Faithful.RunSafe dec ((concat r₂).length + 1) {} r₂ f₂) :
    Faithful.outputs dec r₁ f₁ = Faithful.outputs dec r₂ f₂ ∧
    Faithful.outputs dec r₁ f₁ = decodeAllStop dec (concat r₁) (termOf r₁ f₁) := by
  refine ⟨?_, Faithful.outputs_eq_safe dec r₁ f₁ h₁⟩
  rw [Faithful.outputs_eq_safe dec r₁ f₁ h₁, Faithful.outputs_eq_safe dec r₂ f₂ h₂, hbytes, hterm]

/-- the number clause of `Faithful.StepSafe` in plain terms -/
theorem number_framed_whole_when (c : UInt8) (r' : Bytes) (e : UInt8) (t : Bytes)
    (hc : isNumStart c = true) (hlen : (c :: r').length ≤ 16)
    (hnext : (c :: r').drop (numRun (c :: r')) = e :: t) (he : (isStruct e || isSpace e) = true) :
    skipOneFast (c :: r') = .ok 0 (numRun (c :: r')) :=
  skipOneFast_number_whole c r' e t hc hlen hnext he

/-- PARTIAL (shipped decoder): when the reader fails with error code `c`, the run never ends with a
    clean end of stream, and a reader error it reports is that error, unchanged.  Missing: that the
    values returned before are those of the specification (false: `shipped_not_chunking_irrelevant`),
    and the run may instead stop with a nil-without-value call (`shipped_not_decode_progress`). -/
theorem shipped_reader_error_after_values_partial (r : Script) (f : RErr) (c : Nat)
    (hterm : termOf r f = .fail c) :
    (Faithful.outputs dec r f).2 ≠ .term .eof ∧
    ∀ c', (Faithful.outputs dec r f).2 = .term (.readerErr c') → c' = c := by
  have h := Faithful.run_stop dec ((concat r).length + 1) {} r f rfl
  rw [hterm] at h
  simp only [RErr.toTerminal] at h
  unfold Faithful.outputs
  constructor
  · intro he; rw [he] at h; simp at h
  · intro c' he; rw [he] at h; simpa using h

/-- PARTIAL (shipped decoder): a `Decode` that returns a VALUE moved the input offset forward.
    Missing: the call can also return nil without a value (`shipped_not_decode_progress`). -/
theorem shipped_decode_progress_partial (st : DState) (r : Script) (f : RErr) (v : V)
    (st' : DState) (r' : Script) (f' : RErr)
    (h : Faithful.decode dec st r f = (.value v, st', r', f')) : st.offset < st'.offset :=
  Faithful.decode_value_progress dec st r f v st' r' f' h

/-- PARTIAL (shipped decoder), the exact shape of the `truncated_is_error` defect: whenever the
    framing loop gives up, the error it records is the reader's own terminal error (io.EOF for a
    reader that ended normally) - never a syntax error. -/
theorem shipped_framing_failure_returns_reader_error (st : DState) (s : Nat) (r : Script) (f : RErr)
    (st2 : DState) (r2 : Script) (f2 : RErr)
    (h : Faithful.frameLoop st s true r f = .failed st2 r2 f2) :
    st2.err = some (termOf r f).toTerminal := by
  have := Faithful.frameLoop_spec s r st true f
  rw [h] at this
  exact this

/-- the correspondence runs the model family `Patched.decode` (one switch per small repair
    patches/C17-*.diff, set from known_findings.json); with every switch off it is the shipped
    decoder these theorems are about -/
theorem patched_none_is_shipped (st : DState) (r : Script) (f : RErr) :
    Patched.decode dec {} st r f = Faithful.decode dec st r f :=
  Patched.decode_none dec st r f

end decoder

/-! ### witnesses: the shipped decoder (concrete inner decoder `decJson`) -/

/-- "12" | "3 4"  versus  "123 4": same bytes, different values (12, 3, 4 / 123, 4) -/
theorem shipped_not_chunking_irrelevant :
    ¬ (∀ (r₁ r₂ : Script) (f₁ f₂ : RErr), concat r₁ = concat r₂ → termOf r₁ f₁ = termOf r₂ f₂ →
        Faithful.outputs decJson r₁ f₁ = Faithful.outputs decJson r₂ f₂) := by
  intro h
  have := h [([49, 50], none), ([51, 32, 52], none)] [([49, 50, 51, 32, 52], none)] .eof .eof
    (by decide) (by decide)
  revert this
  decide +kernel

example : Faithful.outputs decJson [([49, 50], none), ([51, 32, 52], none)] .eof
    = ([[49, 50], [51], [52]], .term .eof) := by decide +kernel
example : Fixed.outputs decJson [([49, 50], none), ([51, 32, 52], none)] .eof
    = ([[49, 50, 51], [52]], .term .eof) := by decide +kernel

/-- no cut needed: "1 2 3 4 5 6 7 8 9 10 11 12" in ONE `Read` yields 1, 10, 11, 12 - the extent
    `skip_number_fast` gives the first number swallows 2..9 -/
theorem shipped_number_frame_swallows_values :
    Faithful.outputs decJson
      [([49,32,50,32,51,32,52,32,53,32,54,32,55,32,56,32,57,32,49,48,32,49,49,32,49,50], none)] .eof
    = ([[49], [49,48], [49,49], [49,50]], .term .eof) := by decide +kernel

/-- "[1,2" and "1 x" end with a clean EOF -/
theorem shipped_not_truncated_is_error :
    Faithful.outputs decJson [([91, 49, 44, 50], none)] .eof = ([], .term .eof) ∧
    Faithful.outputs decJson [([49, 32, 120], none)] .eof = ([[49]], .term .eof) ∧
    (decodeAllStop decJson [91, 49, 44, 50] .eof).2 = .term .syntaxError ∧
    (decodeAllStop decJson [49, 32, 120] .eof).2 = .term .syntaxError := by decide +kernel

/-- "1 ]": the second `Decode` returns nil, decodes nothing and leaves the state where it was -/
theorem shipped_not_decode_progress :
    Faithful.outputs decJson [([49, 32, 93], none)] .eof = ([[49]], .noProgress) ∧
    (∃ st : DState, st.scanp = 0 ∧ st.err = none ∧
      Faithful.decode decJson st [] .eof = (.nothing, st, [], .eof)) := by
  refine ⟨by decide +kernel, ⟨{ buf := [93] }, rfl, rfl, by decide +kernel⟩⟩

/-- "x" delivered together with a reader error: the junk is reported as the reader's error -/
theorem shipped_error_precedence :
    Faithful.outputs decJson [([120], some (.fail 7))] .eof = ([], .term (.readerErr 7)) ∧
    decodeAllStop decJson [120] (.fail 7) = ([], .term .syntaxError) := by decide +kernel

/-- the hypothesis of `shipped_chunking_irrelevant_partial` is satisfiable: `[1]"a"` -/
example : SelfDelimited decJson 2 [91, 49, 93, 34, 97, 34] :=
  Or.inr ⟨91, [49, 93, 34, 97, 34], 3, [91, 49, 93], by decide +kernel, by decide +kernel,
    by decide +kernel, by decide +kernel,
    Or.inr ⟨34, [97, 34], 3, [34, 97, 34], by decide +kernel, by decide +kernel, by decide +kernel,
      by decide +kernel, by show dropWs _ = []; decide +kernel⟩⟩
example : Faithful.outputs decJson [([91, 49], none), ([93, 34], none), ([97, 34], some .eof)] .eof
    = ([[91, 49, 93], [34, 97, 34]], .term .eof) := by decide +kernel

/-- `Faithful.RunSafe` is satisfiable with numbers and literals in the stream: `7 true` | ` [1]` -/
example : Faithful.outputs decJson [([55, 32, 116, 114, 117, 101], none), ([32, 91, 49, 93], none)] .eof
    = decodeAllStop decJson [55, 32, 116, 114, 117, 101, 32, 91, 49, 93] .eof := by decide +kernel
example : skipOneFast [55, 32, 116, 114, 117, 101] = .ok 0 1 := by decide +kernel

/-! non-vacuity of the full statements on the same inputs -/
example : Fixed.outputs decJson [([91, 49, 44, 50], none)] .eof = ([], .term .syntaxError) := by decide +kernel
example : Fixed.outputs decJson [([49, 32, 93], none)] .eof = ([[49]], .term .syntaxError) := by decide +kernel
example : Fixed.outputs decJson [([91, 49, 93, 32], none), ([], some (.fail 7))] .eof
    = ([[91, 49, 93]], .term (.readerErr 7)) := by decide +kernel
example : Fixed.outputs decJson [([49], none), ([], none), ([50, 32], some .eof)] .eof
    = ([[49, 50]], .term .eof) := by decide +kernel

/-! ### the specification at the level of the JSON grammar (Model/JsonGrammar.lean, `Val StrictBody`:
    the grammar the shared strict parser is sound and complete for, Props/C02Fsm.lean).
    `GStream term data ts`: `data` reads as white space, a grammar value that is properly ended
    (`NumEnd`: what follows does not continue a number), white space, ..., and ends after white
    space; `ts` are the texts of the values.  `denote t` = canonical text of the strict parse of `t`. -/
section grammar
open SonicSpec.Json

/-- COMPLETENESS.  If the data reads as the grammar values `ts`, the specification yields exactly
    their denotations and then the reader's terminal condition (EOF, or the reader's error). -/
theorem decodeAll_of_grammar (term : RErr) (data : Bytes) (ts : List Bytes) (h : GStream term data ts) :
    decodeAllStop decJson data term = (ts.map denote, .term term.toTerminal) :=
  decodeAllFuel_of_gstream term h _ (by have := dropWs_le_length data; omega)

/-- the decomposition into properly ended grammar values is unique as far as values go -/
theorem grammar_reading_unique (term : RErr) (data : Bytes) (ts₁ ts₂ : List Bytes)
    (h₁ : GStream term data ts₁) (h₂ : GStream term data ts₂) : ts₁.map denote = ts₂.map denote := by
  have e₁ := decodeAll_of_grammar term data ts₁ h₁
  have e₂ := decodeAll_of_grammar term data ts₂ h₂
  rw [e₁] at e₂
  exact (Prod.mk.inj e₂).1

/-- SOUNDNESS.  Every value the specification yields is read from the text of a grammar value that
    sits right behind the white space, and decoding continues right behind that text. -/
theorem decodeAll_values_are_grammar_values (lenient : Bool) (term : RErr) (data x rest : Bytes)
    (h : specStep decJson lenient term data = .val x rest) :
    ∃ k v, dropWs data = v ++ rest ∧ Val StrictBody k v :=
  specStep_val_sound lenient term data x rest h

/-- ERROR POSITION.  Where the specification of an EOF-terminated stream stops with an error, no
    properly ended grammar value starts behind the white space. -/
theorem decodeAll_error_where_no_value_starts (data : Bytes) (t : Terminal)
    (h : specStep decJson false .eof data = .done t) (hne : dropWs data ≠ []) :
    ¬ ∃ k v r, dropWs data = v ++ r ∧ Val StrictBody k v ∧ NumEnd r :=
  specStep_error_no_value data t h hne

/-- FULL (repaired decoder), grammar level: whatever the chunking, a stream that reads as the
    grammar values `ts` is decoded to exactly their denotations, then the reader's terminal condition. -/
theorem chunking_irrelevant_grammar (r : Script) (f : RErr) (ts : List Bytes)
    (h : GStream (termOf r f) (concat r) ts) :
    Fixed.outputs decJson r f = (ts.map denote, .term (termOf r f).toTerminal) := by
  rw [Fixed.outputs_eq]; exact decodeAll_of_grammar _ _ ts h

/-- PARTIAL (shipped decoder), grammar level, under `Faithful.RunSafe` (see
    `shipped_chunking_irrelevant_no_scalar_cut_partial`) -/
theorem shipped_chunking_irrelevant_grammar_partial (r : Script) (f : RErr) (ts : List Bytes)
    (h : GStream (termOf r f) (concat r) ts)
    (hs : Faithful.RunSafe decJson ((concat r).length + 1) {} r f) :
    Faithful.outputs decJson r f = (ts.map denote, .term (termOf r f).toTerminal) := by
  rw [Faithful.outputs_eq_safe decJson r f hs]; exact decodeAll_of_grammar _ _ ts h

/-- the grammar reading is not vacuous: `[1] "a"` followed by a line feed -/
example : GStream .eof [91, 49, 93, 32, 34, 97, 34, 10] [[91, 49, 93], [34, 97, 34]] :=
  .cons _ [91, 49, 93] [32, 34, 97, 34, 10] 1 _ (by decide +kernel)
    (.arr 1 _ (.elems [] [49] [93] 0 1 (by intro c hc; cases hc) (.num _ (.pos _ (.mk [49] [] [] (.nz 49 [] (by decide) (by decide) (by intro c hc; cases hc)) .none .none)))
      (.close [] (by intro c hc; cases hc))))
    (by intro c r e; cases e; decide)
    (by intro hn; cases hn with
        | pos n hb => obtain ⟨c, t, e, hd⟩ := numBody_head hb; simp at e; rw [← e.1] at hd; revert hd; decide)
    (.cons _ [34, 97, 34] [10] 0 _ (by decide +kernel) (.str [97] (.plain 97 [] (by decide) (by decide) (by decide) .nil))
      (by intro c r e; cases e; decide)
      (by intro hn; cases hn with
          | pos n hb => obtain ⟨c, t, e, hd⟩ := numBody_head hb; simp at e; rw [← e.1] at hd; revert hd; decide)
      (.done _ (by decide +kernel)))

/-! ### the decoder as it is in /repo HEAD: `Patched.decode Repairs.head`.
    What is still missing for the full statement, with kernel-checked witnesses
    (replayed on the real code by corpus/C17/wave2.case): -/

/-- remaining hypothesis 1 (known finding C17-error-precedence-blank-literal): an incomplete literal,
    then a Read that brings only white space, then a READER ERROR: readMore() does not re-frame, the
    reader's error is returned where the bytes `tr  ` already hold a syntax error -/
theorem patched_head_blank_literal_witness :
    Patched.outputs decJson Repairs.head [([116, 114], none), ([32, 32], none)] (.fail 7)
      = ([], .term (.readerErr 7)) ∧
    decodeAllStop decJson [116, 114, 32, 32] (.fail 7) = ([], .term .syntaxError) := by decide +kernel

/-- remaining hypothesis 2 (undecided by the property): a number that touches the end of a stream
    which ends with a READER ERROR is delivered by HEAD (it reads on, gets the error, accepts the
    frame) and withheld by the specification; the lenient specification agrees with HEAD -/
theorem patched_head_number_at_reader_error_witness :
    Patched.outputs decJson Repairs.head [([49, 50], some (.fail 7))] .eof
      = ([[49, 50]], .term (.readerErr 7)) ∧
    decodeAllStop decJson [49, 50] (.fail 7) = ([], .term (.readerErr 7)) ∧
    decodeAllFuel decJson true (.fail 7) 3 [49, 50] = ([[49, 50]], .term (.readerErr 7)) := by decide +kernel

/-- with an EOF-terminated reader HEAD agrees with the specification on these and on the
    witnesses of the shipped decoder's defects (each line names the repair that is needed) -/
theorem patched_head_repairs_witnesses :
    -- (c) scalar-split: `12` | `3 4`
    Patched.outputs decJson Repairs.head [([49, 50], none), ([51, 32, 52], none)] .eof
      = ([[49, 50, 51], [52]], .term .eof) ∧
    -- (e) number-frame-swallow: one Read `1 2 3 4 5 6 7 8 9 10 11 12`
    Patched.outputs decJson Repairs.head
      [([49,32,50,32,51,32,52,32,53,32,54,32,55,32,56,32,57,32,49,48,32,49,49,32,49,50], none)] .eof
      = ([[49],[50],[51],[52],[53],[54],[55],[56],[57],[49,48],[49,49],[49,50]], .term .eof) ∧
    -- (b) truncated-clean-eof: `[1,2`
    Patched.outputs decJson Repairs.head [([91, 49, 44, 50], none)] .eof = ([], .term .syntaxError) ∧
    -- (a) stray-closer: `1 ]`
    Patched.outputs decJson Repairs.head [([49, 32, 93], none)] .eof = ([[49]], .term .syntaxError) ∧
    -- (d) error-precedence: `x` together with a reader error
    Patched.outputs decJson Repairs.head [([120], some (.fail 7))] .eof = ([], .term .syntaxError) ∧
    -- blank-only Read inside a literal, EOF-terminated: agrees
    Patched.outputs decJson Repairs.head [([116, 114], none), ([32, 32], none)] .eof
      = ([], .term .syntaxError) := by decide +kernel

/-- FULL STRENGTH for /repo HEAD on streams without top-level scalars: if, while the specification
    reads the data, every value starts with `[`, `{` or `"` (complete or not, well-formed inside or
    not) or the byte at hand starts no value at all (junk, stray `]` `}`, NUL), then HEAD returns
    exactly the specification's values and terminal condition - for EVERY chunking (single bytes,
    empty reads, data with EOF/error) and EVERY placement of a reader error, truncated and junk
    tails included.  `DecWithin`: the inner decoder consumes at least one byte and stays inside the
    frame (`decJson_within` for the strict parser).  What is missing for all streams is exactly the
    two scalar cases `patched_head_blank_literal_witness` (a real divergence, recorded) and
    `patched_head_number_at_reader_error_witness` (undecided by the property); for numbers the
    statement further needs the inner decoder to read a number only up to the end of its run of
    number characters (HEAD hands it the longer native frame). -/
theorem patched_head_chunking_irrelevant_no_scalars {V : Type} (dec : Bytes → Option (V × Nat))
    (hdec : DecWithin dec) (r₁ r₂ : Script) (f₁ f₂ : RErr)
    (hbytes : concat r₁ = concat r₂) (hterm : termOf r₁ f₁ = termOf r₂ f₂)
    (h : NoTopScalars dec (termOf r₁ f₁) ((concat r₁).length + 1) (concat r₁)) :
    Patched.outputs dec Repairs.head r₁ f₁ = Patched.outputs dec Repairs.head r₂ f₂ ∧
    Patched.outputs dec Repairs.head r₁ f₁ = decodeAllStop dec (concat r₁) (termOf r₁ f₁) := by
  have e₁ := Patched.outputs_head_noscalar dec hdec r₁ f₁ h
  have e₂ := Patched.outputs_head_noscalar dec hdec r₂ f₂ (by rw [← hbytes, ← hterm]; exact h)
  exact ⟨by rw [e₁, e₂, hbytes, hterm], e₁⟩

/-- ... and at the level of the grammar: a stream of strings/arrays/objects that reads as `ts` -/
theorem patched_head_chunking_irrelevant_grammar_no_scalars (r : Script) (f : RErr) (ts : List Bytes)
    (hg : GStream (termOf r f) (concat r) ts)
    (h : NoTopScalars decJson (termOf r f) ((concat r).length + 1) (concat r)) :
    Patched.outputs decJson Repairs.head r f = (ts.map denote, .term (termOf r f).toTerminal) := by
  rw [Patched.outputs_head_noscalar decJson decJson_within r f h]
  exact decodeAll_of_grammar _ _ ts hg

/-- the hypothesis is satisfiable with a truncated tail: `[1] {"a"` -/
example : NoTopScalars decJson (.fail 7) 9 [91, 49, 93, 32, 123, 34, 97, 34] := by
  refine ⟨Or.inr ⟨91, [49, 93, 32, 123, 34, 97, 34], by decide +kernel, Or.inl (by decide)⟩, fun v rest hs => ?_⟩
  have : rest = [32, 123, 34, 97, 34] := by
    have e : specStep decJson false (.fail 7) [91, 49, 93, 32, 123, 34, 97, 34]
        = .val [91, 49, 93] [32, 123, 34, 97, 34] := by rfl
    rw [e] at hs; cases hs; rfl
  subst this
  refine ⟨Or.inr ⟨123, [34, 97, 34], by decide +kernel, Or.inl (by decide)⟩, fun v rest hs => ?_⟩
  have e : specStep decJson false (.fail 7) [32, 123, 34, 97, 34] = .done (.readerErr 7) := by rfl
  rw [e] at hs; cases hs
example : Patched.outputs decJson Repairs.head [([91, 49], none), ([93, 32, 123], none), ([34, 97, 34], some (.fail 7))] .eof
    = ([[91, 49, 93]], .term (.readerErr 7)) := by decide +kernel

end grammar

/-! ### stream encoder -/
section encoder

/-- FULL (repaired encoder).  If every `Write` accepts what it is offered, exactly Marshal's bytes
    plus the newline (unless disabled) reach the writer and no error is returned. -/
theorem encoder_delivers (indent noNewline : Bool) (m : Bytes) (ws : List WStep) (h : AllOk ws) :
    (Fixed.encode indent noNewline m ws).delivered = m ++ nl noNewline ∧
    (Fixed.encode indent noNewline m ws).err = none := by
  unfold Fixed.encode
  cases indent with
  | true =>
    cases ws with
    | nil => simp [writeOnce]
    | cons w ws => have := h w (List.mem_cons_self); subst this; simp [writeOnce]
  | false =>
    exact writeAll_noFail ws _ (fun w hw k => by rw [h w hw]; simp)

/-- stronger on the plain path: short counts without an error are retried until all is written -/
theorem encoder_delivers_despite_short_writes (noNewline : Bool) (m : Bytes) (ws : List WStep)
    (h : NoFail ws) :
    (Fixed.encode false noNewline m ws).delivered = m ++ nl noNewline ∧
    (Fixed.encode false noNewline m ws).err = none :=
  writeAll_noFail ws _ h

/-- FULL (repaired encoder).  Whatever the writer does: (1) `Encode` returns nil only if all of
    Marshal's bytes and the newline were delivered - so the failure of any write, the newline's
    included, is reported; (2) what was delivered is a prefix of those bytes; (3) a reported
    writer error was really returned by some `Write`; (4) if the first `Write` fails after
    accepting `k` bytes, the writer's error is returned and exactly those `k` bytes were delivered. -/
theorem encoder_reports_first_failure (indent noNewline : Bool) (m : Bytes) (ws : List WStep) :
    ((Fixed.encode indent noNewline m ws).err = none →
      (Fixed.encode indent noNewline m ws).delivered = m ++ nl noNewline) ∧
    (Fixed.encode indent noNewline m ws).delivered <+: m ++ nl noNewline ∧
    ((Fixed.encode indent noNewline m ws).err = some .writer → ∃ k, WStep.fail k ∈ ws) ∧
    (∀ k rest, ws = .fail k :: rest → m ++ nl noNewline ≠ [] →
      (Fixed.encode indent noNewline m ws).err = some .writer ∧
      (Fixed.encode indent noNewline m ws).delivered = (m ++ nl noNewline).take k) := by
  unfold Fixed.encode
  cases indent with
  | true =>
    have ⟨h1, h2, h3⟩ := writeOnce_sound (m ++ nl noNewline) ws
    refine ⟨h1, h2, h3, ?_⟩
    intro k rest hws _
    subst hws; simp [writeOnce]
  | false =>
    have ⟨h1, h2, h3, _⟩ := writeAll_sound ws (m ++ nl noNewline)
    refine ⟨h1, h2, h3, ?_⟩
    intro k rest hws hne
    subst hws
    cases hb : m ++ nl noNewline with
    | nil => exact absurd hb hne
    | cons x xs => simp [writeAll]

/-- the shipped encoder drops the result of the newline's `Write`: value written, newline write
    fails, `Encode` returns nil although the newline was not delivered -/
theorem shipped_not_encoder_reports_first_failure :
    ¬ (∀ (indent noNewline : Bool) (m : Bytes) (ws : List WStep),
        (Faithful.encode indent noNewline m ws).err = none →
        (Faithful.encode indent noNewline m ws).delivered = m ++ nl noNewline) := by
  intro h
  have := h false false [91, 49, 93] [.ok, .fail 0]
  revert this
  decide +kernel

/-- PARTIAL (shipped encoder): with indentation (one `io.Copy` of value and newline) or with the
    newline disabled the shipped encoder IS the repaired one, so all of the above holds for it.
    Missing: the plain path with newline, where the newline's `Write` result is ignored. -/
theorem shipped_encoder_reports_first_failure_partial (indent noNewline : Bool) (m : Bytes)
    (ws : List WStep) (h : indent = true ∨ noNewline = true) :
    Faithful.encode indent noNewline m ws = Fixed.encode indent noNewline m ws := by
  unfold Faithful.encode Fixed.encode
  cases indent with
  | true => rfl
  | false =>
    have hn : noNewline = true := by simpa using h
    subst hn
    simp only [nl, if_true, List.append_nil, Bool.false_eq_true, if_false]
    cases he : (writeAll m ws).err <;> simp

end encoder
end SonicSpec.Props.C17
