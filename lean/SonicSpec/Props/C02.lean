/-
  C02 - no structurally malformed JSON accepted, no valid JSON rejected: property theorems.

  Objects (Model/JsonGrammar.lean, Model/JsonValidate.lean):
    Strict / Structural     the two byte-level grammars (`Val StrictBody`, `Val LaxBody`), indexed by the number
                            of frames the native machine needs (`frames`; `depth ≤ frames ≤ depth + 1`)
    skipOne B m s           the transliterated `fsm_exec` behind `validate_one` / `skip_one`, budget `B`
                            (= MAX_RECURSE = 4096 in sonic), string scanner `m` (default / validate-string /
                            the strict one used as decision procedure)
    validB, Valid           sonic.Valid = validate_one + trailing-space loop
    unmarshalSkipB          skip_one + CheckTrailings (RawMessage, Unmarshaler, *ast.Node, skipped members)
    newRawB                 ast.NewRaw(..).Check(), sonic.Get with an empty path (skip_one only)
  Every theorem quantifies over all byte strings, all budgets and (where it says `m`) all three scanners.
-/
import SonicSpec.Proofs.JsonFsm
import SonicSpec.Proofs.JsonGrammar
import SonicSpec.Proofs.JsonTotal
namespace SonicSpec.Props.C02
open SonicSpec SonicSpec.Json

/-! ## the two grammars -/

/-- every strict document is a structural one, with the same frame count -/
theorem strict_sub_structural {k : Nat} {s : Bytes} (h : Strict.docN k s) : Structural.docN k s :=
  doc_mono (fun _ hb => strictBody_lax hb) h

theorem strict_sub_structural_doc {s : Bytes} (h : Strict.doc s) : Structural.doc s := by
  obtain ⟨k, hk⟩ := h
  exact ⟨k, strict_sub_structural hk⟩

/-- frames against nesting depth: `depth ≤ frames ≤ depth + 1` (so a budget of `B` frames admits every
    document nested at most `B - 1` deep and none nested deeper than `B`) -/
theorem frames_vs_depth {SB : Bytes → Prop} {k : Nat} {v : Bytes} (h : Val SB k v) :
    ∃ d, ValDepth SB d v ∧ d ≤ k ∧ k ≤ d + 1 :=
  val_depth h

/-! ## the machine: sound, complete up to the budget, refuses beyond it -/

/-- SOUNDNESS.  Whatever the budget and the string scanner, if the machine reports a value, the bytes it
    consumed are space followed by one structurally well-formed value that needs at most `B` frames.
    Nothing unbalanced, unterminated, mis-separated, no bad literal or number gets through. -/
theorem validate_sound (B : Nat) (m : StrMode) (s r : Bytes) (h : skipOne B m s = .ok r) :
    ∃ w v k, s = w ++ (v ++ r) ∧ AllSpace w ∧ Structural.value k v ∧ k ≤ B :=
  skipOne_sound LaxBody (fun _ _ => scanStr_sound m) h

/-- with the strict scanner the value is even strict (this makes `skipOne _ .strict` a decision procedure) -/
theorem validate_sound_strict (B : Nat) (s r : Bytes) (h : skipOne B .strict s = .ok r) :
    ∃ w v k, s = w ++ (v ++ r) ∧ AllSpace w ∧ Strict.value k v ∧ k ≤ B :=
  skipOne_sound (m := .strict) StrictBody
    (fun s r (hh : strStrict s = .ok r) => strStrict_sound _ s r (Nat.le_refl _) hh) h

/-- COMPLETENESS.  A strict value that needs at most `B` frames, after any space, followed by anything that
    does not continue a number, is consumed exactly - by every scanner, the validating one included. -/
theorem validate_complete (B : Nat) (m : StrMode) {k : Nat} {v w r : Bytes}
    (hv : Strict.value k v) (hk : k ≤ B) (hw : AllSpace w) (hr : NumEnd r) :
    skipOne B m (w ++ (v ++ r)) = .ok r :=
  skipOne_complete (fun _ r hb => scanStr_complete m r hb) hv hk hw hr

/-- the default scanner is complete for the whole structural grammar -/
theorem validate_complete_structural (B : Nat) {k : Nat} {v w r : Bytes}
    (hv : Structural.value k v) (hk : k ≤ B) (hw : AllSpace w) (hr : NumEnd r) :
    skipOne B .dflt (w ++ (v ++ r)) = .ok r :=
  skipOne_complete (m := .dflt) (fun _ r hb => strDefault_complete r hb) hv hk hw hr

/-- DEPTH.  A strict value that needs more than `B` frames is refused, with the recursion error, by every
    scanner: never accepted, never anything but "too deep". -/
theorem validate_depth (B : Nat) (m : StrMode) {k : Nat} {v w r : Bytes}
    (hv : Strict.value k v) (hk : B < k) (hw : AllSpace w) (hr : NumEnd r) :
    ∃ p, skipOne B m (w ++ (v ++ r)) = .err .recurse p :=
  skipOne_too_deep (fun _ r hb => scanStr_complete m r hb) hv hk hw hr

theorem validate_depth_structural (B : Nat) {k : Nat} {v w r : Bytes}
    (hv : Structural.value k v) (hk : B < k) (hw : AllSpace w) (hr : NumEnd r) :
    ∃ p, skipOne B .dflt (w ++ (v ++ r)) = .err .recurse p :=
  skipOne_too_deep (m := .dflt) (fun _ r hb => strDefault_complete r hb) hv hk hw hr

/-- TOTALITY.  `skipOne` gives the loop `length input + 1` turns; that bound is never what stops it (every
    turn consumes a byte): the answer is always a value, or one of the native error codes. -/
theorem validate_total (B : Nat) (m : StrMode) (s p : Bytes) : skipOne B m s ≠ .err .fuel p :=
  skipOne_no_fuel s p

/-! ## the wrappers -/

theorem allSpaceB_iff (r : Bytes) : allSpaceB r = true ↔ AllSpace r := by
  unfold allSpaceB AllSpace
  simp [List.all_eq_true]

/-- skip_one + CheckTrailings with the default scanner accepts exactly the structural documents within budget -/
theorem accepts_iff_structural (B : Nat) (s : Bytes) :
    unmarshalSkipB B .dflt s = true ↔ ∃ k, k ≤ B ∧ Structural.docN k s := by
  unfold unmarshalSkipB
  constructor
  · intro h
    cases hs : skipOne B .dflt s with
    | err e p => rw [hs] at h; cases h
    | ok r =>
      rw [hs] at h
      obtain ⟨w, v, k, rfl, hw, hv, hk⟩ := validate_sound B .dflt s r hs
      exact ⟨k, hk, .mk w v r k hw hv ((allSpaceB_iff r).mp h)⟩
  · rintro ⟨k, hk, hd⟩
    cases hd with
    | mk w v w' k hw hv hw' =>
      rw [validate_complete_structural B hv hk hw (numEnd_ws hw')]
      exact (allSpaceB_iff w').mpr hw'

/-- ... and with the strict scanner exactly the strict documents within budget -/
theorem accepts_iff_strict (B : Nat) (s : Bytes) :
    unmarshalSkipB B .strict s = true ↔ ∃ k, k ≤ B ∧ Strict.docN k s := by
  unfold unmarshalSkipB
  constructor
  · intro h
    cases hs : skipOne B .strict s with
    | err e p => rw [hs] at h; cases h
    | ok r =>
      rw [hs] at h
      obtain ⟨w, v, k, rfl, hw, hv, hk⟩ := validate_sound_strict B s r hs
      exact ⟨k, hk, .mk w v r k hw hv ((allSpaceB_iff r).mp h)⟩
  · rintro ⟨k, hk, hd⟩
    cases hd with
    | mk w v w' k hw hv hw' =>
      rw [validate_complete B .strict hv hk hw (numEnd_ws hw')]
      exact (allSpaceB_iff w').mpr hw'

/-- the validate-string configuration lies between the two bounds of the property -/
theorem accepts_validate_between (B : Nat) (s : Bytes) :
    ((∃ k, k ≤ B ∧ Strict.docN k s) → unmarshalSkipB B .validate s = true) ∧
    (unmarshalSkipB B .validate s = true → ∃ k, k ≤ B ∧ Structural.docN k s) := by
  unfold unmarshalSkipB
  constructor
  · rintro ⟨k, hk, hd⟩
    cases hd with
    | mk w v w' k hw hv hw' =>
      rw [validate_complete B .validate hv hk hw (numEnd_ws hw')]
      exact (allSpaceB_iff w').mpr hw'
  · intro h
    cases hs : skipOne B .validate s with
    | err e p => rw [hs] at h; cases h
    | ok r =>
      rw [hs] at h
      obtain ⟨w, v, k, rfl, hw, hv, hk⟩ := validate_sound B .validate s r hs
      exact ⟨k, hk, .mk w v r k hw hv ((allSpaceB_iff r).mp h)⟩

/-- the model's decision procedures for the two grammars (what the check's verdict rule uses) -/
theorem decide_structural (s : Bytes) : unmarshalSkipB (s.length + 1) .dflt s = true ↔ Structural.doc s := by
  rw [accepts_iff_structural]
  constructor
  · rintro ⟨k, _, hd⟩; exact ⟨k, hd⟩
  · rintro ⟨k, hd⟩; exact ⟨k, Nat.le_succ_of_le (doc_frames_le hd), hd⟩

theorem decide_strict (s : Bytes) : unmarshalSkipB (s.length + 1) .strict s = true ↔ Strict.doc s := by
  rw [accepts_iff_strict]
  constructor
  · rintro ⟨k, _, hd⟩; exact ⟨k, hd⟩
  · rintro ⟨k, hd⟩; exact ⟨k, Nat.le_succ_of_le (doc_frames_le hd), hd⟩

theorem validB_eq (B : Nat) (s : Bytes) : validB B s = unmarshalSkipB B .dflt s := by
  cases s with
  | nil => rfl
  | cons c t => rfl

/-- TRAILING RULE.  `Valid` (validate_one + the trailing-space loop of alg.Valid) holds exactly for:
    space, one structural value within budget, space. -/
theorem trailing_rule (B : Nat) (s : Bytes) :
    validB B s = true ↔ ∃ lead v ws k, s = lead ++ (v ++ ws) ∧ AllSpace lead ∧ Structural.value k v ∧ k ≤ B ∧ AllSpace ws := by
  rw [validB_eq, accepts_iff_structural]
  constructor
  · rintro ⟨k, hk, hd⟩
    cases hd with
    | mk w v w' k hw hv hw' => exact ⟨w, v, w', k, rfl, hw, hv, hk, hw'⟩
  · rintro ⟨w, v, w', k, rfl, hw, hv, hk, hw'⟩
    exact ⟨k, hk, .mk w v w' k hw hv hw'⟩

/-- sonic.Valid: no malformed document accepted; no strict document within 4096 frames rejected; nothing
    beyond 4096 frames accepted -/
theorem valid_sound (s : Bytes) (h : Valid s = true) : Structural.doc s := by
  obtain ⟨k, _, hd⟩ := (accepts_iff_structural maxRecurse s).mp (by rw [← validB_eq]; exact h)
  exact ⟨k, hd⟩

theorem valid_complete {k : Nat} {s : Bytes} (h : Strict.docN k s) (hk : k ≤ 4096) : Valid s = true := by
  unfold Valid
  rw [validB_eq]
  exact (accepts_iff_structural maxRecurse s).mpr ⟨k, hk, strict_sub_structural h⟩

theorem valid_too_deep {k : Nat} {s : Bytes} (h : Structural.docN k s) (hk : 4096 < k) : Valid s = false := by
  unfold Valid
  rw [validB_eq]
  unfold unmarshalSkipB
  cases h with
  | mk w v w' k hw hv hw' =>
    obtain ⟨p, hp⟩ := validate_depth_structural maxRecurse hv hk hw (numEnd_ws hw')
    rw [hp]

/-- `ast.NewRaw(s).Check()` / `sonic.Get(s)`: what is accepted starts with a well-formed value - but nothing
    is said about the rest (see the witness below) -/
theorem newRaw_prefix (s : Bytes) (h : newRawB s = true) :
    ∃ w v k r, s = w ++ (v ++ r) ∧ AllSpace w ∧ Structural.value k v ∧ k ≤ 4096 := by
  unfold newRawB at h
  cases hs : skipOne maxRecurse .dflt s with
  | err e p => rw [hs] at h; cases h
  | ok r =>
    obtain ⟨w, v, k, h1, h2, h3, h4⟩ := validate_sound _ _ s r hs
    exact ⟨w, v, k, r, h1, h2, h3, h4⟩

/-! ## non-vacuity and witnesses -/

/-- `[1, {"a": null}]` is a strict document needing 3 frames (array, object, the member's ELEM/VAL frame) -/
example : Strict.docN 3 [91, 49, 44, 32, 123, 34, 97, 34, 58, 32, 110, 117, 108, 108, 125, 93] := by
  have hsp : AllSpace [32] := by intro c hc; simp at hc; subst hc; decide
  have hn : Val StrictBody 0 [49] :=
    .num _ (.pos _ (by simpa using NumBody.mk [49] [] [] (.nz 49 [] (by decide) (by decide) allDigits_nil) .none .none))
  have hkey : StrictBody [97] := .plain 97 [] (by decide) (by decide) (by decide) .nil
  have hclose : ObjTail StrictBody 1 [125] := by simpa using ObjTail.close (SB := StrictBody) [] allSpace_nil
  have hobj : Val StrictBody 2 [123, 34, 97, 34, 58, 32, 110, 117, 108, 108, 125] :=
    .obj _ _ (by simpa using ObjBody.members [] [97] [] [32] _ [125] 0 1 allSpace_nil hkey allSpace_nil hsp Val.nul hclose)
  have hend : ArrTail StrictBody 1 [93] := by simpa using ArrTail.close (SB := StrictBody) [] allSpace_nil
  have htail : ArrTail StrictBody 3 [44, 32, 123, 34, 97, 34, 58, 32, 110, 117, 108, 108, 125, 93] := by
    simpa using ArrTail.more [] [32] _ [93] 2 1 allSpace_nil hsp hobj hend
  have harr : Val StrictBody 3 [91, 49, 44, 32, 123, 34, 97, 34, 58, 32, 110, 117, 108, 108, 125, 93] :=
    .arr _ _ (by simpa using ArrBody.elems [] [49] _ 0 3 allSpace_nil hn htail)
  simpa using Doc.mk [] _ [] 3 allSpace_nil harr allSpace_nil

/-- the machine agrees (evaluated by the kernel) -/
example : Valid [91, 49, 44, 32, 123, 34, 97, 34, 58, 32, 110, 117, 108, 108, 125, 93] = true := by decide +kernel

/-- `"\q"` is structural but not strict: the grammars differ only inside strings -/
example : Structural.doc [34, 92, 113, 34] ∧ ¬ Strict.doc [34, 92, 113, 34] :=
  ⟨(decide_structural _).mp (by decide +kernel), fun h => absurd ((decide_strict _).mpr h) (by decide +kernel)⟩

/-- malformed texts are in neither: `[1 2]`, `{"a":}`, `nul`, `01`, `"abc` -/
example : ¬ Structural.doc [91, 49, 32, 50, 93] := fun h => absurd ((decide_structural _).mpr h) (by decide +kernel)
example : ¬ Structural.doc [123, 34, 97, 34, 58, 125] := fun h => absurd ((decide_structural _).mpr h) (by decide +kernel)
example : ¬ Structural.doc [110, 117, 108] := fun h => absurd ((decide_structural _).mpr h) (by decide +kernel)
example : ¬ Structural.doc [48, 49] := fun h => absurd ((decide_structural _).mpr h) (by decide +kernel)
example : ¬ Structural.doc [34, 97, 98, 99] := fun h => absurd ((decide_structural _).mpr h) (by decide +kernel)

/-- the budget counts frames: `[[]]` needs 2, `[1,2]` needs 2, `[1]` needs 1 -/
example : skipOne 1 .dflt [91, 91, 93, 93] = .err .recurse [93, 93] := by decide +kernel
example : skipOne 1 .dflt [91, 49, 44, 50, 93] = .err .recurse [50, 93] := by decide +kernel
example : skipOne 1 .dflt [91, 49, 93] = .ok [] := by decide +kernel

/-- WITNESS (DESIGN §8 #12): the model of `ast.NewRaw(..).Check()` / `sonic.Get(..)` accepts `5]`, which is not
    a structural document - the property fails for these two APIs on the faithful model; the check replays
    the witness on the real code (known finding C02-raw-node-trailing-bytes) -/
theorem newRaw_accepts_trailing_junk : newRawB [53, 93] = true ∧ ¬ Structural.doc [53, 93] :=
  ⟨by decide +kernel, fun h => absurd ((decide_structural _).mpr h) (by decide +kernel)⟩

end SonicSpec.Props.C02
