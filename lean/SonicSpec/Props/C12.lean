/-
  C12 - the interpreting encoder against the JIT encoder.

  ONE IR, ONE SEMANTICS.  Both back ends - the x86 assembler (internal/encoder/x86) and the interpreter
  (internal/encoder/vm) - consume the SAME program, the one `Compiler.Compile` (internal/encoder/compiler.go) emits
  for a type.  The model has that program (`Ir.compile`, Model/IrCompile.lean, pinned to the real compiler by the
  exact disassembly comparison of vlib/props/C12.py `irdis`) and ONE meaning of it (`Ir.run`, Model/IrExec.lean, a
  transliteration of vm.go `Execute` over an abstract machine).  The model-level statement of C12 is therefore

      exec (compile T) v  =  Enc.encode T v          (`exec_compile_eq_encode_partial` below)

  - what the shared IR computes is the specification's text, which is the same function for either back end.  That
  the JIT gives the IR the same meaning as the interpreter is NOT proved (the assembler's instruction templates are
  outside the model): it is tied by the differential run (JIT worker vs. SONIC_ENCODER_USE_VM=1 worker vs. the model's
  `exec`, same cases).

  Encoder-IR theorems (Model/Ir*.lean, Proofs/Ir*.lean):

  * `exec_compile_eq_encode_partial`  compiler correctness on the sub-universe `Ir.Sub`: bool, integers, floats, string,
        json.Number, []byte, interface{} (OP_eface re-enters on the dynamic type, itself in the sub-universe), pointers,
        slices, arrays, maps with string / integer keys sorted or in iteration order, structs with tags / omitempty /
        omitzero / `,string` on non-strings, inline or through OP_recurse, and the RECURSIVE named struct types `Rec`,
        `Tree` with `Compiler.tab` (a type met while it is being compiled is OP_recurse into its own program) - by
        induction on the VALUE; for values `Ir.Conf` (inhabitants; no -0.0 under omitempty; under the compile option
        EncOnlyOmitNull every omitempty field nil or not empty) that need (`Ir.needV`, value-level) at most MaxStack
        states; and the CALLBACK leaves (json.Marshaler / encoding.TextMarshaler library types, the callback's text an opaque
        leaf of machine and specification alike, assumed to be JSON): a value-receiver type compiles to OP_marshal /
        OP_marshal_text, through a pointer (`pv`) to OP_marshal_p / OP_marshal_text_p on `*T`; a pointer to a callback type
        of either receiver compiles to compileMarshaler's nil test (`null`) and the call through the pointer.
        PARTIAL: a pointer-receiver callback type met by value (addressable: the `_p` instruction; not addressable: compiled
        as the plain struct - needs the specification's `addr` coupled to the compiler's `pv`), TextMarshaler texts that
        are not JSON, bool / float map keys (`bool_key_deviates`, `float_key_deviates`), embedded fields.
  * `callback_receiver_irrelevant`    for a value-receiver callback type the program compiled with `pv` (OP_marshal_p on `*T`) and
        the one compiled without (OP_marshal on `T`) return the same result
  * `exec_compile_eq_encode_fails`    the FULL statement (all types, values, options) is false on the faithful model:
        witnesses are known deviations of the compiler from encoding/json, replayed on the real code by the C03 check
        (known findings C03-omitempty-negative-zero, C03-string-opt-inner-literal, C03-map-key-kinds-beyond-std) and
        the documented meaning of EncOnlyOmitNull (`omitnull_deviates`)
  * `stack_balanced`                  a value's program returns with exactly the state stack it was given (save/drop discipline)
  * `too_deep_is_error`               OP_save on a full stack is ERR_too_deep; no instruction and no run lets the stack
        exceed MaxStack (the array of vars.Stack is never indexed out of bounds)
  * `backends_dispatch_same_helpers`  regenerated-fact tie for the JIT: per opcode, the x86 assembler's `_asm_OP_*` routine and the
        interpreter's `case` test the same option bits and call corresponding helpers (go/factx_x86 -> Generated/X86.lean)
  * `inline_depth_irrelevant`         MaxInlineDepth (inline struct body vs. OP_recurse into the struct's own program)
        does not change the result, for all depths >= 1

  Leaf level (unchanged): the Go fallbacks of spec_compat.go (compiled in where no native routine exists) are
  transliterated in Model/EncCompat.lean and shown equal to the specification's formatting functions:

  * `i64toa_eq_spec`       strconv.AppendInt's two-digits-per-step loop writes `Enc.intDec`
  * `quote_compat_eq_spec` spec_compat.go `Quote` writes, piece by piece, a literal that differs from
                           the specification's only in escape spelling: both unquote to the input bytes
  * `quote_compat_wellformed` ... and that literal is a string body the strict scanner accepts
-/
import SonicSpec.Proofs.EncCompat
import SonicSpec.Proofs.EncCompatInt
import SonicSpec.Proofs.IrCorrect
import SonicSpec.Model.IrBackends
namespace SonicSpec.Props.C12
open SonicSpec SonicSpec.Enc

/-- the Go fallback for integers equals the specification's decimal text on every int64 -/
theorem i64toa_eq_spec (v : Int) (hlo : -(2 ^ 63 : Int) ≤ v) (hhi : v < (2 ^ 63 : Int)) :
    Compat.i64toa v = Enc.intDec v :=
  Compat.i64toa_eq v hlo hhi

/-- the Go fallback `Quote` is the per-piece writer `Compat.compatPiece` between two quotes, and its
    body unquotes to the input bytes exactly as the specification's literal does (for EVERY byte string,
    valid UTF-8 or not): the two differ in escape spelling only -/
theorem quote_compat_eq_spec (s : Bytes) :
    Compat.quote s = 34 :: ((Enc.pieces s).flatMap Compat.compatPiece ++ [34]) ∧
    Enc.unq ((Enc.pieces s).flatMap Compat.compatPiece) = some s ∧
    Enc.unq ((Enc.pieces s).flatMap Compat.compatPiece) = Enc.unq (Enc.quoteBody false false s) := by
  refine ⟨Compat.quote_eq s, Compat.unq_compat s, ?_⟩
  rw [Compat.unq_compat, unq_quoteBody_raw]

/-- the fallback's literal is accepted by the strict string scanner, whatever follows the closing quote -/
theorem quote_compat_wellformed (s rest : Bytes) :
    ∃ body, Compat.quote s = 34 :: (body ++ [34]) ∧ Json.scanString (body ++ 34 :: rest) = some (body, rest) := by
  refine ⟨(Enc.pieces s).flatMap Compat.compatPiece, Compat.quote_eq s, ?_⟩
  have : ∀ (ps : List Piece), (∀ p ∈ ps, PieceOK p) → StrOK (ps.flatMap Compat.compatPiece) := by
    intro ps
    induction ps with
    | nil => intro _; exact StrOK_nil
    | cons p r ih =>
      intro h
      simp only [List.flatMap_cons]
      have hp := h p (by simp)
      have ht := ih (fun q hq => h q (by simp [hq]))
      cases p with
      | ascii c =>
        have : ∀ c : UInt8, c < 128 → chunkShape (Compat.compatPiece (.ascii c)) = true := by
          apply forall_uint8
          decide +kernel
        exact chunk_ok (this c hp) ht
      | multi bs =>
        simp only [Compat.compatPiece]
        split
        · rename_i hh
          simp only [Bool.or_eq_true, beq_iff_eq] at hh
          rcases hh with hh | hh <;> (subst hh; exact chunk_ok (by decide) ht)
        · exact StrOK_append_plain (fun c hc => highByte_plain (hp c hc)) ht
      | bad c => exact chunk_ok (highByte_chunk c hp) ht
  exact this _ (pieces_ok s) rest

/-! ### non-vacuity -/

example : Compat.i64toa (-9223372036854775808) = ascii "-9223372036854775808" := by decide +kernel
example : Compat.i64toa 1234567 = ascii "1234567" := by decide +kernel
/-- control characters as \u00XX, the short escapes, U+2028 always escaped, ill-formed bytes copied -/
example : Compat.quote [8, 10, 34, 226, 128, 168, 255, 60] =
    ascii "\"\\u0008\\n\\\"\\u2028" ++ [255, 60, 34] := by decide +kernel


/-! ## the encoder IR -/

open SonicSpec.Go SonicSpec.Ir

/-- COMPILER CORRECTNESS (C03 deep part = the model-level statement of C12).  For every type of the sub-universe
    (interface{} and the recursive named types included), every `pv`, every option set, every MaxInlineDepth >= 1 and
    every value of the type: interpreting the compiled program gives exactly the specification's text, or exactly
    the specification's error. -/
theorem exec_compile_eq_encode_partial (o : EncOpts) (co : COpts) (T : GoType) (pv : Bool) (v : GoVal)
    (hco : 0 < co.maxInlineDepth) (hS : Sub T = true) (hC : Conf co T v = true) (hroom : needV T v ≤ maxStack) :
    exec o co (compile co T pv) v = liftE (Enc.encode o T v) := by
  obtain ⟨n, hn⟩ := compile_run (o := o) hco hS hC pv false [] [] (by simpa using hroom)
  apply exec_eq_of_fuel (n := n)
  unfold execFuel
  rw [hn]
  unfold Enc.encode Enc.encodeJ
  cases encV o false T v <;> simp [liftE, Except.map]

/-- the FULL statement: every type and value of the model's universe, every option set -/
def ExecCompileEqEncode : Prop :=
  ∀ (o : EncOpts) (co : COpts) (T : GoType) (pv : Bool) (v : GoVal), exec o co (compile co T pv) v = liftE (Enc.encode o T v)

def tNegZero : GoType := .st [("A", some (ascii "a,omitempty"), .f64)]
def vNegZero : GoVal := .st [.f64 0x8000000000000000]
def tStrOpt : GoType := .st [("S", some (ascii ",string"), .str)]
def vStrOpt : GoVal := .st [.str (ascii "<")]

/-- `omitempty` on a float holding -0.0: the compiled test looks at the bit pattern (OP_is_zero_8) and the member is
    written, encoding/json (`isEmptyValue`) omits it.  Known finding C03-omitempty-negative-zero. -/
theorem negzero_omitempty_deviates :
    exec {} {} (compile {} tNegZero false) vNegZero = .ok (ascii "{\"a\":-0}") ∧ Enc.encode {} tNegZero vNegZero = .ok (ascii "{}") := by
  refine ⟨exec_eq_of_fuel (n := 40) ?_, ?_⟩
  · decide +kernel
  · decide +kernel

/-- `,string` on a string under EscapeHTML: OP_quote double-quotes first and the HTML pass runs over the outer literal;
    encoding/json escapes the inner literal first.  Known finding C03-string-opt-inner-literal. -/
theorem string_opt_deviates :
    exec { escapeHTML := true } {} (compile {} tStrOpt false) vStrOpt = .ok (ascii "{\"S\":\"\\\"\\u003c\\\"\"}") ∧
    Enc.encode { escapeHTML := true } tStrOpt vStrOpt = .ok (ascii "{\"S\":\"\\\"\\\\u003c\\\"\"}") := by
  refine ⟨exec_eq_of_fuel (n := 40) ?_, ?_⟩
  · decide +kernel
  · decide +kernel

/-- the full statement does not hold for the faithful model (the two deviations above are in the real compiler) -/
theorem exec_compile_eq_encode_fails : ¬ ExecCompileEqEncode := by
  intro h
  have h1 := h {} {} tNegZero false vNegZero
  rw [negzero_omitempty_deviates.1, negzero_omitempty_deviates.2] at h1
  simp only [liftE] at h1
  injection h1 with h1
  revert h1
  decide

/-- SAVE/DROP DISCIPLINE: the program of a value, started on any stack with room for it, returns with exactly that
    stack - and the text it appended is the specification's -/
theorem stack_balanced (o : EncOpts) (co : COpts) (T : GoType) (pv fpv : Bool) (v : GoVal) (s s' : Stack) (b b' : Bytes)
    (hco : 0 < co.maxInlineDepth)
    (hS : Sub T = true) (hC : Conf co T v = true) (hroom : s.length + needV T v ≤ maxStack)
    (h : Halts o co fpv (compile co T pv) 0 (Regs.start (.val v)) s b (.ok (s', b'))) :
    s' = s ∧ ∃ j, encV o false T v = .ok j ∧ b' = b ++ Json.render j := by
  have h2 := compile_run (o := o) hco hS hC pv fpv s b hroom
  have := Halts.unique h h2
  cases hj : encV o false T v with
  | error e => rw [hj] at this; cases this
  | ok j =>
    rw [hj] at this
    simp only at this
    injection this with this
    injection this with h1 h2
    exact ⟨h1, j, rfl, h2⟩

/-- STACK LIMIT: (1) OP_save on a full stack is ERR_too_deep (vars/stack.go Push), whatever else the state is;
    (2) no instruction takes a stack of at most MaxStack states beyond MaxStack; (3) neither does a whole run,
    calls through OP_recurse / OP_eface included.  So `Stack.sb[MaxStack]` is never indexed out of bounds. -/
theorem too_deep_is_error (o : EncOpts) (co : COpts) :
    (∀ (enter : Bool) (pc : Nat) (r : Regs) (s : Stack) (b : Bytes), maxStack ≤ s.length →
        step o (.save enter) pc r s b = .err .tooDeep) ∧
    (∀ (ins : Instr) (pc : Nat) (r : Regs) (s : Stack) (b : Bytes) (pc' : Nat) (r' : Regs) (s' : Stack) (b' : Bytes),
        s.length ≤ maxStack → step o ins pc r s b = .next pc' r' s' b' → s'.length ≤ maxStack) ∧
    (∀ (n : Nat) (fpv : Bool) (P : Program) (pc : Nat) (r : Regs) (s : Stack) (b : Bytes) (s' : Stack) (b' : Bytes),
        s.length ≤ maxStack → run o co n fpv P pc r s b = some (.ok (s', b')) → s'.length ≤ maxStack) := by
  refine ⟨?_, fun ins pc r s b pc' r' s' b' hs h => step_stack_le hs h, run_stack_le⟩
  intro enter pc r s b hs
  simp only [step]
  rw [if_pos hs]

/-- a pointer met with the stack full: the run ends in ERR_too_deep (and `Enc.encode`, like encoding/json, has no such
    limit - known finding C03-max-stack-depth) -/
theorem too_deep_witness (o : EncOpts) (co : COpts) (t : GoType) (hcb : cbPtr t = false) (w : GoVal) (s : Stack) (hs : s.length = maxStack) :
    Halts o co false (compile co (.ptr t) false) 0 (Regs.start (.val (.ptr w))) s [] (.error .tooDeep) := by
  have hat : At (compile co (.ptr t) false) 0 (code co (libK co libNames.length) [] 0 0 false (.ptr t)) := At.whole _
  rw [code, if_neg (by simp [tabHas])] at hat
  simp only [cbPtr_false hcb, List.cons_append, List.nil_append] at hat
  refine halts_step (hat.get 0 (by omega) rfl) (by simp only [step, Regs.start, Cur.get, jumpIf]; rfl) ?_
  exact halts_err (hat.get 1 (by omega) rfl) (by simp only [step]; rw [if_pos (by omega)])

/-- OUT-OF-LINE == INLINE: the result does not depend on MaxInlineDepth (all depths >= 1): a struct body compiled in
    place and an OP_recurse into the struct's own program write the same text -/
theorem inline_depth_irrelevant (o : EncOpts) (co₁ co₂ : COpts) (T : GoType) (pv₁ pv₂ : Bool) (v : GoVal)
    (d₁ : 1 ≤ co₁.maxInlineDepth) (d₂ : 1 ≤ co₂.maxInlineDepth)
    (hS : Sub T = true) (hC₁ : Conf co₁ T v = true) (hC₂ : Conf co₂ T v = true) (hroom : needV T v ≤ maxStack) :
    exec o co₁ (compile co₁ T pv₁) v = exec o co₂ (compile co₂ T pv₂) v := by
  rw [exec_compile_eq_encode_partial o co₁ T pv₁ v d₁ hS hC₁ hroom, exec_compile_eq_encode_partial o co₂ T pv₂ v d₂ hS hC₂ hroom]

/-- map[bool]T: the machine writes the key (compileMapBodyTextKey / appendGeneric have a `Bool` case), encoding/json
    refuses the type.  Known finding C03-map-key-kinds-beyond-std. -/
theorem bool_key_deviates :
    exec {} {} (compile {} (.map .bool (.int 64)) false) (.map [(.bool true, .int 1)]) = .ok (ascii "{\"true\":1}") ∧
    Enc.encode {} (.map .bool (.int 64)) (.map [(.bool true, .int 1)]) = .error .unsupportedType := by
  refine ⟨exec_eq_of_fuel (n := 40) ?_, ?_⟩
  · decide +kernel
  · decide +kernel

/-- map[float64]T: the machine prints a nil map as `null` (and the entries of a non-empty one unless keys are sorted: appendGeneric
    has no float case), encoding/json refuses the type.  Known finding C03-map-key-kinds-beyond-std. -/
theorem float_key_deviates :
    exec {} {} (compile {} (.map .f64 (.int 64)) false) .nil = .ok (ascii "null") ∧
    Enc.encode {} (.map .f64 (.int 64)) .nil = .error .unsupportedType := by
  refine ⟨exec_eq_of_fuel (n := 40) ?_, ?_⟩
  · decide +kernel
  · decide +kernel

/-- CALLBACK DISPATCH: for a callback type with a value receiver the compiler picks OP_marshal(_text) on the value, or - when the
    value is reached through a pointer - OP_marshal(_text)_p on the pointer type; both programs return the specification's result -/
theorem callback_receiver_irrelevant (o : EncOpts) (co : COpts) (n : String) (json : Bool) (v : GoVal)
    (hco : 0 < co.maxInlineDepth) (hk : cbKind n = some (json, true)) (hC : Conf co (.lib n) v = true) :
    compile co (.lib n) false = [if json then Instr.marshal (.lib n) else Instr.marshalText (.lib n)] ∧
    compile co (.lib n) true = [if json then Instr.marshalP (.ptr (.lib n)) else Instr.marshalTextP (.ptr (.lib n))] ∧
    exec o co (compile co (.lib n) true) v = exec o co (compile co (.lib n) false) v ∧
    exec o co (compile co (.lib n) false) v = liftE (Enc.encode o (.lib n) v) := by
  have hS : Ir.Sub (.lib n) = true := by simp [Ir.Sub, cbValue, hk]
  have hroom : needV (.lib n) v ≤ maxStack := by
    cases v <;> simp [needV, libStruct_cb hk]
  refine ⟨?_, ?_, ?_, exec_compile_eq_encode_partial o co _ false v hco hS hC hroom⟩
  · unfold compile; rw [code, if_neg (by simp [tabHas])]; cases json <;> simp [cbCode, hk]
  · unfold compile; rw [code, if_neg (by simp [tabHas])]; cases json <;> simp [cbCode, hk]
  · rw [exec_compile_eq_encode_partial o co _ true v hco hS hC hroom, exec_compile_eq_encode_partial o co _ false v hco hS hC hroom]

def tOmitNull : GoType := .st [("A", some (ascii "a,omitempty"), .sl (.int 64)), ("B", some (ascii "b,omitempty"), .int 64)]
def vOmitNull : GoVal := .st [.sl [], .int 0]

/-- the compile option EncOnlyOmitNull changes what `omitempty` means (only nil is omitted): an empty slice and a
    zero integer are written.  Documented behaviour of the option (option/option.go:42), outside `Conf`. -/
theorem omitnull_deviates :
    exec {} { encOnlyOmitNull := true } (compile { encOnlyOmitNull := true } tOmitNull false) vOmitNull = .ok (ascii "{\"a\":[],\"b\":0}") ∧
    Enc.encode {} tOmitNull vOmitNull = .ok (ascii "{}") := by
  refine ⟨exec_eq_of_fuel (n := 60) ?_, ?_⟩
  · decide +kernel
  · decide +kernel

/-- JIT ≡ VM AS FAR AS THE SOURCE SHOWS IT (regenerated from x86/assembler_regabi_amd64.go `_OpFuncTab` and vm/vm.go `Execute` on every
    run): the assembler's dispatch table covers exactly the opcodes of ir/op.go, in order, each by the method named after it;
    the interpreter's switch handles exactly the same opcodes, each once; for every opcode both back ends test the same option
    bits and call corresponding helpers (`Ir.helperPair`: native subroutine vs. Go function, same function otherwise). -/
theorem backends_dispatch_same_helpers :
    Gen.x86Dispatch.map (·.1) = Gen.irOps ∧
    Ir.sameSet (Gen.vmDispatch.map (·.1)) Gen.irOps = true ∧ (Gen.vmDispatch.map (·.1)).length = Gen.irOps.length ∧
    ∀ op ∈ Gen.irOps, Ir.backendsAgreeOn op = true := by
  decide +kernel

/-- the table is not trivially satisfied: a formatting opcode has a helper pair, and a mismatch is seen -/
example : Ir.jitOf "OP_f64" = some ("_asm_OP_f64", ["native.S_f64toa", "rt.GrowSlice"], ["alg.BitEncodeNullForInfOrNan"]) ∧
    Ir.vmOf "OP_f64" = some (["alg.F64toa"], ["alg.BitEncodeNullForInfOrNan"]) ∧
    Ir.sameSet ["alg.F64toa"] ["alg.F32toa"] = false := by decide +kernel

/-! ### non-vacuity -/

def tDemo : GoType :=
  .st [("A", some (ascii "a,omitempty"), .int 64), ("P", none, .ptr (.sl (.arr 2 .f64))),
       ("M", some (ascii "m"), .map .str (.st [("X", some (ascii ",string"), .uint 8), ("Y", some (ascii "-"), .bool)])), ("N", some (ascii ",omitzero"), .num),
       ("I", some (ascii "i"), .any), ("K", some (ascii "k"), .map (.int 16) .bool), ("R", some (ascii "r,omitempty"), .ptr (.lib "Rec"))]
def vDemo : GoVal :=
  .st [.int 0, .ptr (.sl [.arr [.f64 0x3ff8000000000000, .f64 0], .arr [.f64 0x4059000000000000, .f64 0xbff0000000000000]]),
       .map [(.str (ascii "k2"), .st [.uint 7, .bool true]), (.str (ascii "k1"), .st [.uint 255, .bool false])], .num (ascii "1e3"),
       .any (.sl .any) (.sl [.nil, .any (.map .str (.uint 8)) (.map [(.str (ascii "z"), .uint 9)])]),
       .map [(.int 10, .bool true), (.int (-2), .bool false)],
       .ptr (.st [.int 1, .ptr (.st [.int 2, .nil])])]

/-- the hypotheses of the theorem hold for a value that exercises every constructor of the sub-universe: interface{} holding
    a slice of interfaces, integer keys, the recursive type `Rec` two levels deep -/
example : Sub tDemo = true ∧ Conf {} tDemo vDemo = true ∧ needV tDemo vDemo ≤ maxStack := by decide +kernel
/-- ... and the two sides of the equation on it (computed independently), sorted keys -/
example : execFuel 600 { sortMapKeys := true } {} (compile {} tDemo false) vDemo =
    some (.ok (ascii "{\"P\":[[1.5,0],[100,-1]],\"m\":{\"k1\":{\"X\":\"255\"},\"k2\":{\"X\":\"7\"}},\"N\":1e3,\"i\":[null,{\"z\":9}],\"k\":{\"-2\":false,\"10\":true},\"r\":{\"v\":1,\"next\":{\"v\":2}}}")) := by decide +kernel
example : Enc.encode { sortMapKeys := true } tDemo vDemo =
    .ok (ascii "{\"P\":[[1.5,0],[100,-1]],\"m\":{\"k1\":{\"X\":\"255\"},\"k2\":{\"X\":\"7\"}},\"N\":1e3,\"i\":[null,{\"z\":9}],\"k\":{\"-2\":false,\"10\":true},\"r\":{\"v\":1,\"next\":{\"v\":2}}}") := by decide +kernel
/-- the same value with MaxInlineDepth 1: the nested struct is reached through OP_recurse; `*Rec` inside `Rec` is OP_recurse at any depth -/
example : ((compile { maxInlineDepth := 1 } tDemo false).any fun i => match i with | .recurse (.st _) _ => true | _ => false) = true ∧
    ((compile {} tDemo false).any fun i => match i with | .recurse (.ptr (.lib _)) _ => true | _ => false) = true ∧
    execFuel 600 { sortMapKeys := true } { maxInlineDepth := 1 } (compile { maxInlineDepth := 1 } tDemo false) vDemo =
      execFuel 600 { sortMapKeys := true } {} (compile {} tDemo false) vDemo := by decide +kernel
/-- a NaN is the specification's error on both sides -/
example : execFuel 50 {} {} (compile {} (.sl .f64) false) (.sl [.f64 0, .f64 0x7ff8000000000001]) = some (.error (.enc .unsupportedValue)) ∧
    Enc.encode {} (.sl .f64) (.sl [.f64 0, .f64 0x7ff8000000000001]) = .error .unsupportedValue := by decide +kernel
def tCb : GoType := .st [("A", none, .lib "MV"), ("B", some (ascii "b,omitempty"), .ptr (.lib "MP")), ("C", none, .sl (.lib "LJ")), ("D", none, .ptr (.lib "TP")),
  ("E", none, .ptr (.lib "LT"))]
def vCb : GoVal := .st [.st [.int 5], .ptr (.st [.int (-3)]), .sl [.lib (ascii "[1, 2]"), .lib (ascii " true")], .nil, .ptr (.lib (ascii "\"t\""))]
/-- callbacks inside the theorem: value receiver by value (OP_marshal) and as a slice element (OP_marshal_p), pointer receiver through
    a pointer, a nil pointer to a TextMarshaler (`null`), a TextMarshaler whose text is a JSON string -/
example : Sub tCb = true ∧ Conf {} tCb vCb = true ∧ needV tCb vCb ≤ maxStack := by decide +kernel
example : execFuel 200 { compactMarshaler := true } {} (compile {} tCb false) vCb =
    some (.ok (ascii "{\"A\":{\"mv\":5},\"b\":{\"mp\":-3},\"C\":[[1,2],true],\"D\":null,\"E\":\"\\\"t\\\"\"}")) ∧
    Enc.encode { compactMarshaler := true } tCb vCb =
    .ok (ascii "{\"A\":{\"mv\":5},\"b\":{\"mp\":-3},\"C\":[[1,2],true],\"D\":null,\"E\":\"\\\"t\\\"\"}") := by decide +kernel
example : ((compile {} tCb false).filterMap fun i => match i with
    | .marshal _ | .marshalP _ | .marshalText _ | .marshalTextP _ => some i.name | _ => none) =
    ["marshal", "marshal", "marshal_p", "marshal_p", "marshal_text", "marshal_text"] := by decide +kernel
/-- EncOnlyOmitNull inside the theorem: nil or non-empty `omitempty` fields -/
example : Conf { encOnlyOmitNull := true } tOmitNull (.st [.nil, .int 5]) = true ∧ Conf { encOnlyOmitNull := true } tOmitNull vOmitNull = false := by decide +kernel

end SonicSpec.Props.C12
