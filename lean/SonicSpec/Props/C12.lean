/-
  C12 - the interpreting encoder against the JIT encoder.

  At model level both back ends are specified by the one function `Enc.encode` (their equality there
  is definitional and is NOT offered as a theorem).  The compiler-correctness theorem that would
  carry the property - `exec (compile T) = Enc.encode` for the shared encoder IR, with the VM as
  `exec` - belongs to the encoder-IR work package and is absent here: C12 is therefore tied to the
  code only by the differential run of vlib/props/C12.py (same case streams through a JIT worker and
  a SONIC_ENCODER_USE_VM=1 worker, byte-identical output or both errors).

  What IS proved here concerns the leaf formatters on which the two back ends can differ: the JIT
  calls native routines, the interpreter calls Go functions of internal/encoder/alg.  The Go
  fallbacks of spec_compat.go (compiled in where no native routine exists) are transliterated in
  Model/EncCompat.lean and shown equal to the specification's formatting functions:

  * `i64toa_eq_spec`       strconv.AppendInt's two-digits-per-step loop writes `Enc.intDec`
  * `quote_compat_eq_spec` spec_compat.go `Quote` writes, piece by piece, a literal that differs from
                           the specification's only in escape spelling: both unquote to the input bytes
  * `quote_compat_wellformed` ... and that literal is a string body the strict scanner accepts
-/
import SonicSpec.Proofs.EncCompat
import SonicSpec.Proofs.EncCompatInt
namespace SonicSpec.Props.C12
open SonicSpec SonicSpec.Enc

/-- the Go fallback for integers equals the specification's decimal text on every int64 -/
theorem i64toa_eq_spec (v : Int) (hlo : -(2 ^ 63 : Int) ≤ v) (hhi : v < (2 ^ 63 : Int)) :
    Compat.i64toa v = Enc.intDec v :=
  Compat.i64toa_eq v hlo hhi

/-- the Go fallback `Quote` is the per-piece writer `Compat.compatPiece` between two quotes, and its
    body unquotes to the input bytes exactly as the specification's literal does (for EVERY byte string,
    valid UTF-8 or not): the two differ in escape spelling only -/
theorem quote_compat_eq_spec (s : Bytes) :
    Compat.quote s = 34 :: ((Enc.pieces s).flatMap Compat.compatPiece ++ [34]) ∧
    Enc.unq ((Enc.pieces s).flatMap Compat.compatPiece) = some s ∧
    Enc.unq ((Enc.pieces s).flatMap Compat.compatPiece) = Enc.unq (Enc.quoteBody false false s) := by
  refine ⟨Compat.quote_eq s, Compat.unq_compat s, ?_⟩
  rw [Compat.unq_compat, unq_quoteBody_raw]

/-- the fallback's literal is accepted by the strict string scanner, whatever follows the closing quote -/
theorem quote_compat_wellformed (s rest : Bytes) :
    ∃ body, Compat.quote s = 34 :: (body ++ [34]) ∧ Json.scanString (body ++ 34 :: rest) = some (body, rest) := by
  refine ⟨(Enc.pieces s).flatMap Compat.compatPiece, Compat.quote_eq s, ?_⟩
  have : ∀ (ps : List Piece), (∀ p ∈ ps, PieceOK p) → StrOK (ps.flatMap Compat.compatPiece) := by
    intro ps
    induction ps with
    | nil => intro _; exact StrOK_nil
    | cons p r ih =>
      intro h
      simp only [List.flatMap_cons]
      have hp := h p (by simp)
      have ht := ih (fun q hq => h q (by simp [hq]))
      cases p with
      | ascii c =>
        have : ∀ c : UInt8, c < 128 → chunkShape (Compat.compatPiece (.ascii c)) = true := by
          apply forall_uint8
          decide +kernel
        exact chunk_ok (this c hp) ht
      | multi bs =>
        simp only [Compat.compatPiece]
        split
        · rename_i hh
          simp only [Bool.or_eq_true, beq_iff_eq] at hh
          rcases hh with hh | hh <;> (subst hh; exact chunk_ok (by decide) ht)
        · exact StrOK_append_plain (fun c hc => highByte_plain (hp c hc)) ht
      | bad c => exact chunk_ok (highByte_chunk c hp) ht
  exact this _ (pieces_ok s) rest

/-! ### non-vacuity -/

example : Compat.i64toa (-9223372036854775808) = ascii "-9223372036854775808" := by decide +kernel
example : Compat.i64toa 1234567 = ascii "1234567" := by decide +kernel
/-- control characters as \u00XX, the short escapes, U+2028 always escaped, ill-formed bytes copied -/
example : Compat.quote [8, 10, 34, 226, 128, 168, 255, 60] =
    ascii "\"\\u0008\\n\\\"\\u2028" ++ [255, 60, 34] := by decide +kernel

end SonicSpec.Props.C12
