/-
  C20 - property theorems (statements only live here; helper lemmas in Proofs/Str*.lean).

  "For every byte string ... encoder.Quote produces a JSON string literal that decodes back to the input;
   unquote.String decodes every escape sequence exactly as encoding/json does (surrogate pairs combined, lone
   surrogates replaced or rejected according to the option, malformed escapes rejected) and copies all other
   bytes unchanged; encoder.HTMLEscape ... preserves the destination prefix; utf8.Validate/CorrectWith agree
   with unicode/utf8 and with byte-wise U+FFFD replacement."

  Every theorem quantifies over all byte strings (no bound).  The definitions they are about are the
  transliterations in Model/Str*.lean; `LitBody`, `Denotes`, `hasLSPS`, `isScalar`, `encodeAll` (Model/StrSpec.lean,
  Model/StrUtf8.lean) are the independent specifications.
-/
import SonicSpec.Model.Str
import SonicSpec.Model.StrSpec
import SonicSpec.Proofs.U8
import SonicSpec.Proofs.StrQuote
import SonicSpec.Proofs.StrDenote
import SonicSpec.Proofs.StrHtml
import SonicSpec.Proofs.StrUtf8
import SonicSpec.Proofs.StrHtmlDenote
namespace SonicSpec.Props.C20
open SonicSpec SonicSpec.Str

/-! ## quote -/

/-- no image of a byte contains a raw quote character except as the byte after a backslash,
    and no image contains a raw control character -/
theorem quoteByte_clean (c : UInt8) :
    (quoteByte c).length ≥ 1 ∧ (∀ b ∈ quoteByte c, b ≥ 32) ∧
    ((quoteByte c).head? = some 92 ∨ (quoteByte c = [c] ∧ c ≠ 34 ∧ c ≠ 92)) := by
  revert c
  apply forall_uint8
  decide +kernel

/-- Quote followed by unquote is the identity on every byte string, with either setting of the
    replace-lone-surrogates option -/
theorem unquote_quote (unirep : Bool) (s : Bytes) : unquote unirep false (quoteBody s) = .ok s :=
  unquote_quoteBody unirep s

example : unquote true false (quoteBody [34, 0, 255, 92, 10]) = .ok [34, 0, 255, 92, 10] := by decide +kernel

/-- the same in double mode: what a `,string` field is encoded as (spec.go:64, double = true) is read back
    by the one-pass double unquote (unquote.c with F_DOUBLE_UNQUOTE) -/
theorem unquoteD_quoteD (unirep : Bool) (s : Bytes) : unquote unirep true (quoteBodyD s) = .ok s :=
  unquote_quoteBodyD unirep s

example : unquote false true (quoteBodyD [34, 0, 92, 9, 200]) = .ok [34, 0, 92, 9, 200] := by decide +kernel

/-- double quoting is quoting twice, literally -/
theorem quoteD_eq_quote_quote (s : Bytes) : quoteD s = quote (quote s) := by
  unfold quoteD quote
  rw [quoteBodyD_eq]
  simp [quoteBody, quoteByte]

/-- ... and is therefore also read back by unquoting twice (what encoding/json does for `,string`) -/
theorem unquoteTwice_quoteD (unirep : Bool) (s : Bytes) : unquoteTwice unirep (quoteBodyD s) = .ok s :=
  unquoteTwice_quoteBodyD unirep s

/-- `encoder.Quote s` is a JSON string literal: it begins and ends with a quote, and the body obeys the
    grammar (no raw quote, no control byte, every backslash starts a legal escape) -/
theorem quote_is_literal (s : Bytes) : ∃ b, quote s = 34 :: (b ++ [34]) ∧ LitBody b :=
  ⟨quoteBody s, rfl, litBody_quoteBody s⟩

/-- ... whose denotation (independent specification `Denotes`) is the input -/
theorem quote_denotes_input (unirep : Bool) (s : Bytes) :
    ∃ b, quote s = 34 :: (b ++ [34]) ∧ LitBody b ∧ Denotes unirep b s :=
  ⟨quoteBody s, rfl, litBody_quoteBody s, unquote_sound' unirep _ s (unquote_quoteBody unirep s)⟩

example : ∃ b, quote [97, 34] = 34 :: (b ++ [34]) ∧ LitBody b := quote_is_literal _

/-- the executable check the driver applies to sonic's output decides the literal grammar -/
theorem litBodyOk_iff (b : Bytes) : litBodyOk b = true ↔ LitBody b :=
  ⟨litBodyOk_sound' b.length b (Nat.le_refl _), litBodyOk_of_LitBody⟩

/-- every string literal body has a denotation when lone surrogates are replaced (nothing that the
    grammar admits is rejected by `unquote.String`) -/
theorem literal_has_denotation (b : Bytes) (h : LitBody b) : ∃ o, unquote true false b = .ok o := by
  obtain ⟨o, ho⟩ := litBody_denotes' b.length b (Nat.le_refl _) h
  exact ⟨o, unquote_complete' ho⟩

/-- spec.go:64 restartable loop: whatever free space the successive native calls find, the bytes are those
    of `quote` (single and double table) -/
theorem quoteLoop_any_capacity (rooms : List Nat) (s : Bytes) :
    quoteLoop quoteByte rooms [34] s ++ [34] = quote s ∧
    quoteLoop quoteByteD rooms [34, 92, 34] s ++ [92, 34, 34] = quoteD s := by
  constructor
  · rw [quoteLoop_eq]; simp [quote, quoteBody]
  · rw [quoteLoop_eq]; simp [quoteD, quoteBodyD]

example : quoteLoop quoteByte [3, 0, 1] [34] [0, 0, 97] ++ [34] = quote [0, 0, 97] := by decide +kernel

/-! ## unquote against the inductive specification -/

/-- soundness: what `unquote` (single mode, either option) returns is the denotation of the input -/
theorem unquote_sound (unirep : Bool) (s o : Bytes) (h : unquote unirep false s = .ok o) : Denotes unirep s o :=
  unquote_sound' unirep s o h

/-- completeness: every body that has a denotation is decoded to it -/
theorem unquote_complete (unirep : Bool) (s o : Bytes) (h : Denotes unirep s o) : unquote unirep false s = .ok o :=
  unquote_complete' h

theorem unquote_iff_denotes (unirep : Bool) (s o : Bytes) : unquote unirep false s = .ok o ↔ Denotes unirep s o :=
  ⟨unquote_sound unirep s o, unquote_complete unirep s o⟩

/-- malformed input (no denotation: bad escape letter, bad hex digit, truncated escape, and without the
    replace option a lone surrogate) is exactly what is rejected -/
theorem unquote_rejects_iff (unirep : Bool) (s : Bytes) :
    (∃ e, unquote unirep false s = .error e) ↔ ¬ ∃ o, Denotes unirep s o := by
  constructor
  · rintro ⟨e, he⟩ ⟨o, ho⟩
    rw [unquote_complete unirep s o ho] at he
    cases he
  · intro h
    cases hu : unquote unirep false s with
    | error e => exact ⟨e, rfl⟩
    | ok o => exact absurd ⟨o, unquote_sound unirep s o hu⟩ h

/-- the specification is functional -/
theorem denotes_unique (unirep : Bool) (s o₁ o₂ : Bytes) (h₁ : Denotes unirep s o₁) (h₂ : Denotes unirep s o₂) :
    o₁ = o₂ := by
  have a := unquote_complete unirep s o₁ h₁
  rw [unquote_complete unirep s o₂ h₂] at a
  cases a; rfl

-- a surrogate pair is combined, a lone half is replaced or rejected according to the option,
-- a malformed escape is rejected, other bytes are copied
example : unquote true false [92, 117, 100, 56, 51, 100, 92, 117, 100, 101, 48, 48] = .ok [240, 159, 152, 128] := by
  decide +kernel
example : Denotes true [92, 117, 100, 56, 48, 48, 120] [239, 191, 189, 120] :=
  unquote_sound true _ _ (by decide +kernel)
example : unquote false false [92, 117, 100, 56, 48, 48, 120] = .error .unicode := by decide +kernel
example : ¬ ∃ o, Denotes true [92, 113] o :=
  (unquote_rejects_iff true _).mp ⟨.escape, by decide +kernel⟩
example : unquote true false [200, 1, 34] = .ok [200, 1, 34] := by decide +kernel

/-! ## HTML escaping -/

/-- `encoder.HTMLEscape(dst, src)`: the destination prefix is preserved and what is appended does not
    depend on it -/
theorem htmlEscape_preserves_prefix (dst src : Bytes) : htmlEscapeInto dst src = dst ++ htmlEscape src := by
  unfold htmlEscapeInto
  exact htmlLoop_eq [] dst src

/-- spec.go:124 restartable loop: the same for every sequence of free capacities the native calls meet
    (output buffers that fill up mid-string, mid-escape) -/
theorem htmlLoop_any_capacity (rooms : List Nat) (dst src : Bytes) :
    htmlLoop rooms dst src = dst ++ htmlEscape src :=
  htmlLoop_eq rooms dst src

example : htmlLoop [2, 5, 0, 7] [1, 2] [60, 97, 226, 128, 168] = [1, 2] ++ htmlEscape [60, 97, 226, 128, 168] := by
  decide +kernel

/-- the output contains no `<`, `>`, `&` and nowhere the UTF-8 form of U+2028 or U+2029 -/
theorem htmlEscape_no_special (s : Bytes) :
    (∀ b ∈ htmlEscape s, b ≠ 60 ∧ b ≠ 62 ∧ b ≠ 38) ∧
    ¬ [226, 128, 168] <:+: htmlEscape s ∧ ¬ [226, 128, 169] <:+: htmlEscape s := by
  refine ⟨htmlEscape_mem s, ?_, ?_⟩
  · rintro ⟨pre, suf, h⟩
    have := hasLSPS_of_infix (htmlEscape s) pre suf 168 (Or.inl rfl) (by rw [← h]; simp)
    rw [htmlEscape_noLSPS] at this
    cases this
  · rintro ⟨pre, suf, h⟩
    have := hasLSPS_of_infix (htmlEscape s) pre suf 169 (Or.inr rfl) (by rw [← h]; simp)
    rw [htmlEscape_noLSPS] at this
    cases this

/-- escaping a string body does not change what it denotes; in particular a body that `unquote` accepts is
    still accepted, with the same result, after HTML escaping (EscapeHTML cannot corrupt a string) -/
theorem htmlEscape_unquote_invariant (unirep : Bool) (b o : Bytes) (h : unquote unirep false b = .ok o) :
    unquote unirep false (htmlEscape b) = .ok o :=
  unquote_complete' (denotes_htmlEscape unirep b.length b o (Nat.le_refl _) (unquote_sound' unirep b o h))

example : unquote true false (htmlEscape [60, 92, 110, 226, 128, 168, 38]) = .ok [60, 10, 226, 128, 168, 38] :=
  htmlEscape_unquote_invariant true _ _ (by decide +kernel)

example : htmlEscape [60, 226, 128, 169, 226, 128] = [92, 117, 48, 48, 51, 99, 92, 117, 50, 48, 50, 57, 226, 128] := by
  decide +kernel

/-! ## UTF-8 -/

/-- `utf8.Validate` accepts exactly the encodings of sequences of Unicode scalar values
    (which is what unicode/utf8.Valid accepts) -/
theorem utf8_valid_iff (s : Bytes) :
    validate s = true ↔ ∃ cps : List Nat, (∀ c ∈ cps, isScalar c = true) ∧ encodeAll cps = s := by
  constructor
  · exact exists_of_validate s
  · rintro ⟨cps, hs, rfl⟩
    exact validate_encodeAll cps hs

example : validate [206, 186, 240, 159, 152, 128, 97] = true := by decide +kernel
example : validate [237, 160, 128] = false := by decide +kernel      -- a surrogate
example : validate [192, 128] = false := by decide +kernel           -- overlong
example : validate [244, 144, 128, 128] = false := by decide +kernel -- above U+10FFFF
example : validate [226, 130] = false := by decide +kernel           -- truncated

/-- `utf8.CorrectWith` with a well-formed replacement returns well-formed bytes -/
theorem correctWith_valid (repl s : Bytes) (h : validate repl = true) : validate (correctWith repl s) = true := by
  obtain ⟨rc, hr, hre⟩ := exists_of_validate repl h
  obtain ⟨cps, hs, he⟩ := exists_of_correctWith repl rc hr hre s
  rw [← he]
  exact validate_encodeAll cps hs

/-- ... and is the identity on well-formed input -/
theorem correctWith_id_on_valid (repl s : Bytes) (h : validate s = true) : correctWith repl s = s :=
  correctWith_id_of_validate repl s h

/-- byte-wise replacement: a byte at which no well-formed sequence starts is replaced alone, a well-formed
    sequence is copied whole (the rule unicode/utf8.DecodeRune implements with RuneError, width 1) -/
theorem correctWith_bytewise (repl : Bytes) (b : UInt8) (t : Bytes) :
    correctWith repl (b :: t) =
      if seqLen (b :: t) = 0 then repl ++ correctWith repl t
      else (b :: t).take (seqLen (b :: t)) ++ correctWith repl ((b :: t).drop (seqLen (b :: t))) := by
  rw [correctWith_cons]
  by_cases h : seqLen (b :: t) = 0 <;> simp [h]

/-- utf8.go:30: recording the ill-formed positions in a list of bounded capacity `k` (MAX_RECURSE = 4096
    in the real code) and restarting the native call when it is full gives the same bytes -/
theorem correctChunked_eq (repl : Bytes) (k : Nat) (hk : 0 < k) (s : Bytes) :
    correctChunked repl k (s.length + 1) s = correctWith repl s :=
  correctChunked_eq_correctWith repl k hk (s.length + 1) s (Nat.lt_succ_self _)

example : correctChunked [63] 2 6 [255, 255, 255, 97, 255] = [63, 63, 63, 97, 63] := by decide +kernel

example : correctWith [63] [97, 255, 226, 130, 98] = [97, 63, 63, 63, 98] := by decide +kernel
example : correctWith fffd [237, 160, 128] = fffd ++ fffd ++ fffd := by decide +kernel

end SonicSpec.Props.C20
