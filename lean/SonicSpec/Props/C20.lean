/-
  C20 - property theorems (statements only live here; helper lemmas in Proofs/).
-/
import SonicSpec.Model.Str
import SonicSpec.Proofs.U8
namespace SonicSpec.Props.C20
open SonicSpec SonicSpec.Str

/-- no image of a byte contains a raw quote character except as the byte after a backslash,
    and no image contains a raw control character -/
theorem quoteByte_clean (c : UInt8) :
    (quoteByte c).length ≥ 1 ∧ (∀ b ∈ quoteByte c, b ≥ 32) ∧
    ((quoteByte c).head? = some 92 ∨ (quoteByte c = [c] ∧ c ≠ 34 ∧ c ≠ 92)) := by
  revert c
  apply forall_uint8
  decide +kernel

end SonicSpec.Props.C20
