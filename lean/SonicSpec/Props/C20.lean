/-
  C20 - property theorems (statements only live here; helper lemmas in Proofs/Str*.lean).

  "For every byte string ... encoder.Quote produces a JSON string literal that decodes back to the input;
   unquote.String decodes every escape sequence exactly as encoding/json does (surrogate pairs combined, lone
   surrogates replaced or rejected according to the option, malformed escapes rejected) and copies all other
   bytes unchanged; encoder.HTMLEscape ... preserves the destination prefix; utf8.Validate/CorrectWith agree
   with unicode/utf8 and with byte-wise U+FFFD replacement."

  Every theorem quantifies over all byte strings (no bound).  The definitions they are about are the
  transliterations in Model/Str*.lean; `LitBody`, `Denotes`, `hasLSPS`, `isScalar`, `encodeAll` (Model/StrSpec.lean,
  Model/StrUtf8.lean) are the independent specifications.
-/
import SonicSpec.Model.Str
import SonicSpec.Model.StrSpec
import SonicSpec.Proofs.U8
import SonicSpec.Proofs.StrQuote
import SonicSpec.Proofs.StrDenote
import SonicSpec.Proofs.StrHtml
import SonicSpec.Proofs.StrUtf8
import SonicSpec.Proofs.StrHtmlDenote
import SonicSpec.Model.StrDbl
import SonicSpec.Model.StrStd
import SonicSpec.Proofs.StrDbl
import SonicSpec.Proofs.StrBits
import SonicSpec.Proofs.StrUtf8Dec
import SonicSpec.Proofs.StrHtmlStd
namespace SonicSpec.Props.C20
open SonicSpec SonicSpec.Str

/-! ## quote -/

/-- no image of a byte contains a raw quote character except as the byte after a backslash,
    and no image contains a raw control character -/
theorem quoteByte_clean (c : UInt8) :
    (quoteByte c).length ≥ 1 ∧ (∀ b ∈ quoteByte c, b ≥ 32) ∧
    ((quoteByte c).head? = some 92 ∨ (quoteByte c = [c] ∧ c ≠ 34 ∧ c ≠ 92)) := by
  revert c
  apply forall_uint8
  decide +kernel

/-- Quote followed by unquote is the identity on every byte string, with either setting of the
    replace-lone-surrogates option -/
theorem unquote_quote (unirep : Bool) (s : Bytes) : unquote unirep false (quoteBody s) = .ok s :=
  unquote_quoteBody unirep s

example : unquote true false (quoteBody [34, 0, 255, 92, 10]) = .ok [34, 0, 255, 92, 10] := by decide +kernel

/-- the same in double mode: what a `,string` field is encoded as (spec.go:64, double = true) is read back
    by the one-pass double unquote (unquote.c with F_DOUBLE_UNQUOTE) -/
theorem unquoteD_quoteD (unirep : Bool) (s : Bytes) : unquote unirep true (quoteBodyD s) = .ok s :=
  unquote_quoteBodyD unirep s

example : unquote false true (quoteBodyD [34, 0, 92, 9, 200]) = .ok [34, 0, 92, 9, 200] := by decide +kernel

/-- double quoting is quoting twice, literally -/
theorem quoteD_eq_quote_quote (s : Bytes) : quoteD s = quote (quote s) := by
  unfold quoteD quote
  rw [quoteBodyD_eq]
  simp [quoteBody, quoteByte]

/-- ... and is therefore also read back by unquoting twice (what encoding/json does for `,string`) -/
theorem unquoteTwice_quoteD (unirep : Bool) (s : Bytes) : unquoteTwice unirep (quoteBodyD s) = .ok s :=
  unquoteTwice_quoteBodyD unirep s

/-- `encoder.Quote s` is a JSON string literal: it begins and ends with a quote, and the body obeys the
    grammar (no raw quote, no control byte, every backslash starts a legal escape) -/
theorem quote_is_literal (s : Bytes) : ∃ b, quote s = 34 :: (b ++ [34]) ∧ LitBody b :=
  ⟨quoteBody s, rfl, litBody_quoteBody s⟩

/-- ... whose denotation (independent specification `Denotes`) is the input -/
theorem quote_denotes_input (unirep : Bool) (s : Bytes) :
    ∃ b, quote s = 34 :: (b ++ [34]) ∧ LitBody b ∧ Denotes unirep b s :=
  ⟨quoteBody s, rfl, litBody_quoteBody s, unquote_sound' unirep _ s (unquote_quoteBody unirep s)⟩

example : ∃ b, quote [97, 34] = 34 :: (b ++ [34]) ∧ LitBody b := quote_is_literal _

/-- the executable check the driver applies to sonic's output decides the literal grammar -/
theorem litBodyOk_iff (b : Bytes) : litBodyOk b = true ↔ LitBody b :=
  ⟨litBodyOk_sound' b.length b (Nat.le_refl _), litBodyOk_of_LitBody⟩

/-- every string literal body has a denotation when lone surrogates are replaced (nothing that the
    grammar admits is rejected by `unquote.String`) -/
theorem literal_has_denotation (b : Bytes) (h : LitBody b) : ∃ o, unquote true false b = .ok o := by
  obtain ⟨o, ho⟩ := litBody_denotes' b.length b (Nat.le_refl _) h
  exact ⟨o, unquote_complete' ho⟩

/-- spec.go:64 restartable loop: whatever free space the successive native calls find, the bytes are those
    of `quote` (single and double table) -/
theorem quoteLoop_any_capacity (rooms : List Nat) (s : Bytes) :
    quoteLoop quoteByte rooms [34] s ++ [34] = quote s ∧
    quoteLoop quoteByteD rooms [34, 92, 34] s ++ [92, 34, 34] = quoteD s := by
  constructor
  · rw [quoteLoop_eq]; simp [quote, quoteBody]
  · rw [quoteLoop_eq]; simp [quoteD, quoteBodyD]

example : quoteLoop quoteByte [3, 0, 1] [34] [0, 0, 97] ++ [34] = quote [0, 0, 97] := by decide +kernel

/-! ## unquote against the inductive specification -/

/-- soundness: what `unquote` (single mode, either option) returns is the denotation of the input -/
theorem unquote_sound (unirep : Bool) (s o : Bytes) (h : unquote unirep false s = .ok o) : Denotes unirep s o :=
  unquote_sound' unirep s o h

/-- completeness: every body that has a denotation is decoded to it -/
theorem unquote_complete (unirep : Bool) (s o : Bytes) (h : Denotes unirep s o) : unquote unirep false s = .ok o :=
  unquote_complete' h

theorem unquote_iff_denotes (unirep : Bool) (s o : Bytes) : unquote unirep false s = .ok o ↔ Denotes unirep s o :=
  ⟨unquote_sound unirep s o, unquote_complete unirep s o⟩

/-- malformed input (no denotation: bad escape letter, bad hex digit, truncated escape, and without the
    replace option a lone surrogate) is exactly what is rejected -/
theorem unquote_rejects_iff (unirep : Bool) (s : Bytes) :
    (∃ e, unquote unirep false s = .error e) ↔ ¬ ∃ o, Denotes unirep s o := by
  constructor
  · rintro ⟨e, he⟩ ⟨o, ho⟩
    rw [unquote_complete unirep s o ho] at he
    cases he
  · intro h
    cases hu : unquote unirep false s with
    | error e => exact ⟨e, rfl⟩
    | ok o => exact absurd ⟨o, unquote_sound unirep s o hu⟩ h

/-- the specification is functional -/
theorem denotes_unique (unirep : Bool) (s o₁ o₂ : Bytes) (h₁ : Denotes unirep s o₁) (h₂ : Denotes unirep s o₂) :
    o₁ = o₂ := by
  have a := unquote_complete unirep s o₁ h₁
  rw [unquote_complete unirep s o₂ h₂] at a
  cases a; rfl

-- a surrogate pair is combined, a lone half is replaced or rejected according to the option,
-- a malformed escape is rejected, other bytes are copied
example : unquote true false [92, 117, 100, 56, 51, 100, 92, 117, 100, 101, 48, 48] = .ok [240, 159, 152, 128] := by
  decide +kernel
example : Denotes true [92, 117, 100, 56, 48, 48, 120] [239, 191, 189, 120] :=
  unquote_sound true _ _ (by decide +kernel)
example : unquote false false [92, 117, 100, 56, 48, 48, 120] = .error .unicode := by decide +kernel
example : ¬ ∃ o, Denotes true [92, 113] o :=
  (unquote_rejects_iff true _).mp ⟨.escape, by decide +kernel⟩
example : unquote true false [200, 1, 34] = .ok [200, 1, 34] := by decide +kernel


/-! ## double unquoting (`,string` fields): the one-pass native routine against the two-pass definition -/

/-- unquoting twice computes the inductive specification `DenotesD` (the body denotes a text which, as a
    literal body again, denotes the result) -/
theorem unquoteTwice_iff_denotesD (unirep : Bool) (b s : Bytes) :
    unquoteTwice unirep b = .ok s ↔ DenotesD unirep b s :=
  unquoteTwice_ok_iff unirep b s

/-- where they agree: on the minimal escaping (`\` → `\\`, `"` → `\"`) of every literal body in which no unpaired
    surrogate escape is directly followed by another escape, the one-pass routine (model of native unquote with
    F_DOUBLE_UNQUOTE) succeeds exactly when unquoting twice does, with the same bytes -/
theorem unquoteD_agrees_on_escaped (unirep : Bool) (m : Bytes) (h : LitBodyD m) :
    okPart (unquote unirep true (escapeAgain m)) = okPart (unquoteTwice unirep (escapeAgain m)) := by
  rw [unquoteTwice_escapeAgain]
  exact unquoteD_escapeAgain' unirep m.length m (Nat.le_refl _) h

/-- soundness of the one-pass routine on those inputs, against the (strict, encoding/json) specification -/
theorem unquoteD_sound (unirep : Bool) (m s : Bytes) (h : LitBodyD m)
    (hu : unquote unirep true (escapeAgain m) = .ok s) : DenotesDStrict unirep (escapeAgain m) s := by
  have := unquoteD_escapeAgain' unirep m.length m (Nat.le_refl _) h
  rw [hu] at this
  have h2 : unquote unirep false m = .ok s := okPart_eq_some.mp this.symm
  exact DenotesDStrict.mk (denotes_escapeAgain unirep m) (litBody_of_litBodyD h) (unquote_sound' unirep m s h2)

/-- completeness on those inputs -/
theorem unquoteD_complete (unirep : Bool) (m s : Bytes) (h : LitBodyD m)
    (hd : DenotesD unirep (escapeAgain m) s) : unquote unirep true (escapeAgain m) = .ok s := by
  have h2 := unquote_complete' ((denotesD_escapeAgain_iff unirep m s).mp hd)
  have := unquoteD_escapeAgain' unirep m.length m (Nat.le_refl _) h
  rw [h2] at this
  exact okPart_eq_some.mp this

/-- everything Marshal writes for a `,string` field lies in that class -/
theorem quoteD_image_is_escaped (s : Bytes) :
    quoteBodyD s = escapeAgain (quoteBody s) ∧ LitBodyD (quoteBody s) :=
  ⟨quoteBodyD_eq_escapeAgain s, litBodyD_quoteBody s⟩

theorem unquoteD_eq_unquoteTwice_on_quoteD_image (unirep : Bool) (s : Bytes) :
    unquote unirep true (quoteBodyD s) = unquoteTwice unirep (quoteBodyD s) := by
  rw [unquote_quoteBodyD, unquoteTwice_quoteBodyD]

/-- where they differ (finding C20-double-unquote-one-pass), kernel-checked; the same inputs are replayed
    against the real code from corpus/C20:
    1. a backslash written `\u005c`: one pass keeps `\n`, two passes read a newline;
    2. a surrogate pair with single backslashes: one pass gives U+FFFD and the text `ude00`;
    3. a single-escaped `\/` at the end of the body: one pass reports EOF;
    4. an unpaired surrogate followed by a final `\\n` (minimal escaping of the literal body `\ud800\n`, so the
       side condition of `unquoteD_agrees_on_escaped` cannot be dropped): one pass reports EOF;
    5. a high surrogate followed by a malformed `\u` escape: one pass accepts it;
    6. an unpaired surrogate followed by `\\\\a`: one pass reports an invalid character. -/
theorem unquoteD_differs_from_unquoteTwice :
    (unquote true true [92, 117, 48, 48, 53, 99, 110] = .ok [92, 110] ∧
      unquoteTwice true [92, 117, 48, 48, 53, 99, 110] = .ok [10]) ∧
    (unquote true true [92, 117, 100, 56, 51, 100, 92, 117, 100, 101, 48, 48] = .ok [239, 191, 189, 117, 100, 101, 48, 48] ∧
      unquoteTwice true [92, 117, 100, 56, 51, 100, 92, 117, 100, 101, 48, 48] = .ok [240, 159, 152, 128]) ∧
    (unquote true true [92, 47] = .error .eof ∧ unquoteTwice true [92, 47] = .ok [47]) ∧
    (unquote true true (escapeAgain [92, 117, 100, 56, 48, 48, 92, 110]) = .error .eof ∧
      unquoteTwice true (escapeAgain [92, 117, 100, 56, 48, 48, 92, 110]) = .ok [239, 191, 189, 10] ∧
      LitBody [92, 117, 100, 56, 48, 48, 92, 110]) ∧
    (unquote true true [92, 117, 100, 56, 51, 100, 92, 117, 44, 101, 48, 48] = .ok [239, 191, 189, 117, 44, 101, 48, 48] ∧
      unquoteTwice true [92, 117, 100, 56, 51, 100, 92, 117, 44, 101, 48, 48] = .error .inval) ∧
    (unquote true true (escapeAgain [92, 117, 100, 56, 48, 48, 92, 92, 97]) = .error .inval ∧
      unquoteTwice true (escapeAgain [92, 117, 100, 56, 48, 48, 92, 92, 97]) = .ok [239, 191, 189, 92, 97]) := by
  refine ⟨by decide +kernel, by decide +kernel, by decide +kernel, ⟨by decide +kernel, by decide +kernel, ?_⟩,
    by decide +kernel, by decide +kernel⟩
  exact (litBodyOk_iff _).mp (by decide +kernel)

example : okPart (unquote true true (escapeAgain [92, 117, 100, 56, 51, 100, 92, 117, 100, 101, 48, 48, 92, 110, 97])) =
    some [240, 159, 152, 128, 10, 97] := by decide +kernel

/-! ## HTML escaping -/

/-- `encoder.HTMLEscape(dst, src)`: the destination prefix is preserved and what is appended does not
    depend on it -/
theorem htmlEscape_preserves_prefix (dst src : Bytes) : htmlEscapeInto dst src = dst ++ htmlEscape src := by
  unfold htmlEscapeInto
  exact htmlLoop_eq [] dst src

/-- spec.go:124 restartable loop: the same for every sequence of free capacities the native calls meet
    (output buffers that fill up mid-string, mid-escape) -/
theorem htmlLoop_any_capacity (rooms : List Nat) (dst src : Bytes) :
    htmlLoop rooms dst src = dst ++ htmlEscape src :=
  htmlLoop_eq rooms dst src

example : htmlLoop [2, 5, 0, 7] [1, 2] [60, 97, 226, 128, 168] = [1, 2] ++ htmlEscape [60, 97, 226, 128, 168] := by
  decide +kernel

/-- the output contains no `<`, `>`, `&` and nowhere the UTF-8 form of U+2028 or U+2029 -/
theorem htmlEscape_no_special (s : Bytes) :
    (∀ b ∈ htmlEscape s, b ≠ 60 ∧ b ≠ 62 ∧ b ≠ 38) ∧
    ¬ [226, 128, 168] <:+: htmlEscape s ∧ ¬ [226, 128, 169] <:+: htmlEscape s := by
  refine ⟨htmlEscape_mem s, ?_, ?_⟩
  · rintro ⟨pre, suf, h⟩
    have := hasLSPS_of_infix (htmlEscape s) pre suf 168 (Or.inl rfl) (by rw [← h]; simp)
    rw [htmlEscape_noLSPS] at this
    cases this
  · rintro ⟨pre, suf, h⟩
    have := hasLSPS_of_infix (htmlEscape s) pre suf 169 (Or.inr rfl) (by rw [← h]; simp)
    rw [htmlEscape_noLSPS] at this
    cases this

/-- escaping a string body does not change what it denotes; in particular a body that `unquote` accepts is
    still accepted, with the same result, after HTML escaping (EscapeHTML cannot corrupt a string) -/
theorem htmlEscape_unquote_invariant (unirep : Bool) (b o : Bytes) (h : unquote unirep false b = .ok o) :
    unquote unirep false (htmlEscape b) = .ok o :=
  unquote_complete' (denotes_htmlEscape unirep b.length b o (Nat.le_refl _) (unquote_sound' unirep b o h))

example : unquote true false (htmlEscape [60, 92, 110, 226, 128, 168, 38]) = .ok [60, 10, 226, 128, 168, 38] :=
  htmlEscape_unquote_invariant true _ _ (by decide +kernel)

example : htmlEscape [60, 226, 128, 169, 226, 128] = [92, 117, 48, 48, 51, 99, 92, 117, 50, 48, 50, 57, 226, 128] := by
  decide +kernel

/-- escaping twice is escaping once -/
theorem htmlEscape_idempotent (s : Bytes) : htmlEscape (htmlEscape s) = htmlEscape s :=
  htmlEscape_idem s

/-- `encoder.HTMLEscape` equals `encoding/json.HTMLEscape`: the model of sonic's routine and the literal
    transliteration of GOROOT/src/encoding/json/indent.go:19-37 (`stdHtmlEscape`, Model/StrStd.lean) return the
    same bytes for every destination prefix and every source -/
theorem htmlEscape_eq_std (dst src : Bytes) : htmlEscapeInto dst src = stdHtmlEscape dst src := by
  rw [stdHtmlEscape_eq, htmlEscape_preserves_prefix]

example : stdHtmlEscape [7] [60, 226, 128, 169, 226, 128, 38] =
    [7, 92, 117, 48, 48, 51, 99, 92, 117, 50, 48, 50, 57, 226, 128, 92, 117, 48, 48, 50, 54] := by decide +kernel

/-! ## UTF-8 -/

/-- native/utf8.h:41 `valid_utf8_4byte` with its bit masks (`seqLenBits`, Model/StrStd.lean) decides the
    well-formedness table `seqLen` on every byte string (every byte value, every truncation) -/
theorem seqLen_eq_utf8h_masks (s : Bytes) : seqLenBits s = seqLen s := seqLenBits_eq_seqLen s

example : seqLenBits [237, 160, 128] = 0 ∧ seqLenBits [244, 143, 191, 191] = 4 ∧ seqLenBits [226, 130] = 0 := by
  decide +kernel

/-- decode ∘ encode = id on sequences of scalar values -/
theorem decodeAll_encodeAll (cps : List Nat) (h : ∀ c ∈ cps, isScalar c = true) :
    decodeAll (encodeAll cps) = some cps := decodeAll_encodeAll' cps h

/-- encode ∘ decode = id wherever the decoder succeeds, and the decoder only yields scalar values -/
theorem encodeAll_decodeAll (s : Bytes) (cps : List Nat) (h : decodeAll s = some cps) :
    encodeAll cps = s ∧ ∀ c ∈ cps, isScalar c = true := encodeAll_decodeAll' s cps h

/-- the validator accepts exactly the strings on which the decoder yields scalar values whose re-encoding is
    the input -/
theorem validate_eq_decode_all (s : Bytes) :
    validate s = true ↔ ∃ cps, decodeAll s = some cps ∧ (∀ c ∈ cps, isScalar c = true) ∧ encodeAll cps = s := by
  rw [validate_eq_isSome_decodeAll]
  constructor
  · intro h
    obtain ⟨cps, hc⟩ := Option.isSome_iff_exists.mp h
    obtain ⟨he, hs⟩ := encodeAll_decodeAll' s cps hc
    exact ⟨cps, hc, hs, he⟩
  · rintro ⟨cps, hc, _, _⟩
    rw [hc]; rfl

example : decodeAll [206, 186, 240, 159, 152, 128, 97] = some [954, 128512, 97] := by decide +kernel


/-- `utf8.Validate` accepts exactly the encodings of sequences of Unicode scalar values
    (which is what unicode/utf8.Valid accepts) -/
theorem utf8_valid_iff (s : Bytes) :
    validate s = true ↔ ∃ cps : List Nat, (∀ c ∈ cps, isScalar c = true) ∧ encodeAll cps = s := by
  constructor
  · exact exists_of_validate s
  · rintro ⟨cps, hs, rfl⟩
    exact validate_encodeAll cps hs

example : validate [206, 186, 240, 159, 152, 128, 97] = true := by decide +kernel
example : validate [237, 160, 128] = false := by decide +kernel      -- a surrogate
example : validate [192, 128] = false := by decide +kernel           -- overlong
example : validate [244, 144, 128, 128] = false := by decide +kernel -- above U+10FFFF
example : validate [226, 130] = false := by decide +kernel           -- truncated

/-- `utf8.CorrectWith` with a well-formed replacement returns well-formed bytes -/
theorem correctWith_valid (repl s : Bytes) (h : validate repl = true) : validate (correctWith repl s) = true := by
  obtain ⟨rc, hr, hre⟩ := exists_of_validate repl h
  obtain ⟨cps, hs, he⟩ := exists_of_correctWith repl rc hr hre s
  rw [← he]
  exact validate_encodeAll cps hs

/-- ... and is the identity on well-formed input -/
theorem correctWith_id_on_valid (repl s : Bytes) (h : validate s = true) : correctWith repl s = s :=
  correctWith_id_of_validate repl s h

/-- what is promised when the replacement itself may be ill-formed: the result is well-formed exactly when the
    input was (and then nothing is replaced, `correctWith_id_on_valid`) or the replacement is -/
theorem correctWith_valid_iff (repl s : Bytes) :
    validate (correctWith repl s) = true ↔ validate s = true ∨ validate repl = true := by
  constructor
  · exact correctWith_valid_imp repl s
  · rintro (h | h)
    · rw [correctWith_id_on_valid repl s h]; exact h
    · exact correctWith_valid repl s h

example : validate (correctWith [255] [97, 128]) = false ∧ correctWith [255] [97, 128] = [97, 255] := by decide +kernel

/-- byte-wise replacement: a byte at which no well-formed sequence starts is replaced alone, a well-formed
    sequence is copied whole (the rule unicode/utf8.DecodeRune implements with RuneError, width 1) -/
theorem correctWith_bytewise (repl : Bytes) (b : UInt8) (t : Bytes) :
    correctWith repl (b :: t) =
      if seqLen (b :: t) = 0 then repl ++ correctWith repl t
      else (b :: t).take (seqLen (b :: t)) ++ correctWith repl ((b :: t).drop (seqLen (b :: t))) := by
  rw [correctWith_cons]
  by_cases h : seqLen (b :: t) = 0 <;> simp [h]

/-- utf8.go:30: recording the ill-formed positions in a list of bounded capacity `k` (MAX_RECURSE = 4096
    in the real code) and restarting the native call when it is full gives the same bytes -/
theorem correctChunked_eq (repl : Bytes) (k : Nat) (hk : 0 < k) (s : Bytes) :
    correctChunked repl k (s.length + 1) s = correctWith repl s :=
  correctChunked_eq_correctWith repl k hk (s.length + 1) s (Nat.lt_succ_self _)

example : correctChunked [63] 2 6 [255, 255, 255, 97, 255] = [63, 63, 63, 97, 63] := by decide +kernel

example : correctWith [63] [97, 255, 226, 130, 98] = [97, 63, 63, 63, 98] := by decide +kernel
example : correctWith fffd [237, 160, 128] = fffd ++ fffd ++ fffd := by decide +kernel

end SonicSpec.Props.C20
