/-
  C04 - property theorems about the Marshal specification `Enc.encode` (Model/Enc.lean), for EVERY
  option set `o : EncOpts` (all 2^9 switch combinations are values of the record), every type
  expression `T` and every value `v` of the universe of Model/GoTypes.lean.

  * `encode_wellformed`          a successful Marshal is exactly one strict RFC 8259 value (full strength)
  * `encode_is_one_value`        ... and the strict parser returns exactly the tree that was encoded,
                                 having consumed every byte (no trailing bytes)
  * `unrepresentable_is_error`   NaN/Inf without the switch, invalid json.Number text, map key kinds
                                 without a text form: an error, never bytes; errors are not swallowed
                                 by enclosing containers
  * `marshaler_output_checked`   callback output enters the result only through the strict parser
  * `roundtrip_partial`          see the statement for the carried sub-universe

  The two hypotheses a reader may look for and will NOT find: nothing is assumed about the callback
  text (it is an arbitrary byte string `m`), nothing about the strings (arbitrary bytes).  What the
  model does assume is recorded at `Enc.EErr.unchecked`: with NoValidateJSONMarshaler (and without
  CompactMarshaler) or NoQuoteTextMarshaler the implementation embeds callback text unseen; the
  specification then speaks only about text that is JSON.
-/
import SonicSpec.Proofs.EncWF
import SonicSpec.Proofs.EncRoundtrip
namespace SonicSpec.Props.C04
open SonicSpec SonicSpec.Enc SonicSpec.Json SonicSpec.Go

/-- a successful Marshal returns text that the strict RFC 8259 parser accepts as one document,
    whatever the option set, the type and the value -/
theorem encode_wellformed (o : EncOpts) (T : GoType) (v : GoVal) (b : Bytes)
    (h : Enc.encode o T v = .ok b) : (Json.parseDoc b).isSome = true := by
  obtain ⟨j, h1, h2⟩ := except_map_ok h
  subst h2
  rw [parseDoc_render (encV_wf h1)]
  rfl

/-- exactly one value and no trailing bytes: the parser gives back precisely the encoded tree, and
    the text is its compact rendering (so nothing, not even white space, follows the value) -/
theorem encode_is_one_value (o : EncOpts) (T : GoType) (v : GoVal) (b : Bytes)
    (h : Enc.encode o T v = .ok b) :
    ∃ j, Enc.encodeJ o T v = .ok j ∧ b = Json.render j ∧ Json.parseDoc b = some j ∧
      ∃ r, Json.parseVal (b.length + 1) b = some (j, r) ∧ r = [] := by
  obtain ⟨j, h1, h2⟩ := except_map_ok h
  subst h2
  have hw := encV_wf h1
  refine ⟨j, h1, rfl, parseDoc_render hw, [], ?_, rfl⟩
  have := parse_render_val j hw ((render j).length + 1) [] (need_le j) trivial
  simpa using this

/-! ### values without a JSON representation -/

/-- NaN and ±Inf (float64) are an error unless EncodeNullForInfOrNan is set, in which case they are `null` -/
theorem nan_inf_f64 (o : EncOpts) (bits : UInt64) (h : Enc.fmtF64 bits = none) :
    Enc.encode o .f64 (.f64 bits) =
      (if o.encodeNullForInfOrNan then .ok [110, 117, 108, 108] else .error .unsupportedValue) := by
  simp only [encode, encodeJ, encV, h, floatLit]
  split <;> rfl

theorem nan_inf_f32 (o : EncOpts) (bits : UInt32) (h : Enc.fmtF32 bits = none) :
    Enc.encode o .f32 (.f32 bits) =
      (if o.encodeNullForInfOrNan then .ok [110, 117, 108, 108] else .error .unsupportedValue) := by
  simp only [encode, encodeJ, encV, h, floatLit]
  split <;> rfl

/-- NaN and the infinities (all-ones exponent field) have no literal in the project's float formatter
    (`Num.fmtF64`, core C), so by `nan_inf_f64` they are an error / `null` -/
theorem nan_inf_have_no_literal (bits : UInt64) (h : bits.toNat % 2 ^ 63 / 2 ^ 52 = 2047) :
    Enc.fmtF64 bits = none := by
  have hs : Num.signBit Num.f64 = 2 ^ 63 := by decide
  have hf : (Num.fields Num.f64 (bits.toNat % 2 ^ 63)).1 = 2 ^ Num.f64.ebits - 1 := by
    simp only [Num.fields, Num.f64]
    exact h
  simp only [Enc.fmtF64, Num.fmtF64, Num.fmtBits, Num.fmtBitsRaw, hs, hf, if_true]

/-- invalid json.Number text is an error (the empty Number is the number 0, as in encoding/json) -/
theorem invalid_number (o : EncOpts) (s : Bytes) (hne : s ≠ []) (h : Enc.validNumber s = false) :
    Enc.encode o .num (.num s) = .error .unsupportedValue := by
  have : s.isEmpty = false := by cases s <;> simp_all
  simp [encode, encodeJ, encV, numberLit, this, h, Except.map]

/-- a map whose key type has no text form (anything but strings, integers and TextMarshalers) is an
    unsupported type, for the nil map and for every content -/
theorem bad_map_key (o : EncOpts) (k t : GoType) (h : Enc.keyTypeOK k = false) (kvs : List (GoVal × GoVal)) :
    Enc.encode o (.map k t) .nil = .error .unsupportedType ∧
    Enc.encode o (.map k t) (.map kvs) = .error .unsupportedType := by
  simp [encode, encodeJ, encV, h, Except.map]

/-- errors are not swallowed: a slice, pointer, interface or array holding a value that fails, fails -/
theorem error_propagates_slice (o : EncOpts) (t : GoType) (xs : List GoVal) (x : GoVal) (e : EErr)
    (hx : x ∈ xs) (hu : Enc.isU8 t = false) (he : Enc.encV o true t x = .error e) :
    ∃ e', Enc.encode o (.sl t) (.sl xs) = .error e' := by
  have key : ∀ (ys : List GoVal), x ∈ ys → ∃ e', encL o true t ys = .error e' := by
    intro ys
    induction ys with
    | nil => intro h; cases h
    | cons y r ih =>
      intro h
      simp only [encL]
      cases hy : encV o true t y with
      | error e1 => exact ⟨e1, rfl⟩
      | ok j =>
        rcases List.mem_cons.mp h with h | h
        · subst h; rw [he] at hy; cases hy
        · obtain ⟨e', h'⟩ := ih h
          exact ⟨e', by simp [h', bind, Except.bind]⟩
  obtain ⟨e', h'⟩ := key xs hx
  exact ⟨e', by simp [encode, encodeJ, encV, hu, h', Except.map]⟩

theorem error_propagates_ptr (o : EncOpts) (t : GoType) (x : GoVal) (e : EErr)
    (he : Enc.encV o true t x = .error e) : Enc.encode o (.ptr t) (.ptr x) = .error e := by
  simp [encode, encodeJ, encV, he, Except.map]

theorem error_propagates_any (o : EncOpts) (t : GoType) (x : GoVal) (e : EErr)
    (he : Enc.encV o false t x = .error e) : Enc.encode o .any (.any t x) = .error e := by
  simp [encode, encodeJ, encV, he, Except.map]

/-- NaN/Inf without the switch, invalid json.Number text and unsupported key kinds never produce bytes -/
theorem unrepresentable_is_error (o : EncOpts) :
    (∀ bits, Enc.fmtF64 bits = none → o.encodeNullForInfOrNan = false →
        Enc.encode o .f64 (.f64 bits) = .error .unsupportedValue) ∧
    (∀ bits, Enc.fmtF32 bits = none → o.encodeNullForInfOrNan = false →
        Enc.encode o .f32 (.f32 bits) = .error .unsupportedValue) ∧
    (∀ s, s ≠ [] → Enc.validNumber s = false → Enc.encode o .num (.num s) = .error .unsupportedValue) ∧
    (∀ k t kvs, Enc.keyTypeOK k = false → Enc.encode o (.map k t) (.map kvs) = .error .unsupportedType) := by
  refine ⟨?_, ?_, ?_, ?_⟩
  · intro bits h1 h2; rw [nan_inf_f64 o bits h1, h2]; rfl
  · intro bits h1 h2; rw [nan_inf_f32 o bits h1, h2]; rfl
  · intro s h1 h2; exact invalid_number o s h1 h2
  · intro k t kvs h; exact (bad_map_key o k t h kvs).2

/-! ### callback output -/

/-- text returned by a json.Marshaler (`m` is arbitrary) is embedded only if the strict parser accepts
    it, and what is embedded is the parsed tree; with validation on (or CompactMarshaler) text that is
    not JSON is the error `marshaler` -/
theorem marshaler_output_checked (o : EncOpts) (m : Bytes) :
    (∀ j, Enc.marshalerOut o m = .ok j → Json.parseDoc m = some j) ∧
    ((o.compactMarshaler = true ∨ o.noValidateJSONMarshaler = false) → Json.parseDoc m = none →
        Enc.marshalerOut o m = .error .marshaler) := by
  constructor
  · intro j h
    unfold marshalerOut at h
    split at h
    · rename_i j' hp; injection h with h; subst h; exact hp
    · cases h
  · intro ho hp
    unfold marshalerOut
    rw [hp]
    rcases ho with ho | ho <;> simp [ho]

/-- the same through `encode` for json.RawMessage, under every option set: bytes come out only for valid text -/
theorem raw_message_checked (o : EncOpts) (m b : Bytes) (h : Enc.encode o .raw (.raw m) = .ok b) :
    ∃ j, Json.parseDoc m = some j ∧ b = Json.render j := by
  obtain ⟨j, h1, h2⟩ := except_map_ok h
  simp only [encodeJ, encV] at h1
  exact ⟨j, (marshaler_output_checked o m).1 j h1, h2.symm⟩

/-! ### the way back -/

/-- PARTIAL (hence the name).  For every option set, and for the sub-universe `Enc.rtOK` - booleans,
    integers of every width (in range), valid-UTF-8 strings, pointers (to something that is not itself
    written as null), finite floats of both widths (bit for bit, through the exact decimal->binary model of
    core C: `Num.toF64Bits` / `Num.toF32Bits`), slices (other than []byte), arrays, string-keyed maps whose
    entries are listed in bytewise key order (the order of the wire syntax and of SortMapKeys, so no
    permutation enters the statement), []byte (base64, decoded back by `Enc.b64dec`), and structs whose fields are
    all kept, not `,string`, named by pairwise different valid-UTF-8 names and not left out (`omitempty` /
    `omitzero` are carried on values that are not empty / not zero), nested arbitrarily - the text of a
    successful Marshal decodes back (`Enc.decodeBack`: strict parse, then the small typed decoder of
    Model/EncDec.lean) into a value equal to the original: integers exactly, strings byte for byte,
    containers element-wise; the only tolerated difference is a nil slice having become an empty one,
    and only under NoNullSliceOrMap.
    Missing from the carried universe: []byte written as a slice of uint8 values, interface{}, maps with non-string keys or
    with entries listed out of key order (the statement would have to speak of entries up to the permutation
    SortMapKeys applies), `,string` fields, fields left out by omitempty/omitzero or dropped by dominance / "-", json.Number, RawMessage
    and the callback leaves. -/
theorem roundtrip_partial (o : EncOpts) (T : GoType) (v : GoVal) (b : Bytes)
    (hwf : Enc.rtOK T v = true) (h : Enc.encode o T v = .ok b) :
    ∃ v', Enc.decodeBack T b = .ok v' ∧ Enc.eqv o.noNullSliceOrMap v v' = true := by
  obtain ⟨j, h1, h2⟩ := except_map_ok h
  subst h2
  obtain ⟨v', a1, a2, _⟩ := (roundtrip_all o).1 false T v j hwf h1
  refine ⟨v', ?_, a2⟩
  unfold decodeBack
  rw [parseDoc_render (encV_wf h1)]
  exact a1

/-- and under the default handling of nil (no NoNullSliceOrMap) the value comes back identical in the
    strict sense of `eqv false` (nil stays nil, empty stays empty) -/
theorem roundtrip_partial_strict (o : EncOpts) (ho : o.noNullSliceOrMap = false) (T : GoType) (v : GoVal) (b : Bytes)
    (hwf : Enc.rtOK T v = true) (h : Enc.encode o T v = .ok b) :
    ∃ v', Enc.decodeBack T b = .ok v' ∧ Enc.eqv false v v' = true := by
  have := roundtrip_partial o T v b hwf h
  rw [ho] at this
  exact this

/-! ### non-vacuity -/

/-- a concrete nested value of the carried universe meets `rtOK` and encodes (so the hypotheses of
    `roundtrip_partial` are satisfiable), hence decodes back -/
example : Enc.rtOK (.st [("A", none, .int 8), ("B", some [98], .sl .bool)]) (.st [.int (-128), .sl [.bool true]]) = true ∧
    Enc.encode {} (.st [("A", none, .int 8), ("B", some [98], .sl .bool)]) (.st [.int (-128), .sl [.bool true]]) =
      .ok (ascii "{\"A\":-128,\"b\":[true]}") := by
  decide +kernel

example : Enc.rtOK (.map .str (.sl .f64)) (.map [(.str [97], .sl [.f64 0x3fb999999999999a, .f64 0x8000000000000000]), (.str [97, 98], .nil)]) = true ∧
    Enc.encode EncOpts.std (.map .str (.sl .f64)) (.map [(.str [97], .sl [.f64 0x3fb999999999999a, .f64 0x8000000000000000]), (.str [97, 98], .nil)]) =
      .ok (ascii "{\"a\":[0.1,-0],\"ab\":null}") := by
  decide +kernel

example : Enc.rtOK (.st [("B", some (ascii "b,omitempty"), .bytes), ("N", some (ascii "n,omitzero"), .int 16)]) (.st [.bytes [1, 2, 255, 0], .int 7]) = true ∧
    Enc.encode {} (.st [("B", some (ascii "b,omitempty"), .bytes), ("N", some (ascii "n,omitzero"), .int 16)]) (.st [.bytes [1, 2, 255, 0], .int 7]) =
      .ok (ascii "{\"b\":\"AQL/AA==\",\"n\":7}") := by
  decide +kernel

example : Enc.rtOK (.sl (.ptr (.arr 2 .str))) (.sl [.ptr (.arr [.str [34, 195, 169], .str []]), .nil]) = true ∧
    Enc.encode EncOpts.std (.sl (.ptr (.arr 2 .str))) (.sl [.ptr (.arr [.str [34, 195, 169], .str []]), .nil]) =
      .ok (ascii "[[\"\\\"" ++ [195, 169] ++ ascii "\",\"\"],null]") := by
  decide +kernel

example : ∃ v', Enc.decodeBack (.sl (.ptr (.arr 2 .str))) (ascii "[[\"\\\"" ++ [195, 169] ++ ascii "\",\"\"],null]") = .ok v' ∧
    Enc.eqv false (.sl [.ptr (.arr [.str [34, 195, 169], .str []]), .nil]) v' = true :=
  roundtrip_partial_strict EncOpts.std rfl _ _ _ (by decide +kernel) (by decide +kernel)

/-- a nested value with a nil and an empty container, an escape and a sorted map, under ConfigStd -/
example : Enc.encode EncOpts.std
    (.st [("A", none, .sl (.int 64)), ("B", some [98, 44, 111, 109, 105, 116, 101, 109, 112, 116, 121], .str),
          ("M", none, .map .str (.ptr .bool)), ("S", none, .str)])
    (.st [.sl [.int 1, .int (-2)], .str [], .map [(.str [98], .nil), (.str [97], .ptr (.bool true))], .str [60, 10]]) =
    .ok (ascii "{\"A\":[1,-2],\"M\":{\"a\":true,\"b\":null},\"S\":\"\\u003c\\n\"}") := by
  decide +kernel

/-- NaN is an error by default and `null` with the switch -/
example : Enc.encode {} .f64 (.f64 0x7ff8000000000001) = .error .unsupportedValue := by decide +kernel
example : Enc.encode { encodeNullForInfOrNan := true } .f64 (.f64 0x7ff8000000000001) = .ok [110, 117, 108, 108] := by
  decide +kernel
/-- invalid RawMessage is rejected, valid text is embedded -/
example : Enc.encode {} .raw (.raw [123]) = .error .marshaler := by decide +kernel
example : Enc.encode { compactMarshaler := true } .raw (.raw [91, 32, 49, 32, 93]) = .ok [91, 49, 93] := by decide +kernel

end SonicSpec.Props.C04
