/-
  C05 - "The outcome of any sonic call is a function of the content of the input it was given: the same
  bytes yield the same result wherever they lie in memory, whatever bytes happen to follow them, at every
  length and every alignment.  No call reads a byte outside the input, so an input that ends exactly at
  the edge of mapped memory never faults."

  Property theorems about the memory-indexed models of the native scanners (Model/Mem.lean,
  Model/MemScan.lean; helper lemmas in Proofs/Mem*.lean).  A memory is `Nat → Option UInt8`, `none` =
  unmapped, a routine answers `none` when one of its loads hits an unmapped byte.  For every routine

    no_fault      every input byte mapped  ⇒  the routine does not fault, whatever else is (un)mapped -
                  in particular when the byte right behind the input is unmapped;
    content_only  two placements `(m, base)`, `(m', base')` that agree on the `len` input bytes give the
                  same answer - any address, any alignment, any bytes behind the input, any list of block
                  widths `Ws` (the AVX2 and the SSE build differ in `Ws` only).

  * skip_container_fast over-reads ON PURPOSE (a full 64-byte block is loaded at the end unless that would
    cross a page).  Its two statements are the weaker, still sufficient ones and say so (`…_page`): memory
    protection is page granular, so every load stays inside a page that holds input bytes, and the bytes
    behind the end never influence the result.
  * check_leading_zero and advance_dword over-read as written: for their faithful models `no_fault` and
    `content_only` are FALSE; the negations are proved on concrete witnesses (replayed on the real code by
    the `place` correspondence: known findings C05-leading-zero-overread, C05-advance-dword-underflow) and
    the positive statements are kept as `…_partial` under the hypothesis that excludes the over-read.

  What Lean cannot say: what the assembled machine code loads.  That is what the guard page observes.
-/
import SonicSpec.Model.MemScan
import SonicSpec.Proofs.Mem
import SonicSpec.Proofs.MemScan
import SonicSpec.Proofs.MemCt
import SonicSpec.Proofs.MemApi
import SonicSpec.Proofs.MemStrQuote
import SonicSpec.Proofs.MemStrHtml
import SonicSpec.Proofs.MemStrUnq
import SonicSpec.Proofs.MemStrUtf8
namespace SonicSpec.Props.C05
open SonicSpec SonicSpec.Mem
set_option linter.unusedSimpArgs false

/-! ### vector loads -/

/-- a vector load of `a + b` bytes faults / succeeds / delivers exactly like a load of `a` bytes followed by a
    load of `b` bytes: one 32-byte AVX2 load and two 16-byte SSE loads are interchangeable -/
theorem load_granularity_irrelevant (m : Mem) (base a b off : Nat) :
    loadW (view m base) (a + b) off =
      (match loadW (view m base) a off, loadW (view m base) b (off + a) with
       | some x, some y => some (x ++ y)
       | _, _ => none) :=
  loadW_add a b off

/-! ### first byte of a class: lspace, memcchr_quote, memcchr_html_quote, memcchr_p32 -/

theorem findSpecial_no_fault (special : UInt8 → Bool) (Ws : List Nat) (m : Mem) (base len p : Nat)
    (h : Mapped m base len) : findSpecial special Ws (view m base) len p ≠ none :=
  findSpecial_ne_none len special h Ws p

theorem findSpecial_content_only (special : UInt8 → Bool) (Ws : List Nat) (m m' : Mem) (base base' len p : Nat)
    (h : SameContent m base m' base' len) :
    findSpecial special Ws (view m base) len p = findSpecial special Ws (view m' base') len p :=
  findSpecial_congr len special h Ws p

/-- `lspace_1` (native/lspace.h) -/
theorem lspace_no_fault (Ws : List Nat) (m : Mem) (base len p : Nat) (h : Mapped m base len) :
    lspace Ws (view m base) len p ≠ none :=
  findSpecial_ne_none len _ h Ws p

theorem lspace_content_only (Ws : List Nat) (m m' : Mem) (base base' len p : Nat)
    (h : SameContent m base m' base' len) :
    lspace Ws (view m base) len p = lspace Ws (view m' base') len p :=
  findSpecial_congr len _ h Ws p

/-- `advance_ns` (native/scanning.h:86): four manual probes, then lspace -/
theorem advanceNs_no_fault (Ws : List Nat) (m : Mem) (base len p : Nat) (h : Mapped m base len) :
    advanceNs Ws (view m base) len p ≠ none :=
  advanceNs_ne_none len h Ws p

theorem advanceNs_content_only (Ws : List Nat) (m m' : Mem) (base base' len p : Nat)
    (h : SameContent m base m' base' len) :
    advanceNs Ws (view m base) len p = advanceNs Ws (view m' base') len p :=
  advanceNs_congr len h Ws p

/-! ### string end with escape carry -/

/-- `advance_string_default` (native/scanning.h:128), for whatever the uninitialised `ch` holds -/
theorem advStr_no_fault (ch0 : UInt8) (Ws : List Nat) (m : Mem) (base len p : Nat) (h : Mapped m base len) :
    advStr ch0 Ws (view m base) len p ≠ none :=
  advStr_ne_none len h ch0 Ws p

theorem advStr_content_only (ch0 : UInt8) (Ws : List Nat) (m m' : Mem) (base base' len p : Nat)
    (h : SameContent m base m' base' len) :
    advStr ch0 Ws (view m base) len p = advStr ch0 Ws (view m' base') len p :=
  advStr_congr len h ch0 Ws p

/-- `skip_string_fast` (native/scanning.h:1498) -/
theorem skipStringFast_no_fault (Ws : List Nat) (m : Mem) (base len p : Nat) (h : Mapped m base len) :
    skipStringFast Ws (view m base) len p ≠ none :=
  skipStringFast_ne_none len h Ws p

theorem skipStringFast_content_only (Ws : List Nat) (m m' : Mem) (base base' len p : Nat)
    (h : SameContent m base m' base' len) :
    skipStringFast Ws (view m base) len p = skipStringFast Ws (view m' base') len p :=
  skipStringFast_congr len h Ws p

/-! ### numbers -/

/-- `do_skip_number(sp, nb)` (native/scanning.h:1025); `base` = address of the first digit -/
theorem doSkipNumber_no_fault (Ws : List Nat) (m : Mem) (base nb : Nat) (h : Mapped m base nb) :
    doSkipNumber Ws (view m base) nb ≠ none :=
  doSkipNumber_ne_none nb h Ws

theorem doSkipNumber_content_only (Ws : List Nat) (m m' : Mem) (base base' nb : Nat)
    (h : SameContent m base m' base' nb) :
    doSkipNumber Ws (view m base) nb = doSkipNumber Ws (view m' base') nb :=
  doSkipNumber_congr nb h Ws

/-! ### bracket counting: intentional same-page over-read, weaker statements -/

/-- WEAKER than `no_fault`: needs page-granular protection.  Every load of skip_container_fast stays inside a
    page that holds input bytes (in a memory where only those pages are mapped it still does not fault). -/
theorem skipContainerFast_no_fault_page (lc rc : UInt8) (m : Mem) (base len p : Nat)
    (hg : PageGranular m) (h : Mapped m base len) :
    skipContainerFast base lc rc (view m base) len p ≠ none := by
  rw [skipContainerFast_eq_scalar' lc rc hg h p]
  exact scalarLoop_ne_none _ _ len h _ p

/-- WEAKER than `content_only`: both placements mapped in page-granular memories.  The bytes behind the end
    that the last 64-byte block loads never influence the result (a closing brace found there is EOF);
    neither does the address, although it decides between over-read and private zero-padded copy. -/
theorem skipContainerFast_content_only_page (lc rc : UInt8) (m m' : Mem) (base base' len p : Nat)
    (hg : PageGranular m) (hg' : PageGranular m') (hm : Mapped m base len) (hm' : Mapped m' base' len)
    (h : SameContent m base m' base' len) :
    skipContainerFast base lc rc (view m base) len p = skipContainerFast base' lc rc (view m' base') len p := by
  rw [skipContainerFast_eq_scalar' lc rc hg hm p, skipContainerFast_eq_scalar' lc rc hg' hm' p]
  exact scalarLoop_congr _ _ len h _ p

/-! ### the over-reads of the C as written -/

/-- the page-edge witness: only address 4095 is mapped and holds `0` -/
def edgeZero : Mem := fun a => if a = 4095 then some 48 else none

/-- `no_fault` is FALSE for the head of vnumber/vsigned/vunsigned: the input `0`, every byte of it mapped,
    ending at the edge of mapped memory, faults (check_leading_zero reads `s[i+1]` with `i + 1 = len`) -/
theorem vnumberHead_no_fault_false :
    ¬ (∀ (m : Mem) (base len p : Nat), Mapped m base len → vnumberHead (view m base) len p ≠ none) := by
  intro h
  refine h edgeZero 4095 1 0 ?_ ?_
  · intro i hi
    have : i = 0 := by omega
    subst this
    simp [edgeZero]
  · simp [vnumberHead, vnumDigitAt, view, edgeZero]

/-- `content_only` is FALSE as well: the same input `-0`, once followed by a blank and once by `.`, takes the
    early return (`+0.0`) resp. the long path (`-0.0`) -/
theorem vnumberHead_content_only_false :
    ¬ (∀ (m m' : Mem) (base base' len p : Nat), SameContent m base m' base' len →
        vnumberHead (view m base) len p = vnumberHead (view m' base') len p) := by
  intro h
  have := h (ofList [45, 48, 32]) (ofList [45, 48, 46]) 0 0 2 0 (by
    intro i hi
    have : i = 0 ∨ i = 1 := by omega
    rcases this with rfl | rfl <;> simp [ofList])
  simp [vnumberHead, vnumDigitAt, view, ofList] at this

/-- what remains true: when the byte behind the input is mapped, no fault -/
theorem vnumberHead_no_fault_partial (m : Mem) (base len p : Nat) (h : Mapped m base (len + 1)) :
    vnumberHead (view m base) len p ≠ none := by
  have rdok : ∀ i, i ≤ len → ∃ b, view m base i = some b := by
    intro i hi
    cases hb : view m base i with
    | none => exact absurd hb (h i (by omega))
    | some b => exact ⟨b, rfl⟩
  have hd : ∀ i, vnumDigitAt (view m base) len i ≠ none := by
    intro i
    simp only [vnumDigitAt]
    by_cases hi : i ≥ len
    · simp [hi]
    · simp only [if_neg hi]
      obtain ⟨d, hd⟩ := rdok i (by omega)
      obtain ⟨e, he⟩ := rdok (i + 1) (by omega)
      simp only [hd, he]
      split
      · simp
      · split
        · split <;> simp
        · simp
  simp only [vnumberHead]
  by_cases hp : p ≥ len
  · simp [hp]
  · simp only [if_neg hp]
    obtain ⟨c, hc⟩ := rdok p (by omega)
    simp only [hc]
    split
    · exact hd (p + 1)
    · exact hd p

/-- and when the two placements also agree on the byte behind the input, the same answer -/
theorem vnumberHead_content_only_partial (m m' : Mem) (base base' len p : Nat)
    (h : SameContent m base m' base' (len + 1)) :
    vnumberHead (view m base) len p = vnumberHead (view m' base') len p := by
  have e : ∀ i, i ≤ len → view m base i = view m' base' i := fun i hi => h i (by omega)
  have hd : ∀ i, vnumDigitAt (view m base) len i = vnumDigitAt (view m' base') len i := by
    intro i
    simp only [vnumDigitAt]
    by_cases hi : i ≥ len
    · simp [hi]
    · simp only [if_neg hi, e i (by omega), e (i + 1) (by omega)]
  simp only [vnumberHead]
  by_cases hp : p ≥ len
  · simp [hp]
  · simp only [if_neg hp, e p (by omega), hd]

/-- the witness for advance_dword: the one-byte input `t` at the edge of mapped memory -/
def edgeT : Mem := fun a => if a = 4095 then some 116 else none

/-- `no_fault` is FALSE for advance_dword: `*p > src->len + dec - 4` wraps around for `len + dec < 4`, and the
    4-byte compare of `t` against `true` reads three bytes behind the input -/
theorem advanceDword_no_fault_false :
    ¬ (∀ (m : Mem) (base len p dec : Nat) (lit : Bytes), Mapped m base len →
        advanceDword (view m base) len p dec lit ≠ none) := by
  intro h
  refine h edgeT 4095 1 1 1 [116, 114, 117, 101] ?_ ?_
  · intro i hi
    have : i = 0 := by omega
    subst this
    simp [edgeT]
  · simp [advanceDword, loadW, view, edgeT]

/-- `content_only` is FALSE: `t` followed by `rue` is accepted as `true`, `t` followed by blanks is not -/
theorem advanceDword_content_only_false :
    ¬ (∀ (m m' : Mem) (base base' len p dec : Nat) (lit : Bytes), SameContent m base m' base' len →
        advanceDword (view m base) len p dec lit = advanceDword (view m' base') len p dec lit) := by
  intro h
  have := h (ofList [116, 114, 117, 101]) (ofList [116, 32, 32, 32]) 0 0 1 1 1 [116, 114, 117, 101] (by
    intro i hi
    have : i = 0 := by omega
    subst this
    simp [ofList])
  simp [advanceDword, loadW, view, ofList] at this

/-- what remains true: for inputs of at least `4 - dec` bytes (`dec ≤ p`, as at every call site) the length test
    works and the 4-byte load stays inside the input -/
theorem advanceDword_no_fault_partial (m : Mem) (base len p dec : Nat) (lit : Bytes)
    (h : Mapped m base len) (hlen : len + dec ≥ 4) (hdec : dec ≤ p) :
    advanceDword (view m base) len p dec lit ≠ none := by
  simp only [advanceDword]
  by_cases hc : p > len + dec - 4
  · simp [hlen, hc]
  · have hl : loadW (view m base) 4 (p - dec) ≠ none :=
      loadW_ne_none 4 (p - dec) (fun i h1 h2 => h i (by omega))
    cases hw : loadW (view m base) 4 (p - dec) with
    | none => exact absurd hw hl
    | some w =>
      simp only [hlen, hc, decide_true, decide_false, Bool.and_false, Bool.false_eq_true, if_false]
      split <;> simp

/-! ### the statements are not vacuous -/

/-- an input of three bytes ending exactly at a page edge, nothing mapped behind it: mapped … -/
def edgeSpaces : Mem := fun a => if 4093 ≤ a ∧ a < 4096 then some (if a = 4095 then 49 else 32) else none

example : Mapped edgeSpaces 4093 3 := by
  intro i hi
  simp only [edgeSpaces]
  rw [if_pos (by omega)]
  simp

/-- … and lspace with 2-byte blocks answers 2 on it (one block round, one scalar step, no fault) -/
example : lspace [2] (view edgeSpaces 4093) 3 0 = some 2 := by
  simp [lspace, findSpecial, findScan, Scan.run, scalarLoop, loadW, view, edgeSpaces, findBlk, ctz, findStep, isSpace]

/-- a load that touches the unmapped page does fault in the model -/
example : loadW (view edgeSpaces 4093) 4 0 = none := by
  simp [loadW, view, edgeSpaces]

/-- page-granular memories exist: everything below an edge mapped, nothing above -/
example : PageGranular (fun a => if a < 8192 then some 0 else none) := by
  intro a a' hp h
  simp only [page] at hp
  by_cases ha : a < 8192
  · have : a' < 8192 := by omega
    simp [this]
  · simp [ha] at h

/-- advance_string_default with 2-byte blocks: `a\"b"` - the escaped quote sits across the block boundary,
    the carry takes it over; closing quote found at 5, first backslash at 1 -/
example : advStr 0 [2] (ofList [97, 92, 34, 98, 34]) 5 0 = some (.found 5 (some 1)) := by
  simp [advStr, strScan, Scan.run, scalarLoop, loadW, ofList, strBlk, strStep, escMask, ctz, epSet]

/-! ### the string routines (Model/MemStr.lean): quote, unquote, html_escape, UTF-8 validation

    None of them over-reads on purpose (every vector load is guarded by `nb >= W`; `vec_cross_page` is only used
    by skip_container_fast and xmemcmpeq), so the statements are the full ones.  An input is `Holds (view m base) s`:
    its bytes are mapped and are `s`; nothing is assumed about any other address. -/

theorem quote_no_fault (w : StrWidths) (rooms : List Nat) (m : Mem) (base : Nat) (s : Bytes)
    (h : Holds (view m base) s) : quoteGo w Str.quoteByte (view m base) s.length rooms 0 [] ≠ none := by
  rw [quoteGo_spec w Str.quoteByte (fun c hc => (quoteSpecial_tabs c hc).1) h rooms 0 [] (Nat.zero_le _)]
  simp

theorem quote_content_only (w : StrWidths) (rooms : List Nat) (m m' : Mem) (base base' : Nat) (s : Bytes)
    (h : Holds (view m base) s) (h' : Holds (view m' base') s) :
    quoteGo w Str.quoteByte (view m base) s.length rooms 0 [] = quoteGo w Str.quoteByte (view m' base') s.length rooms 0 [] := by
  rw [quoteGo_spec w Str.quoteByte (fun c hc => (quoteSpecial_tabs c hc).1) h rooms 0 [] (Nat.zero_le _),
      quoteGo_spec w Str.quoteByte (fun c hc => (quoteSpecial_tabs c hc).1) h' rooms 0 [] (Nat.zero_le _)]

/-- every single native call of quote (any budget, any restart position) stays inside the input -/
theorem quoteNative_no_fault (w : StrWidths) (m : Mem) (base : Nat) (s : Bytes) (p room : Nat)
    (h : Holds (view m base) s) (hp : p ≤ s.length) :
    quoteNative w Str.quoteByte (view m base) s.length p room ≠ none := by
  obtain ⟨r, hr, _⟩ := quoteNative_spec w Str.quoteByte (fun c hc => (quoteSpecial_tabs c hc).1) h p room hp
  simp [hr]

theorem unquote_no_fault (w : StrWidths) (unirep dbl : Bool) (m : Mem) (base : Nat) (s : Bytes)
    (h : Holds (view m base) s) : unquoteNative w unirep dbl (view m base) s.length ≠ none := by
  rw [unquoteNative_spec w unirep dbl h]; simp

theorem unquote_content_only (w : StrWidths) (unirep dbl : Bool) (m m' : Mem) (base base' : Nat) (s : Bytes)
    (h : Holds (view m base) s) (h' : Holds (view m' base') s) :
    unquoteNative w unirep dbl (view m base) s.length = unquoteNative w unirep dbl (view m' base') s.length := by
  rw [unquoteNative_spec w unirep dbl h, unquoteNative_spec w unirep dbl h']

theorem htmlEscape_no_fault (w : StrWidths) (rooms : List Nat) (dst : Bytes) (m : Mem) (base : Nat) (s : Bytes)
    (h : Holds (view m base) s) : htmlGo w (view m base) s.length rooms 0 dst ≠ none := by
  rw [htmlGo_spec w h rooms 0 dst (Nat.zero_le _)]; simp

theorem htmlEscape_content_only (w : StrWidths) (rooms : List Nat) (dst : Bytes) (m m' : Mem) (base base' : Nat)
    (s : Bytes) (h : Holds (view m base) s) (h' : Holds (view m' base') s) :
    htmlGo w (view m base) s.length rooms 0 dst = htmlGo w (view m' base') s.length rooms 0 dst := by
  rw [htmlGo_spec w h rooms 0 dst (Nat.zero_le _), htmlGo_spec w h' rooms 0 dst (Nat.zero_le _)]

/-- both validators (the vector one with its 128/64-byte rounds and zero-padded remainder, the scalar one with its
    4-byte loads) load inside the input only; no soundness assumption is needed for that -/
theorem utf8_no_fault (w : StrWidths) (m : Mem) (base : Nat) (s : Bytes) (h : Holds (view m base) s) :
    utf8Fast w (view m base) s.length ≠ none := by
  simp only [utf8Fast]
  split
  · rw [utf8Scalar_spec h]; simp
  · cases hv : utf8Vec w.utf8 (view m base) s.length with
    | none => exact absurd hv (utf8Vec_ne_none s.length h.ne_none w.utf8)
    | some b => cases b <;> simp [utf8Scalar_spec h]

theorem utf8_content_only (w : StrWidths) (m m' : Mem) (base base' : Nat) (s : Bytes)
    (h : Holds (view m base) s) (h' : Holds (view m' base') s) :
    utf8Fast w (view m base) s.length = utf8Fast w (view m' base') s.length := by
  simp only [utf8Fast, utf8Scalar_spec h, utf8Scalar_spec h',
    utf8Vec_congr s.length h.agree w.utf8, utf8Vec_congr s.length h'.agree w.utf8]

end SonicSpec.Props.C05
