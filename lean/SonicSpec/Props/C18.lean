/-
  C18 - property theorems about the option WIRING.  Every table used here (`Gen.*`) is
  REGENERATED from the Go source by go/factx on every run: option bit positions, the
  `if cfg.F { api.T |= C }` statements of Config.Froze, the setter methods' set/clear masks,
  the stock configurations.  The documented mapping (api.go doc comments) is written below by
  hand BY NAME, so retuning a bit number leaves the theorems true while a crossed, missing or
  doubled wire makes them fail.  All quantifiers range over finite tables: `decide` is a proof.
-/
import SonicSpec.Generated.Opts
import SonicSpec.Generated.Consts
namespace SonicSpec.Props.C18
open SonicSpec.Gen

def lookup (t : List (String × Int)) (k : String) : Option Int := (t.find? (fun e => e.1 == k)).map (·.2)

/-- documented: Config field ↦ (options word, option constant) -/
def documentedWires : List (String × String × String) := [
  ("EscapeHTML", "encoderOpts", "EscapeHTML"),
  ("SortMapKeys", "encoderOpts", "SortMapKeys"),
  ("CompactMarshaler", "encoderOpts", "CompactMarshaler"),
  ("NoQuoteTextMarshaler", "encoderOpts", "NoQuoteTextMarshaler"),
  ("NoNullSliceOrMap", "encoderOpts", "NoNullSliceOrMap"),
  ("ValidateString", "encoderOpts", "ValidateString"),
  ("NoValidateJSONMarshaler", "encoderOpts", "NoValidateJSONMarshaler"),
  ("NoEncoderNewline", "encoderOpts", "NoEncoderNewline"),
  ("EncodeNullForInfOrNan", "encoderOpts", "EncodeNullForInfOrNan"),
  ("NoValidateJSONSkip", "decoderOpts", "OptionNoValidateJSON"),
  ("UseInt64", "decoderOpts", "OptionUseInt64"),
  ("UseNumber", "decoderOpts", "OptionUseNumber"),
  ("UseUnicodeErrors", "decoderOpts", "OptionUseUnicodeErrors"),
  ("DisallowUnknownFields", "decoderOpts", "OptionDisableUnknown"),
  ("CopyString", "decoderOpts", "OptionCopyString"),
  ("ValidateString", "decoderOpts", "OptionValidateString"),
  ("CaseSensitive", "decoderOpts", "OptionCaseSensitive")]

def wireNames : List (String × String × String) := frozeWires.map fun w => (w.1, w.2.1, w.2.2.2)

/-- Froze wires exactly the documented switches: nothing missing, nothing extra, nothing crossed
    (order of the statements is irrelevant) -/
theorem froze_exact : wireNames.isPerm documentedWires = true := by decide +kernel

/-- every mask OR-ed in by Froze is the value of the constant it names, in the right package -/
theorem froze_masks : frozeWires.all (fun w =>
    (if w.2.1 == "encoderOpts" then lookup encOptionsPublic w.2.2.2 else lookup decOptionsPublic w.2.2.2) == some w.2.2.1) = true := by
  decide +kernel

/-- every switch of Config is wired (a new or forgotten field is caught) -/
theorem every_switch_wired : configFields.all (fun f => frozeWires.any (fun w => w.1 == f)) = true := by
  decide +kernel

def isPow2Of (v : Int) (bit : Int) : Bool := bit ≥ 0 && v == (2 : Int) ^ bit.toNat

/-- each single-switch encoder option is exactly its own bit; the nine bits are pairwise distinct and
    below the reserved pointer-value bit -/
theorem enc_bits_exact :
    (["SortMapKeys", "EscapeHTML", "CompactMarshaler", "NoQuoteTextMarshaler", "NoNullSliceOrMap", "ValidateString",
      "NoValidateJSONMarshaler", "NoEncoderNewline", "EncodeNullForInfOrNan"].all fun n =>
        match lookup encOptions n, lookup encBits ("Bit" ++ n) with
        | some v, some b => isPow2Of v b && b < bitPointerValue
        | _, _ => false) = true ∧
    ((encBits.map (·.2)).Nodup) ∧
    lookup encOptions "CompatibleWithStd" =
      (do let a ← lookup encOptions "SortMapKeys"; let b ← lookup encOptions "EscapeHTML"; let c ← lookup encOptions "CompactMarshaler"; pure (a + b + c)) := by
  decide +kernel

/-- the public encoder/decoder packages re-export the internal constants unchanged -/
theorem public_reexports : encOptionsPublic = encOptions ∧ decOptionsPublic = decOptions := by decide +kernel

def decPairs : List (String × String) := [
  ("OptionUseInt64", "F_use_int64"), ("OptionUseNumber", "F_use_number"), ("OptionUseUnicodeErrors", "F_disable_urc"),
  ("OptionDisableUnknown", "F_disable_unknown"), ("OptionCopyString", "F_copy_string"), ("OptionValidateString", "F_validate_string"),
  ("OptionNoValidateJSON", "F_no_validate_json"), ("OptionCaseSensitive", "F_case_sensitive")]

/-- each decoder option is exactly its own flag bit; flag bits are pairwise distinct; the bits shared with
    the native routines agree with the native constants -/
theorem dec_bits_exact :
    (decPairs.all fun p => match lookup decOptions p.1, lookup decFlagBits p.2 with
        | some v, some b => isPow2Of v b
        | _, _ => false) = true ∧
    ((decFlagBits.map (·.2)).Nodup) ∧
    lookup decFlagBits "F_use_number" = lookup nativeBits "B_USE_NUMBER" ∧
    lookup decFlagBits "F_validate_string" = lookup nativeBits "B_VALIDATE_STRING" ∧
    lookup decFlagBits "F_allow_control" = lookup nativeBits "B_ALLOW_CONTROL" ∧
    lookup decFlagBits "F_no_validate_json" = lookup nativeBits "B_NO_VALIDATE_JSON" := by
  decide +kernel

/-- documented setter effects, by option NAME: (receiver, method, options it sets (true / no arg),
    options it clears (true / no arg), sets when false, clears when false) -/
def documentedSetters : List (String × String × List String × List String × List String × List String) := [
  ("Encoder", "SortKeys", ["SortMapKeys"], [], [], []),
  ("Encoder", "SetEscapeHTML", ["EscapeHTML"], [], [], ["EscapeHTML"]),
  ("Encoder", "SetValidateString", ["ValidateString"], [], [], ["ValidateString"]),
  ("Encoder", "SetNoValidateJSONMarshaler", ["NoValidateJSONMarshaler"], [], [], ["NoValidateJSONMarshaler"]),
  ("Encoder", "SetNoEncoderNewline", ["NoEncoderNewline"], [], [], ["NoEncoderNewline"]),
  ("Encoder", "SetCompactMarshaler", ["CompactMarshaler"], [], [], ["CompactMarshaler"]),
  ("Encoder", "SetNoQuoteTextMarshaler", ["NoQuoteTextMarshaler"], [], [], ["NoQuoteTextMarshaler"]),
  ("Decoder", "UseInt64", ["OptionUseInt64"], ["OptionUseNumber"], [], []),
  ("Decoder", "UseNumber", ["OptionUseNumber"], ["OptionUseInt64"], [], []),
  ("Decoder", "UseUnicodeErrors", ["OptionUseUnicodeErrors"], [], [], []),
  ("Decoder", "DisallowUnknownFields", ["OptionDisableUnknown"], [], [], []),
  ("Decoder", "CopyString", ["OptionCopyString"], [], [], []),
  ("Decoder", "ValidateString", ["OptionValidateString"], [], [], [])]

def maskOf (recv : String) (names : List String) : Option Int :=
  names.foldl (fun acc n => do
    let a ← acc
    let v ← lookup (if recv == "Encoder" then encOptions else decOptions) n
    pure (a + v)) (some 0)

/-- each setter changes exactly its own bit(s) and nothing else (UseInt64/UseNumber exclude each other) -/
theorem setters_exact : ((setters.map fun s => (s.1, s.2.1, [some (Int.ofNat s.2.2.2.1), some (Int.ofNat s.2.2.2.2.1),
      some (Int.ofNat s.2.2.2.2.2.1), some (Int.ofNat s.2.2.2.2.2.2)])) ==
    (documentedSetters.map fun d => (d.1, d.2.1, [maskOf d.1 d.2.2.1, maskOf d.1 d.2.2.2.1, maskOf d.1 d.2.2.2.2.1, maskOf d.1 d.2.2.2.2.2]))) = true := by
  decide +kernel

/-- the stock configurations are the documented ones -/
theorem stock_configs_exact : stockConfigs = [
    ("ConfigDefault", []),
    ("ConfigStd", ["EscapeHTML", "SortMapKeys", "CompactMarshaler", "CopyString", "ValidateString"]),
    ("ConfigFastest", ["NoValidateJSONMarshaler", "NoValidateJSONSkip"])] := by decide +kernel

/-- two different switches never share a bit of the same word, so no switch can have the effect of another -/
theorem wires_injective : (frozeWires.map fun w => (w.2.1, w.2.2.1)).Nodup := by decide +kernel

-- non-vacuity: the tables are not empty and contain the expected kind of entries
example : frozeWires.length = 17 ∧ configFields.length = 16 ∧ setters.length = 13 := by decide

end SonicSpec.Props.C18
