/-
  C18 - property theorems about the option WIRING.  Every table used here (`Gen.*`) is
  REGENERATED from the Go source by go/factx on every run: option bit positions, the
  `if cfg.F { api.T |= C }` statements of Config.Froze, the setter methods' set/clear masks,
  the stock configurations.  The documented mapping (api.go doc comments) is written below by
  hand BY NAME, so retuning a bit number leaves the theorems true while a crossed, missing or
  doubled wire makes them fail.  All quantifiers range over finite tables: `decide` is a proof.

  Second half (work package `opts`): `Config.Froze` as a FUNCTION of the regenerated table
  (`Opts.froze`), with `froze_pointwise` for all Configs; and the effect of every switch as a
  relation between "the result without it" and "the result with it", for ALL inputs, on the models of
  Model/Opts.lean (linear template of the encoder output, JSON trees, interface{} values, field
  matching).  These relations are what the metamorphic correspondence (`optpair`, Driver/Opts.lean)
  checks on the real code.
-/
import SonicSpec.Generated.Opts
import SonicSpec.Generated.Consts
import SonicSpec.Proofs.Opts
import SonicSpec.Proofs.OptsSort
import SonicSpec.Proofs.OptsSkip
import SonicSpec.Proofs.OptsFinish
import SonicSpec.Proofs.OptsSetters
namespace SonicSpec.Props.C18
open SonicSpec.Gen

def lookup (t : List (String × Int)) (k : String) : Option Int := (t.find? (fun e => e.1 == k)).map (·.2)

/-- documented: Config field ↦ (options word, option constant) -/
def documentedWires : List (String × String × String) := [
  ("EscapeHTML", "encoderOpts", "EscapeHTML"),
  ("SortMapKeys", "encoderOpts", "SortMapKeys"),
  ("CompactMarshaler", "encoderOpts", "CompactMarshaler"),
  ("NoQuoteTextMarshaler", "encoderOpts", "NoQuoteTextMarshaler"),
  ("NoNullSliceOrMap", "encoderOpts", "NoNullSliceOrMap"),
  ("ValidateString", "encoderOpts", "ValidateString"),
  ("NoValidateJSONMarshaler", "encoderOpts", "NoValidateJSONMarshaler"),
  ("NoEncoderNewline", "encoderOpts", "NoEncoderNewline"),
  ("EncodeNullForInfOrNan", "encoderOpts", "EncodeNullForInfOrNan"),
  ("NoValidateJSONSkip", "decoderOpts", "OptionNoValidateJSON"),
  ("UseInt64", "decoderOpts", "OptionUseInt64"),
  ("UseNumber", "decoderOpts", "OptionUseNumber"),
  ("UseUnicodeErrors", "decoderOpts", "OptionUseUnicodeErrors"),
  ("DisallowUnknownFields", "decoderOpts", "OptionDisableUnknown"),
  ("CopyString", "decoderOpts", "OptionCopyString"),
  ("ValidateString", "decoderOpts", "OptionValidateString"),
  ("CaseSensitive", "decoderOpts", "OptionCaseSensitive")]

def wireNames : List (String × String × String) := frozeWires.map fun w => (w.1, w.2.1, w.2.2.2)

/-- Froze wires exactly the documented switches: nothing missing, nothing extra, nothing crossed
    (order of the statements is irrelevant) -/
theorem froze_exact : wireNames.isPerm documentedWires = true := by decide +kernel

/-- every mask OR-ed in by Froze is the value of the constant it names, in the right package -/
theorem froze_masks : frozeWires.all (fun w =>
    (if w.2.1 == "encoderOpts" then lookup encOptionsPublic w.2.2.2 else lookup decOptionsPublic w.2.2.2) == some w.2.2.1) = true := by
  decide +kernel

/-- every switch of Config is wired (a new or forgotten field is caught) -/
theorem every_switch_wired : configFields.all (fun f => frozeWires.any (fun w => w.1 == f)) = true := by
  decide +kernel

def isPow2Of (v : Int) (bit : Int) : Bool := bit ≥ 0 && v == (2 : Int) ^ bit.toNat

/-- each single-switch encoder option is exactly its own bit; the nine bits are pairwise distinct and
    below the reserved pointer-value bit -/
theorem enc_bits_exact :
    (["SortMapKeys", "EscapeHTML", "CompactMarshaler", "NoQuoteTextMarshaler", "NoNullSliceOrMap", "ValidateString",
      "NoValidateJSONMarshaler", "NoEncoderNewline", "EncodeNullForInfOrNan"].all fun n =>
        match lookup encOptions n, lookup encBits ("Bit" ++ n) with
        | some v, some b => isPow2Of v b && b < bitPointerValue
        | _, _ => false) = true ∧
    ((encBits.map (·.2)).Nodup) ∧
    lookup encOptions "CompatibleWithStd" =
      (do let a ← lookup encOptions "SortMapKeys"; let b ← lookup encOptions "EscapeHTML"; let c ← lookup encOptions "CompactMarshaler"; pure (a + b + c)) := by
  decide +kernel

/-- the public encoder/decoder packages re-export the internal constants unchanged -/
theorem public_reexports : encOptionsPublic = encOptions ∧ decOptionsPublic = decOptions := by decide +kernel

def decPairs : List (String × String) := [
  ("OptionUseInt64", "F_use_int64"), ("OptionUseNumber", "F_use_number"), ("OptionUseUnicodeErrors", "F_disable_urc"),
  ("OptionDisableUnknown", "F_disable_unknown"), ("OptionCopyString", "F_copy_string"), ("OptionValidateString", "F_validate_string"),
  ("OptionNoValidateJSON", "F_no_validate_json"), ("OptionCaseSensitive", "F_case_sensitive")]

/-- each decoder option is exactly its own flag bit; flag bits are pairwise distinct; the bits shared with
    the native routines agree with the native constants -/
theorem dec_bits_exact :
    (decPairs.all fun p => match lookup decOptions p.1, lookup decFlagBits p.2 with
        | some v, some b => isPow2Of v b
        | _, _ => false) = true ∧
    ((decFlagBits.map (·.2)).Nodup) ∧
    lookup decFlagBits "F_use_number" = lookup nativeBits "B_USE_NUMBER" ∧
    lookup decFlagBits "F_validate_string" = lookup nativeBits "B_VALIDATE_STRING" ∧
    lookup decFlagBits "F_allow_control" = lookup nativeBits "B_ALLOW_CONTROL" ∧
    lookup decFlagBits "F_no_validate_json" = lookup nativeBits "B_NO_VALIDATE_JSON" := by
  decide +kernel

/-- documented setter effects, by option NAME: (receiver, method, options it sets (true / no arg),
    options it clears (true / no arg), sets when false, clears when false) -/
def documentedSetters : List (String × String × List String × List String × List String × List String) := [
  ("Encoder", "SortKeys", ["SortMapKeys"], [], [], []),
  ("Encoder", "SetEscapeHTML", ["EscapeHTML"], [], [], ["EscapeHTML"]),
  ("Encoder", "SetValidateString", ["ValidateString"], [], [], ["ValidateString"]),
  ("Encoder", "SetNoValidateJSONMarshaler", ["NoValidateJSONMarshaler"], [], [], ["NoValidateJSONMarshaler"]),
  ("Encoder", "SetNoEncoderNewline", ["NoEncoderNewline"], [], [], ["NoEncoderNewline"]),
  ("Encoder", "SetCompactMarshaler", ["CompactMarshaler"], [], [], ["CompactMarshaler"]),
  ("Encoder", "SetNoQuoteTextMarshaler", ["NoQuoteTextMarshaler"], [], [], ["NoQuoteTextMarshaler"]),
  ("Decoder", "UseInt64", ["OptionUseInt64"], ["OptionUseNumber"], [], []),
  ("Decoder", "UseNumber", ["OptionUseNumber"], ["OptionUseInt64"], [], []),
  ("Decoder", "UseUnicodeErrors", ["OptionUseUnicodeErrors"], [], [], []),
  ("Decoder", "DisallowUnknownFields", ["OptionDisableUnknown"], [], [], []),
  ("Decoder", "CopyString", ["OptionCopyString"], [], [], []),
  ("Decoder", "ValidateString", ["OptionValidateString"], [], [], [])]

def maskOf (recv : String) (names : List String) : Option Int :=
  names.foldl (fun acc n => do
    let a ← acc
    let v ← lookup (if recv == "Encoder" then encOptions else decOptions) n
    pure (a + v)) (some 0)

/-- each setter changes exactly its own bit(s) and nothing else (UseInt64/UseNumber exclude each other) -/
theorem setters_exact : ((setters.map fun s => (s.1, s.2.1, [some (Int.ofNat s.2.2.2.1), some (Int.ofNat s.2.2.2.2.1),
      some (Int.ofNat s.2.2.2.2.2.1), some (Int.ofNat s.2.2.2.2.2.2)])) ==
    (documentedSetters.map fun d => (d.1, d.2.1, [maskOf d.1 d.2.2.1, maskOf d.1 d.2.2.2.1, maskOf d.1 d.2.2.2.2.1, maskOf d.1 d.2.2.2.2.2]))) = true := by
  decide +kernel

/-- the stock configurations are the documented ones -/
theorem stock_configs_exact : stockConfigs = [
    ("ConfigDefault", []),
    ("ConfigStd", ["EscapeHTML", "SortMapKeys", "CompactMarshaler", "CopyString", "ValidateString"]),
    ("ConfigFastest", ["NoValidateJSONMarshaler", "NoValidateJSONSkip"])] := by decide +kernel

/-- two different switches never share a bit of the same word, so no switch can have the effect of another -/
theorem wires_injective : (frozeWires.map fun w => (w.2.1, w.2.2.1)).Nodup := by decide +kernel

-- non-vacuity: the tables are not empty and contain the expected kind of entries
example : frozeWires.length = 17 ∧ configFields.length = 16 ∧ setters.length = 13 := by decide

open SonicSpec SonicSpec.Json SonicSpec.Opts
open SonicSpec.Str (htmlEscape correctWith)

/-! ## Config.Froze as a function: a switch moves exactly its own bits -/

/-- For EVERY Config `c` (not a sample), every switch `s` and every bit `b`: flipping `s` changes bit `b`
    of the encoder (decoder) options word exactly when `s` is the switch whose wire owns that bit. -/
theorem froze_pointwise (c s b : Nat) :
    ((froze (flipSwitch c s)).1.testBit b = ((froze c).1.testBit b ^^ (ownerIdx "encoderOpts" b == some s))) ∧
    ((froze (flipSwitch c s)).2.testBit b = ((froze c).2.testBit b ^^ (ownerIdx "decoderOpts" b == some s))) :=
  ⟨froze_pointwise_word "encoderOpts" (Or.inl rfl) c s b, froze_pointwise_word "decoderOpts" (Or.inr rfl) c s b⟩

/-- ... and the owner of every bit of a wire's mask is that wire's own Config field (so, with `froze_exact`
    and `froze_masks`, the bits a switch moves are the documented ones) -/
theorem owner_is_wire : Gen.frozeWires.all (fun w => (List.range 64).all fun b =>
    !(wMask w).testBit b || ownerIdx (wWord w) b == fieldIdx (wField w)) = true := by decide +kernel

/-- every field named by a wire is a field of Config (so `fieldIdx` never misses) -/
theorem wires_name_fields : Gen.frozeWires.all (fun w => (fieldIdx (wField w)).isSome) = true := by decide +kernel

/-! ## Encoder switches on the template model (`Opts.encode`) -/

/-- the two post-passes of `encoder.Encode` commute: HTML escaping then replacement of ill-formed UTF-8 by
    `\\ufffd` = replacement then escaping, on EVERY byte string -/
theorem htmlEscape_commutes_with_utf8_correction (s : Bytes) :
    correctWith replEsc (htmlEscape s) = htmlEscape (correctWith replEsc s) :=
  (html_correct_comm replEsc replEsc_ok s).symm

/-- EscapeHTML, under every setting of the other switches (ValidateString included): the output is
    `HTMLEscape` of the output without the switch, an error stays the same error -/
theorem escapeHTML_eq_htmlEscape (o : EncOpts) (segs : List Seg) :
    encode { o with html := true } segs =
      (match encode { o with html := false } segs with
       | .ok b => .ok (htmlEscape b)
       | .error e => .error e) := by
  have h : encPlain { o with html := true } segs = encPlain { o with html := false } segs :=
    encPlain_congr ⟨by rfl, by rfl, by rfl, by rfl, by rfl⟩ segs
  unfold encode
  rw [h]
  generalize encPlain { o with html := false } segs = r
  cases r with
  | error e => rfl
  | ok b =>
    cases hv : o.validate
    · simp [finish, hv]
    · simp [finish, hv, htmlEscape_commutes_with_utf8_correction]

/-- (the special case without the UTF-8 post-pass, kept under its first name) -/
theorem escapeHTML_eq_htmlEscape_of_plain (o : EncOpts) (segs : List Seg) (_hv : o.validate = false) :
    encode { o with html := true } segs =
      (match encode { o with html := false } segs with
       | .ok b => .ok (htmlEscape b)
       | .error e => .error e) := escapeHTML_eq_htmlEscape o segs

/-- EscapeHTML in general: `HTMLEscape` is applied to the plain output, before the UTF-8 post-pass -/
theorem escapeHTML_is_postpass (o : EncOpts) (segs : List Seg) :
    encode { o with html := true } segs =
      (match encPlain o segs with
       | .ok b => .ok (finish false o.validate (htmlEscape b))
       | .error e => .error e) := by
  have h : encPlain { o with html := true } segs = encPlain o segs :=
    encPlain_congr ⟨by rfl, by rfl, by rfl, by rfl, by rfl⟩ segs
  unfold encode
  rw [h]
  generalize encPlain o segs = r
  cases r with
  | error e => rfl
  | ok b => simp [finish]

def fillNil : Seg → Seg
  | .nilSlice => .raw [91, 93]
  | .nilMap => .raw [123, 125]
  | s => s

/-- NoNullSliceOrMap: same as encoding, without the switch, the value whose nil slices / nil maps are `[]` / `{}` -/
theorem noNullSliceOrMap_only_nil (o : EncOpts) (segs : List Seg) :
    encode { o with noNull := true } segs = encode { o with noNull := false } (segs.map fillNil) := by
  refine encode_map fillNil ?_ (by rfl) (by rfl) segs
  intro s
  cases s <;> simp [encSeg, fillNil]

/-- ... and nothing at all changes when there is no nil slice or map -/
theorem noNullSliceOrMap_id (o : EncOpts) (segs : List Seg) (h : ∀ s ∈ segs, s ≠ .nilSlice ∧ s ≠ .nilMap) :
    encode { o with noNull := true } segs = encode { o with noNull := false } segs := by
  have : encPlain { o with noNull := true } segs = encPlain { o with noNull := false } segs := by
    apply encPlain_id_of
    intro s hs
    have := h s hs
    cases s <;> simp_all [encSeg]
  simp only [encode, this]

def nanToNull : Seg → Seg
  | .nonFinite => .raw nullText
  | s => s

/-- EncodeNullForInfOrNan: same as encoding, without the switch, the value with `null` in place of NaN/Inf -/
theorem encodeNullForInfOrNan_only_errors (o : EncOpts) (segs : List Seg) :
    encode { o with nullNaN := true } segs = encode { o with nullNaN := false } (segs.map nanToNull) := by
  refine encode_map nanToNull ?_ (by rfl) (by rfl) segs
  intro s
  cases s <;> simp [encSeg, nanToNull]

/-- ... nothing changes when no float is NaN/Inf; and when one is, the call without the switch is an error -/
theorem encodeNullForInfOrNan_id (o : EncOpts) (segs : List Seg) (h : Seg.nonFinite ∉ segs) :
    encode { o with nullNaN := true } segs = encode { o with nullNaN := false } segs := by
  have : encPlain { o with nullNaN := true } segs = encPlain { o with nullNaN := false } segs := by
    apply encPlain_id_of
    intro s hs
    have : s ≠ .nonFinite := fun e => h (e ▸ hs)
    cases s <;> simp_all [encSeg]
  simp only [encode, this]

theorem nonFinite_is_error (o : EncOpts) (segs : List Seg) (h : Seg.nonFinite ∈ segs) (ho : o.nullNaN = false) :
    ∃ e, encode o segs = .error e := by
  have : ∃ e, encPlain o segs = .error e := by
    induction segs with
    | nil => cases h
    | cons s r ih =>
      simp only [encPlain]
      cases hs : encSeg o s with
      | error e => exact ⟨e, rfl⟩
      | ok b =>
        have hr : Seg.nonFinite ∈ r := by
          rcases List.mem_cons.mp h with h1 | h1
          · subst h1; simp [encSeg, ho] at hs
          · exact h1
        obtain ⟨e, he⟩ := ih hr
        exact ⟨e, by simp [he]⟩
  obtain ⟨e, he⟩ := this
  exact ⟨e, by simp [encode, he]⟩

def unquoteText : Seg → Seg
  | .text t => .raw t
  | s => s

/-- NoQuoteTextMarshaler: TextMarshaler texts are emitted as they are instead of quoted; nothing else -/
theorem noQuoteTextMarshaler_only_texts (o : EncOpts) (segs : List Seg) :
    encode { o with noQuote := true } segs = encode { o with noQuote := false } (segs.map unquoteText) := by
  refine encode_map unquoteText ?_ (by rfl) (by rfl) segs
  intro s
  cases s <;> simp [encSeg, unquoteText]

def compactJM : Seg → Seg
  | .jm r => match compactDoc r with
    | some c => .raw c
    | none => .jm r
  | s => s

/-- CompactMarshaler: well-formed json.Marshaler output is replaced by its compact form; ill-formed output is
    an error (also under NoValidateJSONMarshaler: compaction validates) -/
theorem compactMarshaler_only_marshalers (o : EncOpts) (segs : List Seg) :
    encode { o with compact := true } segs =
      encode { o with compact := false, noValidateJM := false } (segs.map compactJM) := by
  refine encode_map compactJM ?_ (by rfl) (by rfl) segs
  intro s
  cases s with
  | jm r =>
    simp only [encSeg, compactJM, compactDoc]
    cases h : parseDoc r <;> simp [h]
  | _ => simp [encSeg, compactJM]

def trustJM : Seg → Seg
  | .jm r => .raw r
  | s => s

/-- NoValidateJSONMarshaler (without CompactMarshaler): json.Marshaler output is copied unchecked; nothing else -/
theorem noValidateJSONMarshaler_only_validation (o : EncOpts) (segs : List Seg) (hc : o.compact = false) :
    encode { o with noValidateJM := true } segs = encode { o with noValidateJM := false } (segs.map trustJM) := by
  refine encode_map trustJM ?_ (by rfl) (by rfl) segs
  intro s
  cases s <;> simp [encSeg, trustJM, hc]

/-- ... and it changes nothing when every json.Marshaler returned well-formed JSON -/
theorem noValidateJSONMarshaler_id_of_valid (o : EncOpts) (segs : List Seg)
    (h : ∀ r, Seg.jm r ∈ segs → (parseDoc r).isSome) :
    encode { o with noValidateJM := true } segs = encode { o with noValidateJM := false } segs := by
  have : encPlain { o with noValidateJM := true } segs = encPlain { o with noValidateJM := false } segs := by
    apply encPlain_id_of
    intro s hs
    cases s with
    | jm r => have := h r hs; simp [encSeg, this]
    | _ => simp [encSeg]
  simp only [encode, this]

/-- NoEncoderNewline: Marshal is not affected at all; a stream encoder writes the same document without the
    final newline -/
theorem noEncoderNewline (o : EncOpts) (segs : List Seg) :
    encode { o with noNewline := true } segs = encode { o with noNewline := false } segs ∧
    (∀ b, encodeStream { o with noNewline := false } segs = .ok b →
        ∃ d, b = d ++ [10] ∧ encodeStream { o with noNewline := true } segs = .ok d ∧
             encode { o with noNewline := true } segs = .ok d) := by
  have hp : encPlain { o with noNewline := true } segs = encPlain { o with noNewline := false } segs :=
    encPlain_congr ⟨by rfl, by rfl, by rfl, by rfl, by rfl⟩ segs
  refine ⟨by simp only [encode, hp], ?_⟩
  intro b hb
  simp only [encodeStream, encode, hp] at hb ⊢
  cases h : encPlain { o with noNewline := false } segs with
  | error e => simp [h] at hb
  | ok p =>
    simp only [h, streamOut] at hb ⊢
    injection hb with hb
    exact ⟨_, by simpa using hb.symm, by simp, rfl⟩


/-! ## SortMapKeys on trees (`Opts.sortKeysP`; `sortKeys` = every object is a map) -/

/-- SortMapKeys only reorders: an object becomes an object whose members are a permutation of the
    (recursively treated) members, keys kept; arrays keep length and order; scalars are untouched -/
theorem sortMapKeys_perm_only (kp : Bytes → Bool) :
    (∀ kvs, ∃ out, sortKeysP kp (.obj kvs) = .obj out ∧
        out.Perm (kvs.map fun kv => (kv.1, sortKeysP kp kv.2))) ∧
    (∀ xs, sortKeysP kp (.arr xs) = .arr (xs.map (sortKeysP kp))) ∧
    (∀ t, (∀ xs, t ≠ .arr xs) → (∀ kvs, t ≠ .obj kvs) → sortKeysP kp t = t) := by
  refine ⟨?_, ?_, ?_⟩
  · intro kvs
    simp only [sortKeysP]
    split
    · exact ⟨_, rfl, by rw [sortMembers_eq_map]⟩
    · exact ⟨_, rfl, by rw [← sortMembers_eq_map]; exact isort_perm _⟩
  · intro xs; simp only [sortKeysP, sortElems_eq_map]
  · intro t h1 h2
    cases t with
    | arr xs => exact absurd rfl (h1 xs)
    | obj kvs => exact absurd rfl (h2 kvs)
    | _ => rfl

/-- ... into byte order: in the result every map object (every object, for `sortKeys`) has its members in
    bytewise order of the decoded keys, at every depth -/
theorem sortMapKeys_sorted (kp : Bytes → Bool) (t : JVal) : allSorted kp (sortKeysP kp t) := sortKeysP_sorted kp t

/-- the order is the bytewise order of Go strings: total and transitive (so "sorted" determines the key sequence) -/
theorem byte_order_total_preorder :
    (∀ a b : Bytes, lexLe a b = true ∨ lexLe b a = true) ∧
    (∀ a b c : Bytes, lexLe a b = true → lexLe b c = true → lexLe a c = true) := ⟨lexLe_total, lexLe_trans⟩

/-- idempotent: sorting a sorted output changes nothing -/
theorem sortMapKeys_idempotent (kp : Bytes → Bool) (t : JVal) : sortKeysP kp (sortKeysP kp t) = sortKeysP kp t :=
  sortKeysP_idem kp t

/-- an object whose members already are in key order is left exactly as it is (stable sort) -/
theorem sortMapKeys_sorted_fixed (l : List Member) (h : Sorted l) : isort l = l := isort_of_sorted l h

/-! ## UseNumber / UseInt64: only numbers under interface{} -/

/-- decoding under a number mode = decoding under the default mode, then retagging the number leaves;
    `retag` commutes with arrays and objects and does not look at any other leaf -/
theorem useNumber_useInt64_only_numbers (m : NumMode) :
    (∀ t, toAny m t = retag m (toAny .float t)) ∧
    (∀ xs, retag m (.arr xs) = .arr (retagL m xs)) ∧
    (∀ kvs, retag m (.obj kvs) = .obj (retagM m kvs)) ∧
    (∀ s, retag m (.str s) = .str s) ∧ (∀ b, retag m (.bool b) = .bool b) ∧ retag m .null = .null :=
  ⟨fun t => (retag_toAny m t).symm, fun _ => rfl, fun _ => rfl, fun _ => rfl, fun _ => rfl, rfl⟩

/-- UseNumber keeps the literal; UseInt64 yields an int64 exactly for integer literals in range, a float64 otherwise -/
theorem number_modes_on_literals (lit : Bytes) :
    anyNum .number lit = .num lit ∧ anyNum .float lit = .f64 lit ∧
    (∀ v, intLit? lit = some v → fitsInt64 v = true → anyNum .int64 lit = .i64 v) ∧
    (intLit? lit = none → anyNum .int64 lit = .f64 lit) := by
  refine ⟨rfl, rfl, ?_, ?_⟩
  · intro v h1 h2; simp [anyNum, h1, h2]
  · intro h; simp [anyNum, h]

/-! ## CaseSensitive / field matching -/

/-- a key that selects a field under CaseSensitive selects the same field without it; a key equal to a
    field name selects that field under both settings (exact matches are never affected) -/
theorem caseSensitive_subset_caseInsensitive (fs : List Bytes) (k : Bytes) :
    (∀ i, matchField true fs k = some i → matchField false fs k = some i) ∧
    (∀ i, findName (fun f => f == k) fs 0 = some i → ∀ cs, matchField cs fs k = some i) :=
  ⟨matchField_caseSensitive_subset fs k, matchField_exact_unaffected fs k⟩

/-! ## Entry points: the setter methods reach the frozen Config -/

/-- For EVERY Config `c`: a fresh `encoder.Encoder` taken through the documented setter calls (each setter with
    an argument called with the field's value, `SortKeys()` called when SortMapKeys is on) holds exactly the bits
    `Froze` gives to the switches that have a setter; the same for a fresh `decoder.Decoder`
    (`UseInt64()`, `UseNumber()`, ... called for the switches that are on) - unless UseInt64 and UseNumber are both
    on: the setters resolve that (last call wins) while `Froze` sets both bits and `SetOptions` panics.
    General proof: closed form of a sequence of `(w | set) &^ clear` steps (`foldl_stepW_testBit`), the tables
    supply only the finite side conditions `enc_table_ok` / `dec_table_ok`. -/
theorem setters_reach_froze (c : Nat) :
    runSteps c (resolve "Encoder" encSetterPairs) = (froze c).1 &&& setterMask (resolve "Encoder" encSetterPairs) ∧
    (¬(fieldOn c "UseInt64" = true ∧ fieldOn c "UseNumber" = true) →
      runSteps c (resolve "Decoder" decSetterPairs) = (froze c).2 &&& setterMask (resolve "Decoder" decSetterPairs)) :=
  ⟨runSteps_eq_froze "encoderOpts" (Or.inl rfl) _ enc_table_ok.1 c (fun h => absurd h enc_no_int64),
   fun H => runSteps_eq_froze "decoderOpts" (Or.inr rfl) _ dec_table_ok.1 c (fun _ => H)⟩

/-- every documented setter method exists in the regenerated table, and the bits that have a setter are the
    documented ones (all encoder switches but NoNullSliceOrMap / EncodeNullForInfOrNan, all decoder switches but
    NoValidateJSONSkip / CaseSensitive) -/
theorem setter_coverage :
    (resolve "Encoder" encSetterPairs).length = 7 ∧ (resolve "Decoder" decSetterPairs).length = 6 ∧
    some (Int.ofNat (setterMask (resolve "Encoder" encSetterPairs))) = maskOf "Encoder" ["SortMapKeys", "EscapeHTML", "ValidateString",
      "NoValidateJSONMarshaler", "NoEncoderNewline", "CompactMarshaler", "NoQuoteTextMarshaler"] ∧
    some (Int.ofNat (setterMask (resolve "Decoder" decSetterPairs))) = maskOf "Decoder" ["OptionUseInt64", "OptionUseNumber",
      "OptionUseUnicodeErrors", "OptionDisableUnknown", "OptionCopyString", "OptionValidateString"] := by decide +kernel

/-- a call of a setter through the model function the correspondence uses (`applySetter`, checked against the
    real methods by `setseq`) is one such step -/
theorem applySetter_is_step (recv meth : String) (arg : Bool) (w : Nat) (s : Setter)
    (h : Gen.setters.find? (fun s => s.1 == recv && s.2.1 == meth) = some s) :
    applySetter recv meth arg w =
      some (stepW (if arg then (s.2.2.2.1, s.2.2.2.2.1) else (s.2.2.2.2.2.1, s.2.2.2.2.2.2)) w) :=
  applySetter_eq_stepW recv meth arg w s h

/-! ## CopyString / NoValidateJSONSkip: no result changes on valid data -/

/-- NoValidateJSONSkip: whenever skipping an array / object WITH validation succeeds (the value is well-formed),
    skipping it WITHOUT validation stops at the same place - so nothing downstream can differ -/
theorem noValidateJSONSkip_id_on_valid (s r : Bytes) (h : skipContainer false s = some r) : skipContainer true s = some r := by
  unfold skipContainer at h ⊢
  cases s with
  | nil => simp at h
  | cons c r0 =>
    simp only at h ⊢
    by_cases hc : (c == 91 || c == 123) = true
    · simp only [hc, if_true, Bool.false_eq_true, if_false, Option.map_eq_some_iff] at h ⊢
      obtain ⟨⟨v, r'⟩, hp, hr⟩ := h
      simp only at hr; subst hr
      have hc' : c = 91 ∨ c = 123 := by simpa using hc
      exact skipContainer_agrees _ c r0 v r' hc' hp
    · simp [hc] at h

/-- CopyString is not an input of any result: decoding is the same function with and without it -/
theorem copyString_changes_no_result (o : DecOpts) (b : Bool) (doc : Bytes) :
    decodeAny { o with copyString := b } doc = decodeAny o doc := rfl

-- non-vacuity of the spec-level definitions (byte lists: `<a>&` U+2028; `{"b":null,"a":[{"2":null,"1":null}]}` ...)
example : htmlEscape [60, 97, 62, 38, 226, 128, 168] = [92, 117, 48, 48, 51, 99, 97, 92, 117, 48, 48, 51, 101, 92, 117, 48, 48, 50, 54, 92, 117, 50, 48, 50, 56] := by decide
example : render (sortKeys (.obj [([98], .null), ([97], .arr [.obj [([50], .null), ([49], .null)]])])) = [123, 34, 97, 34, 58, 91, 123, 34, 49, 34, 58, 110, 117, 108, 108, 44, 34, 50, 34, 58, 110, 117, 108, 108, 125, 93, 44, 34, 98, 34, 58, 110, 117, 108, 108, 125] := by decide
example : encode { nullNaN := true } [.raw [91], .nonFinite, .raw [93]] = .ok [91, 110, 117, 108, 108, 93] := rfl
example : encode {} [.raw [91], .nonFinite, .raw [93]] = .error .unsupportedValue := rfl
example : matchField false [[97, 98], [65, 66]] [97, 66] = some 0 ∧ matchField true [[97, 98], [65, 66]] [97, 66] = none ∧
    matchField true [[97, 98], [65, 66]] [65, 66] = some 1 := by decide
example : anyNum .int64 [57, 50, 50, 51, 51, 55, 50, 48, 51, 54, 56, 53, 52, 55, 55, 53, 56, 48, 56] = .f64 [57, 50, 50, 51, 51, 55, 50, 48, 51, 54, 56, 53, 52, 55, 55, 53, 56, 48, 56] ∧ anyNum .int64 [45, 48] = .i64 0 ∧ anyNum .int64 [49, 46, 48] = .f64 [49, 46, 48] := by decide
-- `[1,"]"]x`: both skippers stop before `x`; `[1 2]x`: only the non-validating one accepts
example : skipContainer false [91, 49, 44, 34, 93, 34, 93, 120] = some [120] ∧ skipContainer true [91, 49, 44, 34, 93, 34, 93, 120] = some [120] ∧
    skipContainer false [91, 49, 32, 50, 93, 120] = none ∧ skipContainer true [91, 49, 32, 50, 93, 120] = some [120] := by decide
-- UseInt64 + UseNumber (fields 5 and 6): the setters leave UseNumber alone on, Froze sets both bits
example : runSteps 96 (resolve "Decoder" decSetterPairs) = (froze 64).2 ∧ (froze 96).2 ≠ (froze 64).2 ∧
    runSteps 32 (resolve "Decoder" decSetterPairs) = (froze 32).2 ∧
    runSteps 1027 (resolve "Encoder" encSetterPairs) = (froze 1027).1 := by decide
example : (froze 0 = (0, 0)) ∧ (froze (flipSwitch 0 10)).1 = 32 ∧ (froze (flipSwitch 0 10)).2 = 32 := by decide

end SonicSpec.Props.C18
