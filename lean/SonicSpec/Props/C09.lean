/-
  C09 - codec results never depend on history: cache state, compile order, Pretouch.
  Property theorems only (helper lemmas in Proofs/ConcOrder.lean, Proofs/ConcLoad.lean).

  Carried by the model: the program map for every hash function and insertion order; the name-based
  result mapping of `loader.Load`; the cache as a history machine keyed by type.
  Two statements of the property are FALSE on the faithful model; their negations are proved on concrete
  witnesses (replayed on the real code by the `hist` correspondence, DESIGN §8 #7, #8/#14) and the
  provable parts are stated as `…_partial` with the missing hypothesis explicit.
  Not modelled here (tied by correspondence only): the compiler itself - that programs compiled with
  different inline / recursion depths behave alike (`inline_depth_irrelevant` of the design needs the
  encoder IR core E) is checked by the `hist` preludes against encoding/json.
-/
import SonicSpec.Proofs.ConcOrder
import SonicSpec.Proofs.ConcLoad
namespace SonicSpec.Props.C09
open SonicSpec.Conc SonicSpec.Conc.PMap

section Table
variable {κ γ : Type} [DecidableEq κ]

/-- whatever the hash function, the initial capacity, the insertion order and the number of rehashes on
    the way: a table filled with pairwise different keys answers exactly like the association list -/
theorem lookup_order_independent (hash : κ → Nat) (e : Nat) (kvs : List (κ × γ))
    (hd : (kvs.map Prod.fst).Nodup) (k : κ) :
    get hash (kvs.foldl (fun m kv => add hash m kv.1 kv.2) (empty (2 ^ e))) k = assoc k kvs :=
  get_addAll hash e kvs hd k

/-- ... hence two histories that cached the same set of types in different orders (and from different
    initial capacities) serve every lookup identically -/
theorem lookup_perm_invariant (hash : κ → Nat) (e e' : Nat) (kvs kvs' : List (κ × γ))
    (hp : kvs.Perm kvs') (hd : (kvs.map Prod.fst).Nodup) (k : κ) :
    get hash (kvs.foldl (fun m kv => add hash m kv.1 kv.2) (empty (2 ^ e))) k =
    get hash (kvs'.foldl (fun m kv => add hash m kv.1 kv.2) (empty (2 ^ e'))) k := by
  have hd' : (kvs'.map Prod.fst).Nodup := ((hp.map Prod.fst).nodup_iff).1 hd
  rw [lookup_order_independent hash e kvs hd k, lookup_order_independent hash e' kvs' hd' k]
  cases ha : assoc k kvs with
  | none =>
    symm
    rw [assoc_none_iff] at ha ⊢
    intro v hv
    exact ha v ((hp.mem_iff).2 hv)
  | some v =>
    have hm := (hp.mem_iff).1 (assoc_some_mem k v kvs ha)
    cases ha' : assoc k kvs' with
    | none => exact absurd hm ((assoc_none_iff k kvs').1 ha' v)
    | some v' =>
      -- both lists bind k; keys are pairwise different, so the bindings coincide
      have hm' := (hp.mem_iff).2 (assoc_some_mem k v' kvs' ha')
      have hm0 := assoc_some_mem k v kvs ha
      have : v = v' := by
        clear ha ha' hm hd' hp
        induction kvs with
        | nil => cases hm0
        | cons a l ih =>
          simp only [List.map_cons, List.nodup_cons] at hd
          rcases List.mem_cons.1 hm0 with h0 | h0 <;> rcases List.mem_cons.1 hm' with h1 | h1
          · rw [← h0] at h1
            exact ((Prod.mk.inj h1).2).symm
          · exfalso; apply hd.1; rw [← h0]; exact List.mem_map.2 ⟨(k, v'), h1, rfl⟩
          · exfalso; apply hd.1; rw [← h1]; exact List.mem_map.2 ⟨(k, v), h0, rfl⟩
          · exact ih hd.2 h1 h0
      rw [this]

/-- how many types are already cached is irrelevant: caching further (different) types - any number,
    forcing any number of rehashes - never changes what an already cached type is served with -/
theorem cache_growth_irrelevant (hash : κ → Nat) (m : PMap κ γ) (h : Inv hash m) (more : List (κ × γ))
    (hfresh : ∀ kv ∈ more, get hash m kv.1 = none) (hd : (more.map Prod.fst).Nodup)
    (k : κ) (v : γ) (hk : get hash m k = some v) :
    get hash (more.foldl (fun m kv => add hash m kv.1 kv.2) m) k = some v := by
  obtain ⟨hi, _, hmem⟩ := addAll_spec hash more m h
    (fun kv hkv => (get_none_iff hash m h.1 kv.1).1 (hfresh kv hkv)) hd
  show get hash (addAll hash m more) k = some v
  rw [get_iff hash _ hi.1]
  exact (hmem k v).2 (Or.inl ((get_iff hash m h.1 k v).1 hk))

end Table

/-! ### loader.Load maps results back by NAME -/

/-- if the function names of one batch are pairwise different, `Load` returns for item `i` the entry of
    item `i` - whatever permutation `sort.Slice` leaves `funcs` in -/
theorem load_maps_back (text : Nat) (funcs funcs' : List Func) (hp : funcs'.Perm funcs)
    (hn : (funcs.map (·.name)).Nodup) (i : Nat) (hi : i < funcs.length) :
    (mapBack text (funcs.map (·.name)) funcs')[i]? = some (some (text + funcs[i].entryOff)) := by
  rw [mapBack_perm text funcs funcs' hp hn]
  simp [hi]

/-- the same for the model's own `load` (ids taken before the sort, mapping after it) -/
theorem load_maps_back_sorted (text : Nat) (funcs : List Func) (hn : (funcs.map (·.name)).Nodup) :
    load text funcs = funcs.map (fun f => some (text + f.entryOff)) :=
  mapBack_perm text funcs (sortByEntry funcs) (sortByEntry_perm funcs) hn

/-- the hypothesis is forced (DESIGN §8 #7): two items with one name - two distinct Go types whose
    `String()` coincide, e.g. `pkg.T` from two import paths - BOTH receive the entry of the last one -/
theorem load_same_name_shares_entry :
    load 4096 [⟨"encode_pkg.T", 0⟩, ⟨"encode_pkg.T", 64⟩] = [some (4096 + 64), some (4096 + 64)] := by
  decide

/-- `PretouchMany`: with pairwise different `String()`s every type of the batch is cached with the
    address of ITS OWN machine code -/
theorem pretouch_batch_own_code (pfx : String) (text : Nat) (tys : List (Ty × Nat))
    (hn : (tys.map fun p => pfx ++ p.1.str).Nodup) :
    pretouchBatch pfx text tys =
      (tys.map (·.1)).zip ((layout (tys.map fun (t, sz) => { name := pfx ++ t.str, size := sz }) 0).map
        (fun f => some (text + f.entryOff))) := by
  unfold pretouchBatch loadMany
  rw [load_maps_back_sorted]
  rw [layout_names]
  simpa [List.map_map, Function.comp_def] using hn

/-- ... and the negation when two distinct types print identically: type 1 is served by the code
    compiled for type 2 ("every distinct Go type is always served by a codec compiled for exactly that
    type, including distinct types that print identically" fails on the batch path) -/
theorem pretouch_batch_same_name_wrong_code :
    pretouchBatch "encode_" 4096 [(⟨1, "pkg.T"⟩, 64), (⟨2, "pkg.T"⟩, 32)]
      = [(⟨1, "pkg.T"⟩, some (4096 + 64)), (⟨2, "pkg.T"⟩, some (4096 + 64))] := by
  decide

/-! ### history independence of the cache keyed by type -/

section Hist
variable {τ χ π : Type} [DecidableEq τ]

/-- what the cache really guarantees: the request `(t, x)` is served by the program compiled for the
    context of the FIRST request for `t` in the process -/
theorem served_by_first_use (compile : τ → χ → π) (h : List (τ × χ)) (t : τ) (x : χ) :
    servedAfter compile h (t, x) = compile t ((firstCtx t h).getD x) :=
  servedAfter_eq compile h t x

/-- `history_independence` - "the program that serves a request does not depend on the requests made
    before" - is FALSE for a cache keyed by type when the program depends on (type, context):
    context = pointer-value-ness, `compile 0 true ≠ compile 0 false`, fresh process vs one earlier
    non-addressable use (DESIGN §8 #8, #14; replayed by the `hist` stream, tag `ptr_recv_marshaler_leaf`) -/
theorem history_independence_fails :
    ¬ ∀ (compile : Nat → Bool → Nat) (h₁ h₂ : List (Nat × Bool)) (r : Nat × Bool),
        servedAfter compile h₁ r = servedAfter compile h₂ r := by
  intro h
  have := h (fun _ pv => if pv then 1 else 0) [] [(0, false)] (0, true)
  revert this
  decide

/-- the provable part: histories cannot be told apart when the compiled program does not depend on
    the context (all decoder programs; every encoder type without a pointer-receiver marshaler below
    it), or when the first use of the type has the same context in both histories -/
theorem history_independence_partial (compile : τ → χ → π) (h₁ h₂ : List (τ × χ)) (t : τ) (x : χ)
    (hyp : (∀ c c', compile t c = compile t c') ∨
           (firstCtx t h₁).getD x = (firstCtx t h₂).getD x) :
    servedAfter compile h₁ (t, x) = servedAfter compile h₂ (t, x) := by
  rw [served_by_first_use, served_by_first_use]
  rcases hyp with hyp | hyp
  · exact hyp _ _
  · rw [hyp]

/-- in particular, with a context-free compiler every request is served by the program compiled for
    exactly its own type, after every history -/
theorem history_independence_ctxfree (compile : τ → χ → π) (hc : ∀ t c c', compile t c = compile t c')
    (h : List (τ × χ)) (t : τ) (x : χ) : servedAfter compile h (t, x) = compile t x := by
  rw [served_by_first_use]
  exact hc t _ _

end Hist

/-! ### non-vacuity -/

/-- same four types cached in two orders into tables of different initial capacity, all keys colliding -/
example :
    let f := fun (kvs : List (Nat × Nat)) (e : Nat) => kvs.foldl (fun m kv => add (fun _ => 3) m kv.1 kv.2) (empty (2 ^ e))
    [1, 2, 3, 4, 5].map (get (fun _ => 3) (f [(1, 10), (2, 20), (3, 30), (4, 40)] 0)) =
    [1, 2, 3, 4, 5].map (get (fun _ => 3) (f [(4, 40), (2, 20), (1, 10), (3, 30)] 2)) := by
  decide

/-- three differently named items, given in an order that the sort changes: mapped back correctly -/
example : load 100 [⟨"c", 8⟩, ⟨"a", 0⟩, ⟨"b", 4⟩] = [some 108, some 100, some 104] := by decide

end SonicSpec.Props.C09
