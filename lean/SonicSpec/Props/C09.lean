/-
  C09 - codec results never depend on history: cache state, compile order, Pretouch.
  Property theorems only (helper lemmas in Proofs/ConcOrder.lean, Proofs/ConcLoad.lean).

  Carried by the model: the program map for every hash function and insertion order; the POSITION-based
  result mapping of `loader.Load` and of the pretouch pipelines (parallel slices); the cache as a history
  machine keyed by the whole request (type, pv).  On this model - the code as it is now - the statements
  hold at full strength (`load_maps_back` without a hypothesis on names, `history_independence`).
  The `PreFix.*` theorems document the two defects that were repaired (DESIGN §8 #7, #8/#14; commits
  9e7dce3, e042f54): the old models with their negation witnesses, so that a return to those shapes has
  its failing instance on record; the source-shape check of vlib/props/C09.py tells which model applies.
  Not modelled here (tied by correspondence only): the compiler itself - that programs compiled with
  different inline / recursion depths behave alike (`inline_depth_irrelevant` of the design needs the
  encoder IR core E) is checked by the `phist` preludes against encoding/json.
-/
import SonicSpec.Proofs.ConcOrder
import SonicSpec.Proofs.ConcLoad
import SonicSpec.Proofs.ConcOptdec
namespace SonicSpec.Props.C09
open SonicSpec.Conc SonicSpec.Conc.PMap

section Table
variable {κ γ : Type} [DecidableEq κ]

/-- whatever the hash function, the initial capacity, the insertion order and the number of rehashes on
    the way: a table filled with pairwise different keys answers exactly like the association list -/
theorem lookup_order_independent (hash : κ → Nat) (e : Nat) (kvs : List (κ × γ))
    (hd : (kvs.map Prod.fst).Nodup) (k : κ) :
    get hash (kvs.foldl (fun m kv => add hash m kv.1 kv.2) (empty (2 ^ e))) k = assoc k kvs :=
  get_addAll hash e kvs hd k

/-- ... hence two histories that cached the same set of types in different orders (and from different
    initial capacities) serve every lookup identically -/
theorem lookup_perm_invariant (hash : κ → Nat) (e e' : Nat) (kvs kvs' : List (κ × γ))
    (hp : kvs.Perm kvs') (hd : (kvs.map Prod.fst).Nodup) (k : κ) :
    get hash (kvs.foldl (fun m kv => add hash m kv.1 kv.2) (empty (2 ^ e))) k =
    get hash (kvs'.foldl (fun m kv => add hash m kv.1 kv.2) (empty (2 ^ e'))) k := by
  have hd' : (kvs'.map Prod.fst).Nodup := ((hp.map Prod.fst).nodup_iff).1 hd
  rw [lookup_order_independent hash e kvs hd k, lookup_order_independent hash e' kvs' hd' k]
  cases ha : assoc k kvs with
  | none =>
    symm
    rw [assoc_none_iff] at ha ⊢
    intro v hv
    exact ha v ((hp.mem_iff).2 hv)
  | some v =>
    have hm := (hp.mem_iff).1 (assoc_some_mem k v kvs ha)
    cases ha' : assoc k kvs' with
    | none => exact absurd hm ((assoc_none_iff k kvs').1 ha' v)
    | some v' =>
      -- both lists bind k; keys are pairwise different, so the bindings coincide
      have hm' := (hp.mem_iff).2 (assoc_some_mem k v' kvs' ha')
      have hm0 := assoc_some_mem k v kvs ha
      have : v = v' := by
        clear ha ha' hm hd' hp
        induction kvs with
        | nil => cases hm0
        | cons a l ih =>
          simp only [List.map_cons, List.nodup_cons] at hd
          rcases List.mem_cons.1 hm0 with h0 | h0 <;> rcases List.mem_cons.1 hm' with h1 | h1
          · rw [← h0] at h1
            exact ((Prod.mk.inj h1).2).symm
          · exfalso; apply hd.1; rw [← h0]; exact List.mem_map.2 ⟨(k, v'), h1, rfl⟩
          · exfalso; apply hd.1; rw [← h1]; exact List.mem_map.2 ⟨(k, v), h0, rfl⟩
          · exact ih hd.2 h1 h0
      rw [this]

/-- how many types are already cached is irrelevant: caching further (different) types - any number,
    forcing any number of rehashes - never changes what an already cached type is served with -/
theorem cache_growth_irrelevant (hash : κ → Nat) (m : PMap κ γ) (h : Inv hash m) (more : List (κ × γ))
    (hfresh : ∀ kv ∈ more, get hash m kv.1 = none) (hd : (more.map Prod.fst).Nodup)
    (k : κ) (v : γ) (hk : get hash m k = some v) :
    get hash (more.foldl (fun m kv => add hash m kv.1 kv.2) m) k = some v := by
  obtain ⟨hi, _, hmem⟩ := addAll_spec hash more m h
    (fun kv hkv => (get_none_iff hash m h.1 kv.1).1 (hfresh kv hkv)) hd
  show get hash (addAll hash m more) k = some v
  rw [get_iff hash _ hi.1]
  exact (hmem k v).2 (Or.inl ((get_iff hash m h.1 k v).1 hk))

end Table

/-! ### loader.Load maps results back by POSITION (code as it is now, fix 9e7dce3) -/

/-- `Load` returns for item `i` the entry of item `i` - for EVERY content the sort may leave in `funcs`
    and with NO hypothesis on the names (two items may carry the same name) -/
theorem load_maps_back (text : Nat) (funcs sorted : List Func) (i : Nat) (hi : i < funcs.length) :
    (loadWith text funcs sorted)[i]? = some (text + funcs[i].entryOff) := by
  simp [loadWith, hi]

/-- the same for the model's own `load` (offsets taken before the sort) -/
theorem load_maps_back_sorted (text : Nat) (funcs : List Func) :
    load text funcs = funcs.map (fun f => text + f.entryOff) := by
  simp [load, loadWith, List.map_map, Function.comp_def]

/-- `PretouchMany`: whatever order the map iteration yields and whatever the types print as, every type
    of the batch is cached with the address of ITS OWN machine code (offset = total size of the items
    before it) - "every distinct Go type is served by a codec compiled for exactly that type, including
    distinct types that print identically" on the batch path -/
theorem pretouch_batch_own_code (pfx : String) (text : Nat) (tys : List (Ty × Nat)) :
    pretouchBatch pfx text tys =
      (tys.map (·.1)).zip ((offsets (tys.map (·.2)) 0).map (fun off => text + off)) := by
  unfold pretouchBatch loadMany
  simp only [load_maps_back_sorted]
  rw [layout_entries]
  simp [List.map_map, Function.comp_def]

/-- concrete instance: two distinct types that print identically get two different codes -/
theorem pretouch_batch_same_name_own_code :
    pretouchBatch "encode_" 4096 [(⟨1, "pkg.T"⟩, 64), (⟨2, "pkg.T"⟩, 32)]
      = [(⟨1, "pkg.T"⟩, 4096), (⟨2, "pkg.T"⟩, 4096 + 64)] := by
  decide

/-! ### regression documentation: the loader that matched results by NAME (before 9e7dce3), and any
    pipeline that remembers batch positions under the function name -/

/-- with pairwise different names the by-name mapping was right, whatever permutation the sort left -/
theorem PreFix.load_maps_back_partial (text : Nat) (funcs funcs' : List Func) (hp : funcs'.Perm funcs)
    (hn : (funcs.map (·.name)).Nodup) (i : Nat) (hi : i < funcs.length) :
    (PreFix.mapBack text (funcs.map (·.name)) funcs')[i]? = some (some (text + funcs[i].entryOff)) := by
  rw [mapBack_perm text funcs funcs' hp hn]
  simp [hi]

/-- the witness: if results are matched by name again, two items with one name - two distinct Go types
    whose `String()` coincide - BOTH receive the entry of the last one -/
theorem PreFix.load_same_name_shares_entry :
    PreFix.load 4096 [⟨"encode_pkg.T", 0⟩, ⟨"encode_pkg.T", 64⟩] = [some (4096 + 64), some (4096 + 64)] := by
  decide

/-- ... so type 1 is served by the code compiled for type 2 -/
theorem PreFix.pretouch_batch_same_name_wrong_code :
    PreFix.pretouchBatch "encode_" 4096 [(⟨1, "pkg.T"⟩, 64), (⟨2, "pkg.T"⟩, 32)]
      = [(⟨1, "pkg.T"⟩, some (4096 + 64)), (⟨2, "pkg.T"⟩, some (4096 + 64))] := by
  decide

/-! ### history independence of the cache keyed by the whole request (type, pv) (fix e042f54) -/

section Hist
variable {τ χ π : Type} [DecidableEq τ] [DecidableEq χ]

/-- FULL history independence: whatever was requested before - any types, any contexts, in any order,
    any number of times - a request is served by the program compiled for exactly its own (type, context),
    i.e. by what a fresh process serves it with -/
theorem history_independence (compile : τ → χ → π) (h₁ h₂ : List (τ × χ)) (r : τ × χ) :
    servedAfter compile h₁ r = servedAfter compile h₂ r := by
  rw [servedAfter_eq, servedAfter_eq]

theorem served_by_own_program (compile : τ → χ → π) (h : List (τ × χ)) (r : τ × χ) :
    servedAfter compile h r = compile r.1 r.2 ∧ servedAfter compile [] r = compile r.1 r.2 :=
  ⟨servedAfter_eq compile h r, servedAfter_eq compile [] r⟩

end Hist

/-! ### regression documentation: the cache keyed by type only (before e042f54) -/

section HistPre
variable {τ χ π : Type} [DecidableEq τ]

/-- what the type-keyed cache guaranteed: the request `(t, x)` is served by the program compiled for
    the context of the FIRST request for `t` in the process -/
theorem PreFix.served_by_first_use (compile : τ → χ → π) (h : List (τ × χ)) (t : τ) (x : χ) :
    PreFix.servedAfter compile h (t, x) = compile t ((PreFix.firstCtx t h).getD x) :=
  PreFix.servedAfter_eq compile h t x

/-- the witness: with a cache keyed by type while the program depends on (type, pointer-value-ness),
    a fresh process and a process that used the type once non-addressably serve different programs -/
theorem PreFix.history_independence_fails :
    ¬ ∀ (compile : Nat → Bool → Nat) (h₁ h₂ : List (Nat × Bool)) (r : Nat × Bool),
        PreFix.servedAfter compile h₁ r = PreFix.servedAfter compile h₂ r := by
  intro h
  have := h (fun _ pv => if pv then 1 else 0) [] [(0, false)] (0, true)
  revert this
  decide

/-- the part that held before the fix: context-free compilers, or equal first contexts -/
theorem PreFix.history_independence_partial (compile : τ → χ → π) (h₁ h₂ : List (τ × χ)) (t : τ) (x : χ)
    (hyp : (∀ c c', compile t c = compile t c') ∨
           (PreFix.firstCtx t h₁).getD x = (PreFix.firstCtx t h₂).getD x) :
    PreFix.servedAfter compile h₁ (t, x) = PreFix.servedAfter compile h₂ (t, x) := by
  rw [PreFix.served_by_first_use, PreFix.served_by_first_use]
  rcases hyp with hyp | hyp
  · exact hyp _ _
  · rw [hyp]

end HistPre

/-! ### the alternative decoder's compiler bookkeeping (depth / counts / namedPtr) and its Pretouch rounds -/

section Optdec
open SonicSpec.Conc.Optdec

/-- the decoder cached for a type by a Pretouch round does not depend on the other members of the round nor
    on the order the map iteration visits them: every member that was not cached yet gets exactly the decoder
    a fresh compiler builds for it (`pretouchType` allocates `newCompiler()` per type, decoder.go:137) -/
theorem optdec_pretouch_round_independent (maxInline : Nat) (cache : List (OTy × ODec)) (ts : List OTy) (t : OTy)
    (hc : lookup t cache = none) (ht : t ∈ ts) :
    lookup t (pretouchRound maxInline cache ts) = some (compileFresh maxInline t) := by
  rw [lookup_pretouchRound, hc]
  simp [ht]

/-- ... and over all rounds of `pretouchRec` (whatever types the compilers entered, `subs`): every decoder in the
    cache afterwards was there before or is the fresh-compiler decoder of its own type -/
theorem optdec_pretouch_rec_independent (maxInline : Nat) (subs : OTy → List OTy) (rounds : Nat)
    (cache : List (OTy × ODec)) (ts : List OTy) (t : OTy) (d : ODec)
    (h : lookup t (pretouchRec maxInline subs rounds cache ts) = some d) :
    lookup t cache = some d ∨ d = compileFresh maxInline t :=
  lookup_pretouchRec maxInline subs t d rounds cache ts h

/-- the counter-model (one compiler, hence one `counts`, shared by the members of a round): a struct with
    >= 50 fields compiled after another member is cached as a decoder that DEFERS TO ITSELF (endless
    recursion at decode time), and whether that happens depends on the iteration order -/
theorem Shared.pretouch_round_depends_on_members :
    let wide := OTy.str 1 false 52 (.fcons .prim .fnil)
    lookup wide (Shared.pretouchRound 3 [] [.seq .prim, wide]) = some (.defer wide) ∧
    lookup wide (Shared.pretouchRound 3 [] [wide, .seq .prim]) = some (compileFresh 3 wide) ∧
    compileFresh 3 wide ≠ .defer wide := by
  decide

/-- issue 379 rule, code as it is (namedPtr test BEFORE the depth/width test): the element struct of a defined
    pointer type is ALWAYS compiled in place - never deferred to the cached decoder of the element type (which
    would honour its pointer-receiver Unmarshaler), whatever the depth, the inline bound and `counts` -/
theorem optdec_namedptr_elem_in_place (maxInline id nf : Nat) (unm basic : Bool) (fields : OTy) (cs : CS) :
    ∃ fs cs', compileAux true maxInline (.nptr (.str id unm nf fields)) basic cs = (.ptr (.body id fs), cs') := by
  simp [compileAux]

/-- hence, at that node, the inline depth the codec happened to be compiled with is irrelevant as far as
    the shape "in place / deferred / Unmarshaler" goes; the counter-model with the depth test first defers the
    element below the bound and compiles it in place above it -/
theorem optdec_namedptr_depth_test_first_depends_on_inline_depth :
    let item := OTy.str 7 true 2 (.fcons .prim (.fcons .prim .fnil))
    let t := OTy.seq (.seq (.seq (.nptr item)))
    (compileAux false 3 t false CS.fresh).1 = .seq (.seq (.seq (.ptr (.defer item)))) ∧
    (compileAux false 8 t false CS.fresh).1 = (compileAux true 8 t false CS.fresh).1 ∧
    (compileAux true 3 t false CS.fresh).1 = (compileAux true 8 t false CS.fresh).1 := by
  decide

end Optdec

/-! ### non-vacuity -/

/-- same four types cached in two orders into tables of different initial capacity, all keys colliding -/
example :
    let f := fun (kvs : List (Nat × Nat)) (e : Nat) => kvs.foldl (fun m kv => add (fun _ => 3) m kv.1 kv.2) (empty (2 ^ e))
    [1, 2, 3, 4, 5].map (get (fun _ => 3) (f [(1, 10), (2, 20), (3, 30), (4, 40)] 0)) =
    [1, 2, 3, 4, 5].map (get (fun _ => 3) (f [(4, 40), (2, 20), (1, 10), (3, 30)] 2)) := by
  decide

/-- three differently named items, given in an order that the sort changes: mapped back correctly -/
example : load 100 [⟨"c", 8⟩, ⟨"a", 0⟩, ⟨"c", 4⟩] = [108, 100, 104] := by decide

/-- the current cache on the old witness history: same program with and without the earlier use -/
example : servedAfter (fun (_ : Nat) (pv : Bool) => if pv then 1 else 0) [(0, false)] (0, true) = 1 ∧
    servedAfter (fun (_ : Nat) (pv : Bool) => if pv then 1 else 0) [] (0, true) = 1 := by decide

end SonicSpec.Props.C09
